#!/bin/sh
# Offline build of the verification framework: regenerate the tables from
# /repo's working tree, build every Lean module and the model driver.
set -e
cd "$(dirname "$0")"
/venv/bin/python harness/extract.py > /dev/null
cd lean
lake build dvdriver
# property modules may legitimately fail to build when /repo has been edited;
# that is for the checks to report, not for setup to fail on
lake build DV || true
