#!/usr/bin/env python3
"""Confirm a seeded change and run the checks against it.

  tools/seedrun.py <prop> <A|B|name> [--src /tmp/seed_out/<prop>] [--checks C01,C02]

1. scratch worktree of /repo HEAD under /tmp: demo passes clean; patch applies;
   suite result unchanged; demo fails with the patch;
2. copies patch/demo/meta to /verif/seeded/<prop>-<name>/;
3. applies the patch to /repo, runs `./check <prop>` (and any extra checks),
   restores /repo; records what was caught in meta.json.
"""
import argparse
import json
import os
import shutil
import subprocess
import sys
import time

VERIF = os.path.dirname(os.path.dirname(os.path.abspath(__file__)))
PY = "/venv/bin/python"


def sh(cmd, cwd=None, env=None, timeout=1800):
    p = subprocess.run(cmd, shell=True, cwd=cwd, env=env, capture_output=True, text=True, timeout=timeout)
    return p.returncode, p.stdout + p.stderr


def suite(tree):
    rc, out = sh(f"PYTHONPATH={tree}/src {PY} -m pytest -q -p no:cacheprovider tests 2>&1 | tail -3", cwd=tree)
    lines = [l for l in out.strip().splitlines() if "passed" in l or "failed" in l]
    import re
    # (the number of warnings is not part of the result: a change may add a deprecation warning)
    return re.sub(r",? *[0-9]+ warnings?", "", re.sub(r" in [0-9.]+s.*", "", lines[-1])) if lines else out[-200:]


def main():
    ap = argparse.ArgumentParser()
    ap.add_argument("prop")
    ap.add_argument("name")
    ap.add_argument("--src")
    ap.add_argument("--checks")
    ap.add_argument("--tier", default="quick")
    args = ap.parse_args()
    prop, name = args.prop, args.name
    src = args.src or f"/tmp/seed_out/{prop}"
    sid = f"{prop}-{name}"
    dest = os.path.join(VERIF, "seeded", sid)
    os.makedirs(dest, exist_ok=True)
    patch = os.path.join(dest, "patch.diff")
    demo = os.path.join(dest, "demo.py")
    if os.path.exists(os.path.join(src, f"{name}.patch.diff")):
        shutil.copy(os.path.join(src, f"{name}.patch.diff"), patch)
        shutil.copy(os.path.join(src, f"{name}_demo.py"), demo)
        agent_meta = json.load(open(os.path.join(src, f"{name}_meta.json")))
    else:
        agent_meta = json.load(open(os.path.join(dest, "meta.json"))).get("agent_meta", {})
    tree = f"/tmp/seedchk_{sid}"
    sh(f"git -C /repo worktree remove --force {tree}")
    rc, out = sh(f"git -C /repo worktree add --detach {tree} HEAD")
    rec = {"property": prop, "id": sid, "agent_meta": agent_meta, "ran": [], "confirmed": False}
    try:
        env = dict(os.environ, PYTHONPATH=f"{tree}/src")
        base = suite(tree)
        rc0, o0 = sh(f"{PY} {demo}", cwd=tree, env=env, timeout=300)
        rec["ran"].append(f"demo on clean tree: exit {rc0}")
        rca, oa = sh(f"git apply --3way {patch} || git apply {patch}", cwd=tree)
        if rca != 0:
            rec["ran"].append("patch does not apply to current HEAD: " + oa[-300:])
            print(json.dumps(rec, indent=1))
            json.dump(rec, open(os.path.join(dest, "meta.json"), "w"), indent=1)
            return 3
        # refresh the stored patch against the current HEAD
        rc_, diff = sh("git diff HEAD", cwd=tree)
        open(patch, "w").write(diff)
        seeded = suite(tree)
        rc1, o1 = sh(f"{PY} {demo}", cwd=tree, env=env, timeout=300)
        rec["ran"].append(f"suite clean: {base} | with change: {seeded}")
        rec["ran"].append(f"demo with change: exit {rc1}")
        rec["confirmed"] = (rc0 == 0 and rc1 != 0 and base == seeded)
    finally:
        sh(f"git -C /repo worktree remove --force {tree}")
    # run checks against /repo with the patch
    checks = (args.checks.split(",") if args.checks else [prop])
    rc_, st = sh("git -C /repo status --porcelain")
    if st.strip():
        print("refusing: /repo has uncommitted changes", st)
        return 2
    results = {}
    # evidence files describe the unchanged tree: keep them out of the seeded run
    saved_ev = {}
    for c in checks:
        ep = os.path.join(VERIF, "evidence", f"{c}.json")
        if os.path.exists(ep):
            saved_ev[ep] = open(ep).read()
    rca, oa = sh(f"git -C /repo apply {patch}")
    try:
        if rca != 0:
            rec["ran"].append("patch does not apply to /repo: " + oa[-300:])
        else:
            for c in checks:
                t = time.time()
                rcc, out = sh(f"./check {c} --tier {args.tier}", cwd=VERIF, timeout=3000)
                vio = [l for l in out.splitlines() if l.startswith("VIOLATION")]
                results[c] = {"exit": rcc, "violation_line": vio[0] if vio else None, "wall_s": round(time.time() - t, 1)}
                if vio:
                    try:
                        rp = vio[0].split("replay=")[1].split(" ")[0]
                        r = json.load(open(rp))
                        v = r["violations"][0]
                        results[c]["first"] = {"kind": v["kind"], "what": str(v["detail"].get("what", ""))[:200],
                                               "line": str(v["detail"].get("line", ""))[:200]}
                    except Exception:
                        pass
    finally:
        sh("git -C /repo checkout -- . && git -C /repo clean -fdq src tests")
        for ep, txt in saved_ev.items():
            open(ep, "w").write(txt)
    rec["checks"] = results
    rec["caught_by"] = [c for c, r in results.items() if r["exit"] == 1]
    rec["what_it_needs"] = agent_meta.get("needs", "")
    json.dump(rec, open(os.path.join(dest, "meta.json"), "w"), indent=1)
    print(json.dumps({k: rec[k] for k in ("id", "confirmed", "ran", "checks", "caught_by")}, indent=1))
    return 0


if __name__ == "__main__":
    sys.exit(main())
