#!/usr/bin/env python3
"""Which lines of the implementation do the checks execute?

  tools/implcov.py run [C06 C07 ...]     run the quick tier of the given checks (default: all) on a scratch copy of /verif
                                         (/tmp/vscov) with DV_IMPLCOV set, then report
  tools/implcov.py report                report from the hit files of the last run

Prints, per source file of the package, the executable lines no check executed, grouped by function — a measure of
what the correspondence harness's generators reach (a line never executed cannot be compared with the model, and a
change on it cannot be seen).  Development aid; its output is summarised in DESIGN.md, no verdict depends on it.
"""
import ast
import glob
import json
import os
import subprocess
import sys

VERIF = os.path.dirname(os.path.dirname(os.path.abspath(__file__)))
SCR = "/tmp/vscov"
SRC = os.environ.get("DV_REPO_SRC", "/repo/src")
FILES = ["diameter/node/node.py", "diameter/node/peer.py", "diameter/node/application.py", "diameter/node/_helpers.py",
         "diameter/message/_base.py", "diameter/message/avp/avp.py", "diameter/message/packer.py",
         "diameter/message/avp/generator.py", "diameter/message/commands/_attributes.py"]


def executable_lines(path):
    src = open(path).read()
    code = compile(src, path, "exec")
    lines = set()

    def walk(co):
        for _, _, ln in co.co_lines():
            if ln:
                lines.add(ln)
        for c in co.co_consts:
            if hasattr(c, "co_lines"):
                walk(c)
    walk(code)
    tree = ast.parse(src)
    funcs = []
    for node in ast.walk(tree):
        if isinstance(node, (ast.FunctionDef, ast.AsyncFunctionDef)):
            funcs.append((node.lineno, node.end_lineno, node.name))
            # docstring lines and the def line itself are not interesting
            lines.discard(node.lineno)
    return lines, sorted(funcs), src.splitlines()


def report():
    hits = set()
    for f in glob.glob(SCR + "/cov/*.json"):
        for fn, ln in json.load(open(f)):
            hits.add((fn, ln))
    total_e = total_h = 0
    for rel in FILES:
        ex, funcs, text = executable_lines(os.path.join(SRC, rel))
        hit = {ln for fn, ln in hits if fn == rel}
        miss = sorted(ex - hit)
        total_e += len(ex)
        total_h += len(ex & hit)
        print(f"== {rel}: {len(ex & hit)}/{len(ex)} executable lines executed")
        by = {}
        for ln in miss:
            owner = [n for a, b, n in funcs if a <= ln <= b]
            by.setdefault(owner[-1] if owner else "<module>", []).append(ln)
        for fn, lns in by.items():
            print(f"   {fn}: " + ", ".join(f"{ln}" for ln in lns[:40]) + (" …" if len(lns) > 40 else ""))
            if "-v" in sys.argv:
                for ln in lns[:40]:
                    print(f"      {ln}: {text[ln - 1].strip()[:110]}")
    print(f"TOTAL {total_h}/{total_e}")


def main():
    if len(sys.argv) > 1 and sys.argv[1] == "run":
        props = [a for a in sys.argv[2:] if a.startswith("C")] or [f"C{i:02d}" for i in range(1, 21)]
        subprocess.run(f"mkdir -p {SCR} && rsync -a --delete --exclude .git --exclude seeded --exclude replays {VERIF}/ {SCR}/ && "
                       f"rm -rf {SCR}/cov && mkdir -p {SCR}/cov", shell=True, check=True)
        procs = []
        for p in props:
            env = dict(os.environ, DV_IMPLCOV=f"{SCR}/cov/{p}")
            procs.append((p, subprocess.Popen(["./check", p], cwd=SCR, env=env, stdout=subprocess.DEVNULL, stderr=subprocess.DEVNULL)))
            if len(procs) >= 6:
                for q, pr in procs:
                    pr.wait()
                    print(q, "exit", pr.returncode, flush=True)
                procs = []
        for q, pr in procs:
            pr.wait()
            print(q, "exit", pr.returncode, flush=True)
    report()


if __name__ == "__main__":
    main()
