#!/usr/bin/env python3
"""Confirm seeded changes and run the checks against them in parallel, on scratch copies.

  tools/seedpar.py [--workers 4] [--src /tmp/seed_out] [--tier quick] C01-U C01-V ...   (or: --all U,V)

Like tools/seedrun.py, but nothing touches /repo or /verif's Lean build: worker k owns a scratch copy of /verif
(/tmp/vs<k>, made with rsync from the working tree, build output included) and a scratch worktree of /repo's HEAD
(/tmp/wts<k>); the checks run there with DV_REPO pointing at the worktree.  Results (patch, demo, meta.json with what
caught the change) are written to /verif/seeded/<id>/.  Development aid only; no registered command uses it.
"""
import argparse
import json
import os
import queue
import re
import shutil
import subprocess
import sys
import threading
import time

VERIF = os.path.dirname(os.path.dirname(os.path.abspath(__file__)))
PY = "/venv/bin/python"
BASE = 0      # --base: offset of the scratch directory numbers (two instances side by side)


def sh(cmd, cwd=None, env=None, timeout=3600):
    try:
        p = subprocess.run(cmd, shell=True, cwd=cwd, env=env, capture_output=True, text=True, timeout=timeout)
        return p.returncode, p.stdout + p.stderr
    except subprocess.TimeoutExpired as e:
        return 124, "timeout " + str(e)


def suite(tree):
    rc, out = sh(f"PYTHONPATH={tree}/src {PY} -m pytest -q -p no:cacheprovider tests 2>&1 | tail -3", cwd=tree)
    lines = [l for l in out.strip().splitlines() if "passed" in l or "failed" in l]
    return re.sub(r",? *[0-9]+ warnings?", "", re.sub(r" in [0-9.]+s.*", "", lines[-1])) if lines else out[-200:]


def reset(tree):
    sh("git checkout -q -- . && git clean -fdq src tests", cwd=tree)


def one(k, sid, src, tier, extra_checks):
    prop, name = sid.split("-")
    vs, wt = f"/tmp/vs{BASE + k}", f"/tmp/wts{BASE + k}"
    dest = os.path.join(VERIF, "seeded", sid)
    os.makedirs(dest, exist_ok=True)
    patch, demo = os.path.join(dest, "patch.diff"), os.path.join(dest, "demo.py")
    sdir = os.path.join(src, prop)
    if os.path.exists(os.path.join(sdir, f"{name}.patch.diff")):
        shutil.copy(os.path.join(sdir, f"{name}.patch.diff"), patch)
        shutil.copy(os.path.join(sdir, f"{name}_demo.py"), demo)
        agent_meta = json.load(open(os.path.join(sdir, f"{name}_meta.json")))
    else:
        agent_meta = json.load(open(os.path.join(dest, "meta.json"))).get("agent_meta", {})
    rec = {"property": prop, "id": sid, "agent_meta": agent_meta, "ran": [], "confirmed": False}
    env = dict(os.environ, PYTHONPATH=f"{wt}/src")
    reset(wt)
    base = suite(wt)
    rc0, _ = sh(f"{PY} {demo}", cwd=wt, env=env, timeout=600)
    rec["ran"].append(f"demo on clean tree: exit {rc0}")
    rca, oa = sh(f"git apply {patch}", cwd=wt)
    if rca != 0:
        rec["ran"].append("patch does not apply to HEAD: " + oa[-300:])
        json.dump(rec, open(os.path.join(dest, "meta.json"), "w"), indent=1)
        reset(wt)
        return rec
    _, diff = sh("git diff HEAD", cwd=wt)
    open(patch, "w").write(diff)
    rec["files_touched"] = re.findall(r"^diff --git a/(\S+)", diff, re.M)
    seeded = suite(wt)
    rc1, _ = sh(f"{PY} {demo}", cwd=wt, env=env, timeout=600)
    rec["ran"].append(f"suite clean: {base} | with change: {seeded}")
    rec["ran"].append(f"demo with change: exit {rc1}")
    rec["confirmed"] = (rc0 == 0 and rc1 != 0 and base == seeded)
    results = {}
    cenv = dict(os.environ, DV_REPO=wt, DV_REPO_SRC=f"{wt}/src")
    for c in [prop] + [x for x in extra_checks if x != prop]:
        t = time.time()
        rcc, out = sh(f"./check {c} --tier {tier}", cwd=vs, env=cenv, timeout=3000)
        vio = [l for l in out.splitlines() if l.startswith("VIOLATION")]
        results[c] = {"exit": rcc, "violation_line": vio[0] if vio else None, "wall_s": round(time.time() - t, 1)}
        if rcc not in (0, 1):
            results[c]["tail"] = out[-600:]
        if vio:
            try:
                rp = vio[0].split("replay=")[1].split(" ")[0]
                if not os.path.isabs(rp):
                    rp = os.path.join(vs, rp)
                rp = rp.replace("/verif/", vs + "/", 1) if rp.startswith("/verif/") and not os.path.exists(rp) else rp
                r = json.load(open(rp))
                v = r["violations"][0]
                results[c]["first"] = {"kind": v["kind"], "what": str(v["detail"].get("what", ""))[:200],
                                       "line": str(v["detail"].get("line", ""))[:200]}
            except Exception as e:  # noqa
                results[c]["first"] = {"kind": "?", "what": f"(replay not read: {e})"}
    reset(wt)
    rec["checks"] = results
    rec["caught_by"] = [c for c, r in results.items() if r["exit"] == 1]
    rec["no_input"] = [c for c, r in results.items() if r["exit"] == 1 and "no-failing-input-found" in (r["violation_line"] or "")]
    rec["what_it_needs"] = agent_meta.get("needs", "")
    json.dump(rec, open(os.path.join(dest, "meta.json"), "w"), indent=1)
    return rec


def main():
    ap = argparse.ArgumentParser()
    ap.add_argument("ids", nargs="*")
    ap.add_argument("--all")
    ap.add_argument("--workers", type=int, default=4)
    ap.add_argument("--src", default="/tmp/seed_out")
    ap.add_argument("--tier", default="quick")
    ap.add_argument("--checks", default="")
    ap.add_argument("--fresh", action="store_true", help="re-copy /verif into the scratch copies")
    ap.add_argument("--base", type=int, default=0)
    a = ap.parse_args()
    global BASE
    BASE = a.base
    ids = list(a.ids)
    if a.all:
        for n in a.all.split(","):
            ids += [f"C{i:02d}-{n}" for i in range(1, 21)]
    extra = [c for c in a.checks.split(",") if c]
    q = queue.Queue()
    for i in ids:
        q.put(i)
    lock = threading.Lock()

    def worker(k):
        vs, wt = f"/tmp/vs{BASE + k}", f"/tmp/wts{BASE + k}"
        if a.fresh or not os.path.isdir(vs):
            sh(f"mkdir -p {vs} && rsync -a --delete --exclude .git --exclude seeded --exclude replays {VERIF}/ {vs}/")
        if not os.path.isdir(wt):
            sh(f"git -C /repo worktree add --detach {wt} HEAD")
        else:
            sh("git checkout -q --detach $(git -C /repo rev-parse HEAD)", cwd=wt)
        while True:
            try:
                sid = q.get_nowait()
            except queue.Empty:
                return
            try:
                r = one(k, sid, a.src, a.tier, extra)
                with lock:
                    print(json.dumps({"id": sid, "confirmed": r["confirmed"], "ran": r["ran"],
                                      "caught_by": r.get("caught_by"), "no_input": r.get("no_input"),
                                      "checks": {c: (v["exit"], v.get("first", {}).get("what", "")[:100]) for c, v in r.get("checks", {}).items()}}), flush=True)
            except Exception as e:  # noqa
                with lock:
                    print(json.dumps({"id": sid, "error": repr(e)}), flush=True)

    ts = [threading.Thread(target=worker, args=(k,)) for k in range(1, a.workers + 1)]
    for t in ts:
        t.start()
    for t in ts:
        t.join()


if __name__ == "__main__":
    sys.exit(main())
