#!/venv/bin/python
"""Deterministic demonstration of a node-level seeded change: replays a scenario
on the real node (tree given by DV_REPO, default /repo) inside the virtual
environment and evaluates the property's oracle.  Exit 0 = property holds."""
import importlib, json, os, sys
V = os.path.dirname(os.path.dirname(os.path.abspath(__file__)))
sys.path.insert(0, os.path.join(V, "harness"))
d = json.load(open(sys.argv[1]))
prop = sys.argv[2].lower()
import nodecheck
mod = importlib.import_module(prop)
obs = nodecheck.run_real(d["scenario"])
fails = mod.oracle(d["scenario"], nodecheck.Obs(obs))
if fails:
    print("FAIL", fails[0]["what"])
    sys.exit(1)
print("PASS")
