#!/bin/bash
# tools/tryseed3.sh <patch-file> <check> [tier]: run one check of the *working tree* of /verif against a patch, on the
# scratch copy /tmp/vsx and the scratch worktree /tmp/wtx (nothing touches /repo).  Development aid only.
patch=$1; chk=$2; tier=${3:-quick}
mkdir -p /tmp/vsx && rsync -a --delete --exclude .git --exclude seeded --exclude replays /verif/ /tmp/vsx/
[ -d /tmp/wtx ] || git -C /repo worktree add --detach /tmp/wtx HEAD -q
cd /tmp/wtx && git checkout -q -- . && git clean -fdq src tests
git apply "$patch" || exit 3
cd /tmp/vsx && DV_REPO=/tmp/wtx DV_REPO_SRC=/tmp/wtx/src ./check $chk --tier $tier 2>&1 | tail -${LINES_OUT:-3}
echo "exit ${PIPESTATUS[0]}"
cd /tmp/wtx && git checkout -q -- . && git clean -fdq src tests
