#!/usr/bin/env python3
"""Regenerate MANIFEST.json from the set of built checks (harness/cNN.py)."""
import json, os
V = os.path.dirname(os.path.dirname(os.path.abspath(__file__)))
props = [json.loads(l) for l in open(os.path.join(V, "properties.jsonl"))]
WHAT = {
 "C01": ("codec (RFC layout, both round trips, per-type domain/rejection)", "C01"),
 "C02": ("message codec, class dispatch (kernel-checked tables), AVP search incl. cache transparency", "C02"),
 "C03": ("attribute-definition tables (kernel-checked per regeneration) and the typed generate/assign model: whole-object round trip (generate, encode, decode, assign) for object trees of any nesting depth", "C03"),
 "C04": ("decoder totality, progress, linear AVP count, error-kind closure", "C04"),
 "C05": ("framing loop: chunking invariance (any frames, any cuts), progress, no silent stall", "C05"),
 "C06": ("capabilities-exchange gate, CER outcome, CE timeout on the node state machine model; for every state and CER, receive_cer makes no connection ready unless it returns normally having queued a 2001 CEA with the CER's hop-by-hop id on that connection; for every sequence of operations: no request is pending with an application for a connection still in CONNECTING/CONNECTED, a connection never re-enters those states, connection objects are never dropped and their id is their position", "C06"),
 "C07": ("node model: no answer in reaction to an answer, answers mirror requests; for every sequence of operations: every pending (connection, hop-by-hop id) pair, every request in a reader queue or socket inbox, belongs to a request the socket of that connection delivered earlier in the history, so an answer route_answer accepts goes to a connection on which a request with its hop-by-hop id was received, and every answer in any write queue or write buffer (node-built or submitted by an application) carries the hop-by-hop id of a request received on that connection; for every state and message: processing one received message queues at most one message, on the receiving connection (the catch-all 5012 is never sent in addition to a handler's own answer; table obligation: DWA / DPA are typed commands)", "C07"),
 "C08": ("node model: 5005/3003/3007/5012 error rules; table obligation on required definitions; for every sequence of operations, whatever reaches an application's request handler (or its queues) is a request of a command other than CER/DWR/DPR (the concurrent entry of two reader threads into the validation function is explored on the real code under single-preemption schedules); for every state and message, processing one received message hands it to at most one application, at most once", "C08"),
 "C09": ("node model: answer routing to the requesting connection; racing submissions for one request (lookup/removal shape extracted from the source): at most one gets through under every schedule; for every sequence of operations the connection route_answer chooses is one on which a request with that hop-by-hop id was received; for every state a refused submission changes no write queue and an accepted one appends exactly the answer to exactly the chosen connection", "C09"),
 "C10": ("node model: request routing to eligible ready peers, id assignment, answer correlation; hop-by-hop ids drawn by concurrent senders from one connection's generator (line skeleton regenerated from the source) are distinct and non-zero under every schedule of any number of threads; for every state an unroutable request changes no write queue and a routed one is appended, with non-zero identifiers, to exactly the chosen connection", "C10"),
 "C11": ("watchdog clauses of the timer check for all clock and timeout values; for every sequence of operations a connection awaiting a DWA carries a valid DWR time stamp, so that in every reachable state the timer check closes it once the DWA timeout is exceeded and sends no second DWR before; for every state a DWR received in either ready sub-state is answered by exactly one 2001 answer on its connection, changes no connection state and reaches no application", "C11"),
 "C12": ("reconnect policy iff-theorem, DPR handling (for every state a DPR on a ready connection is answered by exactly one 2001 answer, leaves the connection in DISCONNECTING — not a routable state — and reaches no application); node model, for every sequence of operations: every connect() the node has issued was to a configured peer whose persistent flag is set, and the flags are never rewritten (non-persistent peers are never dialled); every registered connection the node dialled is the Peer.connection of the peer its node name resolves to, hence never two self-initiated connections to one peer", "C12"),
 "C13": ("node model: the connection/socket tables stay mutually consistent for every sequence of operations (a removed connection is in none of them); removal lemmas for peer records and readiness; for every sequence of operations a peer without connection that has a disconnect time also has a disconnect reason; for every sequence of operations a connection object that is not registered has a closed socket, stopped workers and is in none of the socket / pending-answer tables; for every state the two writers of Application.is_ready: flagging a connection ready sets the applications of its peer ready, removing a connection recomputes the flag (never to ready; not ready once no configured peer has a ready current connection)", "C13"),
 "C14": ("node + threading-application model: no worker dies, every slot accounted for, consumers alive — for every sequence of operations (faults, handler outcomes, consumer/handler schedules)", "C14"),
 "C15": ("write path as an interleaving system of queueing threads, writer and I/O loop (program extracted from the running code): accepted bytes are always a prefix of, finally equal to, the FIFO concatenation, for every schedule, partial write and write error", "C15"),
 "C16": ("identifier generators: never zero, wrap to 1, distinct within the period, start-value and session-id format laws; for the line skeleton extracted from the source, distinctness under every schedule of any number of threads", "C16"),
 "C17": ("retransmission window: reject iff answered-within-window and T; the window is exactly the last rq answered ids for every sequence of answers; a rejected repeat is handed to no application and answered by exactly one message on its connection", "C17"),
 "C18": ("serialised node model: shutdown clauses; the stopping flag is never lowered and, in every state of every continuation of a history containing stop(), timer check, reconnect pass and admission of newcomers do nothing; for every sequence of operations followed by the I/O thread's final pass: no connection is registered, every connection object ever created has a closed socket and stopped workers, and the connection, socket and pending-answer tables are empty (invariant: an open socket belongs to a registered connection); for every state a graceful stop appends nothing but REBOOTING DPRs to the write queues and a forced stop queues nothing", "C18"),
 "C19": ("node model, for every sequence of operations: a connection whose workers run is registered, pending-answer tables exist for registered connections only, and once no connection is registered every worker has stopped and the per-connection tables are empty; step lemmas for the per-transaction tables", "C19"),
 "C20": ("answer class pairing (kernel-checked) and header law", "C20"),
}
PARTIAL = {"C14": "OS-thread liveness and join timing are runtime behaviour: the model carries every place where an exception can escape a worker and the slot bookkeeping; the harness runs the real code with inert thread stubs and checks their liveness and a reconnect-and-serve probe against a fresh node",
           "C15": "preemption points are the source lines that touch shared state (local lines run with the preceding shared line); a line such as `buf += x` is one step — bytecode-level interleavings inside one line are not modelled (the lock that covers them is, as an atom)",
           "C16": "interleavings at source-line granularity of the extracted skeleton; bytecode-level interleavings inside one line are not modelled",
           "C18": "stop() racing the I/O thread on node.connections and join timeouts are schedule/runtime behaviour; stop is modelled as serialised events; the listening sockets and Application.stop() are straight-line code of stop() observed by the correspondence and the direct oracle, not part of the whole-history theorem",
           "C10": "the blocking Event.wait and the timeout/late-answer race are modelled as the two atomic orders",
           "C04": "wall-clock linearity is measured as supporting evidence only",
           "C09": "the serialised node model does not interleave threads; the racing-submissions part models route_answer as two shared-state steps (lookup, removal); equal hop-by-hop ids on two connections are a recorded finding",
           "C19": "per-transaction tables (_origin_waiting_answer, _app_waiting_answer, statistics windows) are covered by step lemmas and by comparing sizes across N on the real code, not by the whole-history induction; _app_waiting_answer never being pruned is a recorded finding",
           "C13": "Peer.connection / application-readiness clauses: step lemmas plus the invariant checked on the real code after every event; a second connection of a connected peer orphaned when the first ends is a recorded finding",
           "C03": "premise of the round-trip theorem: generated AVPs fit the 24-bit length field; objects are compared attribute by attribute (the storage order of a Python __dict__ is not modelled)"}
built = sorted(p["id"] for p in props if os.path.exists(os.path.join(V, "harness", p["id"].lower() + ".py")))
checks = []
for pid in built:
    what, sec = WHAT[pid]
    note = ("trusted: Lean kernel + propext/Classical.choice/Quot.sound (audited per run), translator harness/extract.py, "
            "correspondence harness, CPython primitives as listed in DESIGN.md §3; serialisation assumption for node-level models")
    if pid in PARTIAL:
        note += "; PARTIAL: " + PARTIAL[pid]
    checks.append({
        "property_id": pid, "quick_cmd": f"./check {pid}", "thorough_cmd": f"./check {pid} --tier thorough",
        "evidence_file": f"evidence/{pid}.json", "replay_cmd_template": f"./check {pid} --replay {{path}}",
        "engine": "lean4-model+correspondence",
        "level_claimed": {"category": "proof",
                          "text": f"Lean 4 theorems about a model of the {what}, for all inputs/states; the model is tied to /repo on every run by "
                                  "the regenerated-table translator (kernel-checked table obligations) and a differential correspondence "
                                  "with the real code executed in-process; an independent oracle states the property on the real observations",
                          "design_ref": f"DESIGN.md §6 {sec}"},
        "level_note": note,
        "technique": "Lean 4 machine-checked proof + model/code correspondence"})
m = {"version": 1, "setup_cmd": "./setup.sh",
     "hooks": {"guard": "DIAMETER_VERIF", "enable": "no source hooks are needed: the harness injects a virtual environment into the module namespaces of the imported package",
               "baseline_off_cmd": "cd /repo && /venv/bin/python -m pytest -ra -q -p no:cacheprovider --timeout=900 --continue-on-collection-errors",
               "source_commits": [], "add_only": True},
     "engines": [{"name": "lean4-model+correspondence", "path": "lean/", "serves_properties": built,
                  "kind_free_text": "Lean 4 models, theorems and line-protocol driver (lean/DV); Python translator and correspondence harness (harness/)"}],
     "checks": checks,
     "not_applicable": [{"property_id": p["id"], "reason": "check not built yet in this session (work in progress; see DESIGN.md §10 build order)"}
                        for p in props if p["id"] not in built],
     "notes": "see DESIGN.md; known_findings.txt lists recorded findings and fixed defects"}
json.dump(m, open(os.path.join(V, "MANIFEST.json"), "w"), indent=1)
print("built:", built)
