#!/usr/bin/env python3
"""lake build <targets> under the harness's build lock (safe while checks run)."""
import os, subprocess, sys
sys.path.insert(0, os.path.join(os.path.dirname(os.path.dirname(os.path.abspath(__file__))), "harness"))
from common import Lock, LEAN
with Lock("build"):
    p = subprocess.run(["lake", "build"] + sys.argv[1:], cwd=LEAN)
sys.exit(p.returncode)
