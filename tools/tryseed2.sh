#!/bin/bash
# tools/tryseed2.sh <patch-file> <check> [tier]: like tryseed.sh, but on the scratch copy /tmp/verif2 and the scratch
# worktree /tmp/wt2 (so that it can run while /repo is busy).  Development aid only; not used by any registered command.
patch=$1; chk=$2; tier=${3:-quick}
cd /tmp/wt2 || exit 2
git checkout -q -- . ; git clean -fdq src tests
if [ "$patch" != "-" ]; then git apply "$patch" || exit 3; fi
cp /verif/check /tmp/verif2/check
cd /tmp/verif2 && DV_REPO=/tmp/wt2 DV_REPO_SRC=/tmp/wt2/src ./check $chk --tier $tier 2>&1 | tail -${LINES_OUT:-4}
echo "exit ${PIPESTATUS[0]}"
cd /tmp/wt2 && git checkout -q -- . && git clean -fdq src tests
