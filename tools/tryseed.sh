#!/bin/bash
# tools/tryseed.sh <seed-id> <check> [tier]: apply a stored seed to /repo, run one check, restore /repo and the evidence file
id=$1; chk=$2; tier=${3:-quick}
cd /verif
if [ -n "$(git -C /repo status --porcelain)" ]; then echo "/repo not clean"; exit 2; fi
cp evidence/$chk.json /tmp/ev_$chk.json 2>/dev/null
git -C /repo apply /verif/seeded/$id/patch.diff || exit 3
./check $chk --tier $tier 2>&1 | tail -${LINES_OUT:-4}
git -C /repo checkout -- .
git -C /repo clean -fdq src tests
cp /tmp/ev_$chk.json evidence/$chk.json 2>/dev/null
