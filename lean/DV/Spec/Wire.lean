/-
  RFC 6733 wire layouts, written from the RFC text and independent of the
  model of the Python code (`Model/*`).  The property theorems state
  `model = Spec` under the property's quantifier.
-/
import DV.Model.Avp
namespace DV.Spec
open DV

def be24 (n : Nat) : Bytes := [UInt8.ofNat (n / 65536), UInt8.ofNat (n / 256), UInt8.ofNat n]

/-- number of zero octets after `n` data octets (pad to a multiple of four) -/
def padding (n : Nat) : Nat := (4 - n % 4) % 4

/-- RFC 6733 §4.1: AVP Code (32) | V M P r r r r r (8) | AVP Length (24) =
    header + unpadded data | Vendor-ID (32) iff V | Data | 0–3 zero octets. -/
def avpWire (a : Avp) : Bytes :=
  be32 a.code ++ (UInt8.ofNat a.flags :: be24 ((if a.vendor ≠ 0 then 12 else 8) + a.payload.length))
    ++ (if a.vendor ≠ 0 then be32 a.vendor else []) ++ a.payload
    ++ List.replicate (padding a.payload.length) 0

/-- The quantifier's well-formedness of an AVP object: fields in range, total
    length representable in 24 bits, V bit set iff a vendor id is present. -/
structure AvpWF (a : Avp) : Prop where
  code : a.code < 4294967296
  vendor : a.vendor < 4294967296
  flags : a.flags < 256
  len : a.length < 16777216
  vbit : (a.flags &&& 0x80 ≠ 0) ↔ a.vendor ≠ 0

/-- NTP seconds (era-relative) of a Unix time, RFC 5905 / RFC 6733 §4.3.1:
    seconds since 1900-01-01 modulo 2^32 (era 0 until 2036-02-07T06:28:16Z). -/
def ntpSeconds (epoch : Int) : Int := (epoch + 2208988800) % 4294967296

/-- The documented representable window: 1968-01-20T03:14:08Z … 2104-02-26T09:42:23Z. -/
def timeInDomain (epoch : Int) : Prop := -61505152 ≤ epoch ∧ epoch ≤ 4233462143

end DV.Spec
