/-
  Types of the tables that `harness/extract.py` regenerates from the imported
  `diameter` package on every run (`DV/Generated/*.lean`), and the lookup
  functions that interpret them the way the Python code does.
-/
import DV.Model.Avp

namespace DV

/-- One entry of `AVP_DICTIONARY` / `AVP_VENDOR_DICTIONARY[vendor]`.
    `ty` is the `Ty` tag, `mand` is 0 for absent/None, 1 for True, 2 for False,
    `name` indexes the generated name table. -/
structure DictEntry where
  code : Nat
  vendor : Nat
  ty : Nat
  mand : Nat
  name : Nat
  deriving DecidableEq, Repr, Inhabited

/-- The two Python dicts `AVP_DICTIONARY` and `AVP_VENDOR_DICTIONARY[v]` form one
    finite map keyed by `(vendor, code)` (vendor 0 = the base dictionary).  The
    translator emits it as a binary search tree ordered by `(vendor, code)`;
    `DTree.ordered` (checked in the kernel on every regeneration) makes
    `DTree.lookup` the map's application.  Entries under
    `AVP_VENDOR_DICTIONARY[0]` are unreachable in the source and are not
    emitted (the translator reports how many it skipped). -/
inductive DTree
  | leaf
  | node (l : DTree) (e : DictEntry) (r : DTree)
  deriving Repr, Inhabited

/-- `(v1, c1) < (v2, c2)` lexicographically. -/
def keyLt (v1 c1 v2 c2 : Nat) : Bool := Nat.blt v1 v2 || (Nat.beq v1 v2 && Nat.blt c1 c2)

/-- `get_avp_dictionary_entry(code, vendor)`. -/
def DTree.lookup : DTree → Nat → Nat → Option DictEntry
  | .leaf, _, _ => none
  | .node l e r, code, vendor =>
    if keyLt vendor code e.vendor e.code then l.lookup code vendor
    else if keyLt e.vendor e.code vendor code then r.lookup code vendor
    else some e

def DTree.toList : DTree → List DictEntry
  | .leaf => []
  | .node l e r => l.toList ++ e :: r.toList

def DTree.size : DTree → Nat
  | .leaf => 0
  | .node l _ r => l.size + 1 + r.size

/-- All keys strictly between the optional bounds, recursively (BST invariant),
    type tag one of the 11 typed AVP classes, mandatory tag None/True/False. -/
def DTree.ordered : DTree → Option (Nat × Nat) → Option (Nat × Nat) → Bool
  | .leaf, _, _ => true
  | .node l e r, lo, hi =>
    (match lo with | none => true | some (v, c) => keyLt v c e.vendor e.code) &&
    (match hi with | none => true | some (v, c) => keyLt e.vendor e.code v c) &&
    (Nat.ble 1 e.ty && Nat.ble e.ty 11 && Nat.ble e.mand 2) &&
    l.ordered lo (some (e.vendor, e.code)) && r.ordered (some (e.vendor, e.code)) hi

abbrev lookupDict (d : DTree) (code vendor : Nat) : Option DictEntry := d.lookup code vendor

/-- One `AvpGenDef` of an `avp_def` tuple, plus what the class constructor
    makes of the attribute. -/
structure AttrDef where
  attr : Nat              -- name id of `attr_name`
  code : Nat
  vendor : Nat
  required : Bool
  mand : Nat              -- is_mandatory: 0 None, 1 True, 2 False
  tclass : Option Nat     -- class id of `type_class`
  isList : Bool           -- attribute is a list after construction
  deriving DecidableEq, Repr, Inhabited

/-- Default of an attribute after `cls()`: 0 = unset/None, 1 = empty list,
    2 = an integer default (value in `dflt`), 3 = something else (a class
    object, …; reported by the translator). -/
structure ClassDef where
  id : Nat
  name : Nat
  isMessage : Bool
  defs : List AttrDef
  /-- 0: neither, 1: `additional_avps` (grouped containers), 2: `_additional_avps` (messages) -/
  additional : Nat
  /-- integer defaults set by `__post_init__` (attr name id, value) -/
  intDefaults : List (Nat × Nat)
  /-- attributes whose default is neither None, a list nor an int -/
  oddDefaults : List Nat
  /-- the constructor converts its AVP list into attributes
      (`assign_attr_from_defs(self, self._avps); self._avps = []`), observed -/
  assigns : Bool
  deriving Repr, Inhabited

/-- Behaviour of a message class as observed on the real constructor over all
    256 flag octets: `flags' = (flags &&& andMask) ||| orMask`; the command
    code is forced to `code` when `forcesCode`. -/
structure MsgClass where
  id : Nat
  name : Nat
  code : Nat
  andMask : Nat
  orMask : Nat
  forcesCode : Bool
  /-- 0: subclass of DefinedMessage, 1: of UndefinedMessage, 2: plain Message -/
  kind : Nat
  /-- `type_factory(header)`: class id for R=1 and for R=0 (`none` = returns None) -/
  factoryReq : Option Nat
  factoryAns : Option Nat
  /-- class id of `cls(hdr).to_answer().__class__` as observed -/
  answerClass : Nat
  /-- name id of the class name with a trailing "Request" replaced by "Answer"
      when the name ends in "Request" and such a name exists, else `none` -/
  answerName : Option Nat
  /-- direct base class ids in MRO order (without `object`) -/
  mro : List Nat
  deriving Repr, Inhabited

/-- Class table lookup by id (the table is emitted indexed by id; see
    `classesDense`). -/
def findClass (cs : List ClassDef) (id : Nat) : Option ClassDef := cs[id]?

def findMsgClass (cs : List MsgClass) (id : Nat) : Option MsgClass :=
  cs.find? (fun c => c.id == id)

def lookupCommand (reg : List (Nat × Nat)) (code : Nat) : Option Nat :=
  (reg.find? (fun p => p.1 == code)).map (·.2)

end DV
