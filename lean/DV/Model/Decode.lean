/-
  `Message.from_bytes(data)` with class dispatch and construction, and
  `msg.as_bytes()` of the result.
-/
import DV.Model.Typed
import DV.Model.Undefined
import DV.Model.Config

namespace DV

/-- What `Message.from_bytes` returns. -/
inductive Decoded
  | plain (cls : Nat) (h : Header) (avps : List Avp)            -- `_avps` kept as is
  | typed (cls : Nat) (h : Header) (obj : FVal)                 -- attributes assigned, `_avps = []`
  | undef (cls : Nat) (h : Header) (avps : List Avp) (attrs : List (Nat × UVal))
  deriving Repr, Inhabited

structure Env where
  tc : TimeConsts
  dict : DTree
  classes : List ClassDef
  msgClasses : List MsgClass
  registry : List (Nat × Nat)
  clsMessage : Nat
  clsUndefined : Nat
  /-- canonical representative of a dictionary name id under the
      `UndefinedMessage` attribute-name normalisation -/
  canon : Nat → Nat

def Env.getv (env : Env) : Ty → Bytes → R Value := getValue env.tc Config.addrGuard

/-- Nesting fuel: every level of grouped nesting consumes at least 8 octets of
    its parent's payload, so `len / 8 + 2` levels always suffice. -/
def depthFuel (buf : Bytes) : Nat := buf.length / 8 + 2

/-- Class choice of `Message.from_bytes`. -/
def chooseClass (env : Env) (h : Header) (plainMsg : Bool) : Nat :=
  match lookupCommand env.registry h.code with
  | none => env.clsUndefined
  | some cid =>
    if plainMsg then cid
    else dispatch env.msgClasses env.registry env.clsUndefined h.code (h.flags &&& 0x80 ≠ 0)

/-- Header of the constructed message: the class constructor acts on it, then
    (`Config.decodeKeepsFlags`) the received flag octet is restored. -/
def decodedHeader (mc : MsgClass) (h : Header) : Header :=
  if Config.decodeKeepsFlags then { mc.applyHeader h with flags := h.flags } else mc.applyHeader h

/-- `msg_type(header, avps)`. -/
def construct (env : Env) (cls : Nat) (h : Header) (avps : List Avp) (fuel : Nat) : R Decoded :=
  match findMsgClass env.msgClasses cls with
  | none => .error .other
  | some mc =>
    if mc.kind == 1 then
      match undefAssignFuel env.getv env.dict env.canon fuel avps with
      | .error e => .error e
      | .ok attrs => .ok (.undef cls (decodedHeader mc h) avps attrs)
    else if mc.kind == 0 then
      match findClass env.classes cls with
      | some c =>
        if c.isMessage && c.assigns then
          match assignFuel env.getv env.dict env.classes fuel cls avps with
          | .error e => .error e
          | .ok o => .ok (.typed cls (decodedHeader mc h) o)
        else .ok (.plain cls (decodedHeader mc h) avps)
      | none => .ok (.plain cls (decodedHeader mc h) avps)
    else .ok (.plain cls (decodedHeader mc h) avps)

def decodeMsg (env : Env) (buf : Bytes) (plainMsg : Bool) : R Decoded :=
  match decodeHeader buf with
  | .error e => .error e
  | .ok h =>
    match decodeAvps buf 20 with
    | .error e => .error e
    | .ok avps => construct env (chooseClass env h plainMsg) h avps (depthFuel buf)

/-- `msg.avps` of a decoded message. -/
def Decoded.avps (env : Env) : Decoded → R (List Avp)
  | .plain _ _ a => .ok a
  | .undef _ _ a _ => .ok a
  | .typed _ _ o => generateFuel env.tc env.dict env.classes 64 o

def Decoded.header : Decoded → Header
  | .plain _ h _ => h
  | .undef _ h _ _ => h
  | .typed _ h _ => h

/-- `msg.as_bytes()` of a decoded message. -/
def Decoded.asBytes (env : Env) (d : Decoded) : R Bytes :=
  match d.avps env with
  | .error e => .error e
  | .ok a => encodeMsg d.header a

end DV
