/-
  `Message.from_bytes(data)` with class dispatch and construction, and
  `msg.as_bytes()` of the result.
-/
import DV.Model.Typed
import DV.Model.Undefined
import DV.Model.Config

namespace DV

/-- What `Message.from_bytes` returns. -/
inductive Decoded
  | plain (cls : Nat) (h : Header) (avps : List Avp)            -- `_avps` kept as is
  | typed (cls : Nat) (h : Header) (obj : FVal)                 -- attributes assigned, `_avps = []`
  | undef (cls : Nat) (h : Header) (avps : List Avp) (attrs : List (Nat × UVal))
  deriving Repr, Inhabited

structure Env where
  tc : TimeConsts
  dict : DTree
  classes : List ClassDef
  msgClasses : List MsgClass
  registry : List (Nat × Nat)
  clsMessage : Nat
  clsUndefined : Nat
  /-- canonical representative of a dictionary name id under the
      `UndefinedMessage` attribute-name normalisation -/
  canon : Nat → Nat

def Env.getv (env : Env) : Ty → Bytes → R Value := getValue env.tc Config.addrGuard

/-- Nesting fuel: every level of grouped nesting consumes at least 8 octets of
    its parent's payload, so `len / 8 + 2` levels always suffice. -/
def depthFuel (buf : Bytes) : Nat := buf.length / 8 + 2

def decodeMsg (env : Env) (buf : Bytes) (plainMsg : Bool) : R Decoded := do
  let h ← decodeHeader buf
  let r := h.flags &&& 0x80 ≠ 0
  let cls :=
    match lookupCommand env.registry h.code with
    | none => env.clsUndefined
    | some cid =>
      if plainMsg then cid
      else dispatch env.msgClasses env.registry env.clsUndefined h.code r
  let avps ← decodeAvps buf 20
  match findMsgClass env.msgClasses cls with
  | none => .error .other
  | some mc =>
    let h' := mc.applyHeader h
    if mc.kind == 1 then do
      let attrs ← undefAssignFuel env.getv env.dict env.canon (depthFuel buf) avps
      pure (.undef cls h' avps attrs)
    else if mc.kind == 0 then
      match findClass env.classes cls with
      | some c =>
        if c.isMessage && c.assigns then do
          let o ← assignFuel env.getv env.dict env.classes (depthFuel buf) cls avps
          pure (.typed cls h' o)
        else pure (.plain cls h' avps)
      | none => pure (.plain cls h' avps)
    else pure (.plain cls h' avps)

/-- `msg.avps` of a decoded message. -/
def Decoded.avps (env : Env) : Decoded → R (List Avp)
  | .plain _ _ a => .ok a
  | .undef _ _ a _ => .ok a
  | .typed _ _ o => generateFuel env.tc env.dict env.classes 64 o

def Decoded.header : Decoded → Header
  | .plain _ h _ => h
  | .undef _ h _ _ => h
  | .typed _ h _ => h

/-- `msg.as_bytes()` of a decoded message. -/
def Decoded.asBytes (env : Env) (d : Decoded) : R Bytes := do
  let a ← d.avps env
  encodeMsg d.header a

end DV
