/-
  Hand-maintained model switches that follow `fix:` commits of /repo.  Each is
  tied to the code by the correspondence (a wrong switch makes the model and
  the implementation disagree on the first case that reaches the branch).
-/
namespace DV.Config

/-- `AvpAddress.value` getter wraps `struct.error` / `ValueError` /
    `UnicodeDecodeError` into `AvpDecodeError` (false on the pinned tree). -/
def addrGuard : Bool := false

end DV.Config
