/-
  Hand-maintained model switches that follow `fix:` commits of /repo.  Each is
  tied to the code by the correspondence (a wrong switch makes the model and
  the implementation disagree on the first case that reaches the branch).
-/
namespace DV.Config

/-- `AvpAddress.value` getter wraps `struct.error` / `ValueError` /
    `UnicodeDecodeError` into `AvpDecodeError` (true since the `fix:` commit for C04; false on the pinned tree). -/
def addrGuard : Bool := true

/-- `Message.from_bytes` restores the received flag octet after constructing
    the command class (true since the `fix:` commit for C02; the pinned tree let
    `__post_init__` overwrite the P bit). -/
def decodeKeepsFlags : Bool := true

/-- `Message.to_answer` re-applies the request's P bit after constructing the
    answer class (true since the `fix:` commit for C20). -/
def answerKeepsP : Bool := true

/-- `work_read_queue`: the garbage branch only discards frames with a non-zero
    header length (true since the `fix:` commit; on the pinned tree a zero length made the reader spin). -/
def frameSkipZeroGuard : Bool := true

/-- `work_read_queue`: after discarding an undecodable frame the "incomplete
    header → wait" test still runs (true since the `fix:` commit; the pinned tree `continue`d
    past it and then closed the connection on a short remainder). -/
def frameFallThrough : Bool := true

/-- `_receive_message`'s catch-all handler answers only requests (false on the
    pinned tree, which also "answered" a received answer whose handling raised). -/
def answerOnlyRequests : Bool := true

/-- The capabilities-exchange gate also drops everything received on a
    CONNECTING / CLOSING / CLOSED connection (true since the `fix:` commit). -/
def gateClosing : Bool := true

/-- A synchronous connect failure closes the socket and stops the connection's
    workers (false on the pinned tree, which only removed the table entries). -/
def connectFailCloses : Bool := true

/-- The CER/CEA timeout runs from the establishment of the transport (true since
    the `fix:` commit; the pinned tree measured from the last read). -/
def ceTimeoutFromEstablished : Bool := true

/-- `remove_peer_connection` only resets the peer (connection, disconnect
    reason/time, pending answers) when the removed connection is the peer's
    current one (true since the `fix:` commit). -/
def removeOnlyOwn : Bool := true

/-- `remove_peer_connection` also drops the connection from
    `_half_ready_connections` and `socket_peers` (true since the `fix:` commit). -/
def removeCleansTables : Bool := true

/-- A connection refused by `_add_peer_connection` has its workers stopped
    (true since the `fix:` commit). -/
def rejectStopsWorkers : Bool := true

/-- `_origin_waiting_answer` is keyed by connection as well as by the two
    identifiers (true since the `fix:` commit). -/
def originKeyPerConn : Bool := true

/-- `_receive_message` records the origin of requests only (true since the
    `fix:` commit; the pinned tree also recorded received answers, which were
    never released). -/
def originOnlyRequests : Bool := true

/-- ThreadingApplication: the queue consumers survive a `NotRoutable` from
    `send_answer` (false on the pinned tree: the consumer thread died). -/
def appConsumersCatch : Bool := true

/-- ThreadingApplication: a handler that returns `None` still gives its slot
    back (false on the pinned tree). -/
def slotAlwaysReturned : Bool := true

end DV.Config
