/-
  Codec-level facts about a message as the node sees it (`hasattr`, missing
  required AVPs, the answer class), computed from the regenerated tables.
-/
import DV.Model.Node
import DV.Model.Decode

namespace DV

/-- Every required attribute definition of every class has a dictionary entry
    (so `validate_message_avps` can always build its Failed-AVP member). -/
def requiredDefsResolvable (dict : DTree) (cs : List ClassDef) : Bool :=
  cs.all fun c => c.defs.all fun d => !d.required || (lookupDict dict d.code d.vendor).isSome

end DV

namespace DV.Node
open DV

structure AttrIds where
  originHost : Nat
  destRealm : Nat
  sessionId : Nat
  resultCode : Nat
  failedAvp : Nat
  deriving Repr, Inhabited

def codeOfAttr (ids : AttrIds) : List (Nat × Nat) :=
  [(ids.originHost, 264), (ids.destRealm, 283), (ids.sessionId, 263), (ids.resultCode, 268)]

def msgInfo (env : Env) (ids : AttrIds) (m : AMsg) : MsgInfo :=
  let h : Header := { version := 1, length := 0, flags := m.flags, code := m.cmd, appId := m.app, hbh := m.hbh, e2e := m.e2e }
  let cls := chooseClass env h false
  let mc := findMsgClass env.msgClasses cls
  let cd := findClass env.classes cls
  let typed := match mc, cd with
    | some k, some c => k.kind == 0 && c.isMessage && c.assigns
    | _, _ => false
  let undefined := match mc with
    | some k => k.kind == 1
    | none => false
  let defs := match cd with
    | some c => if typed then c.defs else []
    | none => []
  let hasAttr (attr code : Nat) : Bool :=
    if typed then defs.any (·.attr == attr)
    else if undefined then m.present.contains code
    else false
  let intDefault (a : Nat) : Bool := match cd with
    | some c => c.intDefaults.any (·.1 == a)
    | none => false
  let reqMissing := defs.filter fun d =>
    d.required && !d.isList && !intDefault d.attr && !(m.present.contains (d.vendor * 4294967296 + d.code))
  let validateRaises := reqMissing.any fun d => (lookupDict env.dict d.code d.vendor).isNone
  -- the answer class
  let acls := match mc with
    | some k => k.answerClass
    | none => cls
  let amc := findMsgClass env.msgClasses acls
  let acd := findClass env.classes acls
  let ansTyped := match amc, acd with
    | some k, some c => k.kind == 0 && c.isMessage && !c.defs.isEmpty
    | _, _ => false
  let adefs := match acd with
    | some c => if ansTyped then c.defs else []
    | none => []
  { typed := typed
    hasOH := hasAttr ids.originHost 264
    hasDR := hasAttr ids.destRealm 283
    hasSID := hasAttr ids.sessionId 263
    hasRC := hasAttr ids.resultCode 268
    missing := reqMissing.map (·.code)
    validateRaises := validateRaises
    ansTyped := ansTyped
    ansHasFA := adefs.any (·.attr == ids.failedAvp)
    ansHasSID := adefs.any (·.attr == ids.sessionId)
    ansP := false
    ansDefaults := match acd with | some c => c.intDefaults.length | none => 0 }

end DV.Node
