/-
  The operations of the node model as one datatype: everything the scenario
  driver (Driver/NodeSim.lean) does to the modelled world is an `applyOp`, so
  a theorem about `ops.foldl applyOp w` covers every state the correspondence
  check can drive the model into.
-/
import DV.Model.NodeLoop

namespace DV.Node

inductive Op
  | start (plan : List String)              -- Node.start(): dial the persistent peers
  | accept                                  -- a connection arrives at the listening socket
  | rx (cid : Nat) (e : RxEv)               -- the peer's socket delivers something
  | wr (cid : Nat) (evs : List TxEv)        -- script for the next send() calls
  | block (cid : Nat) (b : Bool)            -- the socket never becomes writable / does again
  | sethbh (cid : Nat) (v : Nat)
  | anon (cid : Nat)                        -- the connection's peer can no longer be resolved (names the node does not know)
  | dial (plan : List String)               -- outcomes of the next connect() calls
  | conn (cid : Nat) (ok : Bool)            -- result of a non-blocking connect
  | adv (dt : Nat)                          -- the clock advances
  | io                                      -- one pass of the I/O loop
  | pump                                    -- every worker thread runs until its queue is empty
  | settle (n : Nat)                        -- I/O passes and pumps until nothing moves (at most n rounds)
  | hold (ai : Nat) (v : Bool)              -- the application's consumers are (not) scheduled
  | outcome (ai : Nat) (o : String)         -- what the request handler will do
  | handler (k : Nat)                       -- the k-th started handler thread runs to completion
  | ans (ai : Nat) (req : AMsg) (rc : Option Nat)  -- Application.send_answer(generate_answer(req, rc)); `none`: no Result-Code
  | reqBegin (ai : Nat) (m : AMsg)          -- Application.send_request up to the wait
  | reqEnd (ai : Nat) (hbh : Nat) (timeout : Nat)   -- … and after it
  | stopBegin (force : Bool)
  | stopFinal
  | note (o : Out)                          -- driver glue: an observation line
  | flush                                   -- driver glue: observations printed

def pushRx (w : World) (cid : Nat) (e : RxEv) : World :=
  match w.st.conn? cid with
  | none => w
  | some c =>
    if c.sockClosed || !c.hasSocket then w
    else if w.inbox.any (·.1 == cid) then
      { w with inbox := w.inbox.map fun (k, l) => if k == cid then (k, l ++ [e]) else (k, l) }
    else { w with inbox := w.inbox ++ [(cid, [e])] }

/-- the answer `send_request` is waiting for, if it has arrived -/
def gotAnswer (s : St) (ai hbh : Nat) : Option (Nat × AMsg) :=
  (s.delivered.filter fun p => p.1 == ai && p.2.hbh == hbh).getLast?

def applyOp (infoOf : AMsg → MsgInfo) (w : World) : Op → World
  | .start plan =>
    let s := { w.st with started := true, dialPlan := plan }
    let s := (List.range s.peers.length).foldl (fun s pi =>
      match s.peers[pi]? with
      | some p => if p.persistent then connectToPeer s pi else s
      | none => s) s
    { w with st := s }
  | .accept => ioIteration { w with acceptQ := w.acceptQ + 1 }
  | .rx cid e => pushRx w cid e
  | .wr cid evs =>
    let known := match w.st.conn? cid with | some c => c.hasSocket | none => false
    if !known then w
    else if w.txScript.any (·.1 == cid) then
      { w with txScript := w.txScript.map fun (c, l) => if c == cid then (c, l ++ evs) else (c, l) }
    else { w with txScript := w.txScript ++ [(cid, evs)] }
  | .block cid b =>
    if b then { w with blocked := w.blocked ++ [cid] } else { w with blocked := w.blocked.filter (· != cid) }
  | .sethbh cid v => { w with st := w.st.modConn cid fun c => { c with hbh := v } }
  | .anon cid => { w with st := w.st.modConn cid fun c => { c with nodeName := "", hostIdentity := "ghost.x" } }
  | .dial plan => { w with st := { w.st with dialPlan := w.st.dialPlan ++ plan } }
  | .conn cid ok =>
    { w with soErr := (w.soErr.filter (·.1 != cid)) ++ [(cid, ok)],
             blocked := w.blocked.filter (· != cid),
             st := { w.st with inProgress := w.st.inProgress.filter (· != cid) } }
  | .adv dt => { w with st := { w.st with now := w.st.now + dt } }
  | .io => ioIteration w
  | .pump => { w with st := pumpAll infoOf w.st }
  | .settle n => settle infoOf n w
  | .hold ai v => { w with st := w.st.modTApp ai fun x => { x with held := v } }
  | .outcome ai o =>
    { w with st := (w.st.modApp ai fun x => { x with raiseOnRequest := o == "raise" || o == "raise0" }).modTApp ai fun x => { x with outcome := o } }
  | .handler k => { w with st := runHandler infoOf w.st k }
  | .ans ai req rc => { w with st := appSendAnswer w.st ai req (infoOf req) rc }
  | .reqBegin ai m => { w with st := (appSendRequestBegin w.st ai m (infoOf m)).1 }
  | .reqEnd ai hbh timeout =>
    let st := w.st
    let got := gotAnswer st ai hbh
    let st := { st with delivered := st.delivered.filter fun p => !(p.1 == ai && p.2.hbh == hbh) }
    let st := if got.isSome then st else { st with now := st.now + timeout }
    { w with st := (appSendRequestEnd st ai hbh).1 }
  | .stopBegin force => { w with st := stopBegin w.st force }
  | .stopFinal => { w with st := stopFinal w.st }
  | .note o => { w with st := w.st.emit o }
  | .flush => { w with st := { w.st with outs := [] } }

/-- Every world the driver can reach from `w`. -/
def run (infoOf : AMsg → MsgInfo) (w : World) (ops : List Op) : World := ops.foldl (applyOp infoOf) w

end DV.Node
