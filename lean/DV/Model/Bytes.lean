/-
  Byte-level primitives of the codec model.

  Mirrors `diameter/message/packer.py` (a copy of CPython's xdrlib): big-endian
  32-bit words, fixed-length opaque data padded to a multiple of four, an
  unpacker with an explicit position.  Python integers are unbounded, so the
  model works over `Nat` and keeps the range checks that `struct.pack` makes
  (out of range → `struct.error`, which `raise_conversion_error` turns into
  `ConversionError`).
-/
namespace DV

abbrev Bytes := List UInt8

/-- The Python exception classes that the modelled code can raise. -/
inductive Exc
  | conversion        -- diameter.message.packer.ConversionError
  | avpDecode         -- diameter.message.avp.errors.AvpDecodeError
  | avpEncode         -- diameter.message.avp.errors.AvpEncodeError
  | structError       -- struct.error
  | valueError        -- ValueError
  | unicodeDecode     -- UnicodeDecodeError
  | typeError         -- TypeError
  | overflowError     -- OverflowError
  | attributeError    -- AttributeError
  | other             -- anything else
  deriving DecidableEq, Repr, Inhabited

def Exc.name : Exc → String
  | .conversion => "ConversionError"
  | .avpDecode => "AvpDecodeError"
  | .avpEncode => "AvpEncodeError"
  | .structError => "error"
  | .valueError => "ValueError"
  | .unicodeDecode => "UnicodeDecodeError"
  | .typeError => "TypeError"
  | .overflowError => "OverflowError"
  | .attributeError => "AttributeError"
  | .other => "Other"

abbrev R := Except Exc

/-- Four big-endian octets of `n` (octet k is `n / 256^(3-k) mod 256`). -/
def be32 (n : Nat) : Bytes :=
  [UInt8.ofNat (n / 16777216), UInt8.ofNat (n / 65536), UInt8.ofNat (n / 256), UInt8.ofNat n]

/-- Value of four big-endian octets. -/
def rd32 (a b c d : UInt8) : Nat :=
  a.toNat * 16777216 + b.toNat * 65536 + c.toNat * 256 + d.toNat

def be16 (n : Nat) : Bytes := [UInt8.ofNat (n / 256), UInt8.ofNat n]

def be64 (n : Nat) : Bytes := be32 (n / 4294967296) ++ be32 (n % 4294967296)

/-- `struct.pack('>L', x)` behind `raise_conversion_error`. -/
def packUint (n : Nat) : R Bytes :=
  if n < 4294967296 then .ok (be32 n) else .error .conversion

/-- `Packer.pack_fstring(n, s)` for `n ≥ 0`: `s[:n]` padded with zero octets to
    `((n+3)//4)*4`. -/
def packFopaque (n : Nat) (s : Bytes) : Bytes :=
  let d := s.take n
  d ++ List.replicate ((n + 3) / 4 * 4 - d.length) 0

/-- Python's `(n + 3) & ~3` on a non-negative integer. -/
def pad4 (n : Nat) : Nat := (n + 3) / 4 * 4

/-- `Unpacker.unpack_uint()` at position `pos`: value and new position. The
    real code advances the position before the length check; after the error
    the position is never used again (the exception propagates), so the model
    does not carry it on the error path. -/
def unpackUint (buf : Bytes) (pos : Nat) : R (Nat × Nat) :=
  match buf.drop pos with
  | a :: b :: c :: d :: _ => .ok (rd32 a b c d, pos + 4)
  | _ => .error .conversion

/-- `Unpacker.unpack_fstring(n)` for `n ≥ 0`. -/
def unpackFopaque (buf : Bytes) (pos n : Nat) : R (Bytes × Nat) :=
  let j := pos + pad4 n
  if j > buf.length then .error .conversion
  else .ok ((buf.drop pos).take n, j)

def hexDigit (n : Nat) : Char :=
  if n < 10 then Char.ofNat (48 + n) else Char.ofNat (87 + n)

def toHex (b : Bytes) : String :=
  String.ofList (b.foldr (fun x acc => hexDigit (x.toNat / 16) :: hexDigit (x.toNat % 16) :: acc) [])

def hexVal (c : Char) : Option Nat :=
  if '0' ≤ c ∧ c ≤ '9' then some (c.toNat - 48)
  else if 'a' ≤ c ∧ c ≤ 'f' then some (c.toNat - 87)
  else if 'A' ≤ c ∧ c ≤ 'F' then some (c.toNat - 55)
  else none

def ofHexChars : List Char → Option Bytes
  | [] => some []
  | a :: b :: rest => do
      let x ← hexVal a
      let y ← hexVal b
      let r ← ofHexChars rest
      pure (UInt8.ofNat (x * 16 + y) :: r)
  | _ => none

def ofHex (s : String) : Option Bytes := ofHexChars s.toList

end DV
