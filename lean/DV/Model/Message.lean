/-
  Message header and message codec, class dispatch, AVP search, `to_answer`.
  Mirrors `diameter/message/_base.py`.
-/
import DV.Model.Tables
import DV.Model.TableWF

namespace DV

structure Header where
  version : Nat
  length : Nat
  flags : Nat
  code : Nat
  appId : Nat
  hbh : Nat
  e2e : Nat
  deriving DecidableEq, Repr, Inhabited

/-- `MessageHeader.as_packed`: five `pack_uint` of Python-int expressions. -/
def encodeHeader (h : Header) : R Bytes := do
  let a ← packUint ((h.version <<< 24) ||| h.length)
  let b ← packUint ((h.flags <<< 24) ||| h.code)
  let c ← packUint h.appId
  let d ← packUint h.hbh
  let e ← packUint h.e2e
  pure (a ++ b ++ c ++ d ++ e)

/-- `MessageHeader.from_bytes`. -/
def decodeHeader (buf : Bytes) : R Header := do
  let (vl, p1) ← unpackUint buf 0
  let (fc, p2) ← unpackUint buf p1
  let (app, p3) ← unpackUint buf p2
  let (hbh, p4) ← unpackUint buf p3
  let (e2e, _) ← unpackUint buf p4
  pure { version := vl >>> 24, length := vl &&& 0x00ffffff, flags := fc >>> 24,
         code := fc &&& 0x00ffffff, appId := app, hbh := hbh, e2e := e2e }

/-- `Message.as_bytes` of a message whose AVP list is `avps`: the header length
    field is overwritten with 20 + the encoded AVP bytes. -/
def encodeMsg (h : Header) (avps : List Avp) : R Bytes := do
  let body ← encodeAvps avps
  let hb ← encodeHeader { h with length := 20 + body.length }
  pure (hb ++ body)

/-- `Message.from_bytes(data, plain_msg=True)` up to class construction: header
    and the AVP list read from offset 20 to the end of `data` (the header's
    length field is not consulted). -/
def decodeMsgPlain (buf : Bytes) : R (Header × List Avp) := do
  let h ← decodeHeader buf
  let avps ← decodeAvps buf 20
  pure (h, avps)

/-! ## AVP search -/

/-- Which AVPs are grouped is a dictionary fact: `isinstance(avp, AvpGrouped)`
    holds for AVPs created by `from_unpacker` iff the dictionary type is
    Grouped. -/
def isGroupedAvp (dict : DTree) (a : Avp) : Bool :=
  match lookupDict dict a.code a.vendor with
  | some e => e.ty == tagGrouped
  | none => false

/-- `_traverse_avp_tree` with the grouped value parsed on demand; a grouped
    AVP whose payload does not parse raises `AvpDecodeError`. Structural in the
    path, as the Python recursion is. -/
def traverse (dict : DTree) : List (Nat × Nat) → List Avp → R (List Avp)
  | [], _ => .ok []
  | (code, vendor) :: rest, avps =>
    avps.foldlM (init := []) fun found a =>
      if a.code == code && a.vendor == vendor then
        if rest.isEmpty then pure (found ++ [a])
        else if !isGroupedAvp dict a then pure (found ++ [a])
        else match decodeAvps a.payload 0 with
          | .error _ => .error .avpDecode
          | .ok sub => do
            let r ← traverse dict rest sub
            pure (found ++ r)
      else pure found

/-- `Message.find_avps` with its cache: the cache maps the rendered path to the
    first result computed for it. -/
structure FindCache where
  entries : List (List (Nat × Nat) × List Avp)
  deriving Repr, Inhabited

def findAvps (dict : DTree) (avps : List Avp) (cache : FindCache) (path : List (Nat × Nat)) :
    R (List Avp × FindCache) :=
  if path.isEmpty then .ok ([], cache)
  else match cache.entries.find? (fun p => p.1 == path) with
    | some (_, r) => .ok (r, cache)
    | none => do
      let r ← traverse dict path avps
      pure (r, { entries := cache.entries ++ [(path, r)] })

/-! ## to_answer -/

/-- Header built by `Message.to_answer` before the answer class's constructor
    runs: version/code/app/ids copied, flags = the request's P bit only. -/
def answerHeaderPre (h : Header) : Header :=
  { version := h.version, length := 0, flags := h.flags &&& 0x40, code := h.code,
    appId := h.appId, hbh := h.hbh, e2e := h.e2e }

/-- Effect of constructing message class `c` on a header. -/
def MsgClass.applyHeader (c : MsgClass) (h : Header) : Header :=
  { h with flags := c.applyFlags h.flags, code := if c.forcesCode then c.code else h.code }

/-- `request.to_answer().header` for a request of class `c`. -/
def toAnswerHeader (mcs : List MsgClass) (c : MsgClass) (h : Header) : Header :=
  match findMsgClass mcs c.answerClass with
  | some a => a.applyHeader (answerHeaderPre h)
  | none => answerHeaderPre h

end DV
