/-
  Message header and message codec, class dispatch, AVP search, `to_answer`.
  Mirrors `diameter/message/_base.py`.
-/
import DV.Model.Tables
import DV.Model.TableWF
import DV.Model.Config

namespace DV

structure Header where
  version : Nat
  length : Nat
  flags : Nat
  code : Nat
  appId : Nat
  hbh : Nat
  e2e : Nat
  deriving DecidableEq, Repr, Inhabited

/-- `MessageHeader.as_packed`: five `pack_uint` of Python-int expressions; any
    of them out of the 32-bit range raises `ConversionError`. -/
def encodeHeader (h : Header) : R Bytes :=
  if ((h.version <<< 24) ||| h.length) < 4294967296 ∧ ((h.flags <<< 24) ||| h.code) < 4294967296 ∧
      h.appId < 4294967296 ∧ h.hbh < 4294967296 ∧ h.e2e < 4294967296 then
    .ok (be32 ((h.version <<< 24) ||| h.length) ++ be32 ((h.flags <<< 24) ||| h.code) ++
         be32 h.appId ++ be32 h.hbh ++ be32 h.e2e)
  else .error .conversion

/-- `MessageHeader.from_bytes`: five `unpack_uint` from offset 0; fewer than 20
    octets raise `ConversionError`. -/
def u32At (buf : Bytes) (i : Nat) : Nat :=
  rd32 (buf.getD i 0) (buf.getD (i + 1) 0) (buf.getD (i + 2) 0) (buf.getD (i + 3) 0)

def decodeHeader (buf : Bytes) : R Header :=
  if buf.length < 20 then .error .conversion
  else .ok { version := u32At buf 0 >>> 24, length := u32At buf 0 &&& 0x00ffffff,
             flags := u32At buf 4 >>> 24, code := u32At buf 4 &&& 0x00ffffff,
             appId := u32At buf 8, hbh := u32At buf 12, e2e := u32At buf 16 }

/-- `Message.as_bytes` of a message whose AVP list is `avps`: the header length
    field is overwritten with 20 + the encoded AVP bytes. -/
def encodeMsg (h : Header) (avps : List Avp) : R Bytes :=
  match encodeAvps avps with
  | .error e => .error e
  | .ok body =>
    match encodeHeader { h with length := 20 + body.length } with
    | .error e => .error e
    | .ok hb => .ok (hb ++ body)

/-- `Message.from_bytes(data, plain_msg=True)` up to class construction: header
    and the AVP list read from offset 20 to the end of `data` (the header's
    length field is not consulted). -/
def decodeMsgPlain (buf : Bytes) : R (Header × List Avp) :=
  match decodeHeader buf with
  | .error e => .error e
  | .ok h =>
    match decodeAvps buf 20 with
    | .error e => .error e
    | .ok avps => .ok (h, avps)

/-! ## AVP search -/

/-- Which AVPs are grouped is a dictionary fact: `isinstance(avp, AvpGrouped)`
    holds for AVPs created by `from_unpacker` iff the dictionary type is
    Grouped. -/
def isGroupedAvp (dict : DTree) (a : Avp) : Bool :=
  match lookupDict dict a.code a.vendor with
  | some e => e.ty == tagGrouped
  | none => false

/-- One level of `_traverse_avp_tree`: the `for avp in avps` loop with the
    recursive call abstracted as `sub`. Errors surface in wire order, as the
    Python loop raises at the first failing element. -/
def travLevel (code vendor : Nat) (last : Bool) (isG : Avp → Bool)
    (sub : List Avp → R (List Avp)) : List Avp → R (List Avp)
  | [] => .ok []
  | a :: r =>
    let here : R (List Avp) :=
      if a.code == code && a.vendor == vendor then
        if last || !isG a then .ok [a]
        else match decodeAvps a.payload 0 with
          | .error _ => .error .avpDecode
          | .ok s => sub s
      else .ok []
    match here with
    | .error e => .error e
    | .ok x =>
      match travLevel code vendor last isG sub r with
      | .error e => .error e
      | .ok y => .ok (x ++ y)

/-- `_traverse_avp_tree` with the grouped value parsed on demand; a grouped
    AVP whose payload does not parse raises `AvpDecodeError`. Structural in the
    path, as the Python recursion is. -/
def traverse (dict : DTree) : List (Nat × Nat) → List Avp → R (List Avp)
  | [], _ => .ok []
  | (code, vendor) :: rest, avps =>
    travLevel code vendor rest.isEmpty (isGroupedAvp dict) (traverse dict rest) avps

/-- `Message.find_avps` with its cache: the cache maps the rendered path to the
    first result computed for it. -/
structure FindCache where
  entries : List (List (Nat × Nat) × List Avp)
  deriving Repr, Inhabited

def findAvps (dict : DTree) (avps : List Avp) (cache : FindCache) (path : List (Nat × Nat)) :
    R (List Avp × FindCache) :=
  if path.isEmpty then .ok ([], cache)
  else match cache.entries.find? (fun p => p.1 == path) with
    | some (_, r) => .ok (r, cache)
    | none =>
      match traverse dict path avps with
      | .error e => .error e
      | .ok r => .ok (r, { entries := cache.entries ++ [(path, r)] })

/-! ## to_answer -/

/-- Header built by `Message.to_answer` before the answer class's constructor
    runs: version/code/app/ids copied, flags = the request's P bit only. -/
def answerHeaderPre (h : Header) : Header :=
  { version := h.version, length := 0, flags := h.flags &&& 0x40, code := h.code,
    appId := h.appId, hbh := h.hbh, e2e := h.e2e }

/-- Effect of constructing message class `c` on a header. -/
def MsgClass.applyHeader (c : MsgClass) (h : Header) : Header :=
  { h with flags := c.applyFlags h.flags, code := if c.forcesCode then c.code else h.code }

/-- `header.is_proxyable = b` (`flags | 0x40` / `flags & ~0x40`). -/
def setP (f : Nat) (b : Bool) : Nat := if b then f ||| 0x40 else f - (f &&& 0x40)

/-- `request.to_answer().header` for a request of class `c`. -/
def toAnswerHeader (mcs : List MsgClass) (c : MsgClass) (h : Header) : Header :=
  let a := match findMsgClass mcs c.answerClass with
    | some a => a.applyHeader (answerHeaderPre h)
    | none => answerHeaderPre h
  if Config.answerKeepsP then { a with flags := setP a.flags (h.flags &&& 0x40 ≠ 0) } else a

end DV
