/-
  `UndefinedMessage._assign_attr_values`: every received AVP becomes an
  attribute named after the dictionary name (lower case, `-` → `_`); a repeated
  name becomes a list in wire order; grouped AVPs become nested objects.
  Reading the value of every non-grouped AVP happens during construction, so
  its exceptions escape `Message.from_bytes`.
-/
import DV.Model.Message

namespace DV

inductive UVal
  | v (x : Value)
  | grp (fields : List (Nat × UVal))
  | many (l : List UVal)
  deriving Repr, Inhabited

/-- name id used for AVPs without a dictionary entry (`Avp.name = "Unknown"`) -/
def unknownName : Nat := 1000000000

def uAdd (fields : List (Nat × UVal)) (k : Nat) (x : UVal) : List (Nat × UVal) :=
  match fields.find? (fun p => p.1 == k) with
  | none => fields ++ [(k, x)]
  | some (_, .many l) => fields.map (fun p => if p.1 == k then (k, .many (l ++ [x])) else p)
  | some (_, old) => fields.map (fun p => if p.1 == k then (k, .many [old, x]) else p)

/-- `sameAttr a b`: do dictionary names `a` and `b` normalise to the same Python
    attribute name?  Supplied by the driver (string comparison); the model keys
    attributes by the first name id seen for each normalised name. -/
def undefAssignFuel (getv : Ty → Bytes → R Value) (dict : DTree) (canon : Nat → Nat) :
    Nat → List Avp → R (List (Nat × UVal))
  | 0, _ => .error .other
  | fuel + 1, avps =>
    avps.foldlM (init := []) fun fields a =>
      let (ety, nm) := match lookupDict dict a.code a.vendor with
        | some e => (Ty.ofTag e.ty, canon e.name)
        | none => (Ty.untyped, unknownName)
      if ety == .grouped then
        match decodeAvps a.payload 0 with
        | .error _ => .error .avpDecode
        | .ok sub => do
          let g ← undefAssignFuel getv dict canon fuel sub
          pure (uAdd fields nm (.grp g))
      else
        match getv ety a.payload with
        | .error e => .error e
        | .ok x => pure (uAdd fields nm (.v x))

end DV
