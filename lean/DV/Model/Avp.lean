/-
  AVP header codec and per-type value codecs.

  Mirrors `diameter/message/avp/avp.py` operation by operation (`as_packed`,
  `from_unpacker`, `length`, the flag setters, the `value` getters/setters of
  the 13 AVP types), including the Python exception class of each failure.
-/
import DV.Model.Bytes

namespace DV

/-- AVP data types (the subclasses of `Avp`; `Enumerated` is an alias of
    `Integer32` in the source and is tagged separately only for reporting). -/
inductive Ty
  | untyped | address | float32 | float64 | grouped | integer32 | integer64
  | octetString | unsigned32 | unsigned64 | utf8String | time
  deriving DecidableEq, Repr, Inhabited

def Ty.ofTag : Nat → Ty
  | 1 => .address | 2 => .float32 | 3 => .float64 | 4 => .grouped | 5 => .integer32
  | 6 => .integer64 | 7 => .octetString | 8 => .unsigned32 | 9 => .unsigned64
  | 10 => .utf8String | 11 => .time | _ => .untyped

def Ty.tag : Ty → Nat
  | .untyped => 0 | .address => 1 | .float32 => 2 | .float64 => 3 | .grouped => 4
  | .integer32 => 5 | .integer64 => 6 | .octetString => 7 | .unsigned32 => 8
  | .unsigned64 => 9 | .utf8String => 10 | .time => 11

/-- The state of a Python `Avp` object that the codec reads or writes. -/
structure Avp where
  code : Nat
  vendor : Nat
  flags : Nat
  payload : Bytes
  deriving DecidableEq, Repr, Inhabited

def flagV : Nat := 0x80
def flagM : Nat := 0x40
def flagP : Nat := 0x20

/-- `Avp.vendor_id` setter applied to `flags` (`|= 0x80` / `&= ~0x80`). -/
def setVendorBit (flags vendor : Nat) : Nat :=
  if vendor ≠ 0 then flags ||| flagV else flags - (flags &&& flagV)

/-- `Avp.__init__(code, vendor_id, payload, flags)`: the V bit is re-derived
    from the vendor id. -/
def Avp.mk' (code vendor : Nat) (payload : Bytes) (flags : Nat) : Avp :=
  { code, vendor, flags := setVendorBit flags vendor, payload }

/-- `Avp.length`: 8, plus 4 with a vendor id, plus the unpadded payload. -/
def Avp.length (a : Avp) : Nat :=
  (if a.vendor ≠ 0 then 12 else 8) + a.payload.length

/-- `Avp.as_packed`. -/
def encodeAvp (a : Avp) : R Bytes :=
  if a.code < 4294967296 ∧ (a.length ||| (a.flags <<< 24)) < 4294967296 ∧ a.vendor < 4294967296 then
    .ok (be32 a.code ++ be32 (a.length ||| (a.flags <<< 24)) ++
         (if a.vendor ≠ 0 then be32 a.vendor else []) ++ packFopaque (pad4 a.payload.length) a.payload)
  else .error .conversion

/-- `Avp.from_unpacker` without the dictionary dispatch: header fields,
    payload, new position. `avp_length` may go non-positive, in which case no
    payload is read. -/
def decodeAvpBody (buf : Bytes) (code fl p2 : Nat) : R (Avp × Nat) :=
  if (fl >>> 24) &&& flagV ≠ 0 then
    match unpackUint buf p2 with
    | .error e => .error e
    | .ok (vendor, p3) =>
      if (fl &&& 0x00ffffff) > 12 then
        match unpackFopaque buf p3 ((fl &&& 0x00ffffff) - 12) with
        | .error e => .error e
        | .ok (pl, p4) => .ok (Avp.mk' code vendor pl (fl >>> 24), p4)
      else .ok (Avp.mk' code vendor [] (fl >>> 24), p3)
  else
    if (fl &&& 0x00ffffff) > 8 then
      match unpackFopaque buf p2 ((fl &&& 0x00ffffff) - 8) with
      | .error e => .error e
      | .ok (pl, p4) => .ok (Avp.mk' code 0 pl (fl >>> 24), p4)
    else .ok (Avp.mk' code 0 [] (fl >>> 24), p2)

def decodeAvp (buf : Bytes) (pos : Nat) : R (Avp × Nat) :=
  match unpackUint buf pos with
  | .error e => .error e
  | .ok (code, p1) =>
    match unpackUint buf p1 with
    | .error e => .error e
    | .ok (fl, p2) => decodeAvpBody buf code fl p2

/-- Decode AVPs until the unpacker is done (`while not unpacker.is_done()`),
    with explicit fuel; `decodeAvps buf pos (buf.length)` always suffices
    because each AVP consumes at least 8 octets (theorem `decodeAvps_fuel`). -/
def decodeAvpsFuel (buf : Bytes) : Nat → Nat → R (List Avp)
  | 0, pos => if pos ≥ buf.length then .ok [] else .error .other
  | fuel + 1, pos =>
    if pos ≥ buf.length then .ok []
    else match decodeAvp buf pos with
      | .error e => .error e
      | .ok (a, p) => match decodeAvpsFuel buf fuel p with
        | .error e => .error e
        | .ok rest => .ok (a :: rest)

def decodeAvps (buf : Bytes) (pos : Nat) : R (List Avp) :=
  decodeAvpsFuel buf (buf.length + 1) pos

/-- Concatenated `as_packed` of a list (what `AvpGrouped.value = [...]` and
    `Message.as_bytes` do). -/
def encodeAvps : List Avp → R Bytes
  | [] => .ok []
  | a :: rest =>
    match encodeAvp a with
    | .error e => .error e
    | .ok x =>
      match encodeAvps rest with
      | .error e => .error e
      | .ok y => .ok (x ++ y)

/-! ## Values -/

/-- Python values of the AVP types, canonicalised: floats are their wire bit
    patterns, text is its UTF-8 octets, time is whole epoch seconds (TZ=UTC),
    an address is (family, packed octets). -/
inductive Value
  | int (i : Int)
  | f32 (bits : Nat)
  | f64 (bits : Nat)
  | bytes (b : Bytes)
  | str (utf8 : Bytes)
  | time (epoch : Int)
  | addr (family : Nat) (raw : Bytes)
  | avps (l : List Avp)
  deriving Repr, Inhabited

/-- Strict UTF-8 validity as CPython's `bytes.decode("utf8")` decides it:
    shortest form only, no surrogates, at most U+10FFFF. -/
def validUtf8 : Bytes → Bool
  | [] => true
  | b0 :: rest =>
    if b0 < 0x80 then validUtf8 rest
    else if b0 < 0xC2 then false
    else if b0 < 0xE0 then
      match rest with
      | b1 :: r => (0x80 ≤ b1 && b1 ≤ 0xBF) && validUtf8 r
      | _ => false
    else if b0 < 0xF0 then
      match rest with
      | b1 :: b2 :: r =>
        let lo : UInt8 := if b0 == 0xE0 then 0xA0 else 0x80
        let hi : UInt8 := if b0 == 0xED then 0x9F else 0xBF
        (lo ≤ b1 && b1 ≤ hi) && (0x80 ≤ b2 && b2 ≤ 0xBF) && validUtf8 r
      | _ => false
    else if b0 < 0xF5 then
      match rest with
      | b1 :: b2 :: b3 :: r =>
        let lo : UInt8 := if b0 == 0xF0 then 0x90 else 0x80
        let hi : UInt8 := if b0 == 0xF4 then 0x8F else 0xBF
        (lo ≤ b1 && b1 ≤ hi) && (0x80 ≤ b2 && b2 ≤ 0xBF) && (0x80 ≤ b3 && b3 ≤ 0xBF) && validUtf8 r
      | _ => false
    else false

def nat32 (p : Bytes) : Option Nat :=
  match p with
  | [a, b, c, d] => some (rd32 a b c d)
  | _ => none

def nat64 (p : Bytes) : Option Nat :=
  match p with
  | [a, b, c, d, e, f, g, h] => some (rd32 a b c d * 4294967296 + rd32 e f g h)
  | _ => none

/-- Constants of `AvpTime`, regenerated from the source into
    `Generated/Constants.lean` and compared there. -/
structure TimeConsts where
  since1900 : Nat
  overflowTs : Nat
  cutoff : Nat

/-- `value` getter of each type on a raw payload. The `address` case mirrors
    the source's unguarded code: `struct.unpack(">H", payload[:2])` raises
    `struct.error` on fewer than two octets, `inet_ntop` raises `ValueError` on
    a wrong-sized address, `.decode("utf-8")` raises `UnicodeDecodeError`.
    `addrGuard = true` models a getter that wraps those into `AvpDecodeError`
    (the repaired code). -/
def getValue (tc : TimeConsts) (addrGuard : Bool) (ty : Ty) (p : Bytes) : R Value :=
  match ty with
  | .untyped => .ok (.bytes p)
  | .octetString => .ok (.bytes p)
  | .utf8String => if validUtf8 p then .ok (.str p) else .error .avpDecode
  | .integer32 =>
    match nat32 p with
    | some n => .ok (.int (if n < 2147483648 then n else (n : Int) - 4294967296))
    | none => .error .avpDecode
  | .unsigned32 =>
    match nat32 p with
    | some n => .ok (.int n)
    | none => .error .avpDecode
  | .integer64 =>
    match nat64 p with
    | some n => .ok (.int (if n < 9223372036854775808 then n else (n : Int) - 18446744073709551616))
    | none => .error .avpDecode
  | .unsigned64 =>
    match nat64 p with
    | some n => .ok (.int n)
    | none => .error .avpDecode
  | .float32 =>
    match nat32 p with
    | some n => .ok (.f32 n)
    | none => .error .avpDecode
  | .float64 =>
    match nat64 p with
    | some n => .ok (.f64 n)
    | none => .error .avpDecode
  | .time =>
    match nat32 p with
    | some n =>
      if n < tc.cutoff then .ok (.time ((n : Int) + tc.overflowTs))
      else .ok (.time ((n : Int) - tc.since1900))
    | none => .error .avpDecode
  | .address =>
    match p with
    | a :: b :: rest =>
      let fam := a.toNat * 256 + b.toNat
      if fam == 1 then
        if rest.length == 4 then .ok (.addr 1 rest)
        else .error (if addrGuard then .avpDecode else .valueError)
      else if fam == 2 then
        if rest.length == 16 then .ok (.addr 2 rest)
        else .error (if addrGuard then .avpDecode else .valueError)
      else if fam == 8 then
        if validUtf8 rest then .ok (.addr 8 rest)
        else .error (if addrGuard then .avpDecode else .unicodeDecode)
      else .ok (.addr fam rest)
    | _ => .error (if addrGuard then .avpDecode else .structError)
  | .grouped =>
    match decodeAvps p 0 with
    | .ok l => .ok (.avps l)
    | .error _ => .error .avpDecode

/-- Two's complement of `i` in `bits` bits, if in range (`struct.pack`). -/
def twos (bits : Nat) (i : Int) : Option Nat :=
  if 0 ≤ i ∧ i < (2 : Int) ^ (bits - 1) then some i.toNat
  else if -((2 : Int) ^ (bits - 1)) ≤ i ∧ i < 0 then some (i + (2 : Int) ^ bits).toNat
  else none

/-- `value` setter of each type: the payload it stores, or the exception.
    A value of the wrong Python type for the AVP type is an encode error
    (`AvpEncodeError` for all types that check; see per-type notes). -/
def setValue (tc : TimeConsts) (ty : Ty) (v : Value) : R Bytes :=
  match ty, v with
  | .untyped, .bytes b => .ok b
  | .octetString, .bytes b => .ok b
  | .utf8String, .str s => .ok s
  | .integer32, .int i =>
    match twos 32 i with
    | some n => .ok (be32 n)
    | none => .error .avpEncode
  | .unsigned32, .int i =>
    if 0 ≤ i ∧ i < 4294967296 then .ok (be32 i.toNat) else .error .avpEncode
  | .integer64, .int i =>
    match twos 64 i with
    | some n => .ok (be64 n)
    | none => .error .avpEncode
  | .unsigned64, .int i =>
    if 0 ≤ i ∧ i < 18446744073709551616 then .ok (be64 i.toNat) else .error .avpEncode
  | .float32, .f32 n => .ok (be32 n)
  | .float64, .f64 n => .ok (be64 n)
  | .time, .time t =>
    -- `seconds < overflow_timestamp` → `seconds + seconds_since_1900`, else
    -- `seconds - overflow_timestamp`; `struct.pack("!I", …)` range-checks.
    let x : Int := if t < tc.overflowTs then t + tc.since1900 else t - tc.overflowTs
    if 0 ≤ x ∧ x < 4294967296 then .ok (be32 x.toNat) else .error .avpEncode
  | .address, .addr fam raw =>
    -- the setter receives text; the harness supplies what `inet_pton`
    -- returned for it (family 1 / 2) or the UTF-8 octets (family 8)
    .ok (be16 fam ++ raw)
  | .grouped, .avps l =>
    match encodeAvps l with
    | .ok b => .ok b
    | .error _ => .error .avpEncode
  | _, _ => .error .avpEncode

end DV

namespace DV
instance : DecidableEq TimeConsts := fun a b =>
  if h : a.since1900 = b.since1900 ∧ a.overflowTs = b.overflowTs ∧ a.cutoff = b.cutoff then
    isTrue (by cases a; cases b; simp_all)
  else isFalse (by intro e; subst e; simp at h)
end DV
