/-
  Identifier generators (`diameter.node._helpers`): the sequential functions,
  and a source-line-granularity model of threads drawing from one generator.

  A method body is a list of instructions, one per source line, as extracted by
  harness/extract_threads.py from the current source (`DV.Gen.seqProgram`,
  `DV.Gen.sessProgram`).
-/
namespace DV.Gens

/-! ### sequential -/

/-- `SequenceGenerator.next_sequence` / `SessionGenerator.next_id` counter step
    with maximum `mx` and minimum 1. -/
def nextSeq (mx : Nat) (cur : Nat) : Nat := if cur == mx then 1 else cur + 1

def iter (mx : Nat) : Nat → Nat → Nat
  | 0, s => s
  | n + 1, s => nextSeq mx (iter mx n s)

/-- `SequenceGenerator(include_now=t)`: `((t << 20) | r) & 0xffffffff`, `r` the random low part. -/
def e2eInit (now r : Nat) : Nat := ((now <<< 20) ||| r) &&& 0xffffffff

def hexDigit (d : Nat) : Char :=
  if d < 10 then Char.ofNat (48 + d) else Char.ofNat (87 + d)

def hexVal (c : Char) : Nat :=
  if c.toNat < 58 then c.toNat - 48 else c.toNat - 87

/-- `n.to_bytes(k/2, "big").hex()`: exactly `k` lower-case hex digits. -/
def hexN : Nat → Nat → List Char
  | 0, _ => []
  | k + 1, n => hexN k (n / 16) ++ [hexDigit (n % 16)]

def unhex (l : List Char) : Nat := l.foldl (fun acc c => acc * 16 + hexVal c) 0

/-- `SessionGenerator.next_id(*optional)` for counter value `seq` (after the increment). -/
def sessionId (ident : String) (base : Nat) (seq : Nat) (optional : List String) : String :=
  ";".intercalate ([ident, String.ofList (hexN 8 base), String.ofList (hexN 8 (seq / 4294967296)),
                    String.ofList (hexN 8 (seq % 4294967296))] ++ optional)

/-! ### threads at source-line granularity -/

inductive Op
  | lock        -- `with self._busy_lock:`
  | test        -- `if self._sequence == self.MAX_SEQUENCE:`
  | setMin      -- `self._sequence = self.MIN_SEQUENCE`
  | incr        -- `self._sequence += 1`
  | read        -- `<local> = … self._sequence …`
  | loc         -- a line that touches locals and immutable attributes only
  | ret         -- `return <expression over locals>`
  | readRet     -- `return self._sequence`
  | unknown     -- anything the extractor does not recognise
  deriving DecidableEq, Repr, Inhabited

/-- One source line: what it does, whether the lock is released when it
    finishes (last line of a `with` body), where control goes next (`alt`: the
    `else` target of a test). -/
structure Instr where
  op : Op
  rel : Bool := false
  next : Nat
  alt : Nat := 0
  deriving DecidableEq, Repr, Inhabited

structure Thr where
  pc : Nat := 0
  cur : Nat := 0
  outs : List Nat := []
  deriving DecidableEq, Repr, Inhabited

structure GS where
  seq : Nat
  lock : Option Nat := none
  thrs : List Thr
  issued : List Nat := []          -- every value returned so far, in order of return
  deriving Repr, Inhabited

def GS.setThr (g : GS) (t : Nat) (th : Thr) : GS := { g with thrs := g.thrs.set t th }

/-- Thread `t` executes the source line it stands at (a thread waiting for the
    lock does not move; a `ret` starts the next call). -/
def step (mx : Nat) (P : List Instr) (g : GS) (t : Nat) : GS :=
  match g.thrs[t]? with
  | none => g
  | some th =>
    match P[th.pc]? with
    | none => g
    | some i =>
      let unlock (g : GS) : GS := if i.rel then { g with lock := none } else g
      match i.op with
      | .lock => if g.lock.isNone then { g with lock := some t }.setThr t { th with pc := i.next } else g
      | .test => g.setThr t { th with pc := if g.seq == mx then i.next else i.alt }
      | .setMin => unlock ({ g with seq := 1 }.setThr t { th with pc := i.next })
      | .incr => unlock ({ g with seq := g.seq + 1 }.setThr t { th with pc := i.next })
      | .read => unlock (g.setThr t { th with pc := i.next, cur := g.seq })
      | .loc => unlock (g.setThr t { th with pc := i.next })
      | .ret => { g with issued := g.issued ++ [th.cur] }.setThr t { th with pc := 0, outs := th.outs ++ [th.cur] }
      | .readRet => { g with issued := g.issued ++ [g.seq] }.setThr t { th with pc := 0, outs := th.outs ++ [g.seq] }
      | .unknown => g

def runSched (mx : Nat) (P : List Instr) (g : GS) (sched : List Nat) : GS := sched.foldl (step mx P) g

def initGS (seq : Nat) (n : Nat) : GS := { seq := seq, thrs := List.replicate n {} }

/-- The accepted shape: update and read under the lock, `k` local lines, return.

        with self._busy_lock:                      0
            if self._sequence == self.MAX:         1
                self._sequence = self.MIN          2
            else:
                self._sequence += 1                3
            current = … self._sequence …           4   (lock released after it)
        <k lines over locals>                      5 … 4+k
        return …                                   5+k                                   -/
def lockedProg (k : Nat) : List Instr :=
  [ { op := .lock, next := 1 }, { op := .test, next := 2, alt := 3 }, { op := .setMin, next := 4 },
    { op := .incr, next := 4 }, { op := .read, rel := true, next := 5 } ] ++
  (List.range k).map (fun j => { op := .loc, next := 6 + j }) ++ [ { op := .ret, next := 0 } ]

/-- The shape of the pinned `SequenceGenerator.next_sequence`: no lock, the
    returned value is read from the shared counter a second time. -/
def unlockedProg : List Instr :=
  [ { op := .test, next := 1, alt := 2 }, { op := .setMin, next := 3 }, { op := .incr, next := 3 },
    { op := .readRet, next := 0 } ]

end DV.Gens
