/-
  Two (or more) threads submitting an answer for the same pending request:
  `Node.route_answer` looks the hop-by-hop id up in the pending-answer table and
  then removes it — two steps on shared state without a lock.  What the second
  step does when the entry is already gone decides whether a second submission
  can get through (`Kind`, extracted from the source by the translator).
-/
namespace DV.RR

/-- the statement that follows the lookup -/
inductive Kind
  | strictDel     -- `del table[conn][id]`: raises when the entry is gone
  | lenientPop    -- `table.get(conn, {}).pop(id, None)` and the like: never raises
  | keep          -- the entry is left in place (removed later, or never)
  | unknown
  deriving DecidableEq, Repr, Inhabited

inductive Pc
  | start | found | sent | failed
  deriving DecidableEq, Repr, Inhabited

structure S where
  booked : Bool           -- the request's id is in the pending-answer table
  pcs : List Pc           -- one per submitting thread
  deriving Repr, Inhabited

def init (n : Nat) : S := { booked := true, pcs := List.replicate n .start }

/-- one shared-state step of thread `i`: the lookup, then the removal -/
def step (k : Kind) (s : S) (i : Nat) : S :=
  match s.pcs[i]? with
  | some .start => { s with pcs := s.pcs.set i (if s.booked then .found else .failed) }
  | some .found =>
    match k with
    | .strictDel => if s.booked then { booked := false, pcs := s.pcs.set i .sent } else { s with pcs := s.pcs.set i .failed }
    | .lenientPop => { booked := false, pcs := s.pcs.set i .sent }
    | .keep => { s with pcs := s.pcs.set i .sent }
    | .unknown => { s with pcs := s.pcs.set i .sent }
  | _ => s

def run (k : Kind) (s : S) (sched : List Nat) : S := sched.foldl (step k) s

/-- number of submissions that got through (their answer is handed to the connection) -/
def cnt : List Pc → Nat
  | [] => 0
  | p :: r => (if p = .sent then 1 else 0) + cnt r

def sentCount (s : S) : Nat := cnt s.pcs

end DV.RR
