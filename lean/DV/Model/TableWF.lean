/-
  Decidable well-formedness predicates over the regenerated tables.  They are
  `Bool`-valued over `Nat` fields so that `decide +kernel` evaluates them with
  GMP arithmetic; the generic theorems (C01/C02/C03/C20) take them as
  hypotheses, the table theorems discharge them for the tables of the current
  working tree.
-/
import DV.Model.Tables

namespace DV

def tagGrouped : Nat := 4

/-- A definition `d` of class `c` is well formed w.r.t. dictionary `dict` and
    class table `cs`: it denotes a dictionary AVP; it has a container class
    exactly when that AVP is Grouped; the container class is in the table. -/
def attrDefWF (dict : DTree) (ncls : Nat) (d : AttrDef) : Bool :=
  match lookupDict dict d.code d.vendor with
  | none => false
  | some e =>
    match d.tclass with
    | none => !Nat.beq e.ty tagGrouped
    | some t => Nat.beq e.ty tagGrouped && Nat.blt t ncls

/-- The class table is indexed by class id: the k-th class has id `start + k`. -/
def classesDense : List ClassDef → Nat → Bool
  | [], _ => true
  | c :: rest, k => Nat.beq c.id k && classesDense rest (k + 1)

/-- No two definitions of the list share `(code, vendor)`; none share `attr`. -/
def defsDistinct : List AttrDef → Bool
  | [] => true
  | d :: rest =>
    rest.all (fun x => !(Nat.beq x.code d.code && Nat.beq x.vendor d.vendor) && !Nat.beq x.attr d.attr)
      && defsDistinct rest

def classWF (dict : DTree) (ncls : Nat) (c : ClassDef) : Bool :=
  c.defs.all (attrDefWF dict ncls) && defsDistinct c.defs && c.oddDefaults.isEmpty
    && c.intDefaults.all (fun p => c.defs.any (fun d => Nat.beq d.attr p.1 && !d.isList && d.tclass.isNone))

/-- (class id, attribute) pairs where the declared type (`list[...]` or not) and the value after construction (a list
    or not) disagree: `assign_attr_from_defs` appends to what it finds, so a repeatable attribute that does not start as
    a list keeps only the last of several AVPs. -/
def listDefaultMismatches (cs : List ClassDef) (ann : List (Nat × List Nat)) : List (Nat × Nat) :=
  cs.flatMap fun c =>
    let want := match ann.find? (fun p => Nat.beq p.1 c.id) with
      | some p => p.2
      | none => []
    (c.defs.filter fun d => d.isList != want.any (fun a => Nat.beq a d.attr)).map fun d => (c.id, d.attr)

/-- Ids of the classes that are not well formed (empty = all well formed). -/
def badClasses (dict : DTree) (cs : List ClassDef) : List Nat :=
  (cs.filter (fun c => !classWF dict cs.length c)).map (·.id)

def allClassesWF (dict : DTree) (cs : List ClassDef) (ncls : Nat) : Bool :=
  classesDense cs 0 && cs.all (classWF dict ncls)

/-- (class id, attr name id) of each offending definition, for reporting. -/
def badDefs (dict : DTree) (cs : List ClassDef) : List (Nat × Nat) :=
  cs.flatMap fun c =>
    let a := (c.defs.filter (fun d => !attrDefWF dict cs.length d)).map (fun d => (c.id, d.attr))
    let rec dups : List AttrDef → List (Nat × Nat)
      | [] => []
      | d :: rest =>
        (if rest.all (fun x => !(x.code == d.code && x.vendor == d.vendor) && x.attr != d.attr)
         then [] else [(c.id, d.attr)]) ++ dups rest
    a ++ dups c.defs ++ c.oddDefaults.map (fun o => (c.id, o))

/-- The emitted dictionary tree is a search tree over `(vendor, code)` with
    in-range tags: `lookupDict` is then the application of a finite map, i.e.
    what the two Python dicts do. -/
def dictWF (dict : DTree) : Bool := dict.ordered none none

/-- `Message.from_bytes` class choice for command `code` and request bit `r`,
    as a function of the registry and the observed `type_factory` results. -/
def dispatch (mcs : List MsgClass) (reg : List (Nat × Nat)) (undefinedId : Nat)
    (code : Nat) (r : Bool) : Nat :=
  match lookupCommand reg code with
  | none => undefinedId
  | some cid =>
    match findMsgClass mcs cid with
    | none => cid
    | some c =>
      match (if r then c.factoryReq else c.factoryAns) with
      | some t => t
      | none => cid

/-- The class chosen for `(code, r)` carries that command code, is the
    registered class or a subclass of it, and does not contradict the R bit:
    a class that forces R on is only chosen for requests, one that forces it
    off only for answers. -/
def dispatchOK (mcs : List MsgClass) (reg : List (Nat × Nat)) (undefinedId : Nat)
    (code : Nat) (r : Bool) : Bool :=
  match lookupCommand reg code with
  | none => true
  | some cid =>
    match findMsgClass mcs (dispatch mcs reg undefinedId code r) with
    | none => false
    | some t =>
      t.code == code && t.mro.contains cid &&
        (if r then t.andMask &&& 0x80 == 0x80 || t.orMask &&& 0x80 == 0x80
         else t.orMask &&& 0x80 == 0)

def registryDispatchOK (mcs : List MsgClass) (reg : List (Nat × Nat)) (undefinedId : Nat) : Bool :=
  reg.all fun p => dispatchOK mcs reg undefinedId p.1 true && dispatchOK mcs reg undefinedId p.1 false

/-- Every direct subclass of the three base classes that has a command code is
    the registered class for its code (no two commands share a code, which
    would make the registry comprehension drop one silently), and every
    registry entry points at a class with that code. -/
def registryComplete (mcs : List MsgClass) (reg : List (Nat × Nat)) (bases : List Nat) : Bool :=
  (mcs.all fun c =>
    match c.mro with
    | _ :: parent :: _ =>
      if bases.contains parent && c.code != 0 then lookupCommand reg c.code == some c.id else true
    | _ => true) &&
  (reg.all fun p =>
    match findMsgClass mcs p.2 with
    | some c => c.code == p.1
    | none => false)

/-- Spec of `to_answer` class pairing: for a class whose name ends in
    "Request" the observed answer class is the class named `…Answer` (same
    command code, forcing the R bit off); for every other class it is the class
    itself. -/
def answerPairOK (mcs : List MsgClass) (messageId : Nat) (c : MsgClass) : Bool :=
  match c.answerName with
  | none => c.answerClass == c.id
  | some an =>
    match mcs.find? (fun x => x.name == an && x.code == c.code) with
    | some a => c.answerClass == a.id && a.andMask &&& 0x80 == 0 && a.orMask &&& 0x80 == 0
    | none => c.answerClass == messageId ||
        -- no `…Answer` class exists: the walk falls back to the matching base or to Message
        (match findMsgClass mcs c.answerClass with
         | some a => a.code == c.code && c.mro.contains a.id && a.id != c.id
         | none => false)

def allAnswerPairsOK (mcs : List MsgClass) (messageId : Nat) : Bool :=
  mcs.all (answerPairOK mcs messageId)

/-- Header flag effect of constructing class `c` on flags `f`. -/
def MsgClass.applyFlags (c : MsgClass) (f : Nat) : Nat := (f &&& c.andMask) ||| c.orMask

/-- Classes whose constructor leaves the P bit (0x40) of the header alone. -/
def MsgClass.keepsP (c : MsgClass) : Bool := c.andMask &&& 0x40 == 0x40 && c.orMask &&& 0x40 == 0

/-- Classes whose constructor may only touch the R bit. -/
def MsgClass.onlyTouchesR (c : MsgClass) : Bool :=
  c.andMask &&& 0x7f == 0x7f && c.orMask &&& 0x7f == 0

end DV
