/-
  Typed attributes ↔ AVPs, generic in the regenerated tables.

  Mirrors `avp/generator.py: generate_avps_from_defs`, `Avp.new`,
  `commands/_attributes.py: assign_attr_from_defs`, `DefinedMessage.avps`,
  `UndefinedMessage._assign_attr_values`, `_helpers.validate_message_avps`.
-/
import DV.Model.Message

namespace DV

/-- Attribute values of typed messages / grouped containers. -/
inductive FVal
  | unset
  | scalar (v : Value)
  | list (vs : List Value)
  | obj (cls : Nat) (fields : List (Nat × FVal)) (additional : List Avp)
  | objs (os : List FVal)
  /-- a class object used as a default value (`x: T = T` in two containers of the
      pinned tree): `generate_avps_from_defs` walks the class's `avp_def` and finds
      every attribute `None`, so it yields an empty grouped AVP. -/
  | classObj (cls : Nat)
  deriving Repr, Inhabited

/-- Values as the setters receive them: an address arrives as text, with what
    `socket.inet_pton` makes of it supplied by the harness (trusted primitive). -/
inductive SetArg
  | val (v : Value)
  | addrText (text : Bytes) (p4 p6 : Option Bytes)
  | f32Overflow          -- a Python float too large for binary32
  | unencodableStr       -- a `str` with a lone surrogate
  deriving Repr, Inhabited

/-- ASCII octets of the lower-case hex rendering (`bytes.hex()`). -/
def hexAscii (b : Bytes) : Bytes :=
  b.flatMap fun x => [UInt8.ofNat (hexDigit (x.toNat / 16)).toNat, UInt8.ofNat (hexDigit (x.toNat % 16)).toNat]

def hasDotOrColon (t : Bytes) : Bool := t.any (fun c => c == 46 || c == 58)

/-- `AvpAddress.value = text`. -/
def setAddress (text : Bytes) (p4 p6 : Option Bytes) : R Bytes :=
  if hasDotOrColon text then
    match p4 with
    | some b => .ok (be16 1 ++ b)
    | none => match p6 with
      | some b => .ok (be16 2 ++ b)
      | none => .error .avpEncode
  else .ok (be16 8 ++ text)

/-- The `value` setter as called directly (`avp.value = x`). -/
def setArg (tc : TimeConsts) (ty : Ty) (a : SetArg) : R Bytes :=
  match a, ty with
  | .val v, _ => setValue tc ty v
  | .addrText t p4 p6, .address => setAddress t p4 p6
  | .addrText _ _ _, _ => .error .avpEncode
  | .f32Overflow, .float32 => .error .overflowError
  | .f32Overflow, .float64 => .error .other   -- not generated
  | .f32Overflow, _ => .error .avpEncode
  | .unencodableStr, _ => .error .avpEncode

/-- The value → setter-argument conversion that `Avp.new` performs for values
    read back from a decoded AVP: an address `(family, text)` tuple is passed as
    its text. For family 1/2 the text re-parses to the same octets
    (`inet_pton ∘ inet_ntop = id`, trusted); family 8 text is re-examined for
    dots and colons (an E.164 value containing them would be taken for an IP
    address: outside the documented domain). -/
def reSetArg (v : Value) : SetArg :=
  match v with
  | .addr 1 raw => .addrText [46] (some raw) none
  | .addr 2 raw => .addrText [58] none (some raw)
  | .addr 8 raw => .addrText raw none none
  | .addr _ raw => .addrText (hexAscii raw) none none   -- unknown family: the getter returned a hex string
  | v => .val v

/-- `Avp.new(code, vendor, value, is_mandatory, is_private)`.
    `mandOv`/`privOv`: 0 = None, 1 = True, 2 = False. -/
def avpNew (tc : TimeConsts) (dict : DTree) (code vendor : Nat) (value : Option SetArg)
    (mandOv privOv : Nat) : R Avp :=
  match lookupDict dict code vendor with
  | none => .error .valueError
  | some e =>
    let ty := Ty.ofTag e.ty
    let payload : R Bytes :=
      match value with
      | none => .ok []
      | some a =>
        match setArg tc ty a with
        | .ok b => .ok b
        | .error _ => .error .avpEncode   -- `except Exception` → AvpEncodeError
    match payload with
    | .error x => .error x
    | .ok p =>
      let f0 := setVendorBit 0 vendor
      let m := if mandOv ≠ 0 then mandOv else e.mand
      let f1 := if m == 1 then f0 ||| flagM else f0
      let f2 := if privOv == 1 then f1 ||| flagP else f1
      .ok { code, vendor, flags := f2, payload := p }

/-- A grouped AVP made by `Avp.new(code, vendor, is_mandatory=…)` followed by
    `grouped.value = sub_avps`. -/
def avpNewGrouped (tc : TimeConsts) (dict : DTree) (code vendor mandOv : Nat) (subs : List Avp) : R Avp :=
  match avpNew tc dict code vendor none mandOv 0 with
  | .error e => .error e
  | .ok a =>
    -- `grouped_avp.value = sub_avps`: only `AvpGrouped` accepts a list; every
    -- other typed setter rejects it (AvpEncodeError via generate's handler)
    match lookupDict dict code vendor with
    | some e =>
      if e.ty == tagGrouped then
        match encodeAvps subs with
        | .ok b => .ok { a with payload := b }
        | .error _ => .error .avpEncode
      else .error .avpEncode
    | none => .error .valueError

def scalarArg (v : Value) : SetArg := reSetArg v

mutual
/-- `generate_avps_from_defs(obj)` for an object of class `cls`. -/
def generateFuel (tc : TimeConsts) (dict : DTree) (cs : List ClassDef) :
    Nat → FVal → R (List Avp)
  | 0, _ => .error .other
  | fuel + 1, .obj cls fields additional =>
    match findClass cs cls with
    | none => .ok []          -- object without `avp_def`
    | some c => do
      let avps ← genDefs tc dict cs fuel fields c.defs
      -- `additional_avps` of containers / `_additional_avps` of messages
      pure (avps ++ additional)
  | fuel + 1, .classObj cls =>
    match findClass cs cls with
    | none => .ok []
    | some c => genDefs tc dict cs fuel [] c.defs
  | _ + 1, _ => .ok []

def genDefs (tc : TimeConsts) (dict : DTree) (cs : List ClassDef) :
    Nat → List (Nat × FVal) → List AttrDef → R (List Avp)
  | _, _, [] => .ok []
  | fuel, fields, d :: rest => do
    let v := match fields.find? (fun p => p.1 == d.attr) with
      | some p => p.2
      | none => FVal.unset
    let here ← genOne tc dict cs fuel d v
    let more ← genDefs tc dict cs fuel fields rest
    pure (here ++ more)

def genOne (tc : TimeConsts) (dict : DTree) (cs : List ClassDef) :
    Nat → AttrDef → FVal → R (List Avp)
  | _, _, .unset => .ok []
  | fuel, d, .objs os =>
    if d.tclass.isSome then
      genObjs tc dict cs fuel d os
    else
      -- a list of objects under a definition without a container class:
      -- `Avp.new(value=obj)` fails in the setter
      if os.isEmpty then .ok [] else .error .avpEncode
  | _, d, .list vs =>
    if d.tclass.isSome then
      -- list of plain values under a container definition: each value has no
      -- `avp_def`, so an empty grouped AVP is produced for each
      vs.mapM fun _ => avpNewGrouped tc dict d.code d.vendor d.mand []
    else
      vs.mapM fun v => avpNew tc dict d.code d.vendor (some (scalarArg v)) d.mand 0
  | _, d, .scalar (.avps l) =>
    if d.tclass.isSome then do
      let a ← avpNewGrouped tc dict d.code d.vendor d.mand []
      pure [a]
    else
      -- a Python list under a definition without container class is iterated:
      -- each member becomes the single member of its own AVP
      l.mapM fun m => avpNew tc dict d.code d.vendor (some (.val (.avps [m]))) d.mand 0
  | _, d, .scalar v =>
    if d.tclass.isSome then do
      let a ← avpNewGrouped tc dict d.code d.vendor d.mand []
      pure [a]
    else do
      let a ← avpNew tc dict d.code d.vendor (some (scalarArg v)) d.mand 0
      pure [a]
  | fuel, d, o =>
    if d.tclass.isSome then do
      -- `Avp.new` runs before the recursive call: an unknown AVP raises first
      let _ ← avpNew tc dict d.code d.vendor none d.mand 0
      let subs ← generateFuel tc dict cs fuel o
      let a ← avpNewGrouped tc dict d.code d.vendor d.mand subs
      pure [a]
    else .error .avpEncode

def genObjs (tc : TimeConsts) (dict : DTree) (cs : List ClassDef) :
    Nat → AttrDef → List FVal → R (List Avp)
  | _, _, [] => .ok []
  | fuel, d, o :: rest => do
    let _ ← avpNew tc dict d.code d.vendor none d.mand 0
    let subs ← generateFuel tc dict cs fuel o
    let a ← avpNewGrouped tc dict d.code d.vendor d.mand subs
    let more ← genObjs tc dict cs fuel d rest
    pure (a :: more)
end

/-- Initial attribute state of a freshly constructed object of class `c`
    (`cls()`): list attributes are `[]`, integer defaults are set. -/
def initFields (c : ClassDef) : List (Nat × FVal) :=
  c.defs.filterMap fun d =>
    if d.isList then some (d.attr, if d.tclass.isSome then FVal.objs [] else FVal.list [])
    else match c.intDefaults.find? (fun p => p.1 == d.attr) with
      | some p => some (d.attr, FVal.scalar (.int p.2))
      | none => none

def setField (fields : List (Nat × FVal)) (k : Nat) (v : FVal) : List (Nat × FVal) :=
  if fields.any (fun p => p.1 == k) then fields.map (fun p => if p.1 == k then (k, v) else p)
  else fields ++ [(k, v)]

/-- `cls()` followed by `setattr` of the given attributes, recursively: what the
    harness's object literals denote (constructor defaults included). -/
def instantiateFuel (cs : List ClassDef) : Nat → FVal → FVal
  | 0, v => v
  | fuel + 1, .obj cls fields extra =>
    let init := match findClass cs cls with
      | some c => initFields c
      | none => []
    .obj cls (fields.foldl (fun acc p => setField acc p.1 (instantiateFuel cs fuel p.2)) init) extra
  | fuel + 1, .objs os => .objs (os.map (instantiateFuel cs fuel))
  | _ + 1, v => v

/-- `needed[f"{code}-{vendor}"]`: the dict comprehension keeps the *last*
    definition with a given key. -/
def neededDef (defs : List AttrDef) (code vendor : Nat) : Option AttrDef :=
  (defs.reverse).find? (fun d => d.code == code && d.vendor == vendor)

/-- One turn of the loop of `assign_attr_from_defs`: the AVP `a` is put where the
    class's definitions say (or kept as an undeclared AVP). `recur t sub` assigns
    a nested container of class `t` from the AVPs `sub`. `getv` is the value
    getter (`getValue` partially applied); a scalar whose payload is malformed
    becomes `None` (the `AvpDecodeError` is logged), any other exception propagates. -/
def assignStep (getv : Ty → Bytes → R Value) (dict : DTree) (c : ClassDef) (recur : Nat → List Avp → R FVal)
    (st : List (Nat × FVal) × List Avp) (a : Avp) : R (List (Nat × FVal) × List Avp) :=
  let fields := st.1
  let extra := st.2
  match neededDef c.defs a.code a.vendor with
  | some d =>
    let cur := match fields.find? (fun p => p.1 == d.attr) with
      | some p => p.2
      | none => FVal.unset
    let ety := match lookupDict dict a.code a.vendor with
      | some e => Ty.ofTag e.ty
      | none => Ty.untyped
    match d.tclass with
    | some t =>
      -- `avp.value` of the dictionary's type, then iterated as AVPs
      if ety == .grouped then
        match decodeAvps a.payload 0 with
        | .error _ => .error .avpDecode
        | .ok sub =>
          match recur t sub with
          | .error e => .error e
          | .ok o =>
            match cur with
            | .objs os => .ok (setField fields d.attr (.objs (os ++ [o])), extra)
            | .list vs => .ok (setField fields d.attr (.objs (vs.map (fun v => FVal.scalar v) ++ [o])), extra)
            | _ => .ok (setField fields d.attr o, extra)
      else
        -- value of a non-grouped AVP is not a list of AVPs: iterating an
        -- int raises TypeError; iterating bytes/str yields items without
        -- `.code` (AttributeError) unless empty
        match getv ety a.payload with
        | .error e => .error e
        | .ok (.int _) => .error .typeError
        | .ok (.f32 _) => .error .typeError
        | .ok (.f64 _) => .error .typeError
        | .ok (.time _) => .error .typeError
        | .ok (.bytes b) =>
          if b.isEmpty then
            match recur t [] with
            | .error e => .error e
            | .ok o => .ok (setField fields d.attr o, extra)
          else .error .attributeError
        | .ok (.str b) =>
          if b.isEmpty then
            match recur t [] with
            | .error e => .error e
            | .ok o => .ok (setField fields d.attr o, extra)
          else .error .attributeError
        | .ok _ => .error .attributeError
    | none =>
      let v : R (Option Value) :=
        match getv ety a.payload with
        | .ok v => .ok (some v)
        | .error .avpDecode => .ok none
        | .error e => .error e
      match v with
      | .error e => .error e
      | .ok ov =>
        match cur with
        | .list vs =>
          -- a malformed element is appended as `None`; the model drops it
          -- (generation skips `None` elements)
          .ok (setField fields d.attr (.list (match ov with | some x => vs ++ [x] | none => vs)), extra)
        | .objs os =>
          .ok (setField fields d.attr (.objs (match ov with | some x => os ++ [FVal.scalar x] | none => os)), extra)
        | _ =>
          .ok (setField fields d.attr (match ov with | some x => .scalar x | none => .unset), extra)
  | none =>
    if c.additional ≠ 0 then .ok (fields, extra ++ [a]) else .ok (fields, extra)

/-- the loop itself -/
def assignLoop (step : List (Nat × FVal) × List Avp → Avp → R (List (Nat × FVal) × List Avp)) :
    List Avp → List (Nat × FVal) × List Avp → R (List (Nat × FVal) × List Avp)
  | [], st => .ok st
  | a :: rest, st =>
    match step st a with
    | .error e => .error e
    | .ok st' => assignLoop step rest st'

/-- `assign_attr_from_defs(obj, avp_list)` for a fresh object of class `cls`;
    returns the object. -/
def assignFuel (getv : Ty → Bytes → R Value) (dict : DTree) (cs : List ClassDef) :
    Nat → Nat → List Avp → R FVal
  | 0, _, _ => .error .other
  | fuel + 1, cls, avps =>
    match findClass cs cls with
    | none => .error .other
    | some c =>
      match assignLoop (assignStep getv dict c (assignFuel getv dict cs fuel)) avps (initFields c, []) with
      | .error e => .error e
      | .ok (fields, extra) => .ok (FVal.obj cls fields extra)

/-- `validate_message_avps(msg)`: codes of the required attributes that are
    `None` on a typed message with fields `fields`; `Avp.new` raises
    `ValueError` when a required definition has no dictionary entry. -/
def missingRequired (dict : DTree) (c : ClassDef) (fields : List (Nat × FVal)) : R (List (Nat × Nat)) :=
  c.defs.foldlM (init := []) fun acc d =>
    let isNone := match fields.find? (fun p => p.1 == d.attr) with
      | some (_, .unset) => true
      | some _ => false
      | none => true
    if d.required && isNone then
      match lookupDict dict d.code d.vendor with
      | some _ => pure (acc ++ [(d.code, d.vendor)])
      | none => .error .valueError
    else pure acc

end DV
