/-
  The write path of a connection (`PeerConnection.work_write_queue`, the send
  branch of `Node._handle_connections`, `remove_out_bytes`): the queueing
  threads, the connection's writer thread and the I/O loop, interleaved at the
  granularity of the source lines that touch shared state (write queue, write
  buffer, lock, interrupt pipe, socket).

  Which shared-state lines each actor executes, in which order, for which
  outcome — the `Prog` — is extracted from the running code by
  harness/extract_threads.py (`DV.Gen.writeProg`).
-/
namespace DV.WP

abbrev Bytes := List Nat

inductive WOp
  | get           -- `new_msg = self._write_msg_queue.get(…)`
  | lock          -- `with self.write_lock:`
  | append        -- `self._write_buffer += new_msg.as_bytes()`
  | readAppend    -- `<local> = self._write_buffer + new_msg.as_bytes()`
  | store         -- `self._write_buffer = <local>`
  | signal        -- `self.demand_attention()`
  | unknown
  deriving DecidableEq, Repr, Inhabited

inductive LOp
  | begin         -- top of an iteration up to the write handling: interrupt pipe read, select lists
  | testEmpty     -- `if len(conn.write_buffer) == 0:`
  | send          -- `sent_bytes = wsock.send(conn.write_buffer)`
  | lock          -- `with conn.write_lock:`
  | remove        -- `conn.remove_out_bytes(sent_bytes)`
  | readLen       -- a line that only reads `len(conn.write_buffer)` (log message)
  | testClosing   -- `if len(conn.write_buffer) == 0 and conn.state == PEER_CLOSING:`
  | close         -- `conn.close()`
  | unknown
  deriving DecidableEq, Repr, Inhabited

/-- a shared-state line and whether the actor holds the write lock after it -/
structure WAtom where
  op : WOp
  locked : Bool
  deriving DecidableEq, Repr, Inhabited

structure LAtom where
  op : LOp
  locked : Bool
  deriving DecidableEq, Repr, Inhabited

structure Prog where
  wOk : List WAtom        -- writer, message that encodes
  wFail : List WAtom      -- writer, message whose `as_bytes()` raises
  lPrefix : List LAtom    -- I/O loop: iteration start … send
  lOk : List LAtom        -- … after a send() that accepted bytes
  lSoft : List LAtom      -- … after EAGAIN / EINTR / ENOBUFS
  lHard : List LAtom      -- … after any other socket error
  deriving DecidableEq, Repr, Inhabited

/-- what `send()` does when the loop reaches it -/
inductive SendOutcome
  | accept (k : Nat)      -- accepts `max 1 (min k len)` bytes
  | soft
  | hard
  deriving DecidableEq, Repr, Inhabited

inductive Ev
  | put (enc : Option Bytes)      -- a thread queues a message (`none`: it cannot be encoded)
  | w                             -- the writer executes its next shared-state line
  | l (o : SendOutcome)           -- the I/O loop executes its next shared-state line
  deriving Repr, Inhabited

structure S where
  q : List (Option Bytes) := []
  buf : Bytes := []
  sent : Bytes := []              -- bytes the socket accepted, in order
  pipe : Nat := 0
  closed : Bool := false
  lock : Option Nat := none       -- 0 = writer, 1 = I/O loop
  wpath : List WAtom := []        -- the writer's remaining lines for the message in hand
  wmsg : Option Bytes := none     -- encoding of `new_msg`
  wtmp : Bytes := []
  lpath : List LAtom := []
  ln : Option Nat := none         -- `sent_bytes` (a function local: survives iterations)
  wl : Bool := false              -- the socket is in the select() write list (computed at the end of an iteration)
  crashed : Bool := false         -- the I/O thread died (unbound local)
  expect : Bytes := []            -- ghost: encodings of the queued messages in queueing order
  deriving Repr, Inhabited

def releaseIf (s : S) (who : Nat) (keep : Bool) : S :=
  if keep then s else if s.lock == some who then { s with lock := none } else s

def stepW (P : Prog) (s : S) : S :=
  -- no message in hand: take the next one (nothing to do on an empty queue)
  let s := match s.wpath with
    | [] => (match s.q with
      | [] => s
      | e :: _ => { s with wpath := if e.isSome then P.wOk else P.wFail })
    | _ => s
  match s.wpath with
  | [] => s
  | a :: rest =>
    match a.op with
    | .get =>
      (match s.q with
       | [] => s
       | e :: q' => releaseIf { s with wmsg := e, q := q', wpath := rest } 0 a.locked)
    | .lock =>
      if s.lock.isNone || s.lock == some 0 then { s with lock := some 0, wpath := rest } else s
    | .append =>
      (match s.wmsg with
       | some e => releaseIf { s with buf := s.buf ++ e, wpath := rest } 0 a.locked
       | none => releaseIf { s with wpath := rest } 0 a.locked)          -- `as_bytes()` raised: nothing stored
    | .readAppend =>
      (match s.wmsg with
       | some e => releaseIf { s with wtmp := s.buf ++ e, wpath := rest } 0 a.locked
       | none => releaseIf { s with wpath := rest } 0 a.locked)
    | .store => releaseIf { s with buf := s.wtmp, wpath := rest } 0 a.locked
    | .signal => releaseIf { s with pipe := s.pipe + 1, wpath := rest } 0 a.locked
    | .unknown => s

/-- end of an iteration: the select lists for the next one are built -/
def endIter (s : S) : S := { s with lpath := [], wl := !s.closed && !s.buf.isEmpty }

def finishL (s : S) : S := if s.lpath.isEmpty then endIter s else s

def stepL (P : Prog) (s : S) (o : SendOutcome) : S :=
  if s.crashed then s else
  let s := match s.lpath with
    | [] => { s with lpath := P.lPrefix }
    | _ => s
  finishL <|
  match s.lpath with
  | [] => s
  | a :: rest =>
    match a.op with
    | .begin =>
      let s := { s with pipe := s.pipe - 1 }
      if s.wl then { s with lpath := rest } else { s with lpath := [] }
    | .testEmpty => if s.buf.isEmpty then { s with lpath := [] } else releaseIf { s with lpath := rest } 1 a.locked
    | .send =>
      (match o with
       | .accept k =>
         let n := max 1 (min k s.buf.length)
         { s with sent := s.sent ++ s.buf.take n, ln := some n, lpath := P.lOk }
       | .soft => { s with lpath := P.lSoft }
       | .hard => { s with lpath := P.lHard })
    | .lock =>
      if s.lock.isNone || s.lock == some 1 then { s with lock := some 1, lpath := rest } else s
    | .remove =>
      (match s.ln with
       | some n => releaseIf { s with buf := s.buf.drop n, lpath := rest } 1 a.locked
       | none => { s with crashed := true, lpath := [], lock := if s.lock == some 1 then none else s.lock })
    | .readLen => releaseIf { s with lpath := rest } 1 a.locked
    | .testClosing => releaseIf { s with lpath := rest } 1 a.locked
    | .close => releaseIf { s with closed := true, lpath := rest } 1 a.locked
    | .unknown => s

def step (P : Prog) (s : S) : Ev → S
  | .put e => { s with q := s.q ++ [e], expect := s.expect ++ e.getD [] }
  | .w => stepW P s
  | .l o => stepL P s o

def run (P : Prog) (s : S) (evs : List Ev) : S := evs.foldl (step P) s

/-- The accepted program: append under the lock in one line; after a send that
    accepted bytes, remove exactly those bytes under the lock; after a soft or
    hard error remove nothing. -/
def goodProg : Prog :=
  { wOk := [⟨.get, false⟩, ⟨.lock, true⟩, ⟨.append, false⟩, ⟨.signal, false⟩]
    wFail := [⟨.get, false⟩, ⟨.lock, true⟩, ⟨.append, false⟩]
    lPrefix := [⟨.begin, false⟩, ⟨.testEmpty, false⟩, ⟨.send, false⟩]
    lOk := [⟨.lock, true⟩, ⟨.remove, true⟩, ⟨.readLen, true⟩, ⟨.testClosing, false⟩]
    lSoft := []
    lHard := [⟨.close, false⟩] }

end DV.WP
