/-
  The node: `Node` + `PeerConnection` + `Application` bookkeeping of
  `diameter/node/{node,peer,application}.py` as one state and a set of
  functions named after the Python methods.  Dictionaries are association
  lists in insertion order (iteration order is observable).  Messages are
  abstract (`AMsg`): framing and the codec are C01–C05's business.

  Serialisation assumption: each function here is one atomic step of the real
  code (the harness runs the real code in exactly that discipline).
-/
import DV.Model.Config

namespace DV.Node

inductive CState
  | connecting | connected | ready | waitDwa | disconnecting | closing | closed
  deriving DecidableEq, Repr, Inhabited

def CState.isReady : CState → Bool
  | .ready | .waitDwa => true
  | _ => false

inductive Dir | recv | send
  deriving DecidableEq, Repr, Inhabited

/-- disconnect reasons (`DISCONNECT_REASON_*`) -/
inductive Reason
  | dpr | shutdown | clean | sockFail | gone | failConn | failCe | rejected | dwaTo | unknown
  deriving DecidableEq, Repr, Inhabited

/-- Abstract message. -/
structure AMsg where
  cmd : Nat
  flags : Nat
  app : Nat
  hbh : Nat
  e2e : Nat
  oh : Option String := none       -- Origin-Host
  orr : Option String := none      -- Origin-Realm
  dr : Option String := none       -- Destination-Realm
  rc : Option Nat := none          -- Result-Code
  auth : List Nat := []
  acct : List Nat := []
  /-- application ids inside Vendor-Specific-Application-Id AVPs -/
  vauth : List Nat := []
  vacct : List Nat := []
  sid : Option String := none
  dc : Option Nat := none          -- Disconnect-Cause
  present : List Nat := []         -- codes (vendor 0) of the top-level AVPs on the wire
  fa : List Nat := []              -- codes inside Failed-AVP (outgoing)
  cea : String := ""               -- CEA payload summary (outgoing)
  /-- a Host-IP-Address AVP whose payload does not decode as an address: the typed attribute holds `None` -/
  badIp : Bool := false
  deriving Repr, Inhabited

def AMsg.isRequest (m : AMsg) : Bool := m.flags &&& 0x80 ≠ 0
def AMsg.isRetransmit (m : AMsg) : Bool := m.flags &&& 0x10 ≠ 0

/-- What the codec layer says about a received message (computed from the
    regenerated tables by `Model/NodeInfo.lean`, abstract here). -/
structure MsgInfo where
  typed : Bool              -- instance of a class with `avp_def` (DefinedMessage subclass that assigns)
  hasOH : Bool              -- hasattr(msg, "origin_host")
  hasDR : Bool              -- hasattr(msg, "destination_realm")
  hasSID : Bool             -- hasattr(msg, "session_id")
  hasRC : Bool              -- hasattr(msg, "result_code")
  missing : List Nat        -- AVP codes `validate_message_avps` reports
  validateRaises : Bool     -- `validate_message_avps` raises (table defect)
  ansTyped : Bool           -- the answer class encodes assigned attributes
  ansHasFA : Bool           -- answer class declares failed_avp
  ansHasSID : Bool          -- answer class declares session_id
  ansP : Bool               -- (unused since to_answer keeps the request's P bit)
  ansDefaults : Nat         -- number of AVPs the answer class adds by default
  deriving Repr, Inhabited

structure Conn where
  id : Nat
  dir : Dir
  state : CState
  nodeName : String := ""
  hostIdentity : String := ""
  originHost : String := ""
  lastRead : Nat
  established : Nat := 0          -- `_established`
  lastDwr : Nat := 0
  hbh : Nat                       -- hop-by-hop generator state
  authApps : List Nat := []
  acctApps : List Nat := []
  inQ : List (List AMsg) := []    -- chunks handed to the reader (whole messages)
  outQ : List AMsg := []          -- `_write_msg_queue`
  wbuf : List AMsg := []          -- `_write_buffer` (encoded messages not yet accepted by the socket)
  sockClosed : Bool := false
  workersStopped : Bool := false
  readerCrashed : Bool := false
  hasSocket : Bool := true        -- registered in `peer_sockets` at some point
  deriving Repr, Inhabited

structure Peer where
  name : String
  realm : String
  persistent : Bool
  always : Bool
  wait : Nat
  hasAddr : Bool
  ceaTo : Option Nat
  cerTo : Option Nat
  dwaTo : Option Nat
  idleTo : Option Nat
  connection : Option Nat := none
  reason : Option Reason := none
  lastConnect : Option Nat := none
  lastDisconnect : Option Nat := none
  requests : Nat := 0
  deriving Repr, Inhabited

inductive AppKind | basic | threading
  deriving DecidableEq, Repr, Inhabited

structure App where
  id : Nat
  auth : Bool
  acct : Bool
  kind : AppKind
  maxThreads : Nat
  ready : Bool := false
  answerWaiting : List Nat := []          -- hop-by-hop ids of blocked senders
  raiseOnRequest : Bool := false
  deriving Repr, Inhabited

/-- The queues, slot counter and consumer threads of a `ThreadingApplication`
    (kept apart from `App`: nothing in the node touches them). -/
structure TApp where
  recvQ : List AMsg := []                 -- `_recv_msg_queue`
  respQ : List AMsg := []                 -- `_resp_msg_queue`: answers …
  respNone : Nat := 0                     -- … and `None` results (repaired code only)
  slots : Nat := 0                        -- `_thread_slots` in use
  recvAlive : Bool := true
  respAlive : Bool := true
  outcome : String := "answer"            -- what `handle_request` does: answer | none | raise
  held : Bool := false                    -- schedule control: the queue consumers are not running
  deriving Repr, Inhabited

/-- route table key: an application (by index) or the `"_default"` entry -/
inductive RKey | app (i : Nat) | dflt
  deriving DecidableEq, Repr, Inhabited

inductive Out
  | wrote (c : Nat) (m : AMsg)                 -- bytes of m accepted by c's socket
  | appReq (a : Nat) (m : AMsg)                -- handle_request
  | appAns (a : Nat) (m : AMsg)                -- handle_answer (unexpected answer)
  | appGot (a : Nat) (m : AMsg)                -- send_request returned this answer
  | appSent (a : Nat)
  | raised (a : Nat) (exc : String)
  | dialled (p : Nat)
  | crash (what : String) (exc : String)
  | stopped
  deriving Repr, Inhabited

structure Cfg where
  host : String
  realm : String
  listen : Bool
  /-- number of local addresses the node listens on / announces in Host-IP-Address -/
  addrs : Nat := 1
  cea : Nat := 4
  cer : Nat := 4
  dwa : Nat := 4
  idle : Nat := 30
  rq : Nat := 10240
  stateId : Nat
  deriving Repr, Inhabited

structure St where
  cfg : Cfg
  now : Nat
  peers : List Peer
  apps : List App
  routes : List (String × List (RKey × List Nat))
  conns : List Conn := []                         -- every connection ever created, by id
  connections : List Nat := []                    -- `node.connections` keys, dict order
  peerSockets : List Nat := []
  socketPeers : List Nat := []
  halfReady : List Nat := []
  appWaiting : List ((Nat × Nat) × Nat) := []
  peerWaiting : List (Nat × List Nat) := []           -- `_peer_waiting_answer`: connection id ↦ hop-by-hop ids of unanswered requests
  originWaiting : List ((Nat × Nat × Nat) × Option String) := []   -- (connection, hbh, e2e) → origin
  sentAnswers : List (Option String × (Nat × List Nat)) := []   -- origin → (maxlen, deque)
  e2e : Nat
  nextHbhSeed : Nat                                -- scripted generator start of the next connection
  stopping : Bool := false
  started : Bool := false
  pipe : List Nat := []                            -- interrupt tokens
  dialPlan : List String := []
  appRequests : List (Nat × AMsg) := []            -- requests handed to applications, in order
  delivered : List (Nat × AMsg) := []              -- answers handed to blocked senders
  inProgress : List Nat := []                      -- non-blocking connects whose outcome is not known yet
  tapps : List TApp := []                          -- per application index
  deferred : List (Nat × AMsg) := []               -- started handler threads that have not run yet
  crashed : Nat := 0                               -- worker threads that terminated with an exception
  outs : List Out := []
  deriving Repr, Inhabited

/-! ### small helpers -/

def seqNext (cur : Nat) : Nat := if cur == 0xffffffff then 1 else cur + 1

def St.emit (s : St) (o : Out) : St := { s with outs := s.outs ++ [o] }

def St.conn? (s : St) (id : Nat) : Option Conn := s.conns.find? (·.id == id)

def St.setConn (s : St) (c : Conn) : St :=
  { s with conns := s.conns.map fun x => if x.id == c.id then c else x }

def St.modConn (s : St) (id : Nat) (f : Conn → Conn) : St :=
  { s with conns := s.conns.map fun x => if x.id == id then f x else x }

def St.modPeer (s : St) (i : Nat) (f : Peer → Peer) : St :=
  { s with peers := s.peers.mapIdx fun k p => if k == i then f p else p }

def St.modApp (s : St) (i : Nat) (f : App → App) : St :=
  { s with apps := s.apps.mapIdx fun k a => if k == i then f a else a }

def St.modTApp (s : St) (i : Nat) (f : TApp → TApp) : St :=
  { s with tapps := s.tapps.mapIdx fun k a => if k == i then f a else a }

def peerIdx? (s : St) (name : String) : Option Nat :=
  s.peers.findIdx? (·.name == name)

/-- `_find_connection_peer`: by `node_name`, else by `host_identity`. -/
def findConnectionPeer (s : St) (c : Conn) : Option Nat :=
  match peerIdx? s c.nodeName with
  | some i => some i
  | none => peerIdx? s c.hostIdentity

def erase (l : List Nat) (x : Nat) : List Nat := l.filter (· != x)

def authIds (s : St) : List Nat := ((s.apps.filter (·.auth)).map (·.id)).eraseDups
def acctIds (s : St) : List Nat := ((s.apps.filter (·.acct)).map (·.id)).eraseDups

/-! ### PeerConnection -/

/-- `demand_attention`: write the connection id to the interrupt pipe. -/
def demandAttention (s : St) (cid : Nat) : St := { s with pipe := s.pipe ++ [cid] }

/-- `PeerConnection.close(signal_node)`. -/
def connClose (s : St) (cid : Nat) (signal : Bool) : St :=
  let s := s.modConn cid fun c => { c with state := .closed, workersStopped := true }
  if signal then demandAttention s cid else s

/-! ### Node methods -/

/-- `remove_peer_connection`.  `Config.removeOnlyOwn`: only the peer's *own*
    current connection clears `peer.connection` / pending answers (repaired
    code); the pinned tree cleared them for any connection of the peer. -/
def removePeerConnection (s : St) (cid : Nat) (reason : Reason) : St :=
  match s.conn? cid with
  | none => s
  | some c =>
    let s := { s with connections := erase s.connections cid, peerSockets := erase s.peerSockets cid }
    let s := if Config.removeCleansTables then
        { s with halfReady := erase s.halfReady cid, socketPeers := erase s.socketPeers cid }
      else s
    let peerI := findConnectionPeer s c
    let isCurrent : Bool :=
      if Config.removeOnlyOwn then
        match peerI.bind (fun i => s.peers[i]?) with
        | some p => !(p.connection.isSome && p.connection != some cid)
        | none => true
      else true
    let s := match peerI with
      | some i =>
        if isCurrent then
          s.modPeer i fun p =>
            { p with connection := none, lastDisconnect := some s.now,
                     reason := match p.reason with | none => some reason | r => r }
        else s
      | none => s
    -- pending answers of *this* connection are forgotten
    let s := { s with peerWaiting := s.peerWaiting.filter (·.1 != cid) }
    -- application readiness: per app, any configured peer with a ready connection
    let appPeers (ai : Nat) : List Nat :=
      s.routes.flatMap fun (_, tbl) => tbl.flatMap fun (k, ps) => if k == RKey.app ai then ps else []
    let appInRoutes (ai : Nat) : Bool :=
      s.routes.any fun (_, tbl) => tbl.any fun (k, _) => k == RKey.app ai
    let s := { s with apps := s.apps.mapIdx fun ai a =>
      if !(appInRoutes ai) then a
      else
        let anyReady := (appPeers ai).any fun pi =>
          match s.peers[pi]? with
          | some p => match p.connection with
            | some k => match s.conn? k with
              | some cc => cc.state.isReady
              | none => false
            | none => false
          | none => false
        if anyReady then a else { a with ready := false } }
    s

/-- `close_connection_socket`. -/
def closeConnectionSocket (s : St) (cid : Nat) (reason : Reason) : St :=
  let s := if s.peerSockets.contains cid then
      let s := s.modConn cid fun c => { c with sockClosed := true }
      connClose s cid false
    else s
  removePeerConnection s cid reason

/-- `_add_peer_connection`; returns whether the connection was accepted. -/
def addPeerConnection (s : St) (c : Conn) : St × Bool :=
  let s := { s with conns := s.conns ++ [c] }
  if s.stopping then
    (s.modConn c.id fun x => if Config.rejectStopsWorkers
        then { x with sockClosed := true, hasSocket := false, state := .closed, workersStopped := true }
        else { x with sockClosed := true, hasSocket := false }, false)
  else
    let dup := c.nodeName != "" && (match peerIdx? s c.nodeName with
      | some i => match s.peers[i]? with
        | some p => p.connection.isSome
        | none => false
      | none => false)
    if dup then
      (s.modConn c.id fun x => if Config.rejectStopsWorkers
          then { x with sockClosed := true, hasSocket := false, state := .closed, workersStopped := true }
          else { x with sockClosed := true, hasSocket := false }, false)
    else
      let s := { s with connections := s.connections ++ [c.id], peerSockets := s.peerSockets ++ [c.id],
                        socketPeers := if s.socketPeers.contains c.id then s.socketPeers else s.socketPeers ++ [c.id] }
      let s := match findConnectionPeer s c with
        | some i =>
          match s.peers[i]? with
          | some p =>
            if p.connection.isNone then
              s.modPeer i fun p => { p with connection := some c.id, reason := none, lastConnect := some s.now }
            else { s with halfReady := s.halfReady ++ [c.id] }
          | none => s
        | none => { s with halfReady := s.halfReady ++ [c.id] }
      (s, true)

/-- `_assign_peer_connection`. -/
def assignPeerConnection (s : St) (cid : Nat) : St :=
  match s.conn? cid with
  | none => s
  | some c =>
    if c.hostIdentity == "" then s
    else match peerIdx? s c.hostIdentity with
      | none => s
      | some i =>
        let s := s.modPeer i fun p =>
          { p with reason := none, connection := match p.connection with | none => some cid | x => x }
        if s.halfReady.contains cid then
          let s := { s with halfReady := erase s.halfReady cid }
          s.modPeer i fun p => { p with lastConnect := some s.now }
        else s

/-- `_flag_connection_as_ready`. -/
def flagConnectionAsReady (s : St) (cid : Nat) : St :=
  let s := s.modConn cid fun c => { c with state := .ready }
  { s with apps := s.apps.mapIdx fun ai a =>
      let mine := s.routes.any fun (_, tbl) => tbl.any fun (k, ps) =>
        k == RKey.app ai && ps.any fun pi =>
          match s.peers[pi]? with
          | some p => p.connection == some cid
          | none => false
      if mine then { a with ready := true } else a }

def originKey (cid : Nat) (m : AMsg) : Nat × Nat × Nat :=
  (if Config.originKeyPerConn then cid + 1 else 0, m.hbh, m.e2e)

/-- `_record_answer`, the state it leaves behind (also when it raises: the deque
    append and the deletion happen before the raise). -/
def recordAnswerState (s : St) (cid : Nat) (m : AMsg) : St :=
  let key := originKey cid m
  match s.originWaiting.find? (·.1 == key) with
  | none => s
  | some (_, origin) =>
    let s :=
      if s.sentAnswers.any (·.1 == origin) then
        { s with sentAnswers := s.sentAnswers.map fun (o, (mx, dq)) =>
            if o == origin then
              let dq' := dq ++ [m.e2e]
              (o, (mx, if dq'.length > mx then dq'.drop (dq'.length - mx) else dq'))
            else (o, (mx, dq)) }
      else
        let dq := [m.e2e]
        { s with sentAnswers := s.sentAnswers ++ [(origin, (s.cfg.rq, if dq.length > s.cfg.rq then [] else dq))] }
    { s with originWaiting := s.originWaiting.filter (·.1 != key) }

/-- `_record_answer` raises TypeError for a typed answer without Result-Code to a
    known peer (`int(None / 1000)`). -/
def recordAnswerRaises (s : St) (cid : Nat) (m : AMsg) (hasRC : Bool) : Bool :=
  match s.originWaiting.find? (·.1 == originKey cid m) with
  | none => false
  | some _ =>
    match s.conn? cid with
    | none => false
    | some c =>
      match findConnectionPeer s c with
      | some _ => hasRC && m.rc.isNone
      | none => false

/-- `_record_answer`; `none` = raised. -/
def recordAnswer (s : St) (cid : Nat) (m : AMsg) (hasRC : Bool) : Option St :=
  if recordAnswerRaises s cid m hasRC then none else some (recordAnswerState s cid m)

/-- `send_message`; `false` = `_record_answer` raised after the message was queued.
    The returned state is the one *after* queueing in both cases. -/
def sendMessage (s : St) (cid : Nat) (m : AMsg) (hasRC : Bool) : St × Bool :=
  match s.conn? cid with
  | none => (s, true)
  | some c =>
    let s :=
      if !m.isRequest then
        { s with peerWaiting := s.peerWaiting.map fun (h, l) =>
            if h == cid then (h, l.filter (· != m.hbh)) else (h, l) }
      else s
    let s := s.modConn cid fun x => { x with outQ := x.outQ ++ [m] }
    if !m.isRequest then (recordAnswerState s cid m, !recordAnswerRaises s cid m hasRC)
    else (s, true)

/-- `_generate_answer(conn, msg)` + the fields the caller sets. -/
def generateAnswer (s : St) (m : AMsg) (info : MsgInfo) (rc : Option Nat) (fa : List Nat := []) : AMsg :=
  if info.ansTyped then
    { cmd := m.cmd, flags := m.flags &&& 0x40, app := m.app, hbh := m.hbh, e2e := m.e2e,
      oh := some s.cfg.host, orr := some s.cfg.realm, rc := rc,
      sid := if info.hasSID && info.ansHasSID then m.sid else none,
      fa := if info.ansHasFA then fa else [] }
  else
    -- answers of commands without a typed implementation carry no AVPs at all
    { cmd := m.cmd, flags := m.flags &&& 0x40, app := m.app, hbh := m.hbh, e2e := m.e2e }

def ceaSummary (s : St) : String :=
  let l (xs : List Nat) := "+".intercalate (xs.map toString)
  s!"ip={if s.cfg.listen then s.cfg.addrs else 0};vid=99999;pn=python-diameter;auth={l (authIds s)};acct={l (acctIds s)};supp=1"

/-- `send_cer`. -/
def sendCer (s : St) (cid : Nat) : St :=
  match s.conn? cid with
  | none => s
  | some c =>
    let h := seqNext c.hbh
    let e := seqNext s.e2e
    let s := { s with e2e := e }
    let s := s.modConn cid fun x => { x with hbh := h }
    let m : AMsg := { cmd := 257, flags := 0x80, app := 0, hbh := h, e2e := e,
                      oh := some s.cfg.host, orr := some s.cfg.realm, auth := authIds s, acct := acctIds s }
    (sendMessage s cid m true).1

/-- `send_dwr`. -/
def sendDwr (s : St) (cid : Nat) : St :=
  match s.conn? cid with
  | none => s
  | some c =>
    let h := seqNext c.hbh
    let e := seqNext s.e2e
    let s := { s with e2e := e }
    let s := s.modConn cid fun x => { x with hbh := h }
    let m : AMsg := { cmd := 280, flags := 0x80, app := 0, hbh := h, e2e := e,
                      oh := some s.cfg.host, orr := some s.cfg.realm }
    let s := (sendMessage s cid m true).1
    -- reset_last_dwr
    s.modConn cid fun x => { x with state := if x.state.isReady then .waitDwa else x.state, lastDwr := s.now }

/-- `send_dpr`. -/
def sendDpr (s : St) (cid : Nat) : St :=
  match s.conn? cid with
  | none => s
  | some c =>
    let h := seqNext c.hbh
    let e := seqNext s.e2e
    let s := { s with e2e := e }
    let s := s.modConn cid fun x => { x with hbh := h, state := .disconnecting }
    let m : AMsg := { cmd := 282, flags := 0x80, app := 0, hbh := h, e2e := e,
                      oh := some s.cfg.host, orr := some s.cfg.realm, dc := some 0 }
    (sendMessage s cid m true).1

inductive Exn | attributeError | typeError | notRoutable | valueError | other
  deriving DecidableEq, Repr, Inhabited

/-- handler result: the state reached, and the exception raised (if any) — state
    changes made before a `raise` persist -/
abbrev HR := St × Option Exn

/-- `receive_cer`, first part for a known peer: the connection takes the peer's
    name; election (RFC 6733 5.6.4) against connections this node opened to the
    same peer — the node with the higher identity closes its own. Returns the
    state and whether this (inbound) connection lost. -/
def cerNameAndElect (s : St) (cid : Nat) (cerHost : String) : St × Bool :=
  let s := match s.conn? cid with
    | some c => if c.nodeName == "" then s.modConn cid fun c => { c with nodeName := cerHost } else s
    | none => s
  -- connections whose *local* origin_host equals the remote name
  let others := (s.connections.filterMap s.conn?).filter (·.originHost == cerHost)
  let lost := !others.isEmpty && !(s.cfg.host.toLower > cerHost)
  let s := if !others.isEmpty && s.cfg.host.toLower > cerHost then
      others.foldl (fun s o => connClose s o.id true) s
    else s
  (s, lost)

/-- `receive_cer`. `none` = raised (e.g. CER without Origin-Host: `None.decode()`). -/
def receiveCer (s : St) (cid : Nat) (m : AMsg) (info : MsgInfo) : HR :=
  match m.oh with
  | none => (s, some .attributeError)
  | some ohRaw =>
    let cerHost := ohRaw.toLower
    let ans0 := { generateAnswer s m info none with cea := ceaSummary s }
    match peerIdx? s cerHost with
    | none =>
      let s := s.modConn cid fun c => { c with state := .closing }
      let r := sendMessage s cid { ans0 with rc := some 3010 } true
      (r.1, if r.2 then none else some .typeError)
    | some _ =>
      let e := cerNameAndElect s cid cerHost
      let s := e.1
      if e.2 then
        let s := s.modConn cid fun c => { c with state := .closing }
        let r := sendMessage s cid { ans0 with rc := some 4003 } true
        (r.1, if r.2 then none else some .typeError)
      else
        let isRelay := m.auth.contains 0xffffffff || m.acct.contains 0xffffffff
        -- (the relay test looks at the plain application ids only; the vendor-specific ones are added afterwards)
        let sa := (authIds s).filter (m.auth ++ m.vauth).contains
        let sc := (acctIds s).filter (m.acct ++ m.vacct).contains
        if sa.isEmpty && sc.isEmpty && !isRelay then
          let r := sendMessage s cid { ans0 with rc := some 5010 } true
          (r.1, if r.2 then none else some .typeError)
        else
          let s := s.modConn cid fun c =>
            { c with authApps := sa, acctApps := sc, originHost := s.cfg.host, hostIdentity := cerHost }
          -- `conn.host_ip_address = [i[1] for i in message.host_ip_address]`: an undecodable address is `None`
          if m.badIp then (s, some .typeError) else
          let s := assignPeerConnection s cid
          let s := flagConnectionAsReady s cid
          let r := sendMessage s cid { ans0 with rc := some 2001 } true
          (r.1, if r.2 then none else some .typeError)

/-- `receive_cea`. -/
def receiveCea (s : St) (cid : Nat) (m : AMsg) : HR :=
  if m.rc != some 2001 then (closeConnectionSocket s cid .rejected, none)
  else match m.oh with
    | none => (s, some .attributeError)
    | some oh =>
      let s := s.modConn cid fun c =>
        { c with authApps := (authIds s).filter (m.auth ++ m.vauth).contains,
                 acctApps := (acctIds s).filter (m.acct ++ m.vacct).contains, hostIdentity := oh }
      let s := assignPeerConnection s cid
      (flagConnectionAsReady s cid, none)

/-- `receive_dpr`. -/
def receiveDpr (s : St) (cid : Nat) (m : AMsg) (info : MsgInfo) : HR :=
  let ans := generateAnswer s m info (some 2001)
  let s := s.modConn cid fun c => { c with state := .disconnecting }
  let s := match s.conn? cid with
    | some c => match findConnectionPeer s c with
      | some i => s.modPeer i fun p => { p with reason := some .dpr }
      | none => s
    | none => s
  let r := sendMessage s cid ans true
  (r.1, if r.2 then none else some .typeError)

/-- `receive_dpa`. -/
def receiveDpa (s : St) (cid : Nat) : St :=
  demandAttention (s.modConn cid fun c => { c with state := .closing }) cid

/-- `receive_dwr`. -/
def receiveDwr (s : St) (cid : Nat) (m : AMsg) (info : MsgInfo) : HR :=
  let ans := generateAnswer s m info (some 2001)
  let r := sendMessage s cid ans true
  (r.1, if r.2 then none else some .typeError)

/-- `receive_dwa` → `reset_last_dwa`. -/
def receiveDwa (s : St) (cid : Nat) : St :=
  s.modConn cid fun c => { c with state := if c.state == .waitDwa then .ready else c.state, lastDwr := 0 }

/-- `Application.receive_request` for a basic application: `handle_request`
    runs in the caller; it may raise. -/
def appReceiveRequest (s : St) (ai : Nat) (m : AMsg) : HR :=
  if (s.apps[ai]?).map (·.kind) == some AppKind.threading then
    -- ThreadingApplication.receive_request: only queues the message
    (s.modTApp ai fun a => { a with recvQ := a.recvQ ++ [m] }, none)
  else
  let s := { s with appRequests := s.appRequests ++ [(ai, m)] }
  let s := s.emit (.appReq ai m)
  match s.apps[ai]? with
  | some a => (s, if a.raiseOnRequest then some .other else none)
  | none => (s, none)

/-- `_receive_app_request`. -/
def receiveAppRequest (s : St) (cid : Nat) (m : AMsg) (info : MsgInfo) : HR :=
  match s.conn? cid with
  | none => (s, none)
  | some c =>
    let peer := findConnectionPeer s c
    if !info.hasDR then
      let r := sendMessage s cid (generateAnswer s m info (some 3007)) info.ansTyped
      (r.1, if r.2 then none else some .typeError)
    else match m.dr with
      | none => (s, some .attributeError)        -- `None.decode()`
      | some realm =>
        match s.routes.find? (·.1 == realm) with
        | none =>
          let r := sendMessage s cid (generateAnswer s m info (some 3003)) info.ansTyped
          (r.1, if r.2 then none else some .typeError)
        | some (_, tbl) =>
          let pick := tbl.findSome? fun (k, ps) =>
            match k with
            | .app ai =>
              match s.apps[ai]? with
              | some a =>
                if a.id == m.app then
                  match peer with
                  | some pi => if ps.contains pi then some ai else none
                  | none => some ai
                else none
              | none => none
            | .dflt => none
          match pick with
          | some ai =>
            let s := if s.peerWaiting.any (·.1 == cid) then
                { s with peerWaiting := s.peerWaiting.map fun (h, l) =>
                    if h == cid then (h, if l.contains m.hbh then l else l ++ [m.hbh]) else (h, l) }
              else { s with peerWaiting := s.peerWaiting ++ [(cid, [m.hbh])] }
            appReceiveRequest s ai m
          | none =>
            let r := sendMessage s cid (generateAnswer s m info (some 3007)) info.ansTyped
            (r.1, if r.2 then none else some .typeError)

/-- `Application.receive_answer`. -/
def appReceiveAnswer (s : St) (ai : Nat) (m : AMsg) : St :=
  match s.apps[ai]? with
  | some a =>
    if a.answerWaiting.contains m.hbh then { s with delivered := s.delivered ++ [(ai, m)] }
    else s.emit (.appAns ai m)
  | none => s

/-- `_receive_app_answer`. -/
def receiveAppAnswer (s : St) (m : AMsg) : St :=
  match s.appWaiting.find? (·.1 == (m.hbh, m.e2e)) with
  | none => s
  | some (_, ai) => appReceiveAnswer s ai m

/-- First statement of `_receive_message`: remember the origin of the message. -/
def recordOrigin (s : St) (cid : Nat) (m : AMsg) (info : MsgInfo) : St :=
  if info.hasOH && (m.isRequest || !Config.originOnlyRequests) then
    { s with originWaiting :=
        if s.originWaiting.any (·.1 == originKey cid m) then
          s.originWaiting.map fun (k, v) => if k == originKey cid m then (k, m.oh) else (k, v)
        else s.originWaiting ++ [(originKey cid m, m.oh)] }
  else s

/-- The `match (is_request, command_code)` of `_receive_message` (inside `try`). -/
def handleByCommand (s : St) (cid : Nat) (m : AMsg) (info : MsgInfo) : HR :=
  -- `_update_peer_counters`: requests received from a known peer
  let s := if m.isRequest then
      match (s.conn? cid).bind (findConnectionPeer s) with
      | some pi => s.modPeer pi fun p => { p with requests := p.requests + 1 }
      | none => s
    else s
  if m.cmd == 257 then (if m.isRequest then receiveCer s cid m info else receiveCea s cid m)
  else if m.cmd == 280 then (if m.isRequest then receiveDwr s cid m info else (receiveDwa s cid, none))
  else if m.cmd == 282 then (if m.isRequest then receiveDpr s cid m info else (receiveDpa s cid, none))
  else if m.isRequest then receiveAppRequest s cid m info
  else (receiveAppAnswer s m, none)

/-- the window test of `_receive_message`: has a request with this origin and
    end-to-end id been answered among the remembered answers to that origin? -/
def answeredInWindow (s : St) (m : AMsg) : Bool :=
  match s.sentAnswers.find? (·.1 == m.oh) with
  | some (_, (_, dq)) => dq.contains m.e2e
  | none => false

def crashReader (s : St) (cid : Nat) (exc : String) : St :=
  let s := { s with crashed := s.crashed + 1 }
  (s.modConn cid fun c => { c with readerCrashed := true }).emit (.crash s!"reader c{cid}" exc)

/-- `_receive_message`. A `crash` output is emitted when an exception escapes
    (the reader thread dies). -/
def receiveMessage (s : St) (cid : Nat) (m : AMsg) (info : MsgInfo) : St :=
  let s := recordOrigin s cid m info
  -- pre-`try` section
  if m.isRequest && info.validateRaises then crashReader s cid "ValueError"
  else if m.isRequest && !info.missing.isEmpty then
    let r := sendMessage s cid (generateAnswer s m info (some 5005) info.missing) info.ansTyped
    if r.2 then r.1 else crashReader r.1 cid "TypeError"
  else
    let dup := info.hasOH && m.isRequest && m.isRetransmit && answeredInWindow s m
    if dup then
      let r := sendMessage s cid (generateAnswer s m info (some 5012)) info.ansTyped
      if r.2 then r.1 else crashReader r.1 cid "TypeError"
    else
      match handleByCommand s cid m info with
      | (s', none) => s'
      | (s, some _) =>
        -- `except Exception`: build a 5012 "answer" (only for requests in the repaired code)
        if Config.answerOnlyRequests && !m.isRequest then s
        else
          let r := sendMessage s cid (generateAnswer s m info (some 5012)) info.ansTyped
          if r.2 then r.1 else crashReader r.1 cid "TypeError"

/-- `PeerConnection.__dispatch_message`: the capabilities-exchange gate.
    `Config.gateClosing`: the gate also drops everything on a CLOSING connection. -/
def dispatchMessage (s : St) (cid : Nat) (m : AMsg) (info : MsgInfo) : St :=
  match s.conn? cid with
  | none => s
  | some c =>
    if c.state == .connected then
      if m.cmd != 257 then s
      else if c.dir == .recv && !m.isRequest then s
      else if c.dir == .send && m.isRequest then s
      else receiveMessage s cid m info
    else if Config.gateClosing && (c.state == .closing || c.state == .closed || c.state == .connecting) then s
    else receiveMessage s cid m info

/-- effective timer: the peer's value if set (non-zero: `peer.x or node.x`), else the node's -/
def effTimer (po : Option Nat) (d : Nat) : Nat :=
  match po with
  | some v => if v == 0 then d else v
  | none => d

/-- `_check_timers(conn)`. -/
def checkTimers (s : St) (cid : Nat) : St :=
  if s.stopping then s
  else match s.conn? cid with
    | none => s
    | some c =>
      let peer : Option Peer := (findConnectionPeer s c).bind (fun i => s.peers[i]?)
      let idle : Nat := effTimer (peer.bind (fun p => p.idleTo)) s.cfg.idle
      let dwa : Nat := effTimer (peer.bind (fun p => p.dwaTo)) s.cfg.dwa
      let cea : Nat := effTimer (peer.bind (fun p => p.ceaTo)) s.cfg.cea
      let cer : Nat := effTimer (peer.bind (fun p => p.cerTo)) s.cfg.cer
      if c.state == .connected then
        let since := if Config.ceTimeoutFromEstablished then s.now - c.established else s.now - c.lastRead
        if c.dir == .send && Nat.blt cea since then closeConnectionSocket s cid .failCe
        else if c.dir == .recv && Nat.blt cer since then closeConnectionSocket s cid .failCe
        else s
      else if !c.state.isReady then s
      else if c.state == .waitDwa then
        if Nat.blt dwa (if c.lastDwr > 0 then s.now - c.lastDwr else 0) then closeConnectionSocket s cid .dwaTo
        else s
      else if Nat.blt idle (s.now - c.lastRead) then sendDwr s cid
      else s

/-- `_connect_to_peer` for a TCP peer; the dial outcome comes from the plan. -/
def connectToPeer (s : St) (pi : Nat) : St :=
  match s.peers[pi]? with
  | none => s
  | some p =>
    if p.connection.isSome then s
    else if !p.hasAddr then s
    else
      let plan := s.dialPlan.headD "ok"
      let s := { s with dialPlan := s.dialPlan.drop 1 }
      let cid := s.conns.length
      let c : Conn := { id := cid, dir := .send, state := .connecting, nodeName := p.name,
                        originHost := s.cfg.host, lastRead := s.now, established := s.now, hbh := s.nextHbhSeed }
      let s := { s with nextHbhSeed := s.nextHbhSeed + 1000 }
      let s := (addPeerConnection s c).1
      let s := s.emit (.dialled pi)
      if plan == "fail" then
        -- `remove_peer_connection(conn, SOCKET_FAIL)`: socket and workers are left alone
        if Config.connectFailCloses then closeConnectionSocket s cid .sockFail
        else removePeerConnection s cid .sockFail
      else if plan == "inp" then
        demandAttention { s with inProgress := s.inProgress ++ [cid] } cid
      else
        let s := s.modConn cid fun c => { c with state := .connected }
        sendCer s cid

/-- Body of the `_reconnect_peers` loop for one peer. -/
def reconnectStep (s : St) (pi : Nat) : St :=
  match s.peers[pi]? with
  | none => s
  | some p =>
    if !p.persistent then s
    else if p.connection.isSome then s
    else match p.lastDisconnect with
      | none => s
      | some ld =>
        if ld == 0 then s
        else if s.now - ld < p.wait then s
        else if p.reason == some .dpr && !p.always then s
        else connectToPeer s pi

/-- `_reconnect_peers`. -/
def reconnectPeers (s : St) : St :=
  if s.stopping then s
  else (List.range s.peers.length).foldl reconnectStep s

end DV.Node
