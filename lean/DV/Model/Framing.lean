/-
  Stream framing: `PeerConnection.work_read_queue` (peer.py) as a function of
  (read buffer, received chunk).  `dec` says whether `Message.from_bytes`
  succeeds on a frame (instantiated with the C02/C04 model in the driver,
  universally quantified in the theorems).
-/
import DV.Model.Message
import DV.Model.Config

namespace DV

inductive FEv
  | deliver (frame : Bytes)
  | skip (n : Nat)
  | close
  | spin            -- fuel exhausted: the real loop would iterate forever
  deriving DecidableEq, Repr, Inhabited

/-- The length field of the header at the front of `buf` (needs ≥ 20 octets). -/
def hdrLen (buf : Bytes) : Nat := u32At buf 0 &&& 0x00ffffff

/-- The inner `while len(self._read_buffer) > 0 and resume_waiting is False`
    loop. Returns the events and the buffer left for the next read.
    `skipZeroGuard`: the `except` branch only discards a frame whose header
    length is non-zero (repaired code); `fallThrough`: after discarding an
    undecodable frame the "fewer than 20 octets left → wait" test still runs
    (repaired code; the pinned tree `continue`d past it). -/
def frameLoop (dec : Bytes → Bool) (skipZeroGuard fallThrough : Bool) :
    Nat → Bytes → List FEv × Bytes
  | 0, buf => if buf.isEmpty then ([], buf) else ([.spin], buf)
  | fuel + 1, buf =>
    if buf.isEmpty then ([], buf)
    else if buf.length < 20 then
      -- `MessageHeader.from_bytes` raises, `msg_header` is None: close
      ([.close], buf)
    else
      let l := hdrLen buf
      if buf.length < l then ([], buf)          -- incomplete: wait for more bytes
      else
        let frame := buf.take l
        let ok := l ≥ 20 && dec frame            -- a slice shorter than a header never decodes
        if ok then
          let rest := buf.drop l
          if 0 < rest.length && rest.length < 20 then ([.deliver frame], rest)
          else
            let (evs, b) := frameLoop dec skipZeroGuard fallThrough fuel rest
            (.deliver frame :: evs, b)
        else
          -- `except Exception`: header parsed and `len(buffer) >= length` holds here
          if skipZeroGuard && l == 0 then ([.close], buf)
          else
            let rest := buf.drop l
            if fallThrough && 0 < rest.length && rest.length < 20 then ([.skip l], rest)
            else
              let (evs, b) := frameLoop dec skipZeroGuard fallThrough fuel rest
              (.skip l :: evs, b)

structure RState where
  buf : Bytes
  closed : Bool
  deriving Repr, Inhabited

/-- One `_read_buffer_queue.get()` result processed by the reader. -/
def feed (dec : Bytes → Bool) (g1 g2 : Bool) (st : RState) (chunk : Bytes) : RState × List FEv :=
  if st.closed then (st, [])      -- the reader thread has stopped
  else
    let buf := st.buf ++ chunk
    if buf.length < 20 then ({ st with buf := buf }, [])
    else
      let (evs, b) := frameLoop dec g1 g2 (buf.length + 1) buf
      ({ buf := b, closed := evs.contains .close || evs.contains .spin }, evs)

def feedAll (dec : Bytes → Bool) (g1 g2 : Bool) : RState → List Bytes → RState × List FEv
  | st, [] => (st, [])
  | st, c :: rest =>
    let (st1, e1) := feed dec g1 g2 st c
    let (st2, e2) := feedAll dec g1 g2 st1 rest
    (st2, e1 ++ e2)

end DV
