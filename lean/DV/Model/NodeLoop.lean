/-
  The I/O loop iteration (`Node._handle_connections` body), the reader and
  writer pumps, the application-facing API (`route_answer`, `route_request`,
  `send_answer`, `send_request`) and `stop`.
-/
import DV.Model.Node

namespace DV.Node

/-- Socket readiness as the virtual environment presents it to `select`. -/
structure Ready where
  accept : Bool := false                 -- listening socket readable
  readable : List Nat := []              -- connection ids with pending inbound events

/-- What a readable socket delivers. -/
inductive RxEv
  | data (msgs : List AMsg)              -- whole messages (one `recv`)
  | touch                                -- bytes that complete no message
  | eof
  | soft
  | hard
  deriving Repr, Inhabited

/-- Pending inbound events per connection (the scripted socket inbox). -/
abbrev Inbox := List (Nat × List RxEv)

/-- What the next `send()` on a connection does. -/
inductive TxEv | all | soft | hard
  deriving DecidableEq, Repr, Inhabited

structure World where
  st : St
  inbox : Inbox := []
  acceptQ : Nat := 0                     -- connections waiting in the listen queue
  txScript : List (Nat × List TxEv) := []
  blocked : List Nat := []               -- sockets that never become writable
  soErr : List (Nat × Bool) := []        -- pending connect result per connection (true = ok)

def World.popRx (w : World) (cid : Nat) : World × Option RxEv :=
  match w.inbox.find? (·.1 == cid) with
  | some (_, e :: rest) =>
    ({ w with inbox := w.inbox.map fun (k, l) => if k == cid then (k, rest) else (k, l) }, some e)
  | _ => (w, none)

def World.popTx (w : World) (cid : Nat) : World × TxEv :=
  match w.txScript.find? (·.1 == cid) with
  | some (_, e :: rest) =>
    ({ w with txScript := w.txScript.map fun (k, l) => if k == cid then (k, rest) else (k, l) }, e)
  | _ => (w, .all)

/-- One interrupt token. -/
def handleInterrupt (s : St) : St :=
  match s.pipe with
  | [] => s
  | cid :: rest =>
    let s := { s with pipe := rest }
    if !s.connections.contains cid then s
    else match s.conn? cid with
      | none => s
      | some c =>
        if c.state == .closed then closeConnectionSocket s cid .clean
        else if c.wbuf.isEmpty && c.state == .closing then closeConnectionSocket s cid .clean
        else s

/-- Accept one inbound connection. -/
def handleAccept (s : St) : St :=
  let cid := s.conns.length
  let c : Conn := { id := cid, dir := .recv, state := .connected, lastRead := s.now, established := s.now, hbh := s.nextHbhSeed }
  let s := { s with nextHbhSeed := s.nextHbhSeed + 1000 }
  (addPeerConnection s c).1

/-- A readable peer socket. -/
def handleReadable (w : World) (cid : Nat) : World :=
  if !w.st.socketPeers.contains cid then w
  else
    let r := w.popRx cid
    let w := r.1
    match r.2 with
    | none => w
    | some .soft => w
    | some .hard =>
      let s := closeConnectionSocket w.st cid .sockFail
      { w with st := connClose s cid false }
    | some .eof =>
      let s := closeConnectionSocket w.st cid .gone
      { w with st := connClose s cid false }
    | some (.data msgs) => { w with st := w.st.modConn cid fun c => { c with inQ := c.inQ ++ [msgs] } }
    | some .touch => { w with st := w.st.modConn cid fun c => { c with inQ := c.inQ ++ [[]] } }

/-- A writable socket of a CONNECTING connection: the result of the
    non-blocking connect. `false` = the connection was given up. -/
def connectResult (w : World) (cid : Nat) (c : Conn) : World × Bool :=
  let s := w.st
  if c.state == .connecting then
    let ok := match w.soErr.find? (·.1 == cid) with
      | some (_, b) => b
      | none => true
    if ok then
      let s := s.modConn cid fun c => { c with state := .connected, established := s.now }
      let s := match findConnectionPeer s c with
        | some i => s.modPeer i fun p => { p with lastConnect := some s.now }
        | none => s
      ({ w with st := sendCer s cid }, true)
    else
      let s := closeConnectionSocket s cid .failConn
      ({ w with st := connClose s cid false }, false)
  else (w, true)

/-- A writable socket: hand the write buffer to `send()`. -/
def flushWritable (w : World) (cid : Nat) : World :=
  let s := w.st
  match s.conn? cid with
  | none => w
  | some c =>
    if c.wbuf.isEmpty then
      if c.state == .closing then { w with st := closeConnectionSocket s cid .clean } else w
    else
      let r := w.popTx cid
      let w := r.1
      match r.2 with
      | .soft => w
      | .hard => { w with st := connClose w.st cid true }
      | .all =>
        let s := w.st
        let s := c.wbuf.foldl (fun s m => s.emit (.wrote cid m)) s
        let s := s.modConn cid fun c => { c with wbuf := [] }
        let s := match s.conn? cid with
          | some c => if c.state == .closing then closeConnectionSocket s cid .clean else s
          | none => s
        { w with st := s }

/-- A writable peer socket. -/
def handleWritable (w : World) (cid : Nat) : World :=
  if !w.st.socketPeers.contains cid then w
  else match w.st.conn? cid with
    | none => w
    | some c =>
      let wc := connectResult w cid c
      if !wc.2 then wc.1 else flushWritable wc.1 cid

/-- One pass of the `_handle_connections` loop body. -/
def ioIteration (w : World) : World :=
  let s := w.st
  -- select(): r_list / w_list are computed before anything is handled
  let rl := s.peerSockets.filter fun cid =>
    match s.conn? cid with
    | some c => s.connections.contains cid && c.state != .closed
    | none => false
  let wl := s.peerSockets.filter fun cid =>
    match s.conn? cid with
    | some c => s.connections.contains cid &&
        (c.state == .connecting || (c.state != .closed && !c.wbuf.isEmpty))
    | none => false
  let pipeReady := !s.pipe.isEmpty
  let accReady := w.acceptQ > 0 && s.cfg.listen && s.started
  let readable := rl.filter fun cid =>
    match w.inbox.find? (·.1 == cid) with
    | some (_, _ :: _) => true
    | _ => false
  let writable := wl.filter fun cid => !w.blocked.contains cid && !s.inProgress.contains cid
  -- ready_r in r_list order: interrupt pipe first, listening sockets, peers
  let w := if pipeReady then { w with st := handleInterrupt w.st } else w
  let w := if accReady then { w with st := handleAccept w.st, acceptQ := w.acceptQ - 1 } else w
  let w := readable.foldl handleReadable w
  let w := writable.foldl handleWritable w
  let w := { w with st := w.st.connections.foldl checkTimers w.st }
  { w with st := reconnectPeers w.st }

/-- Reader pump of one connection: one chunk. `infoOf` supplies the codec-level
    facts about a message. -/
def pumpReader (infoOf : AMsg → MsgInfo) (s : St) (cid : Nat) : St :=
  match s.conn? cid with
  | none => s
  | some c =>
    if c.workersStopped || c.readerCrashed then s
    else match c.inQ with
      | [] => s
      | chunk :: rest =>
        let s := s.modConn cid fun c => { c with inQ := rest, lastRead := s.now }
        chunk.foldl (fun s m =>
          match s.conn? cid with
          | some c => if c.readerCrashed then s else dispatchMessage s cid m (infoOf m)
          | none => s) s

/-- Writer pump of one connection: every queued message is encoded into the
    write buffer and the node is signalled. -/
def pumpWriter (s : St) (cid : Nat) : St :=
  match s.conn? cid with
  | none => s
  | some c =>
    if c.workersStopped then s
    else c.outQ.foldl (fun s m =>
      let s := s.modConn cid fun c => { c with wbuf := c.wbuf ++ [m], outQ := c.outQ.drop 1 }
      demandAttention s cid) s

/-- `route_answer`: the connection that has an unanswered request with the
    answer's hop-by-hop id (the first such connection in registration order),
    if it is still registered and in a ready state. -/
def routeAnswer (s : St) (m : AMsg) : Except Exn (St × Nat) :=
  match s.peerWaiting.find? (fun (p : Nat × List Nat) => p.2.contains m.hbh) with
  | none => .error .notRoutable
  | some (wc, _) =>
    let s : St := { s with peerWaiting := s.peerWaiting.map fun (p : Nat × List Nat) =>
      if p.1 == wc then (p.1, p.2.filter (· != m.hbh)) else p }
    if !s.connections.contains wc then .error .notRoutable      -- (state change above is kept by the caller)
    else match s.conn? wc with
      | none => .error .notRoutable
      | some c => if c.state.isReady then .ok (s, c.id) else .error .notRoutable

/-- the `peerWaiting` deletion `route_answer` performs before it may raise -/
def routeAnswerSideEffect (s : St) (m : AMsg) : St :=
  match s.peerWaiting.find? (fun (p : Nat × List Nat) => p.2.contains m.hbh) with
  | none => s
  | some (wc, _) =>
    { s with peerWaiting := s.peerWaiting.map fun (p : Nat × List Nat) =>
      if p.1 == wc then (p.1, p.2.filter (· != m.hbh)) else p }

/-- `Application.send_answer` of an already built answer: `(state, routed?)`. -/
def sendBuiltAnswer (s : St) (ans : AMsg) (typed : Bool) : St × Bool :=
  match routeAnswer s ans with
  | .error _ => (routeAnswerSideEffect s ans, false)
  | .ok (s, cid) => ((sendMessage s cid ans typed).1, true)

/-- One turn of `ThreadingApplication._wait_for_recv_msg`: take a request from
    the receive queue, take a thread slot and start the handler thread — or
    answer DIAMETER_TOO_BUSY when no slot is free. -/
def appRecvStep (infoOf : AMsg → MsgInfo) (ai : Nat) (maxThreads : Nat) (s : St) (m : AMsg) : St :=
  match s.tapps[ai]? with
  | none => s
  | some a =>
    if !a.recvAlive then s
    else
      let s := s.modTApp ai fun a => { a with recvQ := a.recvQ.drop 1 }
      if maxThreads > 0 && a.slots ≥ maxThreads then
        -- queue.Full
        let info := infoOf m
        let r := sendBuiltAnswer s (generateAnswer s m info (some 3004)) info.ansTyped
        if r.2 || Config.appConsumersCatch then r.1
        else ({ r.1 with crashed := r.1.crashed + 1 }.modTApp ai fun a => { a with recvAlive := false }).emit
          (.crash s!"app a{ai} _recv_queue_consumer" "NotRoutable")
      else
        let s := s.modTApp ai fun a => { a with slots := a.slots + 1 }
        { s with deferred := s.deferred ++ [(ai, m)] }

/-- `ThreadingApplication._wait_for_recv_msg`: drain the receive queue. -/
def pumpAppRecv (infoOf : AMsg → MsgInfo) (s : St) (ai : Nat) : St :=
  match s.apps[ai]?, s.tapps[ai]? with
  | some a, some t =>
    if a.kind != .threading || !t.recvAlive || t.held then s
    else t.recvQ.foldl (appRecvStep infoOf ai a.maxThreads) s
  | _, _ => s

/-- One turn of `ThreadingApplication._wait_for_resp_msg` for a queued answer:
    give the slot back, send the answer. -/
def appRespStep (ai : Nat) (s : St) (ans : AMsg) : St :=
  match s.tapps[ai]? with
  | none => s
  | some a =>
    if !a.respAlive then s
    else
      let s := s.modTApp ai fun a => { a with respQ := a.respQ.drop 1, slots := a.slots - 1 }
      let r := sendBuiltAnswer s ans true
      if r.2 || Config.appConsumersCatch then r.1
      else ({ r.1 with crashed := r.1.crashed + 1 }.modTApp ai fun a => { a with respAlive := false }).emit
        (.crash s!"app a{ai} _resp_queue_consumer" "NotRoutable")

/-- …and for the queued `None` results: they only give their slot back. -/
def appRespNones (ai : Nat) (s : St) : St :=
  match s.tapps[ai]? with
  | some a => if a.respAlive then s.modTApp ai fun a => { a with slots := a.slots - a.respNone, respNone := 0 } else s
  | none => s

/-- `ThreadingApplication._wait_for_resp_msg`: drain the response queue. -/
def pumpAppResp (s : St) (ai : Nat) : St :=
  match s.apps[ai]?, s.tapps[ai]? with
  | some a, some t =>
    if a.kind != .threading || !t.respAlive || t.held then s
    else appRespNones ai (t.respQ.foldl (appRespStep ai) s)
  | _, _ => s

/-- A started handler thread runs `_process_recv_msg`. -/
def runHandler (infoOf : AMsg → MsgInfo) (s : St) (k : Nat) : St :=
  match s.deferred[k]? with
  | none => s
  | some (ai, m) =>
    let s := { s with deferred := s.deferred.eraseIdx k, appRequests := s.appRequests ++ [(ai, m)] }
    let s := s.emit (.appReq ai m)
    let info := infoOf m
    match s.tapps[ai]? with
    | none => s
    | some a =>
      if a.outcome == "none" then
        if Config.slotAlwaysReturned then s.modTApp ai fun a => { a with respNone := a.respNone + 1 } else s
      else
        let rc := if a.outcome == "raise" || a.outcome == "raise0" then 5012 else 2001
        s.modTApp ai fun a => { a with respQ := a.respQ ++ [generateAnswer s m info (some rc)] }

def pumpAll (infoOf : AMsg → MsgInfo) (s : St) : St :=
  let s := s.conns.foldl (fun s c =>
    let s := (List.range ((s.conn? c.id).map (·.inQ.length) |>.getD 0)).foldl (fun s _ => pumpReader infoOf s c.id) s
    pumpWriter s c.id) s
  (List.range s.apps.length).foldl (fun s ai => pumpAppResp (pumpAppRecv infoOf s ai) ai) s

def appsBusy (s : St) : Bool :=
  (s.apps.zip s.tapps).any fun (a, t) => a.kind == .threading && !t.held &&
    ((t.recvAlive && !t.recvQ.isEmpty) || (t.respAlive && (!t.respQ.isEmpty || t.respNone > 0)))

def busy (w : World) : Bool :=
  !w.st.pipe.isEmpty || appsBusy w.st ||
  w.st.conns.any fun c =>
    (!c.inQ.isEmpty && !c.workersStopped && !c.readerCrashed) || (!c.outQ.isEmpty && !c.workersStopped) ||
    (w.st.peerSockets.contains c.id && !w.blocked.contains c.id && !w.st.inProgress.contains c.id && c.state != .closed &&
      (!c.wbuf.isEmpty || c.state == .connecting)) ||
    (w.st.peerSockets.contains c.id && (match w.inbox.find? (·.1 == c.id) with | some (_, _ :: _) => true | _ => false))

/-- The harness's "settle": I/O iteration, pump, until nothing moves. -/
def settle (infoOf : AMsg → MsgInfo) : Nat → World → World
  | 0, w => w
  | fuel + 1, w =>
    let w := ioIteration w
    let before := appsBusy w.st || w.st.conns.any fun c =>
      (!c.inQ.isEmpty && !c.workersStopped && !c.readerCrashed) || (!c.outQ.isEmpty && !c.workersStopped)
    let w := { w with st := pumpAll infoOf w.st }
    if busy w || before then settle infoOf fuel w else w

/-! ### application API -/

/-- `Application.send_answer(generate_answer(req, rc))`. -/
def appSendAnswer (s : St) (ai : Nat) (req : AMsg) (info : MsgInfo) (rc : Option Nat) : St :=
  let ans := generateAnswer s req info rc
  match routeAnswer s ans with
  | .error _ => (routeAnswerSideEffect s ans).emit (.raised ai "NotRoutable")
  | .ok (s, cid) =>
    let r := sendMessage s cid ans info.ansTyped
    if r.2 then r.1.emit (.appSent ai) else r.1.emit (.raised ai "TypeError")

/-- The peers `route_request` may use: configured for the application in the
    realm, else the realm's defaults. -/
def peerListFor (s : St) (ai : Nat) (realm : String) : Option (List Nat) :=
  match s.routes.find? (·.1 == realm) with
  | none => none
  | some (_, tbl) =>
    match tbl.find? (fun (k, _) => k == RKey.app ai) with
    | some (_, ps) => some ps
    | none => (tbl.find? (fun (k, _) => k == RKey.dflt)).map (·.2)

/-- the peer has a connection in a ready state -/
def peerUsable (s : St) (pi : Nat) : Bool :=
  match s.peers[pi]? with
  | some p => (match p.connection with
    | some k => (match s.conn? k with | some c => c.state.isReady | none => false)
    | none => false)
  | none => false

/-- `select_least_used_peer`: min over `counters.requests`, first wins ties -/
def leastUsed (s : St) (first : Nat) (usable : List Nat) : Nat :=
  usable.foldl (fun b pi =>
    match s.peers[b]?, s.peers[pi]? with
    | some pb, some pp => if pp.requests < pb.requests then pi else b
    | _, _ => b) first

/-- `route_request`: eligible peers, selection, hop-by-hop id, bookkeeping. -/
def routeRequest (s : St) (ai : Nat) (m : AMsg) (info : MsgInfo) : Except Exn (St × Nat × AMsg) :=
  let realmR : Except Exn String :=
    if info.hasDR then (match m.dr with | some r => .ok r | none => .error .attributeError)
    else .ok s.cfg.realm
  match realmR with
  | .error e => .error e
  | .ok realm =>
    match peerListFor s ai realm with
    | none => .error .notRoutable
    | some [] => .error .notRoutable
    | some ps =>
      match ps.filter (peerUsable s) with
      | [] => .error .notRoutable
      | first :: rest =>
        let best := leastUsed s first (first :: rest)
        match (s.peers[best]?).bind (·.connection) with
        | none => .error .other
        | some cid =>
          match s.conn? cid with
          | none => .error .other
          | some c =>
            let sm : St × AMsg :=
              if m.hbh == 0 then
                let h := seqNext c.hbh
                (s.modConn cid fun x => { x with hbh := h }, { m with hbh := h })
              else (s, m)
            let s := sm.1
            let m := sm.2
            let key := (m.hbh, m.e2e)
            let s := { s with appWaiting :=
              if s.appWaiting.any (·.1 == key) then s.appWaiting.map fun (k, v) => if k == key then (k, ai) else (k, v)
              else s.appWaiting ++ [(key, ai)] }
            .ok (s, cid, m)

/-- `Application.send_request` up to the point where it blocks. The state is
    returned also when routing raises (the end-to-end id has been drawn). -/
def appSendRequestBegin (s : St) (ai : Nat) (m : AMsg) (info : MsgInfo) : St × Except Exn AMsg :=
  let sm : St × AMsg := if m.e2e == 0 then
      let e := seqNext s.e2e
      ({ s with e2e := e }, { m with e2e := e })
    else (s, m)
  let s := sm.1
  let m := sm.2
  let m := if m.app == 0 then { m with app := (s.apps[ai]?).map (·.id) |>.getD 0 } else m
  match routeRequest s ai m info with
  | .error e => (s, .error e)
  | .ok (s, cid, m) =>
    -- `self._answer_waiting[hbh] = waiting` (a dict: a second request with the same id takes the slot over)
    let s := s.modApp ai fun a => { a with answerWaiting := if a.answerWaiting.contains m.hbh then a.answerWaiting else a.answerWaiting ++ [m.hbh] }
    ((sendMessage s cid m true).1, .ok m)

/-- …and after it wakes up (answer or timeout): `finally: del _answer_waiting[hbh]`. -/
def appSendRequestEnd (s : St) (ai : Nat) (hbh : Nat) : St × Bool :=
  let present := match s.apps[ai]? with
    | some a => a.answerWaiting.contains hbh
    | none => false
  (s.modApp ai fun a => { a with answerWaiting := a.answerWaiting.filter (· != hbh) }, present)

/-! ### stop -/

/-- `stop()` up to the wait loop. -/
def stopBegin (s : St) (force : Bool) : St :=
  let s := { s with stopping := true }
  if force then s
  else s.connections.foldl (fun s cid =>
    match s.conn? cid with
    | some c => if c.state.isReady then sendDpr s cid else s
    | none => s) s

/-- The I/O thread's final pass after `_connection_thread.stop()`. -/
def stopFinal (s : St) : St :=
  s.connections.foldl (fun s cid =>
    let s := closeConnectionSocket s cid .shutdown
    connClose s cid false) s

end DV.Node
