/-
  C16 — Hop-by-hop, end-to-end and session ids are unique, also under
  concurrency.
-/
import DV.Proofs.GenThreads
namespace DV.Gens

/-! ### successive callers -/

/-- An identifier is never zero. -/
theorem C16_never_zero (mx cur : Nat) : nextSeq mx cur ≠ 0 := nextSeq_ne_zero mx cur

/-- After the maximum the counter wraps to 1. -/
theorem C16_wraps_to_one (mx : Nat) : nextSeq mx mx = 1 := nextSeq_max mx

/-- Identifiers stay inside the counter space. -/
theorem C16_in_range (mx s : Nat) (h1 : 1 ≤ s) (h2 : s ≤ mx) (n : Nat) : 1 ≤ iter mx n s ∧ iter mx n s ≤ mx :=
  iter_range mx s h1 h2 n

/-- Successive draws `i < j` are distinct until the counter space (`mx` values) wraps. -/
theorem C16_successive_distinct (mx s : Nat) (h1 : 1 ≤ s) (h2 : s ≤ mx) (i j : Nat) (hij : i < j) (hw : j < i + mx) :
    iter mx i s ≠ iter mx j s := iter_distinct mx s h1 h2 i j hij hw

/-- …and this is tight: draw `i + mx` repeats draw `i`. -/
theorem C16_period (mx s : Nat) (h1 : 1 ≤ s) (h2 : s ≤ mx) (i : Nat) : iter mx (i + mx) s = iter mx i s := by
  rw [iter_closed mx s h1 h2, iter_closed mx s h1 h2]
  have : s - 1 + (i + mx) = (s - 1 + i) + mx := by omega
  rw [this, Nat.add_mod_right]

/-! ### the end-to-end generator's start value -/

/-- High 12 bits = low 12 bits of the start time; low 20 bits = the random part;
    the value is a legal counter state (non-zero, 32 bits). -/
theorem C16_e2e_init (now r : Nat) (h1 : 1 ≤ r) (hr : r < 2 ^ 20) :
    e2eInit now r / 2 ^ 20 = now % 2 ^ 12 ∧ e2eInit now r % 2 ^ 20 = r ∧
    1 ≤ e2eInit now r ∧ e2eInit now r ≤ 0xffffffff :=
  ⟨e2eInit_high now r hr, e2eInit_low now r hr, (e2eInit_range now r h1 hr).1, (e2eInit_range now r h1 hr).2⟩

/-! ### session ids -/

def sessionFields (ident : String) (base : Nat) (seq : Nat) (optional : List String) : List String :=
  [ident, String.ofList (hexN 8 base), String.ofList (hexN 8 (seq / 4294967296)),
   String.ofList (hexN 8 (seq % 4294967296))] ++ optional

/-- `identity;start-time;high32;low32[;optional…]`: the `;`-joined fields, four
    fixed ones (the three numeric ones 8 hex digits each) and the optional ones. -/
theorem C16_session_format (ident : String) (base seq : Nat) (optional : List String) :
    sessionId ident base seq optional = ";".intercalate (sessionFields ident base seq optional) ∧
    (sessionFields ident base seq optional).length = 4 + optional.length ∧
    (hexN 8 base).length = 8 ∧ (hexN 8 (seq / 4294967296)).length = 8 ∧ (hexN 8 (seq % 4294967296)).length = 8 :=
  ⟨rfl, by simp [sessionFields]; omega, hexN_length _ _, hexN_length _ _, hexN_length _ _⟩

/-- Different 64-bit counter values give different high/low fields. -/
theorem C16_session_injective (ident : String) (base a b : Nat) (opt : List String)
    (ha : a < 2 ^ 64) (hb : b < 2 ^ 64) (h : sessionFields ident base a opt = sessionFields ident base b opt) : a = b := by
  simp only [sessionFields, List.cons_append, List.nil_append, List.cons.injEq, true_and] at h
  have hhi := String.ofList_injective h.1
  have hlo := String.ofList_injective h.2.1
  have e1 := hexN_inj 8 _ _ (by omega) (by omega) hhi
  have e2 := hexN_inj 8 _ _ (by omega) (by omega) hlo
  omega

/-! ### concurrent callers -/

/-- **Any number of threads, any schedule, source-line granularity.** With the
    update and the read under the lock, the values handed out so far plus the
    ones read and not yet returned are exactly the first `n` successive counter
    values, each once (`n` = completed critical sections). -/
theorem C16_concurrent_exact (mx k s0 nthreads : Nat) (sched : List Nat) :
    let g := runSched mx (lockedProg k) (initGS s0 nthreads) sched
    (g.issued ++ pend g.thrs).Perm ((List.range g.n).map fun j => iter mx (j + 1) s0) :=
  (run_inv (init_inv mx k s0 nthreads) sched).perm

/-- Hence the identifiers handed out to all callers are pairwise distinct until
    the counter space wraps, and none is zero. -/
theorem C16_concurrent_distinct (mx k s0 nthreads : Nat) (sched : List Nat) (h1 : 1 ≤ s0) (h2 : s0 ≤ mx)
    (hw : (runSched mx (lockedProg k) (initGS s0 nthreads) sched).n ≤ mx) :
    (runSched mx (lockedProg k) (initGS s0 nthreads) sched).issued.Nodup ∧
    ∀ v ∈ (runSched mx (lockedProg k) (initGS s0 nthreads) sched).issued, 1 ≤ v ∧ v ≤ mx := by
  have hp := C16_concurrent_exact mx k s0 nthreads sched
  simp only at hp
  have hnd := (hp.nodup_iff).mpr (draws_nodup mx s0 h1 h2 _ hw)
  refine ⟨(List.nodup_append.mp hnd).1, ?_⟩
  intro v hv
  have : v ∈ (List.range (runSched mx (lockedProg k) (initGS s0 nthreads) sched).n).map fun j => iter mx (j + 1) s0 :=
    hp.subset (List.mem_append_left _ hv)
  obtain ⟨j, _, rfl⟩ := List.mem_map.mp this
  exact iter_range mx s0 h1 h2 (j + 1)

/-- Without the lock the property is false: two threads, one preemption, the
    same identifier twice (the shape of `next_sequence` before the repair). -/
theorem C16_unlocked_duplicate :
    (runSched 0xffffffff unlockedProg (initGS 5 2) [0, 0, 1, 1, 1, 0]).issued = [7, 7] := by decide

/-- the premises are satisfiable: three threads, a schedule with preemptions inside the critical section -/
example : (runSched 0xffffffff (lockedProg 0) (initGS 0xfffffffe 3) [0, 0, 1, 0, 2, 0, 0, 1, 1, 1, 1, 1, 2, 2, 2, 2, 2, 0, 2, 1]).issued
    = [0xffffffff, 1, 2] := by decide

end DV.Gens
