/-
  C07 — "the node never transmits an answer in reaction to a received answer":
  for every state and every received message with the R bit clear (a CEA, DWA,
  DPA, an application answer, an answer of an unknown command, with any content,
  also one whose handling raises), dispatching it leaves **every write queue of
  every connection exactly as it was**.

  (`C07_no_answer_to_answer` in Properties/C07.lean is the same fact for the
  catch-all handler alone; this is the whole path from `__dispatch_message`.)
-/
import DV.Properties.C07One
namespace DV.Node

theorem oql_handleByCommand_answer (s : St) (cid : Nat) (m : AMsg) (info : MsgInfo) (hm : m.isRequest = false) :
    (handleByCommand s cid m info).1.oql = s.oql := by
  unfold handleByCommand
  simp only [hm, Bool.false_eq_true, if_false]
  repeat (first | rfl | split | simp only [oql_receiveCea, oql_receiveDwa, oql_receiveDpa, oql_receiveAppAnswer])

theorem oql_receiveMessage_answer (hk : Config.answerOnlyRequests = true) (s : St) (cid : Nat) (m : AMsg) (info : MsgInfo)
    (hm : m.isRequest = false) : (receiveMessage s cid m info).oql = s.oql := by
  unfold receiveMessage
  have h0 := oql_recordOrigin s cid m info
  have hb := oql_handleByCommand_answer (recordOrigin s cid m info) cid m info hm
  simp only [hm, Bool.false_and, Bool.and_false, Bool.false_eq_true, if_false, hk, Bool.not_false, Bool.and_self, if_true]
  split
  · rename_i s' heq; rw [heq] at hb; exact hb.trans h0
  · rename_i s' e heq; rw [heq] at hb; exact hb.trans h0

/-- **A received answer queues nothing, anywhere.** -/
theorem C07_received_answer_queues_nothing (hk : Config.answerOnlyRequests = true) (s : St) (cid : Nat) (m : AMsg)
    (info : MsgInfo) (hm : m.isRequest = false) :
    ((dispatchMessage s cid m info).conns.map fun c => (c.id, c.outQ)) = (s.conns.map fun c => (c.id, c.outQ)) := by
  show (dispatchMessage s cid m info).oql = s.oql
  unfold dispatchMessage
  repeat (first | rfl | exact oql_receiveMessage_answer hk s cid m info hm | split)

/-- the configuration switch is that of the current tree (and of the source: `C07_answer_switch_is_the_sources`) -/
theorem C07_answer_config : Config.answerOnlyRequests = true := rfl

end DV.Node
