/-
  C03 — round trip of whole object trees: nested containers and lists of
  containers, to any depth (`C03_roundtrip_nested`), and through the wire
  (`C03_roundtrip_wire`).  `Good`, `Restored` are defined in
  Proofs/TypedNested.lean.
-/
import DV.Proofs.TypedNested
import DV.Properties.C03Round
namespace DV
open Spec

/-- **Round trip of a typed object tree.**  For every depth `n` and every object
    satisfying `Good … n` (attributes unset, in-domain scalars, lists of in-domain
    plain values, nested containers of the declared class, lists of those;
    undeclared AVPs attached at any level; generated AVPs within the 24-bit
    length field): the AVPs `generate_avps_from_defs` produces are well-formed,
    and assigning them to a fresh object of the class — which decodes every
    grouped payload and recurses — gives back the object: same class, same
    undeclared AVPs, every declared attribute restored, at every level. -/
theorem C03_roundtrip_nested (dict : DTree) (cs : List ClassDef) (g : Bool) :
    ∀ (n cls : Nat) (fs : List (Nat × FVal)) (add avps : List Avp),
      Good dict cs n (.obj cls fs add) → generateFuel rfcTime dict cs n (.obj cls fs add) = .ok avps →
      (∀ a ∈ avps, AvpWF a) ∧
      ∃ back, assignFuel (getValue rfcTime g) dict cs n cls avps = .ok back ∧ Restored cs n (.obj cls fs add) back := by
  intro n
  induction n with
  | zero => intro cls fs add avps hg; exact absurd hg (by simp [Good])
  | succ n ih =>
    intro cls fs add avps hg hgen
    simp only [Good] at hg
    obtain ⟨c, hc, hdist, hadd, hund, hwf, hfields⟩ := hg
    refine ⟨hwf (n + 1) avps hgen, ?_⟩
    have hattr := attrs_distinct_of_defsDistinct c.defs hdist
    simp only [generateFuel, hc, bind, Except.bind, pure, Except.pure] at hgen
    split at hgen
    · contradiction
    · rename_i gen hgen'
      injection hgen with hgen; subst hgen
      have hsub : ∀ d ∈ c.defs, d ∈ c.defs ∧ neededDef c.defs d.code d.vendor = some d :=
        fun d hd => ⟨hd, C03_decode_finds_definition c.defs hdist d hd⟩
      have hrec : RecurOK dict cs (Good dict cs n) (Restored cs n) n (assignFuel (getValue rfcTime g) dict cs n) :=
        fun t fs' add' subs hG hs => ih t fs' add' subs hG hs
      have hstart : ∀ d ∈ c.defs, StartOKN fs (initFields c) d := by
        intro d hd
        have hv := hfields d hd
        unfold StartOKN
        cases hfv : fieldOf fs d with
        | scalar x => rw [hfv] at hv; exact fieldOf_init_nonlist c d hd hv.1 hattr
        | obj k ofs oadd => rw [hfv] at hv; exact fieldOf_init_nonlist c d hd hv.1 hattr
        | list xs => rw [hfv] at hv; exact ⟨[], fieldOf_init_list c d hd hv.1 hv.2.1 hattr⟩
        | objs os =>
          rw [hfv] at hv
          obtain ⟨hl, t, ht, _⟩ := hv
          exact ⟨[], fieldOf_init_objs c d hd hl t ht hattr⟩
        | _ => trivial
      obtain ⟨f1, h1, h2⟩ := assign_generate_nested_aux dict cs g c (assignFuel (getValue rfcTime g) dict cs n)
        (Good dict cs n) (Restored cs n) n hrec fs hattr c.defs hsub hdist hfields gen hgen' (initFields c) [] hstart
      refine ⟨.obj cls f1 add, ?_, ?_⟩
      · simp only [assignFuel, hc]
        rw [assignLoop_append _ gen add _ _ h1, assignLoop_undeclared _ _ _ _ hadd add hund]
        simp
      · simp only [Restored]
        refine ⟨c, f1, hc, rfl, ?_⟩
        intro d hd
        have hs := (h2 d hd).1 hd
        have hv := hfields d hd
        unfold FieldRestoredBy
        unfold StepRestored at hs
        cases hfv : fieldOf fs d with
        | unset => rw [hfv] at hs; exact hs
        | scalar x => rw [hfv] at hs; exact hs
        | list xs =>
          rw [hfv] at hs hv
          obtain ⟨p, hp, hs⟩ := hs
          rw [fieldOf_init_list c d hd hv.1 hv.2.1 hattr] at hp
          injection hp with hp; subst hp
          simpa using hs
        | obj k ofs oadd => rw [hfv] at hs; exact hs
        | objs os =>
          rw [hfv] at hs hv
          obtain ⟨p, os1, hp, hs, hall⟩ := hs
          obtain ⟨hl, t, ht, _⟩ := hv
          rw [fieldOf_init_objs c d hd hl t ht hattr] at hp
          injection hp with hp; subst hp
          exact ⟨os1, by simpa using hs, hall⟩
        | classObj k => rw [hfv] at hs; exact hs

/-- **…through the wire.**  The generated AVPs encode; decoding those bytes gives
    the same AVPs back, and assigning the decoded AVPs restores the object tree
    (this is `obj → generate → as_bytes → from_bytes → assign` for the AVP part
    of a message or the payload of a grouped AVP). -/
theorem C03_roundtrip_wire (dict : DTree) (cs : List ClassDef) (g : Bool) (n cls : Nat)
    (fs : List (Nat × FVal)) (add avps : List Avp)
    (hg : Good dict cs n (.obj cls fs add)) (hgen : generateFuel rfcTime dict cs n (.obj cls fs add) = .ok avps) :
    ∃ bytes, encodeAvps avps = .ok bytes ∧ decodeAvps bytes 0 = .ok avps ∧
      ∃ back, assignFuel (getValue rfcTime g) dict cs n cls avps = .ok back ∧ Restored cs n (.obj cls fs add) back := by
  obtain ⟨hwf, hback⟩ := C03_roundtrip_nested dict cs g n cls fs add avps hg hgen
  exact ⟨avpsWire avps, encodeAvps_wire avps hwf, decode_encoded avps _ hwf (encodeAvps_wire avps hwf), hback⟩

/-! ### with the tables' well-formedness doing the table part

  `GoodW` is `Good` without what `allClassesWF` (proved of the regenerated tables
  by `C03_tables_wellformed`) already provides: distinct definitions, a
  dictionary entry per definition, Grouped iff container class; and with the
  wire well-formedness of the generated AVPs reduced to what it really asks:
  32-bit codes and vendor ids in the tables (`defsInRange`, decidable), well-formed
  undeclared AVPs, and every generated AVP within the 24-bit length field. -/

/-- every definition's code and vendor id fit 32 bits -/
def defsInRange (cs : List ClassDef) : Bool :=
  cs.all fun c => c.defs.all fun d => Nat.blt d.code 4294967296 && Nat.blt d.vendor 4294967296

def FieldShapeBy (G : FVal → Prop) (dict : DTree) (d : AttrDef) (v : FVal) : Prop :=
  match v with
  | .unset => True
  | .scalar x => d.isList = false ∧ d.tclass = none ∧
      ∀ e, lookupDict dict d.code d.vendor = some e → InDomain (Ty.ofTag e.ty) x
  | .list xs => d.isList = true ∧ d.tclass = none ∧
      ∀ e, lookupDict dict d.code d.vendor = some e → ∀ x ∈ xs, InDomain (Ty.ofTag e.ty) x
  | .obj cls fs add => d.isList = false ∧ d.tclass = some cls ∧ G (.obj cls fs add)
  | .objs os => d.isList = true ∧ ∃ t, d.tclass = some t ∧ ∀ o ∈ os, (∃ fs add, o = .obj t fs add) ∧ G o
  | .classObj _ => False

def GoodW (dict : DTree) (cs : List ClassDef) : Nat → FVal → Prop
  | 0 => fun _ => False
  | n + 1 => fun v =>
    match v with
    | .obj cls fs add =>
      ∃ c, findClass cs cls = some c ∧ c.additional ≠ 0 ∧
        (∀ a ∈ add, neededDef c.defs a.code a.vendor = none ∧ AvpWF a) ∧
        (∀ k subs, generateFuel rfcTime dict cs k (.obj cls fs add) = .ok subs → ∀ a ∈ subs, a.length < 16777216) ∧
        ∀ d ∈ c.defs, FieldShapeBy (GoodW dict cs n) dict d (fieldOf fs d)
    | _ => False

theorem good_of_goodW (dict : DTree) (cs : List ClassDef) (ncls : Nat) (hall : allClassesWF dict cs ncls = true)
    (hrange : defsInRange cs = true) : ∀ n v, GoodW dict cs n v → Good dict cs n v := by
  intro n
  induction n with
  | zero => intro v h; exact absurd h (by simp [GoodW])
  | succ n ih =>
    intro v h
    cases v with
    | obj cls fs add =>
      simp only [GoodW] at h
      obtain ⟨c, hc, hadd, hund, hwf, hfields⟩ := h
      have hmem : c ∈ cs := by
        unfold findClass at hc
        exact List.mem_of_getElem? hc
      simp only [allClassesWF, Bool.and_eq_true, List.all_eq_true] at hall
      have hcw := hall.2 c hmem
      simp only [classWF, Bool.and_eq_true, List.all_eq_true] at hcw
      simp only [Good]
      have hdefs : ∀ d ∈ c.defs, d.code < 4294967296 ∧ d.vendor < 4294967296 := by
        intro d hd
        simp only [defsInRange, List.all_eq_true, Bool.and_eq_true] at hrange
        have := hrange c hmem d hd
        have h1 := this.1; have h2 := this.2
        simp [Nat.blt] at h1 h2
        exact ⟨by omega, by omega⟩
      refine ⟨c, hc, hcw.1.1.2, hadd, fun a ha => (hund a ha).1,
        fun k subs hk => generated_wf dict cs k cls c fs add subs hc hdefs (fun a ha => (hund a ha).2) hk (hwf k subs hk), ?_⟩
      intro d hd
      have hdef := hcw.1.1.1 d hd
      unfold attrDefWF at hdef
      have hsh := hfields d hd
      unfold FieldShapeBy at hsh
      unfold FieldGoodBy
      cases hl : lookupDict dict d.code d.vendor with
      | none => simp [hl] at hdef
      | some e =>
        simp only [hl] at hdef
        cases hfv : fieldOf fs d with
        | unset => trivial
        | scalar x => rw [hfv] at hsh; exact ⟨hsh.1, hsh.2.1, e, rfl, hsh.2.2 e hl⟩
        | list xs => rw [hfv] at hsh; exact ⟨hsh.1, hsh.2.1, e, rfl, hsh.2.2 e hl⟩
        | obj k ofs oadd =>
          rw [hfv] at hsh
          obtain ⟨h1, h2, h3⟩ := hsh
          simp only [h2, Bool.and_eq_true] at hdef
          have hty : e.ty = tagGrouped := by simpa using hdef.1
          exact ⟨h1, h2, ⟨e, rfl, hty⟩, ih _ h3⟩
        | objs os =>
          rw [hfv] at hsh
          obtain ⟨h1, t, h2, h3⟩ := hsh
          simp only [h2, Bool.and_eq_true] at hdef
          have hty : e.ty = tagGrouped := by simpa using hdef.1
          exact ⟨h1, t, h2, ⟨e, rfl, hty⟩, fun o ho => ⟨(h3 o ho).1, ih _ (h3 o ho).2⟩⟩
        | classObj k => rw [hfv] at hsh; exact hsh
    | _ => exact absurd h (by simp [GoodW])

/-- The round trip through the wire under the tables' well-formedness. -/
theorem C03_roundtrip_wellformed_tables (dict : DTree) (cs : List ClassDef) (ncls : Nat)
    (hall : allClassesWF dict cs ncls = true) (hrange : defsInRange cs = true) (g : Bool) (n cls : Nat)
    (fs : List (Nat × FVal)) (add avps : List Avp)
    (hg : GoodW dict cs n (.obj cls fs add)) (hgen : generateFuel rfcTime dict cs n (.obj cls fs add) = .ok avps) :
    ∃ bytes, encodeAvps avps = .ok bytes ∧ decodeAvps bytes 0 = .ok avps ∧
      ∃ back, assignFuel (getValue rfcTime g) dict cs n cls avps = .ok back ∧ Restored cs n (.obj cls fs add) back :=
  C03_roundtrip_wire dict cs g n cls fs add avps (good_of_goodW dict cs ncls hall hrange n _ hg) hgen

end DV

/-! ### the premises are satisfiable: a nested object with an undeclared AVP inside the container -/
namespace DV.NestedEx
open DV DV.Spec

def nDict : DTree := .node .leaf ⟨1, 0, 8, 1, 0⟩ (.node .leaf ⟨3, 0, 4, 1, 2⟩ .leaf)
def nInner : ClassDef :=
  { id := 1, name := 1, isMessage := false, defs := [⟨10, 1, 0, false, 0, none, false⟩],
    additional := 1, intDefaults := [], oddDefaults := [], assigns := false }
def nOuter : ClassDef :=
  { id := 0, name := 0, isMessage := false,
    defs := [⟨20, 3, 0, false, 0, some 1, false⟩, ⟨21, 1, 0, false, 0, none, false⟩],
    additional := 1, intDefaults := [], oddDefaults := [], assigns := false }
def nCs : List ClassDef := [nOuter, nInner]
def nExtra : Avp := { code := 99, vendor := 5, flags := 0x80, payload := [9] }
def nInnerObj : FVal := .obj 1 [(10, .scalar (.int 7))] [nExtra]
def nOuterObj : FVal := .obj 0 [(21, .scalar (.int 5)), (20, nInnerObj)] []

def nInnerAvps : List Avp := [{ code := 1, vendor := 0, flags := 0x40, payload := [0, 0, 0, 7] }, nExtra]

theorem nInner_gen (k : Nat) : generateFuel rfcTime nDict nCs (k + 1) nInnerObj = .ok nInnerAvps := by
  simp [generateFuel, genDefs, genOne, findClass, nCs, nInner, nInnerObj, nInnerAvps, bind, Except.bind, pure, Except.pure]
  rfl

def nOuterAvps : List Avp :=
  [{ code := 3, vendor := 0, flags := 0x40, payload := avpsWire nInnerAvps },
   { code := 1, vendor := 0, flags := 0x40, payload := [0, 0, 0, 5] }]

theorem nInner_wf : ∀ a ∈ nInnerAvps, AvpWF a := by
  intro a ha
  simp only [nInnerAvps, nExtra, List.mem_cons, List.mem_nil_iff, or_false] at ha
  rcases ha with rfl | rfl <;> exact ⟨by decide, by decide, by decide, by decide, by decide⟩

theorem nFind0 : findClass nCs 0 = some nOuter := rfl
theorem nFind1 : findClass nCs 1 = some nInner := rfl
theorem nLook3 : lookupDict nDict 3 0 = some ⟨3, 0, 4, 1, 2⟩ := by decide
theorem nLook1 : lookupDict nDict 1 0 = some ⟨1, 0, 8, 1, 0⟩ := by decide

theorem nOne (k : Nat) : genOne rfcTime nDict nCs (k + 1) ⟨20, 3, 0, false, 0, some 1, false⟩ nInnerObj =
    .ok [{ code := 3, vendor := 0, flags := 0x40, payload := avpsWire nInnerAvps }] := by
  have hin := nInner_gen k
  have henc := encodeAvps_wire nInnerAvps nInner_wf
  unfold nInnerObj at hin ⊢
  simp only [genOne, Option.isSome_some, if_true, bind, Except.bind, pure, Except.pure, hin, avpNewGrouped, avpNew, nLook3,
    henc]
  rfl

theorem nOuter_gen (k : Nat) : generateFuel rfcTime nDict nCs (k + 2) nOuterObj = .ok nOuterAvps := by
  have hone := nOne k
  unfold nOuterObj
  have htwo : genOne rfcTime nDict nCs (k + 1) ⟨21, 1, 0, false, 0, none, false⟩ (.scalar (.int 5)) =
      .ok [{ code := 1, vendor := 0, flags := 0x40, payload := [0, 0, 0, 5] }] := by
    simp only [genOne, Option.isSome_none, Bool.false_eq_true, if_false, bind, Except.bind, pure, Except.pure, avpNew, nLook1]
    rfl
  simp only [generateFuel, nFind0, nOuter, genDefs, bind, Except.bind, pure, Except.pure, List.find?,
    show ((21 : Nat) == 20) = false from rfl, show ((20 : Nat) == 20) = true from rfl, show ((21 : Nat) == 21) = true from rfl,
    hone, htwo]
  rfl

theorem nOuter_wf : ∀ a ∈ nOuterAvps, AvpWF a := by
  intro a ha
  simp only [nOuterAvps, List.mem_cons, List.mem_nil_iff, or_false] at ha
  rcases ha with rfl | rfl
  · exact ⟨by decide, by decide, by decide, by decide, by decide⟩
  · exact ⟨by decide, by decide, by decide, by decide, by decide⟩

theorem nInner_good : Good nDict nCs 1 nInnerObj := by
  unfold nInnerObj
  simp only [Good]
  refine ⟨nInner, rfl, by decide, by decide, ?_, ?_, ?_⟩
  · intro a ha
    simp only [List.mem_cons, List.mem_nil_iff, or_false] at ha
    subst ha; rfl
  · intro k subs h
    cases k with
    | zero => simp [generateFuel] at h
    | succ k =>
      have := nInner_gen k
      unfold nInnerObj at this
      rw [this] at h
      injection h with h; subst h
      exact nInner_wf
  · intro d hd
    simp only [nInner, List.mem_cons, List.mem_nil_iff, or_false] at hd
    subst hd
    exact ⟨rfl, rfl, ⟨1, 0, 8, 1, 0⟩, nLook1, by simp [InDomain, Ty.ofTag]⟩

theorem nOuter_good : Good nDict nCs 2 nOuterObj := by
  unfold nOuterObj
  simp only [Good]
  refine ⟨nOuter, rfl, by decide, by decide, by simp, ?_, ?_⟩
  · intro k subs h
    match k with
    | 0 => simp [generateFuel] at h
    | 1 =>
      exfalso
      simp [generateFuel, nFind0, nOuter, genDefs, genOne, nInnerObj, avpNew, nLook3, bind, Except.bind, pure, Except.pure] at h
    | k + 2 =>
      have := nOuter_gen k
      unfold nOuterObj at this
      rw [this] at h
      injection h with h; subst h
      exact nOuter_wf
  · intro d hd
    simp only [nOuter, List.mem_cons, List.mem_nil_iff, or_false] at hd
    rcases hd with rfl | rfl
    · exact ⟨rfl, rfl, ⟨⟨3, 0, 4, 1, 2⟩, nLook3, rfl⟩, nInner_good⟩
    · exact ⟨rfl, rfl, ⟨1, 0, 8, 1, 0⟩, nLook1, by simp [InDomain, Ty.ofTag]⟩

/-- a nested object with an undeclared AVP inside the nested container: every
    premise of `C03_roundtrip_wire` holds -/
example : ∃ bytes back, encodeAvps nOuterAvps = .ok bytes ∧ decodeAvps bytes 0 = .ok nOuterAvps ∧
    assignFuel (getValue rfcTime true) nDict nCs 2 0 nOuterAvps = .ok back ∧ Restored nCs 2 nOuterObj back := by
  obtain ⟨bytes, h1, h2, back, h3, h4⟩ := C03_roundtrip_wire nDict nCs true 2 0 _ _ nOuterAvps nOuter_good (nOuter_gen 0)
  exact ⟨bytes, back, h1, h2, h3, h4⟩

end DV.NestedEx
