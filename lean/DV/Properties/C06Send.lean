/-
  C06 — "an outbound connection sends its CER first": what `send_cer` does, for
  every state — exactly one message is appended to the write queue of the
  connection objects with that id and to no other queue: a request with command
  code 257, application id 0, the node's identity, the application ids of the
  node's applications, and non-zero hop-by-hop and end-to-end identifiers; no
  connection changes its state (the connection stays CONNECTED: ready only on the
  2001 CEA, `C06_cea_ready_only_with_2001`), and nothing reaches an application.

  (`_connect_to_peer` creates the connection object with an empty write queue and
  calls `send_cer` as soon as the transport is up — `connectToPeer`,
  `connectResult` in the model —, so this message is the first one queued; the
  gate of `C06_gate` keeps everything else out until the CEA has arrived.)
-/
import DV.Properties.C11Send
namespace DV.Node

theorem C06_send_cer (s : St) (cid : Nat) (c : Conn) (hc : s.conn? cid = some c) :
    ∃ m : AMsg, m.cmd = 257 ∧ m.isRequest = true ∧ m.app = 0 ∧ m.oh = some s.cfg.host ∧ m.orr = some s.cfg.realm ∧
      m.auth = authIds s ∧ m.acct = acctIds s ∧ m.hbh ≠ 0 ∧ m.e2e ≠ 0 ∧
      (sendCer s cid).oql = (s.oql.map fun p => if p.1 == cid then (p.1, p.2 ++ [m]) else p) ∧
      (sendCer s cid).stv = s.stv ∧ (sendCer s cid).appRequests = s.appRequests ∧ (sendCer s cid).tapps = s.tapps := by
  refine ⟨{ cmd := 257, flags := 0x80, app := 0, hbh := seqNext c.hbh, e2e := seqNext s.e2e,
            oh := some s.cfg.host, orr := some s.cfg.realm, auth := authIds s, acct := acctIds s },
          rfl, by simp [AMsg.isRequest], rfl, rfl, rfl, rfl, rfl, seqNext_ne_zero _, seqNext_ne_zero _, ?_, ?_, ?_, ?_⟩
  · unfold sendCer
    simp only [hc]
    rw [oql_sendMessage]
    have : (({ s with e2e := seqNext s.e2e } : St).modConn cid fun x => { x with hbh := seqNext c.hbh }).oql = s.oql :=
      oql_modConn_tame _ _ _ (by tame)
    rw [this]
    rfl
  · unfold sendCer
    simp only [hc]
    rw [stv_sendMessage]
    exact stv_modConn_tame _ _ _ (by tame)
  · unfold sendCer
    simp only [hc]
    rw [appRequests_sendMessage]
    rfl
  · unfold sendCer
    simp only [hc]
    rw [tapps_sendMessage]
    rfl

end DV.Node
