/-
  C07 — every answer the node queues for transmission answers a request it
  received on that connection: over whole histories.

  For every sequence of operations of the node model in which applications hand
  *requests* to `send_request` (what they hand to `send_answer` is unrestricted),
  in every state reached: every message with the R bit clear in a connection's
  write queue or write buffer — the only way onto the wire — carries the
  hop-by-hop identifier of a request that the socket of that very connection
  delivered earlier in the history.  This covers the node's own answers (CEA,
  DWA, DPA, 3xxx/5xxx error answers — built from the message being processed,
  queued on the connection it was read from) and the applications' answers
  (which reach a queue only through `route_answer`).

  Hypotheses: the two configuration flags recording `fix:` commits — the
  catch-all handler answers only requests (594a107), and the gate flag is not
  needed here.
-/
import DV.Proofs.NodeOut
import DV.Properties.C07Hist
namespace DV.Node

/-- what applications may do: anything, except that what is handed to `send_request` is a request -/
def opOk : Op → Prop
  | .reqBegin _ m => m.isRequest = true
  | _ => True

theorem Qs_applyOp (hk : Config.answerOnlyRequests = true) (infoOf : AMsg → MsgInfo) (L : List (Nat × Nat)) (w : World) (o : Op)
    (ho : opOk o) (h : WSQ L w) : Qs L (applyOp infoOf w o).st := by
  obtain ⟨⟨hs, hib⟩, hq⟩ := h
  cases o with
  | rx cid e => simp only [applyOp, pushRx]; repeat (first | exact hq | split)
  | start plan =>
    simp only [applyOp]
    apply qs_foldl
    · intro s a hs'
      repeat (first | exact hs' | exact qs_connectToPeer s a hs' | split)
    · exact qs_of_conns rfl hq
  | accept => exact qs_ioIteration { w with acceptQ := w.acceptQ + 1 } hq
  | wr cid evs => simp only [applyOp]; repeat (first | exact hq | split | dsimp only)
  | block cid b => simp only [applyOp]; split <;> exact hq
  | sethbh cid v => exact qs_modConn _ _ _ (by tameo) hq
  | anon cid => exact qs_modConn _ _ _ (by tameo) hq
  | dial plan => exact qs_of_conns rfl hq
  | conn cid ok => exact qs_of_conns rfl hq
  | adv dt => exact qs_of_conns rfl hq
  | io => exact qs_ioIteration w hq
  | pump => exact (SQ_pumpAll hk infoOf w.st ⟨hs, hq⟩).2
  | settle n => exact (WSQ_settle hk infoOf n w ⟨⟨hs, hib⟩, hq⟩).2
  | hold ai v => exact hq
  | outcome ai o => exact hq
  | handler k => exact qs_runHandler infoOf _ k hq
  | ans ai req rc => exact (SQ_appSendAnswer _ _ _ _ _ ⟨hs, hq⟩).2
  | reqBegin ai m => exact qs_appSendRequestBegin _ _ _ _ ho hq
  | reqEnd ai hbh t =>
    simp only [applyOp]
    split <;> exact qs_of_conns rfl hq
  | stopBegin f => exact qs_stopBegin _ _ hq
  | stopFinal => exact qs_stopFinal _ hq
  | note o => exact hq
  | flush => exact qs_of_conns rfl hq

theorem WSQ_applyOp (hk : Config.answerOnlyRequests = true) (infoOf : AMsg → MsgInfo) (L : List (Nat × Nat)) (w : World) (o : Op)
    (ho : opOk o) (h : WSQ L w) : WSQ (L ++ opReqs o) (applyOp infoOf w o) :=
  ⟨WSnd_applyOp infoOf L w o h.1, Qs_mono (fun x hx => List.mem_append_left _ hx) (Qs_applyOp hk infoOf L w o ho h)⟩

/-- **Every reachable state.** -/
theorem C07_queued_answers_sound (hk : Config.answerOnlyRequests = true) (infoOf : AMsg → MsgInfo) (L0 : List (Nat × Nat))
    (w : World) (ops : List Op) (hok : ∀ o ∈ ops, opOk o) (h : WSQ L0 w) : WSQ (L0 ++ reqLog ops) (run infoOf w ops) := by
  unfold run reqLog
  induction ops generalizing w L0 with
  | nil => simpa using h
  | cons o ops ih =>
    simp only [List.foldl_cons, List.flatMap_cons]
    rw [← List.append_assoc]
    exact ih _ _ (fun o' ho' => hok o' (List.mem_cons_of_mem _ ho')) (WSQ_applyOp hk infoOf L0 w o (hok o (List.mem_cons_self ..)) h)

/-- a quiet world with nothing queued for transmission either -/
def QuietOut (w : World) : Prop := Quiet w ∧ ∀ c ∈ w.st.conns, c.outQ = [] ∧ c.wbuf = []

theorem WSQ_of_quiet {w : World} (h : QuietOut w) : WSQ [] w := by
  refine ⟨WSnd_of_quiet h.1, ?_⟩
  intro x hx
  rw [mem_outm] at hx
  obtain ⟨c, hc, _, hm⟩ := hx
  rw [(h.2 c hc).1, (h.2 c hc).2] at hm
  exact absurd hm (List.not_mem_nil)

/-- **C07 over whole histories.** From a quiet world, after *any* history in which
    applications hand requests to `send_request`: every answer in any
    connection's write queue or write buffer carries the hop-by-hop id of a
    request that the socket of that connection delivered earlier in the history. -/
theorem C07_every_queued_answer_answers_a_received_request (hk : Config.answerOnlyRequests = true)
    (infoOf : AMsg → MsgInfo) (w : World) (ops : List Op) (hq : QuietOut w) (hok : ∀ o ∈ ops, opOk o) :
    ∀ c ∈ (run infoOf w ops).st.conns, ∀ a ∈ c.outQ ++ c.wbuf, a.isRequest = false → (c.id, a.hbh) ∈ reqLog ops := by
  have hinv := C07_queued_answers_sound hk infoOf [] w ops hok (WSQ_of_quiet hq)
  rw [List.nil_append] at hinv
  intro c hc a ha hr
  exact hinv.2 (c.id, a) (mem_outm.mpr ⟨c, hc, rfl, ha⟩) hr

/-- what a writable socket hands to the transport is exactly the write buffer (the `wrote` outputs of the model
    are emitted from `wbuf`, see `flushWritable`): the statement above therefore covers every transmitted answer -/
example (s : St) (cid : Nat) (l : List AMsg) :
    (l.foldl (fun s m => s.emit (.wrote cid m)) s).conns = s.conns := by
  induction l generalizing s with
  | nil => rfl
  | cons a l ih => simp only [List.foldl_cons]; rw [ih]; rfl

/-- (the premise is met by a node that has not been started) -/
example : QuietOut { st := { (default : St) with peerWaiting := [], conns := [] }, inbox := [] } :=
  ⟨⟨rfl, by simp, rfl⟩, by simp⟩

theorem C07_out_config : Config.answerOnlyRequests = true := rfl

end DV.Node
