/-
  C18 — the shutdown window as a whole: once `stop()` has raised the flag,
  nothing in the node lowers it again, so *every* state of *every* later
  history (any traffic, faults, timer passes, application calls, further
  `stop()` calls) is one in which the timer check and the reconnect pass do
  nothing and a newcomer is refused.
-/
import DV.Proofs.NodeStopping
import DV.Properties.C18
import DV.Model.NodeOps
namespace DV.Node

theorem stopping_stopBegin (s : St) (f : Bool) : (stopBegin s f).stopping = true := by
  unfold stopBegin
  dsimp only
  split
  · rfl
  · rw [stopping_foldl]
    intro s a
    repeat (first | rfl | split | simp only [stopping_sendDpr])

/-- No operation other than `stop()` itself touches the flag … -/
theorem stopping_applyOp (infoOf : AMsg → MsgInfo) (hv : ∀ m, (infoOf m).validateRaises = false)
    (hk : Config.appConsumersCatch = true) (w : World) (o : Op) :
    (applyOp infoOf w o).st.stopping = (w.st.stopping || match o with | .stopBegin _ => true | _ => false) := by
  cases o with
  | start plan =>
    simp only [applyOp, Bool.or_false]
    rw [stopping_foldl]
    intro s a
    repeat (first | rfl | split | simp only [stopping_connectToPeer])
  | accept => rw [Bool.or_false]; exact stopping_ioIteration _
  | rx cid e => simp only [applyOp, pushRx, Bool.or_false]; repeat (first | rfl | split)
  | wr cid evs => simp only [applyOp, Bool.or_false]; repeat (first | rfl | split | dsimp only)
  | block cid b => simp only [applyOp, Bool.or_false]; split <;> rfl
  | io => rw [Bool.or_false]; exact stopping_ioIteration _
  | pump => rw [Bool.or_false]; exact stopping_pumpAll infoOf hv hk _
  | settle n => rw [Bool.or_false]; exact stopping_settle infoOf hv hk n w
  | handler k => rw [Bool.or_false]; exact stopping_runHandler infoOf _ k
  | ans ai req rc => rw [Bool.or_false]; exact stopping_appSendAnswer _ _ _ _ _
  | reqBegin ai m => rw [Bool.or_false]; exact stopping_appSendRequestBegin _ _ _ _
  | reqEnd ai hbh t => simp only [applyOp, Bool.or_false]; split <;> rfl
  | stopBegin f => simp [applyOp, stopping_stopBegin]
  | stopFinal => rw [Bool.or_false]; exact stopping_stopFinal _
  | _ => simp [applyOp]

/-- **The flag is never lowered.** Whatever happens after `stop()` has begun —
    any sequence of operations — the node is still stopping. -/
theorem C18_stopping_persists (infoOf : AMsg → MsgInfo) (hv : ∀ m, (infoOf m).validateRaises = false)
    (hk : Config.appConsumersCatch = true) (w : World) (ops : List Op) (h : w.st.stopping = true) :
    (run infoOf w ops).st.stopping = true := by
  unfold run
  induction ops generalizing w with
  | nil => exact h
  | cons o ops ih =>
    rw [List.foldl_cons]
    apply ih
    rw [stopping_applyOp infoOf hv hk, h]
    rfl

/-- **Quiet for the whole window.** For every history that contains a `stop()`
    (forced or not) and for every continuation of it, in the state reached: the
    timer check of any connection changes nothing (no watchdog, no timeout
    handling), the reconnect pass changes nothing (no dialling), and a
    connection that arrives is refused and enters no table. -/
theorem C18_window_quiet (infoOf : AMsg → MsgInfo) (hv : ∀ m, (infoOf m).validateRaises = false)
    (hk : Config.appConsumersCatch = true) (w : World) (before after : List Op) (force : Bool) :
    let s := (run infoOf w (before ++ [Op.stopBegin force] ++ after)).st
    (∀ cid, checkTimers s cid = s) ∧ reconnectPeers s = s ∧
    (∀ c, (addPeerConnection s c).2 = false ∧ (addPeerConnection s c).1.connections = s.connections) := by
  intro s
  have hs : s.stopping = true := by
    show (run infoOf w (before ++ [Op.stopBegin force] ++ after)).st.stopping = true
    unfold run
    rw [List.foldl_append, List.foldl_append]
    apply C18_stopping_persists infoOf hv hk
    simp only [List.foldl_cons, List.foldl_nil]
    rw [stopping_applyOp infoOf hv hk]
    simp
  refine ⟨fun cid => (C18_quiet_while_stopping s cid hs).1, (C18_quiet_while_stopping s 0 hs).2, fun c => ?_⟩
  have := C18_refuse_newcomers s c hs
  exact ⟨this.1, this.2.1⟩

/-- (the premises are met: a fresh node that is told to stop is stopping) -/
example : (stopBegin (default : St) true).stopping = true := stopping_stopBegin _ _

end DV.Node
