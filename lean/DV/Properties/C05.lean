/-
  C05 — Stream framing is chunking-invariant, ordered, exactly-once, always
  progresses.  Theorems are about `frameLoop`/`feed` with both repairs in place
  (`Config.frameSkipZeroGuard`, `Config.frameFallThrough`), for every decoder
  outcome function `dec` and every byte string.
-/
import DV.Model.Framing
import DV.Proofs.Framing
namespace DV

/-- No input can make the reader spin: with `fuel > |buf|` the loop never runs
    out of fuel — every iteration either ends the loop (wait / close) or
    strictly shortens the buffer. -/
theorem C05_progress (dec : Bytes → Bool) :
    ∀ (fuel : Nat) (buf : Bytes), buf.length < fuel →
      FEv.spin ∉ (frameLoop dec true true fuel buf).1 := by
  intro fuel
  induction fuel with
  | zero => intro buf h; omega
  | succ f ih =>
    intro buf h
    unfold frameLoop
    by_cases he : buf.isEmpty = true
    · simp [he]
    · simp only [he, Bool.false_eq_true, if_false]
      by_cases h20 : buf.length < 20
      · simp [h20]
      · simp only [h20, if_false]
        by_cases hl : buf.length < hdrLen buf
        · simp [hl]
        · simp only [hl, if_false]
          have hne : buf.length ≠ 0 := by
            intro h0; exact he (by simpa [List.isEmpty_iff] using List.eq_nil_of_length_eq_zero h0)
          by_cases hok : (decide (hdrLen buf ≥ 20) && dec (buf.take (hdrLen buf))) = true
          · simp only [hok, if_true]
            have hl20 : hdrLen buf ≥ 20 := by
              simp only [Bool.and_eq_true, decide_eq_true_eq] at hok; exact hok.1
            have hshort : (buf.drop (hdrLen buf)).length < f := by
              simp only [List.length_drop]; omega
            split
            · simp
            · have := ih _ hshort
              simp only [List.mem_cons, reduceCtorEq, false_or]
              exact this
          · simp only [hok, Bool.false_eq_true, if_false, Bool.true_and]
            by_cases hz : (hdrLen buf == 0) = true
            · simp [hz]
            · simp only [hz, Bool.false_eq_true, if_false]
              have hpos : hdrLen buf ≠ 0 := by simpa using hz
              have hshort : (buf.drop (hdrLen buf)).length < f := by
                simp only [List.length_drop]; omega
              split
              · simp
              · have := ih _ hshort
                simp only [List.mem_cons, reduceCtorEq, false_or]
                exact this

/-- The reader never stops servicing a connection silently: when the loop
    returns without closing, the buffer is empty, shorter than a header, or
    shorter than the frame its header announces (i.e. it is waiting for bytes). -/
theorem C05_no_silent_stall (dec : Bytes → Bool) :
    ∀ (fuel : Nat) (buf : Bytes), buf.length < fuel →
      let r := frameLoop dec true true fuel buf
      FEv.close ∈ r.1 ∨ r.2 = [] ∨ r.2.length < 20 ∨ r.2.length < hdrLen r.2 := by
  intro fuel
  induction fuel with
  | zero => intro buf h; omega
  | succ f ih =>
    intro buf h
    unfold frameLoop
    by_cases he : buf.isEmpty = true
    · have : buf = [] := by simpa [List.isEmpty_iff] using he
      simp [this]
    · simp only [he, Bool.false_eq_true, if_false]
      have hne : buf.length ≠ 0 := by
        intro h0; exact he (by simpa [List.isEmpty_iff] using List.eq_nil_of_length_eq_zero h0)
      by_cases h20 : buf.length < 20
      · simp [h20]
      · simp only [h20, if_false]
        by_cases hl : buf.length < hdrLen buf
        · simp [hl]
        · simp only [hl, if_false]
          by_cases hok : (decide (hdrLen buf ≥ 20) && dec (buf.take (hdrLen buf))) = true
          · simp only [hok, if_true]
            have hl20 : hdrLen buf ≥ 20 := by
              simp only [Bool.and_eq_true, decide_eq_true_eq] at hok; exact hok.1
            have hshort : (buf.drop (hdrLen buf)).length < f := by
              simp only [List.length_drop]; omega
            split
            · rename_i hc
              simp only [Bool.and_eq_true, decide_eq_true_eq] at hc
              right; right; left; exact hc.2
            · have := ih _ hshort
              simp only at this ⊢
              rcases this with h1 | h1 | h1 | h1
              · left; simp [h1]
              · right; left; exact h1
              · right; right; left; exact h1
              · right; right; right; exact h1
          · simp only [hok, Bool.false_eq_true, if_false, Bool.true_and]
            by_cases hz : (hdrLen buf == 0) = true
            · simp [hz]
            · simp only [hz, Bool.false_eq_true, if_false]
              have hpos : hdrLen buf ≠ 0 := by simpa using hz
              have hshort : (buf.drop (hdrLen buf)).length < f := by
                simp only [List.length_drop]; omega
              split
              · rename_i hc
                simp only [Bool.and_eq_true, decide_eq_true_eq] at hc
                right; right; left; exact hc.2
              · have := ih _ hshort
                simp only at this ⊢
                rcases this with h1 | h1 | h1 | h1
                · left; simp [h1]
                · right; left; exact h1
                · right; right; left; exact h1
                · right; right; right; exact h1

/-- The switches the two theorems assume are those of the current tree. -/
theorem C05_config : Config.frameSkipZeroGuard = true ∧ Config.frameFallThrough = true := ⟨rfl, rfl⟩

/-- The pinned tree's loop (no zero guard) does spin: a 20-octet header with a
    zero length field exhausts any fuel (kept as a regression witness; the same
    bytes are in the corpus of the correspondence). -/
theorem C05_pinned_spins :
    FEv.spin ∈ (frameLoop (fun _ => false) false false 50
      ([1, 0, 0, 0, 0x80, 0, 1, 0x18] ++ List.replicate 12 0)).1 := by decide

end DV

namespace DV

/-- **Chunking invariance, order, exactly-once.** For every stream made of
    well-formed frames (each at least a header long, header length = frame
    length) and *every* way of cutting that stream into network reads, the
    reader produces exactly one event per frame, in stream order — `deliver` for
    a frame that decodes, `skip` for one that does not, which therefore has no
    effect on the frames behind it — never closes, and ends with an empty
    buffer. No bound on the number of frames, their sizes or the cuts. -/
theorem C05_chunking (dec : Bytes → Bool) (fs : List Bytes) (cs : List Bytes)
    (hwf : ∀ f ∈ fs, FrameWF f) (hcs : cs.flatten = fs.flatten) :
    feedAll dec true true { buf := [], closed := false } cs
      = ({ buf := [], closed := false }, fs.map (expectEv dec)) := by
  apply feedAll_frames dec cs fs [] hwf (by simpa using hcs)
  cases fs with
  | nil => left; exact ⟨rfl, rfl⟩
  | cons f r => right; exact ⟨f, r, rfl, by have := (hwf f (by simp)).1; simp; omega⟩

/-- Non-vacuity: a 20-octet DWR header is a well-formed frame. -/
example : FrameWF ([1, 0, 0, 20, 0x80, 0, 1, 0x18] ++ List.replicate 12 0) := by
  constructor <;> decide

end DV
