/-
  C01 obligations about the tables regenerated from /repo's working tree.
-/
import DV.Properties.C01
import DV.Model.TableWF
import DV.Generated.Dict
import DV.Generated.Constants
namespace DV

/-- The regenerated dictionary is a finite map on `(vendor, code)` whose
    entries carry one of the 11 typed AVP classes: decoding instantiates
    exactly the dictionary's type for each key. -/
theorem C01_dict_functional : dictWF Gen.dict = true := by decide +kernel

theorem C01_dict_complete : Gen.dict.size = Gen.dictSize := by decide +kernel

/-- The Time codec's constants in the source are the RFC ones, so
    `C01_time_layout_roundtrip` speaks about the code that exists. -/
theorem C01_time_constants :
    (⟨Gen.time_since1900, Gen.time_overflowTs, Gen.time_cutoff⟩ : TimeConsts) = rfcTime := by decide

theorem C01_flag_constants :
    Gen.avpFlagV = flagV ∧ Gen.avpFlagM = flagM ∧ Gen.avpFlagP = flagP := by decide

end DV
