/-
  C14 — No fault or handler outcome stops service; workers survive, peers are
  served.

  The model counts in `St.crashed` every place where an exception can escape a
  worker thread (reader, application queue consumers) and keeps the threading
  application's capacity bookkeeping in `St.tapps` / `St.deferred`.  The
  theorems are about `run infoOf w ops`: every world the scenario driver can
  reach from `w` by any sequence of operations (`Model/NodeOps.lean` — faults,
  handler outcomes, schedules of the consumers and handler threads included).
-/
import DV.Proofs.AppReach
import DV.Model.NodeOps
import DV.Model.NodeInfo
namespace DV.Node
open DV

/-! ### hypotheses discharged elsewhere -/

theorem mem_ite_nil {α : Type} (b : Bool) (l : List α) (d : α) (h : d ∈ (if b = true then l else [])) : d ∈ l := by
  cases b <;> simp at h ⊢; exact h

/-- `validate_message_avps` never raises for a message of any class of the
    regenerated tables: the hypothesis `hv` below follows from the kernel-checked
    table obligation `C08_required_defs_resolvable`. -/
theorem C14_validate_total (env : Env) (ids : AttrIds) (m : AMsg)
    (h : requiredDefsResolvable env.dict env.classes = true) : (msgInfo env ids m).validateRaises = false := by
  unfold msgInfo
  simp only []
  cases hc : findClass env.classes (chooseClass env { version := 1, length := 0, flags := m.flags, code := m.cmd, appId := m.app, hbh := m.hbh, e2e := m.e2e } false) with
  | none => simp
  | some c =>
    have hmem : c ∈ env.classes := by
      unfold findClass at hc
      exact List.mem_of_getElem? hc
    simp only [requiredDefsResolvable, List.all_eq_true] at h
    have hcd := h c hmem
    simp only [List.any_eq_false, List.mem_filter]
    intro d hd
    have hd1 : d ∈ c.defs := mem_ite_nil _ _ _ hd.1
    have := hcd d hd1
    have hr : d.required = true := by
      have := hd.2
      simp only [Bool.and_eq_true] at this
      exact this.1.1.1
    simp only [hr, Bool.not_true, Bool.false_or] at this
    cases hl : lookupDict env.dict d.code d.vendor with
    | none => rw [hl] at this; simp at this
    | some e => simp

/-- Every answer the node builds itself is accepted by `send_message`
    (`_record_answer` cannot raise on it). -/
theorem C14_own_answers_accepted (s s0 : St) (cid : Nat) (m : AMsg) (info : MsgInfo) (rc : Nat) (fa : List Nat) :
    (sendMessage s cid (generateAnswer s0 m info (some rc) fa) info.ansTyped).2 = true :=
  sendMessage_generated_ok s s0 cid m info rc fa

/-! ### no worker thread terminates abnormally -/

theorem crashed_applyOp (infoOf : AMsg → MsgInfo) (hv : ∀ m, (infoOf m).validateRaises = false)
    (hk : Config.appConsumersCatch = true) (w : World) (o : Op) : (applyOp infoOf w o).st.crashed = w.st.crashed := by
  cases o with
  | start plan =>
    simp only [applyOp]
    rw [crashed_foldl]
    intro s a
    repeat (first | rfl | split | simp only [crashed_connectToPeer])
  | accept => exact crashed_ioIteration _
  | rx cid e => simp only [applyOp, pushRx]; repeat (first | rfl | split)
  | wr cid evs => simp only [applyOp]; repeat (first | rfl | split | dsimp only)
  | block cid b => simp only [applyOp]; split <;> rfl
  | io => exact crashed_ioIteration _
  | pump => exact crashed_pumpAll infoOf hv hk _
  | settle n => exact crashed_settle infoOf hv hk n w
  | handler k => exact crashed_runHandler infoOf _ k
  | ans ai req rc => exact crashed_appSendAnswer _ _ _ _ _
  | reqBegin ai m => exact crashed_appSendRequestBegin _ _ _ _
  | reqEnd ai hbh t => simp only [applyOp]; split <;> rfl
  | stopBegin f => exact crashed_stopBegin _ _
  | stopFinal => exact crashed_stopFinal _
  | _ => rfl

/-- **No worker dies.** Whatever sequence of operations — connection losses at
    any point, read and write errors, connect failures, handlers that answer,
    raise, return nothing or answer after their peer is gone, any scheduling of
    the consumers — the number of abnormally terminated worker threads stays
    what it was (zero from a fresh node). -/
theorem C14_no_worker_dies (infoOf : AMsg → MsgInfo) (hv : ∀ m, (infoOf m).validateRaises = false)
    (hk : Config.appConsumersCatch = true) (w : World) (ops : List Op) :
    (run infoOf w ops).st.crashed = w.st.crashed := by
  unfold run
  induction ops generalizing w with
  | nil => rfl
  | cons o ops ih => rw [List.foldl_cons, ih, crashed_applyOp infoOf hv hk]

/-! ### no processing capacity is consumed for good -/

theorem EnqStable_slot : EnqStable (fun tapps d => ∀ (ai : Nat) (t : TApp), tapps[ai]? = some t →
    t.slots = running d ai + t.respQ.length + t.respNone) := by
  intro s ai m h
  exact SlotInv_modTApp s ai _ (fun t _ ht => ht) h

theorem EnqStable_alive : EnqStable (fun tapps _ => ∀ (ai : Nat) (t : TApp), tapps[ai]? = some t →
    t.recvAlive = true ∧ t.respAlive = true) := by
  intro s ai m h
  exact AliveInv_modTApp s ai _ (fun t => ⟨rfl, rfl⟩) h

theorem SlotInv_applyOp (infoOf : AMsg → MsgInfo) (hk : Config.appConsumersCatch = true) (hs : Config.slotAlwaysReturned = true)
    (w : World) (o : Op) (h : SlotInv w.st) : SlotInv (applyOp infoOf w o).st := by
  have hR : ∀ s ai, SlotInv s → SlotInv (pumpAppRecv infoOf s ai) := fun s ai => SlotInv_pumpAppRecv infoOf hk s ai
  have hS : ∀ s ai, SlotInv s → SlotInv (pumpAppResp s ai) := fun s ai => SlotInv_pumpAppResp hk s ai
  cases o with
  | start plan =>
    refine SlotInv_of_eq ?_ ?_ h
    · simp only [applyOp]
      rw [tapps_foldl]
      intro s a
      repeat (first | rfl | split | simp only [tapps_connectToPeer])
    · simp only [applyOp]
      rw [deferred_foldl]
      intro s a
      repeat (first | rfl | split | simp only [deferred_connectToPeer])
  | accept => exact SlotInv_of_eq (tapps_ioIteration _) (deferred_ioIteration _) h
  | rx cid e => simp only [applyOp, pushRx]; repeat (first | exact h | split)
  | wr cid evs => simp only [applyOp]; repeat (first | exact h | split | dsimp only)
  | block cid b => simp only [applyOp]; split <;> exact h
  | io => exact SlotInv_of_eq (tapps_ioIteration _) (deferred_ioIteration _) h
  | pump => exact sat_pumpAll EnqStable_slot infoOf hR hS _ h
  | settle n => exact sat_settle EnqStable_slot infoOf hR hS n w h
  | hold ai v => exact SlotInv_modTApp _ ai _ (fun t _ ht => ht) h
  | outcome ai o => exact SlotInv_modTApp _ ai _ (fun t _ ht => ht) (SlotInv_of_eq rfl rfl h)
  | handler k => exact SlotInv_runHandler infoOf hs _ k h
  | ans ai req rc => exact SlotInv_of_eq (tapps_appSendAnswer _ _ _ _ _) (deferred_appSendAnswer _ _ _ _ _) h
  | reqBegin ai m => exact SlotInv_of_eq (tapps_appSendRequestBegin _ _ _ _) (deferred_appSendRequestBegin _ _ _ _) h
  | reqEnd ai hbh t => simp only [applyOp]; split <;> exact SlotInv_of_eq rfl rfl h
  | stopBegin f => exact SlotInv_of_eq (tapps_stopBegin _ _) (deferred_stopBegin _ _) h
  | stopFinal => exact SlotInv_of_eq (tapps_stopFinal _) (deferred_stopFinal _) h
  | _ => exact SlotInv_of_eq rfl rfl h

/-- **Every slot in use is accounted for**, in every reachable world: it belongs
    to a handler thread that is still running or to a result waiting in the
    response queue. -/
theorem C14_slots_accounted (infoOf : AMsg → MsgInfo) (hk : Config.appConsumersCatch = true)
    (hs : Config.slotAlwaysReturned = true) (w : World) (ops : List Op) (h : SlotInv w.st) :
    SlotInv (run infoOf w ops).st := by
  unfold run
  induction ops generalizing w with
  | nil => exact h
  | cons o ops ih => rw [List.foldl_cons]; exact ih _ (SlotInv_applyOp infoOf hk hs w o h)

theorem AliveInv_applyOp (infoOf : AMsg → MsgInfo) (hk : Config.appConsumersCatch = true)
    (w : World) (o : Op) (h : AliveInv w.st) : AliveInv (applyOp infoOf w o).st := by
  have hR : ∀ s ai, AliveInv s → AliveInv (pumpAppRecv infoOf s ai) := fun s ai => AliveInv_pumpAppRecv infoOf hk s ai
  have hS : ∀ s ai, AliveInv s → AliveInv (pumpAppResp s ai) := fun s ai => AliveInv_pumpAppResp hk s ai
  cases o with
  | start plan =>
    refine AliveInv_of_eq ?_ h
    simp only [applyOp]
    rw [tapps_foldl]
    intro s a
    repeat (first | rfl | split | simp only [tapps_connectToPeer])
  | accept => exact AliveInv_of_eq (tapps_ioIteration _) h
  | rx cid e => simp only [applyOp, pushRx]; repeat (first | exact h | split)
  | wr cid evs => simp only [applyOp]; repeat (first | exact h | split | dsimp only)
  | block cid b => simp only [applyOp]; split <;> exact h
  | io => exact AliveInv_of_eq (tapps_ioIteration _) h
  | pump => exact sat_pumpAll EnqStable_alive infoOf hR hS _ h
  | settle n => exact sat_settle EnqStable_alive infoOf hR hS n w h
  | hold ai v => exact AliveInv_modTApp _ ai _ (fun t => ⟨rfl, rfl⟩) h
  | outcome ai o => exact AliveInv_modTApp _ ai _ (fun t => ⟨rfl, rfl⟩) (AliveInv_of_eq rfl h)
  | handler k => exact AliveInv_runHandler infoOf _ k h
  | ans ai req rc => exact AliveInv_of_eq (tapps_appSendAnswer _ _ _ _ _) h
  | reqBegin ai m => exact AliveInv_of_eq (tapps_appSendRequestBegin _ _ _ _) h
  | reqEnd ai hbh t => simp only [applyOp]; split <;> exact AliveInv_of_eq rfl h
  | stopBegin f => exact AliveInv_of_eq (tapps_stopBegin _ _) h
  | stopFinal => exact AliveInv_of_eq (tapps_stopFinal _) h
  | _ => exact AliveInv_of_eq rfl h

/-- **The application's queue consumers stay alive** in every reachable world. -/
theorem C14_consumers_alive (infoOf : AMsg → MsgInfo) (hk : Config.appConsumersCatch = true)
    (w : World) (ops : List Op) (h : AliveInv w.st) : AliveInv (run infoOf w ops).st := by
  unfold run
  induction ops generalizing w with
  | nil => exact h
  | cons o ops ih => rw [List.foldl_cons]; exact ih _ (AliveInv_applyOp infoOf hk w o h)

/-- **Capacity comes back.** In any world satisfying the accounting invariant,
    once the response consumer of a live, scheduled threading application has
    run, the slots in use are exactly the handler threads still running — so
    with no handler running every slot is free again. -/
theorem C14_capacity_returns (hk : Config.appConsumersCatch = true) (s : St) (ai : Nat) (a : App) (t : TApp)
    (ha : s.apps[ai]? = some a) (ht : s.tapps[ai]? = some t) (hthr : a.kind = .threading)
    (halive : t.respAlive = true) (hsched : t.held = false) (h : SlotInv s) :
    ∀ t', (pumpAppResp s ai).tapps[ai]? = some t' → t'.respAlive = true →
      t'.respQ = [] ∧ t'.respNone = 0 ∧ t'.slots = running (pumpAppResp s ai).deferred ai := by
  intro t' ht' hal'
  have hinv := SlotInv_pumpAppResp hk s ai h
  have hfold := fold_appRespStep hk ai t.respQ s (fun t1 ht1 _ => by rw [ht] at ht1; injection ht1 with e; rw [e]) h
  unfold pumpAppResp at ht' hinv ⊢
  simp only [ha, ht, hthr, halive, hsched, bne_self_eq_false, Bool.not_true, Bool.or_self, Bool.false_eq_true, if_false] at ht' hinv ⊢
  -- the `None` results
  unfold appRespNones at ht' hinv ⊢
  cases h1 : (List.foldl (appRespStep ai) s t.respQ).tapps[ai]? with
  | none => simp only [h1] at ht'; contradiction
  | some t1 =>
    simp only [h1] at ht' hinv ⊢
    by_cases hal1 : t1.respAlive = true
    · simp only [hal1, if_true] at ht' hinv ⊢
      have hq := hfold.2.2 t1 h1 hal1
      rw [modTApp_get] at ht'
      simp only [BEq.rfl, if_true, h1, Option.map_some, Option.some.injEq] at ht'
      have hslots := hinv ai t' (by rw [modTApp_get]; simp only [BEq.rfl, if_true, h1, Option.map_some]; rw [ht'])
      subst ht'
      refine ⟨hq, rfl, ?_⟩
      simp only [hq, List.length_nil, Nat.add_zero] at hslots
      exact hslots
    · have : t1.respAlive = false := by simpa using hal1
      simp only [this, Bool.false_eq_true, if_false] at ht'
      rw [h1] at ht'
      injection ht' with e
      subst e
      rw [this] at hal'
      contradiction

/-! ### the premises are satisfiable, and hold on the current tree -/

/-- a fresh node with a threading application: no slot in use, consumers alive -/
example : SlotInv ({ (default : St) with tapps := [{}] }) ∧ AliveInv ({ (default : St) with tapps := [{}] }) := by
  constructor
  · intro ai t ht
    cases ai with
    | zero => simp at ht; subst ht; rfl
    | succ n => simp at ht
  · intro ai t ht
    cases ai with
    | zero => simp at ht; subst ht; exact ⟨rfl, rfl⟩
    | succ n => simp at ht

/-- a world with a slot in use and its handler thread running -/
example : SlotInv ({ (default : St) with tapps := [{ slots := 1 }], deferred := [(0, default)] }) := by
  intro ai t ht
  cases ai with
  | zero => simp at ht; subst ht; simp [running]
  | succ n => simp at ht

/-- The repairs this property needed are in the tree the model follows. -/
theorem C14_config : Config.appConsumersCatch = true ∧ Config.slotAlwaysReturned = true ∧
    Config.answerOnlyRequests = true := ⟨rfl, rfl, rfl⟩

end DV.Node
