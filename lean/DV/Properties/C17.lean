/-
  C17 — Retransmitted (T-flag) duplicates of answered requests are rejected, no
  others.  `sentAnswers` maps an origin to (window size, the end-to-end ids of the
  most recent answers to it).
-/
import DV.Proofs.NodeQ
namespace DV.Node

/-- A T-flagged request whose origin and end-to-end id are in the window of
    answered requests is answered 5012 by the node itself; no handler and no
    application runs (the state is exactly the bookkeeping of that answer). -/
theorem C17_reject (s : St) (cid : Nat) (m : AMsg) (info : MsgInfo)
    (hr : m.isRequest = true) (hv : info.validateRaises = false) (hm : info.missing = [])
    (hoh : info.hasOH = true) (ht : m.isRetransmit = true)
    (hw : answeredInWindow (recordOrigin s cid m info) m = true) :
    receiveMessage s cid m info =
      (let s1 := recordOrigin s cid m info
       let r := sendMessage s1 cid (generateAnswer s1 m info (some 5012)) info.ansTyped
       if r.2 then r.1 else crashReader r.1 cid "TypeError") := by
  unfold receiveMessage
  simp only [hr, hv, hm, hoh, ht, Bool.and_false, Bool.false_eq_true, if_false, List.isEmpty_nil, Bool.not_true,
    Bool.and_self, Bool.true_and, hw, if_true]

/-- Requests without the T flag, or whose identifiers are not in the window,
    are never rejected as duplicates: they reach the command switch. -/
theorem C17_no_false_reject (s : St) (cid : Nat) (m : AMsg) (info : MsgInfo)
    (hr : m.isRequest = true) (hv : info.validateRaises = false) (hm : info.missing = [])
    (hnd : m.isRetransmit = false ∨ info.hasOH = false ∨ answeredInWindow (recordOrigin s cid m info) m = false) :
    receiveMessage s cid m info =
      (match handleByCommand (recordOrigin s cid m info) cid m info with
       | (s', none) => s'
       | (s1, some _) =>
         let r := sendMessage s1 cid (generateAnswer s1 m info (some 5012)) info.ansTyped
         if r.2 then r.1 else crashReader r.1 cid "TypeError") := by
  have hd : (info.hasOH && m.isRequest && m.isRetransmit && answeredInWindow (recordOrigin s cid m info) m) = false := by
    rcases hnd with h | h | h <;> simp [h]
  unfold receiveMessage
  simp only [hr, hv, hm, Bool.and_false, Bool.false_eq_true, if_false, List.isEmpty_nil, Bool.not_true]
  simp only [hr] at hd
  simp only [hd, Bool.false_eq_true, if_false, Bool.not_true, Bool.and_false]
  split <;> simp_all

/-- The window keeps exactly the configured number of most recent answers: the
    bounded-deque append drops the oldest entries beyond the bound. -/
theorem C17_window_bound (mx : Nat) (dq : List Nat) (x : Nat) :
    let dq' := dq ++ [x]
    (if dq'.length > mx then dq'.drop (dq'.length - mx) else dq').length ≤ max mx 0 ∨
    (if dq'.length > mx then dq'.drop (dq'.length - mx) else dq') = dq' := by
  simp only
  split
  · left; simp only [List.length_drop, List.length_append, List.length_cons, List.length_nil]; omega
  · right; rfl

/-! ### what the window holds

  `C17_window_bound` bounds the window; the following say what is in it: for every
  sequence of answered end-to-end ids of an origin, the window is exactly the last
  `mx` of them (`C17_window_is_last_answers`), and `_record_answer` is that
  append (`C17_record_known` / `C17_record_new`).  Together with `C17_reject` /
  `C17_no_false_reject`: a T-flagged repeat is rejected iff its id is among the
  configured number of most recent answers to its origin. -/


/-- the bounded-deque append of `_record_answer` (`deque(maxlen=mx).append`) -/
def pushWin (mx : Nat) (dq : List Nat) (x : Nat) : List Nat :=
  if (dq ++ [x]).length > mx then (dq ++ [x]).drop ((dq ++ [x]).length - mx) else dq ++ [x]

/-- the last `mx` elements -/
def lastN (mx : Nat) (l : List Nat) : List Nat := l.drop (l.length - mx)

theorem C17_window_step (mx : Nat) (ys : List Nat) (x : Nat) : pushWin mx (lastN mx ys) x = lastN mx (ys ++ [x]) := by
  unfold pushWin lastN
  by_cases h : ys.length < mx
  · have h0 : ys.length - mx = 0 := by omega
    have h1 : (ys ++ [x]).length - mx = 0 := by simp; omega
    simp only [h0, List.drop_zero, h1]
    have : ¬ (ys ++ [x]).length > mx := by simp; omega
    simp
  · have hge : mx ≤ ys.length := by omega
    have hl : (List.drop (ys.length - mx) ys).length = mx := by simp; omega
    have hgt : (List.drop (ys.length - mx) ys ++ [x]).length > mx := by simp [hl]
    simp only [hgt, if_true]
    have e1 : (List.drop (ys.length - mx) ys ++ [x]).length - mx = 1 := by simp [hl]
    rw [e1]
    have e2 : (ys ++ [x]).length - mx = (ys.length - mx) + 1 := by simp; omega
    rw [e2]
    rw [← List.drop_drop]
    congr 1
    rw [List.drop_append_of_le_length (by omega)]

theorem C17_window_is_last_answers (mx : Nat) (ys xs : List Nat) :
    xs.foldl (pushWin mx) (lastN mx ys) = lastN mx (ys ++ xs) := by
  induction xs generalizing ys with
  | nil => simp
  | cons x xs ih =>
    rw [List.foldl_cons, C17_window_step, ih]
    simp


theorem find_map_key {α β : Type} [BEq α] (l : List (α × β)) (k : α) (f : α × β → α × β)
    (hf : ∀ p, (f p).1 = p.1) :
    (l.map f).find? (·.1 == k) = (l.find? (·.1 == k)).map f := by
  induction l with
  | nil => rfl
  | cons x xs ih =>
    simp only [List.map_cons, List.find?_cons, hf x]
    cases h : x.1 == k
    · simpa using ih
    · rfl

/-- Recording an answer for an origin that already has a window appends the
    answer's end-to-end id to that origin's bounded window. -/
theorem C17_record_known (s : St) (cid : Nat) (m : AMsg) (k : Nat × Nat × Nat) (origin : Option String) (mx : Nat) (dq : List Nat)
    (ho : s.originWaiting.find? (·.1 == originKey cid m) = some (k, origin))
    (hw : s.sentAnswers.find? (·.1 == origin) = some (origin, (mx, dq))) :
    (recordAnswerState s cid m).sentAnswers.find? (·.1 == origin) = some (origin, (mx, pushWin mx dq m.e2e)) := by
  unfold recordAnswerState
  simp only [ho]
  have hany : s.sentAnswers.any (·.1 == origin) = true := by
    rw [List.any_eq_true]
    exact ⟨(origin, (mx, dq)), List.mem_of_find?_eq_some hw, by simp⟩
  simp only [hany, if_true]
  rw [find_map_key _ origin _ (by intro p; split <;> rfl), hw]
  simp [pushWin]

/-- …and for an origin without a window it starts one (of the configured size). -/
theorem C17_record_new (s : St) (cid : Nat) (m : AMsg) (k : Nat × Nat × Nat) (origin : Option String)
    (ho : s.originWaiting.find? (·.1 == originKey cid m) = some (k, origin))
    (hw : s.sentAnswers.any (·.1 == origin) = false) :
    (recordAnswerState s cid m).sentAnswers.find? (·.1 == origin) = some (origin, (s.cfg.rq, pushWin s.cfg.rq [] m.e2e)) := by
  unfold recordAnswerState
  simp only [ho, hw, Bool.false_eq_true, if_false]
  rw [List.find?_append]
  have hnone : s.sentAnswers.find? (·.1 == origin) = none := by
    rw [List.find?_eq_none]
    intro x hx
    have := List.any_eq_false.mp hw x hx
    simpa using this
  simp only [hnone, Option.none_or, List.find?_cons, beq_self_eq_true]
  unfold pushWin
  by_cases h : s.cfg.rq = 0
  · simp [h]
  · have : ¬ (1 > s.cfg.rq) := by omega
    simp [this]

/-- from a fresh origin: after answering the ids `xs` (in that order) the window holds exactly the last `mx` of them -/
theorem C17_window_from_empty (mx : Nat) (xs : List Nat) : xs.foldl (pushWin mx) [] = lastN mx xs := by
  have := C17_window_is_last_answers mx [] xs
  simpa [lastN] using this

example : [1, 2, 3, 4, 5].foldl (pushWin 2) [] = [4, 5] := by decide

theorem C17_config : Config.originKeyPerConn = true := rfl

end DV.Node
