/-
  C17 — Retransmitted (T-flag) duplicates of answered requests are rejected, no
  others.  `sentAnswers` maps an origin to (window size, the end-to-end ids of the
  most recent answers to it).
-/
import DV.Proofs.NodeQ
namespace DV.Node

/-- A T-flagged request whose origin and end-to-end id are in the window of
    answered requests is answered 5012 by the node itself; no handler and no
    application runs (the state is exactly the bookkeeping of that answer). -/
theorem C17_reject (s : St) (cid : Nat) (m : AMsg) (info : MsgInfo)
    (hr : m.isRequest = true) (hv : info.validateRaises = false) (hm : info.missing = [])
    (hoh : info.hasOH = true) (ht : m.isRetransmit = true)
    (hw : answeredInWindow (recordOrigin s cid m info) m = true) :
    receiveMessage s cid m info =
      (let s1 := recordOrigin s cid m info
       let r := sendMessage s1 cid (generateAnswer s1 m info (some 5012)) info.ansTyped
       if r.2 then r.1 else crashReader r.1 cid "TypeError") := by
  unfold receiveMessage
  simp only [hr, hv, hm, hoh, ht, Bool.and_false, Bool.false_eq_true, if_false, List.isEmpty_nil, Bool.not_true,
    Bool.and_self, Bool.true_and, hw, if_true]

/-- Requests without the T flag, or whose identifiers are not in the window,
    are never rejected as duplicates: they reach the command switch. -/
theorem C17_no_false_reject (s : St) (cid : Nat) (m : AMsg) (info : MsgInfo)
    (hr : m.isRequest = true) (hv : info.validateRaises = false) (hm : info.missing = [])
    (hnd : m.isRetransmit = false ∨ info.hasOH = false ∨ answeredInWindow (recordOrigin s cid m info) m = false) :
    receiveMessage s cid m info =
      (match handleByCommand (recordOrigin s cid m info) cid m info with
       | (s', none) => s'
       | (s1, some _) =>
         let r := sendMessage s1 cid (generateAnswer s1 m info (some 5012)) info.ansTyped
         if r.2 then r.1 else crashReader r.1 cid "TypeError") := by
  have hd : (info.hasOH && m.isRequest && m.isRetransmit && answeredInWindow (recordOrigin s cid m info) m) = false := by
    rcases hnd with h | h | h <;> simp [h]
  unfold receiveMessage
  simp only [hr, hv, hm, Bool.and_false, Bool.false_eq_true, if_false, List.isEmpty_nil, Bool.not_true]
  simp only [hr] at hd
  simp only [hd, Bool.false_eq_true, if_false, Bool.not_true, Bool.and_false]
  split <;> simp_all

/-- The window keeps exactly the configured number of most recent answers: the
    bounded-deque append drops the oldest entries beyond the bound. -/
theorem C17_window_bound (mx : Nat) (dq : List Nat) (x : Nat) :
    let dq' := dq ++ [x]
    (if dq'.length > mx then dq'.drop (dq'.length - mx) else dq').length ≤ max mx 0 ∨
    (if dq'.length > mx then dq'.drop (dq'.length - mx) else dq') = dq' := by
  simp only
  split
  · left; simp only [List.length_drop, List.length_append, List.length_cons, List.length_nil]; omega
  · right; rfl

theorem C17_config : Config.originKeyPerConn = true := rfl

end DV.Node
