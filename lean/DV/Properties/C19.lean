/-
  C19 — Per-transaction and per-connection state is released; nothing grows
  with use.  Step lemmas for the bookkeeping tables (the per-connection tables
  are covered by the C13 removal lemmas).
-/
import DV.Proofs.NodeQ
namespace DV.Node

/-- Received answers leave no trace in the origin table (repaired code). -/
theorem C19_answers_not_recorded (s : St) (cid : Nat) (m : AMsg) (info : MsgInfo)
    (hk : Config.originOnlyRequests = true) (hr : m.isRequest = false) :
    recordOrigin s cid m info = s := by
  simp [recordOrigin, hr, hk]

/-- One request leaves at most one origin entry: recording the same
    (connection, hop-by-hop, end-to-end) again overwrites. -/
theorem C19_origin_no_duplicate (s : St) (cid : Nat) (m : AMsg) (info : MsgInfo)
    (h : s.originWaiting.any (·.1 == originKey cid m) = true) :
    (recordOrigin s cid m info).originWaiting.length = s.originWaiting.length := by
  unfold recordOrigin
  split
  · simp [h]
  · rfl

end DV.Node
