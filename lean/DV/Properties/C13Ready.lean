/-
  C13 — "an application reports ready whenever at least one of its configured
  peers has a ready connection, and reports not ready once none of its
  configured peers has a connection": the place where the node sets
  `Application.is_ready`, for every state.

  * `_flag_connection_as_ready(conn)` (end of a successful capabilities
    exchange): the connection is READY afterwards and every application that has,
    in the routing table, a peer whose `Peer.connection` is this connection
    reports ready; no application is set to not ready.
  (`remove_peer_connection`, the other writer, recomputes the flag per application from the peers' `Peer.connection`
  records: its clauses are C13_removed_from_tables / C13_remove_other_keeps_peer and the invariant the direct oracle
  checks on the real code after every event.)

  (Which connection `Peer.connection` is, over whole histories: C12Own, C13Hist and
  the recorded finding K6 for a peer with two connections.)
-/
import DV.Model.NodeLoop
namespace DV.Node

/-- the application has, in some realm's table, a peer whose current connection is `cid` -/
def appHasPeerOn (s : St) (ai cid : Nat) : Bool :=
  s.routes.any fun (_, tbl) => tbl.any fun (k, ps) =>
    k == RKey.app ai && ps.any fun pi =>
      match s.peers[pi]? with
      | some p => p.connection == some cid
      | none => false

theorem C13_flag_ready_sets_applications_ready (s : St) (cid : Nat) (ai : Nat) (a : App)
    (ha : s.apps[ai]? = some a) :
    ∃ a', (flagConnectionAsReady s cid).apps[ai]? = some a' ∧
      (appHasPeerOn s ai cid = true → a'.ready = true) ∧ (a.ready = true → a'.ready = true) := by
  unfold flagConnectionAsReady
  dsimp only
  rw [List.getElem?_mapIdx]
  have ha' : (s.modConn cid fun c => { c with state := .ready }).apps[ai]? = some a := ha
  rw [ha']
  refine ⟨_, rfl, ?_, ?_⟩
  · intro h
    have h' : (s.routes.any fun (x : String × List (RKey × List Nat)) => x.2.any fun (y : RKey × List Nat) =>
        y.1 == RKey.app ai && y.2.any fun pi =>
          match s.peers[pi]? with
          | some p => p.connection == some cid
          | none => false) = true := h
    show (if (s.routes.any fun (x : String × List (RKey × List Nat)) => x.2.any fun (y : RKey × List Nat) =>
        y.1 == RKey.app ai && y.2.any fun pi =>
          match s.peers[pi]? with
          | some p => p.connection == some cid
          | none => false) = true then { a with ready := true } else a).ready = true
    rw [if_pos h']
  · intro h
    show (if _ then { a with ready := true } else a).ready = true
    split
    · rfl
    · exact h

theorem C13_flag_ready_makes_connection_ready (s : St) (cid : Nat) :
    ∀ c ∈ (flagConnectionAsReady s cid).conns, c.id = cid → c.state = .ready := by
  unfold flagConnectionAsReady
  intro c hc hid
  simp only [St.modConn, List.mem_map] at hc
  obtain ⟨c0, _, rfl⟩ := hc
  split
  · rfl
  · rename_i h
    split at hid
    · rename_i h'; exact absurd h' h
    · exact absurd (by simpa using hid) h

end DV.Node
