/-
  C11 — Watchdog: idle sends one DWR, DWA restores ready, silence closes the
  connection.  All clock values and all timeout values (no 1..60 bound).
-/
import DV.Proofs.NodeQ
namespace DV.Node

/-- READY and nothing received for longer than the idle timeout ⇒ the timer
    check sends a DWR (`sendDwr`), for a connection of an unknown peer or of a
    peer with any timer settings. -/
theorem C11_idle_dwr (s : St) (cid : Nat) (c : Conn) (hstop : s.stopping = false)
    (hc : s.conn? cid = some c) (hst : c.state = .ready)
    (hidle : s.now - c.lastRead >
      effTimer (((findConnectionPeer s c).bind (fun i => s.peers[i]?)).bind (fun p => p.idleTo)) s.cfg.idle) :
    checkTimers s cid = sendDwr s cid := by
  have hb : Nat.blt (effTimer (((findConnectionPeer s c).bind (fun i => s.peers[i]?)).bind (fun p => p.idleTo)) s.cfg.idle)
      (s.now - c.lastRead) = true := by
    rw [Nat.blt_eq]; exact hidle
  simp [checkTimers, hstop, hc, hst, CState.isReady, hb]

/-- …and no DWR while traffic keeps arriving within the idle timeout. -/
theorem C11_no_dwr_under_traffic (s : St) (cid : Nat) (c : Conn) (hstop : s.stopping = false)
    (hc : s.conn? cid = some c) (hst : c.state = .ready)
    (hidle : s.now - c.lastRead ≤
      effTimer (((findConnectionPeer s c).bind (fun i => s.peers[i]?)).bind (fun p => p.idleTo)) s.cfg.idle) :
    checkTimers s cid = s := by
  have hb : Nat.blt (effTimer (((findConnectionPeer s c).bind (fun i => s.peers[i]?)).bind (fun p => p.idleTo)) s.cfg.idle)
      (s.now - c.lastRead) = false := by
    apply Bool.eq_false_iff.mpr; intro h; rw [Nat.blt_eq] at h; omega
  simp [checkTimers, hstop, hc, hst, CState.isReady, hb]

/-- While awaiting a DWA no second DWR is sent; when the DWA timeout has
    expired the connection is closed with the watchdog-timeout reason. -/
theorem C11_waiting (s : St) (cid : Nat) (c : Conn) (hstop : s.stopping = false)
    (hc : s.conn? cid = some c) (hst : c.state = .waitDwa) :
    checkTimers s cid =
      (if Nat.blt (effTimer (((findConnectionPeer s c).bind (fun i => s.peers[i]?)).bind (fun p => p.dwaTo)) s.cfg.dwa)
            (if c.lastDwr > 0 then s.now - c.lastDwr else 0)
       then closeConnectionSocket s cid .dwaTo else s) := by
  simp [checkTimers, hstop, hc, hst, CState.isReady]

/-- A DWA returns the connection to READY and clears the DWR stamp. -/
theorem C11_dwa (s : St) (cid : Nat) :
    receiveDwa s cid = s.modConn cid fun c =>
      { c with state := if c.state == .waitDwa then .ready else c.state, lastDwr := 0 } := rfl

/-- No watchdog while the node is stopping. -/
theorem C11_stopping (s : St) (cid : Nat) (h : s.stopping = true) : checkTimers s cid = s := by
  simp [checkTimers, h]

end DV.Node
