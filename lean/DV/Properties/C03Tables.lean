/-
  C03 obligations about the regenerated attribute-definition tables.
-/
import DV.Model.TableWF
import DV.Generated.Dict
import DV.Generated.Classes
import DV.Generated.Commands
namespace DV

/-- For every command class and grouped container of the working tree: every
    declared attribute denotes exactly one dictionary AVP; it has a container
    class exactly when that AVP is Grouped (and the container is in the table);
    no two attributes of a class denote the same AVP or share a name; defaults
    are `None`, `[]` or an integer on a scalar attribute. -/
theorem C03_tables_wellformed :
    allClassesWF Gen.dict Gen.classes Gen.classes.length = true := by decide +kernel

/-- No dictionary name, normalised the way `UndefinedMessage` exposes it,
    collides with an existing member of the untyped message classes. -/
theorem C03_undefined_names : Gen.undefNameClashes = [] := by decide

end DV
