/-
  C03 obligations about the regenerated attribute-definition tables.
-/
import DV.Model.TableWF
import DV.Properties.C03
import DV.Properties.C03Round
import DV.Properties.C03Nested
import DV.Generated.Dict
import DV.Generated.Classes
import DV.Generated.Commands
namespace DV

/-- For every command class and grouped container of the working tree: every
    declared attribute denotes exactly one dictionary AVP; it has a container
    class exactly when that AVP is Grouped (and the container is in the table);
    no two attributes of a class denote the same AVP or share a name; defaults
    are `None`, `[]` or an integer on a scalar attribute. -/
theorem C03_tables_wellformed :
    allClassesWF Gen.dict Gen.classes Gen.classes.length = true := by decide +kernel

/-- For every class of the working tree: an attribute is a list after construction exactly when its annotation says
    `list[...]` (a repeatable AVP decoded into an attribute that starts as `None` would keep only its last value). -/
theorem C03_tables_list_defaults : listDefaultMismatches Gen.classes Gen.annotatedLists = [] := by decide +kernel

/-- No dictionary name, normalised the way `UndefinedMessage` exposes it,
    collides with an existing member of the untyped message classes. -/
theorem C03_undefined_names : Gen.undefNameClashes = [] := by decide

/-- For every class of the working tree: each declared attribute denotes exactly
    one dictionary AVP — a Grouped one exactly when the attribute has a container
    class — and the decoder maps that AVP back to this attribute and no other. -/
theorem C03_tables_one_to_one (c : ClassDef) (hc : c ∈ Gen.classes) (d : AttrDef) (hd : d ∈ c.defs) :
    neededDef c.defs d.code d.vendor = some d ∧
    ∃ e, lookupDict Gen.dict d.code d.vendor = some e ∧ (d.tclass.isSome = true ↔ e.ty = tagGrouped) := by
  have hall := C03_tables_wellformed
  simp only [allClassesWF, Bool.and_eq_true, List.all_eq_true] at hall
  have hwf := hall.2 c hc
  simp only [classWF, Bool.and_eq_true, List.all_eq_true] at hwf
  refine ⟨C03_decode_finds_definition c.defs hwf.1.1.2 d hd, ?_⟩
  have hdef := hwf.1.1.1 d hd
  unfold attrDefWF at hdef
  cases hl : lookupDict Gen.dict d.code d.vendor with
  | none => simp [hl] at hdef
  | some e =>
    refine ⟨e, rfl, ?_⟩
    simp only [hl] at hdef
    cases ht : d.tclass with
    | none =>
      simp only [ht] at hdef
      have : e.ty ≠ tagGrouped := by
        intro h; rw [h] at hdef; simp at hdef
      simp [this]
    | some t =>
      simp only [ht, Bool.and_eq_true] at hdef
      have : e.ty = tagGrouped := by simpa using hdef.1
      simp [this]

/-- The scalar round trip for the classes of the working tree (the distinctness
    premise is discharged by `C03_tables_wellformed`). -/
theorem C03_tables_roundtrip_scalars (g : Bool) (fuel fuel' cls : Nat) (c : ClassDef)
    (fs : List (Nat × FVal)) (additional avps : List Avp)
    (hc : findClass Gen.classes cls = some c) (hadd : c.additional ≠ 0)
    (hval : ∀ d ∈ c.defs, ScalarOrUnset Gen.dict d (fieldOf fs d))
    (hnl : ∀ d ∈ c.defs, fieldOf fs d ≠ .unset → d.isList = false)
    (hund : ∀ a ∈ additional, neededDef c.defs a.code a.vendor = none)
    (hgen : generateFuel rfcTime Gen.dict Gen.classes (fuel + 1) (.obj cls fs additional) = .ok avps) :
    ∃ f1, assignFuel (getValue rfcTime g) Gen.dict Gen.classes (fuel' + 1) cls avps = .ok (.obj cls f1 additional) ∧
      ∀ d ∈ c.defs, fieldOf f1 d = (match fieldOf fs d with | .scalar v => .scalar v | _ => fieldOf (initFields c) d) := by
  have hmem : c ∈ Gen.classes := by
    unfold findClass at hc
    exact List.mem_of_getElem? hc
  have hall := C03_tables_wellformed
  simp only [allClassesWF, Bool.and_eq_true, List.all_eq_true] at hall
  have hwf := hall.2 c hmem
  simp only [classWF, Bool.and_eq_true] at hwf
  exact C03_roundtrip_scalars Gen.dict Gen.classes g fuel fuel' cls c fs additional avps hc hwf.1.1.2 hadd hval hnl hund hgen

/-- …and with list attributes of plain values. -/
theorem C03_tables_roundtrip_flat (g : Bool) (fuel fuel' cls : Nat) (c : ClassDef)
    (fs : List (Nat × FVal)) (additional avps : List Avp)
    (hc : findClass Gen.classes cls = some c) (hadd : c.additional ≠ 0)
    (hval : ∀ d ∈ c.defs, FlatOK Gen.dict d (fieldOf fs d))
    (hshape : ∀ d ∈ c.defs, (∀ x, fieldOf fs d = .scalar x → d.isList = false) ∧ (∀ xs, fieldOf fs d = .list xs → d.isList = true))
    (hund : ∀ a ∈ additional, neededDef c.defs a.code a.vendor = none)
    (hgen : generateFuel rfcTime Gen.dict Gen.classes (fuel + 1) (.obj cls fs additional) = .ok avps) :
    ∃ f1, assignFuel (getValue rfcTime g) Gen.dict Gen.classes (fuel' + 1) cls avps = .ok (.obj cls f1 additional) ∧
      ∀ d ∈ c.defs, fieldOf f1 d = (match fieldOf fs d with
        | .scalar v => .scalar v
        | .list xs => .list xs
        | _ => fieldOf (initFields c) d) := by
  have hmem : c ∈ Gen.classes := by
    unfold findClass at hc
    exact List.mem_of_getElem? hc
  have hall := C03_tables_wellformed
  simp only [allClassesWF, Bool.and_eq_true, List.all_eq_true] at hall
  have hwf := hall.2 c hmem
  simp only [classWF, Bool.and_eq_true] at hwf
  exact C03_roundtrip_flat Gen.dict Gen.classes g fuel fuel' cls c fs additional avps hc hwf.1.1.2 hadd hval hshape hund hgen

/-- every definition of the working tree has a 32-bit code and vendor id -/
theorem C03_tables_defs_in_range : defsInRange Gen.classes = true := by decide +kernel

/-- **The whole-object round trip for the classes of the working tree**: for every
    depth and every object tree over the regenerated classes whose attributes hold
    in-domain values of the declared shape, whose undeclared AVPs are well-formed
    and whose generated AVPs fit the 24-bit length field (`GoodW`): generate →
    encode → decode → assign restores the tree.  The table facts (`allClassesWF`) are discharged by
    `C03_tables_wellformed`. -/
theorem C03_tables_roundtrip_nested (g : Bool) (n cls : Nat) (fs : List (Nat × FVal)) (add avps : List Avp)
    (hg : GoodW Gen.dict Gen.classes n (.obj cls fs add))
    (hgen : generateFuel rfcTime Gen.dict Gen.classes n (.obj cls fs add) = .ok avps) :
    ∃ bytes, encodeAvps avps = .ok bytes ∧ decodeAvps bytes 0 = .ok avps ∧
      ∃ back, assignFuel (getValue rfcTime g) Gen.dict Gen.classes n cls avps = .ok back ∧
        Restored Gen.classes n (.obj cls fs add) back :=
  C03_roundtrip_wellformed_tables Gen.dict Gen.classes _ C03_tables_wellformed C03_tables_defs_in_range g n cls fs add avps hg hgen

end DV
