/-
  C13 — "a closed connection appears in none of the node's connection and
  socket tables and its socket has been closed", over whole histories.

  For every sequence of operations of the node model, in every state reached:
  a connection object that is not registered in `Node.connections` (it was
  refused, failed to be established, was rejected, timed out, was closed by
  either side, or was removed by `stop()`) has had its socket closed and its
  worker threads stopped, and its id is in none of `peer_sockets`,
  `socket_peers`, `_half_ready_connections` and `_peer_waiting_answer`.

  Instance of the invariant pair of Properties/C18Stop.lean (`SInv`: an open
  socket belongs to a registered connection; C19's `WInv` / `PInv`; C13's table
  consistency).
-/
import DV.Properties.C18Stop
namespace DV.Node

theorem C13_unregistered_connection_is_closed_everywhere (hk : Config.removeCleansTables = true)
    (hr : Config.rejectStopsWorkers = true) (hg : Config.gateClosing = true) (hcc : Config.appConsumersCatch = true)
    (infoOf : AMsg → MsgInfo) (w : World) (ops : List Op) (h : JInv w.st) :
    let s := (run infoOf w ops).st
    ∀ c ∈ s.conns, c.id ∉ s.connections →
      c.sockClosed = true ∧ c.workersStopped = true ∧ c.id ∉ s.peerSockets ∧ c.id ∉ s.socketPeers ∧
      c.id ∉ s.halfReady ∧ c.id ∉ s.peerWaiting.map (·.1) := by
  intro s c hc hn
  obtain ⟨⟨⟨t1, t2, t3⟩, wv, pv⟩, ⟨_, sv, _⟩⟩ := C18_open_socket_is_registered hk hr hg hcc infoOf w ops h
  refine ⟨?_, ?_, ?_, ?_, ?_, ?_⟩
  · cases hw : c.sockClosed with
    | true => rfl
    | false => exact absurd (sv (c.id, c.sockClosed) (List.mem_map.mpr ⟨c, hc, rfl⟩) hw) hn
  · cases hw : c.workersStopped with
    | true => rfl
    | false => exact absurd (wv (c.id, c.workersStopped) (List.mem_map.mpr ⟨c, hc, rfl⟩) hw) hn
  · intro hin; exact hn (t1 ▸ hin)
  · intro hin; exact hn (t3 _ hin)
  · intro hin; exact hn (t2 _ hin)
  · intro hin; exact hn (pv _ hin)

/-- (a state in which the hypothesis of the conclusion is met: one refused connection object, nothing registered) -/
example :
    let c : Conn := { id := 0, dir := .recv, state := .closed, lastRead := 0, hbh := 1, sockClosed := true,
                      workersStopped := true, hasSocket := false }
    let s : St := { (default : St) with conns := [c], connections := [], peerSockets := [], halfReady := [],
                                        socketPeers := [], peerWaiting := [] }
    JInv s ∧ (∃ c ∈ s.conns, c.id ∉ s.connections) := by
  intro c s
  refine ⟨⟨⟨⟨rfl, by simp [s], by simp [s]⟩, by simp [s, c, WInv, St.wsv], by simp [s, PInv, St.pwk]⟩,
           ⟨⟨rfl, by simp [s], by simp [s]⟩, by simp [s, c, SInv, St.skv], by simp [s, PInv, St.pwk]⟩⟩, ?_⟩
  exact ⟨c, by simp [s], by simp [s]⟩

end DV.Node
