/-
  C06 — the capabilities exchange gates all traffic, over whole histories.
  For every sequence of operations of the node model (connections dialled,
  accepted, refused, failing, timing out, closed by either side; any messages
  in any chunking on connections in any state; timers; I/O passes; worker
  pumps; application calls; stop), in every state reached:

  * **no request is pending with an application for a connection that is still
    in its capabilities exchange** (CONNECTING, or CONNECTED awaiting the
    CER/CEA): `_peer_waiting_answer` — which gets an entry exactly when a
    request is handed to an application — only mentions connections that have
    left those states;
  * **the exchange is not re-entered**: a connection object that has left
    CONNECTING/CONNECTED (ready, disconnecting, closing, closed — also: refused
    or rejected) is never in one of them again, connection objects are never
    dropped or re-numbered, and a connection's id is its position in the
    node's list of connections.

  The one hypothesis is the configuration flag recording the `fix:` commit that
  made the gate cover CONNECTING / CLOSING / CLOSED connections.
-/
import DV.Proofs.NodeGateInv
namespace DV.Node

theorem ge2_applyOp (infoOf : AMsg → MsgInfo) (w : World) (o : Op) (hid : IdPos w.st) : (applyOp infoOf w o).st ⊒ w.st := by
  cases o with
  | start plan =>
    simp only [applyOp]
    refine Ge.trans (ge2_foldl _ ?_ _ _ (IdPos_of_ge (ge_of_conns rfl (Ge.refl w.st)) hid)) (ge_of_conns rfl (Ge.refl w.st))
    intro s a hs
    repeat (first | exact Ge.refl s | exact ge2_connectToPeer s a hs | split)
  | accept => exact ge2_ioIteration { w with acceptQ := w.acceptQ + 1 } hid
  | rx cid e => simp only [applyOp, pushRx]; repeat (first | exact Ge.refl _ | split)
  | wr cid evs => simp only [applyOp]; repeat (first | exact Ge.refl _ | split | dsimp only)
  | block cid b => simp only [applyOp]; split <;> exact Ge.refl _
  | sethbh cid v => exact ge_modConn _ _ _ (by tamep) (Ge.refl _)
  | anon cid => exact ge_modConn _ _ _ (by tamep) (Ge.refl _)
  | dial plan => exact ge_of_conns rfl (Ge.refl _)
  | conn cid ok => exact ge_of_conns rfl (Ge.refl _)
  | adv dt => exact ge_of_conns rfl (Ge.refl _)
  | io => exact ge2_ioIteration w hid
  | pump => exact ge_pumpAll infoOf _ (Ge.refl _)
  | settle n => exact ge2_settle infoOf n w hid
  | hold ai v => exact Ge.refl _
  | outcome ai o => exact Ge.refl _
  | handler k => exact ge_runHandler infoOf _ k (Ge.refl _)
  | ans ai req rc => exact ge_appSendAnswer _ _ _ _ _ (Ge.refl _)
  | reqBegin ai m => exact ge_appSendRequestBegin _ _ _ _ (Ge.refl _)
  | reqEnd ai hbh t =>
    simp only [applyOp]
    split <;> exact ge_of_conns rfl (Ge.refl _)
  | stopBegin f => exact ge_stopBegin _ _ (Ge.refl _)
  | stopFinal => exact ge_stopFinal _ (Ge.refl _)
  | note o => exact Ge.refl _
  | flush => exact ge_of_conns rfl (Ge.refl _)

theorem GInv_applyOp (hk : Config.gateClosing = true) (infoOf : AMsg → MsgInfo) (w : World) (o : Op) (h : GInv w.st) :
    GInv (applyOp infoOf w o).st := by
  have hg := ge2_applyOp infoOf w o h.1
  have viaLe : PwLe (applyOp infoOf w o).st w.st → GInv (applyOp infoOf w o).st := fun hp => GInv_of hp hg h
  cases o with
  | io => exact GInv_ioIteration w h
  | accept => exact GInv_ioIteration { w with acceptQ := w.acceptQ + 1 } h
  | pump => exact GInv_pumpAll hk infoOf _ h
  | settle n => exact GInv_settle hk infoOf n w h
  | start plan =>
    apply viaLe
    simp only [applyOp]
    apply PwLe_of_le
    apply le_foldl
    · intro s a hs
      repeat (first | exact hs | exact le_connectToPeer s a hs | split)
    · exact le_of_eq rfl rfl (Le.refl _)
  | rx cid e => apply viaLe; simp only [applyOp, pushRx]; repeat (first | exact PwLe.refl _ | split)
  | wr cid evs => apply viaLe; simp only [applyOp]; repeat (first | exact PwLe.refl _ | split | dsimp only)
  | block cid b => apply viaLe; simp only [applyOp]; split <;> exact PwLe.refl _
  | sethbh cid v => exact viaLe (fun _ hx => hx)
  | anon cid => exact viaLe (fun _ hx => hx)
  | dial plan => exact viaLe (fun _ hx => hx)
  | conn cid ok => exact viaLe (fun _ hx => hx)
  | adv dt => exact viaLe (fun _ hx => hx)
  | hold ai v => exact viaLe (fun _ hx => hx)
  | outcome ai o => exact viaLe (fun _ hx => hx)
  | handler k => exact viaLe (PwLe_of_le (le_runHandler infoOf _ k (Le.refl _)))
  | ans ai req rc => exact viaLe (PwLe_of_le (le_appSendAnswer _ _ _ _ _ (Le.refl _)))
  | reqBegin ai m => exact viaLe (PwLe_of_le (le_appSendRequestBegin _ _ _ _ (Le.refl _)))
  | reqEnd ai hbh t =>
    apply viaLe
    simp only [applyOp]
    split <;> exact fun _ hx => hx
  | stopBegin f => exact viaLe (PwLe_of_le (le_stopBegin _ _ (Le.refl _)))
  | stopFinal => exact viaLe (PwLe_of_le (le_stopFinal _ (Le.refl _)))
  | note o => exact viaLe (fun _ hx => hx)
  | flush => exact viaLe (fun _ hx => hx)

/-- **Every reachable state** keeps the invariant. -/
theorem C06_gate_invariant (hk : Config.gateClosing = true) (infoOf : AMsg → MsgInfo) (w : World) (ops : List Op)
    (h : GInv w.st) : GInv (run infoOf w ops).st := by
  unfold run
  induction ops generalizing w with
  | nil => exact h
  | cons o ops ih => exact ih _ (GInv_applyOp hk infoOf w o h)

/-- **No request is pending for a connection still in its capabilities exchange** — after any history:
    whenever `_peer_waiting_answer` holds a hop-by-hop id for connection `cid`, that connection exists and
    is neither CONNECTING nor CONNECTED. -/
theorem C06_no_pending_before_exchange (hk : Config.gateClosing = true) (infoOf : AMsg → MsgInfo) (w : World) (ops : List Op)
    (h : GInv w.st) :
    ∀ p ∈ (run infoOf w ops).st.peerWaiting, ∀ hbh ∈ p.2,
      ∃ c, (run infoOf w ops).st.conns[p.1]? = some c ∧ c.state ≠ .connecting ∧ c.state ≠ .connected := by
  intro p hp hbh hh
  obtain ⟨c, hc, hpre⟩ := (C06_gate_invariant hk infoOf w ops h).2 (p.1, hbh) (mem_pwm.mpr ⟨p, hp, rfl, hh⟩)
  refine ⟨c, hc, ?_⟩
  cases hs : c.state <;> simp_all [Conn.preB]

/-- **The exchange is not re-entered**, connection objects are never dropped, and ids are positions — after
    any history: a connection object present before is still there with its id, and is in CONNECTING /
    CONNECTED only if it was before; objects created during the history carry their position as id. -/
theorem C06_exchange_not_reentered (infoOf : AMsg → MsgInfo) (w : World) (ops : List Op) (hid : IdPos w.st) :
    (run infoOf w ops).st ⊒ w.st ∧ IdPos (run infoOf w ops).st := by
  unfold run
  induction ops generalizing w with
  | nil => exact ⟨Ge.refl _, hid⟩
  | cons o ops ih =>
    have h1 := ge2_applyOp infoOf w o hid
    have ⟨h2, h3⟩ := ih _ (IdPos_of_ge h1 hid)
    exact ⟨Ge.trans h2 h1, h3⟩

/-- (read out) a connection that was READY before a history is never CONNECTED / CONNECTING after it -/
theorem C06_ready_stays_past_exchange (infoOf : AMsg → MsgInfo) (w : World) (ops : List Op) (hid : IdPos w.st)
    (i : Nat) (c : Conn) (hc : w.st.conns[i]? = some c) (hst : c.preB = false) :
    ∃ c', (run infoOf w ops).st.conns[i]? = some c' ∧ c'.id = c.id ∧ c'.preB = false := by
  obtain ⟨c', hc', hid', himp⟩ := ge_old (C06_exchange_not_reentered infoOf w ops hid).1 hc
  refine ⟨c', hc', hid', ?_⟩
  cases hb : c'.preB with
  | false => rfl
  | true => rw [himp hb] at hst; exact absurd hst (by decide)

/-- the premises are met by a node without connections and pending requests (a node that has not been started) -/
example : GInv ({ (default : St) with conns := [], peerWaiting := [] }) :=
  ⟨fun i c h => by simp at h, fun x hx => by simp [St.pwm] at hx⟩

/-- the configuration flag the theorems assume is that of the current tree -/
theorem C06_hist_config : Config.gateClosing = true := rfl

end DV.Node
