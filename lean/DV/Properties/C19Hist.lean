/-
  C19 — per-connection state over whole histories.  For every sequence of
  operations (connections arriving, being refused, failing, being rejected,
  elected away, timing out, closed by either side; requests and answers in any
  number and order; stop), in every state reached:

  * a connection whose worker threads still run is registered in
    `node.connections`, and
  * `_peer_waiting_answer` holds tables for registered connections only.

  Hence once every connection has ended, no worker thread is left running and
  no pending-answer table remains — independently of how many connections and
  transactions the history contained.
-/
import DV.Proofs.NodeLive
namespace DV.Node

theorem LInv_applyOp (hk : Config.removeCleansTables = true) (hr : Config.rejectStopsWorkers = true)
    (hg : Config.gateClosing = true) (hcc : Config.appConsumersCatch = true)
    (infoOf : AMsg → MsgInfo) (w : World) (o : Op) (h : LInv w.st) : LInv (applyOp infoOf w o).st := by
  cases o with
  | start plan =>
    simp only [applyOp]
    apply LInv_foldl
    · intro s a hs
      repeat (first | exact hs | exact LInv_connectToPeer hk hr s a hs | split)
    · exact LInv_same h rfl rfl rfl rfl rfl rfl
  | accept => exact LInv_ioIteration hk hr _ h
  | rx cid e => simp only [applyOp, pushRx]; repeat (first | exact h | split)
  | wr cid evs => simp only [applyOp]; repeat (first | exact h | split | dsimp only)
  | block cid b => simp only [applyOp]; split <;> exact h
  | sethbh cid v => exact LInv_tame h _ _ (by tame)
  | anon cid => exact LInv_tame h _ _ (by tame)
  | io => exact LInv_ioIteration hk hr _ h
  | pump => exact LInv_pumpAll hk hg hcc infoOf _ h
  | settle n => exact LInv_settle hk hr hg hcc infoOf n w h
  | handler k => exact LInv_runHandler infoOf _ k h
  | ans ai req rc => simp only [applyOp]; lsame h
  | reqBegin ai m => simp only [applyOp]; lsame h
  | reqEnd ai hbh t => simp only [applyOp]; split <;> exact LInv_same h rfl rfl rfl rfl rfl rfl
  | stopBegin f => simp only [applyOp]; lsame h
  | stopFinal => exact LInv_stopFinal hk _ h
  | _ => exact LInv_same h rfl rfl rfl rfl rfl rfl

/-- **Every reachable state.** -/
theorem C19_live_registered (hk : Config.removeCleansTables = true) (hr : Config.rejectStopsWorkers = true)
    (hg : Config.gateClosing = true) (hcc : Config.appConsumersCatch = true)
    (infoOf : AMsg → MsgInfo) (w : World) (ops : List Op) (h : LInv w.st) : LInv (run infoOf w ops).st := by
  unfold run
  induction ops generalizing w with
  | nil => exact h
  | cons o ops ih => exact ih _ (LInv_applyOp hk hr hg hcc infoOf w o h)

/-- **Nothing is left behind.** After any history at whose end no connection is
    registered any more: every connection object ever created has stopped worker
    threads, `_peer_waiting_answer` is empty, and so are `peer_sockets`,
    `socket_peers` and `_half_ready_connections` — whatever the number of
    connections and requests in the history. -/
theorem C19_released_when_all_ended (hk : Config.removeCleansTables = true) (hr : Config.rejectStopsWorkers = true)
    (hg : Config.gateClosing = true) (hcc : Config.appConsumersCatch = true)
    (infoOf : AMsg → MsgInfo) (w : World) (ops : List Op) (h : LInv w.st)
    (hend : (run infoOf w ops).st.connections = []) :
    let s := (run infoOf w ops).st
    (∀ c ∈ s.conns, c.workersStopped = true) ∧ s.peerWaiting = [] ∧ s.peerSockets = [] ∧ s.socketPeers = [] ∧ s.halfReady = [] := by
  have hl := C19_live_registered hk hr hg hcc infoOf w ops h
  show (∀ c ∈ (run infoOf w ops).st.conns, c.workersStopped = true) ∧ (run infoOf w ops).st.peerWaiting = [] ∧
    (run infoOf w ops).st.peerSockets = [] ∧ (run infoOf w ops).st.socketPeers = [] ∧ (run infoOf w ops).st.halfReady = []
  generalize (run infoOf w ops).st = s at hl hend
  obtain ⟨⟨t1, t2, t3⟩, wv, pv⟩ := hl
  refine ⟨?_, ?_, ?_, ?_, ?_⟩
  · intro c hc
    cases hw : c.workersStopped with
    | true => rfl
    | false =>
      have := wv (c.id, c.workersStopped) (List.mem_map.mpr ⟨c, hc, rfl⟩) hw
      rw [hend] at this
      exact absurd this (List.not_mem_nil)
  · cases hp : s.peerWaiting with
    | nil => rfl
    | cons e l =>
      have : e.1 ∈ s.connections := pv e.1 (by simp [St.pwk, hp])
      rw [hend] at this
      exact absurd this (List.not_mem_nil)
  · rw [← t1]; exact hend
  · cases hp : s.socketPeers with
    | nil => rfl
    | cons e l =>
      have : e ∈ s.connections := t3 e (by simp [hp])
      rw [hend] at this
      exact absurd this (List.not_mem_nil)
  · cases hp : s.halfReady with
    | nil => rfl
    | cons e l =>
      have : e ∈ s.connections := t2 e (by simp [hp])
      rw [hend] at this
      exact absurd this (List.not_mem_nil)

/-- (the premises are met by a node that has not been started yet) -/
example : LInv ({ (default : St) with conns := [], connections := [], peerSockets := [], halfReady := [], socketPeers := [],
                                      peerWaiting := [] }) :=
  ⟨⟨rfl, by simp, by simp⟩, by simp [WInv, St.wsv], by simp [PInv, St.pwk]⟩

/-- the configuration flags the theorems assume are those of the current tree -/
theorem C19_config : Config.removeCleansTables = true ∧ Config.rejectStopsWorkers = true ∧ Config.gateClosing = true ∧
    Config.appConsumersCatch = true ∧ Config.connectFailCloses = true := ⟨rfl, rfl, rfl, rfl, rfl⟩

end DV.Node
