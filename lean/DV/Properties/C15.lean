/-
  C15 — Outbound bytes = queued messages concatenated FIFO, intact, exactly once.

  `run P {} evs`: every interleaving of queueing threads (`put`), the
  connection's writer (`w`) and the I/O loop (`l o`, with the outcome `o` of the
  `send()` it may reach: any partial write, a soft or a hard error), at the
  granularity of the source lines that touch shared state.
-/
import DV.Proofs.WritePath
namespace DV.WP

/-- The invariant holds in every reachable state. -/
theorem C15_invariant (evs : List Ev) : Inv (run goodProg {} evs) := by
  suffices h : ∀ s, Inv s → Inv (run goodProg s evs) from h {} inv_init
  unfold run
  induction evs with
  | nil => intro s h; exact h
  | cons e evs ih =>
    intro s h
    rw [List.foldl_cons]
    apply ih
    cases e with
    | put enc => exact inv_put s enc h
    | w => exact inv_w s h
    | l o => exact inv_l s o h

/-- **What the transport has accepted is always a prefix of the queued messages'
    encodings in queueing order** — no byte lost, duplicated, reordered or torn,
    whatever the partial writes, soft errors and interleavings. -/
theorem C15_sent_is_prefix (evs : List Ev) : (run goodProg {} evs).sent <+: (run goodProg {} evs).expect := by
  have h := (C15_invariant evs).bytes
  refine ⟨(run goodProg {} evs).buf.drop (pendingRemove (run goodProg {} evs)) ++ inflight (run goodProg {} evs) ++
    flat (run goodProg {} evs).q, ?_⟩
  rw [← h]; simp [List.append_assoc]

/-- **Exactly once, complete**: when nothing is queued, in the writer's hand or
    buffered any more, the accepted bytes are exactly the concatenation. -/
theorem C15_drained_exact (evs : List Ev) (hq : (run goodProg {} evs).q = []) (hw : (run goodProg {} evs).wpath = [])
    (hb : (run goodProg {} evs).buf.drop (pendingRemove (run goodProg {} evs)) = []) :
    (run goodProg {} evs).sent = (run goodProg {} evs).expect := by
  have h := (C15_invariant evs).bytes
  rw [hb, hq] at h
  simpa [inflight, hw, flat] using h

/-- The I/O thread never dies on this path (no unbound `sent_bytes`). -/
theorem C15_loop_survives (evs : List Ev) : (run goodProg {} evs).crashed = false := (C15_invariant evs).alive

/-- **A message that cannot be encoded is dropped alone**: it contributes nothing
    to what must go out (by the definition of `expect`), stores nothing, and
    three writer steps later the writer is idle again with the rest of the queue
    untouched. -/
theorem C15_unencodable_dropped (s : S) (q' : List (Option Bytes)) (hw : s.wpath = []) (hq : s.q = none :: q')
    (hl : s.lock = none) :
    let s3 := stepW goodProg (stepW goodProg (stepW goodProg s))
    s3.wpath = [] ∧ s3.q = q' ∧ s3.buf = s.buf ∧ s3.sent = s.sent ∧ s3.lock = none := by
  simp [stepW, hw, hq, hl, goodProg, releaseIf]

/-! ### the model can tell the difference -/

/-- Building the new buffer outside the lock and only swapping it in under the
    lock loses a trim: bytes already accepted by the socket go out twice. -/
def racyProg : Prog := { goodProg with wOk := [⟨.get, false⟩, ⟨.readAppend, false⟩, ⟨.lock, true⟩, ⟨.store, false⟩, ⟨.signal, false⟩] }

theorem C15_read_outside_lock_duplicates :
    let a := SendOutcome.accept 9
    let evs := [Ev.put (some [1, 2]), .w, .w, .w, .w, .w, .l a, .put (some [3]), .w, .w,
                .l a, .l a, .l a, .l a, .l a, .l a, .l a, .w, .w, .w, .l a, .l a, .l a, .l a, .l a, .l a, .l a]
    (run racyProg {} evs).sent = [1, 2, 1, 2, 3] ∧ (run racyProg {} evs).expect = [1, 2, 3] := by decide

/-- Removing `sent_bytes` after a soft error (nothing was written) cuts bytes
    out of the stream. -/
def staleProg : Prog := { goodProg with lSoft := goodProg.lOk }

theorem C15_stale_remove_corrupts :
    let a := SendOutcome.accept 9
    let evs := [Ev.put (some [1, 2, 3, 4]), .w, .w, .w, .w, .l a,
                .l (.accept 1), .l (.accept 1), .l (.accept 1), .l (.accept 1), .l (.accept 1), .l (.accept 1), .l (.accept 1),
                .l .soft, .l .soft, .l .soft, .l .soft, .l .soft, .l .soft, .l .soft,
                .l a, .l a, .l a, .l a, .l a, .l a, .l a]
    (run staleProg {} evs).sent = [1, 3, 4] ∧ (run staleProg {} evs).expect = [1, 2, 3, 4] := by decide

/-- the premises are satisfiable: a run with a partial write, a soft error and two messages -/
example : (run goodProg {} [Ev.put (some [1, 2]), .put (some [3]), .w, .w, .w, .w, .l (.accept 9), .l (.accept 1),
    .l (.accept 1), .l (.accept 1), .w, .w, .l (.accept 1), .w, .l (.accept 1), .w, .l (.accept 1), .l (.accept 1),
    .l .soft, .l .soft, .l .soft, .l (.accept 9), .l (.accept 9), .l (.accept 9), .l (.accept 9), .l (.accept 9), .l (.accept 9),
    .l (.accept 9)]).sent = [1, 2, 3] := by decide

end DV.WP
