/-
  C01 — AVP value ↔ wire codec is exact, RFC 6733-conformant and lossless.
  Property theorems only; helper lemmas live in `DV/Proofs`.
-/
import DV.Spec.Wire
import DV.Proofs.Avp
import DV.Proofs.Values
namespace DV
open Spec

/-- Encoding a well-formed AVP object yields exactly the RFC 6733 §4.1 layout. -/
theorem C01_wire_exact (a : Avp) (h : AvpWF a) : encodeAvp a = .ok (avpWire a) := by
  obtain ⟨hc, hv, hf, hl, _⟩ := h
  have hl' : (if a.vendor ≠ 0 then 12 else 8) + a.payload.length < 16777216 := hl
  simp only [encodeAvp, Avp.length, hc, hv, lenflags_lt _ _ hl' hf, and_self, if_true,
    be32_lenflags _ _ hl' hf, packFopaque_self, avpWire]
  by_cases hz : a.vendor = 0
  · simp [hz, Spec.be24, DV.be24, padding]
  · simp [hz, hv, Spec.be24, DV.be24, padding]

/-- The encoding is a multiple of four octets long. -/
theorem C01_wire_aligned (a : Avp) : (avpWire a).length % 4 = 0 := by
  simp only [avpWire, List.length_append, be32_length, List.length_cons, Spec.be24,
    List.length_replicate, padding, List.length_nil]
  split <;> simp <;> omega

/-- Decoding the encoding of a well-formed AVP (followed by arbitrary bytes)
    returns the same AVP and stops exactly behind its padding. -/
theorem C01_decode_encode (a : Avp) (h : AvpWF a) (rest : Bytes) :
    decodeAvp (avpWire a ++ rest) 0 = .ok (a, (avpWire a).length) := by
  obtain ⟨hc, hv, hf, hl, hb⟩ := h
  have hl' : (if a.vendor ≠ 0 then 12 else 8) + a.payload.length < 16777216 := hl
  have hk : a.payload.length + padding a.payload.length = pad4 a.payload.length := by
    unfold padding pad4; omega
  have := decodeAvp_layout a.code a.vendor a.flags a.payload rest hc hv hf hl' hb _ hk
  have e1 : avpWire a ++ rest = be32 a.code ++ (be32 (((if a.vendor ≠ 0 then 12 else 8) + a.payload.length) ||| a.flags <<< 24)
        ++ ((if a.vendor ≠ 0 then be32 a.vendor else []) ++ (a.payload ++ (List.replicate (padding a.payload.length) 0 ++ rest)))) := by
    rw [be32_lenflags _ _ hl' hf]
    simp [avpWire, Spec.be24, DV.be24]
  have e2 : (avpWire a).length = (if a.vendor ≠ 0 then 12 else 8) + pad4 a.payload.length := by
    simp only [avpWire, List.length_append, be32_length, List.length_cons, Spec.be24,
      List.length_replicate, List.length_nil]
    split <;> simp <;> omega
  rw [e1, e2, this]

/-! ### Value codecs: round trip on the domain, rejection outside it -/

theorem C01_integer32_roundtrip (tc : TimeConsts) (g : Bool) (i : Int)
    (h : -2147483648 ≤ i ∧ i < 2147483648) :
    ∃ p, setValue tc .integer32 (.int i) = .ok p ∧ p.length = 4 ∧
      getValue tc g .integer32 p = .ok (.int i) := by
  by_cases hn : 0 ≤ i
  · refine ⟨be32 i.toNat, ?_, rfl, ?_⟩
    · simp [setValue, twos, hn, h.2]
    · have : i.toNat < 4294967296 := by omega
      simp only [getValue, nat32_be32 _ this]
      have : i.toNat < 2147483648 := by omega
      simp [this]; omega
  · refine ⟨be32 (i + 4294967296).toNat, ?_, rfl, ?_⟩
    · have h1 : ¬ (0 ≤ i ∧ i < 2147483648) := by omega
      have h2 : -2147483648 ≤ i ∧ i < 0 := by omega
      simp [setValue, twos, h1, h2]
    · have : (i + 4294967296).toNat < 4294967296 := by omega
      simp only [getValue, nat32_be32 _ this]
      have : ¬ (i + 4294967296).toNat < 2147483648 := by omega
      simp [this]; omega

theorem C01_integer32_reject (tc : TimeConsts) (i : Int) (h : ¬ (-2147483648 ≤ i ∧ i < 2147483648)) :
    setValue tc .integer32 (.int i) = .error .avpEncode := by
  have h1 : ¬ (0 ≤ i ∧ i < 2147483648) := by omega
  have h2 : ¬ (-2147483648 ≤ i ∧ i < 0) := by omega
  simp [setValue, twos, h1, h2]

theorem C01_unsigned32_roundtrip (tc : TimeConsts) (g : Bool) (i : Int) (h : 0 ≤ i ∧ i < 4294967296) :
    ∃ p, setValue tc .unsigned32 (.int i) = .ok p ∧ p.length = 4 ∧
      getValue tc g .unsigned32 p = .ok (.int i) := by
  refine ⟨be32 i.toNat, by simp [setValue, h], rfl, ?_⟩
  have : i.toNat < 4294967296 := by omega
  simp only [getValue, nat32_be32 _ this]; congr 2; omega

theorem C01_unsigned32_reject (tc : TimeConsts) (i : Int) (h : ¬ (0 ≤ i ∧ i < 4294967296)) :
    setValue tc .unsigned32 (.int i) = .error .avpEncode := by
  simp [setValue, h]

theorem C01_integer64_roundtrip (tc : TimeConsts) (g : Bool) (i : Int)
    (h : -9223372036854775808 ≤ i ∧ i < 9223372036854775808) :
    ∃ p, setValue tc .integer64 (.int i) = .ok p ∧ p.length = 8 ∧
      getValue tc g .integer64 p = .ok (.int i) := by
  by_cases hn : 0 ≤ i
  · refine ⟨be64 i.toNat, ?_, rfl, ?_⟩
    · simp [setValue, twos, hn, h.2]
    · have : i.toNat < 18446744073709551616 := by omega
      simp only [getValue, nat64_be64 _ this]
      have : i.toNat < 9223372036854775808 := by omega
      simp [this]; omega
  · refine ⟨be64 (i + 18446744073709551616).toNat, ?_, rfl, ?_⟩
    · have h1 : ¬ (0 ≤ i ∧ i < 9223372036854775808) := by omega
      have h2 : -9223372036854775808 ≤ i ∧ i < 0 := by omega
      simp [setValue, twos, h1, h2]
    · have : (i + 18446744073709551616).toNat < 18446744073709551616 := by omega
      simp only [getValue, nat64_be64 _ this]
      have : ¬ (i + 18446744073709551616).toNat < 9223372036854775808 := by omega
      simp [this]; omega

theorem C01_integer64_reject (tc : TimeConsts) (i : Int)
    (h : ¬ (-9223372036854775808 ≤ i ∧ i < 9223372036854775808)) :
    setValue tc .integer64 (.int i) = .error .avpEncode := by
  have h1 : ¬ (0 ≤ i ∧ i < 9223372036854775808) := by omega
  have h2 : ¬ (-9223372036854775808 ≤ i ∧ i < 0) := by omega
  simp [setValue, twos, h1, h2]

theorem C01_unsigned64_roundtrip (tc : TimeConsts) (g : Bool) (i : Int)
    (h : 0 ≤ i ∧ i < 18446744073709551616) :
    ∃ p, setValue tc .unsigned64 (.int i) = .ok p ∧ p.length = 8 ∧
      getValue tc g .unsigned64 p = .ok (.int i) := by
  refine ⟨be64 i.toNat, by simp [setValue, h], rfl, ?_⟩
  have : i.toNat < 18446744073709551616 := by omega
  simp only [getValue, nat64_be64 _ this]; congr 2; omega

theorem C01_unsigned64_reject (tc : TimeConsts) (i : Int) (h : ¬ (0 ≤ i ∧ i < 18446744073709551616)) :
    setValue tc .unsigned64 (.int i) = .error .avpEncode := by
  simp [setValue, h]

/-- Floats are carried as their IEEE 754 bit patterns (bitwise comparison). -/
theorem C01_float32_roundtrip (tc : TimeConsts) (g : Bool) (n : Nat) (h : n < 4294967296) :
    setValue tc .float32 (.f32 n) = .ok (be32 n) ∧ getValue tc g .float32 (be32 n) = .ok (.f32 n) := by
  simp [setValue, getValue, nat32_be32 _ h]

theorem C01_float64_roundtrip (tc : TimeConsts) (g : Bool) (n : Nat) (h : n < 18446744073709551616) :
    setValue tc .float64 (.f64 n) = .ok (be64 n) ∧ getValue tc g .float64 (be64 n) = .ok (.f64 n) := by
  simp [setValue, getValue, nat64_be64 _ h]

theorem C01_octetstring_roundtrip (tc : TimeConsts) (g : Bool) (b : Bytes) :
    setValue tc .octetString (.bytes b) = .ok b ∧ getValue tc g .octetString b = .ok (.bytes b) := by
  simp [setValue, getValue]

theorem C01_utf8_roundtrip (tc : TimeConsts) (g : Bool) (s : Bytes) (h : validUtf8 s = true) :
    setValue tc .utf8String (.str s) = .ok s ∧ getValue tc g .utf8String s = .ok (.str s) := by
  simp [setValue, getValue, h]

/-- The constants RFC 6733 §4.3.1 / RFC 5905 prescribe for the Time codec. -/
def rfcTime : TimeConsts := { since1900 := 2208988800, overflowTs := 2085978496, cutoff := 2147483648 }

/-- Time: for every whole second of the documented window the payload is the
    32-bit NTP seconds value of that instant (era 0 before 2036-02-07T06:28:16Z,
    era 1 after), and decoding returns the instant. -/
theorem C01_time_layout_roundtrip (g : Bool) (t : Int) (h : timeInDomain t) :
    setValue rfcTime .time (.time t) = .ok (be32 (ntpSeconds t).toNat) ∧
    getValue rfcTime g .time (be32 (ntpSeconds t).toNat) = .ok (.time t) := by
  obtain ⟨h1, h2⟩ := h
  have c1 : ((2085978496 : Nat) : Int) = 2085978496 := rfl
  have c2 : ((2208988800 : Nat) : Int) = 2208988800 := rfl
  simp only [setValue, getValue, rfcTime, ntpSeconds, c1, c2]
  by_cases hc : t < 2085978496
  · have e : (t + 2208988800) % 4294967296 = t + 2208988800 := by omega
    have r : 0 ≤ t + 2208988800 ∧ t + 2208988800 < 4294967296 := by omega
    have q : (t + 2208988800).toNat < 4294967296 := by omega
    have q2 : ¬ ((t + 2208988800).toNat < 2147483648) := by omega
    rw [if_pos hc, if_pos r, e, nat32_be32 _ q]
    refine ⟨rfl, ?_⟩
    simp only [if_neg q2]
    congr 2; omega
  · have e : (t + 2208988800) % 4294967296 = t - 2085978496 := by omega
    have r : 0 ≤ t - 2085978496 ∧ t - 2085978496 < 4294967296 := by omega
    have q : (t - 2085978496).toNat < 4294967296 := by omega
    have q2 : (t - 2085978496).toNat < 2147483648 := by omega
    rw [if_neg hc, if_pos r, e, nat32_be32 _ q]
    refine ⟨rfl, ?_⟩
    simp only [if_pos q2]
    congr 2; omega

/-- FULL STATEMENT (property): a datetime outside the documented window is
    rejected.  False of the modelled code for instants whose shifted value
    still fits 32 bits (they wrap into the other era): see
    `C01_time_reject_counterexample`; what holds is `C01_time_reject_partial`. -/
def C01_time_reject_statement : Prop :=
  ∀ t : Int, ¬ timeInDomain t → setValue rfcTime .time (.time t) = .error .avpEncode

theorem C01_time_reject_counterexample : ¬ C01_time_reject_statement := by
  intro h
  have := h (-315619200) (by unfold timeInDomain; omega)   -- 1960-01-01T00:00:00Z
  simp [setValue, rfcTime] at this

/-- What the code does guarantee: instants whose NTP value does not fit the
    32-bit field in either era are rejected (before 1900, from 2172 on). -/
theorem C01_time_reject_partial (t : Int) (h : t < -2208988800 ∨ 2085978496 + 4294967296 ≤ t) :
    setValue rfcTime .time (.time t) = .error .avpEncode := by
  have c1 : ((2085978496 : Nat) : Int) = 2085978496 := rfl
  have c2 : ((2208988800 : Nat) : Int) = 2208988800 := rfl
  simp only [setValue, rfcTime, c1, c2]
  rcases h with h | h
  · have hc : t < 2085978496 := by omega
    have r : ¬ (0 ≤ t + 2208988800 ∧ t + 2208988800 < 4294967296) := by omega
    rw [if_pos hc, if_neg r]
  · have hc : ¬ t < 2085978496 := by omega
    have r : ¬ (0 ≤ t - 2085978496 ∧ t - 2085978496 < 4294967296) := by omega
    rw [if_neg hc, if_neg r]

/-- Address: family prefix (IANA address family numbers 1, 2, 8) + data. -/
theorem C01_address_roundtrip (tc : TimeConsts) (g : Bool) (fam : Nat) (raw : Bytes)
    (h : (fam = 1 ∧ raw.length = 4) ∨ (fam = 2 ∧ raw.length = 16) ∨ (fam = 8 ∧ validUtf8 raw = true)) :
    setValue tc .address (.addr fam raw) = .ok (be16 fam ++ raw) ∧
    getValue tc g .address (be16 fam ++ raw) = .ok (.addr fam raw) := by
  rcases h with ⟨rfl, hl⟩ | ⟨rfl, hl⟩ | ⟨rfl, hl⟩ <;>
    simp [setValue, getValue, be16, hl, UInt8.toNat_ofNat']

/-- A value of the wrong Python type for the AVP type is an encode error. -/
theorem C01_wrong_type_rejected (tc : TimeConsts) (b : Bytes) :
    setValue tc .integer32 (.bytes b) = .error .avpEncode ∧
    setValue tc .utf8String (.int 5) = .error .avpEncode ∧
    setValue tc .time (.str b) = .error .avpEncode := by
  simp [setValue]

/-- Non-vacuity: a concrete vendor AVP with unaligned payload meets `AvpWF`. -/
example : AvpWF { code := 1, vendor := 10415, flags := 0xC0, payload := [1, 2, 3, 4, 5] } := by
  constructor <;> simp [Avp.length]

example : timeInDomain 2085978496 ∧ timeInDomain (-61505152) := by
  unfold timeInDomain; omega

end DV
