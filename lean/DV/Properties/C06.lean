/-
  C06 — Capabilities exchange gates all traffic and yields the specified outcome.
-/
import DV.Proofs.NodeQ
namespace DV.Node

/-- the CE message a connection in `CONNECTED` is waiting for -/
def expectedCE (c : Conn) (m : AMsg) : Bool :=
  m.cmd == 257 && (if c.dir == .recv then m.isRequest else !m.isRequest)

/-- **Gate.** A connection that is connecting, closing or closed, or that is
    connected and receives anything but the capabilities-exchange message of the
    expected direction, processes nothing: the whole node state — queues,
    tables, application calls, outputs — is unchanged.  For every state, every
    message and every class information. -/
theorem C06_gate (s : St) (cid : Nat) (c : Conn) (m : AMsg) (info : MsgInfo)
    (hk : Config.gateClosing = true) (hc : s.conn? cid = some c)
    (hs : c.state = .connecting ∨ c.state = .closing ∨ c.state = .closed ∨
          (c.state = .connected ∧ expectedCE c m = false)) :
    dispatchMessage s cid m info = s := by
  unfold dispatchMessage
  simp only [hc, hk, Bool.true_and]
  rcases hs with h | h | h | ⟨h, he⟩
  · simp [h]
  · simp [h]
  · simp [h]
  · simp only [h, beq_self_eq_true, if_true]
    unfold expectedCE at he
    by_cases h257 : (m.cmd != 257) = true
    · simp [h257]
    · have : (m.cmd == 257) = true := by simpa using h257
      simp only [this, Bool.true_and] at he
      simp only [h257, Bool.false_eq_true, if_false]
      cases hd : c.dir with
      | recv =>
        simp only [hd, beq_self_eq_true, if_true] at he
        simp [he]
      | send =>
        have hne : (Dir.send == Dir.recv) = false := by decide
        simp only [hd, hne, Bool.false_eq_true, if_false, Bool.not_eq_false'] at he
        simp [he, hne]

/-- Only the two capabilities-exchange handlers make a connection ready:
    every other branch of the command switch leaves a non-ready connection
    non-ready is covered by `C06_gate` (nothing else runs before success). The
    CER handler's outcome table: -/
theorem C06_cer_unknown_peer (s : St) (cid : Nat) (m : AMsg) (info : MsgInfo) (host : String)
    (ho : m.oh = some host) (hp : peerIdx? s host.toLower = none) :
    receiveCer s cid m info =
      (let ans := { generateAnswer s m info none with cea := ceaSummary s, rc := some 3010 }
       let s1 := s.modConn cid fun c => { c with state := .closing }
       let r := sendMessage s1 cid ans true
       (r.1, if r.2 then none else some Exn.typeError)) := by
  simp [receiveCer, ho, hp]

/-- The timeout clause of the repaired `_check_timers`: a connected inbound
    connection whose exchange has not succeeded is closed with reason
    FAILED_CONNECT_CE at the first timer check later than `established +
    timeout`, whatever has been read on it in between. -/
theorem C06_timeout_inbound (s : St) (cid : Nat) (c : Conn)
    (hk : Config.ceTimeoutFromEstablished = true)
    (hstop : s.stopping = false) (hc : s.conn? cid = some c) (hst : c.state = .connected)
    (hdir : c.dir = .recv) (hp : findConnectionPeer s c = none)
    (hlate : s.now - c.established > s.cfg.cer) :
    checkTimers s cid = closeConnectionSocket s cid .failCe := by
  have hne : (Dir.recv == Dir.send) = false := by decide
  have hb : Nat.blt s.cfg.cer (s.now - c.established) = true := by
    rw [Nat.blt_eq]; exact hlate
  simp [checkTimers, hstop, hc, hst, hdir, hp, hk, hne, hb, effTimer]

theorem C06_config : Config.gateClosing = true ∧ Config.ceTimeoutFromEstablished = true := ⟨rfl, rfl⟩

end DV.Node
