/-
  C10 — Requests go only to eligible ready peers; answers return to their sender.
-/
import DV.Proofs.NodeQ
import DV.Proofs.GenSeq
namespace DV.Node

/-- Hop-by-hop / end-to-end identifiers drawn from a generator are never zero
    and stay within 32 bits, for every generator state. -/
theorem C10_id_nonzero (cur : Nat) (h : cur ≤ 0xffffffff) : 1 ≤ seqNext cur ∧ seqNext cur ≤ 0xffffffff := by
  unfold seqNext
  split
  · decide
  · rename_i hne
    have : cur ≠ 0xffffffff := by simpa using hne
    omega

/-- the node's per-connection counter is the generator of C16 with the 32-bit maximum -/
theorem seqNext_eq_nextSeq (cur : Nat) : seqNext cur = DV.Gens.nextSeq 0xffffffff cur := rfl

/-- the hop-by-hop id the `k`-th request routed over a connection leaves with, from the counter state `s` -/
def nthId (s : Nat) : Nat → Nat
  | 0 => s
  | k + 1 => seqNext (nthId s k)

theorem nthId_eq_iter (s k : Nat) : nthId s k = DV.Gens.iter 0xffffffff k s := by
  induction k with
  | zero => rfl
  | succ k ih => simp [nthId, DV.Gens.iter, ih, seqNext_eq_nextSeq]

/-- **Unique among the requests outstanding on the connection**: the ids of any two different requests sent over one
    connection differ as long as fewer than 2^32 − 1 requests were sent between them — whatever the counter's state,
    however many of them are still outstanding. -/
theorem C10_ids_distinct_on_connection (s : Nat) (h1 : 1 ≤ s) (h2 : s ≤ 0xffffffff) (i j : Nat) (hij : i < j)
    (hw : j < i + 0xffffffff) : nthId s i ≠ nthId s j := by
  rw [nthId_eq_iter, nthId_eq_iter]
  exact DV.Gens.iter_distinct 0xffffffff s h1 h2 i j hij hw

/-- No configured / default peer list for the realm ⇒ not-routable, nothing is
    sent (the state is returned unchanged by the caller). -/
theorem C10_no_route (s : St) (ai : Nat) (m : AMsg) (info : MsgInfo) (realm : String)
    (hdr : info.hasDR = true) (hm : m.dr = some realm) (hl : peerListFor s ai realm = none) :
    routeRequest s ai m info = .error .notRoutable := by
  simp [routeRequest, hdr, hm, hl]

/-- None of the listed peers has a ready connection ⇒ not-routable. -/
theorem C10_none_ready (s : St) (ai : Nat) (m : AMsg) (info : MsgInfo) (realm : String) (ps : List Nat)
    (hdr : info.hasDR = true) (hm : m.dr = some realm) (hl : peerListFor s ai realm = some ps)
    (hu : ps.filter (peerUsable s) = []) :
    routeRequest s ai m info = .error .notRoutable := by
  unfold routeRequest
  simp only [hdr, if_true, hm, hl]
  cases ps with
  | nil => rfl
  | cons a b => simp only [hu]

/-- **Eligibility.** Whatever connection `route_request` picks belongs to a peer
    of the application's list for the realm (else the realm's defaults) whose
    connection is in a ready state — the selection is made among exactly the
    usable members of that list. -/
theorem C10_eligible (s s' : St) (ai : Nat) (m m' : AMsg) (info : MsgInfo) (realm : String) (cid : Nat)
    (hdr : info.hasDR = true) (hm : m.dr = some realm)
    (hr : routeRequest s ai m info = .ok (s', cid, m')) :
    ∃ ps first rest, peerListFor s ai realm = some ps ∧ ps.filter (peerUsable s) = first :: rest ∧
      ((s.peers[leastUsed s first (first :: rest)]?).bind (·.connection)) = some cid := by
  unfold routeRequest at hr
  simp only [hdr, if_true, hm] at hr
  cases hl : peerListFor s ai realm with
  | none => simp [hl] at hr
  | some ps =>
    simp only [hl] at hr
    cases ps with
    | nil => simp at hr
    | cons a b =>
      simp only at hr
      cases hu : (a :: b).filter (peerUsable s) with
      | nil => simp [hu] at hr
      | cons first rest =>
        simp only [hu] at hr
        cases hc : (s.peers[leastUsed s first (first :: rest)]?).bind (·.connection) with
        | none => simp [hc] at hr
        | some k =>
          simp only [hc] at hr
          cases hk : s.conn? k with
          | none => simp [hk] at hr
          | some c =>
            simp only [hk, Except.ok.injEq, Prod.mk.injEq] at hr
            refine ⟨a :: b, first, rest, rfl, hu, ?_⟩
            rw [hr.2.1] at hc
            exact hc

end DV.Node
