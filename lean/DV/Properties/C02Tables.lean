/-
  C02 obligations about the regenerated class graph / registry, and the typed
  decode header theorem instantiated with them.
-/
import DV.Properties.C02
import DV.Model.Decode
import DV.Proofs.Decode
import DV.Generated.Commands
import DV.Generated.Constants
namespace DV

/-- For every registered code and both values of the R bit, the class chosen by
    `Message.from_bytes` carries that code, derives from the registered class,
    and does not contradict the R bit. -/
theorem C02_dispatch :
    registryDispatchOK Gen.msgClasses Gen.registry Gen.clsUndefinedMessage = true := by decide +kernel

/-- No two command classes share a command code (the registry comprehension
    would silently drop one) and every registry entry carries its key's code. -/
theorem C02_registry_unique :
    registryComplete Gen.msgClasses Gen.registry
      [Gen.clsMessage, Gen.clsDefinedMessage, Gen.clsUndefinedMessage] = true := by decide +kernel

/-- Constructors only ever touch the R and P bits of the flag octet and never
    the version / application / identifiers (observed over all 256 octets by the
    translator; mask pair checked here). -/
theorem C02_ctor_masks :
    (Gen.msgClasses.all fun c => c.andMask &&& 0x3f == 0x3f && c.orMask &&& 0x3f == 0) = true := by
  decide +kernel

theorem C02_forced_code : forcedCodeOK Gen.msgClasses Gen.registry Gen.clsUndefinedMessage = true := by
  decide +kernel

theorem C02_header_flag_constants :
    Gen.hdrFlagR = 0x80 ∧ Gen.hdrFlagP = 0x40 ∧ Gen.hdrFlagE = 0x20 ∧ Gen.hdrFlagT = 0x10 := by decide

/-- Typed (and plain) decode returns the header fields of the wire, field for
    field: generic in the class tables, under the table fact `forcedCodeOK`. -/
theorem C02_fields_exact (env : Env)
    (hk : Config.decodeKeepsFlags = true)
    (hf : forcedCodeOK env.msgClasses env.registry env.clsUndefined = true)
    (buf : Bytes) (plain : Bool) (d : Decoded) (h : Header)
    (hd : decodeMsg env buf plain = .ok d) (hh : decodeHeader buf = .ok h) :
    d.header = h := by
  unfold decodeMsg at hd
  simp only [hh] at hd
  cases ha : decodeAvps buf 20 with
  | error e => simp [ha] at hd
  | ok avps =>
    simp only [ha] at hd
    obtain ⟨mc, hmc, hdh⟩ := Decoded.header_construct env _ h avps _ d hd
    rw [hdh]
    simp only [decodedHeader, hk, if_true, MsgClass.applyHeader]
    suffices hcode : mc.forcesCode = true → mc.code = h.code by
      cases h; simp only [Header.mk.injEq, true_and]
      by_cases hfc : mc.forcesCode = true
      · simp [hfc, hcode hfc]
      · simp [hfc]
    intro hfc
    simp only [forcedCodeOK, Bool.and_eq_true, List.all_eq_true] at hf
    obtain ⟨hu, hreg⟩ := hf
    unfold chooseClass at hmc
    cases hl : lookupCommand env.registry h.code with
    | none =>
      simp only [hl] at hmc
      simp only [hmc, Bool.not_eq_true'] at hu
      rw [hu] at hfc; cases hfc
    | some cid =>
      simp only [hl] at hmc
      have hmem := lookupCommand_mem _ _ _ hl
      have hp := hreg _ hmem
      simp only [Bool.and_eq_true, List.all_eq_true] at hp
      obtain ⟨hp1, hpr⟩ := hp
      have hp2 := hpr true (by simp)
      have hp3 := hpr false (by simp)
      by_cases hpl : plain = true
      · simp only [hpl, if_true] at hmc
        simp only [hmc, beq_iff_eq] at hp1
        exact hp1
      · simp only [hpl, Bool.false_eq_true, if_false] at hmc
        cases hr : decide (h.flags &&& 0x80 ≠ 0) with
        | true =>
          rw [hr] at hmc
          simp only [hmc, beq_iff_eq] at hp2; exact hp2
        | false =>
          rw [hr] at hmc
          simp only [hmc, beq_iff_eq] at hp3; exact hp3

/-- …instantiated with the tables of the current working tree. -/
theorem C02_fields_exact_repo :
    Config.decodeKeepsFlags = true ∧
    forcedCodeOK Gen.msgClasses Gen.registry Gen.clsUndefinedMessage = true :=
  ⟨rfl, C02_forced_code⟩

end DV
