/-
  C16 obligations on the regenerated skeletons: both generator methods have the
  locked shape (update and read under the lock, then only locals), with the
  documented constants — so the theorems of C16.lean apply to the code that
  exists.
-/
import DV.Properties.C16
import DV.Generated.Threads
namespace DV.Gens

theorem C16_programs : Gen.seqProgram = lockedProg 0 ∧ Gen.sessProgram = lockedProg 2 := by decide

theorem C16_constants : Gen.seqMin = 1 ∧ Gen.seqMax = 0xffffffff ∧ Gen.sessMin = 1 ∧
    Gen.sessMax = 0xffffffffffffffff := by decide

/-- `SequenceGenerator.next_sequence` as it is in the source, under every schedule. -/
theorem C16_sequence_generator (s0 nthreads : Nat) (sched : List Nat) (h1 : 1 ≤ s0) (h2 : s0 ≤ Gen.seqMax)
    (hw : (runSched Gen.seqMax Gen.seqProgram (initGS s0 nthreads) sched).n ≤ Gen.seqMax) :
    (runSched Gen.seqMax Gen.seqProgram (initGS s0 nthreads) sched).issued.Nodup ∧
    ∀ v ∈ (runSched Gen.seqMax Gen.seqProgram (initGS s0 nthreads) sched).issued, 1 ≤ v ∧ v ≤ Gen.seqMax := by
  rw [C16_programs.1] at hw ⊢
  exact C16_concurrent_distinct Gen.seqMax 0 s0 nthreads sched h1 h2 hw

/-- `SessionGenerator.next_id` as it is in the source, under every schedule. -/
theorem C16_session_generator (s0 nthreads : Nat) (sched : List Nat) (h1 : 1 ≤ s0) (h2 : s0 ≤ Gen.sessMax)
    (hw : (runSched Gen.sessMax Gen.sessProgram (initGS s0 nthreads) sched).n ≤ Gen.sessMax) :
    (runSched Gen.sessMax Gen.sessProgram (initGS s0 nthreads) sched).issued.Nodup ∧
    ∀ v ∈ (runSched Gen.sessMax Gen.sessProgram (initGS s0 nthreads) sched).issued, 1 ≤ v ∧ v ≤ Gen.sessMax := by
  rw [C16_programs.2] at hw ⊢
  exact C16_concurrent_distinct Gen.sessMax 2 s0 nthreads sched h1 h2 hw

end DV.Gens
