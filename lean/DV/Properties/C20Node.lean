/-
  C20 — "answers generated through a node or application additionally carry the
  local Origin-Host and Origin-Realm and copy Session-Id … from the request":
  `Node._generate_answer` / `Application.generate_answer` as modelled by
  `generateAnswer`, for every node state, request and class information.

  * The answer of a command whose answer class is a typed command carries the
    node's Origin-Host and Origin-Realm and the requested Result-Code; it carries
    the request's Session-Id exactly when both classes declare one.
  * The answer of a command *without* a typed answer class carries none of them —
    the attributes the helpers assign are never encoded: the recorded finding
    `helper_answer_untyped_no_avps` (known_findings.txt), stated here as the
    theorem it is of the model.
  * In both cases the header mirrors the request (`C07_answer_mirrors`).

  (Proxy-Info is not a field of the abstract message; the codec-level check
  `harness/c20.py` compares it on the real objects.)
-/
import DV.Model.NodeLoop
namespace DV.Node

theorem C20_helper_answer_carries_identity (s : St) (m : AMsg) (info : MsgInfo) (rc : Option Nat) (fa : List Nat)
    (ht : info.ansTyped = true) :
    let a := generateAnswer s m info rc fa
    a.oh = some s.cfg.host ∧ a.orr = some s.cfg.realm ∧ a.rc = rc ∧
    (a.sid = if info.hasSID && info.ansHasSID then m.sid else none) ∧
    (a.fa = if info.ansHasFA then fa else []) := by
  unfold generateAnswer
  simp [ht]

/-- the recorded finding K5, as a theorem of the model -/
theorem C20_helper_answer_untyped_carries_nothing (s : St) (m : AMsg) (info : MsgInfo) (rc : Option Nat) (fa : List Nat)
    (ht : info.ansTyped = false) :
    let a := generateAnswer s m info rc fa
    a.oh = none ∧ a.orr = none ∧ a.rc = none ∧ a.sid = none ∧ a.fa = [] ∧ a.present = [] := by
  unfold generateAnswer
  simp [ht]

end DV.Node
