/-
  C19 — "the per-transaction state the node keeps (requests awaiting an
  application's answer, … duplicate-detection … records) is released when the
  transaction completes": `send_message` of an *answer*, for every state —
  afterwards the answer's hop-by-hop id is booked on that connection no more
  (`_peer_waiting_answer`), and no record of the request's origin is left under
  the key of that (connection, hop-by-hop id, end-to-end id)
  (`_origin_waiting_answer`), whether or not `_record_answer` raised.
-/
import DV.Model.NodeLoop
namespace DV.Node

theorem recordAnswerState_peerWaiting (s : St) (cid : Nat) (m : AMsg) :
    (recordAnswerState s cid m).peerWaiting = s.peerWaiting := by
  unfold recordAnswerState
  repeat (first | rfl | split | dsimp only)

theorem recordAnswerState_origin (s : St) (cid : Nat) (m : AMsg) :
    ∀ k ∈ (recordAnswerState s cid m).originWaiting, (k.1 == originKey cid m) = false := by
  unfold recordAnswerState
  dsimp only
  split
  · rename_i hnone
    intro k hk
    have := List.find?_eq_none.mp hnone k hk
    simpa using this
  · dsimp only
    intro k hk
    have hk' : k ∈ s.originWaiting.filter (·.1 != originKey cid m) := by
      revert hk
      split <;> exact id
    have := (List.mem_filter.mp hk').2
    simpa using this

/-- **An answer releases the transaction's records.** -/
theorem C19_answer_releases_transaction_state (s : St) (cid : Nat) (c : Conn) (a : AMsg) (b : Bool)
    (hc : s.conn? cid = some c) (ha : a.isRequest = false) :
    (∀ p ∈ (sendMessage s cid a b).1.peerWaiting, p.1 = cid → a.hbh ∉ p.2) ∧
    (∀ k ∈ (sendMessage s cid a b).1.originWaiting, (k.1 == originKey cid a) = false) := by
  unfold sendMessage
  simp only [hc, ha, Bool.not_false, if_true]
  constructor
  · rw [recordAnswerState_peerWaiting]
    intro p hp hid
    show a.hbh ∉ p.2
    have hp' : p ∈ s.peerWaiting.map fun (x : Nat × List Nat) => if x.1 == cid then (x.1, x.2.filter (· != a.hbh)) else (x.1, x.2) := hp
    simp only [List.mem_map] at hp'
    obtain ⟨q, _, rfl⟩ := hp'
    by_cases h : (q.1 == cid) = true
    · simp [h]
    · simp only [h] at hid
      exact absurd (by simpa using hid) h
  · exact recordAnswerState_origin _ _ _

end DV.Node
