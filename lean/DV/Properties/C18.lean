/-
  C18 — Graceful shutdown (serialised model; the race between `stop()` and the
  I/O thread on `node.connections`, and `join` timing, are runtime behaviour:
  see DESIGN §9).
-/
import DV.Proofs.NodeQ
namespace DV.Node

/-- While stopping, a new connection is refused: it is closed and enters none
    of the node's tables. -/
theorem C18_refuse_newcomers (s : St) (c : Conn) (h : s.stopping = true) :
    (addPeerConnection s c).2 = false ∧
    (addPeerConnection s c).1.connections = s.connections ∧
    (addPeerConnection s c).1.peerSockets = s.peerSockets := by
  simp [addPeerConnection, h, St.modConn]

/-- A forced stop only raises the stopping flag (no DPR). -/
theorem C18_force (s : St) : stopBegin s true = { s with stopping := true } := by
  simp [stopBegin]

/-- A graceful stop raises the flag and considers exactly the registered
    connections, sending a DPR to those in a ready state. -/
theorem C18_begin (s : St) :
    stopBegin s false = s.connections.foldl (fun s cid =>
      match s.conn? cid with
      | some c => if c.state.isReady then sendDpr s cid else s
      | none => s) { s with stopping := true } := by
  simp only [stopBegin, Bool.false_eq_true, if_false]
  rfl

/-- No watchdogs and no dialling while stopping (from C11 / C12). -/
theorem C18_quiet_while_stopping (s : St) (cid : Nat) (h : s.stopping = true) :
    checkTimers s cid = s ∧ reconnectPeers s = s := by
  constructor
  · simp [checkTimers, h]
  · simp [reconnectPeers, h]

end DV.Node
