/-
  C11 — the watchdog cannot get stuck, over whole histories.  For every
  sequence of operations of the node model, in every state reached: a
  connection in state READY_WAITING_DWA carries the time stamp of the DWR it is
  waiting on, `0 < lastDwr ≤ now` — the state is entered in `send_dwr` only,
  which stamps the connection in the same step, and nothing clears the stamp
  without leaving the state.  Together with the timer-check clause `C11_waiting`
  this gives: in every reachable state, a connection that has awaited its DWA
  for longer than the (peer's or node's) DWA timeout is closed with the
  watchdog-timeout reason by the next timer check, and no second DWR is sent
  while it waits.
-/
import DV.Proofs.NodeWdogInv
import DV.Properties.C11
namespace DV.Node

theorem conn?_mem {s : St} {cid : Nat} {c : Conn} (h : s.conn? cid = some c) : c ∈ s.conns := by
  unfold St.conn? at h
  exact List.mem_of_find?_eq_some h

theorem w_applyOp (infoOf : AMsg → MsgInfo) (w : World) (o : Op) (h : WdInv w.st) : WdInv (applyOp infoOf w o).st := by
  cases o with
  | start plan =>
    simp only [applyOp]
    apply w_foldl
    · intro s a hs
      repeat (first | exact hs | exact w_connectToPeer s a hs | split)
    · exact w_of_conns rfl rfl h
  | accept => exact w_ioIteration { w with acceptQ := w.acceptQ + 1 } h
  | rx cid e => simp only [applyOp, pushRx]; repeat (first | exact h | split)
  | wr cid evs => simp only [applyOp]; repeat (first | exact h | split | dsimp only)
  | block cid b => simp only [applyOp]; split <;> exact h
  | sethbh cid v => exact w_modConn _ _ _ (by tamew) h
  | anon cid => exact w_modConn _ _ _ (by tamew) h
  | dial plan => exact w_of_conns rfl rfl h
  | conn cid ok => exact w_of_conns rfl rfl h
  | adv dt => exact w_advance _ dt h
  | io => exact w_ioIteration w h
  | pump => exact w_pumpAll infoOf _ h
  | settle n => exact w_settle infoOf n w h
  | hold ai v => exact h
  | outcome ai o => exact h
  | handler k => exact w_runHandler infoOf _ k h
  | ans ai req rc => exact w_appSendAnswer _ _ _ _ _ h
  | reqBegin ai m => exact w_appSendRequestBegin _ _ _ _ h
  | reqEnd ai hbh t =>
    simp only [applyOp]
    split
    · exact w_of_conns rfl rfl h
    · exact w_of_conns rfl rfl (w_advance _ t (w_of_conns rfl rfl h))
  | stopBegin f => exact w_stopBegin _ _ h
  | stopFinal => exact w_stopFinal _ h
  | note o => exact h
  | flush => exact w_of_conns rfl rfl h

/-- **Every reachable state**: the clock is positive and every connection awaiting a DWA carries a DWR stamp
    that is set and not in the future. -/
theorem C11_dwr_stamp_invariant (infoOf : AMsg → MsgInfo) (w : World) (ops : List Op) (h : WdInv w.st) :
    WdInv (run infoOf w ops).st := by
  unfold run
  induction ops generalizing w with
  | nil => exact h
  | cons o ops ih => exact ih _ (w_applyOp infoOf w o h)

/-- **The watchdog cannot get stuck.** After any history: if connection `cid` awaits its DWA, the node is
    not stopping, and the DWA timeout (the peer's value if it has one, else the node's) has been exceeded
    since the DWR was sent, then the timer check closes the connection with the watchdog-timeout reason. -/
theorem C11_waiting_connection_is_closed_on_timeout (infoOf : AMsg → MsgInfo) (w : World) (ops : List Op) (h : WdInv w.st)
    (cid : Nat) (c : Conn) (hc : (run infoOf w ops).st.conn? cid = some c) (hst : c.state = .waitDwa)
    (hstop : (run infoOf w ops).st.stopping = false)
    (hlate : effTimer (((findConnectionPeer (run infoOf w ops).st c).bind (fun i => (run infoOf w ops).st.peers[i]?)).bind
        (fun p => p.dwaTo)) (run infoOf w ops).st.cfg.dwa < (run infoOf w ops).st.now - c.lastDwr) :
    checkTimers (run infoOf w ops).st cid = closeConnectionSocket (run infoOf w ops).st cid .dwaTo := by
  have hinv := C11_dwr_stamp_invariant infoOf w ops h
  generalize (run infoOf w ops).st = s at *
  have hpos : 0 < c.lastDwr := (hinv.2 c (conn?_mem hc) hst).1
  rw [C11_waiting s cid c hstop hc hst]
  have hb : Nat.blt (effTimer (((findConnectionPeer s c).bind (fun i => s.peers[i]?)).bind (fun p => p.dwaTo)) s.cfg.dwa)
      (if c.lastDwr > 0 then s.now - c.lastDwr else 0) = true := by
    rw [Nat.blt_eq]
    simp only [hpos, if_true, gt_iff_lt]
    exact hlate
  rw [hb]; rfl

/-- …and while it waits within the timeout nothing is sent or closed: no second DWR. -/
theorem C11_waiting_connection_is_left_alone_within_timeout (infoOf : AMsg → MsgInfo) (w : World) (ops : List Op) (h : WdInv w.st)
    (cid : Nat) (c : Conn) (hc : (run infoOf w ops).st.conn? cid = some c) (hst : c.state = .waitDwa)
    (hstop : (run infoOf w ops).st.stopping = false)
    (hin : (run infoOf w ops).st.now - c.lastDwr ≤ effTimer (((findConnectionPeer (run infoOf w ops).st c).bind
        (fun i => (run infoOf w ops).st.peers[i]?)).bind (fun p => p.dwaTo)) (run infoOf w ops).st.cfg.dwa) :
    checkTimers (run infoOf w ops).st cid = (run infoOf w ops).st := by
  have hinv := C11_dwr_stamp_invariant infoOf w ops h
  generalize (run infoOf w ops).st = s at *
  have hpos : 0 < c.lastDwr := (hinv.2 c (conn?_mem hc) hst).1
  rw [C11_waiting s cid c hstop hc hst]
  have hb : Nat.blt (effTimer (((findConnectionPeer s c).bind (fun i => s.peers[i]?)).bind (fun p => p.dwaTo)) s.cfg.dwa)
      (if c.lastDwr > 0 then s.now - c.lastDwr else 0) = false := by
    cases hbb : Nat.blt _ _ with
    | false => rfl
    | true =>
      rw [Nat.blt_eq] at hbb
      simp only [hpos, if_true, gt_iff_lt] at hbb
      omega
  rw [hb]; rfl

/-- the premise is met by a node without connections whose clock shows a positive time -/
example : WdInv ({ (default : St) with now := 1000, conns := [] }) := ⟨by decide, fun c hc => absurd hc (List.not_mem_nil)⟩

end DV.Node
