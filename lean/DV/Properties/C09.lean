/-
  C09 — Application answers go only to the requesting connection, at most once.

  Pending answers are booked per connection (`_peer_waiting_answer[conn.ident]`,
  repaired code); `route_answer` looks the hop-by-hop id up across connections.
-/
import DV.Proofs.NodeQ
namespace DV.Node

/-- Whatever `route_answer` returns is a registered, ready connection that has
    an unanswered request with the answer's hop-by-hop id booked on it. -/
theorem C09_routed_conn (s s' : St) (m : AMsg) (cid : Nat) (h : routeAnswer s m = .ok (s', cid)) :
    ∃ c l, (cid, l) ∈ s.peerWaiting ∧ l.contains m.hbh = true ∧ s.conn? cid = some c ∧ c.id = cid ∧
      c.state.isReady = true ∧ cid ∈ s.connections := by
  unfold routeAnswer at h
  split at h
  · simp at h
  · rename_i wc l hfind
    dsimp only at h
    split at h
    · simp at h
    · rename_i hreg
      split at h
      · simp at h
      · rename_i c hc
        split at h
        · rename_i hready
          simp only [Except.ok.injEq, Prod.mk.injEq] at h
          obtain ⟨rfl, rfl⟩ := h
          have hmem := List.mem_of_find?_eq_some hfind
          have hp := List.find?_some hfind
          have hcid : c.id = wc := by
            have := List.find?_some hc
            simpa using this
          have hreg' : wc ∈ s.connections := by simpa using hreg
          rw [hcid]
          exact ⟨c, l, hmem, hp, hc, hcid, hready, hreg'⟩
        · simp at h

/-- After routing, the hop-by-hop id is no longer booked on that connection: a
    second answer for the same request is not routable through it. -/
theorem C09_once (s s' : St) (m : AMsg) (cid : Nat) (h : routeAnswer s m = .ok (s', cid)) :
    ∀ l, (cid, l) ∈ s'.peerWaiting → l.contains m.hbh = false := by
  unfold routeAnswer at h
  split at h
  · simp at h
  · rename_i wc l0 hfind
    dsimp only at h
    split at h
    · simp at h
    · split at h
      · simp at h
      · rename_i c hc
        split at h
        · simp only [Except.ok.injEq, Prod.mk.injEq] at h
          obtain ⟨rfl, rfl⟩ := h
          have hcid : c.id = wc := by
            have := List.find?_some hc
            simpa using this
          intro l hl
          simp only [List.mem_map] at hl
          obtain ⟨p, _, hp⟩ := hl
          by_cases hw : p.1 == wc
          · simp only [hw, if_true, Prod.mk.injEq] at hp
            rw [← hp.2]
            simp
          · have hw' : (p.1 == wc) = false := by simpa using hw
            simp only [hw', Bool.false_eq_true, if_false] at hp
            rw [hp] at hw'
            simp [hcid] at hw'
        · simp at h

/-- If the requesting connection is gone (no longer registered) the submission
    fails with the not-routable error — nothing is queued anywhere. -/
theorem C09_gone (s : St) (m : AMsg) (wc : Nat) (l : List Nat)
    (hfind : s.peerWaiting.find? (fun (p : Nat × List Nat) => p.2.contains m.hbh) = some (wc, l))
    (hgone : wc ∉ s.connections) :
    routeAnswer s m = .error .notRoutable := by
  unfold routeAnswer
  have : s.connections.contains wc = false := by simpa using hgone
  simp only [hfind]
  have h2 : ({ s with peerWaiting := s.peerWaiting.map fun (p : Nat × List Nat) =>
        if p.1 == wc then (p.1, p.2.filter (· != m.hbh)) else p } : St).connections.contains wc = false := this
  simp only [h2, Bool.not_false, if_true]

/-- A not-ready requester (e.g. after a DPR) is not-routable as well. -/
theorem C09_not_ready (s : St) (m : AMsg) (wc : Nat) (l : List Nat) (c : Conn)
    (hfind : s.peerWaiting.find? (fun (p : Nat × List Nat) => p.2.contains m.hbh) = some (wc, l))
    (hc : s.conn? wc = some c) (hnr : c.state.isReady = false) :
    routeAnswer s m = .error .notRoutable := by
  unfold routeAnswer
  simp only [hfind]
  split
  · rfl
  · have : ({ s with peerWaiting := s.peerWaiting.map fun (p : Nat × List Nat) =>
        if p.1 == wc then (p.1, p.2.filter (· != m.hbh)) else p } : St).conn? wc = some c := hc
    simp only [this, hnr, Bool.false_eq_true, if_false]

/-- FULL STATEMENT (property): the answer is queued on the connection on which
    the matching request was read.  False of the modelled code when two
    connections have unanswered requests with one hop-by-hop id — see
    `C09_route_counterexample`; `C09_routed_conn` is what holds in general, and
    when the hop-by-hop id is booked on one connection only it pins the
    connection down (`C09_route_unique`). -/
def C09_route_statement : Prop :=
  ∀ (s s' : St) (m : AMsg) (cid reqConn : Nat),
    (∃ l, (reqConn, l) ∈ s.peerWaiting ∧ l.contains m.hbh = true) →
    routeAnswer s m = .ok (s', cid) → cid = reqConn

def cexState : St :=
  { cfg := { host := "n", realm := "r", listen := true, stateId := 0 }, now := 0, peers := [], apps := [], routes := [],
    conns := [{ id := 0, dir := .recv, state := .ready, hostIdentity := "p1", lastRead := 0, hbh := 0 },
              { id := 1, dir := .recv, state := .ready, hostIdentity := "p2", lastRead := 0, hbh := 0 }],
    connections := [0, 1], peerSockets := [0, 1],
    peerWaiting := [(0, [7]), (1, [7])], e2e := 0, nextHbhSeed := 0 }

theorem C09_route_counterexample : ¬ C09_route_statement := by
  intro h
  have := h cexState
    { cexState with peerWaiting := [(0, []), (1, [7])] }
    { cmd := 272, flags := 0, app := 4, hbh := 7, e2e := 1 } 0 1
    ⟨[7], by decide, by decide⟩ (by rfl)
  exact absurd this (by decide)

/-- With the hop-by-hop id booked on one connection only (identifiers are drawn
    per connection; coinciding values on two connections are the recorded finding)
    the answer goes to exactly the connection the request arrived on. -/
theorem C09_route_unique (s s' : St) (m : AMsg) (cid reqConn : Nat) (l : List Nat)
    (_hreq : (reqConn, l) ∈ s.peerWaiting) (_hl : l.contains m.hbh = true)
    (huniq : ∀ c' l', (c', l') ∈ s.peerWaiting → l'.contains m.hbh = true → c' = reqConn)
    (h : routeAnswer s m = .ok (s', cid)) : cid = reqConn := by
  obtain ⟨c, l', hmem, hcont, _, _, _, _⟩ := C09_routed_conn s s' m cid h
  exact huniq cid l' hmem hcont

end DV.Node
