/-
  C09 — Application answers go only to the requesting connection, at most once.
-/
import DV.Proofs.NodeQ
namespace DV.Node

/-- Whatever `route_answer` returns is a live, ready connection whose host
    identity has an unanswered request with the answer's hop-by-hop id. -/
theorem C09_routed_conn (s s' : St) (m : AMsg) (cid : Nat) (h : routeAnswer s m = .ok (s', cid)) :
    ∃ c host l, (host, l) ∈ s.peerWaiting ∧ l.contains m.hbh = true ∧
      c.id = cid ∧ c.hostIdentity = host ∧ c.state.isReady = true ∧
      c ∈ (s'.connections.filterMap s'.conn?) := by
  unfold routeAnswer at h
  split at h
  · simp at h
  · rename_i host l hfind
    dsimp only at h
    split at h
    · simp at h
    · rename_i c hc
      split at h
      · rename_i hready
        simp only [Except.ok.injEq, Prod.mk.injEq] at h
        obtain ⟨rfl, rfl⟩ := h
        have hmem := List.mem_of_find?_eq_some hfind
        have hp := List.find?_some hfind
        have hmem2 := List.mem_of_find?_eq_some hc
        have hp2 := List.find?_some hc
        simp only [beq_iff_eq] at hp2
        exact ⟨c, host, l, hmem, hp, rfl, hp2, hready, hmem2⟩
      · simp at h

/-- If the requester's connection is gone (no live connection bears the host
    identity the request is booked under) the submission fails with the
    not-routable error — nothing is queued anywhere. -/
theorem C09_gone (s : St) (m : AMsg) (host : String) (l : List Nat)
    (hfind : s.peerWaiting.find? (fun (p : String × List Nat) => p.2.contains m.hbh) = some (host, l))
    (hgone : ∀ c ∈ (s.connections.filterMap s.conn?), c.hostIdentity ≠ host) :
    routeAnswer s m = .error .notRoutable := by
  unfold routeAnswer
  simp only [hfind]
  have : ((s.connections.filterMap ({ s with peerWaiting := s.peerWaiting.map fun (p : String × List Nat) =>
      if p.1 == host then (p.1, p.2.filter (· != m.hbh)) else p } : St).conn?).find?
        (fun (c : Conn) => c.hostIdentity == host)) = none := by
    rw [List.find?_eq_none]
    intro c hc
    have := hgone c hc
    simpa using this
  simp only [this]

/-- A not-ready requester (e.g. after a DPR) is not-routable as well. -/
theorem C09_not_ready (s : St) (m : AMsg) (host : String) (l : List Nat) (c : Conn)
    (hfind : s.peerWaiting.find? (fun (p : String × List Nat) => p.2.contains m.hbh) = some (host, l))
    (hc : ((s.connections.filterMap ({ s with peerWaiting := s.peerWaiting.map fun (p : String × List Nat) =>
      if p.1 == host then (p.1, p.2.filter (· != m.hbh)) else p } : St).conn?).find?
        (fun (c : Conn) => c.hostIdentity == host)) = some c)
    (hnr : c.state.isReady = false) :
    routeAnswer s m = .error .notRoutable := by
  unfold routeAnswer
  simp only [hfind, hc, hnr, Bool.false_eq_true, if_false]

/-- FULL STATEMENT (property): the answer is queued on the connection on which
    the matching request was read.  False of the modelled code when two
    connections have unanswered requests with one hop-by-hop id — see
    `C09_route_counterexample`; `C09_routed_conn` is what holds in general, and
    under the uniqueness hypothesis it pins the connection down. -/
def C09_route_statement : Prop :=
  ∀ (s s' : St) (m : AMsg) (cid reqConn : Nat) (host : String),
    (∃ c, s.conn? reqConn = some c ∧ c.hostIdentity = host ∧ reqConn ∈ s.connections) →
    (∃ l, (host, l) ∈ s.peerWaiting ∧ l.contains m.hbh = true) →
    routeAnswer s m = .ok (s', cid) → cid = reqConn

def cexState : St :=
  { cfg := { host := "n", realm := "r", listen := true, stateId := 0 }, now := 0, peers := [], apps := [], routes := [],
    conns := [{ id := 0, dir := .recv, state := .ready, hostIdentity := "p1", lastRead := 0, hbh := 0 },
              { id := 1, dir := .recv, state := .ready, hostIdentity := "p2", lastRead := 0, hbh := 0 }],
    connections := [0, 1], peerSockets := [0, 1],
    peerWaiting := [("p1", [7]), ("p2", [7])], e2e := 0, nextHbhSeed := 0 }

theorem C09_route_counterexample : ¬ C09_route_statement := by
  intro h
  have := h cexState
    { cexState with peerWaiting := [("p1", []), ("p2", [7])] }
    { cmd := 272, flags := 0, app := 4, hbh := 7, e2e := 1 } 0 1 "p2"
    ⟨_, rfl, rfl, by decide⟩ ⟨[7], by decide, by decide⟩ (by rfl)
  exact absurd this (by decide)

end DV.Node
