/-
  C11 — "… is sent exactly one DWR at the next timer check and is marked as
  awaiting the DWA": what `send_dwr` does to one connection, for every state
  (`C11_idle_dwr` says when the timer check calls it; `C11_waiting` and the
  whole-history theorems of C11Hist say that no second one follows while the
  answer is awaited).

  `send_dwr(conn)`: exactly one message is appended to the write queue of the
  connection objects with that id and to no other queue — a request with command
  code 280, the node's identity and non-zero identifiers —; a connection that was
  in a ready state is READY_WAITING_DWA afterwards (every other state is left as
  it was), and nothing reaches an application.
-/
import DV.Properties.C18Begin
namespace DV.Node

theorem C11_send_dwr (s : St) (cid : Nat) (c : Conn) (hc : s.conn? cid = some c) :
    ∃ m : AMsg, m.cmd = 280 ∧ m.isRequest = true ∧ m.oh = some s.cfg.host ∧ m.hbh ≠ 0 ∧ m.e2e ≠ 0 ∧
      (sendDwr s cid).oql = (s.oql.map fun p => if p.1 == cid then (p.1, p.2 ++ [m]) else p) ∧
      (sendDwr s cid).stv = (s.stv.map fun p => if p.1 == cid then (p.1, if p.2.isReady then CState.waitDwa else p.2) else p) ∧
      (sendDwr s cid).appRequests = s.appRequests ∧ (sendDwr s cid).tapps = s.tapps := by
  refine ⟨{ cmd := 280, flags := 0x80, app := 0, hbh := seqNext c.hbh, e2e := seqNext s.e2e,
            oh := some s.cfg.host, orr := some s.cfg.realm }, rfl, by simp [AMsg.isRequest], rfl,
          seqNext_ne_zero _, seqNext_ne_zero _, ?_, ?_, ?_, ?_⟩
  · unfold sendDwr
    simp only [hc]
    rw [oql_modConn_tame _ _ _ (by tame), oql_sendMessage]
    have : (({ s with e2e := seqNext s.e2e } : St).modConn cid fun x => { x with hbh := seqNext c.hbh }).oql = s.oql :=
      oql_modConn_tame _ _ _ (by tame)
    rw [this]
    rfl
  · unfold sendDwr
    simp only [hc]
    have h1 : ∀ s1 : St, (s1.modConn cid fun x => { x with state := if x.state.isReady then .waitDwa else x.state, lastDwr := s1.now }).stv =
        s1.stv.map fun p => if p.1 == cid then (p.1, if p.2.isReady then CState.waitDwa else p.2) else p := by
      intro s1
      simp only [St.stv, St.modConn, List.map_map]
      apply List.map_congr_left
      intro c' _
      simp only [Function.comp]
      split <;> rfl
    rw [h1, stv_sendMessage]
    have : (({ s with e2e := seqNext s.e2e } : St).modConn cid fun x => { x with hbh := seqNext c.hbh }).stv = s.stv :=
      stv_modConn_tame _ _ _ (by tame)
    rw [this]
  · unfold sendDwr
    simp only [hc]
    show (sendMessage _ _ _ _).1.appRequests = _
    rw [appRequests_sendMessage]
    rfl
  · unfold sendDwr
    simp only [hc]
    show (sendMessage _ _ _ _).1.tapps = _
    rw [tapps_sendMessage]
    rfl

end DV.Node
