/-
  C08 — "a request … is handed to that application exactly once and to no
  other", the step half: **processing one received message hands it to at most
  one application, at most once** — for every state and every message.

  `PeerConnection.__dispatch_message` → `Node._receive_message` →
  `_receive_app_request` → `Application.receive_request`: whatever the message
  and the state, after the step either nothing has been handed to any
  application, or the log of requests handed to (basic) applications'
  handlers has grown by exactly the one entry `(application, this message)`,
  or exactly one threading application's receive queue has grown by exactly
  this message — never two of these, never another message, never two
  applications.  (What the node queues *on the wire* in the same step is C07's
  `C07_one_message_per_received_message`; that nothing but requests of
  application commands ever gets there is C08Hist.)
-/
import DV.Proofs.NodeAppReq
import DV.Proofs.NodeTView
namespace DV.Node

/-- nothing delivered, or `m` delivered once: to a basic application's handler, or into one threading application's
    receive queue -/
def Dlv (m : AMsg) (s' s : St) : Prop :=
  (s'.appRequests = s.appRequests ∧ s'.tapps = s.tapps) ∨
  (∃ ai, s'.appRequests = s.appRequests ++ [(ai, m)] ∧ s'.tapps = s.tapps) ∨
  (∃ ai, s'.appRequests = s.appRequests ∧
    s'.tapps = s.tapps.mapIdx fun k a => if k == ai then { a with recvQ := a.recvQ ++ [m] } else a)

theorem Dlv.of_eq {m : AMsg} {s' s : St} (h1 : s'.appRequests = s.appRequests) (h2 : s'.tapps = s.tapps) : Dlv m s' s :=
  Or.inl ⟨h1, h2⟩

theorem Dlv.left {m : AMsg} {s'' s' s : St} (h1 : s''.appRequests = s'.appRequests) (h2 : s''.tapps = s'.tapps)
    (d : Dlv m s' s) : Dlv m s'' s := by
  unfold Dlv at *; rw [h1, h2]; exact d

theorem Dlv.right {m : AMsg} {s'' s' s : St} (h1 : s'.appRequests = s.appRequests) (h2 : s'.tapps = s.tapps)
    (d : Dlv m s'' s') : Dlv m s'' s := by
  unfold Dlv at *; rw [← h1, ← h2]; exact d

theorem Dlv_appReceiveRequest (s : St) (ai : Nat) (m : AMsg) : Dlv m (appReceiveRequest s ai m).1 s := by
  unfold appReceiveRequest
  split
  · exact Or.inr (Or.inr ⟨ai, rfl, rfl⟩)
  · dsimp only
    split
    · exact Or.inr (Or.inl ⟨ai, rfl, rfl⟩)
    · exact Or.inr (Or.inl ⟨ai, rfl, rfl⟩)

theorem Dlv_receiveAppRequest (s : St) (cid : Nat) (m : AMsg) (info : MsgInfo) : Dlv m (receiveAppRequest s cid m info).1 s := by
  unfold receiveAppRequest
  have snd : ∀ (a : AMsg) (b : Bool), Dlv m (sendMessage s cid a b).1 s :=
    fun a b => Dlv.of_eq (appRequests_sendMessage _ _ _ _) (tapps_sendMessage _ _ _ _)
  split
  · exact Dlv.of_eq rfl rfl
  · dsimp only
    split
    · exact snd _ _
    · split
      · exact Dlv.of_eq rfl rfl
      · split
        · exact snd _ _
        · split
          · split
            · exact Dlv.right rfl rfl (Dlv_appReceiveRequest _ _ _)
            · exact Dlv.right rfl rfl (Dlv_appReceiveRequest _ _ _)
          · exact snd _ _

theorem Dlv_handleByCommand (s : St) (cid : Nat) (m : AMsg) (info : MsgInfo) : Dlv m (handleByCommand s cid m info).1 s := by
  unfold handleByCommand
  have hp : ∀ (s1 : St), s1.appRequests = s.appRequests → s1.tapps = s.tapps →
      Dlv m (if m.cmd == 257 then (if m.isRequest then receiveCer s1 cid m info else receiveCea s1 cid m)
        else if m.cmd == 280 then (if m.isRequest then receiveDwr s1 cid m info else (receiveDwa s1 cid, none))
        else if m.cmd == 282 then (if m.isRequest then receiveDpr s1 cid m info else (receiveDpa s1 cid, none))
        else if m.isRequest then receiveAppRequest s1 cid m info
        else (receiveAppAnswer s1 m, none)).1 s := by
    intro s1 h1 h2
    apply Dlv.right h1 h2
    split
    · split
      · exact Dlv.of_eq (appRequests_receiveCer _ _ _ _) (tapps_receiveCer _ _ _ _)
      · exact Dlv.of_eq (appRequests_receiveCea _ _ _) (tapps_receiveCea _ _ _)
    · split
      · split
        · exact Dlv.of_eq (appRequests_receiveDwr _ _ _ _) (tapps_receiveDwr _ _ _ _)
        · exact Dlv.of_eq (appRequests_receiveDwa _ _) (tapps_receiveDwa _ _)
      · split
        · split
          · exact Dlv.of_eq (appRequests_receiveDpr _ _ _ _) (tapps_receiveDpr _ _ _ _)
          · exact Dlv.of_eq (appRequests_receiveDpa _ _) (tapps_receiveDpa _ _)
        · split
          · exact Dlv_receiveAppRequest _ _ _ _
          · exact Dlv.of_eq (appRequests_receiveAppAnswer _ _) (tapps_receiveAppAnswer _ _)
  dsimp only
  apply hp
  · repeat (first | rfl | split | simp only [appRequests_modPeer])
  · repeat (first | rfl | split | simp only [tapps_modPeer])

theorem Dlv_receiveMessage (s : St) (cid : Nat) (m : AMsg) (info : MsgInfo) : Dlv m (receiveMessage s cid m info) s := by
  unfold receiveMessage
  have a0 := appRequests_recordOrigin s cid m info
  have t0 := tapps_recordOrigin s cid m info
  have crash : ∀ (s1 : St) (e : String), (crashReader s1 cid e).appRequests = s1.appRequests ∧ (crashReader s1 cid e).tapps = s1.tapps :=
    fun _ _ => ⟨rfl, rfl⟩
  have snd : ∀ (s1 : St) (a : AMsg) (b : Bool), s1.appRequests = s.appRequests → s1.tapps = s.tapps →
      Dlv m (sendMessage s1 cid a b).1 s :=
    fun s1 a b h1 h2 => Dlv.of_eq ((appRequests_sendMessage _ _ _ _).trans h1) ((tapps_sendMessage _ _ _ _).trans h2)
  have hb := Dlv_handleByCommand (recordOrigin s cid m info) cid m info
  dsimp only
  split
  · exact Dlv.of_eq ((crash _ _).1.trans a0) ((crash _ _).2.trans t0)
  · split
    · split
      · exact snd _ _ _ a0 t0
      · exact Dlv.left (crash _ _).1 (crash _ _).2 (snd _ _ _ a0 t0)
    · split
      · split
        · exact snd _ _ _ a0 t0
        · exact Dlv.left (crash _ _).1 (crash _ _).2 (snd _ _ _ a0 t0)
      · split
        · rename_i s' heq
          rw [heq] at hb
          exact Dlv.right a0 t0 hb
        · rename_i s' e heq
          rw [heq] at hb
          have hb' : Dlv m s' s := Dlv.right a0 t0 hb
          split
          · exact hb'
          · split
            · exact Dlv.left (appRequests_sendMessage _ _ _ _) (tapps_sendMessage _ _ _ _) hb'
            · exact Dlv.left ((crash _ _).1.trans (appRequests_sendMessage _ _ _ _)) ((crash _ _).2.trans (tapps_sendMessage _ _ _ _)) hb'

/-- **One received message is handed to at most one application, at most once.** -/
theorem C08_one_delivery_per_received_message (s : St) (cid : Nat) (m : AMsg) (info : MsgInfo) :
    let s' := dispatchMessage s cid m info
    (s'.appRequests = s.appRequests ∧ s'.tapps = s.tapps) ∨
    (∃ ai, s'.appRequests = s.appRequests ++ [(ai, m)] ∧ s'.tapps = s.tapps) ∨
    (∃ ai, s'.appRequests = s.appRequests ∧
      s'.tapps = s.tapps.mapIdx fun k a => if k == ai then { a with recvQ := a.recvQ ++ [m] } else a) := by
  show Dlv m (dispatchMessage s cid m info) s
  unfold dispatchMessage
  repeat (first | exact Dlv.of_eq rfl rfl | exact Dlv_receiveMessage _ _ _ _ | split)

/-- the middle alternative occurs: a request of a served application on a ready connection of a configured peer -/
example :
    let c : Conn := { id := 0, dir := .recv, state := .ready, lastRead := 0, hbh := 1, nodeName := "peer1.x" }
    let p : Peer := { name := "peer1.x", realm := "r", persistent := false, always := false, wait := 30, hasAddr := true,
                      ceaTo := none, cerTo := none, dwaTo := none, idleTo := none, connection := some 0 }
    let a : App := { id := 4, auth := true, acct := false, kind := .basic, maxThreads := 0 }
    let s : St := { (default : St) with conns := [c], connections := [0], peerSockets := [0], peers := [p], apps := [a],
                                        routes := [("r", [(.app 0, [0])])] }
    let m : AMsg := { cmd := 272, flags := 0xc0, app := 4, hbh := 7, e2e := 9, oh := some "peer1.x", dr := some "r" }
    ((dispatchMessage s 0 m { (default : MsgInfo) with typed := true, hasOH := true, hasDR := true, ansTyped := true }).appRequests.map
      fun x => (x.1, x.2.hbh)) = [(0, 7)] := by
  decide +kernel

end DV.Node
