/-
  The model switches that whole-history theorems take as hypotheses
  (`Model/Config.lean`, hand-maintained, tied to the code by the correspondence)
  are the ones the *source* shows: `Generated/ConfigSrc.lean` is rewritten on
  every run by `harness/extract_config.py`, which recognises each guard
  structurally in the method it belongs to (`some true` / `some false` / `none`
  = shape not recognised).  One obligation per property that leans on a switch;
  it fails the moment the guard is edited away.
-/
import DV.Model.Config
import DV.Generated.ConfigSrc
namespace DV.Node
open DV

/-- C06: `PeerConnection.__dispatch_message` begins with the CONNECTING / CLOSING / CLOSED gate -/
theorem C06_gate_switch_is_the_sources : Gen.ConfigSrc.gateClosing = some Config.gateClosing := by decide

/-- C07 / C09: the catch-all handler of `_receive_message` answers requests only -/
theorem C07_answer_switch_is_the_sources : Gen.ConfigSrc.answerOnlyRequests = some Config.answerOnlyRequests := by decide
theorem C09_answer_switch_is_the_sources : Gen.ConfigSrc.answerOnlyRequests = some Config.answerOnlyRequests := by decide

/-- C12 / C13: `remove_peer_connection` clears the peer's record only for its own current connection -/
theorem C12_remove_switch_is_the_sources : Gen.ConfigSrc.removeOnlyOwn = some Config.removeOnlyOwn := by decide
theorem C13_remove_switches_are_the_sources :
    Gen.ConfigSrc.removeOnlyOwn = some Config.removeOnlyOwn ∧
    Gen.ConfigSrc.removeCleansTables = some Config.removeCleansTables := by decide

/-- C14: the queue consumers of the threading application survive an unsendable answer; a handler returning
    nothing gives its slot back -/
theorem C14_consumer_switches_are_the_sources :
    Gen.ConfigSrc.appConsumersCatch = some Config.appConsumersCatch ∧
    Gen.ConfigSrc.slotAlwaysReturned = some Config.slotAlwaysReturned := by decide

/-- C18 / C19: a refused connection has its workers stopped; removed connections leave the look-up tables -/
theorem C18_refusal_switch_is_the_sources : Gen.ConfigSrc.rejectStopsWorkers = some Config.rejectStopsWorkers := by decide
theorem C19_table_switches_are_the_sources :
    Gen.ConfigSrc.rejectStopsWorkers = some Config.rejectStopsWorkers ∧
    Gen.ConfigSrc.removeCleansTables = some Config.removeCleansTables := by decide

/-- C02: `Message.from_bytes` restores the received flag octet after constructing the command class -/
theorem C02_flags_switch_is_the_sources : Gen.ConfigSrc.decodeKeepsFlags = some Config.decodeKeepsFlags := by decide

/-- C20: `Message.to_answer` re-applies the request's P bit after constructing the answer class -/
theorem C20_p_bit_switch_is_the_sources : Gen.ConfigSrc.answerKeepsP = some Config.answerKeepsP := by decide

/-- C06: the CER/CEA timeouts run from the establishment of the transport -/
theorem C06_timeout_switch_is_the_sources :
    Gen.ConfigSrc.ceTimeoutFromEstablished = some Config.ceTimeoutFromEstablished := by decide

/-- C13: a synchronous connect failure goes through `close_connection_socket` -/
theorem C13_connect_switch_is_the_sources : Gen.ConfigSrc.connectFailCloses = some Config.connectFailCloses := by decide

/-- C17: the origin bookkeeping of the retransmission check is keyed per connection -/
theorem C17_origin_key_switch_is_the_sources : Gen.ConfigSrc.originKeyPerConn = some Config.originKeyPerConn := by decide

/-- C19: only received requests are recorded as awaiting an answer; a failed synchronous connect releases everything -/
theorem C19_origin_switches_are_the_sources :
    Gen.ConfigSrc.originOnlyRequests = some Config.originOnlyRequests ∧
    Gen.ConfigSrc.connectFailCloses = some Config.connectFailCloses := by decide

/-- C18 (Properties/C18Stop.lean): the switches behind "when stop returns every socket is closed and every worker stopped" -/
theorem C18_stop_switches_are_the_sources :
    Gen.ConfigSrc.removeCleansTables = some Config.removeCleansTables ∧
    Gen.ConfigSrc.rejectStopsWorkers = some Config.rejectStopsWorkers ∧
    Gen.ConfigSrc.gateClosing = some Config.gateClosing ∧
    Gen.ConfigSrc.appConsumersCatch = some Config.appConsumersCatch ∧
    Gen.ConfigSrc.removeOnlyOwn = some Config.removeOnlyOwn ∧
    Gen.ConfigSrc.connectFailCloses = some Config.connectFailCloses := by decide

/-- C04: the `AvpAddress.value` getter turns every failure of decoding the payload into the library's AVP decode error -/
theorem C04_address_switch_is_the_sources : Gen.ConfigSrc.addrGuard = some Config.addrGuard := by decide

/-- C05: the reader discards an undecodable frame only when its length field is positive, and after discarding it
    falls through to the "fewer than 20 octets left: wait" test -/
theorem C05_frame_switches_are_the_sources :
    Gen.ConfigSrc.frameSkipZeroGuard = some Config.frameSkipZeroGuard ∧
    Gen.ConfigSrc.frameFallThrough = some Config.frameFallThrough := by decide

/-- C18 (Properties/C18Stop.lean): the final pass of the I/O thread has the shape `stopFinal` folds over — for every
    connection of a copy of `Node.connections`: `close_connection_socket(conn, …)`, `conn.close(…)`, unconditionally -/
theorem C18_final_pass_is_the_sources : Gen.ConfigSrc.stopFinalPass = some true := by decide

end DV.Node
