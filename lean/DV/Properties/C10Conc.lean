/-
  C10 — requests sent concurrently from different threads.  Every request
  `route_request` sends on a connection takes its hop-by-hop identifier from
  that connection's `SequenceGenerator` (`conn.hop_by_hop_seq.next_sequence()`),
  entered by as many application threads as send at the same time.  For the
  line skeleton of `next_sequence` regenerated from the current source
  (`Gen.seqProgram`): under every schedule of any number of threads, the
  identifiers handed out are pairwise distinct and non-zero — so requests
  outstanding on one connection never share a hop-by-hop identifier (as long
  as fewer than 2^32−1 are drawn, the period of the generator).
-/
import DV.Properties.C16Tables
namespace DV.Gens

/-- the skeleton extracted from the source is the locked read-modify-write -/
theorem C10_hbh_generator_locked : Gen.seqProgram = lockedProg 0 := C16_programs.1

/-- **∀ threads, ∀ schedules**: hop-by-hop identifiers of concurrently sent requests are distinct and non-zero. -/
theorem C10_concurrent_hbh_distinct (s0 nthreads : Nat) (sched : List Nat) (h1 : 1 ≤ s0) (h2 : s0 ≤ Gen.seqMax)
    (hw : (runSched Gen.seqMax Gen.seqProgram (initGS s0 nthreads) sched).n ≤ Gen.seqMax) :
    (runSched Gen.seqMax Gen.seqProgram (initGS s0 nthreads) sched).issued.Nodup ∧
    ∀ v ∈ (runSched Gen.seqMax Gen.seqProgram (initGS s0 nthreads) sched).issued, v ≠ 0 := by
  have h := C16_sequence_generator s0 nthreads sched h1 h2 hw
  exact ⟨h.1, fun v hv => by have := (h.2 v hv).1; omega⟩

end DV.Gens
