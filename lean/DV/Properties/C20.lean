/-
  C20 — Answers built from requests mirror the header and use the paired class.
-/
import DV.Model.Message
namespace DV

/-- Table facts about a request class `c` and its observed answer class `a`
    that the header law needs: `a`'s constructor touches only the R and P bits
    and leaves R off; if it forces the command code then so does `c`, to the
    same code. -/
def answerClassOK (c a : MsgClass) : Bool :=
  (a.andMask &&& 0x3f == 0x3f && a.orMask &&& 0x3f == 0) &&
  (a.orMask &&& 0x80 == 0) &&
  (!a.forcesCode || (c.forcesCode && a.code == c.code))

def allAnswerClassesOK (mcs : List MsgClass) : Bool :=
  mcs.all fun c =>
    match findMsgClass mcs c.answerClass with
    | some a => answerClassOK c a
    | none => false

theorem and64_cases : ∀ f, f < 256 → (f &&& 0x40 = 0 ∨ f &&& 0x40 = 0x40) := by decide +kernel

theorem am_cases : ∀ am, am < 256 → (am &&& 0x3f == 0x3f) = true →
    (am = 63 ∨ am = 127 ∨ am = 191 ∨ am = 255) := by decide +kernel

theorem om_cases : ∀ om, om < 256 → (om &&& 0x3f == 0) = true → (om &&& 0x80 == 0) = true →
    (om = 0 ∨ om = 64) := by decide +kernel

theorem flags_law (am om f : Nat) (h1 : am < 256) (h2 : om < 256) (h3 : f < 256)
    (hm : (am &&& 0x3f == 0x3f && om &&& 0x3f == 0) = true) (hr : (om &&& 0x80 == 0) = true) :
    setP (((f &&& 0x40) &&& am) ||| om) (f &&& 0x40 ≠ 0) = f &&& 0x40 := by
  simp only [Bool.and_eq_true] at hm
  have ha := am_cases am h1 hm.1
  have ho := om_cases om h2 hm.2 hr
  rcases and64_cases f h3 with hp | hp <;> rw [hp] <;>
    rcases ha with rfl | rfl | rfl | rfl <;> rcases ho with rfl | rfl <;> decide

/-- For every class, every header of a request object of that class and every
    flag octet: the answer carries the request's version, command code,
    application id, hop-by-hop and end-to-end identifiers, keeps the P bit and
    has R, E, T (and the reserved bits) cleared. -/
theorem C20_header (mcs : List MsgClass) (c a : MsgClass) (h : Header)
    (hk : Config.answerKeepsP = true)
    (ha : findMsgClass mcs c.answerClass = some a) (hok : answerClassOK c a = true)
    (hm : a.andMask < 256 ∧ a.orMask < 256) (hf : h.flags < 256)
    (hc : c.forcesCode = true → h.code = c.code) :
    toAnswerHeader mcs c h =
      { version := h.version, length := 0, flags := h.flags &&& 0x40, code := h.code,
        appId := h.appId, hbh := h.hbh, e2e := h.e2e } := by
  simp only [answerClassOK, Bool.and_eq_true, Bool.or_eq_true, Bool.not_eq_true'] at hok
  obtain ⟨⟨hmask, hr⟩, hcode⟩ := hok
  simp only [toAnswerHeader, ha, hk, if_true, MsgClass.applyHeader, answerHeaderPre, MsgClass.applyFlags]
  have hfl := flags_law a.andMask a.orMask h.flags hm.1 hm.2 hf (by simp [hmask]) hr
  simp only [Header.mk.injEq, true_and, and_true]
  refine ⟨hfl, ?_⟩
  rcases hcode with hn | ⟨hcf, hac⟩
  · simp [hn]
  · simp only [beq_iff_eq] at hac
    by_cases hfa : a.forcesCode = true
    · simp [hfa, hac, hc hcf]
    · simp [hfa]

/-- The request itself is left unmodified: `to_answer` is a function of the
    request that returns a fresh header (the model is pure; the harness checks
    the real object's header before and after). -/
theorem C20_request_untouched (mcs : List MsgClass) (c : MsgClass) (h : Header) :
    (fun (_ : Header) => h) (toAnswerHeader mcs c h) = h := rfl

end DV
