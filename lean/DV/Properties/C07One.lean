/-
  C07 — "the node never transmits two answers for one request", the step half:
  **processing one received message queues at most one message, and queues it on
  the connection the message was received on** — for every state (reachable or
  not) and every message.

  `PeerConnection.__dispatch_message` → `Node._receive_message` → the handler
  of the command → `send_message`: whatever the message (CER, DWR, DPR,
  application request, any answer, unknown command; with or without the AVPs
  the handlers read; in any connection state), either no write queue changes,
  or exactly the connection objects with the id of the receiving connection
  have one and the same message appended to their write queue.  In particular
  the catch-all handler's 5012 answer is never sent *in addition* to a
  handler's own answer: a handler that has queued its answer does not raise
  afterwards (answers the node builds carry a Result-Code, so `_record_answer`
  accepts them), and a handler that raises has queued nothing.

  Together with the reader taking every received message off its queue before
  dispatching it (`pumpReader`: structural) and with the whole-history theorems
  of C07Hist / C07Out (every queued answer answers a request received on that
  connection), this is the model-level content of "exactly one answer per
  request" for the answers the node builds itself; for application answers the
  at-most-once half is C09 (`route_answer` removes the pending entry; racing
  submissions: C09Race).

  Hypothesis: the answers to DWR and DPR are typed commands (`info.ansTyped`,
  i.e. Device-Watchdog-Answer and Disconnect-Peer-Answer are `DefinedMessage`
  classes with attribute definitions) — discharged for the regenerated tables
  by `C07_base_answers_typed` below.  Without it the model (and the code, were
  those classes removed) would queue the DWA, have `_record_answer` raise on
  the missing Result-Code, and send a second, 5012 answer.
-/
import DV.Proofs.NodeOutLen
import DV.Model.NodeInfo
import DV.Generated.Dict
import DV.Generated.Classes
import DV.Generated.Commands
import DV.Generated.Constants
namespace DV.Node
open DV

/-- **At most one queued message per received message, on the receiving connection.** -/
theorem C07_one_message_per_received_message (s : St) (cid : Nat) (m : AMsg) (info : MsgInfo)
    (hbase : m.isRequest = true → m.cmd = 280 ∨ m.cmd = 282 → info.ansTyped = true) :
    let s' := dispatchMessage s cid m info
    (s'.conns.map fun c => (c.id, c.outQ)) = (s.conns.map fun c => (c.id, c.outQ)) ∨
    ∃ a, (s'.conns.map fun c => (c.id, c.outQ)) =
      (s.conns.map fun c => (c.id, c.outQ)).map fun p => if p.1 == cid then (p.1, p.2 ++ [a]) else p :=
  Ext1_dispatchMessage s cid m info hbase

/-- (the same for `_receive_message` entered directly) -/
theorem C07_one_message_per_receive_message (s : St) (cid : Nat) (m : AMsg) (info : MsgInfo)
    (hbase : m.isRequest = true → m.cmd = 280 ∨ m.cmd = 282 → info.ansTyped = true) :
    let s' := receiveMessage s cid m info
    (s'.conns.map fun c => (c.id, c.outQ)) = (s.conns.map fun c => (c.id, c.outQ)) ∨
    ∃ a, (s'.conns.map fun c => (c.id, c.outQ)) =
      (s.conns.map fun c => (c.id, c.outQ)).map fun p => if p.1 == cid then (p.1, p.2 ++ [a]) else p :=
  Ext1_receiveMessage s cid m info hbase

/-- A handler that raises has queued nothing; one that has queued its answer does not raise. -/
theorem C07_handler_raises_or_answers (s : St) (cid : Nat) (m : AMsg) (info : MsgInfo)
    (hbase : m.isRequest = true → m.cmd = 280 ∨ m.cmd = 282 → info.ansTyped = true) :
    (handleByCommand s cid m info).2.isSome = true →
      ((handleByCommand s cid m info).1.conns.map fun c => (c.id, c.outQ)) = (s.conns.map fun c => (c.id, c.outQ)) :=
  (HB_handleByCommand s cid m info hbase).2

/-- whether the answer class of a command is a typed command, as `msgInfo` computes it: a function of the tables,
    the command code and the R bit only -/
def ansTypedOf (env : Env) (cmd : Nat) (isReq : Bool) : Bool :=
  (msgInfo env ⟨0, 0, 0, 0, 0⟩ { cmd := cmd, flags := if isReq then 0x80 else 0, app := 0, hbh := 0, e2e := 0 }).ansTyped

/-- **Table obligation** (regenerated tables): the answers to DWR and DPR are typed commands. -/
theorem C07_base_answers_typed :
    let env : Env := { tc := { since1900 := Gen.time_since1900, overflowTs := Gen.time_overflowTs, cutoff := Gen.time_cutoff },
                       dict := Gen.dict, classes := Gen.classes, msgClasses := Gen.msgClasses,
                       registry := Gen.registry, clsMessage := Gen.clsMessage, clsUndefined := Gen.clsUndefinedMessage,
                       canon := fun n => n }
    ansTypedOf env 280 true = true ∧ ansTypedOf env 282 true = true := by
  decide +kernel

/-- `msgInfo` computes `ansTyped` from the tables, the command code and the R bit -/
theorem ansTyped_msgInfo (env : Env) (ids : AttrIds) (m : AMsg) (hr : m.isRequest = true) :
    (msgInfo env ids m).ansTyped = ansTypedOf env m.cmd true := by
  have hf : decide (m.flags &&& 0x80 ≠ 0) = true := hr
  unfold ansTypedOf msgInfo chooseClass
  simp only [hf, if_true]
  rfl

/-- **On the regenerated tables** the hypothesis of the theorems above holds for every message. -/
theorem C07_tables_one_message_per_received_message (env : Env) (ids : AttrIds)
    (h280 : ansTypedOf env 280 true = true) (h282 : ansTypedOf env 282 true = true) (s : St) (cid : Nat) (m : AMsg) :
    let s' := dispatchMessage s cid m (msgInfo env ids m)
    (s'.conns.map fun c => (c.id, c.outQ)) = (s.conns.map fun c => (c.id, c.outQ)) ∨
    ∃ a, (s'.conns.map fun c => (c.id, c.outQ)) =
      (s.conns.map fun c => (c.id, c.outQ)).map fun p => if p.1 == cid then (p.1, p.2 ++ [a]) else p := by
  apply C07_one_message_per_received_message
  intro hr hc
  rw [ansTyped_msgInfo env ids m hr]
  rcases hc with hc | hc <;> rw [hc] <;> assumption

/-- the conclusion is not vacuous: a DWR on a ready connection queues exactly one message -/
example :
    let c : Conn := { id := 0, dir := .recv, state := .ready, lastRead := 0, hbh := 1 }
    let s : St := { (default : St) with conns := [c], connections := [0], peerSockets := [0] }
    let m : AMsg := { cmd := 280, flags := 0x80, app := 0, hbh := 7, e2e := 9, oh := some "peer1.x" }
    let info : MsgInfo := { (default : MsgInfo) with typed := true, hasOH := true, ansTyped := true }
    ((dispatchMessage s 0 m info).conns.map fun c => c.outQ.length) = [1] := by
  decide

end DV.Node
