/-
  C04 — Decoding hostile bytes terminates and raises only library decode errors.

  Termination: every model function is a total Lean function; the only
  fuel-driven loop (`while not unpacker.is_done()`) provably never exhausts the
  fuel it is given (`C04_loop_terminates`), because each iteration consumes at
  least eight octets (`C04_progress_bounds`).
-/
import DV.Proofs.AvpList
import DV.Proofs.Header
import DV.Model.Decode
namespace DV

/-- One AVP decode on arbitrary bytes: on success the position moves forward
    by at least 8 and never beyond the buffer. -/
theorem C04_progress_bounds (buf : Bytes) (pos p : Nat) (a : Avp)
    (h : decodeAvp buf pos = .ok (a, p)) : pos + 8 ≤ p ∧ p ≤ buf.length :=
  decodeAvp_progress buf pos p a h

/-- The AVP loop terminates on every input: the fuel `decodeAvps` supplies is
    never exhausted. -/
theorem C04_loop_terminates (buf : Bytes) (pos : Nat) : decodeAvps buf pos ≠ .error .other := by
  unfold decodeAvps
  apply decodeAvpsFuel_no_exhaustion
  omega

theorem decodeAvpsFuel_count (buf : Bytes) : ∀ (fuel pos : Nat) (l : List Avp),
    decodeAvpsFuel buf fuel pos = .ok l → 8 * l.length + pos ≤ max buf.length pos := by
  intro fuel
  induction fuel with
  | zero =>
    intro pos l h
    simp only [decodeAvpsFuel] at h
    split at h
    · simp only [Except.ok.injEq] at h; subst h; simp; omega
    · simp at h
  | succ f ih =>
    intro pos l h
    simp only [decodeAvpsFuel] at h
    split at h
    · simp only [Except.ok.injEq] at h; subst h; simp; omega
    · cases hd : decodeAvp buf pos with
      | error e => simp [hd] at h
      | ok r =>
        obtain ⟨a, p⟩ := r
        simp only [hd] at h
        have hp := decodeAvp_progress buf pos p a hd
        cases hr : decodeAvpsFuel buf f p with
        | error e => simp [hr] at h
        | ok rest =>
          simp only [hr, Except.ok.injEq] at h
          subst h
          have := ih p rest hr
          simp only [List.length_cons]
          omega

/-- Linear work: a decode that starts inside the buffer yields at most
    `(len − pos) / 8` AVPs, i.e. the loop body runs at most that many times (+1),
    and each iteration reads a bounded header plus one payload slice. -/
theorem C04_linear (buf : Bytes) (pos : Nat) (l : List Avp) (hp : pos ≤ buf.length)
    (h : decodeAvps buf pos = .ok l) : 8 * l.length ≤ buf.length - pos := by
  have := decodeAvpsFuel_count buf _ pos l h
  omega

/-- Decoding a single AVP fails only with `ConversionError`
    (which `Avp.from_bytes` wraps into `AvpDecodeError`). -/
theorem C04_avp_error_kind (buf : Bytes) (pos : Nat) (e : Exc)
    (h : decodeAvp buf pos = .error e) : e = .conversion := decodeAvp_error buf pos e h

theorem decodeAvpsFuel_error (buf : Bytes) : ∀ (fuel pos : Nat) (e : Exc),
    decodeAvpsFuel buf fuel pos = .error e → e = .conversion ∨ e = .other := by
  intro fuel
  induction fuel with
  | zero =>
    intro pos e h
    simp only [decodeAvpsFuel] at h
    split at h <;> simp_all
  | succ f ih =>
    intro pos e h
    simp only [decodeAvpsFuel] at h
    split at h
    · simp at h
    · cases hd : decodeAvp buf pos with
      | error e1 =>
        simp only [hd, Except.error.injEq] at h
        subst h
        exact Or.inl (decodeAvp_error buf pos e1 hd)
      | ok r =>
        obtain ⟨a, p⟩ := r
        simp only [hd] at h
        cases hr : decodeAvpsFuel buf f p with
        | error e2 =>
          simp only [hr, Except.error.injEq] at h
          subst h
          exact ih p e2 hr
        | ok rest => simp [hr] at h

/-- Generic message decode of arbitrary bytes either succeeds or raises
    `ConversionError` — nothing else, for every byte string. -/
theorem C04_plain_decode_error_kind (buf : Bytes) (e : Exc)
    (h : decodeMsgPlain buf = .error e) : e = .conversion := by
  unfold decodeMsgPlain at h
  cases hh : decodeHeader buf with
  | error e1 =>
    simp only [hh, Except.error.injEq] at h
    subst h
    unfold decodeHeader at hh
    split at hh <;> simp_all
  | ok hd =>
    simp only [hh] at h
    cases ha : decodeAvps buf 20 with
    | error e2 =>
      simp only [ha, Except.error.injEq] at h
      subst h
      rcases decodeAvpsFuel_error buf _ 20 e2 ha with h1 | h1
      · exact h1
      · subst h1; exact absurd ha (C04_loop_terminates buf 20)
    | ok l => simp [ha] at h

/-- Reading the value of an AVP whose payload is malformed for its type raises
    the documented `AvpDecodeError` and nothing else — for all 12 types and every
    payload (with the guarded Address getter of the repaired code). -/
theorem C04_value_error_kind (tc : TimeConsts) (ty : Ty) (p : Bytes) (e : Exc)
    (h : getValue tc true ty p = .error e) : e = .avpDecode := by
  cases ty <;> simp only [getValue] at h
  all_goals (repeat' split at h) <;> simp_all

/-- …and this is the getter of the current tree. -/
theorem C04_address_getter_guarded : Config.addrGuard = true := rfl

/-- Rendering a decoded AVP as text (`str(avp)` reads `.value`, catching
    `AvpDecodeError`) therefore never raises. -/
theorem C04_str_total (tc : TimeConsts) (ty : Ty) (p : Bytes) :
    (match getValue tc true ty p with
     | .ok _ => true
     | .error .avpDecode => true
     | .error _ => false) = true := by
  cases h : getValue tc true ty p with
  | ok v => rfl
  | error e => rw [C04_value_error_kind tc ty p e h]

end DV
