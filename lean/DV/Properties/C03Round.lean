/-
  C03 — round trip at the level of whole objects, for objects whose set
  attributes are scalars (`C03_roundtrip_scalars`) or lists of plain values
  (`C03_roundtrip_flat`).  Nested containers: C03Nested.lean.
-/
import DV.Proofs.TypedAssign
namespace DV
open Spec

theorem attrs_distinct_of_defsDistinct (defs : List AttrDef) (h : defsDistinct defs = true) :
    ∀ x ∈ defs, ∀ y ∈ defs, x.attr = y.attr → x = y := by
  induction defs with
  | nil => intro x hx; cases hx
  | cons d ds ih =>
    obtain ⟨hne, hd'⟩ := defsDistinct_head h
    intro x hx y hy e
    rcases List.mem_cons.mp hx with rfl | hx' <;> rcases List.mem_cons.mp hy with rfl | hy'
    · rfl
    · exact absurd e.symm (hne y hy')
    · exact absurd e (hne x hx')
    · exact ih hd' x hx' y hy' e

/-- **Round trip of a typed object whose set attributes are scalars.** For a
    class with pairwise distinct definitions: generate the AVPs of an object
    whose attributes are unset or in-domain scalars (any subset), with any
    undeclared AVPs attached; assigning those AVPs to a fresh object of the
    class restores every attribute that was set, leaves the others at their
    constructor defaults, and carries the undeclared AVPs over unchanged. -/
theorem C03_roundtrip_scalars (dict : DTree) (cs : List ClassDef) (g : Bool) (fuel fuel' cls : Nat) (c : ClassDef)
    (fs : List (Nat × FVal)) (additional avps : List Avp)
    (hc : findClass cs cls = some c) (hdist : defsDistinct c.defs = true) (hadd : c.additional ≠ 0)
    (hval : ∀ d ∈ c.defs, ScalarOrUnset dict d (fieldOf fs d))
    (hnl : ∀ d ∈ c.defs, fieldOf fs d ≠ .unset → d.isList = false)
    (hund : ∀ a ∈ additional, neededDef c.defs a.code a.vendor = none)
    (hgen : generateFuel rfcTime dict cs (fuel + 1) (.obj cls fs additional) = .ok avps) :
    ∃ f1, assignFuel (getValue rfcTime g) dict cs (fuel' + 1) cls avps = .ok (.obj cls f1 additional) ∧
      ∀ d ∈ c.defs, fieldOf f1 d = (match fieldOf fs d with | .scalar v => .scalar v | _ => fieldOf (initFields c) d) := by
  have hattr := attrs_distinct_of_defsDistinct c.defs hdist
  simp only [generateFuel, hc, bind, Except.bind, pure, Except.pure] at hgen
  split at hgen
  · contradiction
  · rename_i gen hgen'
    injection hgen with hgen; subst hgen
    -- attributes that are set are non-list, so a fresh object holds no list under them; for the unset ones the
    -- auxiliary theorem never looks at the current value
    have hval2 : ∀ d ∈ c.defs, ScalarOrUnset dict d (fieldOf fs d) := hval
    -- split the definitions' starting values: the auxiliary lemma needs "no list" only where an AVP is assigned;
    -- we give it for all definitions whose attribute is set and, for unset ones, use that nothing is assigned.
    have hsub : ∀ d ∈ c.defs, d ∈ c.defs ∧ neededDef c.defs d.code d.vendor = some d :=
      fun d hd => ⟨hd, C03_decode_finds_definition c.defs hdist d hd⟩
    obtain ⟨f1, h1, h2⟩ := assign_generate_scalars_aux dict cs g c (assignFuel (getValue rfcTime g) dict cs fuel') fuel fs hattr
      c.defs hsub hdist hval2 gen hgen' (initFields c) []
      (fun d hd hset => fieldOf_init_nonlist c d hd (hnl d hd hset) hattr)
    refine ⟨f1, ?_, ?_⟩
    · simp only [assignFuel, hc]
      rw [assignLoop_append _ gen additional _ _ h1, assignLoop_undeclared _ _ _ _ hadd additional hund]
      simp
    · intro d hd
      rw [h2 d hd]
      simp only [expectAfter, hd, if_true]
      cases fieldOf fs d <;> rfl

/-- **Round trip of a typed object whose set attributes are scalars or lists of
    plain values** (any subset; list attributes with any number of elements):
    assigning the generated AVPs to a fresh object restores every scalar and
    every list, element by element in order; unset attributes keep their
    constructor defaults; undeclared AVPs are carried over unchanged. -/
theorem C03_roundtrip_flat (dict : DTree) (cs : List ClassDef) (g : Bool) (fuel fuel' cls : Nat) (c : ClassDef)
    (fs : List (Nat × FVal)) (additional avps : List Avp)
    (hc : findClass cs cls = some c) (hdist : defsDistinct c.defs = true) (hadd : c.additional ≠ 0)
    (hval : ∀ d ∈ c.defs, FlatOK dict d (fieldOf fs d))
    (hshape : ∀ d ∈ c.defs, (∀ x, fieldOf fs d = .scalar x → d.isList = false) ∧ (∀ xs, fieldOf fs d = .list xs → d.isList = true))
    (hund : ∀ a ∈ additional, neededDef c.defs a.code a.vendor = none)
    (hgen : generateFuel rfcTime dict cs (fuel + 1) (.obj cls fs additional) = .ok avps) :
    ∃ f1, assignFuel (getValue rfcTime g) dict cs (fuel' + 1) cls avps = .ok (.obj cls f1 additional) ∧
      ∀ d ∈ c.defs, fieldOf f1 d = (match fieldOf fs d with
        | .scalar v => .scalar v
        | .list xs => .list xs
        | _ => fieldOf (initFields c) d) := by
  have hattr := attrs_distinct_of_defsDistinct c.defs hdist
  simp only [generateFuel, hc, bind, Except.bind, pure, Except.pure] at hgen
  split at hgen
  · contradiction
  · rename_i gen hgen'
    injection hgen with hgen; subst hgen
    have hsub : ∀ d ∈ c.defs, d ∈ c.defs ∧ neededDef c.defs d.code d.vendor = some d :=
      fun d hd => ⟨hd, C03_decode_finds_definition c.defs hdist d hd⟩
    have hstart : ∀ d ∈ c.defs, StartOK fs (initFields c) d := by
      intro d hd
      unfold StartOK
      cases hv : fieldOf fs d with
      | scalar x => exact fieldOf_init_nonlist c d hd ((hshape d hd).1 x hv) hattr
      | list xs =>
        rcases hval d hd with hu | ⟨x, e, hx, _⟩ | ⟨xs', e, hx, ht, _⟩
        · rw [hv] at hu; contradiction
        · rw [hv] at hx; contradiction
        · exact ⟨[], fieldOf_init_list c d hd ((hshape d hd).2 xs hv) ht hattr⟩
      | _ => trivial
    obtain ⟨f1, h1, h2⟩ := assign_generate_flat_aux dict cs g c (assignFuel (getValue rfcTime g) dict cs fuel') fuel fs hattr
      c.defs hsub hdist hval gen hgen' (initFields c) [] hstart
    refine ⟨f1, ?_, ?_⟩
    · simp only [assignFuel, hc]
      rw [assignLoop_append _ gen additional _ _ h1, assignLoop_undeclared _ _ _ _ hadd additional hund]
      simp
    · intro d hd
      rw [h2 d hd]
      simp only [expectFlat, hd, if_true]
      cases hv : fieldOf fs d with
      | list xs =>
        rcases hval d hd with hu | ⟨x, e, hx, _⟩ | ⟨xs', e, hx, ht, _⟩
        · rw [hv] at hu; contradiction
        · rw [hv] at hx; contradiction
        · simp only [fieldOf_init_list c d hd ((hshape d hd).2 xs hv) ht hattr, List.nil_append]
      | _ => rfl

end DV

namespace DV
open Spec

/-! ### the premises are satisfiable -/

def exDict : DTree := .node .leaf ⟨1, 0, 8, 1, 0⟩ (.node .leaf ⟨2, 0, 7, 0, 1⟩ .leaf)
def exClass : ClassDef :=
  { id := 0, name := 0, isMessage := false,
    defs := [⟨10, 1, 0, false, 0, none, false⟩, ⟨11, 2, 0, false, 0, none, true⟩],
    additional := 1, intDefaults := [], oddDefaults := [], assigns := false }
def exFields : List (Nat × FVal) := [(11, .list [.bytes [1, 2, 3], .bytes []]), (10, .scalar (.int 7))]
def exExtra : List Avp := [{ code := 99, vendor := 5, flags := 0x80, payload := [9] }]

/-- a class with a scalar and a list attribute, both set, one undeclared AVP:
    every premise of `C03_roundtrip_flat` holds and the conclusion is the
    expected object -/
example : ∃ avps, generateFuel rfcTime exDict [exClass] 1 (.obj 0 exFields exExtra) = .ok avps ∧
    ∃ f1, assignFuel (getValue rfcTime true) exDict [exClass] 1 0 avps = .ok (.obj 0 f1 exExtra) ∧
      fieldOf f1 ⟨10, 1, 0, false, 0, none, false⟩ = .scalar (.int 7) ∧
      fieldOf f1 ⟨11, 2, 0, false, 0, none, true⟩ = .list [.bytes [1, 2, 3], .bytes []] := by
  have hgen : ∃ avps, generateFuel rfcTime exDict [exClass] 1 (.obj 0 exFields exExtra) = .ok avps :=
    ⟨[{ code := 1, vendor := 0, flags := 0x40, payload := [0, 0, 0, 7] }, { code := 2, vendor := 0, flags := 0, payload := [1, 2, 3] },
      { code := 2, vendor := 0, flags := 0, payload := [] }, { code := 99, vendor := 5, flags := 0x80, payload := [9] }], by
      simp [generateFuel, genDefs, genOne, findClass, exClass, exFields, exExtra, bind, Except.bind, pure, Except.pure]
      rfl⟩
  obtain ⟨avps, hgen⟩ := hgen
  refine ⟨avps, hgen, ?_⟩
  have hval : ∀ d ∈ exClass.defs, FlatOK exDict d (fieldOf exFields d) := by
    intro d hd
    simp only [exClass, List.mem_cons, List.mem_nil_iff, or_false] at hd
    rcases hd with rfl | rfl
    · exact Or.inr (Or.inl ⟨.int 7, ⟨1, 0, 8, 1, 0⟩, rfl, rfl, rfl, by simp [InDomain, Ty.ofTag]⟩)
    · exact Or.inr (Or.inr ⟨[.bytes [1, 2, 3], .bytes []], ⟨2, 0, 7, 0, 1⟩, rfl, rfl, rfl, by
        intro x hx; simp at hx; rcases hx with rfl | rfl <;> simp [InDomain, Ty.ofTag]⟩)
  have hshape : ∀ d ∈ exClass.defs, (∀ x, fieldOf exFields d = .scalar x → d.isList = false) ∧
      (∀ xs, fieldOf exFields d = .list xs → d.isList = true) := by
    intro d hd
    simp only [exClass, List.mem_cons, List.mem_nil_iff, or_false] at hd
    rcases hd with rfl | rfl <;> exact ⟨fun _ h => by first | rfl | (simp [fieldOf, exFields] at h), fun _ h => by first | rfl | (simp [fieldOf, exFields] at h)⟩
  obtain ⟨f1, h1, h2⟩ := C03_roundtrip_flat exDict [exClass] true 0 0 0 exClass exFields exExtra avps rfl (by decide) (by decide)
    hval hshape (by intro a ha; simp [exExtra] at ha; subst ha; rfl) hgen
  exact ⟨f1, h1, by simpa [fieldOf, exFields] using h2 ⟨10, 1, 0, false, 0, none, false⟩ (by simp [exClass]),
    by simpa [fieldOf, exFields] using h2 ⟨11, 2, 0, false, 0, none, true⟩ (by simp [exClass])⟩

end DV
