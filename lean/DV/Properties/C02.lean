/-
  C02 — Message codec is byte-exact; class dispatch and AVP search are correct.
-/
import DV.Proofs.Header
namespace DV
open Spec

/-- RFC layout of a whole message: header whose length field is the total
    octet count, followed by the AVPs. -/
def Spec.msgWire (h : Header) (avps : List Avp) : Bytes :=
  headerWire { h with length := 20 + (avpsWire avps).length } ++ avpsWire avps

/-- Encoding emits the 20-octet RFC header followed by the AVPs, with the
    length field equal to the total byte count. -/
theorem C02_encode_exact (h : Header) (avps : List Avp) (wf : HeaderWF h)
    (hl : ∀ a ∈ avps, AvpWF a) (hlen : 20 + (avpsWire avps).length < 16777216) :
    encodeMsg h avps = .ok (msgWire h avps) ∧
    (msgWire h avps).length = 20 + (avpsWire avps).length := by
  have wf' : HeaderWF { h with length := 20 + (avpsWire avps).length } :=
    ⟨wf.version, hlen, wf.flags, wf.code, wf.appId, wf.hbh, wf.e2e⟩
  constructor
  · simp only [encodeMsg, encodeAvps_wire avps hl, encodeHeader_wire _ wf', msgWire]
  · simp [msgWire, headerWire_length]

/-- Header fields survive the wire in both directions. -/
theorem C02_header_roundtrip (h : Header) (wf : HeaderWF h) (rest : Bytes) :
    encodeHeader h = .ok (headerWire h) ∧ (headerWire h).length = 20 ∧
    decodeHeader (headerWire h ++ rest) = .ok h :=
  ⟨encodeHeader_wire h wf, headerWire_length h, decodeHeader_wire h wf rest⟩

/-- The header decoder is total: a `ConversionError` below 20 octets, a header
    from 20 octets on. -/
theorem C02_header_total (buf : Bytes) :
    (buf.length < 20 → decodeHeader buf = .error .conversion) ∧
    (20 ≤ buf.length → ∃ h, decodeHeader buf = .ok h) :=
  ⟨decodeHeader_short buf, decodeHeader_total buf⟩

/-- Generic decode of a well-formed message returns exactly the header fields
    and the AVP sequence of the wire (order, codes, vendors, flags, payloads). -/
theorem C02_decode_exact (h : Header) (avps : List Avp) (wf : HeaderWF h)
    (hl : ∀ a ∈ avps, AvpWF a) :
    decodeMsgPlain (headerWire h ++ avpsWire avps) = .ok (h, avps) := by
  have h20 : (headerWire h).length = 20 := headerWire_length h
  have := decodeAvps_wire (headerWire h) avps hl
  rw [h20] at this
  simp only [decodeMsgPlain, decodeHeader_wire h wf, this]

/-- Re-encoding a generically decoded well-formed message reproduces the input
    byte for byte.  "Well formed" is declarative: the input is the RFC layout
    of some header and AVP list whose length field is the total size. -/
theorem C02_generic_roundtrip (b : Bytes) (h : Header) (avps : List Avp) (wf : HeaderWF h)
    (hl : ∀ a ∈ avps, AvpWF a) (hb : b = msgWire h avps)
    (hlen : 20 + (avpsWire avps).length < 16777216) :
    ∃ h' avps', decodeMsgPlain b = .ok (h', avps') ∧ encodeMsg h' avps' = .ok b := by
  have wf' : HeaderWF { h with length := 20 + (avpsWire avps).length } :=
    ⟨wf.version, hlen, wf.flags, wf.code, wf.appId, wf.hbh, wf.e2e⟩
  refine ⟨{ h with length := 20 + (avpsWire avps).length }, avps, ?_, ?_⟩
  · rw [hb]; exact C02_decode_exact _ avps wf' hl
  · rw [hb]; exact (C02_encode_exact _ avps wf' hl hlen).1

/-! ### AVP search -/

/-- Declarative path semantics: the AVPs found at tree path `p`, in depth-first
    wire order, where `children a` is the parsed member list of a grouped AVP
    (`none` when `a` is not grouped). A non-grouped AVP matched before the end
    of the path is itself a result (the search "cannot go further"). -/
def Spec.atPath (children : Avp → Option (List Avp)) : List (Nat × Nat) → List Avp → List Avp
  | [], _ => []
  | (c, v) :: rest, avps =>
    avps.flatMap fun a =>
      if a.code == c && a.vendor == v then
        if rest.isEmpty then [a]
        else match children a with
          | none => [a]
          | some sub => Spec.atPath children rest sub
      else []

/-- `children` as the model computes it: the dictionary says which AVPs are
    grouped; their payload is parsed. -/
def modelChildren (dict : DTree) (a : Avp) : Option (List Avp) :=
  if isGroupedAvp dict a then
    match decodeAvps a.payload 0 with
    | .ok l => some l
    | .error _ => none
  else none

/-- Every grouped AVP met within `n` levels below `avps` parses. -/
def TreeParses (dict : DTree) : Nat → List Avp → Prop
  | 0, _ => True
  | n + 1, avps => ∀ a ∈ avps, isGroupedAvp dict a = true →
      ∃ l, decodeAvps a.payload 0 = .ok l ∧ TreeParses dict n l

theorem travLevel_spec (dict : DTree) (c v : Nat) (rest : List (Nat × Nat))
    (sub : List Avp → R (List Avp)) (g : List Avp → List Avp) (avps : List Avp)
    (hsub : ∀ a ∈ avps, isGroupedAvp dict a = true → ∀ l, decodeAvps a.payload 0 = .ok l → sub l = .ok (g l))
    (hp : ∀ a ∈ avps, isGroupedAvp dict a = true → ∃ l, decodeAvps a.payload 0 = .ok l) :
    travLevel c v rest.isEmpty (isGroupedAvp dict) sub avps =
      .ok (avps.flatMap fun a =>
        if a.code == c && a.vendor == v then
          if rest.isEmpty then [a]
          else match modelChildren dict a with
            | none => [a]
            | some s => g s
        else []) := by
  induction avps with
  | nil => rfl
  | cons a r ih =>
    have ih' := ih (fun x hx => hsub x (by simp [hx])) (fun x hx => hp x (by simp [hx]))
    simp only [travLevel, ih', List.flatMap_cons]
    by_cases hm : (a.code == c && a.vendor == v) = true
    · simp only [hm, if_true]
      by_cases hl : rest.isEmpty = true
      · simp [hl]
      · by_cases hg : isGroupedAvp dict a = true
        · obtain ⟨l, hl'⟩ := hp a (by simp) hg
          have := hsub a (by simp) hg l hl'
          simp [hl, hg, hl', this, modelChildren]
        · simp [hl, hg, modelChildren]
    · simp [hm]

/-- Searching by a `(code, vendor)` path returns exactly the AVPs located at
    that path of the tree, in wire order — for every tree and every path. -/
theorem C02_find (dict : DTree) :
    ∀ (path : List (Nat × Nat)) (avps : List Avp), TreeParses dict path.length avps →
      traverse dict path avps = .ok (atPath (modelChildren dict) path avps) := by
  intro path
  induction path with
  | nil => intro avps _; rfl
  | cons cv rest ih =>
    intro avps ht
    obtain ⟨c, v⟩ := cv
    simp only [traverse, atPath]
    apply travLevel_spec dict c v rest (traverse dict rest) (atPath (modelChildren dict) rest) avps
    · intro a ha hg l hl
      obtain ⟨l', hl', ht'⟩ := ht a ha hg
      rw [hl] at hl'; cases hl'
      exact ih l ht'
    · intro a ha hg
      obtain ⟨l, hl, _⟩ := ht a ha hg
      exact ⟨l, hl⟩

/-- The search cache is transparent: any sequence of searches on one message
    (repeats included) returns what the uncached traversal returns. -/
theorem C02_find_cache (dict : DTree) (avps : List Avp) :
    ∀ (paths : List (List (Nat × Nat))) (cache : FindCache),
      (∀ p ∈ cache.entries, traverse dict p.1 avps = .ok p.2) →
      ∀ p ∈ paths, p ≠ [] →
        ∀ r cache', findAvps dict avps cache p = .ok (r, cache') →
          traverse dict p avps = .ok r ∧ (∀ q ∈ cache'.entries, traverse dict q.1 avps = .ok q.2) := by
  intro paths cache hinv p _ hne r cache' hf
  have hne' : p.isEmpty = false := by cases p <;> simp_all
  simp only [findAvps, hne', Bool.false_eq_true, if_false] at hf
  split at hf
  · rename_i k r0 hfind
    simp only [Except.ok.injEq, Prod.mk.injEq] at hf
    obtain ⟨rfl, rfl⟩ := hf
    have hmem := List.mem_of_find?_eq_some hfind
    have hk := List.find?_some hfind
    have : k = p := by simpa using hk
    subst this
    exact ⟨hinv _ hmem, hinv⟩
  · cases ht : traverse dict p avps with
    | error e => simp [ht] at hf
    | ok r0 =>
      simp only [ht, Except.ok.injEq, Prod.mk.injEq] at hf
      obtain ⟨rfl, rfl⟩ := hf
      refine ⟨rfl, ?_⟩
      intro q hq
      simp only [List.mem_append, List.mem_singleton] at hq
      rcases hq with hq | rfl
      · exact hinv q hq
      · exact ht

/-- Non-vacuity of `HeaderWF` / `AvpWF` hypotheses. -/
example : HeaderWF { version := 1, length := 0, flags := 0xc0, code := 272, appId := 4,
                     hbh := 0xffffffff, e2e := 1 } := by constructor <;> decide

end DV
