/-
  C09 obligation on the regenerated skeleton of `Node.route_answer`: after the
  lookup it removes the entry with a statement that fails when the entry is gone.
-/
import DV.Properties.C09Race
import DV.Generated.Threads
namespace DV.RR

theorem C09_route_answer_removal : Gen.routeAnswerKind = .strictDel := by decide

/-- `Node.route_answer` as it is in the source, under every schedule of any number
    of threads submitting an answer for the same pending request. -/
theorem C09_route_answer_once (n : Nat) (sched : List Nat) :
    sentCount (run Gen.routeAnswerKind (init n) sched) ≤ 1 := by
  rw [C09_route_answer_removal]
  exact C09_concurrent_once n sched

end DV.RR
