/-
  C09 — "submitting a second answer for the same request fails instead of being
  transmitted", when the two submissions run in different threads.

  `Node.route_answer` is a lookup followed by a removal on the shared
  pending-answer table, without a lock (Model/RouteRace.lean).  With the strict
  removal of the source (`del …`, extracted as `Gen.routeAnswerKind`) at most one
  of any number of racing submissions gets through, under every interleaving of
  their shared-state steps; with a removal that tolerates a missing entry, or
  none, two do.
-/
import DV.Proofs.RouteRace
namespace DV.RR

/-- **Every schedule, any number of submitting threads:** at most one submission
    for a pending request gets through `route_answer`. -/
theorem C09_concurrent_once (n : Nat) (sched : List Nat) : sentCount (run .strictDel (init n) sched) ≤ 1 := by
  have h := inv_run (init n) sched (inv_init n)
  unfold Inv at h
  omega

/-- …and once one has, the entry is gone: a later submission (any thread, any
    schedule continuing from there) fails. -/
theorem C09_concurrent_entry_gone (n : Nat) (sched : List Nat)
    (h : sentCount (run .strictDel (init n) sched) = 1) : (run .strictDel (init n) sched).booked = false := by
  have hi := inv_run (init n) sched (inv_init n)
  unfold Inv at hi
  cases hb : (run .strictDel (init n) sched).booked
  · rfl
  · rw [hb] at hi; simp at hi; omega

/-- a removal that does not fail on a missing entry lets both of two racing
    submissions through (both look up, then both remove) -/
theorem C09_lenient_removal_duplicates : sentCount (run .lenientPop (init 2) [0, 1, 0, 1]) = 2 := by decide

/-- so does leaving the entry in place -/
theorem C09_no_removal_duplicates : sentCount (run .keep (init 2) [0, 1, 0, 1]) = 2 := by decide

/-- the premises are not vacuous: one submission, run to completion, gets through -/
example : sentCount (run .strictDel (init 1) [0, 0]) = 1 := by decide

end DV.RR
