/-
  C12 — "at no time does the node hold two self-initiated connections to the
  same peer", over whole histories.  For every sequence of operations of the
  node model (start, connections accepted, refused, failing, timing out, closed
  by either side, CERs and CEAs in any state and naming any identity, DPRs,
  clock advances over any number of reconnect cycles, worker pumps, application
  calls, stop), in every state reached: every registered connection the node
  dialled is the `Peer.connection` of the peer its node name resolves to —
  hence two registered dialled connections with the node name of one configured
  peer are one and the same connection object.

  Hypotheses: `Config.removeOnlyOwn` (the `fix:` commit that made
  `remove_peer_connection` clear `Peer.connection` only for the peer's own
  current connection — without it the invariant is false: closing a refused
  second connection of a peer cleared the record of the first, and the peer was
  dialled again); configured peers have non-empty names; the history does not
  use the driver's `anon` operation (test glue that blanks a connection's node
  name behind the node's back).
-/
import DV.Proofs.NodeOwnInv
namespace DV.Node

/-- the operation is not the driver's `anon` glue -/
def opNoAnon : Op → Prop
  | .anon _ => False
  | _ => True

theorem k_applyOp (hk : Config.removeOnlyOwn = true) (infoOf : AMsg → MsgInfo) (w : World) (o : Op) (ho : opNoAnon o) (h : KInv w.st) : KInv (applyOp infoOf w o).st := by
  cases o with
  | start plan =>
    simp only [applyOp]
    apply k_foldl
    · intro s a hs
      split
      · rename_i p hp
        split
        · rename_i hpp
          exact (k_connectToPeer hk) s a hs
        · exact hs
      · exact hs
    · exact k_of_eq rfl rfl rfl h
  | accept => exact (k_ioIteration hk) { w with acceptQ := w.acceptQ + 1 } h
  | rx cid e => simp only [applyOp, pushRx]; repeat (first | exact h | split)
  | wr cid evs => simp only [applyOp]; repeat (first | exact h | split | dsimp only)
  | block cid b => simp only [applyOp]; split <;> exact h
  | sethbh cid v => exact k_modConn _ _ _ (by tamekc) h
  | anon cid => exact absurd ho (fun hh => hh)
  | dial plan => exact k_of_eq rfl rfl rfl h
  | conn cid ok => exact k_of_eq rfl rfl rfl h
  | adv dt => exact k_of_eq rfl rfl rfl h
  | io => exact (k_ioIteration hk) w h
  | pump => exact (k_pumpAll hk) infoOf _ h
  | settle n => exact (k_settle hk) infoOf n w h
  | hold ai v => exact h
  | outcome ai o => exact h
  | handler k => exact (k_runHandler hk) infoOf _ k h
  | ans ai req rc => exact (k_appSendAnswer hk) _ _ _ _ _ h
  | reqBegin ai m => exact (k_appSendRequestBegin hk) _ _ _ _ h
  | reqEnd ai hbh t =>
    simp only [applyOp]
    split <;> exact k_of_eq rfl rfl rfl h
  | stopBegin f => exact (k_stopBegin hk) _ _ h
  | stopFinal => exact (k_stopFinal hk) _ h
  | note o => exact k_emit _ _ h
  | flush => exact k_of_eq rfl rfl rfl h

/-- **Every reachable state** keeps the invariant. -/
theorem C12_own_invariant (hk : Config.removeOnlyOwn = true) (infoOf : AMsg → MsgInfo) (w : World) (ops : List Op)
    (hops : ∀ o ∈ ops, opNoAnon o) (h : KInv w.st) : KInv (run infoOf w ops).st := by
  unfold run
  induction ops generalizing w with
  | nil => exact h
  | cons o ops ih =>
    exact ih _ (fun o' ho' => hops o' (List.mem_cons_of_mem _ ho')) (k_applyOp hk infoOf w o (hops o List.mem_cons_self) h)

/-- **Never two self-initiated connections to the same peer** — after any history: two registered
    (`Node.connections`) connections the node dialled whose node name is that of a configured peer are the
    same connection object. -/
theorem C12_single_outbound (hk : Config.removeOnlyOwn = true) (infoOf : AMsg → MsgInfo) (w : World) (ops : List Op)
    (hops : ∀ o ∈ ops, opNoAnon o) (h : KInv w.st) :
    let s := (run infoOf w ops).st
    ∀ c1 ∈ s.conns, ∀ c2 ∈ s.conns, c1.dir = .send → c2.dir = .send →
      c1.id ∈ s.connections → c2.id ∈ s.connections → c1.nodeName = c2.nodeName →
      (peerIdx? s c1.nodeName).isSome → c1 = c2 := by
  intro s c1 h1 c2 h2 d1 d2 r1 r2 hn hi
  have hK : KI s.peers s.conns s.connections := C12_own_invariant hk infoOf w ops hops h
  cases hp : peerIdx? s c1.nodeName with
  | none => rw [hp] at hi; cases hi
  | some i => exact hK.single c1 c2 h1 h2 d1 d2 r1 r2 hn i hp

/-- (read out) … and that one connection is the one the peer's record points to -/
theorem C12_registered_outbound_is_current (hk : Config.removeOnlyOwn = true) (infoOf : AMsg → MsgInfo) (w : World)
    (ops : List Op) (hops : ∀ o ∈ ops, opNoAnon o) (h : KInv w.st) :
    let s := (run infoOf w ops).st
    ∀ c ∈ s.conns, c.dir = .send → c.id ∈ s.connections → ∀ i, peerIdx? s c.nodeName = some i →
      ∃ p, s.peers[i]? = some p ∧ p.connection = some c.id := by
  intro s c hc hd hr i hi
  exact (C12_own_invariant hk infoOf w ops hops h).own c hc hd hr i hi

/-- the premise is met by a node that has not been started: named peers, no connection objects -/
example (ps : List Peer) (hps : ∀ p ∈ ps, p.name ≠ "") :
    KInv ({ (default : St) with peers := ps, conns := [], connections := [] }) :=
  ⟨hps, fun i c h => by simp at h, fun k hk => by simp at hk, fun c hc => by simp at hc, fun c hc => by simp at hc⟩

/-- the configuration flag the theorems assume is that of the current tree -/
theorem C12_own_config : Config.removeOnlyOwn = true := rfl

end DV.Node
