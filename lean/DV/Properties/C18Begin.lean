/-
  C18 — "stopping the node sends a DPR with cause REBOOTING to every ready peer
  … a forced stop skips the DPR exchange": what `stop()` puts on the wire before
  it starts waiting, for every state.

  * `stop(force=True)` queues nothing.
  * `stop()` (graceful) only ever *appends* to write queues, never touches what
    is queued already, creates or drops no connection object, and **every
    message it appends is a Disconnect-Peer-Request with Disconnect-Cause 0
    (REBOOTING)** carrying the node's identity and non-zero identifiers.

  (Which connections get one: `C18_begin` — the registered ones in a ready
  state —, `C18_send_dpr` / `C18_dpr_sent_once` for the single step.)
-/
import DV.Properties.C18Dpr
import DV.Properties.C18
namespace DV.Node

/-- a DPR as `stop()` sends it -/
def IsRebootDpr (host : String) (m : AMsg) : Prop :=
  m.cmd = 282 ∧ m.isRequest = true ∧ m.dc = some 0 ∧ m.oh = some host ∧ m.hbh ≠ 0 ∧ m.e2e ≠ 0

/-- same connection objects (by id, in order); every write queue is the old one followed by messages satisfying `P` -/
def OnlyAppends (P : AMsg → Prop) (l' l : List (Nat × List AMsg)) : Prop :=
  l'.length = l.length ∧
  ∀ (i : Nat) (p' p : Nat × List AMsg), l'[i]? = some p' → l[i]? = some p →
    p'.1 = p.1 ∧ ∃ ds, p'.2 = p.2 ++ ds ∧ ∀ d ∈ ds, P d

theorem OnlyAppends.refl (P : AMsg → Prop) (l : List (Nat × List AMsg)) : OnlyAppends P l l :=
  ⟨rfl, fun i p' p h' h => by
    rw [h'] at h; cases h
    exact ⟨rfl, [], by simp, by simp⟩⟩

theorem OnlyAppends.trans {P : AMsg → Prop} {a b c : List (Nat × List AMsg)}
    (h1 : OnlyAppends P a b) (h2 : OnlyAppends P b c) : OnlyAppends P a c := by
  refine ⟨h1.1.trans h2.1, ?_⟩
  intro i pa pc ha hc
  have hlt : i < b.length := by
    have : i < a.length := by
      rcases Nat.lt_or_ge i a.length with h | h
      · exact h
      · rw [List.getElem?_eq_none h] at ha; cases ha
    rw [← h1.1]; exact this
  have hb : b[i]? = some b[i] := List.getElem?_eq_getElem hlt
  obtain ⟨e1, d1, q1, p1⟩ := h1.2 i pa b[i] ha hb
  obtain ⟨e2, d2, q2, p2⟩ := h2.2 i b[i] pc hb hc
  refine ⟨e1.trans e2, d2 ++ d1, ?_, ?_⟩
  · rw [q1, q2, List.append_assoc]
  · intro d hd
    rcases List.mem_append.mp hd with h | h
    · exact p2 d h
    · exact p1 d h

theorem OnlyAppends.of_map (P : AMsg → Prop) (l : List (Nat × List AMsg)) (cid : Nat) (m : AMsg) (hm : P m) :
    OnlyAppends P (l.map fun p => if p.1 == cid then (p.1, p.2 ++ [m]) else p) l := by
  refine ⟨by simp, ?_⟩
  intro i p' p h' h
  rw [List.getElem?_map, h] at h'
  simp only [Option.map_some, Option.some.injEq] at h'
  subst h'
  split
  · exact ⟨rfl, [m], rfl, by simpa using hm⟩
  · exact ⟨rfl, [], by simp, by simp⟩

theorem OnlyAppends_sendDpr (s : St) (cid : Nat) :
    OnlyAppends (IsRebootDpr s.cfg.host) (sendDpr s cid).oql s.oql := by
  cases hc : s.conn? cid with
  | none =>
    have : sendDpr s cid = s := by unfold sendDpr; rw [hc]
    rw [this]; exact OnlyAppends.refl _ _
  | some c =>
    obtain ⟨m, h1, h2, h3, h4, h5, h6, hq, _⟩ := C18_send_dpr s cid c hc
    rw [hq]
    exact OnlyAppends.of_map _ _ _ _ ⟨h1, h2, h3, h4, h5, h6⟩

theorem cfg_sendDpr (s : St) (cid : Nat) : (sendDpr s cid).cfg = s.cfg := by
  unfold sendDpr
  split
  · rfl
  · dsimp only
    unfold sendMessage
    repeat (first | rfl | split | dsimp only | (unfold recordAnswerState))

/-- **Graceful stop: nothing but REBOOTING DPRs, appended.** -/
theorem C18_graceful_stop_queues_only_reboot_dprs (s : St) :
    OnlyAppends (IsRebootDpr s.cfg.host) (stopBegin s false).oql s.oql := by
  rw [C18_begin]
  have key : ∀ (l : List Nat) (s1 : St), s1.cfg = s.cfg → OnlyAppends (IsRebootDpr s.cfg.host) s1.oql s.oql →
      OnlyAppends (IsRebootDpr s.cfg.host) (l.foldl (fun s cid =>
        match s.conn? cid with
        | some c => if c.state.isReady then sendDpr s cid else s
        | none => s) s1).oql s.oql := by
    intro l
    induction l with
    | nil => intro s1 _ h; exact h
    | cons a l ih =>
      intro s1 hcfg h
      rw [List.foldl_cons]
      split
      · split
        · apply ih _ ((cfg_sendDpr s1 a).trans hcfg)
          have := OnlyAppends_sendDpr s1 a
          rw [hcfg] at this
          exact this.trans h
        · exact ih _ hcfg h
      · exact ih _ hcfg h
  exact key _ _ rfl (OnlyAppends.refl _ _)

/-- **Forced stop: nothing is queued.** -/
theorem C18_forced_stop_queues_nothing (s : St) : (stopBegin s true).oql = s.oql := by
  rw [C18_force]; rfl

end DV.Node
