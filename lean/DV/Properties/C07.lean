/-
  C07 — Each transmitted answer answers exactly one received request, never an
  answer.  Everything a connection transmits passes through its write queue
  (`outQ`), which only `sendMessage` extends; the theorems are about what each
  handler can add to the write queues.
-/
import DV.Proofs.NodeQ
namespace DV.Node

/-- Answers built by the node mirror the request they answer: same command code,
    application id, hop-by-hop and end-to-end identifiers, R bit cleared — for
    every request, every class information and every result code. -/
theorem C07_answer_mirrors (s : St) (m : AMsg) (info : MsgInfo) (rc : Option Nat) (fa : List Nat) :
    let a := generateAnswer s m info rc fa
    a.cmd = m.cmd ∧ a.app = m.app ∧ a.hbh = m.hbh ∧ a.e2e = m.e2e ∧ a.isRequest = false := by
  have hbit : ∀ f : Nat, (f &&& 0x40) &&& 0x80 = 0 := by
    intro f
    rw [Nat.and_assoc]
    have : (0x40 : Nat) &&& 0x80 = 0 := by decide
    rw [this, Nat.and_zero]
  unfold generateAnswer
  split <;> simp [AMsg.isRequest, hbit]

/-- **The node never transmits anything in reaction to a received answer**: for
    every state, connection and received message with the R bit clear, handling
    it leaves every connection's write queue unchanged (with the repaired
    catch-all handler, `Config.answerOnlyRequests`). -/
theorem handleByCommand_answer (s : St) (cid : Nat) (m : AMsg) (info : MsgInfo) (hr : m.isRequest = false) :
    outQs (handleByCommand s cid m info).1 = outQs s := by
  unfold handleByCommand
  simp only [hr, Bool.false_eq_true, if_false]
  by_cases h257 : (m.cmd == 257) = true
  · simp only [h257, if_true]
    unfold receiveCea
    split
    · simp
    · split
      · rfl
      · simp only [outQs_flagReady, outQs_assignPeerConnection]
        exact outQs_modConn _ cid _ (by intro c; exact ⟨rfl, rfl⟩)
  · simp only [h257, Bool.false_eq_true, if_false]
    by_cases h280 : (m.cmd == 280) = true
    · simp only [h280, if_true, receiveDwa]
      exact outQs_modConn _ cid _ (by intro c; exact ⟨rfl, rfl⟩)
    · simp only [h280, Bool.false_eq_true, if_false]
      by_cases h282 : (m.cmd == 282) = true
      · simp only [h282, if_true, receiveDpa, outQs_demand]
        exact outQs_modConn _ cid _ (by intro c; exact ⟨rfl, rfl⟩)
      · simp only [h282, Bool.false_eq_true, if_false, receiveAppAnswer]
        split
        · rfl
        · unfold appReceiveAnswer
          split
          · split <;> rfl
          · rfl

theorem outQs_recordOrigin (s : St) (cid : Nat) (m : AMsg) (info : MsgInfo) : outQs (recordOrigin s cid m info) = outQs s := by
  unfold recordOrigin; split <;> rfl

/-- **The node never transmits anything in reaction to a received answer**: for
    every state, connection and received message with the R bit clear, handling
    it leaves every connection's write queue unchanged (with the repaired
    catch-all handler, `Config.answerOnlyRequests`). -/
theorem C07_no_answer_to_answer (s : St) (cid : Nat) (m : AMsg) (info : MsgInfo)
    (hk : Config.answerOnlyRequests = true) (hr : m.isRequest = false) :
    outQs (receiveMessage s cid m info) = outQs s := by
  unfold receiveMessage
  simp only [hr, Bool.false_and, Bool.false_eq_true, if_false, Bool.and_false, hk, Bool.not_false,
    Bool.and_true, if_true]
  have hq := handleByCommand_answer (recordOrigin s cid m info) cid m info hr
  rw [outQs_recordOrigin] at hq
  split
  · rename_i s' heq
    rw [heq] at hq; exact hq
  · rename_i s' e heq
    rw [heq] at hq; exact hq

theorem C07_config : Config.answerOnlyRequests = true := rfl

end DV.Node
