/-
  C14 table obligation: on the regenerated tables the reader's validation step
  (`validate_message_avps`) cannot raise, for any message — the hypothesis `hv`
  of `C14_no_worker_dies`.
-/
import DV.Properties.C14
import DV.Properties.C08Tables
namespace DV.Node
open DV

theorem C14_tables_validate_total (env : Env) (hd : env.dict = Gen.dict) (hc : env.classes = Gen.classes)
    (ids : AttrIds) (m : AMsg) : (msgInfo env ids m).validateRaises = false :=
  C14_validate_total env ids m (by rw [hd, hc]; exact C08_required_defs_resolvable)

end DV.Node
