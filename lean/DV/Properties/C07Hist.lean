/-
  C07 / C09 — over whole histories.  For every sequence of operations of the
  node model (connections arriving and ending in any way, reads of any messages
  in any chunking, timers, I/O passes, worker pumps, application calls in any
  order, stop), in every state reached:

  * every (connection, hop-by-hop id) pair in `_peer_waiting_answer` is the
    identifier of a **request that the peer's socket delivered on that very
    connection** earlier in the history;

  hence an answer that `route_answer` accepts — the only way an application's
  answer reaches a connection's write queue — is routed to a connection on
  which a request with that hop-by-hop identifier was in fact received: the
  node never transmits an application answer "to" a request that was not
  received there, whatever happened in between (connections replaced, tables
  cleaned, answers submitted twice, requests pending at DPR, …).

  The log is not state of the model: it is a function of the history
  (`reqLog`), so the statement is about the operations the driver performs.
-/
import DV.Proofs.NodeSoundInv
namespace DV.Node

/-- the requests an operation makes a socket deliver: (connection, hop-by-hop id) -/
def opReqs : Op → List (Nat × Nat)
  | .rx cid (.data msgs) => (msgs.filter (·.isRequest)).map fun m => (cid, m.hbh)
  | _ => []

/-- the requests delivered by the sockets in the course of a history -/
def reqLog (ops : List Op) : List (Nat × Nat) := ops.flatMap opReqs

theorem WSnd_pushRx (L : List (Nat × Nat)) (w : World) (cid : Nat) (e : RxEv) (h : WSnd L w) :
    WSnd (L ++ opReqs (.rx cid e)) (pushRx w cid e) := by
  have hL : ∀ x ∈ L, x ∈ L ++ opReqs (.rx cid e) := fun x hx => List.mem_append_left _ hx
  have h' := WSnd_mono hL h
  have hnew : ∀ msgs, e = RxEv.data msgs → ∀ m ∈ msgs, m.isRequest = true → (cid, m.hbh) ∈ L ++ opReqs (.rx cid e) := by
    intro msgs he m hm hr
    subst he
    apply List.mem_append_right
    simp only [opReqs, List.mem_map, List.mem_filter]
    exact ⟨m, ⟨hm, hr⟩, rfl⟩
  unfold pushRx
  split
  · exact h'
  · split
    · exact h'
    · split
      · refine ⟨h'.1, ?_⟩
        intro p hp e' he' msgs hm m hmm hr
        dsimp only at hp
        simp only [List.mem_map] at hp
        obtain ⟨q, hq, rfl⟩ := hp
        by_cases hk : (q.1 == cid) = true
        · simp only [hk, if_true] at he' ⊢
          have hqc : q.1 = cid := by simpa using hk
          rcases List.mem_append.mp he' with he' | he'
          · exact h'.2 q hq e' he' msgs hm m hmm hr
          · have : e' = e := by simpa using he'
            subst this
            rw [hqc]
            exact hnew msgs hm m hmm hr
        · simp only [hk, if_false, Bool.false_eq_true] at he' ⊢
          exact h'.2 q hq e' he' msgs hm m hmm hr
      · refine ⟨h'.1, ?_⟩
        intro p hp e' he' msgs hm m hmm hr
        dsimp only at hp
        rcases List.mem_append.mp hp with hp | hp
        · exact h'.2 p hp e' he' msgs hm m hmm hr
        · have hp' : p = (cid, [e]) := by simpa using hp
          subst hp'
          have : e' = e := by simpa using he'
          subst this
          exact hnew msgs hm m hmm hr

/-- One operation: the invariant is kept, the log growing by what the operation delivered. -/
theorem WSnd_applyOp (infoOf : AMsg → MsgInfo) (L : List (Nat × Nat)) (w : World) (o : Op) (h : WSnd L w) :
    WSnd (L ++ opReqs o) (applyOp infoOf w o) := by
  have keep : ∀ {w' : World}, WSnd L w' → (opReqs o = [] → WSnd (L ++ opReqs o) w') := by
    intro w' hw' he; rw [he, List.append_nil]; exact hw'
  cases o with
  | rx cid e => exact WSnd_pushRx L w cid e h
  | start plan =>
    refine keep ?_ rfl
    simp only [applyOp]
    refine WSnd_st h rfl ?_
    apply le_foldl
    · intro s a hs
      repeat (first | exact hs | exact le_connectToPeer s a hs | split)
    · exact le_of_eq rfl rfl (Le.refl _)
  | accept => exact keep (WSnd_ioIteration L _ ⟨h.1, h.2⟩) rfl
  | wr cid evs =>
    refine keep ?_ rfl
    simp only [applyOp]
    repeat (first | exact h | exact ⟨h.1, h.2⟩ | split | dsimp only)
  | block cid b => refine keep ?_ rfl; simp only [applyOp]; split <;> exact ⟨h.1, h.2⟩
  | sethbh cid v => exact keep (WSnd_st h rfl (le_modConn _ _ _ (by tameq) (Le.refl _))) rfl
  | anon cid => exact keep (WSnd_st h rfl (le_modConn _ _ _ (by tameq) (Le.refl _))) rfl
  | dial plan => exact keep (WSnd_st h rfl (le_of_eq rfl rfl (Le.refl _))) rfl
  | conn cid ok => exact keep (WSnd_st h rfl (le_of_eq rfl rfl (Le.refl _))) rfl
  | adv dt => exact keep (WSnd_st h rfl (le_of_eq rfl rfl (Le.refl _))) rfl
  | io => exact keep (WSnd_ioIteration L w h) rfl
  | pump => exact keep ⟨Snd_pumpAll infoOf L _ h.1, h.2⟩ rfl
  | settle n => exact keep (WSnd_settle infoOf L n w h) rfl
  | hold ai v => exact keep (WSnd_st h rfl (Le.refl _)) rfl
  | outcome ai o => exact keep (WSnd_st h rfl (Le.refl _)) rfl
  | handler k => exact keep (WSnd_st h rfl (le_runHandler infoOf _ k (Le.refl _))) rfl
  | ans ai req rc => exact keep (WSnd_st h rfl (le_appSendAnswer _ _ _ _ _ (Le.refl _))) rfl
  | reqBegin ai m => exact keep (WSnd_st h rfl (le_appSendRequestBegin _ _ _ _ (Le.refl _))) rfl
  | reqEnd ai hbh t =>
    refine keep ?_ rfl
    simp only [applyOp]
    refine WSnd_st h rfl ?_
    split <;> exact le_of_eq rfl rfl (Le.refl _)
  | stopBegin f => exact keep (WSnd_st h rfl (le_stopBegin _ _ (Le.refl _))) rfl
  | stopFinal => exact keep (WSnd_st h rfl (le_stopFinal _ (Le.refl _))) rfl
  | note o => exact keep (WSnd_st h rfl (Le.refl _)) rfl
  | flush => exact keep (WSnd_st h rfl (le_of_eq rfl rfl (Le.refl _))) rfl

/-- **Every reachable state**: after any history, the pending-answer table, the
    readers' queues and the sockets' inboxes only mention requests that the
    sockets delivered (before the history: `L0`; during it: `reqLog ops`). -/
theorem C07_pending_sound (infoOf : AMsg → MsgInfo) (L0 : List (Nat × Nat)) (w : World) (ops : List Op) (h : WSnd L0 w) :
    WSnd (L0 ++ reqLog ops) (run infoOf w ops) := by
  unfold run reqLog
  induction ops generalizing w L0 with
  | nil => simpa using h
  | cons o ops ih =>
    simp only [List.foldl_cons, List.flatMap_cons]
    rw [← List.append_assoc]
    exact ih _ _ (WSnd_applyOp infoOf L0 w o h)

/-- a world in which nothing is pending, queued or in flight (e.g. a node that has not been started) -/
def Quiet (w : World) : Prop := w.st.peerWaiting = [] ∧ (∀ c ∈ w.st.conns, c.inQ = []) ∧ w.inbox = []

theorem WSnd_of_quiet {w : World} (h : Quiet w) : WSnd [] w := by
  obtain ⟨h1, h2, h3⟩ := h
  refine ⟨⟨?_, ?_⟩, ?_⟩
  · intro x hx; simp [St.pwm, h1] at hx
  · intro x hx
    rw [mem_inqm] at hx
    obtain ⟨c, hc, _, ch, hch, _⟩ := hx
    rw [h2 c hc] at hch
    exact absurd hch (List.not_mem_nil)
  · intro p hp; rw [h3] at hp; exact absurd hp (List.not_mem_nil)

/-- **C07/C09 over whole histories.**  From a quiet world, after *any* history:
    if `route_answer` accepts an answer and routes it to connection `cid`, then a
    request with the answer's hop-by-hop identifier was delivered by the socket
    of that very connection earlier in the history. -/
theorem C07_routed_answer_answers_received_request (infoOf : AMsg → MsgInfo) (w : World) (ops : List Op) (hq : Quiet w)
    (a : AMsg) (s' : St) (cid : Nat) (hr : routeAnswer (run infoOf w ops).st a = .ok (s', cid)) :
    (cid, a.hbh) ∈ reqLog ops := by
  have hinv := C07_pending_sound infoOf [] w ops (WSnd_of_quiet hq)
  rw [List.nil_append] at hinv
  have hS := hinv.1
  generalize (run infoOf w ops).st = s at hS hr
  unfold routeAnswer at hr
  split at hr
  · contradiction
  · rename_i wc l hf
    dsimp only at hr
    split at hr
    · contradiction
    · split at hr
      · contradiction
      · rename_i c hc
        split at hr
        · injection hr with hr
          injection hr with _ h2
          have hmem := List.mem_of_find?_eq_some hf
          have hcont : l.contains a.hbh = true := by have := List.find?_some hf; simpa using this
          have hcid : c.id = wc := by
            have hc' : St.conn? s wc = some c := hc
            exact (conn?_some hc').2
          rw [← h2, hcid]
          apply hS.1
          exact mem_pwm.mpr ⟨(wc, l), hmem, rfl, by simpa using hcont⟩
        · contradiction

/-- …and in particular every answer an application submits through
    `Application.send_answer` (operation `ans`) that is transmitted: if the
    operation grows some connection's write queue then a request with the
    answer's hop-by-hop id was received on a connection of the history. -/
theorem C07_pending_pairs_were_received (infoOf : AMsg → MsgInfo) (w : World) (ops : List Op) (hq : Quiet w) :
    ∀ p ∈ (run infoOf w ops).st.peerWaiting, ∀ h ∈ p.2, (p.1, h) ∈ reqLog ops := by
  have hinv := C07_pending_sound infoOf [] w ops (WSnd_of_quiet hq)
  rw [List.nil_append] at hinv
  intro p hp h hh
  exact hinv.1.1 (p.1, h) (mem_pwm.mpr ⟨p, hp, rfl, hh⟩)

/-- (the premise is met by a node that has not been started) -/
example : Quiet { st := { (default : St) with peerWaiting := [], conns := [] }, inbox := [] } :=
  ⟨rfl, by simp, rfl⟩

/-- non-vacuity: a history in which a request is received, handed to an application and left pending — the
    pending pair is exactly the logged one -/
example : reqLog [Op.accept, Op.rx 0 (.data [{ cmd := 272, flags := 0x80, app := 4, hbh := 77, e2e := 9 }])] = [(0, 77)] := by
  decide

end DV.Node
