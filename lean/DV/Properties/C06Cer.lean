/-
  C06 — "an inbound CER is answered … with result 2001 and the connection
  becomes ready …; with 3010 followed by closing …; with 5010 without becoming
  ready": the readiness half as one statement about `receive_cer`, for every
  state and every CER (known or unknown peer, any application ids, with or
  without Origin-Host, with a Host-IP-Address that does not decode, on a
  connection in any state, with any other connections around — also the ones
  the election of RFC 6733 5.6.4 closes):

      `receive_cer` makes no connection object ready that was not ready before
      — unless it returns normally having queued, on the connection the CER
      came from, a CEA with Result-Code 2001 mirroring the CER's hop-by-hop id.

  So "ready after the CER" implies "the CEA that was sent says 2001", whatever
  else the handler did; in particular a handler that raises (and is then
  answered 5012 by the catch-all) has made nothing ready.  This is the rule the
  direct oracle of `harness/c06.py` applies to the real observations since the
  sixteenth seed round (seed C06-AC moved the raising statement behind
  `_flag_connection_as_ready`).
-/
import DV.Proofs.NodeOutLen
import DV.Proofs.NodeLive
import DV.Proofs.NodeOut
import DV.Proofs.NodeQ
namespace DV.Node

/-- every (id, state) pair of `s'` in a ready state was there in `s` already -/
def NoNewReady (s' s : St) : Prop := ∀ p ∈ s'.stv, p.2.isReady = true → p ∈ s.stv

theorem NoNewReady.refl (s : St) : NoNewReady s s := fun _ h _ => h
theorem NoNewReady.trans {a b c : St} (h1 : NoNewReady a b) (h2 : NoNewReady b c) : NoNewReady a c :=
  fun p hp hr => h2 p (h1 p hp hr) hr
theorem NoNewReady.of_eq {s' s : St} (h : s'.stv = s.stv) : NoNewReady s' s := by
  intro p hp _; rw [h] at hp; exact hp

theorem NoNewReady_modConn (s : St) (i : Nat) (f : Conn → Conn)
    (hf : ∀ c, (f c).id = c.id ∧ ((f c).state.isReady = true → (f c).state = c.state)) : NoNewReady (s.modConn i f) s := by
  intro p hp hr
  simp only [St.stv, St.modConn, List.map_map, List.mem_map, Function.comp] at hp ⊢
  obtain ⟨c, hc, rfl⟩ := hp
  refine ⟨c, hc, ?_⟩
  by_cases hi : (c.id == i) = true
  · simp only [hi, if_true] at hr ⊢
    rw [(hf c).1, (hf c).2 hr]
  · simp only [hi] at hr ⊢
    rfl

theorem NoNewReady_connClose (s : St) (cid : Nat) (b : Bool) : NoNewReady (connClose s cid b) s := by
  have key := NoNewReady_modConn s cid (fun c => { c with state := .closed, workersStopped := true })
    (by intro c; exact ⟨rfl, fun h => by simp [CState.isReady] at h⟩)
  unfold connClose
  split
  · exact key
  · exact key

theorem NoNewReady_foldl {α : Type} (f : St → α → St) (hf : ∀ s a, NoNewReady (f s a) s) (l : List α) (s : St) :
    NoNewReady (l.foldl f s) s := by
  induction l generalizing s with
  | nil => exact NoNewReady.refl s
  | cons a l ih => exact (ih (f s a)).trans (hf s a)

theorem NoNewReady_cerNameAndElect (s : St) (cid : Nat) (h : String) : NoNewReady (cerNameAndElect s cid h).1 s := by
  unfold cerNameAndElect
  have hm : ∀ s : St, NoNewReady (s.modConn cid fun c => { c with nodeName := h }) s :=
    fun s => NoNewReady.of_eq (stv_modConn_tame _ _ _ (by tame))
  have hf : ∀ (l : List Conn) (s : St), NoNewReady (l.foldl (fun s o => connClose s o.id true) s) s :=
    fun l s => NoNewReady_foldl _ (fun s a => NoNewReady_connClose s a.id true) l s
  dsimp only
  split
  · split
    · split
      · exact (hf _ _).trans (hm s)
      · exact hm s
    · split
      · exact hf _ _
      · exact NoNewReady.refl s
  · split
    · exact hf _ _
    · exact NoNewReady.refl s

theorem oql_map_none (s : St) (cid : Nat) (h : s.conn? cid = none) (g : Nat × List AMsg → Nat × List AMsg) :
    (s.oql.map fun p => if p.1 == cid then g p else p) = s.oql := by
  have hn := List.find?_eq_none.mp h
  simp only [St.oql, List.map_map]
  apply List.map_congr_left
  intro c hc
  have := hn c hc
  simp only [Function.comp]
  split
  · rename_i hh; exact absurd hh this
  · rfl

/-- `send_message` appends its message to the queue of every connection object with the given id -/
theorem oql_sendMessage (s : St) (cid : Nat) (m : AMsg) (b : Bool) :
    (sendMessage s cid m b).1.oql = s.oql.map fun p => if p.1 == cid then (p.1, p.2 ++ [m]) else p := by
  unfold sendMessage
  split
  · rename_i hn
    exact (oql_map_none s cid hn _).symm
  · dsimp only
    by_cases hr : m.isRequest = true
    · simp only [hr, Bool.not_true, Bool.false_eq_true, if_false]
      exact oql_append _ _ _
    · have hr' : m.isRequest = false := by simpa using hr
      simp only [hr', Bool.not_false, if_true, oql_recordAnswerState]
      exact oql_append _ _ _

/-- **Ready only with a 2001 CEA.** -/
theorem C06_cer_ready_only_with_2001 (s : St) (cid : Nat) (m : AMsg) (info : MsgInfo) :
    NoNewReady (receiveCer s cid m info).1 s ∨
    ((receiveCer s cid m info).2 = none ∧
      ∃ a : AMsg, a.rc = some 2001 ∧ a.isRequest = false ∧ a.hbh = m.hbh ∧
        (receiveCer s cid m info).1.oql = s.oql.map fun p => if p.1 == cid then (p.1, p.2 ++ [a]) else p) := by
  unfold receiveCer
  have closing : ∀ s1 : St, NoNewReady (s1.modConn cid fun c => { c with state := .closing }) s1 :=
    fun s1 => NoNewReady_modConn s1 cid _ (by intro c; exact ⟨rfl, fun h => by simp [CState.isReady] at h⟩)
  have snd : ∀ (s1 : St) (a : AMsg) (b : Bool), NoNewReady (sendMessage s1 cid a b).1 s1 :=
    fun s1 a b => NoNewReady.of_eq (stv_sendMessage _ _ _ _)
  split
  · exact Or.inl (NoNewReady.refl s)
  · dsimp only
    split
    · exact Or.inl ((snd _ _ _).trans (closing s))
    · split
      · exact Or.inl ((snd _ _ _).trans ((closing _).trans (NoNewReady_cerNameAndElect s cid _)))
      · split
        · exact Or.inl ((snd _ _ _).trans (NoNewReady_cerNameAndElect s cid _))
        · split
          · exact Or.inl ((NoNewReady.of_eq (stv_modConn_tame _ _ _ (by tame))).trans (NoNewReady_cerNameAndElect s cid _))
          · right
            refine ⟨?_, ({ ({ generateAnswer s m info none with cea := ceaSummary s } : AMsg) with rc := some 2001 } : AMsg), rfl, ?_, ?_, ?_⟩
            · have hok : ∀ s1 : St, (sendMessage s1 cid
                  ({ ({ generateAnswer s m info none with cea := ceaSummary s } : AMsg) with rc := some 2001 } : AMsg) true).2 = true :=
                fun s1 => sendMessage_ok s1 cid _ true rfl
              simp only [hok, if_true]
            · show (generateAnswer s m info none).isRequest = false
              exact generateAnswer_isAnswer _ _ _ _ _
            · show (generateAnswer s m info none).hbh = m.hbh
              exact generateAnswer_hbh _ _ _ _ _
            · rw [oql_sendMessage, oql_flagReady, oql_assignPeerConnection, oql_modConn_tame _ _ _ (by tame), oql_cerNameAndElect]

/-- the second alternative occurs: a known peer with a common application on a connected connection -/
example :
    let c : Conn := { id := 0, dir := .recv, state := .connected, lastRead := 0, hbh := 1 }
    let p : Peer := { name := "peer1.x", realm := "r", persistent := false, always := false, wait := 30, hasAddr := true,
                      ceaTo := none, cerTo := none, dwaTo := none, idleTo := none }
    let a : App := { id := 4, auth := true, acct := false, kind := .basic, maxThreads := 0 }
    let s : St := { (default : St) with conns := [c], connections := [0], peerSockets := [0], peers := [p], apps := [a] }
    let m : AMsg := { cmd := 257, flags := 0x80, app := 0, hbh := 7, e2e := 9, oh := some "peer1.x", auth := [4] }
    let r := receiveCer s 0 m { (default : MsgInfo) with typed := true, ansTyped := true }
    (r.1.conns.map fun c => (c.state, c.outQ.map (·.rc))) = [(.ready, [some 2001])] ∧ r.2.isNone = true := by
  decide +kernel

/-! ### the other direction: the CEA on a connection the node dialled -/

theorem NoNewReady_closeConnectionSocket (s : St) (cid : Nat) (r : Reason) : NoNewReady (closeConnectionSocket s cid r) s := by
  have hrm : ∀ s1 : St, NoNewReady (removePeerConnection s1 cid r) s1 :=
    fun s1 => NoNewReady.of_eq (by unfold St.stv; rw [removePeerConnection_conns])
  unfold closeConnectionSocket
  split
  · exact (hrm _).trans ((NoNewReady_connClose _ _ _).trans (NoNewReady.of_eq (stv_modConn_tame _ _ _ (by tame))))
  · exact hrm s

/-- **An outbound connection becomes ready only on a 2001 CEA** (one that names its sender), and `receive_cea` queues
    nothing; any other result goes through `close_connection_socket` with the "rejected" reason. -/
theorem C06_cea_ready_only_with_2001 (s : St) (cid : Nat) (m : AMsg) :
    (receiveCea s cid m).1.oql = s.oql ∧
    (NoNewReady (receiveCea s cid m).1 s ∨ (m.rc = some 2001 ∧ m.oh.isSome = true ∧ (receiveCea s cid m).2 = none)) ∧
    (m.rc ≠ some 2001 → (receiveCea s cid m).1 = closeConnectionSocket s cid .rejected) := by
  refine ⟨oql_receiveCea s cid m, ?_, ?_⟩
  · unfold receiveCea
    split
    · exact Or.inl (NoNewReady_closeConnectionSocket s cid _)
    · rename_i hrc
      have hrc' : m.rc = some 2001 := by simpa using hrc
      split
      · exact Or.inl (NoNewReady.refl s)
      · rename_i oh hoh
        exact Or.inr ⟨hrc', by rw [hoh]; rfl, rfl⟩
  · intro h
    unfold receiveCea
    have : (m.rc != some 2001) = true := by simpa using h
    simp only [this, if_true]

end DV.Node
