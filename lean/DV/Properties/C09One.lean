/-
  C09 — "an answer submitted by an application is transmitted only on the
  connection on which the corresponding request arrived; if that connection has
  closed or is no longer ready the submission fails … and nothing is
  transmitted to any peer": `Application.send_answer`, for every state and every
  answer (built from any request, with any result code):

  * when `route_answer` refuses it (no pending request with that hop-by-hop id,
    the connection gone, not registered, not in a ready state) **no write queue
    of any connection changes**;
  * when `route_answer` accepts it, exactly the connection objects with the id
    `route_answer` chose — a registered, ready connection with that hop-by-hop id
    booked on it (`C09_routed_conn`) — have exactly this answer appended to
    their write queue, and every other queue is as it was.
-/
import DV.Properties.C09
import DV.Properties.C06Cer
namespace DV.Node

theorem oql_routeAnswerSideEffect (s : St) (m : AMsg) : (routeAnswerSideEffect s m).oql = s.oql := by
  unfold routeAnswerSideEffect
  split <;> rfl

theorem oql_routeAnswer (s s' : St) (m : AMsg) (cid : Nat) (h : routeAnswer s m = .ok (s', cid)) : s'.oql = s.oql := by
  unfold routeAnswer at h
  simp only [] at h
  repeat (first | contradiction | split at h)
  all_goals (first | contradiction | (injection h with h; injection h with h1 h2; subst h1; rfl))

/-- **Refused: nothing is queued anywhere.** -/
theorem C09_refused_answer_queues_nothing (s : St) (ai : Nat) (req : AMsg) (info : MsgInfo) (rc : Option Nat) (e : Exn)
    (h : routeAnswer s (generateAnswer s req info rc) = .error e) :
    (appSendAnswer s ai req info rc).oql = s.oql := by
  unfold appSendAnswer
  simp only [h]
  exact oql_routeAnswerSideEffect _ _

/-- **Accepted: exactly this answer, on exactly the chosen connection.** -/
theorem C09_accepted_answer_goes_to_the_chosen_connection_only (s s1 : St) (ai : Nat) (req : AMsg) (info : MsgInfo)
    (rc : Option Nat) (cid : Nat) (h : routeAnswer s (generateAnswer s req info rc) = .ok (s1, cid)) :
    (appSendAnswer s ai req info rc).oql =
      s.oql.map fun p => if p.1 == cid then (p.1, p.2 ++ [generateAnswer s req info rc]) else p := by
  unfold appSendAnswer
  simp only [h]
  have h1 := oql_routeAnswer s s1 _ cid h
  split
  · show (sendMessage s1 cid _ _).1.oql = _
    rw [oql_sendMessage, h1]
  · show (sendMessage s1 cid _ _).1.oql = _
    rw [oql_sendMessage, h1]

/-- both cases occur: the answer to a pending request goes onto the requester's queue; a second answer to the same
    request is refused and queues nothing -/
example :
    let c : Conn := { id := 0, dir := .recv, state := .ready, lastRead := 0, hbh := 41, nodeName := "peer1.x" }
    let c1 : Conn := { id := 1, dir := .recv, state := .ready, lastRead := 0, hbh := 1, nodeName := "peer2.x" }
    let cfg : Cfg := { host := "node.local", realm := "r", listen := true, stateId := 1 }
    let s : St := { (default : St) with cfg := cfg, conns := [c, c1], connections := [0, 1], peerSockets := [0, 1],
                                        peerWaiting := [(0, [7])] }
    let req : AMsg := { cmd := 272, flags := 0xc0, app := 4, hbh := 7, e2e := 9 }
    let info : MsgInfo := { (default : MsgInfo) with typed := true, ansTyped := true }
    let s1 := appSendAnswer s 0 req info (some 2001)
    ((s1.conns.map fun c => c.outQ.map fun x => (x.hbh, x.rc)) = [[(7, some 2001)], []]) ∧
    (((appSendAnswer s1 0 req info (some 2001)).conns.map fun c => c.outQ.length) = [1, 0]) := by
  decide +kernel

end DV.Node
