/-
  C17 — "… is answered 5012 by the node itself and is not delivered to any
  application again": the T-flagged repeat of an answered request, as one
  statement about `_receive_message` for every state in which the request's
  origin and end-to-end identifier are in the window of answered requests:
  nothing is handed to any application (neither a handler call nor an entry in a
  threading application's receive queue), and exactly one message is queued —
  on the connection the request came from: the 5012 answer built from it.
-/
import DV.Properties.C17
import DV.Properties.C06Cer
import DV.Properties.C08One
namespace DV.Node

theorem C17_rejected_duplicate_is_answered_not_delivered (s : St) (cid : Nat) (m : AMsg) (info : MsgInfo)
    (hr : m.isRequest = true) (hv : info.validateRaises = false) (hm : info.missing = [])
    (hoh : info.hasOH = true) (ht : m.isRetransmit = true)
    (hw : answeredInWindow (recordOrigin s cid m info) m = true) :
    let s' := receiveMessage s cid m info
    s'.appRequests = s.appRequests ∧ s'.tapps = s.tapps ∧
    ∃ a : AMsg, a.rc = (if info.ansTyped then some 5012 else none) ∧ a.isRequest = false ∧ a.hbh = m.hbh ∧ a.e2e = m.e2e ∧
      a.cmd = m.cmd ∧ s'.oql = s.oql.map fun p => if p.1 == cid then (p.1, p.2 ++ [a]) else p := by
  intro s'
  have hs' : s' = (sendMessage (recordOrigin s cid m info) cid
      (generateAnswer (recordOrigin s cid m info) m info (some 5012)) info.ansTyped).1 := by
    show receiveMessage s cid m info = _
    rw [C17_reject s cid m info hr hv hm hoh ht hw]
    simp only [sendMessage_generated_ok, if_true]
  refine ⟨?_, ?_, generateAnswer (recordOrigin s cid m info) m info (some 5012), ?_, ?_, ?_, ?_, ?_, ?_⟩
  · rw [hs', appRequests_sendMessage, appRequests_recordOrigin]
  · rw [hs', tapps_sendMessage, tapps_recordOrigin]
  · unfold generateAnswer; split <;> simp_all
  · exact generateAnswer_isAnswer _ _ _ _ _
  · exact generateAnswer_hbh _ _ _ _ _
  · unfold generateAnswer; split <;> rfl
  · unfold generateAnswer; split <;> rfl
  · rw [hs', oql_sendMessage, oql_recordOrigin]

/-- the hypotheses are met: origin peer1.x has been answered end-to-end id 9, and the request is repeated with the T flag -/
example :
    let c : Conn := { id := 0, dir := .recv, state := .ready, lastRead := 0, hbh := 1, nodeName := "peer1.x" }
    let s : St := { (default : St) with conns := [c], connections := [0], peerSockets := [0],
                                        sentAnswers := [(some "peer1.x", (10, [5, 9]))] }
    let m : AMsg := { cmd := 272, flags := 0xd0, app := 4, hbh := 7, e2e := 9, oh := some "peer1.x", dr := some "r" }
    let info : MsgInfo := { (default : MsgInfo) with typed := true, hasOH := true, hasDR := true, ansTyped := true }
    m.isRequest = true ∧ m.isRetransmit = true ∧ answeredInWindow (recordOrigin s 0 m info) m = true ∧
      ((receiveMessage s 0 m info).conns.map fun c => c.outQ.map (·.rc)) = [[some 5012]] := by
  decide +kernel

end DV.Node
