/-
  C09 — over whole histories: the connection `route_answer` chooses for an
  application's answer is one on which a request with the answer's hop-by-hop
  identifier was received (instances of the invariant of Properties/C07Hist.lean,
  proved by induction over every sequence of operations of the node model).
-/
import DV.Properties.C07Hist
namespace DV.Node

/-- After any history from a quiet world: `route_answer` sends an answer only to
    a connection whose socket delivered a request with that hop-by-hop id. -/
theorem C09_routed_only_to_a_requesting_connection (infoOf : AMsg → MsgInfo) (w : World) (ops : List Op) (hq : Quiet w)
    (a : AMsg) (s' : St) (cid : Nat) (hr : routeAnswer (run infoOf w ops).st a = .ok (s', cid)) :
    (cid, a.hbh) ∈ reqLog ops :=
  C07_routed_answer_answers_received_request infoOf w ops hq a s' cid hr

/-- After any history from a quiet world: the pending-answer table of a
    connection lists only hop-by-hop ids of requests received on that connection. -/
theorem C09_pending_pairs_were_received (infoOf : AMsg → MsgInfo) (w : World) (ops : List Op) (hq : Quiet w) :
    ∀ p ∈ (run infoOf w ops).st.peerWaiting, ∀ h ∈ p.2, (p.1, h) ∈ reqLog ops :=
  C07_pending_pairs_were_received infoOf w ops hq

end DV.Node
