/-
  C13 — "… and reports not ready once none of its configured peers has a
  connection": the other writer of `Application.is_ready`,
  `remove_peer_connection`, for every state.

  `remove_peer_connection(conn)` recomputes the flag of every application that
  occurs in the routing table from the `Peer.connection` records as they are
  *after* the peer of the removed connection has been reset:

  * it never sets an application to ready;
  * an application of the routing table none of whose configured peers has a
    current connection in a ready state reports not ready afterwards;
  * an application with such a peer, and an application that does not occur in
    the routing table, keeps its flag.
-/
import DV.Model.NodeLoop
namespace DV.Node

/-- the peers configured for the application, over all realms (`remove_peer_connection`'s `app_list`) -/
def appPeersOf (s : St) (ai : Nat) : List Nat :=
  s.routes.flatMap fun (_, tbl) => tbl.flatMap fun (k, ps) => if k == RKey.app ai then ps else []

def appInRoutesOf (s : St) (ai : Nat) : Bool :=
  s.routes.any fun (_, tbl) => tbl.any fun (k, _) => k == RKey.app ai

/-- some configured peer of the application has a current connection in a ready state -/
def anyPeerReady (s : St) (ai : Nat) : Bool :=
  (appPeersOf s ai).any fun pi =>
    match s.peers[pi]? with
    | some p => match p.connection with
      | some k => match s.conn? k with
        | some cc => cc.state.isReady
        | none => false
      | none => false
    | none => false

/-- the readiness recomputation at the end of `remove_peer_connection` -/
def recomputeReady (s : St) : List App :=
  s.apps.mapIdx fun ai a =>
    if !(appInRoutesOf s ai) then a
    else if anyPeerReady s ai then a else { a with ready := false }

theorem recomputeReady_spec (s : St) (ai : Nat) (a' : App) (h : (recomputeReady s)[ai]? = some a') :
    ∃ a, s.apps[ai]? = some a ∧ (a'.ready = true → a.ready = true) ∧
      (appInRoutesOf s ai = true → anyPeerReady s ai = false → a'.ready = false) ∧
      ((appInRoutesOf s ai = false ∨ anyPeerReady s ai = true) → a' = a) := by
  unfold recomputeReady at h
  rw [List.getElem?_mapIdx] at h
  cases hl : s.apps[ai]? with
  | none => rw [hl] at h; cases h
  | some a =>
    rw [hl] at h
    simp only [Option.map_some, Option.some.injEq] at h
    subst h
    refine ⟨a, rfl, ?_, ?_, ?_⟩
    · intro hr
      split at hr
      · exact hr
      · split at hr
        · exact hr
        · cases hr
    · intro h1 h2
      simp [h1, h2]
    · intro h12
      rcases h12 with h1 | h2
      · simp [h1]
      · split
        · rfl
        · simp [h2]

/-- **`remove_peer_connection` ends with exactly this recomputation**, applied to the state in which the tables and the
    peer's record have been updated (whose applications are still the old ones). -/
theorem removePeerConnection_apps (s : St) (cid : Nat) (r : Reason) (c : Conn) (hc : s.conn? cid = some c) :
    ∃ s1 : St, s1.apps = s.apps ∧ s1.routes = s.routes ∧ s1.conns = s.conns ∧
      (removePeerConnection s cid r).apps = recomputeReady s1 ∧
      (removePeerConnection s cid r).peers = s1.peers := by
  unfold removePeerConnection
  rw [hc]
  dsimp only
  refine ⟨_, ?_, ?_, ?_, rfl, rfl⟩
  all_goals repeat (first | rfl | split)

/-- **Never set to ready; not ready once no configured peer has a ready current connection.** -/
theorem C13_remove_recomputes_readiness (s : St) (cid : Nat) (r : Reason) (c : Conn) (hc : s.conn? cid = some c)
    (ai : Nat) (a' : App) (h : (removePeerConnection s cid r).apps[ai]? = some a') :
    ∃ a, s.apps[ai]? = some a ∧ (a'.ready = true → a.ready = true) ∧
      ∃ s1 : St, s1.routes = s.routes ∧ s1.conns = s.conns ∧ s1.peers = (removePeerConnection s cid r).peers ∧
        (appInRoutesOf s1 ai = true → anyPeerReady s1 ai = false → a'.ready = false) ∧
        ((appInRoutesOf s1 ai = false ∨ anyPeerReady s1 ai = true) → a' = a) := by
  obtain ⟨s1, h1, h2, h3, h4, h5⟩ := removePeerConnection_apps s cid r c hc
  rw [h4] at h
  obtain ⟨a, ha, m1, m2, m3⟩ := recomputeReady_spec s1 ai a' h
  exact ⟨a, h1 ▸ ha, m1, s1, h2, h3, h5.symm, m2, m3⟩

/-- it happens: the only peer of the application loses its connection — the application reports not ready, the peer's
    record is emptied and carries the reason -/
example :
    let c : Conn := { id := 0, dir := .recv, state := .ready, lastRead := 0, hbh := 1, nodeName := "peer1.x" }
    let p : Peer := { name := "peer1.x", realm := "r", persistent := false, always := false, wait := 30, hasAddr := true,
                      ceaTo := none, cerTo := none, dwaTo := none, idleTo := none, connection := some 0 }
    let a : App := { id := 4, auth := true, acct := false, kind := .basic, maxThreads := 0, ready := true }
    let s : St := { (default : St) with conns := [c], connections := [0], peerSockets := [0], peers := [p], apps := [a],
                                        routes := [("r", [(.app 0, [0])])] }
    let s' := removePeerConnection s 0 .gone
    (s'.apps.map (·.ready)) = [false] ∧ (s'.peers.map fun p => (p.connection, p.reason)) = [(none, some .gone)] ∧
      s'.connections = [] := by
  decide +kernel

end DV.Node
