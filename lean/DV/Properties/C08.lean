/-
  C08 — Requests reach exactly the matching application, else the specified error.
-/
import DV.Proofs.NodeQ
namespace DV.Node

/-- A request with missing required AVPs is answered 5005 by the node itself —
    Failed-AVP listing exactly the missing AVPs where the answer class provides
    for one — and nothing else happens: no handler runs (the state is exactly
    the bookkeeping of that one answer). -/
theorem C08_missing (s : St) (cid : Nat) (m : AMsg) (info : MsgInfo)
    (hr : m.isRequest = true) (hv : info.validateRaises = false) (hm : info.missing ≠ []) :
    receiveMessage s cid m info =
      (let s1 := recordOrigin s cid m info
       let r := sendMessage s1 cid (generateAnswer s1 m info (some 5005) info.missing) info.ansTyped
       if r.2 then r.1 else crashReader r.1 cid "TypeError") ∧
    (generateAnswer (recordOrigin s cid m info) m info (some 5005) info.missing).rc =
      (if info.ansTyped then some 5005 else none) ∧
    (generateAnswer (recordOrigin s cid m info) m info (some 5005) info.missing).fa =
      (if info.ansTyped && info.ansHasFA then info.missing else []) := by
  have hne : info.missing.isEmpty = false := by
    cases h : info.missing with
    | nil => exact absurd h hm
    | cons a b => rfl
  refine ⟨?_, ?_, ?_⟩
  · simp [receiveMessage, hr, hv, hne]
  · unfold generateAnswer; split <;> simp_all
  · unfold generateAnswer; split <;> simp_all

/-- A request for a realm the node does not serve is answered 3003. -/
theorem C08_realm_not_served (s : St) (cid : Nat) (c : Conn) (m : AMsg) (info : MsgInfo) (realm : String)
    (hc : s.conn? cid = some c) (hdr : info.hasDR = true) (hm : m.dr = some realm)
    (hroute : s.routes.find? (·.1 == realm) = none) :
    receiveAppRequest s cid m info =
      (let r := sendMessage s cid (generateAnswer s m info (some 3003)) info.ansTyped
       (r.1, if r.2 then none else some Exn.typeError)) := by
  simp [receiveAppRequest, hc, hdr, hm, hroute]

end DV.Node
