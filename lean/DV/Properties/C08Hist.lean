/-
  C08 — "capabilities-exchange, watchdog and disconnect messages are never
  handed to applications", over whole histories.  For every sequence of
  operations of the node model (any messages in any chunking on connections in
  any state, faults, timers, worker pumps in any order, handler threads in any
  order, application calls, stop), in every state reached: every message that
  has ever been handed to an application's request handler (`appRequests`, an
  append-only log), that waits in a threading application's receive queue, or
  that a started handler thread holds, is a **request** whose command is none
  of CER (257), DWR (280), DPR (282) — so neither a base-protocol message nor
  an answer ever reaches `handle_request`.
-/
import DV.Proofs.NodeAppInv
namespace DV.Node

theorem AR_applyOp (infoOf : AMsg → MsgInfo) (w : World) (o : Op) (h : AR w.st) : AR (applyOp infoOf w o).st := by
  cases o with
  | start plan =>
    simp only [applyOp]
    apply AR_foldl
    · intro s a hs
      repeat (first | exact hs | exact AR_same hs (by simp) (by simp) (by simp) | split)
    · exact AR_same h rfl rfl rfl
  | accept => exact AR_ioIteration _ h
  | rx cid e => simp only [applyOp, pushRx]; repeat (first | exact h | split)
  | wr cid evs => simp only [applyOp]; repeat (first | exact h | split | dsimp only)
  | block cid b => simp only [applyOp]; split <;> exact h
  | sethbh cid v => exact AR_same h rfl rfl rfl
  | anon cid => exact AR_same h rfl rfl rfl
  | dial plan => exact AR_same h rfl rfl rfl
  | conn cid ok => exact AR_same h rfl rfl rfl
  | adv dt => exact AR_same h rfl rfl rfl
  | io => exact AR_ioIteration w h
  | pump => exact AR_pumpAll infoOf _ h
  | settle n => exact AR_settle infoOf n w h
  | hold ai v => exact AR_modTApp h _ _ (fun t m hm => hm)
  | outcome ai o => exact AR_modTApp (AR_same h rfl rfl rfl) _ _ (fun t m hm => hm)
  | handler k => exact AR_runHandler infoOf _ k h
  | ans ai req rc => exact AR_same h (by simp [applyOp]) (by simp [applyOp]) (by simp [applyOp])
  | reqBegin ai m => exact AR_same h (by simp [applyOp]) (by simp [applyOp]) (by simp [applyOp])
  | reqEnd ai hbh t =>
    simp only [applyOp]
    split <;> exact AR_same h rfl rfl rfl
  | stopBegin f => exact AR_same h (by simp [applyOp]) (by simp [applyOp]) (by simp [applyOp])
  | stopFinal => exact AR_same h (by simp [applyOp]) (by simp [applyOp]) (by simp [applyOp])
  | note o => exact AR_same h rfl rfl rfl
  | flush => exact AR_same h rfl rfl rfl

/-- **Every reachable state.** -/
theorem C08_only_app_requests_reach_applications (infoOf : AMsg → MsgInfo) (w : World) (ops : List Op) (h : AR w.st) :
    AR (run infoOf w ops).st := by
  unfold run
  induction ops generalizing w with
  | nil => exact h
  | cons o ops ih => exact ih _ (AR_applyOp infoOf w o h)

/-- (read out) after any history from a world in which no application has been handed anything: whatever
    `handle_request` has been called with is a request, and not a CER, DWR or DPR. -/
theorem C08_base_protocol_never_handed_to_applications (infoOf : AMsg → MsgInfo) (w : World) (ops : List Op)
    (h0 : w.st.appRequests = [] ∧ (∀ t ∈ w.st.tapps, t.recvQ = []) ∧ w.st.deferred = []) :
    ∀ p ∈ (run infoOf w ops).st.appRequests, p.2.isRequest = true ∧ p.2.cmd ≠ 257 ∧ p.2.cmd ≠ 280 ∧ p.2.cmd ≠ 282 := by
  have hAR : AR w.st := by
    refine ⟨?_, ?_, ?_⟩
    · intro p hp; rw [h0.1] at hp; exact absurd hp (List.not_mem_nil)
    · intro t ht m hm; rw [h0.2.1 t ht] at hm; exact absurd hm (List.not_mem_nil)
    · intro p hp; rw [h0.2.2] at hp; exact absurd hp (List.not_mem_nil)
  exact (C08_only_app_requests_reach_applications infoOf w ops hAR).1

/-- (the premise is met by a node that has not been started) -/
example : (default : St).appRequests = [] ∧ (∀ t ∈ (default : St).tapps, t.recvQ = []) ∧ (default : St).deferred = [] :=
  ⟨rfl, fun t ht => absurd ht (List.not_mem_nil), rfl⟩

end DV.Node
