/-
  C08 — "… 3007 when no application matches, 5012 when handling fails": the two
  error rules that Properties/C08.lean does not state (it has 5005 and 3003),
  for every state.
-/
import DV.Properties.C17One
namespace DV.Node

/-- the application `_receive_app_request` picks from the realm's table: the first one with the request's application id
    that is configured for the request's peer (any, when the connection resolves to no configured peer) -/
def pickApp (s : St) (peer : Option Nat) (m : AMsg) (tbl : List (RKey × List Nat)) : Option Nat :=
  tbl.findSome? fun (k, ps) =>
    match k with
    | .app ai =>
      match s.apps[ai]? with
      | some a =>
        if a.id == m.app then
          match peer with
          | some pi => if ps.contains pi then some ai else none
          | none => some ai
        else none
      | none => none
    | .dflt => none

/-- **No application matches: 3007**, the application sees nothing. -/
theorem C08_no_matching_application_3007 (s : St) (cid : Nat) (c : Conn) (m : AMsg) (info : MsgInfo) (realm : String)
    (tbl : List (RKey × List Nat)) (rn : String)
    (hc : s.conn? cid = some c) (hdr : info.hasDR = true) (hm : m.dr = some realm)
    (hroute : s.routes.find? (·.1 == realm) = some (rn, tbl))
    (hpick : pickApp s (findConnectionPeer s c) m tbl = none) :
    receiveAppRequest s cid m info =
      (let r := sendMessage s cid (generateAnswer s m info (some 3007)) info.ansTyped
       (r.1, if r.2 then none else some Exn.typeError)) := by
  unfold receiveAppRequest
  simp only [hc, hdr, hm, hroute, Bool.not_true, Bool.false_eq_true, if_false]
  split
  · rename_i ai h
    have h' : pickApp s (findConnectionPeer s c) m tbl = some ai := h
    rw [hpick] at h'
    cases h'
  · rfl

/-- a command without Destination-Realm attribute: 3007 as well -/
theorem C08_no_destination_realm_attribute_3007 (s : St) (cid : Nat) (c : Conn) (m : AMsg) (info : MsgInfo)
    (hc : s.conn? cid = some c) (hdr : info.hasDR = false) :
    receiveAppRequest s cid m info =
      (let r := sendMessage s cid (generateAnswer s m info (some 3007)) info.ansTyped
       (r.1, if r.2 then none else some Exn.typeError)) := by
  simp [receiveAppRequest, hc, hdr]

/-- **Handling fails: 5012.**  Whatever the handler of a request raised (and whatever it had done to the state before),
    `_receive_message` answers with exactly one message on the request's connection — the answer built from the request
    with Result-Code 5012 (when the answer class is typed) —, hands the request to no further application, and lets no
    exception escape. -/
theorem C08_failed_handling_answered_5012 (s s1 : St) (cid : Nat) (m : AMsg) (info : MsgInfo) (e : Exn)
    (hr : m.isRequest = true) (hv : info.validateRaises = false) (hm : info.missing = [])
    (hnd : m.isRetransmit = false ∨ info.hasOH = false ∨ answeredInWindow (recordOrigin s cid m info) m = false)
    (hh : handleByCommand (recordOrigin s cid m info) cid m info = (s1, some e)) :
    let s' := receiveMessage s cid m info
    s'.appRequests = s1.appRequests ∧ s'.tapps = s1.tapps ∧ s'.crashed = s1.crashed ∧
    ∃ a : AMsg, a.rc = (if info.ansTyped then some 5012 else none) ∧ a.isRequest = false ∧ a.hbh = m.hbh ∧ a.e2e = m.e2e ∧
      a.cmd = m.cmd ∧ s'.oql = s1.oql.map fun p => if p.1 == cid then (p.1, p.2 ++ [a]) else p := by
  intro s'
  have hs' : s' = (sendMessage s1 cid (generateAnswer s1 m info (some 5012)) info.ansTyped).1 := by
    show receiveMessage s cid m info = _
    rw [C17_no_false_reject s cid m info hr hv hm hnd, hh]
    simp only [sendMessage_generated_ok, if_true]
  refine ⟨?_, ?_, ?_, generateAnswer s1 m info (some 5012), ?_, ?_, ?_, ?_, ?_, ?_⟩
  · rw [hs', appRequests_sendMessage]
  · rw [hs', tapps_sendMessage]
  · rw [hs', crashed_sendMessage]
  · unfold generateAnswer; split <;> simp_all
  · exact generateAnswer_isAnswer _ _ _ _ _
  · exact generateAnswer_hbh _ _ _ _ _
  · unfold generateAnswer; split <;> rfl
  · unfold generateAnswer; split <;> rfl
  · rw [hs', oql_sendMessage]

/-- … and a basic application's handler that raises is such a failure: the request has been handed to it (once), the
    node's pending entry is there, and `handleByCommand` reports the exception -/
theorem C08_raising_handler_is_reported (s : St) (ai : Nat) (m : AMsg) (a : App)
    (ha : s.apps[ai]? = some a) (hk : a.kind = .basic) (hraise : a.raiseOnRequest = true) :
    (appReceiveRequest s ai m).2 = some Exn.other ∧
    (appReceiveRequest s ai m).1.appRequests = s.appRequests ++ [(ai, m)] := by
  unfold appReceiveRequest
  simp [ha, hk, hraise, St.emit]

end DV.Node
