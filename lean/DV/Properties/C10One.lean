/-
  C10 — "when none exists the not-routable error is raised and nothing is sent;
  each request leaves with a non-zero hop-by-hop identifier":
  `Application.send_request` up to the point where the sender blocks, for every
  state and every request handed to it:

  * when routing fails (no route for the realm, no configured peer, none with a
    ready connection, an AVP the routing reads missing) **no write queue of any
    connection changes**;
  * when it succeeds, exactly the connection objects with the id `route_request`
    chose have exactly the request — as it leaves: with the identifiers the
    node filled in — appended to their write queue, every other queue is as it
    was, and that request's hop-by-hop and end-to-end identifiers are not zero
    (given the application did not hand over a request with a zero identifier
    that the node does not replace: a zero field *is* replaced).

  Which connection that is (a ready connection of an eligible peer, the
  least-used one) is `C10_eligible`.
-/
import DV.Properties.C10
import DV.Properties.C06Cer
namespace DV.Node

theorem seqNext_ne_zero (n : Nat) : seqNext n ≠ 0 := by
  unfold seqNext; split <;> omega

theorem oql_routeRequest (s s' : St) (ai : Nat) (m m' : AMsg) (info : MsgInfo) (cid : Nat)
    (h : routeRequest s ai m info = .ok (s', cid, m')) : s'.oql = s.oql := by
  unfold routeRequest at h
  simp only [] at h
  repeat (first | contradiction | split at h)
  all_goals (injection h with h; injection h with h1 h2; subst h1)
  all_goals repeat (first | rfl | split | exact oql_modConn_tame _ _ _ (by tame))

theorem routeRequest_hbh_ne_zero (s s' : St) (ai : Nat) (m m' : AMsg) (info : MsgInfo) (cid : Nat)
    (h : routeRequest s ai m info = .ok (s', cid, m')) : m'.hbh ≠ 0 ∧ m'.e2e = m.e2e := by
  unfold routeRequest at h
  simp only [] at h
  repeat (first | contradiction | split at h)
  all_goals (injection h with h; injection h with h1 h2; injection h2 with h3 h4; subst h4)
  all_goals first
    | exact ⟨seqNext_ne_zero _, rfl⟩
    | (refine ⟨?_, rfl⟩; simp_all)

/-- **Not routable: nothing is queued anywhere.** -/
theorem C10_unroutable_request_queues_nothing (s : St) (ai : Nat) (m : AMsg) (info : MsgInfo) (e : Exn)
    (h : (appSendRequestBegin s ai m info).2 = .error e) : (appSendRequestBegin s ai m info).1.oql = s.oql := by
  unfold appSendRequestBegin at h ⊢
  dsimp only at h ⊢
  split
  · split <;> rfl
  · rename_i heq
    rw [heq] at h
    cases h

/-- **Routed: exactly this request, on exactly the chosen connection, with non-zero identifiers.** -/
theorem C10_routed_request_goes_to_one_connection (s : St) (ai : Nat) (m m' : AMsg) (info : MsgInfo)
    (h : (appSendRequestBegin s ai m info).2 = .ok m') :
    m'.hbh ≠ 0 ∧ m'.e2e ≠ 0 ∧
    ∃ cid, (appSendRequestBegin s ai m info).1.oql = s.oql.map fun p => if p.1 == cid then (p.1, p.2 ++ [m']) else p := by
  unfold appSendRequestBegin at h ⊢
  dsimp only at h ⊢
  split
  · rename_i heq
    rw [heq] at h
    cases h
  · rename_i s1 cid m1 heq
    rw [heq] at h
    simp only [Except.ok.injEq] at h
    subst h
    have hq := oql_routeRequest _ _ _ _ _ _ _ heq
    have hh := routeRequest_hbh_ne_zero _ _ _ _ _ _ _ heq
    refine ⟨hh.1, ?_, cid, ?_⟩
    · rw [hh.2]
      split <;> split <;> simp_all [seqNext_ne_zero]
    · rw [oql_sendMessage]
      show (s1.modApp ai _).oql.map _ = _
      have : (s1.modApp ai fun a => { a with answerWaiting := if a.answerWaiting.contains m1.hbh then a.answerWaiting else a.answerWaiting ++ [m1.hbh] }).oql = s1.oql := rfl
      rw [this, hq]
      split <;> rfl

/-- **An answer goes to the application that sent the request, to no other**: `_receive_app_answer` looks the
    application up under the answer's (hop-by-hop, end-to-end) pair; without an entry nothing happens at all; with
    one, that application — and only that one — either has the answer handed to its blocked sender or has its
    unexpected-answer handler called with it. -/
theorem C10_answer_only_to_the_sending_application (s : St) (m : AMsg) :
    (s.appWaiting.find? (·.1 == (m.hbh, m.e2e)) = none ∧ receiveAppAnswer s m = s) ∨
    ∃ k ai, s.appWaiting.find? (·.1 == (m.hbh, m.e2e)) = some (k, ai) ∧
      (((receiveAppAnswer s m).delivered = s.delivered ++ [(ai, m)] ∧ (receiveAppAnswer s m).outs = s.outs) ∨
       ((receiveAppAnswer s m).delivered = s.delivered ∧ (receiveAppAnswer s m).outs = s.outs ++ [Out.appAns ai m]) ∨
       receiveAppAnswer s m = s) := by
  unfold receiveAppAnswer
  split
  · rename_i h; exact Or.inl ⟨h, rfl⟩
  · rename_i k ai h
    refine Or.inr ⟨k, ai, h, ?_⟩
    unfold appReceiveAnswer
    split
    · split
      · exact Or.inl ⟨rfl, rfl⟩
      · exact Or.inr (Or.inl ⟨rfl, rfl⟩)
    · exact Or.inr (Or.inr rfl)

/-- both cases occur: with a ready connection of the application's peer the request is queued on it with the next
    hop-by-hop id of that connection; with the connection not ready it is refused and nothing is queued -/
example :
    let c : Conn := { id := 0, dir := .recv, state := .ready, lastRead := 0, hbh := 41, nodeName := "peer1.x" }
    let p : Peer := { name := "peer1.x", realm := "r", persistent := false, always := false, wait := 30, hasAddr := true,
                      ceaTo := none, cerTo := none, dwaTo := none, idleTo := none, connection := some 0 }
    let a : App := { id := 4, auth := true, acct := false, kind := .basic, maxThreads := 0 }
    let cfg : Cfg := { host := "node.local", realm := "r", listen := true, stateId := 1 }
    let s : St := { (default : St) with cfg := cfg, conns := [c], connections := [0], peerSockets := [0], peers := [p], apps := [a],
                                        routes := [("r", [(.app 0, [0])])], e2e := 100 }
    let s2 : St := { s with conns := [{ c with state := .disconnecting }] }
    let m : AMsg := { cmd := 272, flags := 0xc0, app := 0, hbh := 0, e2e := 0, dr := some "r" }
    let info : MsgInfo := { (default : MsgInfo) with typed := true, hasDR := true }
    (((appSendRequestBegin s 0 m info).1.conns.map fun c => c.outQ.map fun x => (x.hbh, x.e2e, x.app)) = [[(42, 101, 4)]]) ∧
    (((appSendRequestBegin s2 0 m info).1.conns.map fun c => c.outQ.length) = [0]) ∧
    (match (appSendRequestBegin s2 0 m info).2 with | .error .notRoutable => true | _ => false) = true := by
  decide +kernel

end DV.Node
