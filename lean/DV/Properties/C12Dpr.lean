/-
  C12 — "a received DPR is answered with a 2001 DPA, after which the connection
  is no longer offered for routing": for every state, a Disconnect-Peer-Request
  arriving on a connection that is READY or READY_WAITING_DWA

  * is answered by exactly one message on that connection — the answer built
    from the request (same command, hop-by-hop and end-to-end identifiers, R bit
    clear) with Result-Code 2001,
  * leaves every connection object with that id in DISCONNECTING — a state that
    is not one of the two ready states `route_request` and `route_answer` accept
    (`C12_disconnecting_not_ready`) — and every other connection as it was,
  * and hands nothing to an application.

  (That the peer's disconnect reason records the DPR is `C12_dpr`; that the
  record survives the close that follows is `C12_reason_kept` and C13Hist.)
-/
import DV.Properties.C11Dwr
namespace DV.Node

theorem C12_disconnecting_not_ready : CState.disconnecting.isReady = false := rfl

theorem handleByCommand_dpr (s0 : St) (cid : Nat) (m : AMsg) (info : MsgInfo) (hcmd : m.cmd = 282) (hr : m.isRequest = true) :
    ∃ s1 : St, s1.stv = s0.stv ∧ s1.appRequests = s0.appRequests ∧ s1.tapps = s0.tapps ∧ s1.oql = s0.oql ∧
      handleByCommand s0 cid m info = receiveDpr s1 cid m info := by
  refine ⟨(match (s0.conn? cid).bind (findConnectionPeer s0) with
      | some pi => s0.modPeer pi fun p => { p with requests := p.requests + 1 }
      | none => s0), ?_, ?_, ?_, ?_, ?_⟩
  · split <;> rfl
  · split <;> rfl
  · split <;> rfl
  · split <;> rfl
  · unfold handleByCommand
    simp [hr, hcmd]
    congr 1

theorem stv_setState (s : St) (cid : Nat) (st : CState) :
    (s.modConn cid fun c => { c with state := st }).stv = s.stv.map fun p => if p.1 == cid then (p.1, st) else p := by
  simp only [St.stv, St.modConn, List.map_map]
  apply List.map_congr_left
  intro c _
  simp only [Function.comp]
  split <;> rfl

/-- `receive_dpr`: the connection is put into DISCONNECTING, the peer's reason is recorded, one 2001 answer is sent -/
theorem receiveDpr_spec (s1 : St) (cid : Nat) (m : AMsg) (info : MsgInfo) (ht : info.ansTyped = true) :
    ∃ s3 : St, s3.stv = (s1.modConn cid fun c => { c with state := .disconnecting }).stv ∧
      s3.appRequests = s1.appRequests ∧ s3.tapps = s1.tapps ∧ s3.oql = s1.oql ∧
      receiveDpr s1 cid m info = ((sendMessage s3 cid (generateAnswer s1 m info (some 2001)) true).1, none) := by
  refine ⟨(match (s1.modConn cid fun c => { c with state := .disconnecting }).conn? cid with
      | some c => match findConnectionPeer (s1.modConn cid fun c => { c with state := .disconnecting }) c with
        | some i => (s1.modConn cid fun c => { c with state := .disconnecting }).modPeer i fun p => { p with reason := some .dpr }
        | none => s1.modConn cid fun c => { c with state := .disconnecting }
      | none => s1.modConn cid fun c => { c with state := .disconnecting }), ?_, ?_, ?_, ?_, ?_⟩
  · split <;> first | rfl | (split <;> rfl)
  · split <;> first | rfl | (split <;> rfl)
  · split <;> first | rfl | (split <;> rfl)
  · have h0 : (s1.modConn cid fun c => { c with state := .disconnecting }).oql = s1.oql := oql_modConn_tame _ _ _ (by tame)
    split <;> first | exact h0 | (split <;> exact h0)
  · unfold receiveDpr
    simp only [sendMessage_ok _ _ _ _ (generateAnswer_rc_typed _ _ _ _ _ ht), if_true]
    first | rfl | (congr 3) | (congr 4)

theorem C12_dpr_answered_2001_and_connection_disconnecting (s : St) (cid : Nat) (c : Conn) (m : AMsg) (info : MsgInfo)
    (hc : s.conn? cid = some c) (hst : c.state = .ready ∨ c.state = .waitDwa)
    (hcmd : m.cmd = 282) (hr : m.isRequest = true) (hv : info.validateRaises = false) (hm : info.missing = [])
    (hnt : m.isRetransmit = false) (ht : info.ansTyped = true) :
    let s' := dispatchMessage s cid m info
    (s'.stv = s.stv.map fun p => if p.1 == cid then (p.1, CState.disconnecting) else p) ∧
    s'.appRequests = s.appRequests ∧ s'.tapps = s.tapps ∧
    ∃ a : AMsg, a.rc = some 2001 ∧ a.isRequest = false ∧ a.cmd = 282 ∧ a.hbh = m.hbh ∧ a.e2e = m.e2e ∧
      s'.oql = s.oql.map fun p => if p.1 == cid then (p.1, p.2 ++ [a]) else p := by
  intro s'
  have hd : s' = receiveMessage s cid m info := by
    show dispatchMessage s cid m info = _
    unfold dispatchMessage
    rw [hc]
    rcases hst with h | h <;> simp [h]
  have hrm := C17_no_false_reject s cid m info hr hv hm (Or.inl hnt)
  obtain ⟨s1, e1, e2, e3, e4, hh⟩ := handleByCommand_dpr (recordOrigin s cid m info) cid m info hcmd hr
  obtain ⟨s3, v1, v2, v3, v4, hdpr⟩ := receiveDpr_spec s1 cid m info ht
  have hfin : s' = (sendMessage s3 cid (generateAnswer s1 m info (some 2001)) true).1 := by
    rw [hd, hrm, hh, hdpr]
  refine ⟨?_, ?_, ?_, generateAnswer s1 m info (some 2001), ?_, ?_, ?_, ?_, ?_, ?_⟩
  · rw [hfin, stv_sendMessage, v1, stv_setState, e1, stv_recordOrigin]
  · rw [hfin, appRequests_sendMessage, v2, e2, appRequests_recordOrigin]
  · rw [hfin, tapps_sendMessage, v3, e3, tapps_recordOrigin]
  · unfold generateAnswer; simp [ht]
  · exact generateAnswer_isAnswer _ _ _ _ _
  · unfold generateAnswer; simp [ht, hcmd]
  · exact generateAnswer_hbh _ _ _ _ _
  · unfold generateAnswer; simp [ht]
  · rw [hfin, oql_sendMessage, v4, e4, oql_recordOrigin]

/-- the hypotheses are met: a ready connection of a configured peer -/
example :
    let c : Conn := { id := 0, dir := .recv, state := .ready, lastRead := 0, hbh := 1, nodeName := "peer1.x" }
    let p : Peer := { name := "peer1.x", realm := "r", persistent := true, always := false, wait := 30, hasAddr := true,
                      ceaTo := none, cerTo := none, dwaTo := none, idleTo := none, connection := some 0 }
    let s : St := { (default : St) with conns := [c], connections := [0], peerSockets := [0], peers := [p] }
    let m : AMsg := { cmd := 282, flags := 0x80, app := 0, hbh := 7, e2e := 9, oh := some "peer1.x", dc := some 0 }
    let info : MsgInfo := { (default : MsgInfo) with typed := true, hasOH := true, ansTyped := true }
    let s' := dispatchMessage s 0 m info
    (s'.conns.map fun c => (c.state, c.outQ.map fun a => (a.rc, a.hbh))) = [(.disconnecting, [(some 2001, 7)])] ∧
      s'.peers.map (·.reason) = [some .dpr] := by
  decide +kernel

end DV.Node
