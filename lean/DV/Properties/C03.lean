import DV.Model.Decode
namespace DV
end DV
