/-
  C03 — Typed command/grouped attributes map 1:1 onto dictionary AVPs and
  round-trip.

  What is proved here, generically in the tables (instantiated for the
  regenerated tables in C03Tables.lean):
  * `C03_generate_exact` — for an object of any class with any attribute values:
    the generated AVP list is, definition by definition in definition order, the
    AVPs of that definition — each bearing the definition's code, vendor and
    flags (M from the override else the dictionary default), one per set value /
    list element / nested object for values that fit the definition, none for an
    unset attribute — followed by the undeclared AVPs unchanged;
  * `C03_nested` / `C03_nested_list` — a nested object becomes one grouped AVP
    whose payload is the encoding of what is generated for the nested object (so
    the statement applies again at every depth);
  * `C03_scalar_roundtrip` — a set scalar attribute with an in-domain value
    yields one AVP whose payload decodes, through the dictionary's type, to the
    value;
  * `C03_decode_finds_definition` — in a well-formed class an AVP generated for
    a definition is mapped back to that definition and no other.
  The full object-level statement — generate, encode, decode, assign restores
  the object tree, nested containers and lists of containers included — is
  `C03_roundtrip_nested` / `C03_roundtrip_wire` in C03Nested.lean (proved on top
  of the lemmas here).
-/
import DV.Proofs.Typed
import DV.Properties.C01
namespace DV
open Spec

/-- **Generation is exact.** -/
theorem C03_generate_exact (tc : TimeConsts) (dict : DTree) (cs : List ClassDef) (fuel cls : Nat) (c : ClassDef)
    (fields : List (Nat × FVal)) (additional : List Avp) (hc : findClass cs cls = some c)
    (out : List Avp) (h : generateFuel tc dict cs (fuel + 1) (.obj cls fields additional) = .ok out) :
    ∃ parts, out = parts.flatten ++ additional ∧ PerDef dict fields c.defs parts :=
  generate_spec tc dict cs fuel cls c fields additional hc out h

/-- An unset attribute contributes nothing (instance of `PerDef`: a value that
    fits the definition contributes `valCount` AVPs, and `valCount unset = 0`). -/
theorem C03_unset_absent (d : AttrDef) : WellTyped d .unset ∧ valCount .unset = 0 := ⟨trivial, rfl⟩

theorem C03_nested (tc : TimeConsts) (dict : DTree) (cs : List ClassDef) (fuel : Nat) (d : AttrDef)
    (cls : Nat) (fields : List (Nat × FVal)) (additional : List Avp) (out : List Avp)
    (h : genOne tc dict cs fuel d (.obj cls fields additional) = .ok out) :
    ∃ a subs, out = [a] ∧ generateFuel tc dict cs fuel (.obj cls fields additional) = .ok subs ∧
      encodeAvps subs = .ok a.payload :=
  genOne_nested tc dict cs fuel d cls fields additional out h

theorem C03_nested_list (tc : TimeConsts) (dict : DTree) (cs : List ClassDef) (fuel : Nat) (d : AttrDef) (os : List FVal)
    (out : List Avp) (h : genObjs tc dict cs fuel d os = .ok out) : ObjsGen tc dict cs fuel os out :=
  genObjs_nested tc dict cs fuel d os out h

/-- values of the documented domain of each AVP type -/
def InDomain : Ty → Value → Prop
  | .integer32, .int i => -2147483648 ≤ i ∧ i < 2147483648
  | .unsigned32, .int i => 0 ≤ i ∧ i < 4294967296
  | .integer64, .int i => -9223372036854775808 ≤ i ∧ i < 9223372036854775808
  | .unsigned64, .int i => 0 ≤ i ∧ i < 18446744073709551616
  | .float32, .f32 n => n < 4294967296
  | .float64, .f64 n => n < 18446744073709551616
  | .octetString, .bytes _ => True
  | .utf8String, .str s => validUtf8 s = true
  | .time, .time t => timeInDomain t
  | _, _ => False

/-- Value round trip for every plain type (composition of the C01 theorems). -/
theorem value_roundtrip (g : Bool) (ty : Ty) (v : Value) (h : InDomain ty v) :
    ∃ p, setValue rfcTime ty v = .ok p ∧ getValue rfcTime g ty p = .ok v := by
  cases ty <;> cases v <;> simp only [InDomain] at h
  · obtain ⟨h1, h2⟩ := C01_float32_roundtrip rfcTime g _ h; exact ⟨_, h1, h2⟩
  · obtain ⟨h1, h2⟩ := C01_float64_roundtrip rfcTime g _ h; exact ⟨_, h1, h2⟩
  · obtain ⟨p, h1, _, h2⟩ := C01_integer32_roundtrip rfcTime g _ h; exact ⟨p, h1, h2⟩
  · obtain ⟨p, h1, _, h2⟩ := C01_integer64_roundtrip rfcTime g _ h; exact ⟨p, h1, h2⟩
  · obtain ⟨h1, h2⟩ := C01_octetstring_roundtrip rfcTime g _; exact ⟨_, h1, h2⟩
  · obtain ⟨p, h1, _, h2⟩ := C01_unsigned32_roundtrip rfcTime g _ h; exact ⟨p, h1, h2⟩
  · obtain ⟨p, h1, _, h2⟩ := C01_unsigned64_roundtrip rfcTime g _ h; exact ⟨p, h1, h2⟩
  · obtain ⟨h1, h2⟩ := C01_utf8_roundtrip rfcTime g _ h; exact ⟨_, h1, h2⟩
  · obtain ⟨h1, h2⟩ := C01_time_layout_roundtrip g _ h; exact ⟨_, h1, h2⟩

/-- **A set scalar attribute round-trips**: one AVP, and reading its payload
    through the type the dictionary gives for (code, vendor) returns the value. -/
theorem C03_scalar_roundtrip (dict : DTree) (cs : List ClassDef) (fuel : Nat) (g : Bool) (d : AttrDef) (v : Value)
    (e : DictEntry) (he : lookupDict dict d.code d.vendor = some e) (hd : d.tclass = none)
    (hv : InDomain (Ty.ofTag e.ty) v) (out : List Avp)
    (h : genOne rfcTime dict cs fuel d (.scalar v) = .ok out) :
    ∃ a, out = [a] ∧ CarriesDef dict d a ∧ getValue rfcTime g (Ty.ofTag e.ty) a.payload = .ok v := by
  have hna : ∀ l, v ≠ .avps l := by
    intro l hl; subst hl
    cases hty : Ty.ofTag e.ty <;> simp [hty, InDomain] at hv
  obtain ⟨a, e', ha, he', hp⟩ := genOne_scalar rfcTime dict cs fuel d v hd hna out h
  rw [he] at he'; injection he' with he'; subst he'
  obtain ⟨p, hs, hg⟩ := value_roundtrip g (Ty.ofTag e.ty) v hv
  have hsa : setArg rfcTime (Ty.ofTag e.ty) (scalarArg v) = setValue rfcTime (Ty.ofTag e.ty) v := by
    cases v <;> first | rfl | (cases hty : Ty.ofTag e.ty <;> simp [hty, InDomain] at hv)
  rw [hsa, hs] at hp
  injection hp with hp
  refine ⟨a, ha, ?_, by rw [← hp]; exact hg⟩
  have := (genOne_spec rfcTime dict cs fuel d (.scalar v) out h).1
  exact this a (by rw [ha]; simp)

/-- In a class whose definitions are pairwise distinct in (code, vendor) — the
    table obligation — the decoder's lookup maps an AVP of definition `d` back
    to `d` itself. -/
theorem C03_decode_finds_definition (defs : List AttrDef) (hdist : defsDistinct defs = true) (d : AttrDef) (hd : d ∈ defs) :
    neededDef defs d.code d.vendor = some d := by
  unfold neededDef
  induction defs with
  | nil => cases hd
  | cons x xs ih =>
    simp only [defsDistinct, Bool.and_eq_true, List.all_eq_true] at hdist
    rw [List.reverse_cons, List.find?_append]
    rcases List.mem_cons.mp hd with rfl | hmem
    · -- `d` is the head: no later definition has its key
      have hnone : (xs.reverse).find? (fun y => y.code == d.code && y.vendor == d.vendor) = none := by
        rw [List.find?_eq_none]
        intro y hy
        have := (hdist.1 y (List.mem_reverse.mp hy)).1
        simp only [Bool.not_eq_true', Bool.and_eq_false_iff] at this
        rcases this with h | h
        · have hne : y.code ≠ d.code := by
            intro e; rw [e] at h; simp at h
          simp [hne]
        · have hne : y.vendor ≠ d.vendor := by
            intro e; rw [e] at h; simp at h
          simp [hne]
      simp [hnone]
    · have := ih hdist.2 hmem
      rw [this]; rfl

end DV
