/-
  C08 table obligation: `validate_message_avps` can build a Failed-AVP member
  for every required attribute of every class (each required definition has a
  dictionary entry) — otherwise validation itself raises and kills the reader.
-/
import DV.Model.TableWF
import DV.Model.NodeInfo
import DV.Generated.Dict
import DV.Generated.Classes
namespace DV

theorem C08_required_defs_resolvable : requiredDefsResolvable Gen.dict Gen.classes = true := by decide +kernel

end DV
