/-
  C15 obligation on the regenerated skeleton: the shared-state lines the writer
  and the I/O loop execute, per outcome, are the accepted program — so the
  theorems of C15.lean are about the code that exists.
-/
import DV.Properties.C15
import DV.Generated.Threads
namespace DV.WP

theorem C15_program : Gen.writeProg = goodProg := by decide

/-- The write path as it is in the source, under every interleaving, partial
    write and write error. -/
theorem C15_write_path (evs : List Ev) :
    (run Gen.writeProg {} evs).sent <+: (run Gen.writeProg {} evs).expect ∧ (run Gen.writeProg {} evs).crashed = false := by
  rw [C15_program]
  exact ⟨C15_sent_is_prefix evs, C15_loop_survives evs⟩

end DV.WP
