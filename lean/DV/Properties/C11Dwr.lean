/-
  C11 — "a received DWR is answered 2001 … in either ready sub-state": for every
  state, a Device-Watchdog-Request arriving on a connection that is READY or
  READY_WAITING_DWA is answered by exactly one message on that connection — the
  answer built from the request (same command, hop-by-hop and end-to-end
  identifiers, R bit clear) with Result-Code 2001 —, nothing is handed to an
  application, and no connection changes its state (in particular a pending
  watchdog of the node's own stays pending).

  (The Origin-State-Id of the answer is not a field of the abstract message;
  the direct oracle of `harness/c11.py` reads it off the transmitted bytes.)
-/
import DV.Properties.C17One
import DV.Proofs.NodeLive
namespace DV.Node

/-- for a DWR the command switch is `receive_dwr`, entered from a state that differs from the given one in a peer's
    request counter at most -/
theorem handleByCommand_dwr (s0 : St) (cid : Nat) (m : AMsg) (info : MsgInfo) (hcmd : m.cmd = 280) (hr : m.isRequest = true) :
    ∃ s1 : St, s1.stv = s0.stv ∧ s1.appRequests = s0.appRequests ∧ s1.tapps = s0.tapps ∧ s1.oql = s0.oql ∧
      handleByCommand s0 cid m info = receiveDwr s1 cid m info := by
  refine ⟨(match (s0.conn? cid).bind (findConnectionPeer s0) with
      | some pi => s0.modPeer pi fun p => { p with requests := p.requests + 1 }
      | none => s0), ?_, ?_, ?_, ?_, ?_⟩
  · split <;> rfl
  · split <;> rfl
  · split <;> rfl
  · split <;> rfl
  · unfold handleByCommand
    simp [hr, hcmd]
    congr 1

theorem C11_dwr_answered_2001_in_either_ready_state (s : St) (cid : Nat) (c : Conn) (m : AMsg) (info : MsgInfo)
    (hc : s.conn? cid = some c) (hst : c.state = .ready ∨ c.state = .waitDwa)
    (hcmd : m.cmd = 280) (hr : m.isRequest = true) (hv : info.validateRaises = false) (hm : info.missing = [])
    (hnt : m.isRetransmit = false) (ht : info.ansTyped = true) :
    let s' := dispatchMessage s cid m info
    s'.stv = s.stv ∧ s'.appRequests = s.appRequests ∧ s'.tapps = s.tapps ∧
    ∃ a : AMsg, a.rc = some 2001 ∧ a.isRequest = false ∧ a.cmd = 280 ∧ a.hbh = m.hbh ∧ a.e2e = m.e2e ∧
      s'.oql = s.oql.map fun p => if p.1 == cid then (p.1, p.2 ++ [a]) else p := by
  intro s'
  -- the gate lets the message through
  have hd : s' = receiveMessage s cid m info := by
    show dispatchMessage s cid m info = _
    unfold dispatchMessage
    rw [hc]
    rcases hst with h | h <;> simp [h]
  -- not a duplicate, nothing missing: the command switch
  have hrm := C17_no_false_reject s cid m info hr hv hm (Or.inl hnt)
  obtain ⟨s1, e1, e2, e3, e4, hh⟩ := handleByCommand_dwr (recordOrigin s cid m info) cid m info hcmd hr
  have hok : (sendMessage s1 cid (generateAnswer s1 m info (some 2001)) true).2 = true :=
    sendMessage_ok _ _ _ _ (generateAnswer_rc_typed _ _ _ _ _ ht)
  have hfin : s' = (sendMessage s1 cid (generateAnswer s1 m info (some 2001)) true).1 := by
    rw [hd, hrm, hh]
    unfold receiveDwr
    simp only [hok, if_true]
  refine ⟨?_, ?_, ?_, generateAnswer s1 m info (some 2001), ?_, ?_, ?_, ?_, ?_, ?_⟩
  · rw [hfin, stv_sendMessage, e1, stv_recordOrigin]
  · rw [hfin, appRequests_sendMessage, e2, appRequests_recordOrigin]
  · rw [hfin, tapps_sendMessage, e3, tapps_recordOrigin]
  · unfold generateAnswer; simp [ht]
  · exact generateAnswer_isAnswer _ _ _ _ _
  · unfold generateAnswer; simp [ht, hcmd]
  · exact generateAnswer_hbh _ _ _ _ _
  · unfold generateAnswer; simp [ht]
  · rw [hfin, oql_sendMessage, e4, oql_recordOrigin]

/-- the hypotheses are met, in READY_WAITING_DWA: the answer goes out and the node keeps waiting for its own DWA -/
example :
    let c : Conn := { id := 0, dir := .recv, state := .waitDwa, lastRead := 0, hbh := 1, nodeName := "peer1.x", lastDwr := 3 }
    let s : St := { (default : St) with conns := [c], connections := [0], peerSockets := [0] }
    let m : AMsg := { cmd := 280, flags := 0x80, app := 0, hbh := 7, e2e := 9, oh := some "peer1.x" }
    let info : MsgInfo := { (default : MsgInfo) with typed := true, hasOH := true, ansTyped := true }
    ((dispatchMessage s 0 m info).conns.map fun c => (c.state, c.outQ.map fun a => (a.rc, a.hbh))) = [(.waitDwa, [(some 2001, 7)])] := by
  decide +kernel

end DV.Node
