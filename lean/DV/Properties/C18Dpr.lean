/-
  C18 — "stopping the node sends a DPR with cause REBOOTING to every ready peer":
  what `send_dpr` does to one connection, for every state — `C18_begin` says for
  which connections `stop()` calls it (exactly the registered ones in a ready
  state, each considered once: after its DPR a connection is DISCONNECTING, so a
  second visit would pass it by).

  `send_dpr(conn)`: exactly one message is appended to the write queue of the
  connection objects with that id and to no other queue — a request with command
  code 282, Disconnect-Cause 0 (REBOOTING), the node's identity, and non-zero
  hop-by-hop and end-to-end identifiers drawn from the connection's resp. the
  node's generator —, and the connection is DISCONNECTING afterwards.
-/
import DV.Properties.C12Dpr
import DV.Properties.C10One
namespace DV.Node

theorem C18_send_dpr (s : St) (cid : Nat) (c : Conn) (hc : s.conn? cid = some c) :
    ∃ m : AMsg, m.cmd = 282 ∧ m.isRequest = true ∧ m.dc = some 0 ∧ m.oh = some s.cfg.host ∧ m.hbh ≠ 0 ∧ m.e2e ≠ 0 ∧
      (sendDpr s cid).oql = (s.oql.map fun p => if p.1 == cid then (p.1, p.2 ++ [m]) else p) ∧
      (sendDpr s cid).stv = (s.stv.map fun p => if p.1 == cid then (p.1, CState.disconnecting) else p) := by
  refine ⟨{ cmd := 282, flags := 0x80, app := 0, hbh := seqNext c.hbh, e2e := seqNext s.e2e,
            oh := some s.cfg.host, orr := some s.cfg.realm, dc := some 0 }, rfl, by simp [AMsg.isRequest], rfl, rfl,
          seqNext_ne_zero _, seqNext_ne_zero _, ?_, ?_⟩
  · unfold sendDpr
    simp only [hc]
    rw [oql_sendMessage]
    have : (({ s with e2e := seqNext s.e2e } : St).modConn cid fun x => { x with hbh := seqNext c.hbh, state := .disconnecting }).oql = s.oql :=
      oql_modConn_tame _ _ _ (by tame)
    rw [this]
    rfl
  · unfold sendDpr
    simp only [hc]
    rw [stv_sendMessage]
    simp only [St.stv, St.modConn, List.map_map]
    apply List.map_congr_left
    intro c' _
    simp only [Function.comp]
    split <;> rfl

/-- a connection that has been sent its DPR is not in a ready state: `stop()` does not send it a second one -/
theorem C18_dpr_sent_once (s : St) (cid : Nat) (c : Conn) (hc : s.conn? cid = some c) :
    ∀ p ∈ (sendDpr s cid).stv, p.1 = cid → p.2.isReady = false := by
  obtain ⟨m, _, _, _, _, _, _, _, hst⟩ := C18_send_dpr s cid c hc
  intro p hp hid
  rw [hst] at hp
  simp only [List.mem_map] at hp
  obtain ⟨q, _, rfl⟩ := hp
  split at hid
  · rename_i h; simp [h]; rfl
  · rename_i h
    split
    · rfl
    · exact absurd (by simpa using hid) h

end DV.Node
