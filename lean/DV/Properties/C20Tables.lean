import DV.Properties.C20
import DV.Generated.Commands
namespace DV

/-- Class pairing over the regenerated class graph: for every class named
    `…Request` the observed answer class is the class named `…Answer` with the
    same command code (forcing R off); for every other class it is the class
    itself (the generic message for commands without typed answers). -/
theorem C20_class : allAnswerPairsOK Gen.msgClasses Gen.clsMessage = true := by decide +kernel

/-- The facts `C20_header` needs hold of every class of the working tree. -/
theorem C20_answer_classes : allAnswerClassesOK Gen.msgClasses = true := by decide +kernel

theorem C20_masks_in_range :
    (Gen.msgClasses.all fun c => Nat.blt c.andMask 256 && Nat.blt c.orMask 256) = true := by decide +kernel

theorem C20_config : Config.answerKeepsP = true := rfl

end DV
