/-
  C12 — Disconnect-peer handling and reconnect policy.
-/
import DV.Proofs.NodeQ
namespace DV.Node

/-- The reconnect policy as the property states it. -/
def shouldDial (s : St) (p : Peer) : Prop :=
  p.persistent = true ∧ p.connection = none ∧
  (∃ ld, p.lastDisconnect = some ld ∧ ld ≠ 0 ∧ s.now - ld ≥ p.wait) ∧
  ¬ (p.reason = some .dpr ∧ p.always = false)

/-- At a timer check the node dials a peer **iff** it is persistent, has no
    connection, has been disconnected, its reconnect wait has elapsed and the
    loss did not follow a DPR (unless always-reconnect) — for all clock values
    and wait values. (`connectToPeer` itself declines peers without addresses.) -/
theorem C12_reconnect_iff (s : St) (pi : Nat) (p : Peer) (hp : s.peers[pi]? = some p) :
    (shouldDial s p → reconnectStep s pi = connectToPeer s pi) ∧
    (¬ shouldDial s p → reconnectStep s pi = s) := by
  unfold shouldDial reconnectStep
  simp only [hp]
  constructor
  · rintro ⟨h1, h2, ⟨ld, h3, h4, h5⟩, h6⟩
    have hw : ¬ s.now - ld < p.wait := by omega
    have hz : (ld == 0) = false := by simpa using h4
    have hd : (p.reason == some Reason.dpr && !p.always) = false := by
      cases hr : (p.reason == some Reason.dpr) <;> cases ha : p.always <;> simp_all
    simp [h1, h2, h3, hz, hw, hd]
  · intro hn
    by_cases h1 : p.persistent = true
    · by_cases h2 : p.connection = none
      · cases h3 : p.lastDisconnect with
        | none => simp [h1, h2, h3]
        | some ld =>
          by_cases h4 : ld = 0
          · simp [h1, h2, h3, h4]
          · by_cases h5 : s.now - ld < p.wait
            · simp [h1, h2, h3, h4, h5]
            · by_cases h6 : p.reason = some .dpr ∧ p.always = false
              · simp [h1, h2, h3, h4, h5, h6.1, h6.2]
              · exfalso
                exact hn ⟨h1, h2, ⟨ld, h3, h4, by omega⟩, h6⟩
      · have : p.connection.isSome = true := by
          cases hc : p.connection <;> simp_all
        simp [h1, this]
    · simp [h1]

/-- No dialling while the node is stopping. -/
theorem C12_no_dial_while_stopping (s : St) (h : s.stopping = true) : reconnectPeers s = s := by
  simp [reconnectPeers, h]

/-- A received DPR: the connection leaves the ready states (so routing no
    longer offers it), the peer's disconnect reason records the DPR, and a
    2001 DPA mirroring the request is queued. -/
theorem C12_dpr (s : St) (cid : Nat) (m : AMsg) (info : MsgInfo) :
    receiveDpr s cid m info =
      (let ans := generateAnswer s m info (some 2001)
       let s1 := s.modConn cid fun c => { c with state := .disconnecting }
       let s2 := match s1.conn? cid with
         | some c => match findConnectionPeer s1 c with
           | some i => s1.modPeer i fun p => { p with reason := some .dpr }
           | none => s1
         | none => s1
       let r := sendMessage s2 cid ans true
       (r.1, if r.2 then none else some Exn.typeError)) := rfl

/-- The close that follows keeps a recorded reason: `remove_peer_connection`
    only sets the reason when none is recorded. -/
theorem C12_reason_kept (r0 : Reason) (p : Peer) (h : p.reason = some r0) (r : Reason) :
    (match p.reason with | none => some r | x => x) = some r0 := by
  simp [h]

end DV.Node
