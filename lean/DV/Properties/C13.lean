/-
  C13 — Peer/connection tables and application readiness stay consistent.
  Step lemmas about the one function every close path ends in
  (`remove_peer_connection`), for every state.
-/
import DV.Proofs.NodeQ
import DV.Proofs.NodeTables
namespace DV.Node

theorem mem_erase (l : List Nat) (x : Nat) : x ∉ erase l x := by
  simp [erase]

/-- A removed connection is in none of the node's connection and socket tables. -/
theorem C13_removed_from_tables (s : St) (cid : Nat) (c : Conn) (r : Reason)
    (hk : Config.removeCleansTables = true) (hc : s.conn? cid = some c) :
    let s' := removePeerConnection s cid r
    cid ∉ s'.connections ∧ cid ∉ s'.peerSockets ∧ cid ∉ s'.halfReady ∧ cid ∉ s'.socketPeers := by
  have key : (removePeerConnection s cid r).connections = erase s.connections cid ∧
      (removePeerConnection s cid r).peerSockets = erase s.peerSockets cid ∧
      (removePeerConnection s cid r).halfReady = erase s.halfReady cid ∧
      (removePeerConnection s cid r).socketPeers = erase s.socketPeers cid := by
    unfold removePeerConnection
    simp only [hc, hk, if_true]
    repeat (first | exact ⟨rfl, rfl, rfl, rfl⟩ | split)
  simp only
  rw [key.1, key.2.1, key.2.2.1, key.2.2.2]
  exact ⟨mem_erase _ _, mem_erase _ _, mem_erase _ _, mem_erase _ _⟩

/-- Removing a connection that is *not* the peer's current one leaves every
    peer record (connection, disconnect reason and time) untouched; of the
    pending-answer table only the removed connection's own entry goes. -/
theorem C13_remove_other_keeps_peer (s : St) (cid : Nat) (c : Conn) (r : Reason) (i k : Nat) (p : Peer)
    (hk : Config.removeOnlyOwn = true) (hc : s.conn? cid = some c)
    (hp : findConnectionPeer { s with connections := erase s.connections cid, peerSockets := erase s.peerSockets cid,
                                      halfReady := erase s.halfReady cid, socketPeers := erase s.socketPeers cid } c = some i)
    (hpi : s.peers[i]? = some p) (hcur : p.connection = some k) (hne : k ≠ cid) :
    (removePeerConnection s cid r).peers = s.peers ∧
    (removePeerConnection s cid r).peerWaiting = s.peerWaiting.filter (·.1 != cid) := by
  have hcur' : (p.connection.isSome && p.connection != some cid) = true := by
    simp [hcur, hne]
  unfold removePeerConnection
  simp only [hc, hk, if_true, Config.removeCleansTables]
  simp only [hp, Option.bind_some, hpi, hcur', Bool.not_true, Bool.false_eq_true, if_false]
  trivial

/-- `close_connection_socket` closes the socket of a registered connection and
    stops its workers before removing it. -/
theorem C13_close_closes_socket (s : St) (cid : Nat) (r : Reason) (h : s.peerSockets.contains cid = true) :
    closeConnectionSocket s cid r =
      removePeerConnection (connClose (s.modConn cid fun c => { c with sockClosed := true }) cid false) cid r := by
  have h' : cid ∈ s.peerSockets := by simpa using h
  simp [closeConnectionSocket, h']

/-- **In every reachable world the connection and socket tables agree**: for
    every sequence of operations (accepts, dials, handshakes of every outcome,
    faults, timeouts, closes, shutdown), `connections` and `peer_sockets` hold
    the same connections, and nothing is in `_half_ready_connections` or
    `socket_peers` that is not in `connections`. -/
theorem C13_tables_consistent (hk : Config.removeCleansTables = true) (infoOf : AMsg → MsgInfo) (w : World) (ops : List Op)
    (h : TInv w.st) : TInv (run infoOf w ops).st := by
  unfold run
  induction ops generalizing w with
  | nil => exact h
  | cons o ops ih => rw [List.foldl_cons]; exact ih _ (TInv_applyOp hk infoOf w o h)

/-- Hence a connection that is no longer in `connections` (it was removed) is in
    none of the other tables, in any reachable world. -/
theorem C13_removed_everywhere (hk : Config.removeCleansTables = true) (infoOf : AMsg → MsgInfo) (w : World) (ops : List Op)
    (h : TInv w.st) (cid : Nat) (hc : cid ∉ (run infoOf w ops).st.connections) :
    cid ∉ (run infoOf w ops).st.peerSockets ∧ cid ∉ (run infoOf w ops).st.halfReady ∧
    cid ∉ (run infoOf w ops).st.socketPeers := by
  obtain ⟨a, b, c⟩ := C13_tables_consistent hk infoOf w ops h
  exact ⟨a ▸ hc, fun hx => hc (b cid hx), fun hx => hc (c cid hx)⟩

/-- a node that has not seen a connection yet satisfies the invariant -/
example : TInv ({ (default : St) with connections := [], peerSockets := [], halfReady := [], socketPeers := [] }) :=
  ⟨rfl, by simp, by simp⟩

theorem C13_config : Config.removeOnlyOwn = true ∧ Config.removeCleansTables = true ∧
    Config.connectFailCloses = true ∧ Config.rejectStopsWorkers = true := ⟨rfl, rfl, rfl, rfl⟩

end DV.Node
