/-
  C13 — "once a peer's connection has been removed its disconnect reason and
  disconnect time are set until it connects again", over whole histories.  For
  every sequence of operations of the node model, in every state reached, every
  configured peer satisfies: if it has no connection and a disconnect time is
  recorded, then a disconnect reason is recorded too.  (`remove_peer_connection`
  writes both when it clears `Peer.connection` — step theorem below —; the reason
  is cleared only by `_add_peer_connection` / `_assign_peer_connection`, which
  give the peer a connection in the same step.)
-/
import DV.Proofs.NodePeerRecInv
namespace DV.Node

theorem p_applyOp (infoOf : AMsg → MsgInfo) (w : World) (o : Op) (h : PInv2 w.st) : PInv2 (applyOp infoOf w o).st := by
  cases o with
  | start plan =>
    simp only [applyOp]
    apply p_foldl
    · intro s a hs
      repeat (first | exact hs | exact p_connectToPeer s a hs | split)
    · exact p_of_peers rfl h
  | accept => exact p_ioIteration { w with acceptQ := w.acceptQ + 1 } h
  | rx cid e => simp only [applyOp, pushRx]; repeat (first | exact h | split)
  | wr cid evs => simp only [applyOp]; repeat (first | exact h | split | dsimp only)
  | block cid b => simp only [applyOp]; split <;> exact h
  | sethbh cid v => exact h
  | anon cid => exact h
  | dial plan => exact p_of_peers rfl h
  | conn cid ok => exact p_of_peers rfl h
  | adv dt => exact p_of_peers rfl h
  | io => exact p_ioIteration w h
  | pump => exact p_pumpAll infoOf _ h
  | settle n => exact p_settle infoOf n w h
  | hold ai v => exact h
  | outcome ai o => exact h
  | handler k => exact p_runHandler infoOf _ k h
  | ans ai req rc => exact p_appSendAnswer _ _ _ _ _ h
  | reqBegin ai m => exact p_appSendRequestBegin _ _ _ _ h
  | reqEnd ai hbh t =>
    simp only [applyOp]
    split <;> exact p_of_peers rfl h
  | stopBegin f => exact p_stopBegin _ _ h
  | stopFinal => exact p_stopFinal _ h
  | note o => exact h
  | flush => exact p_of_peers rfl h

/-- **Every reachable state.** -/
theorem C13_disconnect_record_kept (infoOf : AMsg → MsgInfo) (w : World) (ops : List Op) (h : PInv2 w.st) :
    ∀ p ∈ (run infoOf w ops).st.peers, p.connection = none → p.lastDisconnect ≠ none → p.reason ≠ none := by
  have : PInv2 (run infoOf w ops).st := by
    unfold run
    induction ops generalizing w with
    | nil => exact h
    | cons o ops ih => exact ih _ (p_applyOp infoOf w o h)
  exact this

/-- (the record update `remove_peer_connection` applies to the peer whose current connection is removed)
    no connection, a disconnect time, and a disconnect reason — the earlier one if there was one -/
theorem C13_removal_writes_record (p : Peer) (now : Nat) (r : Reason) :
    let p' : Peer := { p with connection := none, lastDisconnect := some now,
                              reason := (match p.reason with | none => some r | x => x) }
    p'.connection = none ∧ p'.lastDisconnect = some now ∧ p'.reason ≠ none := by
  refine ⟨rfl, rfl, ?_⟩
  cases p.reason <;> simp

/-- the premise is met by freshly configured peers (never connected: no disconnect time) -/
example (p : Peer) (hp : p.lastDisconnect = none) : PInv2 ({ (default : St) with peers := [p] }) := by
  intro q hq
  have : q = p := by simpa using hq
  subst this
  intro _ h2
  exact absurd hp h2

end DV.Node
