/-
  C12 — "non-persistent peers are never dialled", over whole histories.  For
  every sequence of operations of the node model (start, connections accepted,
  refused, failing, timing out, closed by either side, DPRs, any messages, clock
  advances over any number of reconnect cycles, worker pumps, application calls,
  stop), every `connect()` the node has issued was to a configured peer whose
  `persistent` flag is set, and the flags themselves are never rewritten.
  (`Op.note` is driver glue that writes an arbitrary observation line; the
  theorem is about histories whose notes are not `dialled` lines.)
-/
import DV.Proofs.NodeDialInv
namespace DV.Node

variable {F : List Bool}

/-- the operation is not the driver's "write this observation line" with a `dialled` line -/
def opNoDialNote : Op → Prop
  | .note o => o.dial? = none
  | _ => True

theorem dl_applyOp (infoOf : AMsg → MsgInfo) (w : World) (o : Op) (ho : opNoDialNote o) (h : DInv F w.st) : DInv F (applyOp infoOf w o).st := by
  cases o with
  | start plan =>
    simp only [applyOp]
    apply dl_foldl
    · intro s a hs
      split
      · rename_i p hp
        split
        · rename_i hpp
          exact dl_connectToPeer s a (dl_flag hs hp hpp) hs
        · exact hs
      · exact hs
    · exact dl_of_eq rfl rfl h
  | accept => exact dl_ioIteration { w with acceptQ := w.acceptQ + 1 } h
  | rx cid e => simp only [applyOp, pushRx]; repeat (first | exact h | split)
  | wr cid evs => simp only [applyOp]; repeat (first | exact h | split | dsimp only)
  | block cid b => simp only [applyOp]; split <;> exact h
  | sethbh cid v => exact h
  | anon cid => exact h
  | dial plan => exact dl_of_eq rfl rfl h
  | conn cid ok => exact dl_of_eq rfl rfl h
  | adv dt => exact dl_of_eq rfl rfl h
  | io => exact dl_ioIteration w h
  | pump => exact dl_pumpAll infoOf _ h
  | settle n => exact dl_settle infoOf n w h
  | hold ai v => exact h
  | outcome ai o => exact h
  | handler k => exact dl_runHandler infoOf _ k h
  | ans ai req rc => exact dl_appSendAnswer _ _ _ _ _ h
  | reqBegin ai m => exact dl_appSendRequestBegin _ _ _ _ h
  | reqEnd ai hbh t =>
    simp only [applyOp]
    split <;> exact dl_of_eq rfl rfl h
  | stopBegin f => exact dl_stopBegin _ _ h
  | stopFinal => exact dl_stopFinal _ h
  | note o => exact dl_emit _ _ ho h
  | flush => exact ⟨h.1, fun o ho => by simp [applyOp] at ho⟩

/-- **Every reachable state**: the `persistent` flags are those the node was configured with, and every
    `connect()` observed so far was to a peer whose flag is set. -/
theorem C12_dial_invariant (infoOf : AMsg → MsgInfo) (w : World) (ops : List Op) (hops : ∀ o ∈ ops, opNoDialNote o)
    (h : DInv F w.st) : DInv F (run infoOf w ops).st := by
  unfold run
  induction ops generalizing w with
  | nil => exact h
  | cons o ops ih =>
    exact ih _ (fun o' ho' => hops o' (List.mem_cons_of_mem _ ho')) (dl_applyOp infoOf w o (hops o List.mem_cons_self) h)

/-- **Non-persistent peers are never dialled** — after any history from a node that has not dialled yet: every
    `dialled pi` observation names a configured peer that is persistent (in the state reached, and — the flags
    never being rewritten — in the configuration the node started with). -/
theorem C12_non_persistent_never_dialled (infoOf : AMsg → MsgInfo) (w : World) (ops : List Op)
    (hops : ∀ o ∈ ops, opNoDialNote o) (h0 : ∀ o ∈ w.st.outs, o.dial? = none) :
    ∀ pi, Out.dialled pi ∈ (run infoOf w ops).st.outs →
      ∃ p, (run infoOf w ops).st.peers[pi]? = some p ∧ p.persistent = true ∧
        ∃ p0, w.st.peers[pi]? = some p0 ∧ p0.persistent = true := by
  have hinit : DInv (w.st.peers.map (·.persistent)) w.st :=
    ⟨rfl, fun o ho pi hd => by rw [h0 o ho] at hd; cases hd⟩
  have hfin := C12_dial_invariant infoOf w ops hops hinit
  intro pi hpi
  have hflag := hfin.2 _ hpi pi rfl
  have h1 : ((run infoOf w ops).st.peers.map (·.persistent))[pi]? = some true := by rw [hfin.1]; exact hflag
  rw [List.getElem?_map] at h1 hflag
  cases hp : (run infoOf w ops).st.peers[pi]? with
  | none => rw [hp] at h1; cases h1
  | some p =>
    rw [hp] at h1
    cases hp0 : w.st.peers[pi]? with
    | none => rw [hp0] at hflag; cases hflag
    | some p0 =>
      rw [hp0] at hflag
      exact ⟨p, rfl, by simpa using h1, p0, rfl, by simpa using hflag⟩

/-- the premises are met by a node that has not been started -/
example (ps : List Peer) : ∀ o ∈ ({ (default : St) with peers := ps, outs := [] } : St).outs, o.dial? = none := by
  intro o ho; simp at ho

end DV.Node
