/-
  C18 — "when stop returns every … peer socket is closed … and all node and
  connection worker threads terminate", over whole histories.

  For every sequence of operations of the node model (connections arriving,
  being refused, failing, being rejected, timing out, closed by either side;
  requests and answers in any number and order; DPRs; stop begun gracefully or
  by force) followed by the I/O thread's final pass (`stopFinal`: the loop
  `for conn in list(self.connections.values()): close_connection_socket(conn,
  SHUTDOWN); conn.close()` that runs once `_connection_thread.stop()` has been
  called):

  * no connection is registered any more (`Node.connections` is empty), hence
    `peer_sockets`, `socket_peers`, `_half_ready_connections` and
    `_peer_waiting_answer` are empty,
  * every connection object ever created — accepted, dialled, refused, failed,
    long gone or still ready when `stop()` was called — has its socket closed
    and its worker threads stopped.

  Two invariants carry it: `SInv` ("a connection whose socket has not been
  closed is registered", Proofs/NodeSock.lean, proved here for every reachable
  state together with C19's "running workers ⇒ registered"), and C12's `KInv`
  ("registered ids are ids of connection objects, a connection's id is its
  position"), which makes the final pass find every registered connection.

  Hypotheses: the configuration switches of C19 and C12 (all as in the current
  tree, `C18_stop_config`), and no `anon` driver glue in the history (C12Own).
  Not covered here: the listening sockets and `Application.stop()` (they are
  closed by `stop()` itself after the join, straight-line code that the
  correspondence and the direct oracle of `harness/c18.py` observe: `LSN`,
  `APPSTOP`), and the OS-level termination of the threads (the model's
  `workersStopped` is the stop *request* `PeerConnection.close` makes; the
  oracle's `JOINGAVEUP` observation covers the join).
-/
import DV.Proofs.NodeSock
import DV.Properties.C19Hist
import DV.Properties.C12Own
namespace DV.Node

/-! ### the socket invariant in every reachable state -/

theorem JInv_applyOp (hk : Config.removeCleansTables = true) (hr : Config.rejectStopsWorkers = true)
    (hg : Config.gateClosing = true) (hcc : Config.appConsumersCatch = true)
    (infoOf : AMsg → MsgInfo) (w : World) (o : Op) (h : JInv w.st) : JInv (applyOp infoOf w o).st := by
  refine ⟨LInv_applyOp hk hr hg hcc infoOf w o h.1, ?_⟩
  have hL := h.1
  have h := h.2
  cases o with
  | start plan =>
    simp only [applyOp]
    apply KLInv_foldl
    · intro s a hs
      repeat (first | exact hs | exact KLInv_connectToPeer hk hr s a hs | split)
    · exact KLInv_same h rfl rfl rfl rfl rfl rfl
  | accept => exact KLInv_ioIteration hk hr _ h
  | rx cid e => simp only [applyOp, pushRx]; repeat (first | exact h | split)
  | wr cid evs => simp only [applyOp]; repeat (first | exact h | split | dsimp only)
  | block cid b => simp only [applyOp]; split <;> exact h
  | sethbh cid v => exact KLInv_tame h _ _ (by tame)
  | anon cid => exact KLInv_tame h _ _ (by tame)
  | io => exact KLInv_ioIteration hk hr _ h
  | pump => exact (JInv_pumpAll hk hg hcc infoOf _ ⟨hL, h⟩).2
  | settle n => exact (JInv_settle hk hr hg hcc infoOf n w ⟨hL, h⟩).2
  | handler k => exact KLInv_runHandler infoOf _ k h
  | ans ai req rc => simp only [applyOp]; ksame h
  | reqBegin ai m => simp only [applyOp]; ksame h
  | reqEnd ai hbh t => simp only [applyOp]; split <;> exact KLInv_same h rfl rfl rfl rfl rfl rfl
  | stopBegin f => simp only [applyOp]; ksame h
  | stopFinal => exact KLInv_stopFinal hk _ h
  | _ => exact KLInv_same h rfl rfl rfl rfl rfl rfl

/-- **Every reachable state:** a connection object whose socket has not been closed is registered in
    `Node.connections` (and one whose worker threads still run is, too). -/
theorem C18_open_socket_is_registered (hk : Config.removeCleansTables = true) (hr : Config.rejectStopsWorkers = true)
    (hg : Config.gateClosing = true) (hcc : Config.appConsumersCatch = true)
    (infoOf : AMsg → MsgInfo) (w : World) (ops : List Op) (h : JInv w.st) : JInv (run infoOf w ops).st := by
  unfold run
  induction ops generalizing w with
  | nil => exact h
  | cons o ops ih => exact ih _ (JInv_applyOp hk hr hg hcc infoOf w o h)

/-! ### the final pass unregisters every connection -/

/-- ids of the connection objects -/
def St.ids (s : St) : List Nat := s.skv.map (·.1)

theorem conn?_of_mem_ids {s : St} {k : Nat} (h : k ∈ s.ids) : ∃ c, s.conn? k = some c := by
  simp only [St.ids, St.skv, List.map_map, List.mem_map, Function.comp] at h
  obtain ⟨c, hc, hid⟩ := h
  have : (s.conns.find? (·.id == k)).isSome = true := by
    rw [List.find?_isSome]
    exact ⟨c, hc, by simp [hid]⟩
  exact Option.isSome_iff_exists.mp this

theorem ids_closeSocket (s : St) (cid : Nat) : (s.modConn cid fun c => { c with sockClosed := true }).ids = s.ids := by
  simp only [St.ids, St.skv, St.modConn, List.map_map]
  apply List.map_congr_left
  intro c _
  simp only [Function.comp]
  split <;> rfl

/-- one round of the final pass: the connection leaves `Node.connections`, no connection object disappears -/
theorem stopStep_spec (s : St) (cid : Nat) (h : cid ∈ s.ids) :
    (connClose (closeConnectionSocket s cid .shutdown) cid false).connections = erase s.connections cid ∧
    (connClose (closeConnectionSocket s cid .shutdown) cid false).ids = s.ids := by
  have key : ∀ s1 : St, s1.ids = s.ids → s1.connections = s.connections →
      (removePeerConnection s1 cid .shutdown).connections = erase s.connections cid ∧
      (removePeerConnection s1 cid .shutdown).ids = s.ids := by
    intro s1 h1 h2
    refine ⟨?_, ?_⟩
    · rcases removePeerConnection_connections s1 cid .shutdown with ⟨_, hn⟩ | he
      · obtain ⟨c, hc⟩ := conn?_of_mem_ids (h1 ▸ h)
        rw [hc] at hn; cases hn
      · rw [he, h2]
    · simp only [St.ids, skv_removePeerConnection]; exact h1
  simp only [connections_connClose, St.ids, skv_connClose]
  unfold closeConnectionSocket
  split
  · exact key _ (by simp only [St.ids, skv_connClose]; exact ids_closeSocket s cid) (by simp)
  · exact key s rfl rfl

theorem stopFold_spec (l : List Nat) (s : St) (h : ∀ k ∈ l, k ∈ s.ids) :
    ∀ x ∈ (l.foldl (fun s cid => connClose (closeConnectionSocket s cid .shutdown) cid false) s).connections,
      x ∈ s.connections ∧ x ∉ l := by
  induction l generalizing s with
  | nil => intro x hx; exact ⟨hx, List.not_mem_nil⟩
  | cons a l ih =>
    intro x hx
    rw [List.foldl_cons] at hx
    obtain ⟨h1, h2⟩ := stopStep_spec s a (h a List.mem_cons_self)
    have := ih _ (fun k hk => h2 ▸ h k (List.mem_cons_of_mem _ hk)) x hx
    rw [h1, mem_erase_iff] at this
    exact ⟨this.1.1, by
      intro hm
      rcases List.mem_cons.mp hm with e | e
      · exact this.1.2 e
      · exact this.2 e⟩

/-- the final pass of the I/O thread leaves no connection registered, provided every registered id is the id of a
    connection object (C12's invariant) -/
theorem stopFinal_unregisters_all (s : St) (h : ∀ k ∈ s.connections, k ∈ s.ids) : (stopFinal s).connections = [] := by
  unfold stopFinal
  apply List.eq_nil_iff_forall_not_mem.mpr
  intro x hx
  exact (stopFold_spec s.connections s h x hx).2 (stopFold_spec s.connections s h x hx).1

theorem ids_of_KInv {s : St} (h : KInv s) : ∀ k ∈ s.connections, k ∈ s.ids := by
  intro k hk
  have hlt := h.regLt k hk
  have hget : s.conns[k]? = some s.conns[k] := List.getElem?_eq_getElem hlt
  have hid := h.idpos k _ hget
  simp only [St.ids, St.skv, List.map_map, List.mem_map, Function.comp]
  exact ⟨s.conns[k], List.getElem_mem hlt, hid⟩

/-! ### the whole-history theorem -/

/-- **When stop returns.** After any history followed by the I/O thread's final pass: no connection is registered,
    every connection object ever created has a closed socket and stopped worker threads, and the node's connection,
    socket and pending-answer tables are empty. -/
theorem C18_after_stop_everything_closed (hk : Config.removeCleansTables = true) (hr : Config.rejectStopsWorkers = true)
    (hg : Config.gateClosing = true) (hcc : Config.appConsumersCatch = true) (ho : Config.removeOnlyOwn = true)
    (infoOf : AMsg → MsgInfo) (w : World) (ops : List Op) (hops : ∀ o ∈ ops, opNoAnon o)
    (hJ : JInv w.st) (hK : KInv w.st) :
    let s := (run infoOf w (ops ++ [Op.stopFinal])).st
    s.connections = [] ∧ (∀ c ∈ s.conns, c.sockClosed = true ∧ c.workersStopped = true) ∧
    s.peerSockets = [] ∧ s.socketPeers = [] ∧ s.halfReady = [] ∧ s.peerWaiting = [] := by
  intro s
  have hrun : s = stopFinal (run infoOf w ops).st := by
    show (run infoOf w (ops ++ [Op.stopFinal])).st = _
    unfold run
    rw [List.foldl_append]
    rfl
  have hK' : KInv (run infoOf w ops).st := C12_own_invariant ho infoOf w ops hops hK
  have hend : s.connections = [] := by rw [hrun]; exact stopFinal_unregisters_all _ (ids_of_KInv hK')
  have hJ' : JInv s := C18_open_socket_is_registered hk hr hg hcc infoOf w (ops ++ [Op.stopFinal]) hJ
  obtain ⟨⟨⟨t1, t2, t3⟩, wv, pv⟩, ⟨_, sv, _⟩⟩ := hJ'
  refine ⟨hend, ?_, ?_, ?_, ?_, ?_⟩
  · intro c hc
    constructor
    · cases hw : c.sockClosed with
      | true => rfl
      | false =>
        have := sv (c.id, c.sockClosed) (List.mem_map.mpr ⟨c, hc, rfl⟩) hw
        rw [hend] at this
        exact absurd this List.not_mem_nil
    · cases hw : c.workersStopped with
      | true => rfl
      | false =>
        have := wv (c.id, c.workersStopped) (List.mem_map.mpr ⟨c, hc, rfl⟩) hw
        rw [hend] at this
        exact absurd this List.not_mem_nil
  · rw [← t1]; exact hend
  · cases hp : s.socketPeers with
    | nil => rfl
    | cons e l =>
      have : e ∈ s.connections := t3 e (by simp [hp])
      rw [hend] at this
      exact absurd this List.not_mem_nil
  · cases hp : s.halfReady with
    | nil => rfl
    | cons e l =>
      have : e ∈ s.connections := t2 e (by simp [hp])
      rw [hend] at this
      exact absurd this List.not_mem_nil
  · cases hp : s.peerWaiting with
    | nil => rfl
    | cons e l =>
      have : e.1 ∈ s.connections := pv e.1 (by simp [St.pwk, hp])
      rw [hend] at this
      exact absurd this List.not_mem_nil

/-- the premises are met by a node that has not been started: named peers, no connection objects, empty tables -/
example (ps : List Peer) (hps : ∀ p ∈ ps, p.name ≠ "") :
    let s : St := { (default : St) with peers := ps, conns := [], connections := [], peerSockets := [], halfReady := [],
                                        socketPeers := [], peerWaiting := [] }
    JInv s ∧ KInv s := by
  intro s
  refine ⟨⟨⟨⟨rfl, by simp [s], by simp [s]⟩, by simp [s, WInv, St.wsv], by simp [s, PInv, St.pwk]⟩,
           ⟨⟨rfl, by simp [s], by simp [s]⟩, by simp [s, SInv, St.skv], by simp [s, PInv, St.pwk]⟩⟩, ?_⟩
  exact ⟨hps, fun i c h => by simp [s] at h, fun k hk => by simp [s] at hk, fun c hc => by simp [s] at hc,
         fun c hc => by simp [s] at hc⟩

/-- … and the conclusion is not vacuous: a state with a registered, open, running connection is turned into one
    with the socket closed and the workers stopped by the final pass -/
example :
    let c : Conn := { id := 0, dir := .recv, state := .ready, lastRead := 0, hbh := 1 }
    let s : St := { (default : St) with conns := [c], connections := [0], peerSockets := [0] }
    (stopFinal s).connections = [] ∧ ((stopFinal s).conns.map fun c => (c.sockClosed, c.workersStopped)) = [(true, true)] := by
  decide

/-- the configuration flags the theorem assumes are those of the current tree -/
theorem C18_stop_config : Config.removeCleansTables = true ∧ Config.rejectStopsWorkers = true ∧ Config.gateClosing = true ∧
    Config.appConsumersCatch = true ∧ Config.removeOnlyOwn = true := ⟨rfl, rfl, rfl, rfl, rfl⟩

end DV.Node
