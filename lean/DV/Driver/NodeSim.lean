/-
  Scenario interpreter for the node model: same scenario text as
  harness/sim.py, same observation lines.
-/
import DV.Model.NodeOps
import DV.Model.NodeInfo
import DV.Model.Message

namespace DV.NodeSim
open DV DV.Node

def cmdOf (s : String) : Nat :=
  match s with
  | "CE" => 257 | "DW" => 280 | "DP" => 282 | "CC" => 272 | "AC" => 271 | "UN" => 999 | "MO" => 8388733
  | x => x.toNat?.getD 0

def utf8 (b : Bytes) : String := (String.fromUTF8? (ByteArray.mk b.toArray)).getD ""

/-- `X<hex>`: a message given by its wire bytes. -/
def parseRaw (hex : String) : AMsg :=
  match ofHex hex with
  | none => default
  | some buf =>
    match decodeMsgPlain buf with
    | .error _ => default
    | .ok (h, avps) =>
      let get (code : Nat) : Option Bytes := (avps.find? fun a => a.code == code && a.vendor == 0).map (·.payload)
      let u32 (b : Bytes) : Nat := match nat32 b with | some n => n | none => 0
      { cmd := h.code, flags := h.flags, app := h.appId, hbh := h.hbh, e2e := h.e2e,
        oh := (get 264).map utf8, orr := (get 296).map utf8, dr := (get 283).map utf8, sid := (get 263).map utf8,
        rc := (get 268).map u32, dc := (get 273).map u32,
        auth := (avps.filter fun a => a.code == 258 && a.vendor == 0).map (fun a => u32 a.payload),
        acct := (avps.filter fun a => a.code == 259 && a.vendor == 0).map (fun a => u32 a.payload),
        present := avps.map fun a => a.vendor * 4294967296 + a.code }

/-- `cmd:flags:app:hbh:e2e:k=v,k=v…` -/
def parseMsg (d : String) : AMsg :=
  if d.startsWith "X" then parseRaw (d.drop 1).toString else
  match d.splitOn ":" with
  | cmd :: fl :: app :: hbh :: e2e :: rest =>
    let kv := match rest with
      | [] => []
      | r :: _ => if r == "" then [] else r.splitOn ","
    let base : AMsg := { cmd := cmdOf cmd, flags := fl.toNat?.getD 0, app := app.toNat?.getD 0,
                         hbh := hbh.toNat?.getD 0, e2e := e2e.toNat?.getD 0 }
    kv.foldl (fun m item =>
      match item.splitOn "=" with
      | [k, v] =>
        let nums := (v.splitOn "+").filterMap String.toNat?
        match k with
        | "sid" => { m with sid := some v, present := m.present ++ [263] }
        | "oh" => { m with oh := some v, present := m.present ++ [264] }
        | "or" => { m with orr := some v, present := m.present ++ [296] }
        | "dh" => { m with present := m.present ++ [293] }
        | "dr" => { m with dr := some v, present := m.present ++ [283] }
        | "rc" => { m with rc := v.toNat?, present := m.present ++ [268] }
        | "auth" => { m with auth := m.auth ++ nums, present := m.present ++ [258] }
        | "acct" => { m with acct := m.acct ++ nums, present := m.present ++ [259] }
        | "vauth" => { m with vauth := m.vauth ++ nums, present := m.present ++ [260] }
        | "vacct" => { m with vacct := m.vacct ++ nums, present := m.present ++ [260] }
        | "ip" => { m with present := m.present ++ [257] }
        | "ipbad" => { m with present := m.present ++ [257], badIp := true }
        | "vid" => { m with present := m.present ++ [266] }
        | "pn" => { m with present := m.present ++ [269] }
        | "dc" => { m with dc := v.toNat?, present := m.present ++ [273] }
        | "sc" => { m with present := m.present ++ [461] }
        | "rt" => { m with present := m.present ++ [416] }
        | "rn" => { m with present := m.present ++ [415] }
        | "osi" => { m with present := m.present ++ [278] }
        | "ex" => { m with present := m.present ++ [v.toNat?.getD 0] }
        | _ => m
      | _ => m) base
  | _ => default

def optNat (s : String) : Option Nat := if s == "-" then none else s.toNat?

def stateName : CState → String
  | .connecting => "CONNECTING" | .connected => "CONNECTED" | .ready => "READY" | .waitDwa => "WAITDWA"
  | .disconnecting => "DISCONNECTING" | .closing => "CLOSING" | .closed => "CLOSED"

def reasonName : Option Reason → String
  | none => "-"
  | some .dpr => "DPR" | some .shutdown => "SHUTDOWN" | some .clean => "CLEAN" | some .sockFail => "SOCKFAIL"
  | some .gone => "GONE" | some .failConn => "FAILCONN" | some .failCe => "FAILCE" | some .rejected => "REJECTED"
  | some .dwaTo => "DWATO" | some .unknown => "UNKNOWN"

def sortNats (l : List Nat) : List Nat := (l.toArray.qsort (· < ·)).toList

def showOut (o : Out) : Option String :=
  match o with
  | .wrote c m =>
    let rc := match m.rc with | some r => toString r | none => "-"
    let oh := m.oh.getD "-"
    let dc := match m.dc with | some r => toString r | none => "-"
    let fa := "+".intercalate ((sortNats m.fa).map toString)
    let cea := if m.cmd == 257 && !m.isRequest then
        " cea=" ++ (if m.cea != "" then m.cea else "ip=0;vid=-;pn=-;auth=;acct=;supp=0") else ""
    some s!"OUT c{c} cmd={m.cmd} R={if m.isRequest then 1 else 0} hbh={m.hbh} e2e={m.e2e} app={m.app} rc={rc} oh={oh} fa=[{fa}] flags={m.flags} dc={dc}{cea}"
  | .appReq a m => some s!"APP a{a} REQ cmd={m.cmd} hbh={m.hbh} e2e={m.e2e}"
  | .appAns a m => some s!"APP a{a} ANS cmd={m.cmd} hbh={m.hbh} e2e={m.e2e}"
  | .appGot a m => some s!"APP a{a} GOT cmd={m.cmd} hbh={m.hbh} e2e={m.e2e}"
  | .appSent a => some s!"APP a{a} SENT"
  | .raised a e => some s!"APP a{a} RAISE {e}"
  | .dialled _ => none
  | .crash w e => some s!"CRASH {w} {e}"
  | .stopped => some "STOPPED"

structure Sim where
  w : World
  lines : List String := []
  infoOf : AMsg → MsgInfo
  waitEvents : List String := []

def Sim.op (sm : Sim) (o : Op) : Sim := { sm with w := applyOp sm.infoOf sm.w o }

def Sim.flushOuts (sm : Sim) : Sim :=
  let ls := sm.w.st.outs.filterMap showOut
  { sm with lines := sm.lines ++ ls }.op .flush

def observe (sm : Sim) : Sim :=
  let s := sm.w.st
  let conns := s.conns.map fun c =>
    let live := s.connections.contains c.id
    let nm := if c.nodeName == "" then "-" else c.nodeName
    let idn := if c.hostIdentity == "" then "-" else c.hostIdentity
    s!"CONN c{c.id} state={stateName c.state} dir={if c.dir == .recv then "R" else "S"} name={nm} ident={idn} live={if live then 1 else 0} dwr={if c.lastDwr > 0 then 1 else 0}"
  let peers := s.peers.map fun p =>
    let cc := match p.connection with | some k => s!"c{k}" | none => "-"
    let disc := match p.lastDisconnect with | some d => if d > 0 then 1 else 0 | none => 0
    s!"PEER {p.name} conn={cc} reason={reasonName p.reason} disc={disc}"
  let apps := s.apps.mapIdx fun i a => s!"APPS a{i} ready={if a.ready then 1 else 0}"
  let sent := (s.sentAnswers.map fun (_, (_, dq)) => dq.length).foldl (· + ·) 0
  let peerW := (s.peerWaiting.map fun (_, l) => l.length).foldl (· + ·) 0
  let ansW := (s.apps.map fun a => a.answerWaiting.length).foldl (· + ·) 0
  let size := s!"SIZE conns={s.connections.length} socks={s.peerSockets.length} sockPeers={s.socketPeers.length} half={s.halfReady.length} appW={s.appWaiting.length} peerW={peerW} origW={s.originWaiting.length} sent={sent} ansW={ansW} peerWc={s.peerWaiting.length}"
  let openSocks := (s.conns.filter fun c => !c.sockClosed).length + sm.w.acceptQ
  let workers := (s.conns.map fun c => if c.workersStopped then 0 else (if c.readerCrashed then 1 else 2)).foldl (· + ·) 0
  let crashed := (sm.lines.filter (·.startsWith "CRASH")).length
  let res := s!"RES socketsOpen={openSocks} workersLive={workers} crashed={crashed}"
  { sm with lines := sm.lines ++ conns ++ peers ++ apps ++ [size, res] }

def Sim.settle (sm : Sim) : Sim := (sm.op (.settle 40)).flushOuts

partial def event (sm : Sim) (ev : String) (nested : Bool := false) : Sim :=
  let t := ev.splitOn " "
  let sm := { sm with lines := sm.lines ++ [(if nested then "EVN " else "EV ") ++ ev] }
  let sm : Sim :=
    match t with
    | "start" :: rest =>
      let plan := match rest with | p :: _ => p.splitOn "," | [] => []
      (sm.op (.start plan)).settle
    | ["acc"] => (sm.op .accept).settle
    | "rx" :: k :: msgs => (sm.op (.rx (k.toNat?.getD 0) (.data (msgs.map parseMsg)))).settle
    | ["rxraw", k, _] => (sm.op (.rx (k.toNat?.getD 0) .touch)).settle
    | "rxm" :: parts =>
      -- several sockets readable in the same pass: queue all, then let the loop run
      (parts.foldl (fun sm p =>
        match p.splitOn ":" with
        | k :: rest => sm.op (.rx (k.toNat?.getD 0) (.data [parseMsg (":".intercalate rest)]))
        | [] => sm) sm).settle
    | ["rxcut", k, _, m1, m2] =>
      -- one read holding `m1` and the first octets of `m2`, the rest of `m2` in the next read
      ((sm.op (.rx (k.toNat?.getD 0) (.data [parseMsg m1]))).settle.op (.rx (k.toNat?.getD 0) (.data [parseMsg m2]))).settle
    | ["eof", k] => (sm.op (.rx (k.toNat?.getD 0) .eof)).settle
    | ["rerr", k, kind] => (sm.op (.rx (k.toNat?.getD 0) (if kind.startsWith "soft" then .soft else .hard))).settle
    | ["wr", k, script] =>
      let evs := (script.splitOn ",").map fun x => if x.startsWith "soft" then TxEv.soft else if x.startsWith "hard" then TxEv.hard else TxEv.all
      sm.op (.wr (k.toNat?.getD 0) evs)
    | ["block", k, b] => (sm.op (.block (k.toNat?.getD 0) (b == "1"))).settle
    | ["sethbh", k, v] => sm.op (.sethbh (k.toNat?.getD 0) (v.toNat?.getD 0))
    | ["anon", k] => sm.op (.anon (k.toNat?.getD 0))
    | ["dial", plan] => sm.op (.dial (plan.splitOn ","))
    | ["conn", k, r] => (sm.op (.conn (k.toNat?.getD 0) (r == "ok"))).settle
    | ["adv", dt] => (sm.op (.adv (dt.toNat?.getD 0))).settle
    | "advrx" :: dt :: k :: msgs =>
      ((sm.op (.adv (dt.toNat?.getD 0))).op (.rx (k.toNat?.getD 0) (.data (msgs.map parseMsg)))).settle
    | ["tick"] => sm.settle
    | ["mark", _] => sm
    | ["hold", a, v] => (sm.op (.hold (a.toNat?.getD 0) (v == "1"))).settle
    | ["ans", a, idx, rc] =>
      let ai := a.toNat?.getD 0
      let reqs := (sm.w.st.appRequests.filter (·.1 == ai)).map (·.2)
      match reqs[idx.toNat?.getD 0]? with
      | none => (sm.op (.note (.raised ai "IndexError"))).flushOuts.settle
      | some req => (sm.op (.ans ai req (if rc == "-" then none else some (rc.toNat?.getD 2001)))).flushOuts.settle
    | "req" :: a :: d :: rest =>
      let ai := a.toNat?.getD 0
      let m0 := { parseMsg d with hbh := 0 }
      let timeout := match rest with | x :: _ => x.toNat?.getD 30 | [] => 30
      -- (a leading "!" asks the real harness to play the event already while the request is being queued -- the same thing
      -- for the model, whose send is one step)
      let wev := (rest.drop 1).map fun x0 =>
        let x := if x0.startsWith "!" then (x0.drop 1).toString else x0
        if x.contains '_' then x.replace "_" " " else x.replace "~" " "
      let r := (appSendRequestBegin sm.w.st ai m0 (sm.infoOf m0)).2
      let sm := sm.op (.reqBegin ai m0)
      match r with
      | .error e =>
        let nm := match e with | .notRoutable => "NotRoutable" | .attributeError => "AttributeError" | _ => "Other"
        (sm.op (.note (.raised ai nm))).flushOuts.settle
      | .ok m =>
        -- Event.wait(): settle, play the scripted events, then see whether the answer came
        let sm := sm.settle
        let sm := wev.foldl (fun sm e => event sm e true) sm
        -- did the waiter get its answer?
        let gotMsg := gotAnswer sm.w.st ai m.hbh
        let present := (appSendRequestEnd sm.w.st ai m.hbh).2
        let sm := sm.op (.reqEnd ai m.hbh timeout)
        let sm := if !present then { sm with lines := sm.lines ++ [s!"APP a{ai} RAISE KeyError"] }   -- `finally: del` of a slot already gone
          else match gotMsg with
          | some (_, g) => { sm with lines := sm.lines ++ [s!"APP a{ai} GOT cmd={g.cmd} hbh={g.hbh} e2e={g.e2e}"] }
          | none => { sm with lines := sm.lines ++ [s!"APP a{ai} RAISE TimeoutError"] }
        sm.settle
    -- ("raisenr": the handler fails with the library's own not-routable error -- a failure like any other)
    | ["outcome", a, o] => sm.op (.outcome (a.toNat?.getD 0) (if o == "raisenr" then "raise" else o))
    | "handler" :: rest =>
      let k := match rest with | x :: _ => x.toNat?.getD 0 | [] => 0
      (sm.op (.handler k)).flushOuts.settle
    | ["stopin", _, dt] =>
      -- a forced stop arriving while the loop sleeps: the flag is up before the pass goes on, dt seconds later
      if !sm.w.st.started || sm.w.st.stopping then { sm with lines := sm.lines ++ ["RAISE stop RuntimeError"] }
      else
        let sm := (sm.op (.adv (dt.toNat?.getD 0))).op (.stopBegin true)
        ((sm.op .stopFinal).op (.note .stopped)).flushOuts
    | "stop" :: force :: timeout :: rest =>
      let wev := rest.map fun x => x.replace "_" " "
      if !sm.w.st.started then { sm with lines := sm.lines ++ ["RAISE stop RuntimeError"] }
      else if sm.w.st.stopping then { sm with lines := sm.lines ++ ["RAISE stop RuntimeError"] }
      else
        let sm := { sm.op (.stopBegin (force == "1")) with waitEvents := wev }
        let tmo := timeout.toNat?.getD 180
        -- wait loop: `while connections and not timed out: sleep(1)` (each sleep: +1 s, scripted events, settle)
        let rec loop (sm : Sim) (left : Nat) (fuel : Nat) : Sim :=
          match fuel with
          | 0 => sm
          | fuel + 1 =>
            if sm.w.st.connections.isEmpty || left == 0 then sm
            else
              let sm := sm.settle
              let sm := sm.op (.adv 1)
              let evs := sm.waitEvents
              let sm := { sm with waitEvents := [] }
              let sm := evs.foldl (fun sm e => event sm e true) sm
              loop sm.settle (left - 1) fuel
        let sm := if force == "1" then sm else loop sm tmo (tmo + 1)
        -- `_connection_thread.join()`: the I/O thread's last pass
        ((sm.op .stopFinal).op (.note .stopped)).flushOuts
    | _ => { sm with lines := sm.lines ++ ["BADEVENT"] }
  observe sm

def parseCfg (cfg : String) : St × List String :=
  let items := (cfg.splitOn ";").filter (· != "")
  let kv (k : String) (d : String) : String :=
    match items.find? (fun i => i.startsWith (k ++ "=")) with
    | some i => (i.drop (k.length + 1)).toString
    | none => d
  let num (k : String) (d : Nat) : Nat := (kv k (toString d)).toNat?.getD d
  let peers : List Peer := (items.filter (·.startsWith "peer:")).map fun i =>
    match ((i.drop 5).toString).splitOn "," with
    | name :: realm :: pers :: always :: wait :: hasaddr :: _dflt :: rest =>
      -- (realm "-": the peer was added without a realm name and gets the node's)
      { name := name, realm := (if realm == "-" then kv "realm" "realm.local" else realm), persistent := pers == "1", always := always == "1",
        wait := wait.toNat?.getD 30, hasAddr := hasaddr == "1",
        ceaTo := optNat (rest.getD 0 "-"), cerTo := optNat (rest.getD 1 "-"),
        dwaTo := optNat (rest.getD 2 "-"), idleTo := optNat (rest.getD 3 "-") }
    | _ => default
  let peerDefault : List Bool := (items.filter (·.startsWith "peer:")).map fun i =>
    match ((i.drop 5).toString).splitOn "," with
    | _ :: _ :: _ :: _ :: _ :: _ :: d :: _ => d == "1"
    | _ => false
  let appItems := items.filter (·.startsWith "app:")
  let apps : List App := appItems.map fun i =>
    match ((i.drop 4).toString).splitOn "," with
    | id :: auth :: acct :: kind :: mx :: _ =>
      { id := id.toNat?.getD 0, auth := auth == "1", acct := acct == "1",
        kind := if kind == "b" then .basic else .threading, maxThreads := mx.toNat?.getD 0 }
    | _ => default
  let realm0 := kv "realm" "realm.local"
  -- routes: node realm with `_default` first, then add_peer(is_default) and add_application in call order
  let addRoute (routes : List (String × List (RKey × List Nat))) (realm : String) (k : RKey) (pi : Option Nat) :=
    let routes := if routes.any (·.1 == realm) then routes else routes ++ [(realm, [])]
    routes.map fun (r, tbl) =>
      if r != realm then (r, tbl)
      else
        let tbl := if tbl.any (·.1 == k) then tbl else tbl ++ [(k, [])]
        (r, tbl.map fun (kk, ps) => if kk == k then (kk, match pi with | some p => ps ++ [p] | none => ps) else (kk, ps))
  let routes0 : List (String × List (RKey × List Nat)) := [(realm0, [(RKey.dflt, [])])]
  let routes1 := (List.range peers.length).foldl (fun r pi =>
    if peerDefault.getD pi false then addRoute r ((peers[pi]?.map (·.realm)).getD realm0) RKey.dflt (some pi) else r) routes0
  let routes2 := (List.range appItems.length).foldl (fun r ai =>
    match ((appItems.getD ai "").drop 4).toString.splitOn "," with
    | _ :: _ :: _ :: _ :: _ :: pidx :: realms :: _ =>
      let pis := if pidx == "-" || pidx == "" then [] else (pidx.splitOn "+").filterMap String.toNat?
      let extra := if realms == "-" || realms == "" then [] else realms.splitOn "+"
      pis.foldl (fun r pi =>
        let prealm := (peers[pi]?.map (·.realm)).getD realm0
        (prealm :: extra).foldl (fun r realm => addRoute r realm (RKey.app ai) (some pi)) r) r
    | _ => r) routes1
  let now := 1700000000
  let e2e0 := ((now <<< 20) ||| 7) &&& 0xffffffff
  let cfg : Cfg := { host := kv "host" "node.local", realm := realm0, listen := kv "listen" "1" == "1", addrs := num "addrs" 1,
                     cea := num "cea" 4, cer := num "cer" 4, dwa := num "dwa" 4, idle := num "idle" 30,
                     rq := num "rq" 10240, stateId := now }
  ({ cfg := cfg, now := now, peers := peers, apps := apps, tapps := apps.map (fun _ => {}), routes := routes2, e2e := e2e0, nextHbhSeed := 2000 }, [])

def runScenario (infoOf : AMsg → MsgInfo) (line : String) : List String :=
  match (line.splitOn "|").map (fun s => s.trimAscii.toString) with
  | [] => ["BAD"]
  | cfg :: evs =>
    let (st, _) := parseCfg ((cfg.drop 5).toString.trimAscii.toString)
    -- `noval=1`: the node option validate_received_request_avps is off -- no received request is found incomplete
    let noval := ((cfg.drop 5).toString.splitOn ";").any (fun x => x.trimAscii.toString == "noval=1")
    let infoOf : AMsg → MsgInfo := if noval then (fun m => { infoOf m with missing := [], validateRaises := false }) else infoOf
    let sm : Sim := { w := { st := st }, infoOf := infoOf }
    let sm := (evs.filter (· != "")).foldl (fun sm e => event sm e) sm
    sm.lines

end DV.NodeSim
