/-
  Literal syntax of the line protocol (values, AVPs, typed objects), shared by
  all driver commands.  Canonical: both the Python harness and this driver
  print exactly this form, so outputs can be compared as text.
-/
import DV.Model.Typed

namespace DV.Syn
open DV

abbrev P := StateT (List Char) Option

def peek : P (Option Char) := fun s => some (s.head?, s)
def next : P Char := fun s => match s with | c :: r => some (c, r) | [] => none
def expect (c : Char) : P Unit := do
  let x ← next
  if x == c then pure () else failure
def takeWhile (p : Char → Bool) : P (List Char) := fun s => some (s.takeWhile p, s.dropWhile p)

def isHex (c : Char) : Bool := c.isDigit || ('a' ≤ c && c ≤ 'f')

def pNat : P Nat := do
  let ds ← takeWhile Char.isDigit
  if ds.isEmpty then failure
  pure (ds.foldl (fun a c => a * 10 + (c.toNat - 48)) 0)

def pInt : P Int := do
  match (← peek) with
  | some '-' => do
    let _ ← next
    let n ← pNat
    pure (-(n : Int))
  | _ => do
    let n ← pNat
    pure n

def pHex : P Bytes := do
  let ds ← takeWhile isHex
  match ofHexChars ds with
  | some b => pure b
  | none => failure

def pHexNat : P Nat := do
  let ds ← takeWhile isHex
  if ds.isEmpty then failure
  pure (ds.foldl (fun a c => a * 16 + (hexVal c).getD 0) 0)

/-- hex or `-` for absent -/
def pOptHex : P (Option Bytes) := do
  match (← peek) with
  | some '-' => do let _ ← next; pure none
  | _ => do let b ← pHex; pure (some b)

partial def sepBy {α} (p : P α) (sep close : Char) : P (List α) := do
  match (← peek) with
  | some c =>
    if c == close then do let _ ← next; pure []
    else do
      let x ← p
      let rec loop (acc : List α) : P (List α) := do
        match (← peek) with
        | some c =>
          if c == sep then do let _ ← next; let y ← p; loop (acc ++ [y])
          else if c == close then do let _ ← next; pure acc
          else failure
        | none => failure
      loop [x]
  | none => failure

/-- A raw AVP as `code.vendor.flags.payloadhex` (object state, not wire). -/
def pAvpObj : P Avp := do
  let c ← pNat; expect '.'
  let v ← pNat; expect '.'
  let f ← pNat; expect '.'
  let p ← pHex
  pure { code := c, vendor := v, flags := f, payload := p }

def showAvpObj (a : Avp) : String :=
  s!"{a.code}.{a.vendor}.{a.flags}.{toHex a.payload}"

def pValue : P Value := do
  let tag ← takeWhile (fun c => c != ':')
  expect ':'
  match String.ofList tag with
  | "i" => do let i ← pInt; pure (.int i)
  | "f32" => do let n ← pHexNat; pure (.f32 n)
  | "f64" => do let n ← pHexNat; pure (.f64 n)
  | "b" => do let b ← pHex; pure (.bytes b)
  | "s" => do let b ← pHex; pure (.str b)
  | "t" => do let i ← pInt; pure (.time i)
  | "a" => do
    let f ← pNat; expect ':'
    let b ← pHex
    pure (.addr f b)
  | "g" => do
    expect '['
    let l ← sepBy pAvpObj ',' ']'
    pure (.avps l)
  | _ => failure

def pad (n : Nat) (s : String) : String :=
  String.ofList (List.replicate (n - s.length) '0') ++ s

def natHex (n : Nat) : String := String.ofList (Nat.toDigits 16 n)

def showValue : Value → String
  | .int i => s!"i:{i}"
  | .f32 n => "f32:" ++ pad 8 (natHex n)
  | .f64 n => "f64:" ++ pad 16 (natHex n)
  | .bytes b => "b:" ++ toHex b
  | .str b => "s:" ++ toHex b
  | .time t => s!"t:{t}"
  | .addr f b => s!"a:{f}:" ++ toHex b
  | .avps l => "g:[" ++ ",".intercalate (l.map showAvpObj) ++ "]"

def pSetArg : P SetArg := do
  match (← peek) with
  | some 'A' => do
    let _ ← next; expect ':'
    let t ← pHex; expect ':'
    let p4 ← pOptHex; expect ':'
    let p6 ← pOptHex
    pure (.addrText t p4 p6)
  | some 'X' => do
    let _ ← next
    match (← next) with
    | 'f' => pure .f32Overflow
    | 's' => pure .unencodableStr
    | _ => failure
  | _ => do let v ← pValue; pure (.val v)

/-- Scalars inside typed objects are written as setter arguments; to keep the
    model's `FVal` uniform, an address text literal is stored as the value the
    setter produces (`.addr fam raw`). -/
def setArgToValue : SetArg → Option Value
  | .val v => some v
  | .addrText t p4 p6 =>
    if hasDotOrColon t then
      match p4 with
      | some b => some (.addr 1 b)
      | none => match p6 with
        | some b => some (.addr 2 b)
        | none => none
    else some (.addr 8 t)
  | _ => none

partial def pFVal : P FVal := do
  match (← next) with
  | 'U' => pure .unset
  | 'S' => do
    let a ← pSetArg
    match setArgToValue a with
    | some v => pure (.scalar v)
    | none => failure
  | 'L' => do
    expect '['
    let l ← sepBy (do let a ← pSetArg; match setArgToValue a with | some v => pure v | none => failure) ',' ']'
    pure (.list l)
  | 'M' => do
    expect '['
    let l ← sepBy pFVal ',' ']'
    pure (.objs l)
  | 'C' => do let c ← pNat; pure (.classObj c)
  | 'O' => do
    let c ← pNat
    expect '{'
    let fs ← sepBy (do let k ← pNat; expect '='; let v ← pFVal; pure (k, v)) ';' '}'
    expect '['
    let ex ← sepBy pAvpObj ',' ']'
    pure (.obj c fs ex)
  | _ => failure

partial def showFVal : FVal → String
  | .unset => "U"
  | .scalar v => "S" ++ showValue v
  | .list vs => "L[" ++ ",".intercalate (vs.map showValue) ++ "]"
  | .objs os => "M[" ++ ",".intercalate (os.map showFVal) ++ "]"
  | .classObj c => s!"C{c}"
  | .obj c fs ex =>
    -- canonical: fields sorted by attribute name id
    let fs := ((fs.filter (fun p => match p.2 with | .unset => false | _ => true)).toArray.qsort (fun a b => a.1 < b.1)).toList
    s!"O{c}" ++ "{" ++ ";".intercalate (fs.map fun (k, v) => s!"{k}=" ++ showFVal v) ++ "}[" ++
      ",".intercalate (ex.map showAvpObj) ++ "]"

def run {α} (p : P α) (s : String) : Option α :=
  match p s.toList with
  | some (a, []) => some a
  | _ => none

end DV.Syn
