/-
  Line-protocol driver: executes the model on the cases the harness generated
  for the real implementation.  One input line → one output line.
  Imports `Model/*` and `Generated/*` only (no proofs, no Mathlib).
-/
import DV.Driver.Syntax
import DV.Model.Decode
import DV.Model.Framing
import DV.Driver.NodeSim
import DV.Generated.Dict
import DV.Generated.Classes
import DV.Generated.Commands
import DV.Generated.Constants
import DV.Generated.Threads
import DV.Generated.Names
import Std.Data.HashMap

namespace DV.Driver
open DV DV.Syn

def normName (s : String) : String :=
  String.ofList (s.toList.map fun c => if c == '-' then '_' else c.toLower)

/-- canonical representative of each dictionary name under normalisation:
    the smallest name id with the same normalised name -/
def canonTable : Array Nat := Id.run do
  let names := Gen.names
  let mut seen : Std.HashMap String Nat := {}
  let mut out : Array Nat := Array.mkEmpty names.size
  for i in [0:names.size] do
    let n := normName names[i]!
    match seen[n]? with
    | some j => out := out.push j
    | none =>
      seen := seen.insert n i
      out := out.push i
  return out

def env : Env :=
  { tc := { since1900 := Gen.time_since1900, overflowTs := Gen.time_overflowTs, cutoff := Gen.time_cutoff }
    dict := Gen.dict
    classes := Gen.classes
    msgClasses := Gen.msgClasses
    registry := Gen.registry
    clsMessage := Gen.clsMessage
    clsUndefined := Gen.clsUndefinedMessage
    canon := fun i => canonTable.getD i i }

def exc (e : Exc) : String := "EXC " ++ e.name

def showAvps (l : List Avp) : String := "[" ++ ",".intercalate (l.map showAvpObj) ++ "]"

def showHeader (h : Header) : String :=
  s!"{h.version} {h.length} {h.flags} {h.code} {h.appId} {h.hbh} {h.e2e}"

/-- binary32 bit pattern → binary64 bit pattern of the same number (what
    `struct.unpack("!f")` hands to Python; NaNs come out quiet). -/
def f32to64 (n : Nat) : Nat :=
  let sign := n >>> 31
  let e := (n >>> 23) &&& 0xff
  let m := n &&& 0x7fffff
  let body :=
    if e == 0 then
      if m == 0 then 0
      else
        let k := Nat.log2 m
        ((k + 1023 - 149) <<< 52) ||| ((m - 2 ^ k) <<< (52 - k))
    else if e == 255 then
      (2047 <<< 52) ||| (m <<< 29) ||| (if m ≠ 0 then 2 ^ 51 else 0)
    else ((e + 1023 - 127) <<< 52) ||| (m <<< 29)
  (sign <<< 63) ||| body

partial def showUVal : UVal → String
  | .v (.f32 n) => "Vf:" ++ pad 16 (natHex (f32to64 n))
  | .v (.f64 n) => "Vf:" ++ pad 16 (natHex n)
  | .v x => "V" ++ showValue x
  | .many l => "N[" ++ ",".intercalate (l.map showUVal) ++ "]"
  | .grp fs => "G{" ++ ";".intercalate (fs.map fun (k, v) =>
      (if k == unknownName then "unknown" else normName (Gen.names.getD k "?")) ++ "=" ++ showUVal v) ++ "}"

def pAvpList : P (List Avp) := do expect '['; sepBy pAvpObj ',' ']'

def pPath : P (List (Nat × Nat)) := do
  let rec go (acc : List (Nat × Nat)) : Nat → P (List (Nat × Nat))
    | 0 => failure
    | n + 1 => do
      let c ← pNat; expect '_'
      let v ← pNat
      match (← peek) with
      | some '/' => do let _ ← next; go (acc ++ [(c, v)]) n
      | _ => pure (acc ++ [(c, v)])
  go [] 64

def tyOfEntry (code vendor : Nat) : Ty :=
  match lookupDict env.dict code vendor with
  | some e => Ty.ofTag e.ty
  | none => .untyped

def nameOfEntry (code vendor : Nat) : String :=
  match lookupDict env.dict code vendor with
  | some e => s!"{e.name}"
  | none => "-"

def handle (toks : List String) : String :=
  match toks with
  | ["AVPENC", a] =>
    match run pAvpObj a with
    | some avp => match encodeAvp avp with
      | .ok b => toHex b
      | .error e => exc e
    | none => "BAD"
  | ["AVPDEC", h] =>
    match ofHex h with
    | some buf => match decodeAvp buf 0 with
      | .ok (a, pos) => s!"{showAvpObj a} {pos} {(tyOfEntry a.code a.vendor).tag} {nameOfEntry a.code a.vendor}"
      | .error .conversion => exc .avpDecode      -- `Avp.from_bytes` wraps ConversionError
      | .error e => exc e
    | none => "BAD"
  | ["AVPVAL", ty, p] =>
    match ty.toNat?, ofHex p with
    | some t, some payload => match env.getv (Ty.ofTag t) payload with
      | .ok v => showValue v
      | .error e => exc e
    | _, _ => "BAD"
  | ["AVPSET", ty, a] =>
    match ty.toNat?, run pSetArg a with
    | some t, some arg => match setArg env.tc (Ty.ofTag t) arg with
      | .ok b => toHex b
      | .error e => exc e
    | _, _ => "BAD"
  | ["AVPNEW", code, vendor, a, m, p] =>
    match code.toNat?, vendor.toNat?, m.toNat?, p.toNat? with
    | some c, some v, some mo, some po =>
      let arg : Option (Option SetArg) := if a == "-" then some none else (run pSetArg a).map some
      match arg with
      | some ar => match avpNew env.tc env.dict c v ar mo po with
        | .ok x => showAvpObj x
        | .error e => exc e
      | none => "BAD"
    | _, _, _, _ => "BAD"
  | ["AVPSTR", h] =>
    -- `str(Avp.from_bytes(h))`: reads `.value`, catching only AvpDecodeError
    match ofHex h with
    | some buf => match decodeAvp buf 0 with
      | .ok (a, _) => match env.getv (tyOfEntry a.code a.vendor) a.payload with
        | .ok _ => "OK"
        | .error .avpDecode => "OK"
        | .error e => exc e
      | .error .conversion => exc .avpDecode
      | .error e => exc e
    | none => "BAD"
  | ["MSGDEC", h, plain] =>
    match ofHex h with
    | some buf =>
      match decodeMsg env buf (plain == "1") with
      | .error e => exc e
      | .ok d =>
        let hd := showHeader d.header
        let re := match d.asBytes env with
          | .ok b => toHex b
          | .error e => exc e
        match d with
        | .plain c _ a => s!"{c} {hd} AVPS {showAvps a} RE {re}"
        | .typed c _ o => s!"{c} {hd} OBJ {showFVal o} RE {re}"
        | .undef c _ a ats => s!"{c} {hd} UNDEF {showAvps a} {showUVal (.grp ats)} RE {re}"
    | none => "BAD"
  | ["MSGENC", ver, flags, code, app, hbh, e2e, avps] =>
    match ver.toNat?, flags.toNat?, code.toNat?, app.toNat?, hbh.toNat?, e2e.toNat?, run pAvpList avps with
    | some v, some f, some c, some a, some hb, some ee, some l =>
      match encodeMsg { version := v, length := 0, flags := f, code := c, appId := a, hbh := hb, e2e := ee } l with
      | .ok b => toHex b
      | .error e => exc e
    | _, _, _, _, _, _, _ => "BAD"
  | "FIND" :: h :: paths =>
    match ofHex h with
    | some buf => match decodeMsgPlain buf with
      | .error e => exc e
      | .ok (_, avps) =>
        let (outs, _) := paths.foldl (init := (([] : List String), ({ entries := [] } : FindCache))) fun (acc, cache) p =>
          match run pPath p with
          | none => (acc ++ ["BAD"], cache)
          | some path => match findAvps env.dict avps cache path with
            | .ok (r, cache') => (acc ++ [showAvps r], cache')
            | .error e => (acc ++ [exc e], cache)
        ";".intercalate outs
    | none => "BAD"
  | ["TYPED", o] =>
    match run pFVal o with
    | some fv => match generateFuel env.tc env.dict env.classes 64 (instantiateFuel env.classes 64 fv) with
      | .ok l => showAvps l
      | .error e => exc e
    | none => "BAD"
  | ["ASSIGN", cls, avps] =>
    match cls.toNat?, run pAvpList avps with
    | some c, some l => match assignFuel env.getv env.dict env.classes 64 c l with
      | .ok o => showFVal o
      | .error e => exc e
    | _, _ => "BAD"
  | ["ANSWER", cls, ver, flags, code, app, hbh, e2e] =>
    match cls.toNat?, ver.toNat?, flags.toNat?, code.toNat?, app.toNat?, hbh.toNat?, e2e.toNat? with
    | some c, some v, some f, some cd, some a, some hb, some ee =>
      match findMsgClass env.msgClasses c with
      | some mc =>
        -- the request object is `cls(header)`: its constructor acts first
        let h0 : Header := { version := v, length := 0, flags := f, code := cd, appId := a, hbh := hb, e2e := ee }
        let hreq := { mc.applyHeader h0 with flags := f }
        let ha := toAnswerHeader env.msgClasses mc hreq
        s!"{mc.answerClass} {showHeader ha} REQ {showHeader hreq}"
      | none => "BAD"
    | _, _, _, _, _, _, _ => "BAD"
  | ["GENSEQ", which, start, n] =>
    let mx := if which == "sess" then Gen.sessMax else Gen.seqMax
    let s0 := start.toNat?.getD 0
    " ".intercalate ((List.range (n.toNat?.getD 0)).map fun j => toString (Gens.iter mx (j + 1) s0))
  | ["GENINIT", now, r] => toString (Gens.e2eInit (now.toNat?.getD 0) (r.toNat?.getD 0))
  | "GENSESS" :: ident :: base :: seq :: opts =>
    Gens.sessionId ident (base.toNat?.getD 0) (seq.toNat?.getD 0) opts
  | ["GENSCHED", which, start, nthr, sched] =>
    let mx := if which == "sess" then Gen.sessMax else Gen.seqMax
    let P := if which == "sess" then Gen.sessProgram else Gen.seqProgram
    let sc := (sched.splitOn ",").filterMap String.toNat?
    let g := Gens.runSched mx P (Gens.initGS (start.toNat?.getD 0) (nthr.toNat?.getD 0)) sc
    "|".intercalate (g.thrs.map fun th => ",".intercalate (th.outs.map toString)) ++ " seq=" ++ toString g.seq
  | ["RRACE", nthr, sched] =>
    -- two-step lookup/removal of `route_answer` as extracted, under the given order of shared-state steps
    let sc := (sched.splitOn ",").filterMap String.toNat?
    let s := RR.run Gen.routeAnswerKind (RR.init (nthr.toNat?.getD 0)) sc
    let nm := fun (p : RR.Pc) => match p with | .start => "start" | .found => "found" | .sent => "sent" | .failed => "failed"
    s!"sent={RR.sentCount s} " ++ ",".intercalate (s.pcs.map nm)
  | "WPATH" :: msgs :: "|" :: evs =>
    let ms : List (Option WP.Bytes) := (msgs.splitOn ",").map fun m => if m == "-" then none else (ofHex m).map (·.map UInt8.toNat)
    let es : List WP.Ev := evs.filterMap fun e =>
      if e == "w" then some .w
      else if e == "ls" then some (.l .soft)
      else if e == "lh" then some (.l .hard)
      else if e.startsWith "l" then (e.drop 1).toNat?.map fun k => WP.Ev.l (.accept k)
      else if e.startsWith "p" then (e.drop 1).toNat?.map fun i => WP.Ev.put ((ms[i]?).getD none)
      else none
    let s := WP.run Gen.writeProg {} es
    s!"sent={toHex (s.sent.map Nat.toUInt8)} buf={toHex (s.buf.map Nat.toUInt8)} crashed={if s.crashed then 1 else 0} q={s.q.length} w={s.wpath.length} l={s.lpath.length}"
  | "FRAME" :: chunks =>
    match chunks.mapM ofHex with
    | none => "BAD"
    | some cs =>
      let dec := fun (b : Bytes) => match decodeMsg env b false with | .ok _ => true | .error _ => false
      let (st, evs) := feedAll dec Config.frameSkipZeroGuard Config.frameFallThrough { buf := [], closed := false } cs
      let dl := evs.filterMap fun e => match e with
        | .deliver f => match decodeHeader f with
          | .ok h => some s!"{h.code}:{h.hbh}:{h.e2e}:{f.length}"
          | .error _ => some "?"
        | _ => none
      let spin := evs.contains .spin
      let closed := evs.contains .close
      s!"D[{",".intercalate dl}] closed={if closed then 1 else 0} spin={if spin then 1 else 0} resid={st.buf.length}"
  | _ => "BAD"

def nameId (n : String) : Nat := (Gen.names.toList.findIdx? (· == n)).getD 0

def attrIds : Node.AttrIds :=
  { originHost := nameId "origin_host", destRealm := nameId "destination_realm", sessionId := nameId "session_id",
    resultCode := nameId "result_code", failedAvp := nameId "failed_avp" }

partial def loop (inp : IO.FS.Stream) (out : IO.FS.Stream) : IO Unit := do
  let line ← inp.getLine
  if line.isEmpty then return ()
  let l := String.ofList (line.toList.filter (fun c => c != '\n' && c != '\r'))
  if l.startsWith "NODE " then
    out.putStrLn (" ## ".intercalate (NodeSim.runScenario (Node.msgInfo env attrIds) l))
  else
    out.putStrLn (handle (l.splitOn " "))
  loop inp out

end DV.Driver

def main : IO Unit := do
  let inp ← IO.getStdin
  let out ← IO.getStdout
  DV.Driver.loop inp out
  out.flush
