/-
  The invariant behind the whole-history theorems of C06
  (Properties/C06Hist.lean):

  * `IdPos`  — a connection object's id is its position in `conns` (ids are
    never re-used, objects never removed or re-ordered);
  * `GInv`   — every (connection, hop-by-hop id) pair in `_peer_waiting_answer`
    belongs to a connection that is **not** in a pre-exchange state
    (CONNECTING / CONNECTED).

  A pending pair appears only in `_receive_app_request`, which the gate of
  `__dispatch_message` lets a message reach only on a connection that has left
  the pre-exchange states; and no function moves a connection back into them
  (`⊒`, Proofs/NodeGate.lean).
-/
import DV.Proofs.NodeGate
import DV.Proofs.NodeSoundInv
namespace DV.Node

def IdPos (s : St) : Prop := ∀ (i : Nat) (c : Conn), s.conns[i]? = some c → c.id = i

theorem IdPos_of_ge {s' s : St} (h : s' ⊒ s) (hid : IdPos s) : IdPos s' := by
  intro i c' hc'
  have r := h.2 i c' hc'
  cases hs : s.conns[i]? with
  | some c => rw [hs] at r; rw [r.1]; exact hid i c hs
  | none => rw [hs] at r; exact r

theorem conn?_getElem {s : St} (hid : IdPos s) {cid : Nat} {c : Conn} (hc : s.conn? cid = some c) : s.conns[cid]? = some c := by
  obtain ⟨hm, hi⟩ := conn?_some hc
  obtain ⟨k, hk⟩ := List.getElem?_of_mem hm
  have := hid k c hk
  rw [hi] at this
  rw [this]; exact hk

/-- what `⊒` says about one old position -/
theorem ge_old {s' s : St} (h : s' ⊒ s) {i : Nat} {c : Conn} (hc : s.conns[i]? = some c) :
    ∃ c', s'.conns[i]? = some c' ∧ c'.id = c.id ∧ (c'.preB = true → c.preB = true) := by
  have hlt : i < s.conns.length := (List.getElem?_eq_some_iff.mp hc).1
  have hlt' : i < s'.conns.length := Nat.lt_of_lt_of_le hlt h.1
  refine ⟨s'.conns[i], List.getElem?_eq_getElem hlt', ?_⟩
  have r := h.2 i _ (List.getElem?_eq_getElem hlt')
  rw [hc] at r
  exact r

theorem nonpre_of_ge {s' s : St} (h : s' ⊒ s) {i : Nat} (hc : ∃ c, s.conns[i]? = some c ∧ c.preB = false) :
    ∃ c', s'.conns[i]? = some c' ∧ c'.preB = false := by
  obtain ⟨c, hc, hp⟩ := hc
  obtain ⟨c', hc', _, himp⟩ := ge_old h hc
  refine ⟨c', hc', ?_⟩
  cases hb : c'.preB with
  | false => rfl
  | true => rw [himp hb] at hp; exact absurd hp (by decide)

/-- an update of the connections carrying a *new* id (≥ the old number of connections) -/
theorem ge_modConn_fresh {s1 s : St} (cid : Nat) (f : Conn → Conn) (hid : IdPos s) (hge : s1 ⊒ s)
    (hc : s.conns.length ≤ cid) (hf : ∀ x, (f x).id = x.id) : s1.modConn cid f ⊒ s := by
  refine ⟨by simpa [St.modConn] using hge.1, ?_⟩
  intro k c2 hk
  simp only [St.modConn, List.getElem?_map] at hk
  cases h1 : s1.conns[k]? with
  | none => rw [h1] at hk; simp at hk
  | some c1 =>
    rw [h1] at hk
    simp only [Option.map_some, Option.some.injEq] at hk
    subst hk
    have r := hge.2 k c1 h1
    cases hs : s.conns[k]? with
    | some c =>
      rw [hs] at r
      have hck : c.id = k := hid k c hs
      have hlt : k < s.conns.length := (List.getElem?_eq_some_iff.mp hs).1
      have hne : (c1.id == cid) = false := by
        rw [r.1, hck]; simp; omega
      show (if (c1.id == cid) = true then f c1 else c1).id = c.id ∧ ((if (c1.id == cid) = true then f c1 else c1).preB = true → c.preB = true)
      simp only [hne, Bool.false_eq_true, if_false]
      exact r
    | none =>
      rw [hs] at r
      show (if (c1.id == cid) = true then f c1 else c1).id = k
      split
      · rw [hf]; exact r
      · exact r

/-- an update of the one connection `cid` (found by `conn?`) -/
theorem ge_modConn_at {s : St} (cid : Nat) (f : Conn → Conn) (hid : IdPos s) {c : Conn} (hc : s.conn? cid = some c)
    (hf : ∀ x, (f x).id = x.id) (hp : (f c).preB = true → c.preB = true) : s.modConn cid f ⊒ s := by
  have hcc := conn?_getElem hid hc
  refine ⟨by simp [St.modConn], ?_⟩
  intro k c2 hk
  simp only [St.modConn, List.getElem?_map] at hk
  cases h1 : s.conns[k]? with
  | none => rw [h1] at hk; simp at hk
  | some c1 =>
    rw [h1] at hk
    simp only [Option.map_some, Option.some.injEq] at hk
    subst hk
    show (if (c1.id == cid) = true then f c1 else c1).id = c1.id ∧ ((if (c1.id == cid) = true then f c1 else c1).preB = true → c1.preB = true)
    split
    · rename_i hk
      have : c1.id = cid := by simpa using hk
      have hk1 : c1.id = k := hid k c1 h1
      have : k = cid := by omega
      subst this
      rw [hcc] at h1
      injection h1 with h1
      subst h1
      exact ⟨hf c, hp⟩
    · exact ⟨rfl, id⟩

theorem ge2_foldl {α : Type} (f : St → α → St) (hf : ∀ s a, IdPos s → f s a ⊒ s) (l : List α) (s : St) (hid : IdPos s) :
    l.foldl f s ⊒ s := by
  induction l generalizing s with
  | nil => exact Ge.refl s
  | cons a l ih =>
    have h1 := hf s a hid
    exact Ge.trans (ih _ (IdPos_of_ge h1 hid)) h1

theorem ge2_foldlW {α : Type} (f : World → α → World) (hf : ∀ w a, IdPos w.st → (f w a).st ⊒ w.st) (l : List α) (w : World)
    (hid : IdPos w.st) : (l.foldl f w).st ⊒ w.st := by
  induction l generalizing w with
  | nil => exact Ge.refl _
  | cons a l ih =>
    have h1 := hf w a hid
    exact Ge.trans (ih _ (IdPos_of_ge h1 hid)) h1

/-! ### dialling and the result of a non-blocking connect -/

theorem ge2_connectToPeer (s : St) (pi : Nat) (hid : IdPos s) : connectToPeer s pi ⊒ s := by
  unfold connectToPeer
  split
  · exact Ge.refl s
  · split
    · exact Ge.refl s
    · split
      · exact Ge.refl s
      · dsimp only
        rename_i p _ _ _
        have h1 : ((addPeerConnection { s with dialPlan := List.drop 1 s.dialPlan, nextHbhSeed := s.nextHbhSeed + 1000 }
            { id := s.conns.length, dir := .send, state := .connecting, nodeName := p.name, originHost := s.cfg.host,
              lastRead := s.now, established := s.now, hbh := s.nextHbhSeed }).1.emit (.dialled pi)) ⊒ s :=
          ge_emit _ _ (ge_addPeerConnection _ _ rfl (ge_of_conns rfl (Ge.refl s)))
        split
        · split
          · exact ge_closeConnectionSocket _ _ _ h1
          · exact ge_removePeerConnection _ _ _ h1
        · split
          · exact ge_demand _ _ (ge_of_conns rfl h1)
          · apply ge_sendCer
            exact ge_modConn_fresh _ _ hid h1 (Nat.le_refl _) (fun x => rfl)

theorem ge2_reconnectStep (s : St) (pi : Nat) (hid : IdPos s) : reconnectStep s pi ⊒ s := by
  unfold reconnectStep
  repeat (first | exact Ge.refl s | exact ge2_connectToPeer s pi hid | split)

theorem ge2_reconnectPeers (s : St) (hid : IdPos s) : reconnectPeers s ⊒ s := by
  unfold reconnectPeers
  split
  · exact Ge.refl s
  · exact ge2_foldl _ (fun s a h => ge2_reconnectStep s a h) _ _ hid

theorem ge2_connectResult (w : World) (cid : Nat) (c : Conn) (hid : IdPos w.st) (hc : w.st.conn? cid = some c) :
    (connectResult w cid c).1.st ⊒ w.st := by
  unfold connectResult
  dsimp only
  by_cases hst : (c.state == CState.connecting) = true
  · have hpre : c.preB = true := by
      have : c.state = .connecting := by simpa using hst
      simp [Conn.preB, this]
    have h1 : (w.st.modConn cid fun c => { c with state := .connected, established := w.st.now }) ⊒ w.st :=
      ge_modConn_at cid _ hid hc (fun x => rfl) (fun _ => hpre)
    simp only [hst, if_true]
    repeat (first
      | exact ge_connClose _ _ _ (ge_closeConnectionSocket _ _ _ (Ge.refl _))
      | exact ge_sendCer _ _ (ge_modPeer _ _ _ h1)
      | exact ge_sendCer _ _ h1
      | split
      | dsimp only)
  · simp only [hst, Bool.false_eq_true, if_false]
    exact Ge.refl _

theorem ge2_handleWritable (w : World) (cid : Nat) (hid : IdPos w.st) : (handleWritable w cid).st ⊒ w.st := by
  unfold handleWritable
  split
  · exact Ge.refl _
  · split
    · exact Ge.refl _
    · rename_i c hc
      have h1 := ge2_connectResult w cid c hid hc
      dsimp only
      split
      · exact h1
      · exact ge_flushWritable _ _ h1

theorem ge_handleReadable (w : World) (cid : Nat) {s0 : St} (h : w.st ⊒ s0) : (handleReadable w cid).st ⊒ s0 := by
  unfold handleReadable
  have hst : (w.popRx cid).1.st = w.st := popRx_st w cid
  split
  · exact h
  · dsimp only
    generalize hr : w.popRx cid = r at *
    obtain ⟨w1, ev⟩ := r
    dsimp only at *
    rw [← hst] at h
    split
    · exact h
    · exact h
    · exact ge_connClose _ _ _ (ge_closeConnectionSocket _ _ _ h)
    · exact ge_connClose _ _ _ (ge_closeConnectionSocket _ _ _ h)
    · exact ge_modConn _ _ _ (by tamep) h
    · exact ge_modConn _ _ _ (by tamep) h

/-! ### the receive path -/

theorem ge_receiveAppRequest (s : St) (cid : Nat) (m : AMsg) (info : MsgInfo) {s0 : St} (h : s ⊒ s0) :
    (receiveAppRequest s cid m info).1 ⊒ s0 := by
  unfold receiveAppRequest
  repeat (first
    | ge_hyp | ge_triv | ge_lit | split | dsimp only
    | with_reducible apply ge_sendMessage
    | with_reducible apply ge_appReceiveRequest)

theorem ge_handleByCommand (s : St) (cid : Nat) (m : AMsg) (info : MsgInfo) {s0 : St} (h : s ⊒ s0) :
    (handleByCommand s cid m info).1 ⊒ s0 := by
  unfold handleByCommand
  repeat (first
    | ge_hyp | ge_triv | ge_lit | split | dsimp only
    | with_reducible apply ge_receiveCer | with_reducible apply ge_receiveCea
    | with_reducible apply ge_receiveDwr | with_reducible apply ge_receiveDwa | with_reducible apply ge_receiveDpr
    | with_reducible apply ge_receiveDpa | with_reducible apply ge_receiveAppRequest | with_reducible apply ge_receiveAppAnswer)

theorem ge_receiveMessage (s : St) (cid : Nat) (m : AMsg) (info : MsgInfo) {s0 : St} (h : s ⊒ s0) :
    receiveMessage s cid m info ⊒ s0 := by
  unfold receiveMessage
  dsimp only
  have h1 : recordOrigin s cid m info ⊒ s0 := ge_recordOrigin _ _ _ _ h
  have hb := ge_handleByCommand (recordOrigin s cid m info) cid m info h1
  split
  · exact ge_crashReader _ _ _ h1
  · split
    · split
      · exact ge_sendMessage _ _ _ _ h1
      · exact ge_crashReader _ _ _ (ge_sendMessage _ _ _ _ h1)
    · split
      · split
        · exact ge_sendMessage _ _ _ _ h1
        · exact ge_crashReader _ _ _ (ge_sendMessage _ _ _ _ h1)
      · split
        · rename_i s' heq
          rw [heq] at hb; exact hb
        · rename_i s' e heq
          rw [heq] at hb
          split
          · exact hb
          · split
            · exact ge_sendMessage _ _ _ _ hb
            · exact ge_crashReader _ _ _ (ge_sendMessage _ _ _ _ hb)

theorem ge_dispatchMessage (s : St) (cid : Nat) (m : AMsg) (info : MsgInfo) {s0 : St} (h : s ⊒ s0) :
    dispatchMessage s cid m info ⊒ s0 := by
  unfold dispatchMessage
  repeat (first | exact h | exact ge_receiveMessage s cid m info h | split)

theorem ge_pumpReader (infoOf : AMsg → MsgInfo) (s : St) (cid : Nat) {s0 : St} (h : s ⊒ s0) : pumpReader infoOf s cid ⊒ s0 := by
  unfold pumpReader
  split
  · exact h
  · split
    · exact h
    · split
      · exact h
      · dsimp only
        apply ge_foldl
        · intro s a hs
          repeat (first | exact hs | exact ge_dispatchMessage s cid a (infoOf a) hs | split)
        · exact ge_modConn _ _ _ (by tamep) h

theorem ge_pumpAll (infoOf : AMsg → MsgInfo) (s : St) {s0 : St} (h : s ⊒ s0) : pumpAll infoOf s ⊒ s0 := by
  unfold pumpAll
  dsimp only
  apply ge_foldl
  · intro s ai hs
    exact ge_pumpAppResp _ _ (ge_pumpAppRecv infoOf _ _ hs)
  · apply ge_foldl
    · intro s c hs
      apply ge_pumpWriter
      apply ge_foldl
      · intro s _ hs; exact ge_pumpReader infoOf s c.id hs
      · exact hs
    · exact h

/-! ### the invariant -/

/-- ids are positions, and pending pairs belong to connections past the pre-exchange states -/
def GInv (s : St) : Prop := IdPos s ∧ ∀ x ∈ s.pwm, ∃ c, s.conns[x.1]? = some c ∧ c.preB = false

/-- no new pending pair -/
def PwLe (s' s : St) : Prop := ∀ x ∈ s'.pwm, x ∈ s.pwm

theorem PwLe.refl (s : St) : PwLe s s := fun _ h => h
theorem PwLe.trans {a b c : St} (h1 : PwLe a b) (h2 : PwLe b c) : PwLe a c := fun x h => h2 x (h1 x h)
theorem PwLe_of_le {s' s : St} (h : s' ≼ s) : PwLe s' s := h.1

theorem GInv_of {s' s : St} (hp : PwLe s' s) (hg : s' ⊒ s) (h : GInv s) : GInv s' :=
  ⟨IdPos_of_ge hg h.1, fun x hx => nonpre_of_ge hg (h.2 x (hp x hx))⟩

/-- the pending pairs after `_receive_app_request`: the old ones, and possibly the request just received -/
theorem Pw_receiveAppRequest (L : List (Nat × Nat)) (s : St) (cid : Nat) (m : AMsg) (info : MsgInfo)
    (hs : ∀ x ∈ s.pwm, x ∈ L) (hm : (cid, m.hbh) ∈ L) : ∀ x ∈ (receiveAppRequest s cid m info).1.pwm, x ∈ L := by
  have send : ∀ (a : AMsg) (b : Bool), ∀ x ∈ (sendMessage s cid a b).1.pwm, x ∈ L :=
    fun a b x hx => hs x ((le_sendMessage _ _ _ _ (Le.refl _)).1 x hx)
  unfold receiveAppRequest
  split
  · exact hs
  · dsimp only
    split
    · exact send _ _
    · split
      · exact hs
      · split
        · exact send _ _
        · split
          · intro x hx
            have hx := (le_appReceiveRequest _ _ _ (Le.refl _)).1 x hx
            revert hx
            split
            · intro hx
              rw [mem_pwm] at hx
              obtain ⟨p, hp, h1, h2⟩ := hx
              simp only [List.mem_map] at hp
              obtain ⟨q, hq, rfl⟩ := hp
              by_cases hk : (q.1 == cid) = true
              · simp only [hk, if_true] at h1 h2
                have hqc : q.1 = cid := by simpa using hk
                by_cases hc : q.2.contains m.hbh = true
                · simp only [hc, if_true] at h2
                  exact hs x (mem_pwm.mpr ⟨q, hq, h1, h2⟩)
                · simp only [hc, if_false, Bool.false_eq_true] at h2
                  rcases List.mem_append.mp h2 with h2 | h2
                  · exact hs x (mem_pwm.mpr ⟨q, hq, h1, h2⟩)
                  · have : x = (cid, m.hbh) := by
                      have e2 : x.2 = m.hbh := by simpa using h2
                      cases x; simp_all
                    rw [this]; exact hm
              · simp only [hk, if_false, Bool.false_eq_true] at h1 h2
                exact hs x (mem_pwm.mpr ⟨q, hq, h1, h2⟩)
            · intro hx
              rw [mem_pwm] at hx
              obtain ⟨p, hp, h1, h2⟩ := hx
              rcases List.mem_append.mp hp with hp | hp
              · exact hs x (mem_pwm.mpr ⟨p, hp, h1, h2⟩)
              · have hp' : p = (cid, [m.hbh]) := by simpa using hp
                subst hp'
                have : x = (cid, m.hbh) := by
                  have e2 : x.2 = m.hbh := by simpa using h2
                  cases x; simp_all
                rw [this]; exact hm
          · exact send _ _

theorem pwm_receiveAppRequest (s : St) (cid : Nat) (m : AMsg) (info : MsgInfo) :
    ∀ x ∈ (receiveAppRequest s cid m info).1.pwm, x ∈ s.pwm ∨ x = (cid, m.hbh) := by
  intro x hx
  have := Pw_receiveAppRequest (s.pwm ++ [(cid, m.hbh)]) s cid m info (fun y hy => List.mem_append_left _ hy)
    (List.mem_append_right _ (by simp)) x hx
  rcases List.mem_append.mp this with h | h
  · exact Or.inl h
  · exact Or.inr (by simpa using h)

theorem GInv_receiveAppRequest (s : St) (cid : Nat) (m : AMsg) (info : MsgInfo) (h : GInv s)
    (hc : ∃ c, s.conns[cid]? = some c ∧ c.preB = false) : GInv (receiveAppRequest s cid m info).1 := by
  have hg := ge_receiveAppRequest s cid m info (Ge.refl s)
  refine ⟨IdPos_of_ge hg h.1, ?_⟩
  intro x hx
  rcases pwm_receiveAppRequest s cid m info x hx with hx | hx
  · exact nonpre_of_ge hg (h.2 x hx)
  · subst hx; exact nonpre_of_ge hg hc

theorem GInv_handleByCommand (s : St) (cid : Nat) (m : AMsg) (info : MsgInfo) (h : GInv s)
    (hc : m.cmd ≠ 257 → ∃ c, s.conns[cid]? = some c ∧ c.preB = false) : GInv (handleByCommand s cid m info).1 := by
  unfold handleByCommand
  dsimp only
  have h0 : GInv (if m.isRequest = true then
      match (s.conn? cid).bind (findConnectionPeer s) with
      | some pi => s.modPeer pi fun p => { p with requests := p.requests + 1 }
      | none => s
    else s) ∧ (if m.isRequest = true then
      match (s.conn? cid).bind (findConnectionPeer s) with
      | some pi => s.modPeer pi fun p => { p with requests := p.requests + 1 }
      | none => s
    else s).conns = s.conns := by
    repeat (first | exact ⟨h, rfl⟩ | split)
  generalize (if m.isRequest = true then
      match (s.conn? cid).bind (findConnectionPeer s) with
      | some pi => s.modPeer pi fun p => { p with requests := p.requests + 1 }
      | none => s
    else s) = s1 at h0
  obtain ⟨h0, hconns⟩ := h0
  split
  · split
    · exact GInv_of (PwLe_of_le (le_receiveCer _ _ _ _ (Le.refl _))) (ge_receiveCer _ _ _ _ (Ge.refl _)) h0
    · exact GInv_of (PwLe_of_le (le_receiveCea _ _ _ (Le.refl _))) (ge_receiveCea _ _ _ (Ge.refl _)) h0
  · rename_i h257
    have hne : m.cmd ≠ 257 := by simpa using h257
    split
    · split
      · exact GInv_of (PwLe_of_le (le_receiveDwr _ _ _ _ (Le.refl _))) (ge_receiveDwr _ _ _ _ (Ge.refl _)) h0
      · exact GInv_of (PwLe_of_le (le_receiveDwa _ _ (Le.refl _))) (ge_receiveDwa _ _ (Ge.refl _)) h0
    · split
      · split
        · exact GInv_of (PwLe_of_le (le_receiveDpr _ _ _ _ (Le.refl _))) (ge_receiveDpr _ _ _ _ (Ge.refl _)) h0
        · exact GInv_of (PwLe_of_le (le_receiveDpa _ _ (Le.refl _))) (ge_receiveDpa _ _ (Ge.refl _)) h0
      · split
        · refine GInv_receiveAppRequest s1 cid m info h0 ?_
          rw [hconns]; exact hc hne
        · exact GInv_of (PwLe_of_le (le_receiveAppAnswer _ _ (Le.refl _))) (ge_receiveAppAnswer _ _ (Ge.refl _)) h0

theorem recordOrigin_conns (s : St) (cid : Nat) (m : AMsg) (info : MsgInfo) : (recordOrigin s cid m info).conns = s.conns := by
  unfold recordOrigin; split <;> rfl

theorem GInv_receiveMessage (s : St) (cid : Nat) (m : AMsg) (info : MsgInfo) (h : GInv s)
    (hc : m.cmd ≠ 257 → ∃ c, s.conns[cid]? = some c ∧ c.preB = false) : GInv (receiveMessage s cid m info) := by
  unfold receiveMessage
  dsimp only
  have h1 : GInv (recordOrigin s cid m info) :=
    GInv_of (PwLe_of_le (le_recordOrigin _ _ _ _ (Le.refl _))) (ge_recordOrigin _ _ _ _ (Ge.refl _)) h
  have hb := GInv_handleByCommand (recordOrigin s cid m info) cid m info h1 (by rw [recordOrigin_conns]; exact hc)
  have send : ∀ (s2 : St) (a : AMsg) (b : Bool), GInv s2 → GInv (sendMessage s2 cid a b).1 := fun s2 a b h2 =>
    GInv_of (PwLe_of_le (le_sendMessage _ _ _ _ (Le.refl _))) (ge_sendMessage _ _ _ _ (Ge.refl _)) h2
  have crash : ∀ (s2 : St) (e : String), GInv s2 → GInv (crashReader s2 cid e) := fun s2 e h2 =>
    GInv_of (PwLe_of_le (le_crashReader _ _ _ (Le.refl _))) (ge_crashReader _ _ _ (Ge.refl _)) h2
  split
  · exact crash _ _ h1
  · split
    · split
      · exact send _ _ _ h1
      · exact crash _ _ (send _ _ _ h1)
    · split
      · split
        · exact send _ _ _ h1
        · exact crash _ _ (send _ _ _ h1)
      · split
        · rename_i s' heq
          rw [heq] at hb; exact hb
        · rename_i s' e heq
          rw [heq] at hb
          split
          · exact hb
          · split
            · exact send _ _ _ hb
            · exact crash _ _ (send _ _ _ hb)

/-- **The gate.** A message reaches `_receive_message` only on a connection past
    the pre-exchange states — or, on a CONNECTED one, when it is the
    capabilities-exchange message itself. -/
theorem GInv_dispatchMessage (hk : Config.gateClosing = true) (s : St) (cid : Nat) (m : AMsg) (info : MsgInfo) (h : GInv s) :
    GInv (dispatchMessage s cid m info) := by
  unfold dispatchMessage
  split
  · exact h
  · rename_i c hc
    have hcc := conn?_getElem h.1 hc
    split
    · split
      · exact h
      · rename_i h257
        have : m.cmd = 257 := by simpa using h257
        repeat (first | exact h | exact GInv_receiveMessage s cid m info h (fun hne => absurd this hne) | split)
    · rename_i hnc
      simp only [hk, Bool.true_and]
      split
      · exact h
      · rename_i hst
        refine GInv_receiveMessage s cid m info h (fun _ => ⟨c, hcc, ?_⟩)
        cases hcs : c.state <;> simp_all [Conn.preB]

theorem GInv_pumpReader (hk : Config.gateClosing = true) (infoOf : AMsg → MsgInfo) (s : St) (cid : Nat) (h : GInv s) :
    GInv (pumpReader infoOf s cid) := by
  unfold pumpReader
  split
  · exact h
  · split
    · exact h
    · split
      · exact h
      · dsimp only
        rename_i chunk rest hq
        have h1 : GInv (s.modConn cid fun c => { c with inQ := rest, lastRead := s.now }) :=
          GInv_of (s := s) (fun _ hx => hx) (ge_modConn s cid _ (by tamep) (Ge.refl s)) h
        generalize (s.modConn cid fun c => { c with inQ := rest, lastRead := s.now }) = s1 at h1
        clear hq
        induction chunk generalizing s1 with
        | nil => exact h1
        | cons m ms ih =>
          simp only [List.foldl_cons]
          apply ih
          repeat (first | exact h1 | exact GInv_dispatchMessage hk s1 cid m (infoOf m) h1 | split)

theorem GInv_foldl {α : Type} (f : St → α → St) (hf : ∀ s a, GInv s → GInv (f s a)) (l : List α) (s : St) (h : GInv s) :
    GInv (l.foldl f s) := by
  induction l generalizing s with
  | nil => exact h
  | cons a l ih => exact ih _ (hf s a h)

theorem GInv_pumpAll (hk : Config.gateClosing = true) (infoOf : AMsg → MsgInfo) (s : St) (h : GInv s) : GInv (pumpAll infoOf s) := by
  unfold pumpAll
  dsimp only
  apply GInv_foldl
  · intro s ai hs
    exact GInv_of (PwLe_of_le (le_pumpAppResp _ _ (le_pumpAppRecv infoOf _ _ (Le.refl _))))
      (ge_pumpAppResp _ _ (ge_pumpAppRecv infoOf _ _ (Ge.refl _))) hs
  · apply GInv_foldl
    · intro s c hs
      refine GInv_of (PwLe_of_le (le_pumpWriter _ _ (Le.refl _))) (ge_pumpWriter _ _ (Ge.refl _)) ?_
      apply GInv_foldl
      · intro s _ hs; exact GInv_pumpReader hk infoOf s c.id hs
      · exact hs
    · exact h

/-! ### the I/O loop -/

theorem PwLe_handleReadable (w : World) (cid : Nat) : PwLe (handleReadable w cid).st w.st := by
  unfold handleReadable
  have hst : (w.popRx cid).1.st = w.st := popRx_st w cid
  split
  · exact PwLe.refl _
  · dsimp only
    generalize hr : w.popRx cid = r at *
    obtain ⟨w1, ev⟩ := r
    dsimp only at *
    rw [← hst]
    split
    · exact PwLe.refl _
    · exact PwLe.refl _
    · exact PwLe_of_le (le_connClose _ _ _ (le_closeConnectionSocket _ _ _ (Le.refl _)))
    · exact PwLe_of_le (le_connClose _ _ _ (le_closeConnectionSocket _ _ _ (Le.refl _)))
    · exact fun _ hx => hx
    · exact fun _ hx => hx

theorem GInv_foldlW {α : Type} (f : World → α → World) (hf : ∀ w a, GInv w.st → GInv (f w a).st) (l : List α) (w : World)
    (h : GInv w.st) : GInv (l.foldl f w).st := by
  induction l generalizing w with
  | nil => exact h
  | cons a l ih => exact ih _ (hf w a h)

theorem GInv_ioIteration (w : World) (h : GInv w.st) : GInv (ioIteration w).st := by
  unfold ioIteration
  dsimp only
  generalize hW : List.foldl handleWritable _ _ = W
  have hWs : GInv W.st := by
    rw [← hW]
    apply GInv_foldlW
    · intro w a hw
      exact GInv_of (PwLe_of_le (le_handleWritable w a (Le.refl _))) (ge2_handleWritable w a hw.1) hw
    · apply GInv_foldlW
      · intro w a hw
        exact GInv_of (PwLe_handleReadable w a) (ge_handleReadable w a (Ge.refl _)) hw
      · have h1 : GInv (if (!w.st.pipe.isEmpty) = true then { w with st := handleInterrupt w.st } else w).st := by
          split
          · exact GInv_of (PwLe_of_le (le_handleInterrupt _ (Le.refl _))) (ge_handleInterrupt _ (Ge.refl _)) h
          · exact h
        generalize (if (!w.st.pipe.isEmpty) = true then { w with st := handleInterrupt w.st } else w) = w1 at h1
        split
        · exact GInv_of (PwLe_of_le (le_handleAccept _ (Le.refl _))) (ge_handleAccept _ (Ge.refl _)) h1
        · exact h1
  have h2 : GInv (W.st.connections.foldl checkTimers W.st) :=
    GInv_of (PwLe_of_le (le_foldl _ (fun s a hs => le_checkTimers s a hs) _ _ (Le.refl _)))
      (ge_foldl _ (fun s a hs => ge_checkTimers s a hs) _ _ (Ge.refl _)) hWs
  exact GInv_of (PwLe_of_le (le_reconnectPeers _ (Le.refl _))) (ge2_reconnectPeers _ h2.1) h2

theorem GInv_settle (hk : Config.gateClosing = true) (infoOf : AMsg → MsgInfo) (n : Nat) (w : World) (h : GInv w.st) :
    GInv (settle infoOf n w).st := by
  induction n generalizing w with
  | zero => exact h
  | succ n ih =>
    unfold settle
    dsimp only
    have h1 := GInv_ioIteration w h
    have h2 : GInv ({ ioIteration w with st := pumpAll infoOf (ioIteration w).st } : World).st := GInv_pumpAll hk infoOf _ h1
    split
    · exact ih _ h2
    · exact h2

/-! ### `⊒` for the I/O loop (under `IdPos`) -/

theorem ge2_foldlW_k {α : Type} (f : World → α → World) (hf : ∀ w a, IdPos w.st → (f w a).st ⊒ w.st) (l : List α) (w : World)
    {s0 : St} (hid : IdPos s0) (h : w.st ⊒ s0) : (l.foldl f w).st ⊒ s0 := by
  induction l generalizing w with
  | nil => exact h
  | cons a l ih => exact ih _ (Ge.trans (hf w a (IdPos_of_ge h hid)) h)

theorem ge2_ioIteration (w : World) (hid : IdPos w.st) : (ioIteration w).st ⊒ w.st := by
  unfold ioIteration
  dsimp only
  generalize hW : List.foldl handleWritable _ _ = W
  have hWs : W.st ⊒ w.st := by
    rw [← hW]
    apply ge2_foldlW_k _ (fun w a hw => ge2_handleWritable w a hw) _ _ hid
    apply ge_foldlW _ (fun w a hw => ge_handleReadable w a hw)
    repeat (first
      | exact Ge.refl _
      | with_reducible apply ge_handleAccept
      | with_reducible apply ge_handleInterrupt
      | split
      | dsimp only)
  have hck : (W.st.connections.foldl checkTimers W.st) ⊒ w.st := ge_foldl _ (fun s a hs => ge_checkTimers s a hs) _ _ hWs
  exact Ge.trans (ge2_reconnectPeers _ (IdPos_of_ge hck hid)) hck

theorem ge2_settle (infoOf : AMsg → MsgInfo) (n : Nat) (w : World) (hid : IdPos w.st) : (settle infoOf n w).st ⊒ w.st := by
  induction n generalizing w with
  | zero => exact Ge.refl _
  | succ n ih =>
    unfold settle
    dsimp only
    have h1 := ge2_ioIteration w hid
    have h2 : ({ ioIteration w with st := pumpAll infoOf (ioIteration w).st } : World).st ⊒ w.st := ge_pumpAll infoOf _ h1
    split
    · exact Ge.trans (ih _ (IdPos_of_ge h2 hid)) h2
    · exact h2

end DV.Node
