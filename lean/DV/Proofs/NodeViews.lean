/-
  Two views of the node state used by the "nothing is left behind" invariant
  (Proofs/NodeLive.lean): the connection ids that have a table of pending
  answers, and which connections still have running worker threads.
-/
import DV.Proofs.NodeCrash
namespace DV.Node

/-- keys of `_peer_waiting_answer` -/
def St.pwk (s : St) : List Nat := s.peerWaiting.map (·.1)

/-- (connection id, its worker threads have been stopped) for every connection ever created -/
def St.wsv (s : St) : List (Nat × Bool) := s.conns.map fun c => (c.id, c.workersStopped)

theorem wsv_modConn_tame (s : St) (i : Nat) (f : Conn → Conn)
    (h : ∀ c, (f c).id = c.id ∧ (f c).workersStopped = c.workersStopped) : (s.modConn i f).wsv = s.wsv := by
  simp only [St.wsv, St.modConn, List.map_map]
  apply List.map_congr_left
  intro c _
  simp only [Function.comp]
  split
  · simp [(h c).1, (h c).2]
  · rfl

/-- (connection id, its socket has been closed) for every connection ever created -/
def St.skv (s : St) : List (Nat × Bool) := s.conns.map fun c => (c.id, c.sockClosed)

theorem skv_modConn_tame (s : St) (i : Nat) (f : Conn → Conn)
    (h : ∀ c, (f c).id = c.id ∧ (f c).sockClosed = c.sockClosed) : (s.modConn i f).skv = s.skv := by
  simp only [St.skv, St.modConn, List.map_map]
  apply List.map_congr_left
  intro c _
  simp only [Function.comp]
  split
  · simp [(h c).1, (h c).2]
  · rfl

/-- discharges the side condition of `wsv_modConn_tame` for a literal record update -/
macro "tame" : tactic => `(tactic| (intro c; exact ⟨rfl, rfl⟩))

theorem map_fst_ite (l : List (Nat × List Nat)) (p : Nat × List Nat → Bool) (g : Nat × List Nat → List Nat) :
    (l.map fun x => if p x then (x.1, g x) else (x.1, x.2)).map (·.1) = l.map (·.1) := by
  rw [List.map_map]
  apply List.map_congr_left
  intro x _
  simp only [Function.comp]
  split <;> rfl

theorem map_fst_ite' (l : List (Nat × List Nat)) (p : Nat × List Nat → Bool) (g : Nat × List Nat → List Nat) :
    (l.map fun x => if p x then (x.1, g x) else x).map (·.1) = l.map (·.1) := by
  rw [List.map_map]
  apply List.map_congr_left
  intro x _
  simp only [Function.comp]
  split <;> rfl

theorem pwk_map_keys (l : List (Nat × List Nat)) (g : Nat → List Nat → List Nat) :
    (l.map fun (h, x) => (h, g h x)).map (·.1) = l.map (·.1) := by
  simp [List.map_map, Function.comp]

end DV.Node
