/-
  Threads drawing from one generator, at source-line granularity: with the
  update and the read under the lock (`lockedProg k`), the values handed out
  under *every* schedule are exactly the successive counter values — each once.
-/
import DV.Proofs.GenSeq
namespace DV.Gens

/-- the value a thread has read and not yet returned -/
def holds (th : Thr) : List Nat := if 5 ≤ th.pc then [th.cur] else []

def pend (thrs : List Thr) : List Nat := (thrs.map holds).flatten

/-- number of completed critical sections -/
def GS.n (g : GS) : Nat := g.issued.length + (pend g.thrs).length

theorem pend_set (thrs : List Thr) (t : Nat) (th th' : Thr) (h : thrs[t]? = some th) :
    List.Perm (holds th ++ pend (thrs.set t th')) (holds th' ++ pend thrs) := by
  induction thrs generalizing t with
  | nil => simp at h
  | cons x xs ih =>
    cases t with
    | zero =>
      simp only [List.getElem?_cons_zero, Option.some.injEq] at h
      subst h
      simp only [List.set_cons_zero, pend, List.map_cons, List.flatten_cons]
      exact List.perm_append_comm_assoc _ _ _
    | succ t =>
      simp only [List.getElem?_cons_succ] at h
      have := ih t h
      simp only [List.set_cons_succ, pend, List.map_cons, List.flatten_cons] at this ⊢
      exact ((List.perm_append_comm_assoc _ _ _).trans (List.Perm.append_left _ this)).trans
        (List.perm_append_comm_assoc _ _ _)

theorem pend_set_eq (thrs : List Thr) (t : Nat) (th th' : Thr) (h : thrs[t]? = some th) (he : holds th' = holds th) :
    pend (thrs.set t th') = pend thrs := by
  induction thrs generalizing t with
  | nil => simp at h
  | cons x xs ih =>
    cases t with
    | zero =>
      simp only [List.getElem?_cons_zero, Option.some.injEq] at h
      subst h
      simp only [List.set_cons_zero, pend, List.map_cons, List.flatten_cons, he]
    | succ t =>
      simp only [List.getElem?_cons_succ] at h
      have := ih t h
      simp only [List.set_cons_succ, pend, List.map_cons, List.flatten_cons] at this ⊢
      rw [this]

/-- the program, as a function of the line number -/
def lockedAt (k pc : Nat) : Option Instr :=
  if pc = 0 then some { op := .lock, next := 1 }
  else if pc = 1 then some { op := .test, next := 2, alt := 3 }
  else if pc = 2 then some { op := .setMin, next := 4 }
  else if pc = 3 then some { op := .incr, next := 4 }
  else if pc = 4 then some { op := .read, rel := true, next := 5 }
  else if pc < 5 + k then some { op := .loc, next := pc + 1 }
  else if pc = 5 + k then some { op := .ret, next := 0 }
  else none

theorem lockedProg_get (k pc : Nat) : (lockedProg k)[pc]? = lockedAt k pc := by
  unfold lockedProg lockedAt
  by_cases h5 : pc < 5
  · have : pc = 0 ∨ pc = 1 ∨ pc = 2 ∨ pc = 3 ∨ pc = 4 := by omega
    rcases this with h | h | h | h | h <;> subst h <;> simp
  · have hne : ¬ pc = 0 ∧ ¬ pc = 1 ∧ ¬ pc = 2 ∧ ¬ pc = 3 ∧ ¬ pc = 4 := by omega
    simp only [hne.1, hne.2.1, hne.2.2.1, hne.2.2.2.1, hne.2.2.2.2, if_false]
    rw [List.append_assoc, List.getElem?_append_right (by simp; omega)]
    simp only [List.length_cons, List.length_nil]
    by_cases hk : pc < 5 + k
    · simp only [hk, if_true]
      rw [List.getElem?_append_left (by simp; omega)]
      simp only [List.getElem?_map, List.getElem?_range (by omega : pc - 5 < k), Option.map_some]
      congr 2
      omega
    · simp only [hk, if_false]
      rw [List.getElem?_append_right (by simp; omega)]
      simp only [List.length_map, List.length_range]
      by_cases he : pc = 5 + k
      · subst he; simp
      · simp only [he, if_false]
        have : 0 < pc - (0 + 1 + 1 + 1 + 1 + 1) - k := by omega
        cases hh : pc - (0 + 1 + 1 + 1 + 1 + 1) - k with
        | zero => omega
        | succ m => simp

/-! ### the invariant -/

structure Inv (mx k s0 : Nat) (g : GS) : Prop where
  pcs : ∀ (t : Nat) (th : Thr), g.thrs[t]? = some th → th.pc ≤ 5 + k
  perm : (g.issued ++ pend g.thrs).Perm ((List.range g.n).map fun j => iter mx (j + 1) s0)
  free : g.lock = none → (∀ (t : Nat) (th : Thr), g.thrs[t]? = some th → th.pc = 0 ∨ 5 ≤ th.pc) ∧ g.seq = iter mx g.n s0
  held : ∀ (t : Nat), g.lock = some t → ∃ th : Thr, g.thrs[t]? = some th ∧ 1 ≤ th.pc ∧ th.pc ≤ 4 ∧
      (∀ (t' : Nat) (th' : Thr), g.thrs[t']? = some th' → t' ≠ t → th'.pc = 0 ∨ 5 ≤ th'.pc) ∧
      (th.pc ≤ 3 → g.seq = iter mx g.n s0) ∧ (th.pc = 2 → g.seq = mx) ∧ (th.pc = 3 → g.seq ≠ mx) ∧
      (th.pc = 4 → g.seq = iter mx (g.n + 1) s0)

theorem set_get {thrs : List Thr} {t t' : Nat} {th th' x : Thr} (h : thrs[t]? = some th)
    (hx : (thrs.set t th')[t']? = some x) : (t' = t ∧ x = th') ∨ (t' ≠ t ∧ thrs[t']? = some x) := by
  rw [List.getElem?_set] at hx
  by_cases e : t = t'
  · subst e
    have hl : t < thrs.length := by
      have := List.getElem?_eq_some_iff.mp h
      exact this.1
    simp only [if_true, hl, Option.some.injEq] at hx
    exact Or.inl ⟨rfl, hx.symm⟩
  · simp only [e, if_false] at hx
    exact Or.inr ⟨fun e' => e e'.symm, hx⟩

theorem set_get_self {thrs : List Thr} {t : Nat} {th th' : Thr} (h : thrs[t]? = some th) :
    (thrs.set t th')[t]? = some th' := by
  have hl : t < thrs.length := (List.getElem?_eq_some_iff.mp h).1
  simp [hl]

/-- a thread inside the critical section holds the lock -/
theorem Inv.holder {mx k s0 : Nat} {g : GS} (h : Inv mx k s0 g) {t : Nat} {th : Thr}
    (ht : g.thrs[t]? = some th) (h1 : 1 ≤ th.pc) (h4 : th.pc ≤ 4) : g.lock = some t := by
  cases hl : g.lock with
  | none =>
    have := (h.free hl).1 t th ht
    omega
  | some t' =>
    obtain ⟨th', _, _, _, hoth, _⟩ := h.held t' hl
    by_cases e : t = t'
    · rw [e]
    · have := hoth t th ht e
      omega

theorem holds_lt {th : Thr} (h : th.pc < 5) : holds th = [] := by
  unfold holds; simp; omega

theorem holds_ge {th : Thr} (h : 5 ≤ th.pc) : holds th = [th.cur] := by
  unfold holds; simp [h]

/-! ### one case per kind of source line -/

theorem case_lock {mx k s0 : Nat} {g : GS} (h : Inv mx k s0 g) {t : Nat} {th : Thr} (ht : g.thrs[t]? = some th)
    (hpc : th.pc = 0) (hfree : g.lock = none) :
    Inv mx k s0 ({ g with lock := some t }.setThr t { th with pc := 1 }) := by
  have hp : pend (g.thrs.set t { th with pc := 1 }) = pend g.thrs :=
    pend_set_eq _ _ _ _ ht (by rw [holds_lt (by simp), holds_lt (by omega)])
  have hn : GS.n ({ g with lock := some t }.setThr t { th with pc := 1 }) = g.n := by
    simp only [GS.n, GS.setThr, hp]
  refine ⟨?_, ?_, ?_, ?_⟩
  · intro t' x hx
    rcases set_get ht hx with ⟨_, rfl⟩ | ⟨_, hx'⟩
    · simp only; omega
    · exact h.pcs t' x hx'
  · rw [hn]; simp only [GS.setThr, hp]; exact h.perm
  · intro hl; simp [GS.setThr] at hl
  · intro t'' hl
    simp only [GS.setThr, Option.some.injEq] at hl
    subst hl
    refine ⟨{ th with pc := 1 }, set_get_self ht, by simp, by simp, ?_, ?_, by simp, by simp, by simp⟩
    · intro t' x hx hne
      rcases set_get ht hx with ⟨e, _⟩ | ⟨_, hx'⟩
      · exact absurd e hne
      · exact (h.free hfree).1 t' x hx'
    · intro _; rw [hn]; exact (h.free hfree).2

theorem case_test {mx k s0 : Nat} {g : GS} (h : Inv mx k s0 g) {t : Nat} {th : Thr} (ht : g.thrs[t]? = some th)
    (hpc : th.pc = 1) :
    Inv mx k s0 (g.setThr t { th with pc := if g.seq == mx then 2 else 3 }) := by
  have hl := h.holder ht (by omega) (by omega)
  obtain ⟨th0, ht0, _, _, hoth, hseq, _, _, _⟩ := h.held t hl
  rw [ht] at ht0; injection ht0 with e; subst e
  have hlt : (if g.seq == mx then 2 else 3) < 5 := by split <;> omega
  have hp : pend (g.thrs.set t { th with pc := if g.seq == mx then 2 else 3 }) = pend g.thrs :=
    pend_set_eq _ _ _ _ ht (by rw [holds_lt (by simpa using hlt), holds_lt (by omega)])
  have hn : GS.n (g.setThr t { th with pc := if g.seq == mx then 2 else 3 }) = g.n := by
    simp only [GS.n, GS.setThr, hp]
  refine ⟨?_, ?_, ?_, ?_⟩
  · intro t' x hx
    rcases set_get ht hx with ⟨_, rfl⟩ | ⟨_, hx'⟩
    · simp only; omega
    · exact h.pcs t' x hx'
  · rw [hn]; simp only [GS.setThr, hp]; exact h.perm
  · intro hl'; simp only [GS.setThr] at hl'; rw [hl] at hl'; contradiction
  · intro t'' hl'
    simp only [GS.setThr] at hl'
    rw [hl] at hl'; injection hl' with e; subst e
    refine ⟨_, set_get_self ht, ?_, ?_, ?_, ?_, ?_, ?_, ?_⟩
    · simp only; split <;> omega
    · simp only; split <;> omega
    · intro t' x hx hne
      rcases set_get ht hx with ⟨e, _⟩ | ⟨_, hx'⟩
      · exact absurd e hne
      · exact hoth t' x hx' hne
    · intro _; rw [hn]; exact hseq (by omega)
    · intro h2
      simp only [GS.setThr] at h2 ⊢
      by_cases hm : (g.seq == mx) = true
      · simpa using hm
      · simp [hm] at h2
    · intro h3
      simp only [GS.setThr] at h3 ⊢
      by_cases hm : (g.seq == mx) = true
      · simp [hm] at h3
      · simpa using hm
    · intro h4
      simp only at h4
      split at h4 <;> omega

/-- `self._sequence = MIN` / `self._sequence += 1` under the lock: the counter takes its next value -/
theorem case_update {mx k s0 : Nat} {g : GS} (h : Inv mx k s0 g) {t : Nat} {th : Thr} (ht : g.thrs[t]? = some th)
    (hpc : th.pc = 2 ∨ th.pc = 3) (v : Nat) (hv : v = nextSeq mx g.seq) :
    Inv mx k s0 ({ g with seq := v }.setThr t { th with pc := 4 }) := by
  have hl := h.holder ht (by omega) (by omega)
  obtain ⟨th0, ht0, _, _, hoth, hseq, _, _, _⟩ := h.held t hl
  rw [ht] at ht0; injection ht0 with e; subst e
  have hp : pend (g.thrs.set t { th with pc := 4 }) = pend g.thrs :=
    pend_set_eq _ _ _ _ ht (by rw [holds_lt (by simp), holds_lt (by omega)])
  have hn : GS.n ({ g with seq := v }.setThr t { th with pc := 4 }) = g.n := by
    simp only [GS.n, GS.setThr, hp]
  refine ⟨?_, ?_, ?_, ?_⟩
  · intro t' x hx
    rcases set_get ht hx with ⟨_, rfl⟩ | ⟨_, hx'⟩
    · simp only; omega
    · exact h.pcs t' x hx'
  · rw [hn]; simp only [GS.setThr, hp]; exact h.perm
  · intro hl'; simp only [GS.setThr] at hl'; rw [hl] at hl'; contradiction
  · intro t'' hl'
    simp only [GS.setThr] at hl'
    rw [hl] at hl'; injection hl' with e; subst e
    refine ⟨_, set_get_self ht, by simp, by simp, ?_, by simp, by simp, by simp, ?_⟩
    · intro t' x hx hne
      rcases set_get ht hx with ⟨e, _⟩ | ⟨_, hx'⟩
      · exact absurd e hne
      · exact hoth t' x hx' hne
    · intro _
      rw [hn]
      simp only [GS.setThr]
      rw [hv, hseq (by omega), iter_succ]

theorem case_read {mx k s0 : Nat} {g : GS} (h : Inv mx k s0 g) {t : Nat} {th : Thr} (ht : g.thrs[t]? = some th)
    (hpc : th.pc = 4) :
    Inv mx k s0 ({ g.setThr t { th with pc := 5, cur := g.seq } with lock := none }) := by
  have hl := h.holder ht (by omega) (by omega)
  obtain ⟨th0, ht0, _, _, hoth, _, _, _, hseq4⟩ := h.held t hl
  rw [ht] at ht0; injection ht0 with e; subst e
  have hs := hseq4 hpc
  have hpp := pend_set g.thrs t th { th with pc := 5, cur := g.seq } ht
  rw [holds_lt (by omega), holds_ge (by simp)] at hpp
  simp only [List.nil_append] at hpp
  have hlen : (pend (g.thrs.set t { th with pc := 5, cur := g.seq })).length = (pend g.thrs).length + 1 := by
    have := hpp.length_eq; simpa [Nat.add_comm] using this
  have hn : GS.n ({ g.setThr t { th with pc := 5, cur := g.seq } with lock := none }) = g.n + 1 := by
    simp only [GS.n, GS.setThr, hlen]; omega
  refine ⟨?_, ?_, ?_, ?_⟩
  · intro t' x hx
    rcases set_get ht hx with ⟨_, rfl⟩ | ⟨_, hx'⟩
    · simp only; omega
    · exact h.pcs t' x hx'
  · rw [hn]
    simp only [GS.setThr]
    rw [List.range_succ, List.map_append, List.map_cons, List.map_nil, ← hs]
    have h1 : (g.issued ++ pend (g.thrs.set t { th with pc := 5, cur := g.seq })).Perm
        (g.issued ++ (g.seq :: pend g.thrs)) := List.Perm.append_left _ hpp
    refine h1.trans ?_
    have h2 : (g.issued ++ (g.seq :: pend g.thrs)).Perm ((g.issued ++ pend g.thrs) ++ [g.seq]) := by
      rw [List.append_assoc]
      exact List.Perm.append_left _ (List.perm_append_comm (l₁ := [g.seq]) (l₂ := pend g.thrs))
    exact h2.trans (List.Perm.append_right _ h.perm)
  · intro _
    refine ⟨?_, ?_⟩
    · intro t' x hx
      rcases set_get ht hx with ⟨_, rfl⟩ | ⟨hne, hx'⟩
      · right; simp
      · exact hoth t' x hx' hne
    · rw [hn]; exact hs
  · intro t'' hl'; simp at hl'

theorem case_loc {mx k s0 : Nat} {g : GS} (h : Inv mx k s0 g) {t : Nat} {th : Thr} (ht : g.thrs[t]? = some th)
    (h5 : 5 ≤ th.pc) (hk : th.pc < 5 + k) :
    Inv mx k s0 (g.setThr t { th with pc := th.pc + 1 }) := by
  have hp : pend (g.thrs.set t { th with pc := th.pc + 1 }) = pend g.thrs :=
    pend_set_eq _ _ _ _ ht (by rw [holds_ge (by simp; omega), holds_ge h5])
  have hn : GS.n (g.setThr t { th with pc := th.pc + 1 }) = g.n := by
    simp only [GS.n, GS.setThr, hp]
  refine ⟨?_, ?_, ?_, ?_⟩
  · intro t' x hx
    rcases set_get ht hx with ⟨_, rfl⟩ | ⟨_, hx'⟩
    · simp only; omega
    · exact h.pcs t' x hx'
  · rw [hn]; simp only [GS.setThr, hp]; exact h.perm
  · intro hl
    simp only [GS.setThr] at hl
    refine ⟨?_, ?_⟩
    · intro t' x hx
      rcases set_get ht hx with ⟨_, rfl⟩ | ⟨_, hx'⟩
      · right; simp only; omega
      · exact (h.free hl).1 t' x hx'
    · rw [hn]; exact (h.free hl).2
  · intro t'' hl
    simp only [GS.setThr] at hl
    obtain ⟨th0, ht0, a1, a2, hoth, b1, b2, b3, b4⟩ := h.held t'' hl
    have hne : t'' ≠ t := by
      intro e; subst e; rw [ht] at ht0; injection ht0 with e; subst e; omega
    have ht0' : (g.thrs.set t { th with pc := th.pc + 1 })[t'']? = some th0 := by
      rw [List.getElem?_set]
      have hne' : ¬ t = t'' := fun e => hne e.symm
      simp [hne', ht0]
    refine ⟨th0, ht0', a1, a2, ?_, ?_, b2, b3, ?_⟩
    · intro t' x hx hne'
      rcases set_get ht hx with ⟨_, rfl⟩ | ⟨_, hx'⟩
      · right; simp only; omega
      · exact hoth t' x hx' hne'
    · intro hh; rw [hn]; exact b1 hh
    · intro hh; rw [hn]; exact b4 hh

theorem case_ret {mx k s0 : Nat} {g : GS} (h : Inv mx k s0 g) {t : Nat} {th : Thr} (ht : g.thrs[t]? = some th)
    (h5 : 5 ≤ th.pc) :
    Inv mx k s0 ({ g with issued := g.issued ++ [th.cur] }.setThr t { th with pc := 0, outs := th.outs ++ [th.cur] }) := by
  have hpp := pend_set g.thrs t th { th with pc := 0, outs := th.outs ++ [th.cur] } ht
  rw [holds_ge h5, holds_lt (by simp)] at hpp
  simp only [List.nil_append] at hpp
  have hlen : (pend (g.thrs.set t { th with pc := 0, outs := th.outs ++ [th.cur] })).length + 1 = (pend g.thrs).length := by
    have := hpp.length_eq; simpa [Nat.add_comm] using this
  have hn : GS.n ({ g with issued := g.issued ++ [th.cur] }.setThr t { th with pc := 0, outs := th.outs ++ [th.cur] }) = g.n := by
    simp only [GS.n, GS.setThr, List.length_append, List.length_cons, List.length_nil]; omega
  refine ⟨?_, ?_, ?_, ?_⟩
  · intro t' x hx
    rcases set_get ht hx with ⟨_, rfl⟩ | ⟨_, hx'⟩
    · simp only; omega
    · exact h.pcs t' x hx'
  · rw [hn]
    simp only [GS.setThr]
    refine List.Perm.trans ?_ h.perm
    rw [List.append_assoc]
    exact List.Perm.append_left _ hpp
  · intro hl
    simp only [GS.setThr] at hl
    refine ⟨?_, ?_⟩
    · intro t' x hx
      rcases set_get ht hx with ⟨_, rfl⟩ | ⟨_, hx'⟩
      · left; rfl
      · exact (h.free hl).1 t' x hx'
    · rw [hn]; exact (h.free hl).2
  · intro t'' hl
    simp only [GS.setThr] at hl
    obtain ⟨th0, ht0, a1, a2, hoth, b1, b2, b3, b4⟩ := h.held t'' hl
    have hne : t'' ≠ t := by
      intro e; subst e; rw [ht] at ht0; injection ht0 with e; subst e; omega
    have ht0' : (g.thrs.set t { th with pc := 0, outs := th.outs ++ [th.cur] })[t'']? = some th0 := by
      rw [List.getElem?_set]
      have hne' : ¬ t = t'' := fun e => hne e.symm
      simp [hne', ht0]
    refine ⟨th0, ht0', a1, a2, ?_, ?_, b2, b3, ?_⟩
    · intro t' x hx hne'
      rcases set_get ht hx with ⟨_, rfl⟩ | ⟨_, hx'⟩
      · left; rfl
      · exact hoth t' x hx' hne'
    · intro hh; rw [hn]; exact b1 hh
    · intro hh; rw [hn]; exact b4 hh

/-- Every source-line step of every thread preserves the invariant. -/
theorem step_inv {mx k s0 : Nat} {g : GS} (h : Inv mx k s0 g) (t : Nat) : Inv mx k s0 (step mx (lockedProg k) g t) := by
  unfold step
  cases ht : g.thrs[t]? with
  | none => exact h
  | some th =>
    simp only [lockedProg_get]
    have hpcs := h.pcs t th ht
    by_cases h0 : th.pc = 0
    · simp only [lockedAt, h0, if_true]
      cases hl : g.lock with
      | none => simpa [hl] using case_lock h ht h0 hl
      | some t' => simpa [hl] using h
    by_cases h1 : th.pc = 1
    · simp only [lockedAt, h1, if_true, if_false, Nat.succ_ne_zero]
      simpa using case_test h ht h1
    by_cases h2 : th.pc = 2
    · simp only [lockedAt, h2, if_true, if_false, Nat.succ_ne_zero]
      have hl := h.holder ht (by omega) (by omega)
      obtain ⟨th0, ht0, _, _, _, _, hmx, _, _⟩ := h.held t hl
      rw [ht] at ht0; injection ht0 with e; subst e
      have := case_update h ht (Or.inl h2) 1 (by rw [hmx h2, nextSeq_max])
      simpa using this
    by_cases h3 : th.pc = 3
    · simp only [lockedAt, h3, if_true, if_false, Nat.succ_ne_zero]
      have hl := h.holder ht (by omega) (by omega)
      obtain ⟨th0, ht0, _, _, _, _, _, hmx, _⟩ := h.held t hl
      rw [ht] at ht0; injection ht0 with e; subst e
      have hne := hmx h3
      have := case_update h ht (Or.inr h3) (g.seq + 1) (by
        unfold nextSeq
        have : (g.seq == mx) = false := by simpa using hne
        simp [this])
      simpa using this
    by_cases h4 : th.pc = 4
    · simp only [lockedAt, h4, if_true, if_false, Nat.succ_ne_zero]
      have := case_read h ht h4
      simpa [GS.setThr] using this
    by_cases hk : th.pc < 5 + k
    · simp only [lockedAt, h0, h1, h2, h3, h4, hk, if_true, if_false]
      have := case_loc h ht (by omega) hk
      simpa using this
    · have he : th.pc = 5 + k := by omega
      simp only [lockedAt, h0, h1, h2, h3, h4, hk, if_false]
      simp only [he, if_true]
      have := case_ret h ht (by omega)
      simpa using this

theorem run_inv {mx k s0 : Nat} {g : GS} (h : Inv mx k s0 g) (sched : List Nat) :
    Inv mx k s0 (runSched mx (lockedProg k) g sched) := by
  unfold runSched
  induction sched generalizing g with
  | nil => exact h
  | cons t ts ih => exact ih (step_inv h t)

theorem pend_replicate (n : Nat) : pend (List.replicate n ({} : Thr)) = [] := by
  induction n with
  | zero => rfl
  | succ n ih => simp only [List.replicate_succ, pend, List.map_cons, List.flatten_cons] at ih ⊢; rw [ih]; rfl

theorem init_inv (mx k s0 n : Nat) : Inv mx k s0 (initGS s0 n) := by
  have hp := pend_replicate n
  have hn : (initGS s0 n).n = 0 := by simp [GS.n, initGS, hp]
  refine ⟨?_, ?_, ?_, ?_⟩
  · intro t th ht
    simp only [initGS] at ht
    have := List.mem_of_getElem? ht
    rw [List.mem_replicate] at this
    rw [this.2]; simp
  · rw [hn]; simp [initGS, hp]
  · intro _
    refine ⟨?_, ?_⟩
    · intro t th ht
      simp only [initGS] at ht
      have := List.mem_of_getElem? ht
      rw [List.mem_replicate] at this
      left; rw [this.2]
    · rw [hn]; rfl
  · intro t hl; simp [initGS] at hl

end DV.Gens
