import DV.Proofs.Avp
namespace DV

/-- shift a decode result's position by `k` -/
def shiftPos {α} (k : Nat) : R (α × Nat) → R (α × Nat)
  | .ok (a, p) => .ok (a, k + p)
  | .error e => .error e

theorem unpackUint_shift (pre buf : Bytes) (pos : Nat) :
    unpackUint (pre ++ buf) (pre.length + pos) = shiftPos pre.length (unpackUint buf pos) := by
  simp only [unpackUint, List.drop_append, List.drop_of_length_le (Nat.le_add_right _ _),
    Nat.add_sub_cancel_left, List.nil_append]
  split <;> simp_all [shiftPos] <;> omega

theorem unpackFopaque_shift (pre buf : Bytes) (pos n : Nat) :
    unpackFopaque (pre ++ buf) (pre.length + pos) n = shiftPos pre.length (unpackFopaque buf pos n) := by
  simp only [unpackFopaque, List.length_append, List.drop_append,
    List.drop_of_length_le (Nat.le_add_right _ _), Nat.add_sub_cancel_left, List.nil_append]
  by_cases h : pos + pad4 n > buf.length
  · have : pre.length + pos + pad4 n > pre.length + buf.length := by omega
    simp [h, this, shiftPos]
  · have : ¬ (pre.length + pos + pad4 n > pre.length + buf.length) := by omega
    simp [h, this, shiftPos]; omega

theorem decodeAvp_shift (pre buf : Bytes) (pos : Nat) :
    decodeAvp (pre ++ buf) (pre.length + pos) = shiftPos pre.length (decodeAvp buf pos) := by
  unfold decodeAvp
  rw [unpackUint_shift]
  cases h1 : unpackUint buf pos with
  | error e => simp [shiftPos]
  | ok r1 =>
    obtain ⟨code, p1⟩ := r1
    simp only [shiftPos]
    rw [unpackUint_shift]
    cases h2 : unpackUint buf p1 with
    | error e => simp [shiftPos]
    | ok r2 =>
      obtain ⟨fl, p2⟩ := r2
      simp only [shiftPos]
      unfold decodeAvpBody
      by_cases hv : (fl >>> 24) &&& flagV ≠ 0
      · simp only [if_pos hv]
        rw [unpackUint_shift]
        cases h3 : unpackUint buf p2 with
        | error e => simp [shiftPos]
        | ok r3 =>
          obtain ⟨vendor, p3⟩ := r3
          simp only [shiftPos]
          by_cases hl : (fl &&& 0x00ffffff) > 12
          · simp only [if_pos hl]
            rw [unpackFopaque_shift]
            cases h4 : unpackFopaque buf p3 ((fl &&& 0x00ffffff) - 12) with
            | error e => simp [shiftPos]
            | ok r4 => obtain ⟨pl, p4⟩ := r4; simp [shiftPos]
          · simp only [if_neg hl, shiftPos]
      · simp only [if_neg hv]
        by_cases hl : (fl &&& 0x00ffffff) > 8
        · simp only [if_pos hl]
          rw [unpackFopaque_shift]
          cases h4 : unpackFopaque buf p2 ((fl &&& 0x00ffffff) - 8) with
          | error e => simp [shiftPos]
          | ok r4 => obtain ⟨pl, p4⟩ := r4; simp [shiftPos]
        · simp only [if_neg hl, shiftPos]

/-- Progress and bounds of one AVP decode: on success the position moves
    forward by at least 8 and stays inside the buffer. -/
theorem unpackUint_pos (buf : Bytes) (pos v p : Nat) (h : unpackUint buf pos = .ok (v, p)) :
    p = pos + 4 ∧ pos + 4 ≤ buf.length := by
  unfold unpackUint at h
  split at h
  · rename_i a b c d t hd
    simp only [Except.ok.injEq, Prod.mk.injEq] at h
    refine ⟨h.2.symm, ?_⟩
    have : (buf.drop pos).length = t.length + 4 := by rw [hd]; simp
    simp only [List.length_drop] at this; omega
  · simp at h

theorem unpackFopaque_pos (buf : Bytes) (pos n p : Nat) (pl : Bytes)
    (h : unpackFopaque buf pos n = .ok (pl, p)) : p = pos + pad4 n ∧ p ≤ buf.length := by
  simp only [unpackFopaque] at h
  split at h
  · simp at h
  · simp only [Except.ok.injEq, Prod.mk.injEq] at h
    omega

theorem decodeAvp_progress (buf : Bytes) (pos p : Nat) (a : Avp) (h : decodeAvp buf pos = .ok (a, p)) :
    pos + 8 ≤ p ∧ p ≤ buf.length := by
  unfold decodeAvp at h
  cases h1 : unpackUint buf pos with
  | error e => simp [h1] at h
  | ok r1 =>
    obtain ⟨code, p1⟩ := r1
    simp only [h1] at h
    have q1 := unpackUint_pos _ _ _ _ h1
    cases h2 : unpackUint buf p1 with
    | error e => simp [h2] at h
    | ok r2 =>
      obtain ⟨fl, p2⟩ := r2
      simp only [h2] at h
      have q2 := unpackUint_pos _ _ _ _ h2
      unfold decodeAvpBody at h
      split at h
      · cases h3 : unpackUint buf p2 with
        | error e => simp [h3] at h
        | ok r3 =>
          obtain ⟨vendor, p3⟩ := r3
          simp only [h3] at h
          have q3 := unpackUint_pos _ _ _ _ h3
          split at h
          · cases h4 : unpackFopaque buf p3 ((fl &&& 0x00ffffff) - 12) with
            | error e => simp [h4] at h
            | ok r4 =>
              obtain ⟨pl, p4⟩ := r4
              simp only [h4, Except.ok.injEq, Prod.mk.injEq] at h
              have q4 := unpackFopaque_pos _ _ _ _ _ h4
              omega
          · simp only [Except.ok.injEq, Prod.mk.injEq] at h; omega
      · split at h
        · cases h4 : unpackFopaque buf p2 ((fl &&& 0x00ffffff) - 8) with
          | error e => simp [h4] at h
          | ok r4 =>
            obtain ⟨pl, p4⟩ := r4
            simp only [h4, Except.ok.injEq, Prod.mk.injEq] at h
            have q4 := unpackFopaque_pos _ _ _ _ _ h4
            omega
        · simp only [Except.ok.injEq, Prod.mk.injEq] at h; omega

end DV
