/-
  "Every queued answer answers a received request": the view `St.outm` — the
  (connection, message) pairs in the connections' write queues and write
  buffers, i.e. everything that is going to be transmitted — and the invariant
  `Qs L s`: every *answer* among them carries the hop-by-hop id of a request in
  the log `L` for that very connection.

  Messages enter a write queue through `send_message` only.  The node's own
  answers are built from the request being processed (same hop-by-hop id, on the
  connection it was read from); an application's answer gets there through
  `route_answer`, whose choice is sound by the invariant of NodeSoundInv.lean;
  everything else the node sends is a request (CER, DWR, DPR, application
  requests).  One lemma per node function, `Qs L s → Qs L (f s)`.
-/
import DV.Proofs.NodeSoundInv
import DV.Proofs.NodeQ
namespace DV.Node

variable {L : List (Nat × Nat)}

/-- what is queued for transmission: (connection id, message) -/
def St.outm (s : St) : List (Nat × AMsg) := s.conns.flatMap fun c => (c.outQ ++ c.wbuf).map fun m => (c.id, m)

/-- every queued answer answers a logged request of its connection -/
def Qs (L : List (Nat × Nat)) (s : St) : Prop := ∀ x ∈ s.outm, x.2.isRequest = false → (x.1, x.2.hbh) ∈ L

theorem mem_outm {s : St} {x : Nat × AMsg} : x ∈ s.outm ↔ ∃ c ∈ s.conns, c.id = x.1 ∧ x.2 ∈ c.outQ ++ c.wbuf := by
  unfold St.outm
  simp only [List.mem_flatMap, List.mem_map]
  constructor
  · rintro ⟨c, hc, m, hm, rfl⟩; exact ⟨c, hc, rfl, hm⟩
  · rintro ⟨c, hc, h1, hm⟩; exact ⟨c, hc, x.2, hm, by rw [h1]⟩

theorem Qs_mono {L' : List (Nat × Nat)} {s : St} (hL : ∀ x ∈ L, x ∈ L') (h : Qs L s) : Qs L' s :=
  fun x hx hr => hL _ (h x hx hr)

theorem qs_of_conns {s' s : St} (h2 : s'.conns = s.conns) (h : Qs L s) : Qs L s' := by
  unfold Qs St.outm at *
  rw [h2]; exact h

/-- a literal state whose `conns` are those of `s'` -/
theorem qs_mk' (s' : St) {cfg now peers apps routes connections peerSockets socketPeers halfReady appWaiting peerWaiting
    originWaiting sentAnswers e2e nextHbhSeed stopping started pipe dialPlan appRequests delivered inProgress tapps
    deferred crashed outs} (h : Qs L s') :
    Qs L (St.mk cfg now peers apps routes s'.conns connections peerSockets socketPeers halfReady appWaiting peerWaiting
      originWaiting sentAnswers e2e nextHbhSeed stopping started pipe dialPlan appRequests delivered inProgress tapps
      deferred crashed outs) := h

open Lean Elab Tactic Meta in
elab "guard_st_literal_qs" : tactic => do
  let g ← instantiateMVars (← getMainTarget)
  match g.getAppFnArgs with
  | (``DV.Node.Qs, #[_, st]) => unless st.isAppOf ``DV.Node.St.mk do throwError "not a literal state"
  | _ => throwError "not a goal of the form Qs _ _"

macro "qs_hyp" : tactic => `(tactic| with_reducible assumption)
macro "qs_lit" : tactic => `(tactic| (guard_st_literal_qs; with_reducible apply qs_mk'))

/-! ### connection updates -/

theorem qs_modConn (s : St) (i : Nat) (f : Conn → Conn)
    (hf : ∀ c, (f c).id = c.id ∧ ∀ m ∈ (f c).outQ ++ (f c).wbuf, m ∈ c.outQ ++ c.wbuf) (h : Qs L s) : Qs L (s.modConn i f) := by
  intro x hx hr
  rw [mem_outm] at hx
  obtain ⟨c', hc', hid, hm⟩ := hx
  simp only [St.modConn, List.mem_map] at hc'
  obtain ⟨c0, hc0, rfl⟩ := hc'
  refine h x (mem_outm.mpr ⟨c0, hc0, ?_, ?_⟩) hr
  · split at hid
    · rw [← hid]; exact ((hf c0).1).symm
    · exact hid
  · split at hm
    · exact (hf c0).2 _ hm
    · exact hm

/-- discharges the side condition of `qs_modConn` for a literal record update -/
macro "tameo" : tactic => `(tactic| (intro c; refine ⟨rfl, ?_⟩; first | exact fun _ h => h | (intro m hm; simp only [List.append_nil] at hm; exact List.mem_append_left _ hm) | (dsimp only; split <;> exact fun _ h => h)))

theorem qs_connClose (s : St) (cid : Nat) (b : Bool) (h : Qs L s) : Qs L (connClose s cid b) := by
  unfold connClose
  split
  · exact qs_of_conns rfl (qs_modConn _ _ _ (by tameo) h)
  · exact qs_modConn _ _ _ (by tameo) h

theorem qs_modTApp (s : St) (i : Nat) (f : TApp → TApp) (h : Qs L s) : Qs L (s.modTApp i f) := h
theorem qs_modApp (s : St) (i : Nat) (f : App → App) (h : Qs L s) : Qs L (s.modApp i f) := h
theorem qs_modPeer (s : St) (i : Nat) (f : Peer → Peer) (h : Qs L s) : Qs L (s.modPeer i f) := h
theorem qs_emit (s : St) (o : Out) (h : Qs L s) : Qs L (s.emit o) := h
theorem qs_demand (s : St) (c : Nat) (h : Qs L s) : Qs L (demandAttention s c) := h
theorem qs_setCrashed (s : St) (n : Nat) (h : Qs L s) : Qs L ({ s with crashed := n } : St) := h

macro "qs_triv" : tactic => `(tactic| first
  | with_reducible apply qs_modTApp | with_reducible apply qs_modApp | with_reducible apply qs_modPeer
  | with_reducible apply qs_emit | with_reducible apply qs_demand)

theorem qs_removePeerConnection (s : St) (cid : Nat) (r : Reason) (h : Qs L s) : Qs L (removePeerConnection s cid r) :=
  qs_of_conns (removePeerConnection_conns s cid r) h

theorem qs_closeConnectionSocket (s : St) (cid : Nat) (r : Reason) (h : Qs L s) : Qs L (closeConnectionSocket s cid r) := by
  unfold closeConnectionSocket
  apply qs_removePeerConnection
  split
  · exact qs_connClose _ _ _ (qs_modConn _ _ _ (by tameo) h)
  · exact h

theorem qs_recordAnswerState (s : St) (cid : Nat) (m : AMsg) (h : Qs L s) : Qs L (recordAnswerState s cid m) := by
  refine qs_of_conns ?_ h
  unfold recordAnswerState; repeat (first | rfl | split | dsimp only)

/-- **The one way into a write queue.** -/
theorem qs_sendMessage (s : St) (cid : Nat) (m : AMsg) (b : Bool) (hm : m.isRequest = false → (cid, m.hbh) ∈ L) (h : Qs L s) :
    Qs L (sendMessage s cid m b).1 := by
  have key : ∀ s1 : St, s1.conns = s.conns → Qs L (s1.modConn cid fun x => { x with outQ := x.outQ ++ [m] }) := by
    intro s1 h1 x hx hr
    rw [mem_outm] at hx
    obtain ⟨c', hc', hid, hmm⟩ := hx
    simp only [St.modConn, List.mem_map, h1] at hc'
    obtain ⟨c0, hc0, rfl⟩ := hc'
    split at hid
    · rename_i hk
      have hc0id : c0.id = cid := by simpa using hk
      split at hmm
      · dsimp only at hid hmm
        rcases List.mem_append.mp hmm with hq | hw
        · rcases List.mem_append.mp hq with hq | hq
          · exact h x (mem_outm.mpr ⟨c0, hc0, hid, List.mem_append_left _ hq⟩) hr
          · have hxm : x.2 = m := by simpa using hq
            have : x = (cid, m) := by
              cases x; simp_all
            rw [this]; rw [this] at hr; exact hm hr
        · exact h x (mem_outm.mpr ⟨c0, hc0, hid, List.mem_append_right _ hw⟩) hr
      · exact absurd hk (by assumption)
    · split at hmm
      · rename_i h1' h2'; exact absurd h2' h1'
      · exact h x (mem_outm.mpr ⟨c0, hc0, hid, hmm⟩) hr
  unfold sendMessage
  split
  · exact h
  · dsimp only
    split
    · exact qs_recordAnswerState _ _ _ (key _ rfl)
    · exact key _ rfl

theorem qs_sendRequest (s : St) (cid : Nat) (m : AMsg) (b : Bool) (hr : m.isRequest = true) (h : Qs L s) :
    Qs L (sendMessage s cid m b).1 :=
  qs_sendMessage s cid m b (fun hf => by rw [hr] at hf; exact absurd hf (by decide)) h

/-- a message whose flag octet is the literal 0x80 (what the node builds for CER, DWR, DPR) -/
theorem qs_sendR (s : St) (cid : Nat) (m : AMsg) (b : Bool) (hfl : m.flags = 0x80) (h : Qs L s) :
    Qs L (sendMessage s cid m b).1 :=
  qs_sendRequest s cid m b (by unfold AMsg.isRequest; rw [hfl]; decide) h

theorem qs_foldl {α : Type} (f : St → α → St) (hf : ∀ s a, Qs L s → Qs L (f s a)) (l : List α) (s : St) (h : Qs L s) :
    Qs L (l.foldl f s) := by
  induction l generalizing s with
  | nil => exact h
  | cons a l ih => exact ih _ (hf s a h)

theorem qs_foldlW {α : Type} (f : World → α → World) (hf : ∀ w a, Qs L w.st → Qs L (f w a).st) (l : List α) (w : World)
    (h : Qs L w.st) : Qs L (l.foldl f w).st := by
  induction l generalizing w with
  | nil => exact h
  | cons a l ih => exact ih _ (hf w a h)

/-- a new connection object with nothing queued -/
theorem qs_addPeerConnection (s : St) (c : Conn) (hq : c.outQ = [] ∧ c.wbuf = []) (h : Qs L s) : Qs L (addPeerConnection s c).1 := by
  have h1 : Qs L ({ s with conns := s.conns ++ [c] } : St) := by
    intro x hx hr
    apply h x ?_ hr
    simp only [St.outm, List.flatMap_append, List.flatMap_cons, List.flatMap_nil, hq.1, hq.2, List.append_nil, List.map_nil] at hx
    exact hx
  unfold addPeerConnection
  dsimp only
  repeat (first | qs_hyp | qs_triv | split | dsimp only | with_reducible apply qs_modConn _ _ _ (by tameo) | ((with_reducible apply qs_mk' { s with conns := s.conns ++ [c] }); exact h1))

theorem generateAnswer_hbh (s : St) (m : AMsg) (info : MsgInfo) (rc : Option Nat) (fa : List Nat) :
    (generateAnswer s m info rc fa).hbh = m.hbh := by
  unfold generateAnswer; split <;> rfl

theorem generateAnswer_isAnswer (s : St) (m : AMsg) (info : MsgInfo) (rc : Option Nat) (fa : List Nat) :
    (generateAnswer s m info rc fa).isRequest = false := by
  have hbit : ∀ f : Nat, (f &&& 0x40) &&& 0x80 = 0 := by
    intro f
    rw [Nat.and_assoc]
    have : (0x40 : Nat) &&& 0x80 = 0 := by decide
    rw [this, Nat.and_zero]
  unfold generateAnswer
  split <;> simp [AMsg.isRequest, hbit]

/-- the composition tactic for functions that queue nothing or only requests -/
macro "qs_tac" : tactic => `(tactic| repeat (first
  | qs_hyp
  | qs_triv
  | qs_lit
  | split
  | dsimp only
  | with_reducible apply qs_modConn _ _ _ (by tameo)
  | with_reducible apply qs_connClose
  | with_reducible apply qs_removePeerConnection
  | with_reducible apply qs_closeConnectionSocket
  | with_reducible apply qs_recordAnswerState
  | with_reducible apply qs_sendR _ _ _ _ (by rfl)))

theorem qs_assignPeerConnection (s : St) (cid : Nat) (h : Qs L s) : Qs L (assignPeerConnection s cid) := by
  unfold assignPeerConnection; qs_tac

theorem qs_flagReady (s : St) (cid : Nat) (h : Qs L s) : Qs L (flagConnectionAsReady s cid) := by
  unfold flagConnectionAsReady
  exact qs_of_conns rfl (qs_modConn _ _ _ (by tameo) h)

theorem qs_cerNameAndElect (s : St) (cid : Nat) (hn : String) (h : Qs L s) : Qs L (cerNameAndElect s cid hn).1 := by
  unfold cerNameAndElect
  have hf : ∀ (l : List Conn) (s : St), Qs L s → Qs L (l.foldl (fun s o => connClose s o.id true) s) :=
    fun l s hs => qs_foldl _ (fun s a hs => qs_connClose s a.id true hs) l s hs
  dsimp only
  repeat (first | qs_hyp | qs_triv | qs_lit | split | with_reducible apply hf | with_reducible apply qs_modConn _ _ _ (by tameo))

theorem qs_receiveCea (s : St) (cid : Nat) (m : AMsg) (h : Qs L s) : Qs L (receiveCea s cid m).1 := by
  unfold receiveCea
  repeat (first
    | qs_hyp | qs_triv | qs_lit | split | dsimp only
    | with_reducible apply qs_modConn _ _ _ (by tameo)
    | with_reducible apply qs_closeConnectionSocket | with_reducible apply qs_flagReady | with_reducible apply qs_assignPeerConnection)

theorem qs_receiveDpa (s : St) (cid : Nat) (h : Qs L s) : Qs L (receiveDpa s cid) := by
  unfold receiveDpa; qs_tac

theorem qs_receiveDwa (s : St) (cid : Nat) (h : Qs L s) : Qs L (receiveDwa s cid) := by
  unfold receiveDwa; qs_tac

theorem qs_appReceiveRequest (s : St) (ai : Nat) (m : AMsg) (h : Qs L s) : Qs L (appReceiveRequest s ai m).1 := by
  unfold appReceiveRequest; qs_tac

theorem qs_appReceiveAnswer (s : St) (ai : Nat) (m : AMsg) (h : Qs L s) : Qs L (appReceiveAnswer s ai m) := by
  unfold appReceiveAnswer; qs_tac

theorem qs_receiveAppAnswer (s : St) (m : AMsg) (h : Qs L s) : Qs L (receiveAppAnswer s m) := by
  unfold receiveAppAnswer
  repeat (first | qs_hyp | split | with_reducible apply qs_appReceiveAnswer)

theorem qs_recordOrigin (s : St) (cid : Nat) (m : AMsg) (info : MsgInfo) (h : Qs L s) : Qs L (recordOrigin s cid m info) := by
  unfold recordOrigin; qs_tac

theorem qs_crashReader (s : St) (cid : Nat) (e : String) (h : Qs L s) : Qs L (crashReader s cid e) := by
  unfold crashReader
  exact qs_of_conns rfl (qs_modConn _ _ _ (by tameo) (qs_of_conns rfl h))

theorem qs_sendCer (s : St) (cid : Nat) (h : Qs L s) : Qs L (sendCer s cid) := by
  unfold sendCer; qs_tac

theorem qs_sendDwr (s : St) (cid : Nat) (h : Qs L s) : Qs L (sendDwr s cid) := by
  unfold sendDwr; qs_tac

theorem qs_sendDpr (s : St) (cid : Nat) (h : Qs L s) : Qs L (sendDpr s cid) := by
  unfold sendDpr; qs_tac

macro "qs_tac3" : tactic => `(tactic| repeat (first
  | qs_hyp
  | qs_triv
  | qs_lit
  | split
  | dsimp only
  | with_reducible apply qs_modConn _ _ _ (by tameo)
  | with_reducible apply qs_connClose
  | with_reducible apply qs_removePeerConnection
  | with_reducible apply qs_closeConnectionSocket
  | with_reducible apply qs_recordAnswerState
  | with_reducible apply qs_sendCer
  | with_reducible apply qs_sendDwr
  | with_reducible apply qs_sendDpr))

theorem qs_checkTimers (s : St) (cid : Nat) (h : Qs L s) : Qs L (checkTimers s cid) := by
  unfold checkTimers; qs_tac3

theorem qs_connectToPeer (s : St) (pi : Nat) (h : Qs L s) : Qs L (connectToPeer s pi) := by
  unfold connectToPeer
  repeat (first
    | qs_hyp
    | qs_triv
    | qs_lit
    | split
    | dsimp only
    | with_reducible apply qs_modConn _ _ _ (by tameo)
    | with_reducible apply qs_removePeerConnection
    | with_reducible apply qs_closeConnectionSocket
    | with_reducible apply qs_sendCer
    | with_reducible apply qs_addPeerConnection _ _ ⟨rfl, rfl⟩)

theorem qs_reconnectStep (s : St) (pi : Nat) (h : Qs L s) : Qs L (reconnectStep s pi) := by
  unfold reconnectStep
  repeat (first | qs_hyp | split | with_reducible apply qs_connectToPeer)

theorem qs_reconnectPeers (s : St) (h : Qs L s) : Qs L (reconnectPeers s) := by
  unfold reconnectPeers
  split
  · exact h
  · exact qs_foldl _ (fun s a hs => qs_reconnectStep s a hs) _ _ h

theorem qs_handleInterrupt (s : St) (h : Qs L s) : Qs L (handleInterrupt s) := by
  unfold handleInterrupt; qs_tac3

theorem qs_handleAccept (s : St) (h : Qs L s) : Qs L (handleAccept s) := by
  unfold handleAccept
  dsimp only
  exact qs_addPeerConnection _ _ ⟨rfl, rfl⟩ (qs_of_conns rfl h)

theorem qs_connectResult (w : World) (cid : Nat) (c : Conn) (h : Qs L w.st) : Qs L (connectResult w cid c).1.st := by
  unfold connectResult; qs_tac3

theorem qs_flushWritable (w : World) (cid : Nat) (h : Qs L w.st) : Qs L (flushWritable w cid).st := by
  unfold flushWritable
  have hf : ∀ (l : List AMsg) (s : St), Qs L s → Qs L (l.foldl (fun s m => s.emit (.wrote cid m)) s) :=
    fun l s hs => qs_foldl (fun s m => s.emit (.wrote cid m)) (fun s a hs => hs) l s hs
  repeat (first
    | qs_hyp
    | qs_triv
    | qs_lit
    | split
    | dsimp only
    | simp only [popTx_st]
    | with_reducible apply qs_modConn _ _ _ (by tameo)
    | with_reducible apply qs_connClose
    | with_reducible apply qs_closeConnectionSocket
    | with_reducible apply hf)

theorem qs_handleWritable (w : World) (cid : Nat) (h : Qs L w.st) : Qs L (handleWritable w cid).st := by
  unfold handleWritable
  repeat (first | qs_hyp | split | dsimp only | with_reducible apply qs_flushWritable | with_reducible apply qs_connectResult)

theorem qs_handleReadable (w : World) (cid : Nat) (h : Qs L w.st) : Qs L (handleReadable w cid).st := by
  unfold handleReadable
  have hst : (w.popRx cid).1.st = w.st := popRx_st w cid
  split
  · exact h
  · dsimp only
    generalize hr : w.popRx cid = r at *
    obtain ⟨w1, ev⟩ := r
    dsimp only at *
    rw [← hst] at h
    split
    · exact h
    · exact h
    · exact qs_connClose _ _ _ (qs_closeConnectionSocket _ _ _ h)
    · exact qs_connClose _ _ _ (qs_closeConnectionSocket _ _ _ h)
    · exact qs_modConn _ _ _ (by tameo) h
    · exact qs_modConn _ _ _ (by tameo) h

/-- The writer moves messages from the queue to the write buffer: the same messages. -/
theorem qs_pumpWriter (s : St) (cid : Nat) (h : Qs L s) : Qs L (pumpWriter s cid) := by
  unfold pumpWriter
  split
  · exact h
  · rename_i c hc
    obtain ⟨hcm, hcid⟩ := conn?_some hc
    split
    · exact h
    · have hq : ∀ m ∈ c.outQ, m.isRequest = false → (cid, m.hbh) ∈ L := by
        intro m hm hr
        exact h (cid, m) (mem_outm.mpr ⟨c, hcm, hcid, List.mem_append_left _ hm⟩) hr
      generalize c.outQ = q at hq
      clear hc hcm
      induction q generalizing s with
      | nil => exact h
      | cons m ms ih =>
        simp only [List.foldl_cons]
        apply ih
        · apply qs_demand
          intro x hx hr
          rw [mem_outm] at hx
          obtain ⟨c', hc', hid, hmm⟩ := hx
          simp only [St.modConn, List.mem_map] at hc'
          obtain ⟨c0, hc0, rfl⟩ := hc'
          split at hid
          · rename_i hk
            have hc0id : c0.id = cid := by simpa using hk
            split at hmm
            · dsimp only at hid hmm
              rcases List.mem_append.mp hmm with hq' | hw
              · exact h x (mem_outm.mpr ⟨c0, hc0, hid, List.mem_append_left _ (List.mem_of_mem_drop hq')⟩) hr
              · rcases List.mem_append.mp hw with hw | hw
                · exact h x (mem_outm.mpr ⟨c0, hc0, hid, List.mem_append_right _ hw⟩) hr
                · have hxm : x.2 = m := by simpa using hw
                  have : x = (cid, m) := by cases x; simp_all
                  rw [this]; rw [this] at hr
                  exact hq m (List.mem_cons_self ..) hr
            · exact absurd hk (by assumption)
          · split at hmm
            · rename_i h1' h2'; exact absurd h2' h1'
            · exact h x (mem_outm.mpr ⟨c0, hc0, hid, hmm⟩) hr
        · intro m' hm'; exact hq m' (List.mem_cons_of_mem _ hm')

/-! ### the receive path: the node's own answers -/

theorem qs_receiveCer (s : St) (cid : Nat) (m : AMsg) (info : MsgInfo) (hm : (cid, m.hbh) ∈ L) (h : Qs L s) :
    Qs L (receiveCer s cid m info).1 := by
  have ans : ∀ (s1 : St) (s2 : St) (rc : Option Nat) (b : Bool), Qs L s1 →
      Qs L (sendMessage s1 cid { generateAnswer s2 m info none with cea := ceaSummary s2, rc := rc } b).1 := by
    intro s1 s2 rc b h1
    apply qs_sendMessage _ _ _ _ _ h1
    intro _
    show (cid, (generateAnswer s2 m info none).hbh) ∈ L
    rw [generateAnswer_hbh]; exact hm
  unfold receiveCer
  repeat (first
    | qs_hyp | qs_triv | qs_lit | split | dsimp only
    | with_reducible apply ans
    | with_reducible apply qs_modConn _ _ _ (by tameo)
    | with_reducible apply qs_flagReady | with_reducible apply qs_assignPeerConnection | with_reducible apply qs_cerNameAndElect)

theorem qs_answer (s s2 : St) (cid : Nat) (m : AMsg) (info : MsgInfo) (rc : Option Nat) (fa : List Nat) (b : Bool)
    (hm : (cid, m.hbh) ∈ L) (h : Qs L s) : Qs L (sendMessage s cid (generateAnswer s2 m info rc fa) b).1 := by
  apply qs_sendMessage _ _ _ _ _ h
  intro _
  rw [generateAnswer_hbh]; exact hm

theorem qs_receiveDpr (s : St) (cid : Nat) (m : AMsg) (info : MsgInfo) (hm : (cid, m.hbh) ∈ L) (h : Qs L s) :
    Qs L (receiveDpr s cid m info).1 := by
  unfold receiveDpr
  dsimp only
  apply qs_answer _ _ _ _ _ _ _ _ hm
  repeat (first | qs_hyp | qs_triv | split | with_reducible apply qs_modConn _ _ _ (by tameo))

theorem qs_receiveDwr (s : St) (cid : Nat) (m : AMsg) (info : MsgInfo) (hm : (cid, m.hbh) ∈ L) (h : Qs L s) :
    Qs L (receiveDwr s cid m info).1 := by
  unfold receiveDwr
  exact qs_answer _ _ _ _ _ _ _ _ hm h

theorem qs_receiveAppRequest (s : St) (cid : Nat) (m : AMsg) (info : MsgInfo) (hm : (cid, m.hbh) ∈ L) (h : Qs L s) :
    Qs L (receiveAppRequest s cid m info).1 := by
  unfold receiveAppRequest
  repeat (first
    | qs_hyp | qs_triv | qs_lit | split | dsimp only
    | exact qs_answer _ _ _ _ _ _ _ _ hm h
    | with_reducible apply qs_appReceiveRequest)

theorem qs_handleByCommand (s : St) (cid : Nat) (m : AMsg) (info : MsgInfo) (hm : m.isRequest = true → (cid, m.hbh) ∈ L)
    (h : Qs L s) : Qs L (handleByCommand s cid m info).1 := by
  unfold handleByCommand
  dsimp only
  have h0 : Qs L (if m.isRequest = true then
      match (s.conn? cid).bind (findConnectionPeer s) with
      | some pi => s.modPeer pi fun p => { p with requests := p.requests + 1 }
      | none => s
    else s) := by
    repeat (first | exact h | split)
  generalize (if m.isRequest = true then
      match (s.conn? cid).bind (findConnectionPeer s) with
      | some pi => s.modPeer pi fun p => { p with requests := p.requests + 1 }
      | none => s
    else s) = s1 at h0
  split
  · split
    · rename_i hr; exact qs_receiveCer _ _ _ _ (hm hr) h0
    · exact qs_receiveCea _ _ _ h0
  · split
    · split
      · rename_i hr; exact qs_receiveDwr _ _ _ _ (hm hr) h0
      · exact qs_receiveDwa _ _ h0
    · split
      · split
        · rename_i hr; exact qs_receiveDpr _ _ _ _ (hm hr) h0
        · exact qs_receiveDpa _ _ h0
      · split
        · rename_i hr; exact qs_receiveAppRequest _ _ _ _ (hm hr) h0
        · exact qs_receiveAppAnswer _ _ h0

theorem qs_receiveMessage (hk : Config.answerOnlyRequests = true) (s : St) (cid : Nat) (m : AMsg) (info : MsgInfo)
    (hm : m.isRequest = true → (cid, m.hbh) ∈ L) (h : Qs L s) : Qs L (receiveMessage s cid m info) := by
  unfold receiveMessage
  dsimp only
  have h1 : Qs L (recordOrigin s cid m info) := qs_recordOrigin _ _ _ _ h
  have hb := qs_handleByCommand (recordOrigin s cid m info) cid m info hm h1
  split
  · exact qs_crashReader _ _ _ h1
  · split
    · rename_i hc
      have hr : m.isRequest = true := by
        cases hmr : m.isRequest <;> simp_all
      split
      · exact qs_answer _ _ _ _ _ _ _ _ (hm hr) h1
      · exact qs_crashReader _ _ _ (qs_answer _ _ _ _ _ _ _ _ (hm hr) h1)
    · split
      · rename_i hc
        have hr : m.isRequest = true := by
          cases hmr : m.isRequest <;> simp_all
        split
        · exact qs_answer _ _ _ _ _ _ _ _ (hm hr) h1
        · exact qs_crashReader _ _ _ (qs_answer _ _ _ _ _ _ _ _ (hm hr) h1)
      · split
        · rename_i s' heq
          rw [heq] at hb; exact hb
        · rename_i s' e heq
          rw [heq] at hb
          simp only [hk, Bool.true_and]
          split
          · exact hb
          · rename_i hnr
            have hr : m.isRequest = true := by
              cases hmr : m.isRequest <;> simp_all
            split
            · exact qs_answer _ _ _ _ _ _ _ _ (hm hr) hb
            · exact qs_crashReader _ _ _ (qs_answer _ _ _ _ _ _ _ _ (hm hr) hb)

theorem qs_dispatchMessage (hk : Config.answerOnlyRequests = true) (s : St) (cid : Nat) (m : AMsg) (info : MsgInfo)
    (hm : m.isRequest = true → (cid, m.hbh) ∈ L) (h : Qs L s) : Qs L (dispatchMessage s cid m info) := by
  unfold dispatchMessage
  repeat (first | exact h | exact qs_receiveMessage hk s cid m info hm h | split)

/-- both invariants -/
def SQ (L : List (Nat × Nat)) (s : St) : Prop := Snd L s ∧ Qs L s

theorem SQ_pumpReader (hk : Config.answerOnlyRequests = true) (infoOf : AMsg → MsgInfo) (s : St) (cid : Nat) (h : SQ L s) :
    SQ L (pumpReader infoOf s cid) := by
  refine ⟨Snd_pumpReader infoOf L s cid h.1, ?_⟩
  obtain ⟨hs, hq⟩ := h
  unfold pumpReader
  split
  · exact hq
  · rename_i c hc
    obtain ⟨hcm, hcid⟩ := conn?_some hc
    split
    · exact hq
    · split
      · exact hq
      · rename_i chunk rest hqq
        dsimp only
        have hch : ∀ m ∈ chunk, m.isRequest = true → (cid, m.hbh) ∈ L := by
          intro m hm hr
          exact hs.2 (cid, m) (mem_inqm.mpr ⟨c, hcm, hcid, chunk, by rw [hqq]; simp, hm⟩) hr
        have h1 : Qs L (s.modConn cid fun c => { c with inQ := rest, lastRead := s.now }) := qs_modConn _ _ _ (by tameo) hq
        generalize (s.modConn cid fun c => { c with inQ := rest, lastRead := s.now }) = s1 at h1
        clear hqq
        induction chunk generalizing s1 with
        | nil => exact h1
        | cons m ms ih =>
          simp only [List.foldl_cons]
          apply ih
          · intro m' hm'; exact hch m' (List.mem_cons_of_mem _ hm')
          · have hmm := hch m (List.mem_cons_self ..)
            repeat (first | exact h1 | exact qs_dispatchMessage hk s1 cid m (infoOf m) hmm h1 | split)

/-! ### applications: answers go where `route_answer` says -/

theorem routeAnswer_sound (s s' : St) (a : AMsg) (cid : Nat) (hs : Snd L s) (hr : routeAnswer s a = .ok (s', cid)) :
    (cid, a.hbh) ∈ L := by
  unfold routeAnswer at hr
  split at hr
  · contradiction
  · rename_i wc l hf
    dsimp only at hr
    split at hr
    · contradiction
    · split at hr
      · contradiction
      · rename_i c hc
        split at hr
        · injection hr with hr
          injection hr with _ h2
          have hmem := List.mem_of_find?_eq_some hf
          have hcont : l.contains a.hbh = true := by have := List.find?_some hf; simpa using this
          have hcid : c.id = wc := by
            have hc' : St.conn? s wc = some c := hc
            exact (conn?_some hc').2
          rw [← h2, hcid]
          apply hs.1
          exact mem_pwm.mpr ⟨(wc, l), hmem, rfl, by simpa using hcont⟩
        · contradiction

theorem qs_routeAnswer (s s' : St) (m : AMsg) (cid : Nat) (hr : routeAnswer s m = .ok (s', cid)) (h : Qs L s) : Qs L s' := by
  unfold routeAnswer at hr
  simp only [] at hr
  repeat (first | contradiction | split at hr)
  all_goals (first | contradiction | (injection hr with hr; injection hr with h1 h2; subst h1; exact qs_of_conns rfl h))

theorem qs_routeAnswerSideEffect (s : St) (m : AMsg) (h : Qs L s) : Qs L (routeAnswerSideEffect s m) := by
  unfold routeAnswerSideEffect
  split
  · exact h
  · exact qs_of_conns rfl h

theorem SQ_sendBuiltAnswer (s : St) (a : AMsg) (t : Bool) (h : SQ L s) : SQ L (sendBuiltAnswer s a t).1 := by
  refine ⟨Snd_of_le (le_sendBuiltAnswer _ _ _ (Le.refl _)) h.1, ?_⟩
  unfold sendBuiltAnswer
  split
  · exact qs_routeAnswerSideEffect _ _ h.2
  · rename_i hr
    exact qs_sendMessage _ _ _ _ (fun _ => routeAnswer_sound _ _ _ _ h.1 hr) (qs_routeAnswer _ _ _ _ hr h.2)

theorem SQ_of (s' s : St) (hl : s' ≼ s) (hq : Qs L s → Qs L s') (h : SQ L s) : SQ L s' := ⟨Snd_of_le hl h.1, hq h.2⟩

theorem SQ_appRecvStep (infoOf : AMsg → MsgInfo) (ai mx : Nat) (s : St) (m : AMsg) (h : SQ L s) :
    SQ L (appRecvStep infoOf ai mx s m) := by
  refine ⟨Snd_of_le (le_appRecvStep infoOf ai mx s m (Le.refl _)) h.1, ?_⟩
  unfold appRecvStep
  split
  · exact h.2
  · split
    · exact h.2
    · dsimp only
      have h1 : SQ L (s.modTApp ai fun a => { a with recvQ := a.recvQ.drop 1 }) := h
      split
      · have h2 := (SQ_sendBuiltAnswer _ (generateAnswer (s.modTApp ai fun a => { a with recvQ := a.recvQ.drop 1 }) m (infoOf m) (some 3004)) (infoOf m).ansTyped h1).2
        split
        · exact h2
        · exact h2
      · exact h.2

theorem SQ_foldl {α : Type} (f : St → α → St) (hf : ∀ s a, SQ L s → SQ L (f s a)) (l : List α) (s : St) (h : SQ L s) :
    SQ L (l.foldl f s) := by
  induction l generalizing s with
  | nil => exact h
  | cons a l ih => exact ih _ (hf s a h)

theorem SQ_pumpAppRecv (infoOf : AMsg → MsgInfo) (s : St) (ai : Nat) (h : SQ L s) : SQ L (pumpAppRecv infoOf s ai) := by
  unfold pumpAppRecv
  repeat (first | exact h | split | exact SQ_foldl _ (fun s a hs => SQ_appRecvStep infoOf ai _ s a hs) _ _ h)

theorem SQ_appRespStep (ai : Nat) (s : St) (m : AMsg) (h : SQ L s) : SQ L (appRespStep ai s m) := by
  refine ⟨Snd_of_le (le_appRespStep ai s m (Le.refl _)) h.1, ?_⟩
  unfold appRespStep
  split
  · exact h.2
  · split
    · exact h.2
    · dsimp only
      have h1 : SQ L (s.modTApp ai fun a => { a with respQ := a.respQ.drop 1, slots := a.slots - 1 }) := h
      have h2 := (SQ_sendBuiltAnswer _ m true h1).2
      split
      · exact h2
      · exact h2

theorem SQ_appRespNones (ai : Nat) (s : St) (h : SQ L s) : SQ L (appRespNones ai s) := by
  unfold appRespNones
  repeat (first | exact h | split)

theorem SQ_pumpAppResp (s : St) (ai : Nat) (h : SQ L s) : SQ L (pumpAppResp s ai) := by
  unfold pumpAppResp
  repeat (first | exact h | split | (apply SQ_appRespNones; exact SQ_foldl _ (fun s a hs => SQ_appRespStep ai s a hs) _ _ h))

theorem qs_runHandler (infoOf : AMsg → MsgInfo) (s : St) (k : Nat) (h : Qs L s) : Qs L (runHandler infoOf s k) := by
  unfold runHandler
  repeat (first | qs_hyp | qs_triv | qs_lit | split | dsimp only)

theorem SQ_appSendAnswer (s : St) (ai : Nat) (req : AMsg) (info : MsgInfo) (rc : Option Nat) (h : SQ L s) :
    SQ L (appSendAnswer s ai req info rc) := by
  refine ⟨Snd_of_le (le_appSendAnswer _ _ _ _ _ (Le.refl _)) h.1, ?_⟩
  unfold appSendAnswer
  dsimp only
  split
  · exact qs_emit _ _ (qs_routeAnswerSideEffect _ _ h.2)
  · rename_i hr
    have := qs_sendMessage _ _ (generateAnswer s req info rc) info.ansTyped (fun _ => routeAnswer_sound _ _ _ _ h.1 hr)
      (qs_routeAnswer _ _ _ _ hr h.2)
    split <;> exact qs_emit _ _ this

theorem qs_routeRequest (s s' : St) (ai : Nat) (m m' : AMsg) (info : MsgInfo) (cid : Nat)
    (hr : routeRequest s ai m info = .ok (s', cid, m')) (h : Qs L s) : Qs L s' ∧ m'.flags = m.flags := by
  unfold routeRequest at hr
  simp only [] at hr
  repeat (first | contradiction | split at hr)
  all_goals (injection hr with hr; injection hr with h1 h2; injection h2 with h2 h3; subst h1; subst h3)
  all_goals
    refine ⟨?_, ?_⟩
    · repeat (first | qs_hyp | qs_triv | qs_lit | split | dsimp only | with_reducible apply qs_modConn _ _ _ (by tameo))
    · repeat (first | rfl | split)

theorem qs_appSendRequestBegin (s : St) (ai : Nat) (m : AMsg) (info : MsgInfo) (hreq : m.isRequest = true) (h : Qs L s) :
    Qs L (appSendRequestBegin s ai m info).1 := by
  unfold appSendRequestBegin
  dsimp only
  split
  · split <;> exact qs_of_conns rfl h
  · rename_i s' cid m' hr
    have ⟨hq, hfl⟩ := qs_routeRequest _ _ _ _ _ _ _ hr (show Qs L (if (m.e2e == 0) = true then
        ({ s with e2e := seqNext s.e2e }, { m with e2e := seqNext s.e2e }) else (s, m)).1 from by split <;> exact qs_of_conns rfl h)
    apply qs_sendRequest _ _ _ _ _ (qs_modApp _ _ _ hq)
    unfold AMsg.isRequest at hreq ⊢
    rw [hfl]
    revert hreq
    repeat (first | exact id | split)

theorem qs_stopBegin (s : St) (f : Bool) (h : Qs L s) : Qs L (stopBegin s f) := by
  unfold stopBegin
  dsimp only
  split
  · exact qs_of_conns rfl h
  · apply qs_foldl
    · intro s a hs
      repeat (first | qs_hyp | split | with_reducible apply qs_sendDpr)
    · exact qs_of_conns rfl h

theorem qs_stopFinal (s : St) (h : Qs L s) : Qs L (stopFinal s) := by
  unfold stopFinal
  apply qs_foldl
  · intro s a hs
    exact qs_connClose _ _ _ (qs_closeConnectionSocket _ _ _ hs)
  · exact h

theorem SQ_pumpAll (hk : Config.answerOnlyRequests = true) (infoOf : AMsg → MsgInfo) (s : St) (h : SQ L s) : SQ L (pumpAll infoOf s) := by
  unfold pumpAll
  dsimp only
  apply SQ_foldl
  · intro s ai hs
    exact SQ_pumpAppResp _ _ (SQ_pumpAppRecv infoOf _ _ hs)
  · apply SQ_foldl
    · intro s c hs
      refine SQ_of _ _ (le_pumpWriter _ _ (Le.refl _)) (qs_pumpWriter _ _) ?_
      apply SQ_foldl
      · intro s _ hs; exact SQ_pumpReader hk infoOf s c.id hs
      · exact hs
    · exact h

/-! ### the I/O loop -/

theorem qs_ioIteration (w : World) (h : Qs L w.st) : Qs L (ioIteration w).st := by
  unfold ioIteration
  dsimp only
  generalize hW : List.foldl handleWritable _ _ = W
  have hWs : Qs L W.st := by
    rw [← hW]
    apply qs_foldlW _ (fun w a hw => qs_handleWritable w a hw)
    apply qs_foldlW _ (fun w a hw => qs_handleReadable w a hw)
    repeat (first
      | exact h
      | with_reducible apply qs_handleAccept
      | with_reducible apply qs_handleInterrupt
      | split
      | dsimp only)
  exact qs_reconnectPeers _ (qs_foldl _ (fun s a hs => qs_checkTimers s a hs) _ _ hWs)

/-- the three invariants together, on worlds -/
def WSQ (L : List (Nat × Nat)) (w : World) : Prop := WSnd L w ∧ Qs L w.st

theorem WSQ_mono {L' : List (Nat × Nat)} {w : World} (hL : ∀ x ∈ L, x ∈ L') (h : WSQ L w) : WSQ L' w :=
  ⟨WSnd_mono hL h.1, Qs_mono hL h.2⟩

theorem WSQ_settle (hk : Config.answerOnlyRequests = true) (infoOf : AMsg → MsgInfo) (n : Nat) (w : World) (h : WSQ L w) :
    WSQ L (settle infoOf n w) := by
  induction n generalizing w with
  | zero => exact h
  | succ n ih =>
    unfold settle
    dsimp only
    have h1 : WSQ L (ioIteration w) := ⟨WSnd_ioIteration L w h.1, qs_ioIteration w h.2⟩
    have hp := SQ_pumpAll hk infoOf (ioIteration w).st ⟨h1.1.1, h1.2⟩
    have h2 : WSQ L { ioIteration w with st := pumpAll infoOf (ioIteration w).st } := ⟨⟨hp.1, h1.1.2⟩, hp.2⟩
    split
    · exact ih _ h2
    · exact h2

end DV.Node
