/-
  Sequential facts about the identifier generators.
-/
import DV.Model.Generators
namespace DV.Gens

theorem nextSeq_ne_zero (mx c : Nat) : nextSeq mx c ≠ 0 := by
  unfold nextSeq; split <;> omega

theorem nextSeq_max (mx : Nat) : nextSeq mx mx = 1 := by simp [nextSeq]

theorem nextSeq_range (mx c : Nat) (h1 : 1 ≤ c) (h2 : c ≤ mx) : 1 ≤ nextSeq mx c ∧ nextSeq mx c ≤ mx := by
  unfold nextSeq
  split
  · omega
  · rename_i h
    have : c ≠ mx := by simpa using h
    omega

theorem iter_succ (mx n s : Nat) : iter mx (n + 1) s = nextSeq mx (iter mx n s) := rfl

theorem iter_range (mx s : Nat) (h1 : 1 ≤ s) (h2 : s ≤ mx) (n : Nat) : 1 ≤ iter mx n s ∧ iter mx n s ≤ mx := by
  induction n with
  | zero => exact ⟨h1, h2⟩
  | succ n ih => exact nextSeq_range mx _ ih.1 ih.2

theorem succ_mod (a m : Nat) (hm : 0 < m) : (a + 1) % m = if a % m + 1 = m then 0 else a % m + 1 := by
  have hlt : a % m < m := Nat.mod_lt _ hm
  rw [Nat.add_mod]
  by_cases h1 : m = 1
  · subst h1; simp [Nat.mod_one]
  · have : 1 % m = 1 := Nat.mod_eq_of_lt (by omega)
    rw [this]
    split
    · rename_i h; rw [h, Nat.mod_self]
    · exact Nat.mod_eq_of_lt (by omega)

/-- Closed form: the counter walks the cycle `1 … mx`. -/
theorem iter_closed (mx s : Nat) (h1 : 1 ≤ s) (h2 : s ≤ mx) (n : Nat) : iter mx n s = (s - 1 + n) % mx + 1 := by
  induction n with
  | zero =>
    have : (s - 1) % mx = s - 1 := Nat.mod_eq_of_lt (by omega)
    simp only [iter, Nat.add_zero, this]; omega
  | succ n ih =>
    rw [iter_succ, ih]
    have e : s - 1 + (n + 1) = (s - 1 + n) + 1 := by omega
    rw [e, succ_mod _ mx (by omega)]
    unfold nextSeq
    by_cases h : (s - 1 + n) % mx + 1 = mx
    · simp [h]
    · have : ((s - 1 + n) % mx + 1 == mx) = false := by simpa using h
      simp [this, h]

/-- **Successive draws are pairwise distinct until the counter space wraps**:
    draws number `i` and `j` differ whenever fewer than `mx` draws lie between them. -/
theorem iter_distinct (mx s : Nat) (h1 : 1 ≤ s) (h2 : s ≤ mx) (i j : Nat) (hij : i < j) (hw : j < i + mx) :
    iter mx i s ≠ iter mx j s := by
  rw [iter_closed mx s h1 h2, iter_closed mx s h1 h2]
  intro h
  have h' : (s - 1 + i) % mx = (s - 1 + j) % mx := by omega
  have hd : (s - 1 + j - (s - 1 + i)) % mx = 0 := Nat.sub_mod_eq_zero_of_mod_eq h'.symm
  have e : s - 1 + j - (s - 1 + i) = j - i := by omega
  rw [e] at hd
  have : mx ≤ j - i := Nat.le_of_dvd (by omega) (Nat.dvd_of_mod_eq_zero hd)
  omega

/-- the first `n` draws, as a list, have no duplicates while `n ≤ mx` -/
theorem draws_nodup (mx s : Nat) (h1 : 1 ≤ s) (h2 : s ≤ mx) (n : Nat) (hn : n ≤ mx) :
    ((List.range n).map fun j => iter mx (j + 1) s).Nodup := by
  rw [List.nodup_iff_pairwise_ne, List.pairwise_map]
  refine List.Pairwise.imp_of_mem ?_ (List.pairwise_lt_range (n := n))
  intro a b ha hb hab
  have hb' : b < n := List.mem_range.mp hb
  exact iter_distinct mx s h1 h2 (a + 1) (b + 1) (by omega) (by omega)

/-! ### the end-to-end generator's start value -/

theorem e2eInit_eq (now r : Nat) (hr : r < 2 ^ 20) : e2eInit now r = (now * 2 ^ 20 + r) % 2 ^ 32 := by
  unfold e2eInit
  have h1 : (now <<< 20) ||| r = now * 2 ^ 20 + r := by
    rw [← Nat.shiftLeft_add_eq_or_of_lt hr now, Nat.shiftLeft_eq]
  rw [h1]
  exact Nat.and_two_pow_sub_one_eq_mod _ 32

/-- The high 12 bits of the start value are the low 12 bits of the start time. -/
theorem e2eInit_high (now r : Nat) (hr : r < 2 ^ 20) : e2eInit now r / 2 ^ 20 = now % 2 ^ 12 := by
  rw [e2eInit_eq now r hr]
  omega

theorem e2eInit_low (now r : Nat) (hr : r < 2 ^ 20) : e2eInit now r % 2 ^ 20 = r := by
  rw [e2eInit_eq now r hr]
  omega

/-- …and it is a legal counter value (never zero, at most 32 bits). -/
theorem e2eInit_range (now r : Nat) (h1 : 1 ≤ r) (hr : r < 2 ^ 20) : 1 ≤ e2eInit now r ∧ e2eInit now r ≤ 0xffffffff := by
  have := e2eInit_low now r hr
  rw [e2eInit_eq now r hr] at *
  omega

/-! ### session ids -/

theorem hexN_length (k n : Nat) : (hexN k n).length = k := by
  induction k generalizing n with
  | zero => rfl
  | succ k ih => simp [hexN, ih]

theorem hexVal_hexDigit (d : Nat) (h : d < 16) : hexVal (hexDigit d) = d := by
  have : d = 0 ∨ d = 1 ∨ d = 2 ∨ d = 3 ∨ d = 4 ∨ d = 5 ∨ d = 6 ∨ d = 7 ∨ d = 8 ∨ d = 9 ∨ d = 10 ∨ d = 11 ∨
      d = 12 ∨ d = 13 ∨ d = 14 ∨ d = 15 := by omega
  rcases this with h | h | h | h | h | h | h | h | h | h | h | h | h | h | h | h <;> subst h <;> decide

theorem unhex_append (l : List Char) (c : Char) : unhex (l ++ [c]) = unhex l * 16 + hexVal c := by
  simp [unhex, List.foldl_append]

/-- `k` hex digits determine the number below `16^k`. -/
theorem unhex_hexN (k n : Nat) (h : n < 16 ^ k) : unhex (hexN k n) = n := by
  induction k generalizing n with
  | zero => simp [Nat.pow_zero] at h; subst h; rfl
  | succ k ih =>
    have hd : n / 16 < 16 ^ k := by
      rw [Nat.pow_succ] at h
      exact Nat.div_lt_of_lt_mul (by omega)
    rw [hexN, unhex_append, ih _ hd, hexVal_hexDigit _ (Nat.mod_lt _ (by omega))]
    omega

theorem hexN_inj (k a b : Nat) (ha : a < 16 ^ k) (hb : b < 16 ^ k) (h : hexN k a = hexN k b) : a = b := by
  rw [← unhex_hexN k a ha, ← unhex_hexN k b hb, h]

end DV.Gens
