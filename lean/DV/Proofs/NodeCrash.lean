/-
  "No worker dies": the counter `St.crashed` (bumped exactly where the model
  lets an exception escape a worker thread) is left alone by every function on
  the receive, timer, I/O and application paths.
-/
import DV.Model.NodeLoop
namespace DV.Node
set_option linter.unusedSimpArgs false

@[simp] theorem crashed_emit (s : St) (o : Out) : (s.emit o).crashed = s.crashed := rfl
@[simp] theorem crashed_modConn (s : St) (i : Nat) (f : Conn → Conn) : (s.modConn i f).crashed = s.crashed := rfl
@[simp] theorem crashed_modPeer (s : St) (i : Nat) (f : Peer → Peer) : (s.modPeer i f).crashed = s.crashed := rfl
@[simp] theorem crashed_modApp (s : St) (i : Nat) (f : App → App) : (s.modApp i f).crashed = s.crashed := rfl
@[simp] theorem crashed_modTApp (s : St) (i : Nat) (f : TApp → TApp) : (s.modTApp i f).crashed = s.crashed := rfl
@[simp] theorem crashed_demand (s : St) (c : Nat) : (demandAttention s c).crashed = s.crashed := rfl

@[simp] theorem crashed_connClose (s : St) (cid : Nat) (b : Bool) : (connClose s cid b).crashed = s.crashed := by
  unfold connClose; split <;> rfl

@[simp] theorem crashed_removePeerConnection (s : St) (cid : Nat) (r : Reason) :
    (removePeerConnection s cid r).crashed = s.crashed := by
  unfold removePeerConnection
  cases hc : s.conn? cid with
  | none => rfl
  | some c =>
    simp only []
    repeat (first | rfl | split)

@[simp] theorem crashed_closeConnectionSocket (s : St) (cid : Nat) (r : Reason) :
    (closeConnectionSocket s cid r).crashed = s.crashed := by
  unfold closeConnectionSocket
  split <;> simp

@[simp] theorem crashed_assignPeerConnection (s : St) (cid : Nat) : (assignPeerConnection s cid).crashed = s.crashed := by
  unfold assignPeerConnection
  repeat (first | rfl | split | dsimp only)

@[simp] theorem crashed_flagReady (s : St) (cid : Nat) : (flagConnectionAsReady s cid).crashed = s.crashed := rfl

@[simp] theorem crashed_recordAnswerState (s : St) (cid : Nat) (m : AMsg) :
    (recordAnswerState s cid m).crashed = s.crashed := by
  unfold recordAnswerState
  repeat (first | rfl | split | dsimp only)

@[simp] theorem crashed_sendMessage (s : St) (cid : Nat) (m : AMsg) (b : Bool) :
    (sendMessage s cid m b).1.crashed = s.crashed := by
  unfold sendMessage
  repeat (first | rfl | split | dsimp only | simp only [crashed_recordAnswerState, crashed_modConn])

theorem recordAnswerRaises_false (s : St) (cid : Nat) (a : AMsg) (b : Bool) (h : (b && a.rc.isNone) = false) :
    recordAnswerRaises s cid a b = false := by
  unfold recordAnswerRaises
  repeat (first | rfl | exact h | split)

theorem generateAnswer_rc (s0 : St) (m : AMsg) (info : MsgInfo) (rc : Nat) (fa : List Nat) :
    (info.ansTyped && (generateAnswer s0 m info (some rc) fa).rc.isNone) = false := by
  unfold generateAnswer
  split
  · simp
  · rename_i h; simp [h]

/-- An answer built by `generateAnswer` with a result code is always accepted by `send_message`. -/
theorem sendMessage_generated_ok (s s0 : St) (cid : Nat) (m : AMsg) (info : MsgInfo) (rc : Nat) (fa : List Nat) :
    (sendMessage s cid (generateAnswer s0 m info (some rc) fa) info.ansTyped).2 = true := by
  unfold sendMessage
  split
  · rfl
  · dsimp only
    split
    · simp only [recordAnswerRaises_false _ _ _ _ (generateAnswer_rc s0 m info rc fa), Bool.not_false]
    · rfl

theorem crashed_foldl {α : Type} (f : St → α → St) (h : ∀ s a, (f s a).crashed = s.crashed) (l : List α) (s : St) :
    (l.foldl f s).crashed = s.crashed := by
  induction l generalizing s with
  | nil => rfl
  | cons a l ih => simp only [List.foldl_cons, ih, h]

@[simp] theorem crashed_cerNameAndElect (s : St) (cid : Nat) (h : String) : (cerNameAndElect s cid h).1.crashed = s.crashed := by
  unfold cerNameAndElect
  have hf : ∀ (l : List Conn) (s : St), (l.foldl (fun s o => connClose s o.id true) s).crashed = s.crashed :=
    fun l s => crashed_foldl _ (fun s a => crashed_connClose s a.id true) l s
  dsimp only
  repeat (first | rfl | split | simp only [hf, crashed_modConn])

@[simp] theorem crashed_receiveCer (s : St) (cid : Nat) (m : AMsg) (info : MsgInfo) :
    (receiveCer s cid m info).1.crashed = s.crashed := by
  unfold receiveCer
  repeat (first | rfl | split | dsimp only | simp only [crashed_sendMessage, crashed_modConn, crashed_flagReady, crashed_assignPeerConnection, crashed_cerNameAndElect])

@[simp] theorem crashed_receiveCea (s : St) (cid : Nat) (m : AMsg) : (receiveCea s cid m).1.crashed = s.crashed := by
  unfold receiveCea
  repeat (first | rfl | split | dsimp only | simp only [crashed_closeConnectionSocket, crashed_modConn, crashed_flagReady, crashed_assignPeerConnection])

@[simp] theorem crashed_receiveDpr (s : St) (cid : Nat) (m : AMsg) (info : MsgInfo) :
    (receiveDpr s cid m info).1.crashed = s.crashed := by
  unfold receiveDpr
  repeat (first | rfl | split | dsimp only | simp only [crashed_sendMessage, crashed_modConn, crashed_modPeer])

@[simp] theorem crashed_receiveDpa (s : St) (cid : Nat) : (receiveDpa s cid).crashed = s.crashed := rfl
@[simp] theorem crashed_receiveDwa (s : St) (cid : Nat) : (receiveDwa s cid).crashed = s.crashed := rfl

@[simp] theorem crashed_receiveDwr (s : St) (cid : Nat) (m : AMsg) (info : MsgInfo) :
    (receiveDwr s cid m info).1.crashed = s.crashed := by
  unfold receiveDwr
  simp only [crashed_sendMessage]

@[simp] theorem crashed_appReceiveRequest (s : St) (ai : Nat) (m : AMsg) : (appReceiveRequest s ai m).1.crashed = s.crashed := by
  unfold appReceiveRequest
  repeat (first | rfl | split | dsimp only)

@[simp] theorem crashed_receiveAppRequest (s : St) (cid : Nat) (m : AMsg) (info : MsgInfo) :
    (receiveAppRequest s cid m info).1.crashed = s.crashed := by
  unfold receiveAppRequest
  repeat (first | rfl | split | dsimp only | simp only [crashed_sendMessage, crashed_appReceiveRequest])

@[simp] theorem crashed_appReceiveAnswer (s : St) (ai : Nat) (m : AMsg) : (appReceiveAnswer s ai m).crashed = s.crashed := by
  unfold appReceiveAnswer
  repeat (first | rfl | split)

@[simp] theorem crashed_receiveAppAnswer (s : St) (m : AMsg) : (receiveAppAnswer s m).crashed = s.crashed := by
  unfold receiveAppAnswer
  repeat (first | rfl | split | simp only [crashed_appReceiveAnswer])

@[simp] theorem crashed_recordOrigin (s : St) (cid : Nat) (m : AMsg) (info : MsgInfo) :
    (recordOrigin s cid m info).crashed = s.crashed := by
  unfold recordOrigin
  split <;> rfl

@[simp] theorem crashed_handleByCommand (s : St) (cid : Nat) (m : AMsg) (info : MsgInfo) :
    (handleByCommand s cid m info).1.crashed = s.crashed := by
  unfold handleByCommand
  repeat (first | rfl | split | dsimp only | simp only [crashed_receiveCer, crashed_receiveCea, crashed_receiveDwr, crashed_receiveDwa, crashed_receiveDpr, crashed_receiveDpa, crashed_receiveAppRequest, crashed_receiveAppAnswer, crashed_modPeer])

/-- `_receive_message` lets no exception escape: every answer it builds itself
    carries a result code, so `_record_answer` cannot raise on it; the only
    remaining way out is `validate_message_avps` failing to build a Failed-AVP
    (`validateRaises`), which the table obligation C08_required_defs_resolvable excludes. -/
theorem crashed_receiveMessage (s : St) (cid : Nat) (m : AMsg) (info : MsgInfo) (hv : info.validateRaises = false) :
    (receiveMessage s cid m info).crashed = s.crashed := by
  unfold receiveMessage
  simp only [hv, Bool.and_false, Bool.false_eq_true, if_false, sendMessage_generated_ok, if_true]
  have hb := crashed_handleByCommand (recordOrigin s cid m info) cid m info
  repeat (first | rfl | split | dsimp only | simp only [crashed_sendMessage, crashed_recordOrigin])
  all_goals (rename_i h; rw [h] at hb; simp only [crashed_recordOrigin] at hb)
  · exact hb
  · split
    · exact hb
    · simpa using hb

theorem crashed_dispatchMessage (s : St) (cid : Nat) (m : AMsg) (info : MsgInfo) (hv : info.validateRaises = false) :
    (dispatchMessage s cid m info).crashed = s.crashed := by
  unfold dispatchMessage
  repeat (first | rfl | split | exact crashed_receiveMessage s cid m info hv)

theorem crashed_pumpReader (infoOf : AMsg → MsgInfo) (hv : ∀ m, (infoOf m).validateRaises = false) (s : St) (cid : Nat) :
    (pumpReader infoOf s cid).crashed = s.crashed := by
  unfold pumpReader
  split
  · rfl
  · split
    · rfl
    · split
      · rfl
      · dsimp only
        rw [crashed_foldl]
        · rfl
        · intro s a
          repeat (first | rfl | split | exact crashed_dispatchMessage s cid a (infoOf a) (hv a))

theorem crashed_pumpWriter (s : St) (cid : Nat) : (pumpWriter s cid).crashed = s.crashed := by
  unfold pumpWriter
  repeat (first | rfl | split | (rw [crashed_foldl]; intro s a; rfl))

/-! ### timers, dialling, the I/O loop -/

@[simp] theorem crashed_sendCer (s : St) (cid : Nat) : (sendCer s cid).crashed = s.crashed := by
  unfold sendCer
  repeat (first | rfl | split | dsimp only | simp only [crashed_sendMessage, crashed_modConn])

@[simp] theorem crashed_sendDwr (s : St) (cid : Nat) : (sendDwr s cid).crashed = s.crashed := by
  unfold sendDwr
  repeat (first | rfl | split | dsimp only | simp only [crashed_sendMessage, crashed_modConn])

@[simp] theorem crashed_sendDpr (s : St) (cid : Nat) : (sendDpr s cid).crashed = s.crashed := by
  unfold sendDpr
  repeat (first | rfl | split | dsimp only | simp only [crashed_sendMessage, crashed_modConn])

@[simp] theorem crashed_checkTimers (s : St) (cid : Nat) : (checkTimers s cid).crashed = s.crashed := by
  unfold checkTimers
  repeat (first | rfl | split | dsimp only | simp only [crashed_closeConnectionSocket, crashed_sendDwr])

@[simp] theorem crashed_addPeerConnection (s : St) (c : Conn) : (addPeerConnection s c).1.crashed = s.crashed := by
  unfold addPeerConnection
  repeat (first | rfl | split | dsimp only)

@[simp] theorem crashed_connectToPeer (s : St) (pi : Nat) : (connectToPeer s pi).crashed = s.crashed := by
  unfold connectToPeer
  repeat (first | rfl | split | dsimp only | simp only [crashed_closeConnectionSocket, crashed_removePeerConnection, crashed_sendCer, crashed_modConn, crashed_emit, crashed_addPeerConnection, crashed_demand])

@[simp] theorem crashed_reconnectStep (s : St) (pi : Nat) : (reconnectStep s pi).crashed = s.crashed := by
  unfold reconnectStep
  repeat (first | rfl | split | simp only [crashed_connectToPeer])

@[simp] theorem crashed_reconnectPeers (s : St) : (reconnectPeers s).crashed = s.crashed := by
  unfold reconnectPeers
  split
  · rfl
  · exact crashed_foldl _ crashed_reconnectStep _ _

@[simp] theorem crashed_handleInterrupt (s : St) : (handleInterrupt s).crashed = s.crashed := by
  unfold handleInterrupt
  repeat (first | rfl | split | dsimp only | simp only [crashed_closeConnectionSocket])

@[simp] theorem crashed_handleAccept (s : St) : (handleAccept s).crashed = s.crashed := by
  unfold handleAccept
  simp only [crashed_addPeerConnection]

@[simp] theorem popRx_st (w : World) (cid : Nat) : (w.popRx cid).1.st = w.st := by
  unfold World.popRx
  repeat (first | rfl | split)

@[simp] theorem popTx_st (w : World) (cid : Nat) : (w.popTx cid).1.st = w.st := by
  unfold World.popTx
  repeat (first | rfl | split)

@[simp] theorem crashed_handleReadable (w : World) (cid : Nat) : (handleReadable w cid).st.crashed = w.st.crashed := by
  unfold handleReadable
  repeat (first | rfl | split | dsimp only | simp only [crashed_closeConnectionSocket, crashed_connClose, popRx_st, crashed_modConn])

@[simp] theorem crashed_connectResult (w : World) (cid : Nat) (c : Conn) :
    (connectResult w cid c).1.st.crashed = w.st.crashed := by
  unfold connectResult
  repeat (first | rfl | split | dsimp only | simp only [crashed_closeConnectionSocket, crashed_connClose, crashed_modConn, crashed_sendCer, crashed_modPeer])

@[simp] theorem crashed_flushWritable (w : World) (cid : Nat) : (flushWritable w cid).st.crashed = w.st.crashed := by
  unfold flushWritable
  have hf : ∀ (l : List AMsg) (s : St), (l.foldl (fun s m => s.emit (.wrote cid m)) s).crashed = s.crashed :=
    fun l s => crashed_foldl (fun s m => s.emit (.wrote cid m)) (fun s a => rfl) l s
  repeat (first | rfl | split | dsimp only | simp only [crashed_closeConnectionSocket, crashed_connClose, popTx_st, crashed_modConn, hf])

@[simp] theorem crashed_handleWritable (w : World) (cid : Nat) : (handleWritable w cid).st.crashed = w.st.crashed := by
  unfold handleWritable
  repeat (first | rfl | split | dsimp only | simp only [crashed_connectResult, crashed_flushWritable])

theorem crashed_foldlW {α : Type} (f : World → α → World) (h : ∀ w a, (f w a).st.crashed = w.st.crashed) (l : List α) (w : World) :
    (l.foldl f w).st.crashed = w.st.crashed := by
  induction l generalizing w with
  | nil => rfl
  | cons a l ih => simp only [List.foldl_cons, ih, h]

/-- One pass of the I/O loop never kills a worker. -/
@[simp] theorem crashed_ioIteration (w : World) : (ioIteration w).st.crashed = w.st.crashed := by
  unfold ioIteration
  simp only [crashed_reconnectPeers]
  rw [crashed_foldl _ crashed_checkTimers, crashed_foldlW _ crashed_handleWritable, crashed_foldlW _ crashed_handleReadable]
  repeat (first | rfl | split | dsimp only | simp only [crashed_handleAccept, crashed_handleInterrupt])

/-! ### applications -/

theorem crashed_routeAnswer (s s' : St) (m : AMsg) (cid : Nat) (h : routeAnswer s m = .ok (s', cid)) :
    s'.crashed = s.crashed := by
  unfold routeAnswer at h
  simp only [] at h
  repeat (first | contradiction | split at h)
  all_goals (first | contradiction | (injection h with h; injection h with h1 h2; subst h1; rfl))

@[simp] theorem crashed_routeAnswerSideEffect (s : St) (m : AMsg) : (routeAnswerSideEffect s m).crashed = s.crashed := by
  unfold routeAnswerSideEffect
  split <;> rfl

@[simp] theorem crashed_sendBuiltAnswer (s : St) (a : AMsg) (t : Bool) : (sendBuiltAnswer s a t).1.crashed = s.crashed := by
  unfold sendBuiltAnswer
  split
  · simp
  · rename_i h
    simp only [crashed_sendMessage, crashed_routeAnswer _ _ _ _ h]

theorem crashed_appRecvStep (infoOf : AMsg → MsgInfo) (hk : Config.appConsumersCatch = true) (ai mx : Nat) (s : St) (m : AMsg) :
    (appRecvStep infoOf ai mx s m).crashed = s.crashed := by
  unfold appRecvStep
  simp only [hk, Bool.or_true, if_true]
  repeat (first | rfl | split | dsimp only | simp only [crashed_sendBuiltAnswer, crashed_modApp, crashed_modTApp])

theorem crashed_pumpAppRecv (infoOf : AMsg → MsgInfo) (hk : Config.appConsumersCatch = true) (s : St) (ai : Nat) :
    (pumpAppRecv infoOf s ai).crashed = s.crashed := by
  unfold pumpAppRecv
  repeat (first | rfl | split | exact crashed_foldl _ (crashed_appRecvStep infoOf hk ai _) _ _)

theorem crashed_appRespStep (hk : Config.appConsumersCatch = true) (ai : Nat) (s : St) (m : AMsg) :
    (appRespStep ai s m).crashed = s.crashed := by
  unfold appRespStep
  simp only [hk, Bool.or_true, if_true]
  repeat (first | rfl | split | dsimp only | simp only [crashed_sendBuiltAnswer, crashed_modApp, crashed_modTApp])

@[simp] theorem crashed_appRespNones (ai : Nat) (s : St) : (appRespNones ai s).crashed = s.crashed := by
  unfold appRespNones
  repeat (first | rfl | split)

theorem crashed_pumpAppResp (hk : Config.appConsumersCatch = true) (s : St) (ai : Nat) :
    (pumpAppResp s ai).crashed = s.crashed := by
  unfold pumpAppResp
  repeat (first | rfl | split | (rw [crashed_appRespNones]; exact crashed_foldl _ (crashed_appRespStep hk ai) _ _))

@[simp] theorem crashed_runHandler (infoOf : AMsg → MsgInfo) (s : St) (k : Nat) : (runHandler infoOf s k).crashed = s.crashed := by
  unfold runHandler
  repeat (first | rfl | split | dsimp only)

theorem crashed_pumpAll (infoOf : AMsg → MsgInfo) (hv : ∀ m, (infoOf m).validateRaises = false)
    (hk : Config.appConsumersCatch = true) (s : St) : (pumpAll infoOf s).crashed = s.crashed := by
  unfold pumpAll
  dsimp only
  rw [crashed_foldl, crashed_foldl]
  · intro s c
    rw [crashed_pumpWriter, crashed_foldl]
    intro s _
    exact crashed_pumpReader infoOf hv s c.id
  · intro s ai
    rw [crashed_pumpAppResp hk, crashed_pumpAppRecv infoOf hk]

/-- The harness's settle loop (I/O iterations and worker pumps until nothing moves). -/
theorem crashed_settle (infoOf : AMsg → MsgInfo) (hv : ∀ m, (infoOf m).validateRaises = false)
    (hk : Config.appConsumersCatch = true) (n : Nat) (w : World) : (settle infoOf n w).st.crashed = w.st.crashed := by
  induction n generalizing w with
  | zero => rfl
  | succ n ih =>
    unfold settle
    dsimp only
    split
    · rw [ih]; simp only [crashed_pumpAll infoOf hv hk, crashed_ioIteration]
    · simp only [crashed_pumpAll infoOf hv hk, crashed_ioIteration]

@[simp] theorem crashed_appSendAnswer (s : St) (ai : Nat) (req : AMsg) (info : MsgInfo) (rc : Option Nat) :
    (appSendAnswer s ai req info rc).crashed = s.crashed := by
  unfold appSendAnswer
  dsimp only
  split
  · simp
  · rename_i h
    split <;> simp only [crashed_emit, crashed_sendMessage, crashed_routeAnswer _ _ _ _ h]

theorem crashed_routeRequest (s s' : St) (ai : Nat) (m m' : AMsg) (info : MsgInfo) (cid : Nat)
    (h : routeRequest s ai m info = .ok (s', cid, m')) : s'.crashed = s.crashed := by
  unfold routeRequest at h
  simp only [] at h
  repeat (first | contradiction | split at h)
  all_goals (injection h with h; injection h with h1 h2; subst h1; repeat (first | rfl | split))

@[simp] theorem crashed_appSendRequestBegin (s : St) (ai : Nat) (m : AMsg) (info : MsgInfo) :
    (appSendRequestBegin s ai m info).1.crashed = s.crashed := by
  unfold appSendRequestBegin
  dsimp only
  split
  · split <;> rfl
  · rename_i h
    simp only [crashed_sendMessage, crashed_modApp, crashed_routeRequest _ _ _ _ _ _ _ h]
    split <;> rfl

@[simp] theorem crashed_appSendRequestEnd (s : St) (ai : Nat) (hbh : Nat) : (appSendRequestEnd s ai hbh).1.crashed = s.crashed := rfl

@[simp] theorem crashed_stopBegin (s : St) (f : Bool) : (stopBegin s f).crashed = s.crashed := by
  unfold stopBegin
  dsimp only
  split
  · rfl
  · rw [crashed_foldl]
    intro s a
    repeat (first | rfl | split | simp only [crashed_sendDpr])

@[simp] theorem crashed_stopFinal (s : St) : (stopFinal s).crashed = s.crashed := by
  unfold stopFinal
  rw [crashed_foldl]
  intro s a
  simp

end DV.Node
