/-
  "No socket is left open": in every reachable state, every connection object whose socket has not been closed is
  registered in `node.connections`.  Same shape as Proofs/NodeLive.lean (worker threads), for the socket flag; the
  difference is where the flag is written: `close_connection_socket` closes the socket of a connection that is in
  `peer_sockets` (and, the tables being consistent, one that is not there is not registered and was closed before),
  `PeerConnection.close` does not touch the socket.
-/
import DV.Proofs.NodeLive
import DV.Proofs.NodeSKV
namespace DV.Node
set_option linter.unusedSimpArgs false

def SInv (s : St) : Prop := ∀ p ∈ s.skv, p.2 = false → p.1 ∈ s.connections

def KLInv (s : St) : Prop := TInv s ∧ SInv s ∧ PInv s


theorem KLInv_same {s s' : St} (h : KLInv s) (h1 : s'.connections = s.connections) (h2 : s'.peerSockets = s.peerSockets)
    (h3 : s'.halfReady = s.halfReady) (h4 : s'.socketPeers = s.socketPeers) (h5 : s'.skv = s.skv) (h6 : s'.pwk = s.pwk) :
    KLInv s' := by
  obtain ⟨a, b, c⟩ := h
  refine ⟨TInv_of_eq h1 h2 h3 h4 a, ?_, ?_⟩
  · unfold SInv; rw [h5, h1]; exact b
  · unfold PInv; rw [h6, h1]; exact c


macro "ksame" h:term : tactic => `(tactic| (refine KLInv_same $h ?_ ?_ ?_ ?_ ?_ ?_ <;> simp (disch := tame) [skv_modConn_tame]))


def SMono (s s' : St) : Prop := ∀ p ∈ s'.skv, p.2 = false → p ∈ s.skv


theorem SInv_mono {s s' : St} (h : SInv s) (hm : SMono s s') (hc : ∀ x ∈ s.connections, x ∈ s'.connections) : SInv s' := by
  intro p hp hf
  exact hc _ (h p (hm p hp hf) hf)


theorem SMono_modConn (s : St) (i : Nat) (f : Conn → Conn)
    (hf : ∀ c, (f c).id = c.id ∧ ((f c).sockClosed = false → c.sockClosed = false)) : SMono s (s.modConn i f) := by
  intro p hp hfalse
  simp only [St.skv, St.modConn, List.map_map, List.mem_map, Function.comp] at hp ⊢
  obtain ⟨c, hc, rfl⟩ := hp
  refine ⟨c, hc, ?_⟩
  by_cases hi : (c.id == i) = true
  · simp only [hi, if_true] at hfalse ⊢
    rw [(hf c).1, hfalse, (hf c).2 hfalse]
  · simp only [hi] at hfalse ⊢
    rfl


theorem KLInv_connClose (s : St) (cid : Nat) (b : Bool) (h : KLInv s) : KLInv (connClose s cid b) := by
  obtain ⟨a, w, p⟩ := h
  refine ⟨TInv_connClose s cid b a, ?_, ?_⟩
  · unfold SInv; rw [skv_connClose, connections_connClose]; exact w
  · unfold PInv; rw [pwk_connClose, connections_connClose]; exact p


def sclosedAt (s : St) (cid : Nat) : Prop := ∀ p ∈ s.skv, p.1 = cid → p.2 = true


theorem sclosedAt_of_unregistered {s : St} (h : SInv s) {cid : Nat} (hc : cid ∉ s.connections) : sclosedAt s cid := by
  intro p hp hid
  cases hb : p.2 with
  | true => rfl
  | false => exact absurd (hid ▸ h p hp hb) hc


/-- `close_connection_socket` on a connection that is in `peer_sockets`: its socket is closed -/
theorem sclosedAt_closeSocket (s : St) (cid : Nat) (b : Bool) :
    sclosedAt (connClose (s.modConn cid fun c => { c with sockClosed := true }) cid b) cid := by
  intro p hp hid
  rw [skv_connClose] at hp
  simp only [St.skv, St.modConn, List.map_map, List.mem_map, Function.comp] at hp
  obtain ⟨c, _, rfl⟩ := hp
  by_cases hi : (c.id == cid) = true
  · simp only [hi, if_true]
  · simp only [hi] at hid ⊢
    exact absurd (by simpa using hid) hi

theorem SMono_closeSocket (s : St) (cid : Nat) :
    SMono s (s.modConn cid fun c => { c with sockClosed := true }) :=
  SMono_modConn s cid _ (by intro c; exact ⟨rfl, fun h => by simp at h⟩)


theorem KLInv_removePeerConnection (hk : Config.removeCleansTables = true) (s : St) (cid : Nat) (r : Reason) (h : KLInv s)
    (hst : sclosedAt s cid) : KLInv (removePeerConnection s cid r) := by
  obtain ⟨a, w, p⟩ := h
  refine ⟨TInv_removePeerConnection hk s cid r a, ?_, ?_⟩
  · intro q hq hf
    rw [skv_removePeerConnection] at hq
    have hin := w q hq hf
    rcases removePeerConnection_connections s cid r with ⟨h1, _⟩ | h1
    · rw [h1]; exact hin
    · rw [h1, mem_erase_iff]
      refine ⟨hin, ?_⟩
      intro hid
      have := hst q hq hid
      rw [hf] at this
      exact Bool.noConfusion this
  · intro k hk
    obtain ⟨hk1, hk2⟩ := removePeerConnection_pwk s cid r k hk
    have hin := p k hk1
    rcases removePeerConnection_connections s cid r with ⟨h1, _⟩ | h1
    · rw [h1]; exact hin
    · rw [h1, mem_erase_iff]
      refine ⟨hin, ?_⟩
      rcases hk2 with hk2 | hk2
      · exact hk2
      · intro hid
        -- `conn? cid = none`: then the connection list was left alone (first case), contradiction is not needed:
        -- erase of an id … still need k ≠ cid; use the table: none ⇒ connections unchanged
        have := removePeerConnection_connections s cid r
        unfold removePeerConnection at h1
        simp only [hk2] at h1
        -- h1 : s.connections = erase s.connections cid
        have hmem : k ∈ erase s.connections cid := h1 ▸ hin
        rw [mem_erase_iff] at hmem
        exact hmem.2 hid


theorem KLInv_closeConnectionSocket (hk : Config.removeCleansTables = true) (s : St) (cid : Nat) (r : Reason) (h : KLInv s) :
    KLInv (closeConnectionSocket s cid r) := by
  unfold closeConnectionSocket
  split
  · apply KLInv_removePeerConnection hk
    · apply KLInv_connClose
      obtain ⟨a, w, p⟩ := h
      exact ⟨TInv_of_eq rfl rfl rfl rfl a, SInv_mono w (SMono_closeSocket s cid) (fun x hx => hx), p⟩
    · exact sclosedAt_closeSocket _ _ _
  · rename_i hc
    apply KLInv_removePeerConnection hk _ _ _ h
    apply sclosedAt_of_unregistered h.2.1
    rw [h.1.1]
    intro hin
    exact hc (by simpa using hin)

theorem add_skv (hr : Config.rejectStopsWorkers = true) (s : St) (c : Conn) :
    ((addPeerConnection s c).1.connections = s.connections ∧
      ∀ p ∈ (addPeerConnection s c).1.skv, p.2 = false → p ∈ s.skv) ∨
    ((addPeerConnection s c).1.connections = s.connections ++ [c.id] ∧
      (addPeerConnection s c).1.skv = s.skv ++ [(c.id, c.sockClosed)]) := by
  have refused : ∀ p ∈ ({ s with conns := s.conns ++ [c] }.modConn c.id fun x =>
      { x with sockClosed := true, hasSocket := false, state := .closed, workersStopped := true }).skv, p.2 = false → p ∈ s.skv := by
    intro p hp hf
    have h1 := SMono_modConn { s with conns := s.conns ++ [c] } c.id
      (fun x => { x with sockClosed := true, hasSocket := false, state := .closed, workersStopped := true })
      (by intro c; exact ⟨rfl, fun h => by simp at h⟩) p hp hf
    -- p is a running entry of `conns ++ [c]`; were it the new object, the update would have stopped it
    simp only [St.skv, List.map_append, List.mem_append, List.map_cons, List.map_nil, List.mem_singleton] at h1
    rcases h1 with h1 | h1
    · exact h1
    · exfalso
      have key : sclosedAt ({ s with conns := s.conns ++ [c] }.modConn c.id fun x =>
          { x with sockClosed := true, hasSocket := false, state := .closed, workersStopped := true }) c.id := by
        intro q hq hid
        simp only [St.skv, St.modConn, List.map_map, List.mem_map, Function.comp] at hq
        obtain ⟨d, _, rfl⟩ := hq
        by_cases hi : (d.id == c.id) = true
        · simp only [hi, if_true]
        · simp only [hi] at hid ⊢
          exact absurd (by simpa using hid) hi
      have := key p hp (by rw [h1])
      rw [hf] at this
      exact Bool.noConfusion this
  have hw : ∀ s1 : St, s1.conns = s.conns ++ [c] → s1.skv = s.skv ++ [(c.id, c.sockClosed)] := by
    intro s1 h1; simp [St.skv, h1]
  unfold addPeerConnection
  simp only [hr, if_true]
  repeat (first
    | exact Or.inl ⟨rfl, refused⟩
    | exact Or.inr ⟨rfl, hw _ rfl⟩
    | split
    | dsimp only)


theorem KLInv_addPeerConnection (hr : Config.rejectStopsWorkers = true) (s : St) (c : Conn) (h : KLInv s) :
    KLInv (addPeerConnection s c).1 := by
  obtain ⟨a, w, p⟩ := h
  refine ⟨TInv_addPeerConnection s c a, ?_, ?_⟩
  · rcases add_skv hr s c with ⟨h1, h2⟩ | ⟨h1, h2⟩
    · intro q hq hf
      rw [h1]
      exact w q (h2 q hq hf) hf
    · intro q hq hf
      rw [h1]
      rw [h2] at hq
      rcases List.mem_append.mp hq with hq | hq
      · exact List.mem_append_left _ (w q hq hf)
      · rw [List.mem_singleton.mp hq]
        exact List.mem_append_right _ (List.mem_singleton.mpr rfl)
  · intro k hk
    rw [pwk_addPeerConnection] at hk
    have := p k hk
    rcases add_skv hr s c with ⟨h1, _⟩ | ⟨h1, _⟩
    · rw [h1]; exact this
    · rw [h1]; exact List.mem_append_left _ this


theorem KLInv_of {s s' : St} (h : KLInv s) (hT : TInv s') (h1 : s'.connections = s.connections) (h5 : s'.skv = s.skv)
    (h6 : s'.pwk = s.pwk) : KLInv s' := by
  obtain ⟨_, b, c⟩ := h
  refine ⟨hT, ?_, ?_⟩
  · unfold SInv; rw [h5, h1]; exact b
  · unfold PInv; rw [h6, h1]; exact c


theorem KLInv_foldl {α : Type} (f : St → α → St) (hf : ∀ s a, KLInv s → KLInv (f s a)) (l : List α) (s : St) (h : KLInv s) :
    KLInv (l.foldl f s) := by
  induction l generalizing s with
  | nil => exact h
  | cons a l ih => exact ih _ (hf s a h)


theorem KLInv_sendMessage (s : St) (cid : Nat) (m : AMsg) (b : Bool) (h : KLInv s) : KLInv (sendMessage s cid m b).1 := by
  ksame h


theorem KLInv_sendCer (s : St) (cid : Nat) (h : KLInv s) : KLInv (sendCer s cid) := by ksame h

theorem KLInv_sendDwr (s : St) (cid : Nat) (h : KLInv s) : KLInv (sendDwr s cid) := by ksame h

theorem KLInv_sendDpr (s : St) (cid : Nat) (h : KLInv s) : KLInv (sendDpr s cid) := by ksame h

theorem KLInv_flagReady (s : St) (cid : Nat) (h : KLInv s) : KLInv (flagConnectionAsReady s cid) := by ksame h

theorem KLInv_crashReader (s : St) (cid : Nat) (e : String) (h : KLInv s) : KLInv (crashReader s cid e) := by
  refine KLInv_same h rfl rfl rfl rfl ?_ rfl
  exact skv_modConn_tame _ _ _ (by tame)


theorem KLInv_assignPeerConnection (s : St) (cid : Nat) (h : KLInv s) : KLInv (assignPeerConnection s cid) :=
  KLInv_of h (TInv_assignPeerConnection s cid h.1) (by simp) (by simp) (by simp)


theorem KLInv_cerNameAndElect (s : St) (cid : Nat) (hn : String) (h : KLInv s) : KLInv (cerNameAndElect s cid hn).1 := by
  unfold cerNameAndElect
  have hf : ∀ (l : List Conn) (s : St), KLInv s → KLInv (l.foldl (fun s o => connClose s o.id true) s) :=
    fun l s hs => KLInv_foldl (fun s (o : Conn) => connClose s o.id true) (fun s a hs => KLInv_connClose s a.id true hs) l s hs
  have hm : ∀ f : Conn → Conn, (∀ c, (f c).id = c.id ∧ (f c).sockClosed = c.sockClosed) → KLInv (s.modConn cid f) :=
    fun f hf' => KLInv_same h rfl rfl rfl rfl (skv_modConn_tame _ _ _ hf') rfl
  dsimp only
  repeat (first | exact h | exact hm _ (by tame) | (apply hf) | split)


/-! ### the receive path -/


set_option maxHeartbeats 1000000 in
theorem KLInv_receiveCer (s : St) (cid : Nat) (m : AMsg) (info : MsgInfo) (h : KLInv s) : KLInv (receiveCer s cid m info).1 := by
  unfold receiveCer
  have he := fun hn => KLInv_cerNameAndElect s cid hn h
  have hm : ∀ (s : St) (f : Conn → Conn), KLInv s → (∀ c, (f c).id = c.id ∧ (f c).sockClosed = c.sockClosed) → KLInv (s.modConn cid f) :=
    fun s f hs hf' => KLInv_same hs rfl rfl rfl rfl (skv_modConn_tame _ _ _ hf') rfl
  repeat (first
    | exact h
    | exact KLInv_sendMessage _ _ _ _ (hm _ _ h (by tame))
    | exact KLInv_sendMessage _ _ _ _ (he _)
    | exact KLInv_sendMessage _ _ _ _ (hm _ _ (he _) (by tame))
    | exact KLInv_sendMessage _ _ _ _ (KLInv_flagReady _ _ (KLInv_assignPeerConnection _ _ (hm _ _ (he _) (by tame))))
    | split
    | exact hm _ _ (he _) (by tame)
    | dsimp only)


theorem KLInv_receiveCea (hk : Config.removeCleansTables = true) (s : St) (cid : Nat) (m : AMsg) (h : KLInv s) :
    KLInv (receiveCea s cid m).1 := by
  unfold receiveCea
  have hm : ∀ (f : Conn → Conn), (∀ c, (f c).id = c.id ∧ (f c).sockClosed = c.sockClosed) → KLInv (s.modConn cid f) :=
    fun f hf' => KLInv_same h rfl rfl rfl rfl (skv_modConn_tame _ _ _ hf') rfl
  repeat (first
    | exact h
    | exact KLInv_closeConnectionSocket hk _ _ _ h
    | exact KLInv_flagReady _ _ (KLInv_assignPeerConnection _ _ (hm _ (by tame)))
    | split
    | dsimp only)


@[simp] theorem skv_appReceiveRequest' (s : St) (ai : Nat) (m : AMsg) : (appReceiveRequest s ai m).1.skv = s.skv := by
  unfold appReceiveRequest
  repeat (first | rfl | split | dsimp only)


theorem KLInv_appReceiveRequest (s : St) (ai : Nat) (m : AMsg) (h : KLInv s) : KLInv (appReceiveRequest s ai m).1 := by
  refine KLInv_same h ?_ ?_ ?_ ?_ ?_ ?_ <;> simp


theorem KLInv_receiveAppRequest (s : St) (cid : Nat) (m : AMsg) (info : MsgInfo) (h : KLInv s) (hc : cid ∈ s.connections) :
    KLInv (receiveAppRequest s cid m info).1 := by
  unfold receiveAppRequest
  -- registering the request under the connection's id keeps the keys inside `connections`
  obtain ⟨a, w, p⟩ := h
  have hadd1 : KLInv { s with peerWaiting := s.peerWaiting.map fun (h, l) =>
      if h == cid then (h, if l.contains m.hbh then l else l ++ [m.hbh]) else (h, l) } := by
    refine ⟨TInv_of_eq rfl rfl rfl rfl a, w, ?_⟩
    intro k hk
    have e : ({ s with peerWaiting := s.peerWaiting.map fun (h, l) =>
        if h == cid then (h, if l.contains m.hbh then l else l ++ [m.hbh]) else (h, l) } : St).pwk = s.pwk :=
      map_fst_ite s.peerWaiting (fun x => x.1 == cid) (fun x => if x.2.contains m.hbh then x.2 else x.2 ++ [m.hbh])
    rw [e] at hk
    exact p k hk
  have hadd2 : KLInv { s with peerWaiting := s.peerWaiting ++ [(cid, [m.hbh])] } := by
    refine ⟨TInv_of_eq rfl rfl rfl rfl a, w, ?_⟩
    intro k hk
    simp only [St.pwk, List.map_append, List.mem_append, List.map_cons, List.map_nil, List.mem_singleton] at hk
    rcases hk with hk | hk
    · exact p k hk
    · rw [hk]; exact hc
  have h : KLInv s := ⟨a, w, p⟩
  repeat (first
    | exact h
    | exact KLInv_sendMessage _ _ _ _ h
    | exact KLInv_appReceiveRequest _ _ _ hadd1
    | exact KLInv_appReceiveRequest _ _ _ hadd2
    | split
    | dsimp only)


theorem KLInv_handleByCommand (hk : Config.removeCleansTables = true) (s : St) (cid : Nat) (m : AMsg) (info : MsgInfo)
    (h : KLInv s) (hc : cid ∈ s.connections) : KLInv (handleByCommand s cid m info).1 := by
  unfold handleByCommand
  dsimp only
  have h1 : KLInv (if m.isRequest then
      match (s.conn? cid).bind (findConnectionPeer s) with
      | some pi => s.modPeer pi fun p => { p with requests := p.requests + 1 }
      | none => s
    else s) ∧ cid ∈ (if m.isRequest then
      match (s.conn? cid).bind (findConnectionPeer s) with
      | some pi => s.modPeer pi fun p => { p with requests := p.requests + 1 }
      | none => s
    else s).connections := by
    repeat (first | exact ⟨h, hc⟩ | exact ⟨KLInv_same h rfl rfl rfl rfl rfl rfl, hc⟩ | split)
  generalize (if m.isRequest then
      match (s.conn? cid).bind (findConnectionPeer s) with
      | some pi => s.modPeer pi fun p => { p with requests := p.requests + 1 }
      | none => s
    else s) = s1 at h1 ⊢
  obtain ⟨h1, hc1⟩ := h1
  repeat (first
    | exact KLInv_receiveCer _ _ _ _ h1
    | exact KLInv_receiveCea hk _ _ _ h1
    | exact KLInv_receiveAppRequest _ _ _ _ h1 hc1
    | split
    | ksame h1)


theorem KLD_receiveMessage (hk : Config.removeCleansTables = true) (s : St) (cid : Nat) (m : AMsg) (info : MsgInfo)
    (h : KLInv s) (hc : cid ∈ s.connections) : KLInv (receiveMessage s cid m info) ∧ D (receiveMessage s cid m info) cid := by
  unfold receiveMessage
  have h0 : KLInv (recordOrigin s cid m info) := by ksame h
  have hc0 : cid ∈ (recordOrigin s cid m info).connections := by simpa using hc
  generalize recordOrigin s cid m info = s0 at h0 hc0 ⊢
  have hb := KLInv_handleByCommand hk s0 cid m info h0 hc0
  have hd := D_handleByCommand s0 cid m info h0.1 hc0
  have d0 : D s0 cid := Or.inl hc0
  -- sending an answer / recording a crash changes neither registration nor connection states
  have keepS : ∀ (s1 : St) (a : AMsg) (b : Bool), KLInv s1 → D s1 cid → KLInv (sendMessage s1 cid a b).1 ∧ D (sendMessage s1 cid a b).1 cid :=
    fun s1 a b h1 d1 => ⟨KLInv_sendMessage _ _ _ _ h1, D_same d1 (by simp) (by simp)⟩
  have keepC : ∀ (s1 : St) (e : String), KLInv s1 → D s1 cid → KLInv (crashReader s1 cid e) ∧ D (crashReader s1 cid e) cid :=
    fun s1 e h1 d1 => ⟨KLInv_crashReader _ _ _ h1, D_same d1 rfl (by simp)⟩
  dsimp only
  repeat (first
    | exact ⟨h0, d0⟩
    | exact keepC _ _ h0 d0
    | exact keepS _ _ _ h0 d0
    | exact keepC _ _ (keepS _ _ _ h0 d0).1 (keepS _ _ _ h0 d0).2
    | split)
  all_goals (rename_i hh; rw [hh] at hb hd)
  · exact ⟨hb, hd⟩
  · repeat (first
      | exact ⟨hb, hd⟩
      | exact keepS _ _ _ hb hd
      | exact keepC _ _ (keepS _ _ _ hb hd).1 (keepS _ _ _ hb hd).2
      | split)


theorem KLD_dispatchMessage (hk : Config.removeCleansTables = true) (hg : Config.gateClosing = true)
    (s : St) (cid : Nat) (m : AMsg) (info : MsgInfo) (h : KLInv s) (hd : D s cid) :
    KLInv (dispatchMessage s cid m info) ∧ D (dispatchMessage s cid m info) cid := by
  rcases hd with hc | hcl
  · unfold dispatchMessage
    repeat (first | exact ⟨h, Or.inl hc⟩ | exact KLD_receiveMessage hk s cid m info h hc | split)
  · -- every object with this id is CLOSED: the gate drops the message
    have : dispatchMessage s cid m info = s := by
      unfold dispatchMessage
      cases hq : s.conn? cid with
      | none => rfl
      | some c =>
        have hmem : c ∈ s.conns := List.mem_of_find?_eq_some hq
        have hid : c.id = cid := by
          have := List.find?_some hq
          simpa using this
        have hst : c.state = .closed := hcl (c.id, c.state) (List.mem_map.mpr ⟨c, hmem, rfl⟩) hid
        simp [hst, hg]
    rw [this]
    exact ⟨h, Or.inr hcl⟩


theorem KLInv_pumpReader (hk : Config.removeCleansTables = true) (hg : Config.gateClosing = true)
    (infoOf : AMsg → MsgInfo) (s : St) (cid : Nat) (hW : WInv s) (h : KLInv s) : KLInv (pumpReader infoOf s cid) := by
  unfold pumpReader
  cases hq : s.conn? cid with
  | none => exact h
  | some c =>
    dsimp only
    split
    · exact h
    · rename_i hws
      split
      · exact h
      · -- the reader still runs, so the connection is registered
        have hmem : c ∈ s.conns := List.mem_of_find?_eq_some hq
        have hid : c.id = cid := by
          have := List.find?_some hq
          simpa using this
        have hrun : c.workersStopped = false := by
          cases hw : c.workersStopped with
          | false => rfl
          | true => simp [hw] at hws
        have hc : cid ∈ s.connections := by
          have := hW (c.id, c.workersStopped) (List.mem_map.mpr ⟨c, hmem, rfl⟩) hrun
          rw [← hid]; exact this
        have key : ∀ (l : List AMsg) (s1 : St), KLInv s1 → D s1 cid →
            KLInv (l.foldl (fun s m =>
              match s.conn? cid with
              | some c => if c.readerCrashed then s else dispatchMessage s cid m (infoOf m)
              | none => s) s1) := by
          intro l
          induction l with
          | nil => intro s1 h1 _; exact h1
          | cons a l ih =>
            intro s1 h1 d1
            rw [List.foldl_cons]
            have step : KLInv (match s1.conn? cid with
                | some c => if c.readerCrashed then s1 else dispatchMessage s1 cid a (infoOf a)
                | none => s1) ∧ D (match s1.conn? cid with
                | some c => if c.readerCrashed then s1 else dispatchMessage s1 cid a (infoOf a)
                | none => s1) cid := by
              repeat (first | exact ⟨h1, d1⟩ | exact KLD_dispatchMessage hk hg s1 cid a (infoOf a) h1 d1 | split)
            exact ih _ step.1 step.2
        apply key
        · exact KLInv_same h rfl rfl rfl rfl (skv_modConn_tame _ _ _ (by tame)) rfl
        · exact Or.inl hc


/-! ### timers, dialling, the I/O loop -/


theorem KLInv_tame {s : St} (h : KLInv s) (cid : Nat) (f : Conn → Conn)
    (hf : ∀ c, (f c).id = c.id ∧ (f c).sockClosed = c.sockClosed) : KLInv (s.modConn cid f) :=
  KLInv_same h rfl rfl rfl rfl (skv_modConn_tame _ _ _ hf) rfl


theorem KLInv_checkTimers (hk : Config.removeCleansTables = true) (s : St) (cid : Nat) (h : KLInv s) : KLInv (checkTimers s cid) := by
  unfold checkTimers
  repeat (first | exact h | exact KLInv_closeConnectionSocket hk _ _ _ h | exact KLInv_sendDwr _ _ h | split | dsimp only)


theorem KLInv_connectToPeer (hk : Config.removeCleansTables = true) (hr : Config.rejectStopsWorkers = true) (s : St) (pi : Nat) (h : KLInv s) : KLInv (connectToPeer s pi) := by
  unfold connectToPeer
  split
  · exact h
  · split
    · exact h
    · split
      · exact h
      · dsimp only
        have h1 : ∀ (c : Conn), KLInv ((addPeerConnection { s with dialPlan := s.dialPlan.drop 1, nextHbhSeed := s.nextHbhSeed + 1000 } c).1.emit (.dialled pi)) :=
          fun c => KLInv_same (KLInv_addPeerConnection hr { s with dialPlan := s.dialPlan.drop 1, nextHbhSeed := s.nextHbhSeed + 1000 } c
            (KLInv_same h rfl rfl rfl rfl rfl rfl)) rfl rfl rfl rfl rfl rfl
        repeat (first
          | exact KLInv_closeConnectionSocket hk _ _ _ (h1 _)
          | exact KLInv_same (h1 _) rfl rfl rfl rfl rfl rfl
          | exact KLInv_sendCer _ _ (KLInv_tame (h1 _) _ _ (by tame))
          | split)


theorem KLInv_reconnectStep (hk : Config.removeCleansTables = true) (hr : Config.rejectStopsWorkers = true) (s : St) (pi : Nat) (h : KLInv s) : KLInv (reconnectStep s pi) := by
  unfold reconnectStep
  repeat (first | exact h | exact KLInv_connectToPeer hk hr s pi h | split)


theorem KLInv_reconnectPeers (hk : Config.removeCleansTables = true) (hr : Config.rejectStopsWorkers = true) (s : St) (h : KLInv s) : KLInv (reconnectPeers s) := by
  unfold reconnectPeers
  split
  · exact h
  · exact KLInv_foldl _ (fun s a hs => KLInv_reconnectStep hk hr s a hs) _ _ h


theorem KLInv_handleInterrupt (hk : Config.removeCleansTables = true) (s : St) (h : KLInv s) : KLInv (handleInterrupt s) := by
  unfold handleInterrupt
  split
  · exact h
  · dsimp only
    have h1 : KLInv { s with pipe := ‹List Nat› } := KLInv_same h rfl rfl rfl rfl rfl rfl
    repeat (first | exact h1 | exact KLInv_closeConnectionSocket hk _ _ _ h1 | split)


theorem KLInv_handleAccept (hr : Config.rejectStopsWorkers = true) (s : St) (h : KLInv s) : KLInv (handleAccept s) := by
  unfold handleAccept
  exact KLInv_addPeerConnection hr { s with nextHbhSeed := s.nextHbhSeed + 1000 } _ (KLInv_same h rfl rfl rfl rfl rfl rfl)


theorem KLInv_handleReadable (hk : Config.removeCleansTables = true) (w : World) (cid : Nat) (h : KLInv w.st) :
    KLInv (handleReadable w cid).st := by
  unfold handleReadable
  have h1 : KLInv (w.popRx cid).1.st := by rw [popRx_st]; exact h
  repeat (first
    | exact h
    | exact h1
    | exact KLInv_connClose _ _ _ (KLInv_closeConnectionSocket hk _ _ _ h1)
    | exact KLInv_tame h1 _ _ (by tame)
    | split
    | dsimp only)


theorem KLInv_connectResult (hk : Config.removeCleansTables = true) (w : World) (cid : Nat) (c : Conn) (h : KLInv w.st) :
    KLInv (connectResult w cid c).1.st := by
  unfold connectResult
  dsimp only
  have hm : KLInv (w.st.modConn cid fun c => { c with state := .connected, established := w.st.now }) := KLInv_tame h _ _ (by tame)
  repeat (first
    | exact h
    | exact KLInv_connClose _ _ _ (KLInv_closeConnectionSocket hk _ _ _ h)
    | exact KLInv_sendCer _ _ hm
    | exact KLInv_sendCer _ _ (KLInv_same hm rfl rfl rfl rfl rfl rfl)
    | split)


theorem KLInv_flushWritable (hk : Config.removeCleansTables = true) (w : World) (cid : Nat) (h : KLInv w.st) :
    KLInv (flushWritable w cid).st := by
  unfold flushWritable
  have hf : ∀ (l : List AMsg) (s : St), KLInv s → KLInv (l.foldl (fun s m => s.emit (.wrote cid m)) s) :=
    fun l s hs => KLInv_foldl (fun s (m : AMsg) => s.emit (.wrote cid m)) (fun s a hs => KLInv_same hs rfl rfl rfl rfl rfl rfl) l s hs
  have h1 : KLInv (w.popTx cid).1.st := by rw [popTx_st]; exact h
  dsimp only
  split
  · exact h
  · split
    · split
      · exact KLInv_closeConnectionSocket hk _ _ _ h
      · exact h
    · split
      · exact h1
      · exact KLInv_connClose _ _ _ h1
      · have h2 := hf ‹Conn›.wbuf _ h1
        have h3 : KLInv ((List.foldl (fun s m => s.emit (.wrote cid m)) (w.popTx cid).1.st ‹Conn›.wbuf).modConn cid fun c => { c with wbuf := [] }) :=
          KLInv_tame h2 _ _ (by tame)
        repeat (first | exact h3 | exact KLInv_closeConnectionSocket hk _ _ _ h3 | split)


theorem KLInv_handleWritable (hk : Config.removeCleansTables = true) (w : World) (cid : Nat) (h : KLInv w.st) :
    KLInv (handleWritable w cid).st := by
  unfold handleWritable
  repeat (first
    | exact h
    | exact KLInv_connectResult hk _ _ _ h
    | exact KLInv_flushWritable hk _ _ (KLInv_connectResult hk _ _ _ h)
    | split
    | dsimp only)


theorem KLInv_foldlW {α : Type} (f : World → α → World) (hf : ∀ w a, KLInv w.st → KLInv (f w a).st) (l : List α) (w : World)
    (h : KLInv w.st) : KLInv (l.foldl f w).st := by
  induction l generalizing w with
  | nil => exact h
  | cons a l ih => exact ih _ (hf w a h)


theorem KLInv_ioIteration (hk : Config.removeCleansTables = true) (hr : Config.rejectStopsWorkers = true) (w : World) (h : KLInv w.st) : KLInv (ioIteration w).st := by
  unfold ioIteration
  dsimp only
  apply KLInv_reconnectPeers hk hr
  apply KLInv_foldl _ (fun s a hs => KLInv_checkTimers hk s a hs)
  apply KLInv_foldlW _ (fun w a hw => KLInv_handleWritable hk w a hw)
  apply KLInv_foldlW _ (fun w a hw => KLInv_handleReadable hk w a hw)
  repeat (first | exact h | exact KLInv_handleInterrupt hk _ h | (apply KLInv_handleAccept hr) | split)


/-! ### applications, pumps, stop -/


theorem KLInv_appRecvStep (hcc : Config.appConsumersCatch = true) (infoOf : AMsg → MsgInfo) (ai mx : Nat) (s : St) (m : AMsg)
    (h : KLInv s) : KLInv (appRecvStep infoOf ai mx s m) := by
  unfold appRecvStep
  simp only [hcc, Bool.or_true, if_true]
  repeat (first | exact h | split | dsimp only | ksame h)


theorem KLInv_pumpAppRecv (hcc : Config.appConsumersCatch = true) (infoOf : AMsg → MsgInfo) (s : St) (ai : Nat) (h : KLInv s) :
    KLInv (pumpAppRecv infoOf s ai) := by
  unfold pumpAppRecv
  repeat (first | exact h | exact KLInv_foldl _ (fun s a hs => KLInv_appRecvStep hcc infoOf ai _ s a hs) _ _ h | split)


theorem KLInv_appRespStep (hcc : Config.appConsumersCatch = true) (ai : Nat) (s : St) (m : AMsg) (h : KLInv s) :
    KLInv (appRespStep ai s m) := by
  unfold appRespStep
  simp only [hcc, Bool.or_true, if_true]
  repeat (first | exact h | split | dsimp only | ksame h)


theorem KLInv_appRespNones (ai : Nat) (s : St) (h : KLInv s) : KLInv (appRespNones ai s) := by
  unfold appRespNones
  repeat (first | exact h | exact KLInv_same h rfl rfl rfl rfl rfl rfl | split)


theorem KLInv_pumpAppResp (hcc : Config.appConsumersCatch = true) (s : St) (ai : Nat) (h : KLInv s) : KLInv (pumpAppResp s ai) := by
  unfold pumpAppResp
  repeat (first | exact h | exact KLInv_appRespNones _ _ (KLInv_foldl _ (fun s a hs => KLInv_appRespStep hcc ai s a hs) _ _ h) | split)


theorem KLInv_pumpWriter (s : St) (cid : Nat) (h : KLInv s) : KLInv (pumpWriter s cid) :=
  KLInv_same h (connections_pumpWriter ..) (peerSockets_pumpWriter ..) (halfReady_pumpWriter ..) (socketPeers_pumpWriter ..)
    (skv_pumpWriter ..) (pwk_pumpWriter ..)


/-- the socket invariant together with the worker invariant it leans on (a reader that still runs belongs to a
    registered connection) -/
def JInv (s : St) : Prop := LInv s ∧ KLInv s

theorem JInv_foldl {α : Type} (f : St → α → St) (hf : ∀ s a, JInv s → JInv (f s a)) (l : List α) (s : St) (h : JInv s) :
    JInv (l.foldl f s) := by
  induction l generalizing s with
  | nil => exact h
  | cons a l ih => exact ih _ (hf s a h)

theorem JInv_pumpAll (hk : Config.removeCleansTables = true) (hg : Config.gateClosing = true)
    (hcc : Config.appConsumersCatch = true) (infoOf : AMsg → MsgInfo)
    (s : St) (h : JInv s) : JInv (pumpAll infoOf s) := by
  unfold pumpAll
  dsimp only
  apply JInv_foldl
  · intro s ai hs
    exact ⟨LInv_pumpAppResp hcc _ _ (LInv_pumpAppRecv hcc infoOf _ _ hs.1),
           KLInv_pumpAppResp hcc _ _ (KLInv_pumpAppRecv hcc infoOf _ _ hs.2)⟩
  · apply JInv_foldl
    · intro s c hs
      have hr := JInv_foldl (fun s (_ : Nat) => pumpReader infoOf s c.id)
          (fun s _ hs => ⟨LInv_pumpReader hk hg infoOf s c.id hs.1, KLInv_pumpReader hk hg infoOf s c.id hs.1.2.1 hs.2⟩)
          (List.range ((s.conn? c.id).map (·.inQ.length) |>.getD 0)) s hs
      exact ⟨LInv_pumpWriter _ _ hr.1, KLInv_pumpWriter _ _ hr.2⟩
    · exact h


theorem JInv_settle (hk : Config.removeCleansTables = true) (hr : Config.rejectStopsWorkers = true)
    (hg : Config.gateClosing = true) (hcc : Config.appConsumersCatch = true) (infoOf : AMsg → MsgInfo) (n : Nat) (w : World)
    (h : JInv w.st) : JInv (settle infoOf n w).st := by
  induction n generalizing w with
  | zero => exact h
  | succ n ih =>
    unfold settle
    dsimp only
    have h1 : JInv (pumpAll infoOf (ioIteration w).st) :=
      JInv_pumpAll hk hg hcc infoOf _ ⟨LInv_ioIteration hk hr w h.1, KLInv_ioIteration hk hr w h.2⟩
    split
    · exact ih _ h1
    · exact h1


theorem KLInv_stopFinal (hk : Config.removeCleansTables = true) (s : St) (h : KLInv s) : KLInv (stopFinal s) := by
  unfold stopFinal
  exact KLInv_foldl _ (fun s a hs => KLInv_connClose _ _ _ (KLInv_closeConnectionSocket hk _ _ _ hs)) _ _ h


theorem KLInv_runHandler (infoOf : AMsg → MsgInfo) (s : St) (k : Nat) (h : KLInv s) : KLInv (runHandler infoOf s k) := by
  unfold runHandler
  repeat (first | exact h | split | dsimp only | ksame h)

end DV.Node
