/-
  Lifting an invariant of the threading applications' records to every step
  of the node: receive path, I/O loop, worker pumps, settle loop, API calls.
-/
import DV.Proofs.AppSlots
namespace DV.Node
set_option linter.unusedSimpArgs false

/-- a property of the application records and the running handler threads -/
abbrev TP := List TApp → List (Nat × AMsg) → Prop

def St.sat (P : TP) (s : St) : Prop := P s.tapps s.deferred

/-- `P` survives a request being put on an application's receive queue -/
def EnqStable (P : TP) : Prop :=
  ∀ (s : St) (ai : Nat) (m : AMsg), s.sat P → (s.modTApp ai fun a => { a with recvQ := a.recvQ ++ [m] }).sat P

theorem sat_of_eq {P : TP} {s s' : St} (h1 : s'.tapps = s.tapps) (h2 : s'.deferred = s.deferred) (h : s.sat P) : s'.sat P := by
  unfold St.sat at *; rw [h1, h2]; exact h

theorem sat_appReceiveRequest {P : TP} (hE : EnqStable P) (s : St) (ai : Nat) (m : AMsg) (h : s.sat P) :
    (appReceiveRequest s ai m).1.sat P := by
  unfold appReceiveRequest
  split
  · exact hE s ai m h
  · dsimp only
    split <;> exact sat_of_eq rfl rfl h

theorem sat_receiveAppRequest {P : TP} (hE : EnqStable P) (s : St) (cid : Nat) (m : AMsg) (info : MsgInfo) (h : s.sat P) :
    (receiveAppRequest s cid m info).1.sat P := by
  unfold receiveAppRequest
  repeat (first | exact h | exact sat_of_eq (tapps_sendMessage _ _ _ _) (deferred_sendMessage _ _ _ _) h | exact sat_appReceiveRequest hE _ _ _ (sat_of_eq rfl rfl h) | split | dsimp only)

theorem sat_handleByCommand {P : TP} (hE : EnqStable P) (s : St) (cid : Nat) (m : AMsg) (info : MsgInfo) (h : s.sat P) :
    (handleByCommand s cid m info).1.sat P := by
  unfold handleByCommand
  dsimp only
  have h1 : St.sat P (if m.isRequest then
      match (s.conn? cid).bind (findConnectionPeer s) with
      | some pi => s.modPeer pi fun p => { p with requests := p.requests + 1 }
      | none => s
    else s) := by
    repeat (first | exact h | exact sat_of_eq rfl rfl h | split)
  generalize (if m.isRequest then
      match (s.conn? cid).bind (findConnectionPeer s) with
      | some pi => s.modPeer pi fun p => { p with requests := p.requests + 1 }
      | none => s
    else s) = s1 at h1 ⊢
  repeat (first | exact sat_receiveAppRequest hE _ _ _ _ h1 | split | (refine sat_of_eq ?_ ?_ h1 <;> simp))

theorem sat_receiveMessage {P : TP} (hE : EnqStable P) (s : St) (cid : Nat) (m : AMsg) (info : MsgInfo) (h : s.sat P) :
    (receiveMessage s cid m info).sat P := by
  unfold receiveMessage
  have h0 : (recordOrigin s cid m info).sat P := sat_of_eq (by simp) (by simp) h
  generalize recordOrigin s cid m info = s0 at h0 ⊢
  have hcr : ∀ (s1 : St) (e : String), s1.sat P → (crashReader s1 cid e).sat P := fun s1 e h1 => sat_of_eq rfl rfl h1
  have hsm : ∀ (s1 : St) (a : AMsg) (b : Bool), s1.sat P → (sendMessage s1 cid a b).1.sat P :=
    fun s1 a b h1 => sat_of_eq (tapps_sendMessage _ _ _ _) (deferred_sendMessage _ _ _ _) h1
  have hb := sat_handleByCommand hE s0 cid m info h0
  dsimp only
  repeat (first | exact h0 | exact hcr _ _ h0 | exact hsm _ _ _ h0 | exact hcr _ _ (hsm _ _ _ h0) | split)
  all_goals (rename_i hh; rw [hh] at hb)
  · exact hb
  · repeat (first | exact hb | exact hsm _ _ _ hb | exact hcr _ _ (hsm _ _ _ hb) | split)

theorem sat_dispatchMessage {P : TP} (hE : EnqStable P) (s : St) (cid : Nat) (m : AMsg) (info : MsgInfo) (h : s.sat P) :
    (dispatchMessage s cid m info).sat P := by
  unfold dispatchMessage
  repeat (first | exact h | exact sat_receiveMessage hE s cid m info h | split)

theorem sat_foldl {P : TP} {α : Type} (f : St → α → St) (hf : ∀ s a, s.sat P → (f s a).sat P) (l : List α) (s : St) (h : s.sat P) :
    (l.foldl f s).sat P := by
  induction l generalizing s with
  | nil => exact h
  | cons a l ih => exact ih _ (hf s a h)

theorem sat_pumpReader {P : TP} (hE : EnqStable P) (infoOf : AMsg → MsgInfo) (s : St) (cid : Nat) (h : s.sat P) :
    (pumpReader infoOf s cid).sat P := by
  unfold pumpReader
  split
  · exact h
  · split
    · exact h
    · split
      · exact h
      · dsimp only
        apply sat_foldl
        · intro s a hs
          repeat (first | exact hs | exact sat_dispatchMessage hE s cid a (infoOf a) hs | split)
        · exact sat_of_eq rfl rfl h

theorem sat_pumpWriter {P : TP} (s : St) (cid : Nat) (h : s.sat P) : (pumpWriter s cid).sat P :=
  sat_of_eq (tapps_pumpWriter s cid) (deferred_pumpWriter s cid) h

theorem sat_ioIteration {P : TP} (w : World) (h : w.st.sat P) : (ioIteration w).st.sat P :=
  sat_of_eq (tapps_ioIteration w) (deferred_ioIteration w) h

/-- The worker pumps: readers and writers of every connection, then the
    consumers of every application. -/
theorem sat_pumpAll {P : TP} (hE : EnqStable P) (infoOf : AMsg → MsgInfo)
    (hR : ∀ s ai, s.sat P → (pumpAppRecv infoOf s ai).sat P) (hS : ∀ s ai, s.sat P → (pumpAppResp s ai).sat P)
    (s : St) (h : s.sat P) : (pumpAll infoOf s).sat P := by
  unfold pumpAll
  dsimp only
  apply sat_foldl
  · intro s ai hs
    exact hS _ _ (hR _ _ hs)
  · apply sat_foldl
    · intro s c hs
      apply sat_pumpWriter
      apply sat_foldl
      · intro s _ hs; exact sat_pumpReader hE infoOf s c.id hs
      · exact hs
    · exact h

theorem sat_settle {P : TP} (hE : EnqStable P) (infoOf : AMsg → MsgInfo)
    (hR : ∀ s ai, s.sat P → (pumpAppRecv infoOf s ai).sat P) (hS : ∀ s ai, s.sat P → (pumpAppResp s ai).sat P)
    (n : Nat) (w : World) (h : w.st.sat P) : (settle infoOf n w).st.sat P := by
  induction n generalizing w with
  | zero => exact h
  | succ n ih =>
    unfold settle
    dsimp only
    have h1 : (pumpAll infoOf (ioIteration w).st).sat P := sat_pumpAll hE infoOf hR hS _ (sat_ioIteration w h)
    split
    · exact ih _ h1
    · exact h1

end DV.Node
