/-
  Facts about `generate_avps_from_defs` (Model/Typed.lean) for flat objects:
  the AVPs produced are, in definition order, one per set scalar attribute and
  one per list element, with the definition's code, vendor and mandatory flag;
  undeclared AVPs follow unchanged.
-/
import DV.Model.Typed
namespace DV

/-- flags of an AVP made by `Avp.new`: V from the vendor id, M from the override
    (1 = True, 2 = False) else the dictionary default, P only when asked -/
def newFlags (vendor m privOv : Nat) : Nat :=
  let f0 := setVendorBit 0 vendor
  let f1 := if m == 1 then f0 ||| flagM else f0
  if privOv == 1 then f1 ||| flagP else f1

theorem avpNew_spec (tc : TimeConsts) (dict : DTree) (code vendor : Nat) (value : Option SetArg) (mo po : Nat) (a : Avp)
    (h : avpNew tc dict code vendor value mo po = .ok a) :
    a.code = code ∧ a.vendor = vendor ∧
    ∃ e, lookupDict dict code vendor = some e ∧ a.flags = newFlags vendor (if mo ≠ 0 then mo else e.mand) po := by
  unfold avpNew at h
  cases hl : lookupDict dict code vendor with
  | none => simp [hl] at h
  | some e =>
    simp only [hl] at h
    split at h
    · contradiction
    · injection h with h
      subst h
      exact ⟨rfl, rfl, e, rfl, rfl⟩

theorem avpNewGrouped_spec (tc : TimeConsts) (dict : DTree) (code vendor mo : Nat) (subs : List Avp) (a : Avp)
    (h : avpNewGrouped tc dict code vendor mo subs = .ok a) :
    a.code = code ∧ a.vendor = vendor ∧
    (∃ e, lookupDict dict code vendor = some e ∧ a.flags = newFlags vendor (if mo ≠ 0 then mo else e.mand) 0) ∧
    encodeAvps subs = .ok a.payload := by
  unfold avpNewGrouped at h
  split at h
  · contradiction
  · rename_i a0 ha0
    obtain ⟨h1, h2, h3⟩ := avpNew_spec _ _ _ _ _ _ _ _ ha0
    split at h
    · split at h
      · split at h
        · rename_i b hb
          injection h with h; subst h
          exact ⟨h1, h2, h3, hb⟩
        · contradiction
      · contradiction
    · contradiction

/-- how many AVPs an attribute value stands for -/
def valCount : FVal → Nat
  | .unset => 0
  | .scalar _ => 1
  | .list vs => vs.length
  | .obj _ _ _ => 1
  | .objs os => os.length
  | .classObj _ => 1

/-- the value fits the definition: plain values under a definition without
    container class, objects under one with -/
def WellTyped (d : AttrDef) : FVal → Prop
  | .unset => True
  | .scalar (.avps _) => False
  | .scalar _ => d.tclass = none
  | .list _ => d.tclass = none
  | .obj _ _ _ => d.tclass.isSome = true
  | .objs _ => d.tclass.isSome = true
  | .classObj _ => d.tclass.isSome = true

def fieldOf (fields : List (Nat × FVal)) (d : AttrDef) : FVal :=
  match fields.find? (fun p => p.1 == d.attr) with
  | some p => p.2
  | none => FVal.unset

/-- the AVP carries `d`'s code, vendor and flags (V from the vendor id, M from
    the definition's override else the dictionary default, P clear) -/
def CarriesDef (dict : DTree) (d : AttrDef) (a : Avp) : Prop :=
  a.code = d.code ∧ a.vendor = d.vendor ∧
  ∃ e, lookupDict dict d.code d.vendor = some e ∧ a.flags = newFlags d.vendor (if d.mand ≠ 0 then d.mand else e.mand) 0

theorem mapM_carries {α : Type} (dict : DTree) (d : AttrDef) (f : α → R Avp)
    (hf : ∀ x a, f x = .ok a → CarriesDef dict d a) (vs : List α) (out : List Avp)
    (h : vs.mapM f = .ok out) : out.length = vs.length ∧ ∀ a ∈ out, CarriesDef dict d a := by
  induction vs generalizing out with
  | nil =>
    simp only [List.mapM_nil, pure, Except.pure] at h
    injection h with h; subst h
    exact ⟨rfl, by simp⟩
  | cons v vs ih =>
    rw [List.mapM_cons] at h
    simp only [bind, Except.bind, pure, Except.pure] at h
    split at h
    · contradiction
    · rename_i a ha
      split at h
      · contradiction
      · rename_i rest hrest
        injection h with h; subst h
        have := ih rest hrest
        refine ⟨by simp [this.1], ?_⟩
        intro x hx
        rcases List.mem_cons.mp hx with rfl | hx
        · exact hf _ _ ha
        · exact this.2 x hx

theorem carries_new {tc : TimeConsts} {dict : DTree} {d : AttrDef} {v : Option SetArg} {a : Avp}
    (h : avpNew tc dict d.code d.vendor v d.mand 0 = .ok a) : CarriesDef dict d a := by
  obtain ⟨h1, h2, h3⟩ := avpNew_spec _ _ _ _ _ _ _ _ h
  exact ⟨h1, h2, h3⟩

theorem carries_grouped {tc : TimeConsts} {dict : DTree} {d : AttrDef} {subs : List Avp} {a : Avp}
    (h : avpNewGrouped tc dict d.code d.vendor d.mand subs = .ok a) : CarriesDef dict d a := by
  obtain ⟨h1, h2, h3, _⟩ := avpNewGrouped_spec _ _ _ _ _ _ _ h
  exact ⟨h1, h2, h3⟩

theorem genObjs_spec (tc : TimeConsts) (dict : DTree) (cs : List ClassDef) (fuel : Nat) (d : AttrDef) (os : List FVal)
    (out : List Avp) (h : genObjs tc dict cs fuel d os = .ok out) :
    out.length = os.length ∧ ∀ a ∈ out, CarriesDef dict d a := by
  induction os generalizing out with
  | nil =>
    simp only [genObjs] at h
    injection h with h; subst h
    exact ⟨rfl, by simp⟩
  | cons o os ih =>
    simp only [genObjs, bind, Except.bind, pure, Except.pure] at h
    split at h
    · contradiction
    · split at h
      · contradiction
      · split at h
        · contradiction
        · rename_i a ha
          split at h
          · contradiction
          · rename_i more hmore
            injection h with h; subst h
            have := ih more hmore
            refine ⟨by simp [this.1], ?_⟩
            intro x hx
            rcases List.mem_cons.mp hx with rfl | hx
            · exact carries_grouped ha
            · exact this.2 x hx

/-- One definition: every AVP generated for it carries its code, vendor and
    flags; for a value that fits the definition their number is one per value /
    element / object. -/
theorem genOne_spec (tc : TimeConsts) (dict : DTree) (cs : List ClassDef) (fuel : Nat) (d : AttrDef) (v : FVal)
    (out : List Avp) (h : genOne tc dict cs fuel d v = .ok out) :
    (∀ a ∈ out, CarriesDef dict d a) ∧ (WellTyped d v → out.length = valCount v) := by
  cases v with
  | unset =>
    simp only [genOne] at h
    injection h with h; subst h
    exact ⟨by simp, fun _ => rfl⟩
  | scalar x =>
    cases x with
    | avps l =>
      simp only [genOne, bind, Except.bind, pure, Except.pure] at h
      refine ⟨?_, fun hw => absurd hw (by simp [WellTyped])⟩
      split at h
      · split at h
        · contradiction
        · rename_i a ha
          injection h with h; subst h
          intro x hx; simp at hx; subst hx; exact carries_grouped ha
      · exact (mapM_carries dict d _ (fun _ _ hx => carries_new hx) l out h).2
    | _ =>
      simp only [genOne, bind, Except.bind, pure, Except.pure] at h
      split at h
      · split at h
        · contradiction
        · rename_i a ha
          injection h with h; subst h
          exact ⟨by intro x hx; simp at hx; subst hx; exact carries_grouped ha, fun _ => rfl⟩
      · split at h
        · contradiction
        · rename_i a ha
          injection h with h; subst h
          exact ⟨by intro x hx; simp at hx; subst hx; exact carries_new ha, fun _ => rfl⟩
  | list vs =>
    simp only [genOne] at h
    split at h
    · have := mapM_carries dict d _ (fun _ _ hx => carries_grouped hx) vs out h
      exact ⟨this.2, fun _ => this.1⟩
    · have := mapM_carries dict d _ (fun _ _ hx => carries_new hx) vs out h
      exact ⟨this.2, fun _ => this.1⟩
  | objs os =>
    simp only [genOne] at h
    split at h
    · have := genObjs_spec tc dict cs fuel d os out h
      exact ⟨this.2, fun _ => this.1⟩
    · rename_i hn
      split at h
      · rename_i he
        injection h with h; subst h
        have : os = [] := by simpa using he
        subst this
        exact ⟨by simp, fun _ => rfl⟩
      · contradiction
  | obj cls fields additional =>
    simp only [genOne, bind, Except.bind, pure, Except.pure] at h
    split at h
    · split at h
      · contradiction
      · split at h
        · contradiction
        · split at h
          · contradiction
          · rename_i a ha
            injection h with h; subst h
            exact ⟨by intro x hx; simp at hx; subst hx; exact carries_grouped ha, fun _ => rfl⟩
    · contradiction
  | classObj cls =>
    simp only [genOne, bind, Except.bind, pure, Except.pure] at h
    split at h
    · split at h
      · contradiction
      · split at h
        · contradiction
        · split at h
          · contradiction
          · rename_i a ha
            injection h with h; subst h
            exact ⟨by intro x hx; simp at hx; subst hx; exact carries_grouped ha, fun _ => rfl⟩
    · contradiction

/-- `parts` lists, definition by definition, the AVPs generated for it -/
inductive PerDef (dict : DTree) (fields : List (Nat × FVal)) : List AttrDef → List (List Avp) → Prop
  | nil : PerDef dict fields [] []
  | cons (d : AttrDef) (ds : List AttrDef) (part : List Avp) (parts : List (List Avp)) :
      (∀ a ∈ part, CarriesDef dict d a) → (WellTyped d (fieldOf fields d) → part.length = valCount (fieldOf fields d)) →
      PerDef dict fields ds parts → PerDef dict fields (d :: ds) (part :: parts)

theorem genDefs_spec (tc : TimeConsts) (dict : DTree) (cs : List ClassDef) (fuel : Nat) (fields : List (Nat × FVal))
    (defs : List AttrDef) (out : List Avp) (h : genDefs tc dict cs fuel fields defs = .ok out) :
    ∃ parts, out = parts.flatten ∧ PerDef dict fields defs parts := by
  induction defs generalizing out with
  | nil =>
    simp only [genDefs] at h
    injection h with h; subst h
    exact ⟨[], rfl, .nil⟩
  | cons d ds ih =>
    simp only [genDefs, bind, Except.bind, pure, Except.pure] at h
    split at h
    · contradiction
    · rename_i here hhere
      split at h
      · contradiction
      · rename_i more hmore
        injection h with h; subst h
        obtain ⟨parts, hp, hper⟩ := ih more hmore
        have hone := genOne_spec tc dict cs fuel d (fieldOf fields d) here hhere
        exact ⟨here :: parts, by simp [hp], .cons d ds here parts hone.1 hone.2 hper⟩

/-- `generate_avps_from_defs` of an object of any class, any attribute values,
    any nesting below: the generated AVPs, definition by definition in
    definition order, then the undeclared AVPs unchanged. -/
theorem generate_spec (tc : TimeConsts) (dict : DTree) (cs : List ClassDef) (fuel cls : Nat) (c : ClassDef)
    (fields : List (Nat × FVal)) (additional : List Avp) (hc : findClass cs cls = some c)
    (out : List Avp) (h : generateFuel tc dict cs (fuel + 1) (.obj cls fields additional) = .ok out) :
    ∃ parts, out = parts.flatten ++ additional ∧ PerDef dict fields c.defs parts := by
  simp only [generateFuel, hc, bind, Except.bind, pure, Except.pure] at h
  split at h
  · contradiction
  · rename_i avps havps
    injection h with h; subst h
    obtain ⟨parts, hp, hper⟩ := genDefs_spec tc dict cs fuel fields c.defs avps havps
    exact ⟨parts, by rw [hp], hper⟩

/-- payload of an AVP made by `Avp.new` with a value: what the typed setter of
    the dictionary's type makes of it -/
theorem avpNew_payload (tc : TimeConsts) (dict : DTree) (code vendor : Nat) (arg : SetArg) (mo po : Nat) (a : Avp)
    (h : avpNew tc dict code vendor (some arg) mo po = .ok a) :
    ∃ e, lookupDict dict code vendor = some e ∧ setArg tc (Ty.ofTag e.ty) arg = .ok a.payload := by
  unfold avpNew at h
  cases hl : lookupDict dict code vendor with
  | none => simp [hl] at h
  | some e =>
    simp only [hl] at h
    refine ⟨e, rfl, ?_⟩
    cases hs : setArg tc (Ty.ofTag e.ty) arg with
    | error x => simp [hs] at h
    | ok b =>
      simp only [hs] at h
      injection h with h
      subst h
      rfl

/-- A set scalar attribute under a definition without container class: exactly
    one AVP, whose payload is the typed encoding of the value. -/
theorem genOne_scalar (tc : TimeConsts) (dict : DTree) (cs : List ClassDef) (fuel : Nat) (d : AttrDef) (v : Value)
    (hd : d.tclass = none) (hv : ∀ l, v ≠ .avps l) (out : List Avp) (h : genOne tc dict cs fuel d (.scalar v) = .ok out) :
    ∃ a e, out = [a] ∧ lookupDict dict d.code d.vendor = some e ∧
      setArg tc (Ty.ofTag e.ty) (scalarArg v) = .ok a.payload := by
  cases v with
  | avps l => exact absurd rfl (hv l)
  | _ =>
    simp only [genOne, hd, Option.isSome_none, Bool.false_eq_true, if_false, bind, Except.bind, pure, Except.pure] at h
    split at h
    · contradiction
    · rename_i a ha
      injection h with h; subst h
      obtain ⟨e, he, hp⟩ := avpNew_payload _ _ _ _ _ _ _ _ ha
      exact ⟨a, e, rfl, he, hp⟩

/-- A nested object under a container definition: exactly one grouped AVP whose
    payload is the encoding of what the same function generates for the nested
    object (so `generate_spec` applies again, to any depth). -/
theorem genOne_nested (tc : TimeConsts) (dict : DTree) (cs : List ClassDef) (fuel : Nat) (d : AttrDef)
    (cls : Nat) (fields : List (Nat × FVal)) (additional : List Avp) (out : List Avp)
    (h : genOne tc dict cs fuel d (.obj cls fields additional) = .ok out) :
    ∃ a subs, out = [a] ∧ generateFuel tc dict cs fuel (.obj cls fields additional) = .ok subs ∧
      encodeAvps subs = .ok a.payload := by
  simp only [genOne, bind, Except.bind, pure, Except.pure] at h
  split at h
  · split at h
    · contradiction
    · split at h
      · contradiction
      · rename_i subs hsubs
        split at h
        · contradiction
        · rename_i a ha
          injection h with h; subst h
          exact ⟨a, subs, rfl, hsubs, (avpNewGrouped_spec _ _ _ _ _ _ _ ha).2.2.2⟩
  · contradiction

/-- element by element: each object of a list attribute becomes one grouped AVP
    holding what is generated for it -/
inductive ObjsGen (tc : TimeConsts) (dict : DTree) (cs : List ClassDef) (fuel : Nat) : List FVal → List Avp → Prop
  | nil : ObjsGen tc dict cs fuel [] []
  | cons (o : FVal) (os : List FVal) (a : Avp) (as : List Avp) (subs : List Avp) :
      generateFuel tc dict cs fuel o = .ok subs → encodeAvps subs = .ok a.payload →
      ObjsGen tc dict cs fuel os as → ObjsGen tc dict cs fuel (o :: os) (a :: as)

theorem genObjs_nested (tc : TimeConsts) (dict : DTree) (cs : List ClassDef) (fuel : Nat) (d : AttrDef) (os : List FVal)
    (out : List Avp) (h : genObjs tc dict cs fuel d os = .ok out) : ObjsGen tc dict cs fuel os out := by
  induction os generalizing out with
  | nil =>
    simp only [genObjs] at h
    injection h with h; subst h
    exact .nil
  | cons o os ih =>
    simp only [genObjs, bind, Except.bind, pure, Except.pure] at h
    split at h
    · contradiction
    · split at h
      · contradiction
      · rename_i subs hsubs
        split at h
        · contradiction
        · rename_i a ha
          split at h
          · contradiction
          · rename_i more hmore
            injection h with h; subst h
            exact .cons o os a more subs hsubs (avpNewGrouped_spec _ _ _ _ _ _ _ ha).2.2.2 (ih more hmore)

end DV
