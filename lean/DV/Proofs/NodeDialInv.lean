/-
  `DInv` (Proofs/NodeDial.lean; text of NodePeerRecInv.lean with the invariant replaced) along the receive path,
  the worker pumps and the I/O loop.
-/
import DV.Proofs.NodeDial
import DV.Model.NodeOps
namespace DV.Node

variable {F : List Bool}

theorem dl_receiveAppRequest (s : St) (cid : Nat) (m : AMsg) (info : MsgInfo) (h : DInv F s) : DInv F (receiveAppRequest s cid m info).1 := by
  unfold receiveAppRequest
  repeat (first
    | dl_hyp | dl_triv | dl_lit | split | dsimp only
    | with_reducible apply dl_sendMessage
    | with_reducible apply dl_appReceiveRequest)

theorem dl_handleByCommand (s : St) (cid : Nat) (m : AMsg) (info : MsgInfo) (h : DInv F s) : DInv F (handleByCommand s cid m info).1 := by
  unfold handleByCommand
  repeat (first
    | dl_hyp | dl_triv | dl_lit | split | dsimp only
    | with_reducible apply dl_modPeer _ _ _ (by tamed)
    | with_reducible apply dl_receiveCer | with_reducible apply dl_receiveCea
    | with_reducible apply dl_receiveDwr | with_reducible apply dl_receiveDwa | with_reducible apply dl_receiveDpr
    | with_reducible apply dl_receiveDpa | with_reducible apply dl_receiveAppRequest | with_reducible apply dl_receiveAppAnswer)

theorem dl_receiveMessage (s : St) (cid : Nat) (m : AMsg) (info : MsgInfo) (h : DInv F s) : DInv F (receiveMessage s cid m info) := by
  unfold receiveMessage
  dsimp only
  have h1 : DInv F (recordOrigin s cid m info) := dl_recordOrigin _ _ _ _ h
  have hb := dl_handleByCommand (recordOrigin s cid m info) cid m info h1
  split
  · exact dl_crashReader _ _ _ h1
  · split
    · split
      · exact dl_sendMessage _ _ _ _ h1
      · exact dl_crashReader _ _ _ (dl_sendMessage _ _ _ _ h1)
    · split
      · split
        · exact dl_sendMessage _ _ _ _ h1
        · exact dl_crashReader _ _ _ (dl_sendMessage _ _ _ _ h1)
      · split
        · rename_i s' heq
          rw [heq] at hb; exact hb
        · rename_i s' e heq
          rw [heq] at hb
          split
          · exact hb
          · split
            · exact dl_sendMessage _ _ _ _ hb
            · exact dl_crashReader _ _ _ (dl_sendMessage _ _ _ _ hb)

theorem dl_dispatchMessage (s : St) (cid : Nat) (m : AMsg) (info : MsgInfo) (h : DInv F s) : DInv F (dispatchMessage s cid m info) := by
  unfold dispatchMessage
  repeat (first | exact h | exact dl_receiveMessage s cid m info h | split)

theorem dl_pumpReader (infoOf : AMsg → MsgInfo) (s : St) (cid : Nat) (h : DInv F s) : DInv F (pumpReader infoOf s cid) := by
  unfold pumpReader
  split
  · exact h
  · split
    · exact h
    · split
      · exact h
      · dsimp only
        apply dl_foldl
        · intro s a hs
          repeat (first | exact hs | exact dl_dispatchMessage s cid a (infoOf a) hs | split)
        · exact dl_of_eq rfl rfl h

theorem dl_pumpAll (infoOf : AMsg → MsgInfo) (s : St) (h : DInv F s) : DInv F (pumpAll infoOf s) := by
  unfold pumpAll
  dsimp only
  apply dl_foldl
  · intro s ai hs
    exact dl_pumpAppResp _ _ (dl_pumpAppRecv infoOf _ _ hs)
  · apply dl_foldl
    · intro s c hs
      apply dl_pumpWriter
      apply dl_foldl
      · intro s _ hs; exact dl_pumpReader infoOf s c.id hs
      · exact hs
    · exact h

theorem dl_handleReadable (w : World) (cid : Nat) (h : DInv F w.st) : DInv F (handleReadable w cid).st := by
  unfold handleReadable
  have hst : (w.popRx cid).1.st = w.st := popRx_st w cid
  split
  · exact h
  · dsimp only
    generalize hr : w.popRx cid = r at *
    obtain ⟨w1, ev⟩ := r
    dsimp only at *
    rw [← hst] at h
    split
    · exact h
    · exact h
    · exact dl_connClose _ _ _ (dl_closeConnectionSocket _ _ _ h)
    · exact dl_connClose _ _ _ (dl_closeConnectionSocket _ _ _ h)
    · exact dl_of_eq rfl rfl h
    · exact dl_of_eq rfl rfl h

theorem dl_ioIteration (w : World) (h : DInv F w.st) : DInv F (ioIteration w).st := by
  unfold ioIteration
  dsimp only
  generalize hW : List.foldl handleWritable _ _ = W
  have hWs : DInv F W.st := by
    rw [← hW]
    apply dl_foldlW _ (fun w a hw => dl_handleWritable w a hw)
    apply dl_foldlW _ (fun w a hw => dl_handleReadable w a hw)
    repeat (first
      | exact h
      | with_reducible apply dl_handleAccept
      | with_reducible apply dl_handleInterrupt
      | split
      | dsimp only)
  exact dl_reconnectPeers _ (dl_foldl _ (fun s a hs => dl_checkTimers s a hs) _ _ hWs)

theorem dl_settle (infoOf : AMsg → MsgInfo) (n : Nat) (w : World) (h : DInv F w.st) : DInv F (settle infoOf n w).st := by
  induction n generalizing w with
  | zero => exact h
  | succ n ih =>
    unfold settle
    dsimp only
    have h2 : DInv F ({ ioIteration w with st := pumpAll infoOf (ioIteration w).st } : World).st := dl_pumpAll infoOf _ (dl_ioIteration w h)
    split
    · exact ih _ h2
    · exact h2

end DV.Node
