/-
  The threading applications' queues, slot counters and consumer flags
  (`St.tapps`) and the list of running handler threads (`St.deferred`) are
  touched by nothing in the node outside the application's own code paths.
  (Same proofs as Proofs/NodeCrash.lean, for two other fields.)
-/
import DV.Proofs.NodeCrash
namespace DV.Node
set_option linter.unusedSimpArgs false

/-! ### `tapps` -/

@[simp] theorem tapps_emit (s : St) (o : Out) : (s.emit o).tapps = s.tapps := rfl

@[simp] theorem tapps_modConn (s : St) (i : Nat) (f : Conn → Conn) : (s.modConn i f).tapps = s.tapps := rfl

@[simp] theorem tapps_modPeer (s : St) (i : Nat) (f : Peer → Peer) : (s.modPeer i f).tapps = s.tapps := rfl

@[simp] theorem tapps_modApp (s : St) (i : Nat) (f : App → App) : (s.modApp i f).tapps = s.tapps := rfl

@[simp] theorem tapps_demand (s : St) (c : Nat) : (demandAttention s c).tapps = s.tapps := rfl


@[simp] theorem tapps_connClose (s : St) (cid : Nat) (b : Bool) : (connClose s cid b).tapps = s.tapps := by
  unfold connClose; split <;> rfl


@[simp] theorem tapps_removePeerConnection (s : St) (cid : Nat) (r : Reason) :
    (removePeerConnection s cid r).tapps = s.tapps := by
  unfold removePeerConnection
  cases hc : s.conn? cid with
  | none => rfl
  | some c =>
    simp only []
    repeat (first | rfl | split)


@[simp] theorem tapps_closeConnectionSocket (s : St) (cid : Nat) (r : Reason) :
    (closeConnectionSocket s cid r).tapps = s.tapps := by
  unfold closeConnectionSocket
  split <;> simp


@[simp] theorem tapps_assignPeerConnection (s : St) (cid : Nat) : (assignPeerConnection s cid).tapps = s.tapps := by
  unfold assignPeerConnection
  repeat (first | rfl | split | dsimp only)


@[simp] theorem tapps_flagReady (s : St) (cid : Nat) : (flagConnectionAsReady s cid).tapps = s.tapps := rfl


@[simp] theorem tapps_recordAnswerState (s : St) (cid : Nat) (m : AMsg) :
    (recordAnswerState s cid m).tapps = s.tapps := by
  unfold recordAnswerState
  repeat (first | rfl | split | dsimp only)


@[simp] theorem tapps_sendMessage (s : St) (cid : Nat) (m : AMsg) (b : Bool) :
    (sendMessage s cid m b).1.tapps = s.tapps := by
  unfold sendMessage
  repeat (first | rfl | split | dsimp only | simp only [tapps_recordAnswerState, tapps_modConn])


theorem tapps_foldl {α : Type} (f : St → α → St) (h : ∀ s a, (f s a).tapps = s.tapps) (l : List α) (s : St) :
    (l.foldl f s).tapps = s.tapps := by
  induction l generalizing s with
  | nil => rfl
  | cons a l ih => simp only [List.foldl_cons, ih, h]


@[simp] theorem tapps_cerNameAndElect (s : St) (cid : Nat) (h : String) : (cerNameAndElect s cid h).1.tapps = s.tapps := by
  unfold cerNameAndElect
  have hf : ∀ (l : List Conn) (s : St), (l.foldl (fun s o => connClose s o.id true) s).tapps = s.tapps :=
    fun l s => tapps_foldl _ (fun s a => tapps_connClose s a.id true) l s
  dsimp only
  repeat (first | rfl | split | simp only [hf, tapps_modConn])


@[simp] theorem tapps_receiveCer (s : St) (cid : Nat) (m : AMsg) (info : MsgInfo) :
    (receiveCer s cid m info).1.tapps = s.tapps := by
  unfold receiveCer
  repeat (first | rfl | split | dsimp only | simp only [tapps_sendMessage, tapps_modConn, tapps_flagReady, tapps_assignPeerConnection, tapps_cerNameAndElect])


@[simp] theorem tapps_receiveCea (s : St) (cid : Nat) (m : AMsg) : (receiveCea s cid m).1.tapps = s.tapps := by
  unfold receiveCea
  repeat (first | rfl | split | dsimp only | simp only [tapps_closeConnectionSocket, tapps_modConn, tapps_flagReady, tapps_assignPeerConnection])


@[simp] theorem tapps_receiveDpr (s : St) (cid : Nat) (m : AMsg) (info : MsgInfo) :
    (receiveDpr s cid m info).1.tapps = s.tapps := by
  unfold receiveDpr
  repeat (first | rfl | split | dsimp only | simp only [tapps_sendMessage, tapps_modConn, tapps_modPeer])


@[simp] theorem tapps_receiveDpa (s : St) (cid : Nat) : (receiveDpa s cid).tapps = s.tapps := rfl

@[simp] theorem tapps_receiveDwa (s : St) (cid : Nat) : (receiveDwa s cid).tapps = s.tapps := rfl


@[simp] theorem tapps_receiveDwr (s : St) (cid : Nat) (m : AMsg) (info : MsgInfo) :
    (receiveDwr s cid m info).1.tapps = s.tapps := by
  unfold receiveDwr
  simp only [tapps_sendMessage]


@[simp] theorem tapps_appReceiveAnswer (s : St) (ai : Nat) (m : AMsg) : (appReceiveAnswer s ai m).tapps = s.tapps := by
  unfold appReceiveAnswer
  repeat (first | rfl | split)


@[simp] theorem tapps_receiveAppAnswer (s : St) (m : AMsg) : (receiveAppAnswer s m).tapps = s.tapps := by
  unfold receiveAppAnswer
  repeat (first | rfl | split | simp only [tapps_appReceiveAnswer])


@[simp] theorem tapps_recordOrigin (s : St) (cid : Nat) (m : AMsg) (info : MsgInfo) :
    (recordOrigin s cid m info).tapps = s.tapps := by
  unfold recordOrigin
  split <;> rfl


theorem tapps_pumpWriter (s : St) (cid : Nat) : (pumpWriter s cid).tapps = s.tapps := by
  unfold pumpWriter
  repeat (first | rfl | split | (rw [tapps_foldl]; intro s a; rfl))


@[simp] theorem tapps_sendCer (s : St) (cid : Nat) : (sendCer s cid).tapps = s.tapps := by
  unfold sendCer
  repeat (first | rfl | split | dsimp only | simp only [tapps_sendMessage, tapps_modConn])


@[simp] theorem tapps_sendDwr (s : St) (cid : Nat) : (sendDwr s cid).tapps = s.tapps := by
  unfold sendDwr
  repeat (first | rfl | split | dsimp only | simp only [tapps_sendMessage, tapps_modConn])


@[simp] theorem tapps_sendDpr (s : St) (cid : Nat) : (sendDpr s cid).tapps = s.tapps := by
  unfold sendDpr
  repeat (first | rfl | split | dsimp only | simp only [tapps_sendMessage, tapps_modConn])


@[simp] theorem tapps_checkTimers (s : St) (cid : Nat) : (checkTimers s cid).tapps = s.tapps := by
  unfold checkTimers
  repeat (first | rfl | split | dsimp only | simp only [tapps_closeConnectionSocket, tapps_sendDwr])


@[simp] theorem tapps_addPeerConnection (s : St) (c : Conn) : (addPeerConnection s c).1.tapps = s.tapps := by
  unfold addPeerConnection
  repeat (first | rfl | split | dsimp only)


@[simp] theorem tapps_connectToPeer (s : St) (pi : Nat) : (connectToPeer s pi).tapps = s.tapps := by
  unfold connectToPeer
  repeat (first | rfl | split | dsimp only | simp only [tapps_closeConnectionSocket, tapps_removePeerConnection, tapps_sendCer, tapps_modConn, tapps_emit, tapps_addPeerConnection, tapps_demand])


@[simp] theorem tapps_reconnectStep (s : St) (pi : Nat) : (reconnectStep s pi).tapps = s.tapps := by
  unfold reconnectStep
  repeat (first | rfl | split | simp only [tapps_connectToPeer])


@[simp] theorem tapps_reconnectPeers (s : St) : (reconnectPeers s).tapps = s.tapps := by
  unfold reconnectPeers
  split
  · rfl
  · exact tapps_foldl _ tapps_reconnectStep _ _


@[simp] theorem tapps_handleInterrupt (s : St) : (handleInterrupt s).tapps = s.tapps := by
  unfold handleInterrupt
  repeat (first | rfl | split | dsimp only | simp only [tapps_closeConnectionSocket])


@[simp] theorem tapps_handleAccept (s : St) : (handleAccept s).tapps = s.tapps := by
  unfold handleAccept
  simp only [tapps_addPeerConnection]


@[simp] theorem tapps_handleReadable (w : World) (cid : Nat) : (handleReadable w cid).st.tapps = w.st.tapps := by
  unfold handleReadable
  repeat (first | rfl | split | dsimp only | simp only [tapps_closeConnectionSocket, tapps_connClose, popRx_st, tapps_modConn])


@[simp] theorem tapps_connectResult (w : World) (cid : Nat) (c : Conn) :
    (connectResult w cid c).1.st.tapps = w.st.tapps := by
  unfold connectResult
  repeat (first | rfl | split | dsimp only | simp only [tapps_closeConnectionSocket, tapps_connClose, tapps_modConn, tapps_sendCer, tapps_modPeer])


@[simp] theorem tapps_flushWritable (w : World) (cid : Nat) : (flushWritable w cid).st.tapps = w.st.tapps := by
  unfold flushWritable
  have hf : ∀ (l : List AMsg) (s : St), (l.foldl (fun s m => s.emit (.wrote cid m)) s).tapps = s.tapps :=
    fun l s => tapps_foldl (fun s m => s.emit (.wrote cid m)) (fun s a => rfl) l s
  repeat (first | rfl | split | dsimp only | simp only [tapps_closeConnectionSocket, tapps_connClose, popTx_st, tapps_modConn, hf])


@[simp] theorem tapps_handleWritable (w : World) (cid : Nat) : (handleWritable w cid).st.tapps = w.st.tapps := by
  unfold handleWritable
  repeat (first | rfl | split | dsimp only | simp only [tapps_connectResult, tapps_flushWritable])


theorem tapps_foldlW {α : Type} (f : World → α → World) (h : ∀ w a, (f w a).st.tapps = w.st.tapps) (l : List α) (w : World) :
    (l.foldl f w).st.tapps = w.st.tapps := by
  induction l generalizing w with
  | nil => rfl
  | cons a l ih => simp only [List.foldl_cons, ih, h]


@[simp] theorem tapps_ioIteration (w : World) : (ioIteration w).st.tapps = w.st.tapps := by
  unfold ioIteration
  simp only [tapps_reconnectPeers]
  rw [tapps_foldl _ tapps_checkTimers, tapps_foldlW _ tapps_handleWritable, tapps_foldlW _ tapps_handleReadable]
  repeat (first | rfl | split | dsimp only | simp only [tapps_handleAccept, tapps_handleInterrupt])


theorem tapps_routeAnswer (s s' : St) (m : AMsg) (cid : Nat) (h : routeAnswer s m = .ok (s', cid)) :
    s'.tapps = s.tapps := by
  unfold routeAnswer at h
  split at h
  · contradiction
  · dsimp only at h
    split at h
    · contradiction
    · split at h
      · injection h with h; injection h with h1 h2; subst h1; rfl
      · contradiction


@[simp] theorem tapps_routeAnswerSideEffect (s : St) (m : AMsg) : (routeAnswerSideEffect s m).tapps = s.tapps := by
  unfold routeAnswerSideEffect
  split <;> rfl


@[simp] theorem tapps_sendBuiltAnswer (s : St) (a : AMsg) (t : Bool) : (sendBuiltAnswer s a t).1.tapps = s.tapps := by
  unfold sendBuiltAnswer
  split
  · simp
  · rename_i h
    simp only [tapps_sendMessage, tapps_routeAnswer _ _ _ _ h]


@[simp] theorem tapps_appSendAnswer (s : St) (ai : Nat) (req : AMsg) (info : MsgInfo) (rc : Nat) :
    (appSendAnswer s ai req info rc).tapps = s.tapps := by
  unfold appSendAnswer
  dsimp only
  split
  · simp
  · rename_i h
    split <;> simp only [tapps_emit, tapps_sendMessage, tapps_routeAnswer _ _ _ _ h]


theorem tapps_routeRequest (s s' : St) (ai : Nat) (m m' : AMsg) (info : MsgInfo) (cid : Nat)
    (h : routeRequest s ai m info = .ok (s', cid, m')) : s'.tapps = s.tapps := by
  unfold routeRequest at h
  simp only [] at h
  repeat (first | contradiction | split at h)
  all_goals (injection h with h; injection h with h1 h2; subst h1; repeat (first | rfl | split))


@[simp] theorem tapps_appSendRequestBegin (s : St) (ai : Nat) (m : AMsg) (info : MsgInfo) :
    (appSendRequestBegin s ai m info).1.tapps = s.tapps := by
  unfold appSendRequestBegin
  dsimp only
  split
  · split <;> rfl
  · rename_i h
    simp only [tapps_sendMessage, tapps_modApp, tapps_routeRequest _ _ _ _ _ _ _ h]
    split <;> rfl


@[simp] theorem tapps_appSendRequestEnd (s : St) (ai : Nat) (hbh : Nat) : (appSendRequestEnd s ai hbh).1.tapps = s.tapps := rfl


@[simp] theorem tapps_stopBegin (s : St) (f : Bool) : (stopBegin s f).tapps = s.tapps := by
  unfold stopBegin
  dsimp only
  split
  · rfl
  · rw [tapps_foldl]
    intro s a
    repeat (first | rfl | split | simp only [tapps_sendDpr])


@[simp] theorem tapps_stopFinal (s : St) : (stopFinal s).tapps = s.tapps := by
  unfold stopFinal
  rw [tapps_foldl]
  intro s a
  simp

/-! ### `deferred` -/

@[simp] theorem deferred_emit (s : St) (o : Out) : (s.emit o).deferred = s.deferred := rfl

@[simp] theorem deferred_modConn (s : St) (i : Nat) (f : Conn → Conn) : (s.modConn i f).deferred = s.deferred := rfl

@[simp] theorem deferred_modPeer (s : St) (i : Nat) (f : Peer → Peer) : (s.modPeer i f).deferred = s.deferred := rfl

@[simp] theorem deferred_modApp (s : St) (i : Nat) (f : App → App) : (s.modApp i f).deferred = s.deferred := rfl

@[simp] theorem deferred_demand (s : St) (c : Nat) : (demandAttention s c).deferred = s.deferred := rfl


@[simp] theorem deferred_connClose (s : St) (cid : Nat) (b : Bool) : (connClose s cid b).deferred = s.deferred := by
  unfold connClose; split <;> rfl


@[simp] theorem deferred_removePeerConnection (s : St) (cid : Nat) (r : Reason) :
    (removePeerConnection s cid r).deferred = s.deferred := by
  unfold removePeerConnection
  cases hc : s.conn? cid with
  | none => rfl
  | some c =>
    simp only []
    repeat (first | rfl | split)


@[simp] theorem deferred_closeConnectionSocket (s : St) (cid : Nat) (r : Reason) :
    (closeConnectionSocket s cid r).deferred = s.deferred := by
  unfold closeConnectionSocket
  split <;> simp


@[simp] theorem deferred_assignPeerConnection (s : St) (cid : Nat) : (assignPeerConnection s cid).deferred = s.deferred := by
  unfold assignPeerConnection
  repeat (first | rfl | split | dsimp only)


@[simp] theorem deferred_flagReady (s : St) (cid : Nat) : (flagConnectionAsReady s cid).deferred = s.deferred := rfl


@[simp] theorem deferred_recordAnswerState (s : St) (cid : Nat) (m : AMsg) :
    (recordAnswerState s cid m).deferred = s.deferred := by
  unfold recordAnswerState
  repeat (first | rfl | split | dsimp only)


@[simp] theorem deferred_sendMessage (s : St) (cid : Nat) (m : AMsg) (b : Bool) :
    (sendMessage s cid m b).1.deferred = s.deferred := by
  unfold sendMessage
  repeat (first | rfl | split | dsimp only | simp only [deferred_recordAnswerState, deferred_modConn])


theorem deferred_foldl {α : Type} (f : St → α → St) (h : ∀ s a, (f s a).deferred = s.deferred) (l : List α) (s : St) :
    (l.foldl f s).deferred = s.deferred := by
  induction l generalizing s with
  | nil => rfl
  | cons a l ih => simp only [List.foldl_cons, ih, h]


@[simp] theorem deferred_cerNameAndElect (s : St) (cid : Nat) (h : String) : (cerNameAndElect s cid h).1.deferred = s.deferred := by
  unfold cerNameAndElect
  have hf : ∀ (l : List Conn) (s : St), (l.foldl (fun s o => connClose s o.id true) s).deferred = s.deferred :=
    fun l s => deferred_foldl _ (fun s a => deferred_connClose s a.id true) l s
  dsimp only
  repeat (first | rfl | split | simp only [hf, deferred_modConn])


@[simp] theorem deferred_receiveCer (s : St) (cid : Nat) (m : AMsg) (info : MsgInfo) :
    (receiveCer s cid m info).1.deferred = s.deferred := by
  unfold receiveCer
  repeat (first | rfl | split | dsimp only | simp only [deferred_sendMessage, deferred_modConn, deferred_flagReady, deferred_assignPeerConnection, deferred_cerNameAndElect])


@[simp] theorem deferred_receiveCea (s : St) (cid : Nat) (m : AMsg) : (receiveCea s cid m).1.deferred = s.deferred := by
  unfold receiveCea
  repeat (first | rfl | split | dsimp only | simp only [deferred_closeConnectionSocket, deferred_modConn, deferred_flagReady, deferred_assignPeerConnection])


@[simp] theorem deferred_receiveDpr (s : St) (cid : Nat) (m : AMsg) (info : MsgInfo) :
    (receiveDpr s cid m info).1.deferred = s.deferred := by
  unfold receiveDpr
  repeat (first | rfl | split | dsimp only | simp only [deferred_sendMessage, deferred_modConn, deferred_modPeer])


@[simp] theorem deferred_receiveDpa (s : St) (cid : Nat) : (receiveDpa s cid).deferred = s.deferred := rfl

@[simp] theorem deferred_receiveDwa (s : St) (cid : Nat) : (receiveDwa s cid).deferred = s.deferred := rfl


@[simp] theorem deferred_receiveDwr (s : St) (cid : Nat) (m : AMsg) (info : MsgInfo) :
    (receiveDwr s cid m info).1.deferred = s.deferred := by
  unfold receiveDwr
  simp only [deferred_sendMessage]


@[simp] theorem deferred_appReceiveAnswer (s : St) (ai : Nat) (m : AMsg) : (appReceiveAnswer s ai m).deferred = s.deferred := by
  unfold appReceiveAnswer
  repeat (first | rfl | split)


@[simp] theorem deferred_receiveAppAnswer (s : St) (m : AMsg) : (receiveAppAnswer s m).deferred = s.deferred := by
  unfold receiveAppAnswer
  repeat (first | rfl | split | simp only [deferred_appReceiveAnswer])


@[simp] theorem deferred_recordOrigin (s : St) (cid : Nat) (m : AMsg) (info : MsgInfo) :
    (recordOrigin s cid m info).deferred = s.deferred := by
  unfold recordOrigin
  split <;> rfl


theorem deferred_pumpWriter (s : St) (cid : Nat) : (pumpWriter s cid).deferred = s.deferred := by
  unfold pumpWriter
  repeat (first | rfl | split | (rw [deferred_foldl]; intro s a; rfl))


@[simp] theorem deferred_sendCer (s : St) (cid : Nat) : (sendCer s cid).deferred = s.deferred := by
  unfold sendCer
  repeat (first | rfl | split | dsimp only | simp only [deferred_sendMessage, deferred_modConn])


@[simp] theorem deferred_sendDwr (s : St) (cid : Nat) : (sendDwr s cid).deferred = s.deferred := by
  unfold sendDwr
  repeat (first | rfl | split | dsimp only | simp only [deferred_sendMessage, deferred_modConn])


@[simp] theorem deferred_sendDpr (s : St) (cid : Nat) : (sendDpr s cid).deferred = s.deferred := by
  unfold sendDpr
  repeat (first | rfl | split | dsimp only | simp only [deferred_sendMessage, deferred_modConn])


@[simp] theorem deferred_checkTimers (s : St) (cid : Nat) : (checkTimers s cid).deferred = s.deferred := by
  unfold checkTimers
  repeat (first | rfl | split | dsimp only | simp only [deferred_closeConnectionSocket, deferred_sendDwr])


@[simp] theorem deferred_addPeerConnection (s : St) (c : Conn) : (addPeerConnection s c).1.deferred = s.deferred := by
  unfold addPeerConnection
  repeat (first | rfl | split | dsimp only)


@[simp] theorem deferred_connectToPeer (s : St) (pi : Nat) : (connectToPeer s pi).deferred = s.deferred := by
  unfold connectToPeer
  repeat (first | rfl | split | dsimp only | simp only [deferred_closeConnectionSocket, deferred_removePeerConnection, deferred_sendCer, deferred_modConn, deferred_emit, deferred_addPeerConnection, deferred_demand])


@[simp] theorem deferred_reconnectStep (s : St) (pi : Nat) : (reconnectStep s pi).deferred = s.deferred := by
  unfold reconnectStep
  repeat (first | rfl | split | simp only [deferred_connectToPeer])


@[simp] theorem deferred_reconnectPeers (s : St) : (reconnectPeers s).deferred = s.deferred := by
  unfold reconnectPeers
  split
  · rfl
  · exact deferred_foldl _ deferred_reconnectStep _ _


@[simp] theorem deferred_handleInterrupt (s : St) : (handleInterrupt s).deferred = s.deferred := by
  unfold handleInterrupt
  repeat (first | rfl | split | dsimp only | simp only [deferred_closeConnectionSocket])


@[simp] theorem deferred_handleAccept (s : St) : (handleAccept s).deferred = s.deferred := by
  unfold handleAccept
  simp only [deferred_addPeerConnection]


@[simp] theorem deferred_handleReadable (w : World) (cid : Nat) : (handleReadable w cid).st.deferred = w.st.deferred := by
  unfold handleReadable
  repeat (first | rfl | split | dsimp only | simp only [deferred_closeConnectionSocket, deferred_connClose, popRx_st, deferred_modConn])


@[simp] theorem deferred_connectResult (w : World) (cid : Nat) (c : Conn) :
    (connectResult w cid c).1.st.deferred = w.st.deferred := by
  unfold connectResult
  repeat (first | rfl | split | dsimp only | simp only [deferred_closeConnectionSocket, deferred_connClose, deferred_modConn, deferred_sendCer, deferred_modPeer])


@[simp] theorem deferred_flushWritable (w : World) (cid : Nat) : (flushWritable w cid).st.deferred = w.st.deferred := by
  unfold flushWritable
  have hf : ∀ (l : List AMsg) (s : St), (l.foldl (fun s m => s.emit (.wrote cid m)) s).deferred = s.deferred :=
    fun l s => deferred_foldl (fun s m => s.emit (.wrote cid m)) (fun s a => rfl) l s
  repeat (first | rfl | split | dsimp only | simp only [deferred_closeConnectionSocket, deferred_connClose, popTx_st, deferred_modConn, hf])


@[simp] theorem deferred_handleWritable (w : World) (cid : Nat) : (handleWritable w cid).st.deferred = w.st.deferred := by
  unfold handleWritable
  repeat (first | rfl | split | dsimp only | simp only [deferred_connectResult, deferred_flushWritable])


theorem deferred_foldlW {α : Type} (f : World → α → World) (h : ∀ w a, (f w a).st.deferred = w.st.deferred) (l : List α) (w : World) :
    (l.foldl f w).st.deferred = w.st.deferred := by
  induction l generalizing w with
  | nil => rfl
  | cons a l ih => simp only [List.foldl_cons, ih, h]


@[simp] theorem deferred_ioIteration (w : World) : (ioIteration w).st.deferred = w.st.deferred := by
  unfold ioIteration
  simp only [deferred_reconnectPeers]
  rw [deferred_foldl _ deferred_checkTimers, deferred_foldlW _ deferred_handleWritable, deferred_foldlW _ deferred_handleReadable]
  repeat (first | rfl | split | dsimp only | simp only [deferred_handleAccept, deferred_handleInterrupt])


theorem deferred_routeAnswer (s s' : St) (m : AMsg) (cid : Nat) (h : routeAnswer s m = .ok (s', cid)) :
    s'.deferred = s.deferred := by
  unfold routeAnswer at h
  split at h
  · contradiction
  · dsimp only at h
    split at h
    · contradiction
    · split at h
      · injection h with h; injection h with h1 h2; subst h1; rfl
      · contradiction


@[simp] theorem deferred_routeAnswerSideEffect (s : St) (m : AMsg) : (routeAnswerSideEffect s m).deferred = s.deferred := by
  unfold routeAnswerSideEffect
  split <;> rfl


@[simp] theorem deferred_sendBuiltAnswer (s : St) (a : AMsg) (t : Bool) : (sendBuiltAnswer s a t).1.deferred = s.deferred := by
  unfold sendBuiltAnswer
  split
  · simp
  · rename_i h
    simp only [deferred_sendMessage, deferred_routeAnswer _ _ _ _ h]


@[simp] theorem deferred_appSendAnswer (s : St) (ai : Nat) (req : AMsg) (info : MsgInfo) (rc : Nat) :
    (appSendAnswer s ai req info rc).deferred = s.deferred := by
  unfold appSendAnswer
  dsimp only
  split
  · simp
  · rename_i h
    split <;> simp only [deferred_emit, deferred_sendMessage, deferred_routeAnswer _ _ _ _ h]


theorem deferred_routeRequest (s s' : St) (ai : Nat) (m m' : AMsg) (info : MsgInfo) (cid : Nat)
    (h : routeRequest s ai m info = .ok (s', cid, m')) : s'.deferred = s.deferred := by
  unfold routeRequest at h
  simp only [] at h
  repeat (first | contradiction | split at h)
  all_goals (injection h with h; injection h with h1 h2; subst h1; repeat (first | rfl | split))


@[simp] theorem deferred_appSendRequestBegin (s : St) (ai : Nat) (m : AMsg) (info : MsgInfo) :
    (appSendRequestBegin s ai m info).1.deferred = s.deferred := by
  unfold appSendRequestBegin
  dsimp only
  split
  · split <;> rfl
  · rename_i h
    simp only [deferred_sendMessage, deferred_modApp, deferred_routeRequest _ _ _ _ _ _ _ h]
    split <;> rfl


@[simp] theorem deferred_appSendRequestEnd (s : St) (ai : Nat) (hbh : Nat) : (appSendRequestEnd s ai hbh).1.deferred = s.deferred := rfl


@[simp] theorem deferred_stopBegin (s : St) (f : Bool) : (stopBegin s f).deferred = s.deferred := by
  unfold stopBegin
  dsimp only
  split
  · rfl
  · rw [deferred_foldl]
    intro s a
    repeat (first | rfl | split | simp only [deferred_sendDpr])


@[simp] theorem deferred_stopFinal (s : St) : (stopFinal s).deferred = s.deferred := by
  unfold stopFinal
  rw [deferred_foldl]
  intro s a
  simp

end DV.Node
