/-
  "At no time does the node hold two self-initiated connections to the same
  peer": the invariant behind it, stated on the three lists it is about — the
  configured peers, the connection objects, and `Node.connections` (the ids of
  the registered connections):

    every registered self-initiated connection is the `Peer.connection` of the
    peer its `node_name` resolves to.

  This file proves how the invariant behaves under each way the node model
  writes one of the three lists (there are eight: Model/Node.lean).
-/
import DV.Proofs.NodeSoundInv
namespace DV.Node

/-- `peerIdx?` on the list of peers -/
def pidx (peers : List Peer) (name : String) : Option Nat := peers.findIdx? (·.name == name)

structure KI (peers : List Peer) (conns : List Conn) (reg : List Nat) : Prop where
  /-- configured peers have names -/
  names : ∀ p ∈ peers, p.name ≠ ""
  /-- a connection's id is its position -/
  idpos : ∀ (i : Nat) (c : Conn), conns[i]? = some c → c.id = i
  /-- registered ids are ids of connection objects -/
  regLt : ∀ k ∈ reg, k < conns.length
  /-- dialled connections carry the name of the peer they were dialled for -/
  sendNamed : ∀ c ∈ conns, c.dir = .send → c.nodeName ≠ ""
  /-- a registered dialled connection is its peer's current connection -/
  own : ∀ c ∈ conns, c.dir = .send → c.id ∈ reg → ∀ i, pidx peers c.nodeName = some i →
    ∃ p, peers[i]? = some p ∧ p.connection = some c.id

def KInv (s : St) : Prop := KI s.peers s.conns s.connections

/-! ### peers -/

theorem pidx_mapIdx (peers : List Peer) (g : Nat → Peer → Peer) (hg : ∀ k p, (g k p).name = p.name) (n : String) :
    pidx (peers.mapIdx g) n = pidx peers n := by
  unfold pidx
  have : ∀ (l : List Peer) (off : Nat),
      (l.mapIdx fun k p => g (k + off) p).findIdx? (·.name == n) = l.findIdx? (·.name == n) := by
    intro l
    induction l with
    | nil => intro off; rfl
    | cons a l ih =>
      intro off
      simp only [List.mapIdx_cons, List.findIdx?_cons, Nat.zero_add, hg]
      split
      · rfl
      · have := ih (off + 1)
        simp only [Nat.add_assoc, Nat.add_comm 1 off] at this ⊢
        rw [this]
  simpa using this peers 0

theorem mem_mapIdx_name {peers : List Peer} {g : Nat → Peer → Peer} (hg : ∀ k p, (g k p).name = p.name)
    (hn : ∀ p ∈ peers, p.name ≠ "") : ∀ p ∈ peers.mapIdx g, p.name ≠ "" := by
  intro p hp
  simp only [List.mem_mapIdx] at hp
  obtain ⟨k, hk, rfl⟩ := hp
  rw [hg]; exact hn _ (List.getElem_mem hk)

/-- a peer record update that keeps name and connection -/
theorem KI.modPeer_tame {peers conns reg} (h : KI peers conns reg) (i : Nat) (f : Peer → Peer)
    (hf : ∀ p, (f p).name = p.name ∧ (f p).connection = p.connection) :
    KI (peers.mapIdx fun k p => if k == i then f p else p) conns reg := by
  have hg : ∀ k p, (if (k == i) = true then f p else p).name = p.name := by
    intro k p; split
    · exact (hf p).1
    · rfl
  refine ⟨mem_mapIdx_name hg h.names, h.idpos, h.regLt, h.sendNamed, ?_⟩
  intro c hc hd hr j hj
  rw [pidx_mapIdx _ _ hg] at hj
  obtain ⟨p, hp, hpc⟩ := h.own c hc hd hr j hj
  refine ⟨if (j == i) = true then f p else p, ?_, ?_⟩
  · simp only [List.getElem?_mapIdx, hp, Option.map_some]
  · split
    · rw [(hf p).2]; exact hpc
    · exact hpc

/-- peer `i`, if it has no connection, gets one: `connection := some cid` (a peer that has one keeps it) -/
theorem KI.modPeer_set {peers conns reg} (h : KI peers conns reg) (i : Nat) (f : Peer → Peer)
    (hfn : ∀ p, (f p).name = p.name)
    (hf : ∀ p, peers[i]? = some p → p.connection ≠ none → (f p).connection = p.connection) :
    KI (peers.mapIdx fun k p => if k == i then f p else p) conns reg := by
  have hg : ∀ k p, (if (k == i) = true then f p else p).name = p.name := by
    intro k p; split
    · exact hfn p
    · rfl
  refine ⟨mem_mapIdx_name hg h.names, h.idpos, h.regLt, h.sendNamed, ?_⟩
  intro c hc hd hr j hj
  rw [pidx_mapIdx _ _ hg] at hj
  obtain ⟨p, hp, hpc⟩ := h.own c hc hd hr j hj
  refine ⟨if (j == i) = true then f p else p, ?_, ?_⟩
  · simp only [List.getElem?_mapIdx, hp, Option.map_some]
  · split
    · rename_i hji
      have hji : j = i := by simpa using hji
      subst hji
      rw [hf p hp (by rw [hpc]; exact fun hh => by cases hh)]; exact hpc
    · exact hpc

/-- peer `i` loses its connection, which was `cid` (no longer registered) or none -/
theorem KI.modPeer_clear {peers conns reg} (h : KI peers conns reg) (i cid : Nat) (f : Peer → Peer)
    (hreg : cid ∉ reg) (hf : ∀ p, (f p).name = p.name)
    (hcur : ∀ p, peers[i]? = some p → p.connection = none ∨ p.connection = some cid) :
    KI (peers.mapIdx fun k p => if k == i then f p else p) conns reg := by
  have hg : ∀ k p, (if (k == i) = true then f p else p).name = p.name := by
    intro k p; split
    · exact hf p
    · rfl
  refine ⟨mem_mapIdx_name hg h.names, h.idpos, h.regLt, h.sendNamed, ?_⟩
  intro c hc hd hr j hj
  rw [pidx_mapIdx _ _ hg] at hj
  obtain ⟨p, hp, hpc⟩ := h.own c hc hd hr j hj
  refine ⟨if (j == i) = true then f p else p, ?_, ?_⟩
  · simp only [List.getElem?_mapIdx, hp, Option.map_some]
  · split
    · rename_i hji
      have hji : j = i := by simpa using hji
      subst hji
      rcases hcur p hp with h0 | h1
      · rw [h0] at hpc; cases hpc
      · rw [h1] at hpc
        injection hpc with hpc
        exact absurd (hpc ▸ hr) hreg
    · exact hpc

/-! ### connection objects -/

/-- a connection record update that keeps id, direction and node name -/
theorem KI.modConn_tame {peers conns reg} (h : KI peers conns reg) (id : Nat) (f : Conn → Conn)
    (hf : ∀ c, (f c).id = c.id ∧ (f c).dir = c.dir ∧ (f c).nodeName = c.nodeName) :
    KI peers (conns.map fun x => if x.id == id then f x else x) reg := by
  have hg : ∀ x : Conn, (if (x.id == id) = true then f x else x).id = x.id ∧
      (if (x.id == id) = true then f x else x).dir = x.dir ∧
      (if (x.id == id) = true then f x else x).nodeName = x.nodeName := by
    intro x; split
    · exact hf x
    · exact ⟨rfl, rfl, rfl⟩
  refine ⟨h.names, ?_, ?_, ?_, ?_⟩
  · intro k c hk
    simp only [List.getElem?_map] at hk
    cases hs : conns[k]? with
    | none => rw [hs] at hk; cases hk
    | some c0 =>
      rw [hs] at hk
      simp only [Option.map_some, Option.some.injEq] at hk
      subst hk
      rw [(hg c0).1]; exact h.idpos k c0 hs
  · intro k hk; simpa using h.regLt k hk
  · intro c hc hd
    simp only [List.mem_map] at hc
    obtain ⟨c0, hc0, rfl⟩ := hc
    rw [(hg c0).2.2]; rw [(hg c0).2.1] at hd
    exact h.sendNamed c0 hc0 hd
  · intro c hc hd hr j hj
    simp only [List.mem_map] at hc
    obtain ⟨c0, hc0, rfl⟩ := hc
    rw [(hg c0).2.2] at hj; rw [(hg c0).2.1] at hd; rw [(hg c0).1] at hr ⊢
    exact h.own c0 hc0 hd hr j hj

/-- the connection with id `cid` is not self-initiated: its node name may be rewritten -/
theorem KI.modConn_rename {peers conns reg} (h : KI peers conns reg) (cid : Nat) (c0 : Conn) (f : Conn → Conn)
    (hc0 : conns[cid]? = some c0) (hrecv : c0.dir ≠ .send)
    (hf : ∀ c, (f c).id = c.id ∧ (f c).dir = c.dir) :
    KI peers (conns.map fun x => if x.id == cid then f x else x) reg := by
  have only : ∀ x ∈ conns, (x.id == cid) = true → x = c0 := by
    intro x hx hxi
    obtain ⟨k, hk⟩ := List.getElem?_of_mem hx
    have := h.idpos k x hk
    have hxi : x.id = cid := by simpa using hxi
    rw [hxi] at this
    rw [← this, hc0] at hk
    injection hk with hk; exact hk.symm
  refine ⟨h.names, ?_, ?_, ?_, ?_⟩
  · intro k c hk
    simp only [List.getElem?_map] at hk
    cases hs : conns[k]? with
    | none => rw [hs] at hk; cases hk
    | some c1 =>
      rw [hs] at hk
      simp only [Option.map_some, Option.some.injEq] at hk
      subst hk
      split
      · rw [(hf c1).1]; exact h.idpos k c1 hs
      · exact h.idpos k c1 hs
  · intro k hk; simpa using h.regLt k hk
  · intro c hc hd
    simp only [List.mem_map] at hc
    obtain ⟨c1, hc1, rfl⟩ := hc
    split at hd
    · rename_i hi
      rw [(hf c1).2, only c1 hc1 hi] at hd
      exact absurd hd hrecv
    · rename_i hi
      simp only [hi]
      exact h.sendNamed c1 hc1 hd
  · intro c hc hd hr j hj
    simp only [List.mem_map] at hc
    obtain ⟨c1, hc1, rfl⟩ := hc
    split at hd
    · rename_i hi
      rw [(hf c1).2, only c1 hc1 hi] at hd
      exact absurd hd hrecv
    · rename_i hi
      simp only [hi] at hr hj ⊢
      exact h.own c1 hc1 hd hr j hj

/-- a new connection object takes the next position -/
theorem KI.append {peers conns reg} (h : KI peers conns reg) (c : Conn) (hid : c.id = conns.length)
    (hn : c.dir = .send → c.nodeName ≠ "") : KI peers (conns ++ [c]) reg := by
  refine ⟨h.names, ?_, ?_, ?_, ?_⟩
  · intro k x hk
    by_cases hlt : k < conns.length
    · rw [List.getElem?_append_left hlt] at hk; exact h.idpos k x hk
    · rw [List.getElem?_append_right (by omega)] at hk
      have hk0 : k - conns.length = 0 := by
        cases hz : k - conns.length with
        | zero => rfl
        | succ n => rw [hz] at hk; simp at hk
      rw [hk0] at hk
      simp only [List.getElem?_cons_zero, Option.some.injEq] at hk
      subst hk; omega
  · intro k hk; have := h.regLt k hk; simp; omega
  · intro x hx hd
    simp only [List.mem_append, List.mem_singleton] at hx
    cases hx with
    | inl hx => exact h.sendNamed x hx hd
    | inr hx => subst hx; exact hn hd
  · intro x hx hd hr j hj
    simp only [List.mem_append, List.mem_singleton] at hx
    cases hx with
    | inl hx => exact h.own x hx hd hr j hj
    | inr hx =>
      subst hx
      have := h.regLt _ hr
      omega

/-! ### the list of registered connections -/

theorem KI.unregister {peers conns reg} (h : KI peers conns reg) (cid : Nat) : KI peers conns (erase reg cid) := by
  have sub : ∀ k, k ∈ erase reg cid → k ∈ reg := by
    intro k hk; unfold erase at hk; exact (List.mem_filter.mp hk).1
  exact ⟨h.names, h.idpos, fun k hk => h.regLt k (sub k hk), h.sendNamed,
    fun c hc hd hr j hj => h.own c hc hd (sub _ hr) j hj⟩

theorem not_mem_erase (reg : List Nat) (cid : Nat) : cid ∉ erase reg cid := by
  unfold erase
  intro h
  have := (List.mem_filter.mp h).2
  simp at this

/-- connection `cid` is registered; if it is self-initiated its peer (if any) must point to it -/
theorem KI.register {peers conns reg} (h : KI peers conns reg) (cid : Nat) (hlt : cid < conns.length)
    (hown : ∀ c, conns[cid]? = some c → c.dir = .send → ∀ i, pidx peers c.nodeName = some i →
      ∃ p, peers[i]? = some p ∧ p.connection = some cid) :
    KI peers conns (reg ++ [cid]) := by
  refine ⟨h.names, h.idpos, ?_, h.sendNamed, ?_⟩
  · intro k hk
    simp only [List.mem_append, List.mem_singleton] at hk
    cases hk with
    | inl hk => exact h.regLt k hk
    | inr hk => subst hk; exact hlt
  · intro c hc hd hr j hj
    simp only [List.mem_append, List.mem_singleton] at hr
    cases hr with
    | inl hr => exact h.own c hc hd hr j hj
    | inr hr =>
      obtain ⟨k, hk⟩ := List.getElem?_of_mem hc
      have hik := h.idpos k c hk
      rw [hr] at hik
      rw [← hik] at hk
      rw [hr]
      exact hown c hk hd j hj

/-- **what the invariant says**: two registered self-initiated connections whose node name is that of a
    configured peer are the same connection object -/
theorem KI.single {peers conns reg} (h : KI peers conns reg) (c1 c2 : Conn) (h1 : c1 ∈ conns) (h2 : c2 ∈ conns)
    (d1 : c1.dir = .send) (d2 : c2.dir = .send) (r1 : c1.id ∈ reg) (r2 : c2.id ∈ reg)
    (hn : c1.nodeName = c2.nodeName) (i : Nat) (hi : pidx peers c1.nodeName = some i) : c1 = c2 := by
  obtain ⟨p, hp, hpc⟩ := h.own c1 h1 d1 r1 i hi
  obtain ⟨p', hp', hpc'⟩ := h.own c2 h2 d2 r2 i (hn ▸ hi)
  rw [hp] at hp'
  injection hp' with hp'
  subst hp'
  rw [hpc] at hpc'
  injection hpc' with hid
  obtain ⟨k1, hk1⟩ := List.getElem?_of_mem h1
  obtain ⟨k2, hk2⟩ := List.getElem?_of_mem h2
  have e1 := h.idpos k1 c1 hk1
  have e2 := h.idpos k2 c2 hk2
  have : k1 = k2 := by omega
  subst this
  rw [hk1] at hk2
  injection hk2

theorem pidx_getElem {peers : List Peer} {n : String} {j : Nat} (h : pidx peers n = some j) :
    ∃ p, peers[j]? = some p ∧ p.name = n := by
  unfold pidx at h
  rw [List.findIdx?_eq_some_iff_getElem] at h
  obtain ⟨hlt, hp, _⟩ := h
  exact ⟨peers[j], by simp [hlt], by simpa using hp⟩

/-- `_add_peer_connection`, accepted: the (already appended) connection `c` is registered, and the peer it
    resolves to — which has no connection — is pointed to it -/
theorem KI.add_registered {peers conns reg} (h1 : KI peers conns reg) (c : Conn) (hc : conns[c.id]? = some c)
    (peers' : List Peer)
    (hcase : (peers' = peers ∧ (c.dir = .send → pidx peers c.nodeName = none)) ∨
      (∃ (i : Nat) (f : Peer → Peer), peers' = peers.mapIdx (fun k p => if k == i then f p else p) ∧
        (∀ p, (f p).name = p.name) ∧ (∀ p, peers[i]? = some p → p.connection ≠ none → (f p).connection = p.connection) ∧
        (c.dir = .send → ∀ j, pidx peers c.nodeName = some j → j = i ∧ ∀ p, peers[j]? = some p → (f p).connection = some c.id))) :
    KI peers' conns (reg ++ [c.id]) := by
  have hlt : c.id < conns.length := by
    have := List.getElem?_eq_some_iff.mp hc
    exact this.1
  rcases hcase with ⟨rfl, hnone⟩ | ⟨i, f, rfl, hfn, hf, hown⟩
  · refine h1.register c.id hlt ?_
    intro c' hc' hd j hj
    rw [hc] at hc'; injection hc' with hc'; subst hc'
    rw [hnone hd] at hj; cases hj
  · have h2 := h1.modPeer_set i f hfn hf
    refine h2.register c.id hlt ?_
    intro c' hc' hd j hj
    rw [hc] at hc'; injection hc' with hc'; subst hc'
    have hg : ∀ k p, (if (k == i) = true then f p else p).name = p.name := by
      intro k p; split
      · exact hfn p
      · rfl
    rw [pidx_mapIdx _ _ hg] at hj
    obtain ⟨hji, hset⟩ := hown hd j hj
    obtain ⟨p, hp, _⟩ := pidx_getElem hj
    refine ⟨f p, ?_, hset p hp⟩
    subst hji
    simp only [List.getElem?_mapIdx, hp, Option.map_some, beq_self_eq_true, if_true]

end DV.Node
