/-
  `KInv` (Proofs/NodeOwnCore.lean, NodeOwn.lean; text of NodeDialInv.lean with the invariant replaced) along the
  receive path, the worker pumps and the I/O loop.
-/
import DV.Proofs.NodeOwn
import DV.Model.NodeOps
namespace DV.Node

section
variable (hk : Config.removeOnlyOwn = true)
include hk

theorem k_receiveAppRequest (s : St) (cid : Nat) (m : AMsg) (info : MsgInfo) (h : KInv s) : KInv (receiveAppRequest s cid m info).1 := by
  unfold receiveAppRequest
  repeat (first
    | k_hyp | k_triv | k_lit | split | dsimp only
    | with_reducible apply (k_sendMessage (by assumption))
    | with_reducible apply (k_appReceiveRequest (by assumption)))

theorem k_handleByCommand (s : St) (cid : Nat) (m : AMsg) (info : MsgInfo) (h : KInv s) : KInv (handleByCommand s cid m info).1 := by
  unfold handleByCommand
  repeat (first
    | k_hyp | k_triv | k_lit | split | dsimp only
    | with_reducible apply k_modPeer _ _ _ (by tamekp)
    | with_reducible apply (k_receiveCer (by assumption)) | with_reducible apply (k_receiveCea (by assumption))
    | with_reducible apply (k_receiveDwr (by assumption)) | with_reducible apply (k_receiveDwa (by assumption)) | with_reducible apply (k_receiveDpr (by assumption))
    | with_reducible apply (k_receiveDpa (by assumption)) | with_reducible apply (k_receiveAppRequest (by assumption)) | with_reducible apply (k_receiveAppAnswer (by assumption)))

theorem k_receiveMessage (s : St) (cid : Nat) (m : AMsg) (info : MsgInfo) (h : KInv s) : KInv (receiveMessage s cid m info) := by
  unfold receiveMessage
  dsimp only
  have h1 : KInv (recordOrigin s cid m info) := (k_recordOrigin (by assumption)) _ _ _ _ h
  have hb := (k_handleByCommand (by assumption)) (recordOrigin s cid m info) cid m info h1
  split
  · exact (k_crashReader (by assumption)) _ _ _ h1
  · split
    · split
      · exact (k_sendMessage (by assumption)) _ _ _ _ h1
      · exact (k_crashReader (by assumption)) _ _ _ ((k_sendMessage (by assumption)) _ _ _ _ h1)
    · split
      · split
        · exact (k_sendMessage (by assumption)) _ _ _ _ h1
        · exact (k_crashReader (by assumption)) _ _ _ ((k_sendMessage (by assumption)) _ _ _ _ h1)
      · split
        · rename_i s' heq
          rw [heq] at hb; exact hb
        · rename_i s' e heq
          rw [heq] at hb
          split
          · exact hb
          · split
            · exact (k_sendMessage (by assumption)) _ _ _ _ hb
            · exact (k_crashReader (by assumption)) _ _ _ ((k_sendMessage (by assumption)) _ _ _ _ hb)

theorem k_dispatchMessage (s : St) (cid : Nat) (m : AMsg) (info : MsgInfo) (h : KInv s) : KInv (dispatchMessage s cid m info) := by
  unfold dispatchMessage
  repeat (first | exact h | exact (k_receiveMessage (by assumption)) s cid m info h | split)

theorem k_pumpReader (infoOf : AMsg → MsgInfo) (s : St) (cid : Nat) (h : KInv s) : KInv (pumpReader infoOf s cid) := by
  unfold pumpReader
  split
  · exact h
  · split
    · exact h
    · split
      · exact h
      · dsimp only
        apply k_foldl
        · intro s a hs
          repeat (first | exact hs | exact (k_dispatchMessage (by assumption)) s cid a (infoOf a) hs | split)
        · exact k_modConn _ _ _ (by tamekc) h

theorem k_pumpAll (infoOf : AMsg → MsgInfo) (s : St) (h : KInv s) : KInv (pumpAll infoOf s) := by
  unfold pumpAll
  dsimp only
  apply k_foldl
  · intro s ai hs
    exact (k_pumpAppResp (by assumption)) _ _ ((k_pumpAppRecv (by assumption)) infoOf _ _ hs)
  · apply k_foldl
    · intro s c hs
      apply (k_pumpWriter (by assumption))
      apply k_foldl
      · intro s _ hs; exact (k_pumpReader (by assumption)) infoOf s c.id hs
      · exact hs
    · exact h

theorem k_handleReadable (w : World) (cid : Nat) (h : KInv w.st) : KInv (handleReadable w cid).st := by
  unfold handleReadable
  have hst : (w.popRx cid).1.st = w.st := popRx_st w cid
  split
  · exact h
  · dsimp only
    generalize hr : w.popRx cid = r at *
    obtain ⟨w1, ev⟩ := r
    dsimp only at *
    rw [← hst] at h
    split
    · exact h
    · exact h
    · exact k_connClose _ _ _ ((k_closeConnectionSocket (by assumption)) _ _ _ h)
    · exact k_connClose _ _ _ ((k_closeConnectionSocket (by assumption)) _ _ _ h)
    · exact k_modConn _ _ _ (by tamekc) h
    · exact k_modConn _ _ _ (by tamekc) h

theorem k_ioIteration (w : World) (h : KInv w.st) : KInv (ioIteration w).st := by
  unfold ioIteration
  dsimp only
  generalize hW : List.foldl handleWritable _ _ = W
  have hWs : KInv W.st := by
    rw [← hW]
    apply k_foldlW _ (fun w a hw => (k_handleWritable (by assumption)) w a hw)
    apply k_foldlW _ (fun w a hw => (k_handleReadable (by assumption)) w a hw)
    repeat (first
      | exact h
      | with_reducible apply (k_handleAccept (by assumption))
      | with_reducible apply (k_handleInterrupt (by assumption))
      | split
      | dsimp only)
  exact (k_reconnectPeers (by assumption)) _ (k_foldl _ (fun s a hs => (k_checkTimers (by assumption)) s a hs) _ _ hWs)

theorem k_settle (infoOf : AMsg → MsgInfo) (n : Nat) (w : World) (h : KInv w.st) : KInv (settle infoOf n w).st := by
  induction n generalizing w with
  | zero => exact h
  | succ n ih =>
    unfold settle
    dsimp only
    have h2 : KInv ({ ioIteration w with st := pumpAll infoOf (ioIteration w).st } : World).st := (k_pumpAll (by assumption)) infoOf _ ((k_ioIteration (by assumption)) w h)
    split
    · exact ih _ h2
    · exact h2

end

end DV.Node
