/-
  "Pending answers are sound": two views of the node state,

  * `St.pwm` — the (connection, hop-by-hop id) pairs in `_peer_waiting_answer`,
  * `St.inqm` — the (connection, message) pairs handed to a connection's reader
    and not processed yet,

  and the pre-order `s' ≼ s` ("`s'` has no pending pair and no queued input that
  `s` does not have").  Almost every function of the node only ever shrinks the
  two views; the exceptions are the socket read (input arrives), and
  `_receive_app_request` (a pending pair is added — for the request being
  processed, on the connection it was read from).  Lemmas are stated in
  continuation form (`s ≼ s0 → f s ≼ s0`) so that they compose by `apply`.
-/
import DV.Proofs.NodeCrash
import Lean.Elab.Tactic
namespace DV.Node

/-- the (connection id, hop-by-hop id) pairs of `_peer_waiting_answer` -/
def St.pwm (s : St) : List (Nat × Nat) := s.peerWaiting.flatMap fun p => p.2.map fun h => (p.1, h)

/-- the (connection id, message) pairs waiting in the readers' queues -/
def St.inqm (s : St) : List (Nat × AMsg) := s.conns.flatMap fun c => c.inQ.flatten.map fun m => (c.id, m)

/-- no new pending pair, no new queued input -/
def Le (s' s : St) : Prop := (∀ x ∈ s'.pwm, x ∈ s.pwm) ∧ (∀ x ∈ s'.inqm, x ∈ s.inqm)

infix:50 " ≼ " => Le

theorem Le.refl (s : St) : s ≼ s := ⟨fun _ h => h, fun _ h => h⟩

theorem Le.trans {a b c : St} (h1 : a ≼ b) (h2 : b ≼ c) : a ≼ c :=
  ⟨fun x h => h2.1 x (h1.1 x h), fun x h => h2.2 x (h1.2 x h)⟩

theorem le_of_eq {s' s s0 : St} (h1 : s'.peerWaiting = s.peerWaiting) (h2 : s'.conns = s.conns) (h : s ≼ s0) : s' ≼ s0 := by
  unfold Le St.pwm St.inqm at *
  rw [h1, h2]; exact h


/-- a literal state (`{ s with … }` after unfolding): only its `peerWaiting` and `conns` matter -/
theorem le_mk {cfg now peers apps routes conns connections peerSockets socketPeers halfReady appWaiting peerWaiting
    originWaiting sentAnswers e2e nextHbhSeed stopping started pipe dialPlan appRequests delivered inProgress tapps
    deferred crashed outs} {s0 : St}
    (h : (∀ x ∈ (peerWaiting.flatMap fun (p : Nat × List Nat) => p.2.map fun h => (p.1, h)), x ∈ s0.pwm) ∧
         (∀ x ∈ (conns.flatMap fun (c : Conn) => c.inQ.flatten.map fun m => (c.id, m)), x ∈ s0.inqm)) :
    (St.mk cfg now peers apps routes conns connections peerSockets socketPeers halfReady appWaiting peerWaiting
      originWaiting sentAnswers e2e nextHbhSeed stopping started pipe dialPlan appRequests delivered inProgress tapps
      deferred crashed outs) ≼ s0 := h

/-- a literal state whose `conns` and `peerWaiting` are those of `s'` -/
theorem le_mk' (s' : St) {cfg now peers apps routes connections peerSockets socketPeers halfReady appWaiting
    originWaiting sentAnswers e2e nextHbhSeed stopping started pipe dialPlan appRequests delivered inProgress tapps
    deferred crashed outs} {s0 : St} (h : s' ≼ s0) :
    (St.mk cfg now peers apps routes s'.conns connections peerSockets socketPeers halfReady appWaiting s'.peerWaiting
      originWaiting sentAnswers e2e nextHbhSeed stopping started pipe dialPlan appRequests delivered inProgress tapps
      deferred crashed outs) ≼ s0 := h

open Lean Elab Tactic Meta in
/-- succeeds iff the goal is `lit ≼ _` with `lit` syntactically a structure literal (`St.mk …`); keeps the
    unifier's structure eta from applying `le_mk'` to an arbitrary term -/
elab "guard_st_literal" : tactic => do
  let g ← instantiateMVars (← getMainTarget)
  match g.getAppFnArgs with
  | (``DV.Node.Le, #[lhs, _]) => unless lhs.isAppOf ``DV.Node.St.mk do throwError "not a literal state"
  | _ => throwError "not a goal of the form _ ≼ _"

/-- closes `s ≼ s0` from a hypothesis -/
macro "le_hyp" : tactic => `(tactic| with_reducible assumption)

theorem mem_pwm {s : St} {x : Nat × Nat} : x ∈ s.pwm ↔ ∃ p ∈ s.peerWaiting, p.1 = x.1 ∧ x.2 ∈ p.2 := by
  unfold St.pwm
  simp only [List.mem_flatMap, List.mem_map]
  constructor
  · rintro ⟨p, hp, h, hh, rfl⟩; exact ⟨p, hp, rfl, hh⟩
  · rintro ⟨p, hp, h1, h2⟩; exact ⟨p, hp, x.2, h2, by rw [h1]⟩

theorem mem_inqm {s : St} {x : Nat × AMsg} : x ∈ s.inqm ↔ ∃ c ∈ s.conns, c.id = x.1 ∧ ∃ ch ∈ c.inQ, x.2 ∈ ch := by
  unfold St.inqm
  simp only [List.mem_flatMap, List.mem_map, List.mem_flatten]
  constructor
  · rintro ⟨c, hc, m, ⟨ch, hch, hm⟩, rfl⟩; exact ⟨c, hc, rfl, ch, hch, hm⟩
  · rintro ⟨c, hc, h1, ch, hch, hm⟩; exact ⟨c, hc, x.2, ⟨ch, hch, hm⟩, by rw [h1]⟩

/-! ### connection updates -/

theorem inqm_modConn_tame (s : St) (i : Nat) (f : Conn → Conn)
    (hf : ∀ c, (f c).id = c.id ∧ (f c).inQ = c.inQ) : (s.modConn i f).inqm = s.inqm := by
  simp only [St.inqm, St.modConn, List.flatMap_map]
  congr 1
  funext c
  split
  · rw [(hf c).1, (hf c).2]
  · rfl

theorem le_modConn (s : St) (i : Nat) (f : Conn → Conn) {s0 : St}
    (hf : ∀ c, (f c).id = c.id ∧ (f c).inQ = c.inQ) (h : s ≼ s0) : s.modConn i f ≼ s0 := by
  refine ⟨h.1, ?_⟩
  rw [inqm_modConn_tame s i f hf]; exact h.2

/-- discharges the side condition of `le_modConn` for a literal record update -/
macro "tameq" : tactic => `(tactic| (intro c; first | exact ⟨rfl, rfl⟩ | (dsimp only; split <;> exact ⟨rfl, rfl⟩)))

theorem le_connClose (s : St) (cid : Nat) (b : Bool) {s0 : St} (h : s ≼ s0) : connClose s cid b ≼ s0 := by
  unfold connClose
  split
  · exact le_modConn _ _ _ (by tameq) h
  · exact le_modConn _ _ _ (by tameq) h


theorem le_modTApp (s : St) (i : Nat) (f : TApp → TApp) {s0 : St} (h : s ≼ s0) : s.modTApp i f ≼ s0 := h
theorem le_modApp (s : St) (i : Nat) (f : App → App) {s0 : St} (h : s ≼ s0) : s.modApp i f ≼ s0 := h
theorem le_modPeer (s : St) (i : Nat) (f : Peer → Peer) {s0 : St} (h : s ≼ s0) : s.modPeer i f ≼ s0 := h
theorem le_emit (s : St) (o : Out) {s0 : St} (h : s ≼ s0) : s.emit o ≼ s0 := h
theorem le_demand (s : St) (c : Nat) {s0 : St} (h : s ≼ s0) : demandAttention s c ≼ s0 := h
theorem le_setCrashed (s : St) (n : Nat) {s0 : St} (h : s ≼ s0) : ({ s with crashed := n } : St) ≼ s0 := h

/-- a literal state built from another state `s'`: continue with `s' ≼ s0` -/
macro "le_lit" : tactic => `(tactic| (guard_st_literal; with_reducible apply le_mk'))

/-- the state-independent wrappers -/
macro "le_triv" : tactic => `(tactic| first
  | with_reducible apply le_modTApp | with_reducible apply le_modApp | with_reducible apply le_modPeer
  | with_reducible apply le_emit | with_reducible apply le_demand)

/-! ### the pending table only shrinks -/

theorem pwm_filter_key (l : List (Nat × List Nat)) (p : Nat × List Nat → Bool) (x : Nat × Nat)
    (h : x ∈ (l.filter p).flatMap fun p => p.2.map fun h => (p.1, h)) :
    x ∈ l.flatMap fun p => p.2.map fun h => (p.1, h) := by
  simp only [List.mem_flatMap, List.mem_filter] at *
  obtain ⟨q, ⟨hq, _⟩, hx⟩ := h
  exact ⟨q, hq, hx⟩

theorem pwm_map_filter (l : List (Nat × List Nat)) (c : Nat × List Nat → Bool) (g : Nat → Bool) (x : Nat × Nat)
    (h : x ∈ (l.map fun p => if c p then (p.1, p.2.filter g) else p).flatMap fun p => p.2.map fun h => (p.1, h)) :
    x ∈ l.flatMap fun p => p.2.map fun h => (p.1, h) := by
  simp only [List.mem_flatMap, List.mem_map] at *
  obtain ⟨q, ⟨p, hp, rfl⟩, hx⟩ := h
  refine ⟨p, hp, ?_⟩
  split at hx
  · simp only [List.mem_filter] at hx
    obtain ⟨a, ⟨ha, _⟩, rfl⟩ := hx
    exact ⟨a, ha, rfl⟩
  · exact hx

theorem pwm_map_filter' (l : List (Nat × List Nat)) (c : Nat → Bool) (g : Nat → Bool) (x : Nat × Nat)
    (h : x ∈ (l.map fun (p : Nat × List Nat) => if c p.1 then (p.1, p.2.filter g) else (p.1, p.2)).flatMap fun p => p.2.map fun h => (p.1, h)) :
    x ∈ l.flatMap fun p => p.2.map fun h => (p.1, h) :=
  pwm_map_filter l (fun p => c p.1) g x h

theorem le_removePeerConnection (s : St) (cid : Nat) (r : Reason) {s0 : St} (h : s ≼ s0) :
    removePeerConnection s cid r ≼ s0 := by
  refine Le.trans ?_ h
  unfold removePeerConnection
  cases hc : s.conn? cid with
  | none => exact Le.refl _
  | some c =>
    simp only []
    constructor
    · intro x hx
      have : x ∈ (s.peerWaiting.filter (·.1 != cid)).flatMap fun p => p.2.map fun h => (p.1, h) := by
        revert hx
        unfold St.pwm
        repeat (first | exact id | split | dsimp only)
      exact pwm_filter_key _ _ _ this
    · intro x hx
      have : x ∈ s.inqm := by
        revert hx
        unfold St.inqm St.modPeer
        repeat (first | exact id | split | dsimp only)
      exact this

theorem le_closeConnectionSocket (s : St) (cid : Nat) (r : Reason) {s0 : St} (h : s ≼ s0) :
    closeConnectionSocket s cid r ≼ s0 := by
  unfold closeConnectionSocket
  apply le_removePeerConnection
  split
  · exact le_connClose _ _ _ (le_modConn _ _ _ (by tameq) h)
  · exact h

theorem le_recordAnswerState (s : St) (cid : Nat) (m : AMsg) {s0 : St} (h : s ≼ s0) : recordAnswerState s cid m ≼ s0 := by
  refine le_of_eq ?_ ?_ h
  · unfold recordAnswerState; repeat (first | rfl | split | dsimp only)
  · unfold recordAnswerState; repeat (first | rfl | split | dsimp only)

theorem le_sendMessage (s : St) (cid : Nat) (m : AMsg) (b : Bool) {s0 : St} (h : s ≼ s0) : (sendMessage s cid m b).1 ≼ s0 := by
  unfold sendMessage
  split
  · exact h
  · dsimp only
    split
    · apply le_recordAnswerState
      apply le_modConn _ _ _ (by tameq)
      refine Le.trans (b := s) ⟨?_, fun _ hx => hx⟩ h
      intro x hx
      exact pwm_map_filter' s.peerWaiting (fun k => k == cid) (fun y => y != m.hbh) x hx
    · exact le_modConn _ _ _ (by tameq) h

theorem le_foldl {α : Type} (f : St → α → St) {s0 : St} (hf : ∀ s a, s ≼ s0 → f s a ≼ s0) (l : List α) (s : St)
    (h : s ≼ s0) : l.foldl f s ≼ s0 := by
  induction l generalizing s with
  | nil => exact h
  | cons a l ih => exact ih _ (hf s a h)

theorem le_foldlW {α : Type} (f : World → α → World) {s0 : St} (hf : ∀ w a, w.st ≼ s0 → (f w a).st ≼ s0) (l : List α)
    (w : World) (h : w.st ≼ s0) : (l.foldl f w).st ≼ s0 := by
  induction l generalizing w with
  | nil => exact h
  | cons a l ih => exact ih _ (hf w a h)

/-- a new connection object with an empty reader queue -/
theorem le_addPeerConnection (s : St) (c : Conn) (hq : c.inQ = []) {s0 : St} (h : s ≼ s0) : (addPeerConnection s c).1 ≼ s0 := by
  have h1 : ({ s with conns := s.conns ++ [c] } : St) ≼ s0 := by
    refine ⟨h.1, ?_⟩
    intro x hx
    apply h.2
    simp only [St.inqm, List.flatMap_append, List.flatMap_cons, List.flatMap_nil, hq, List.flatten_nil, List.map_nil,
      List.append_nil] at hx
    exact hx
  unfold addPeerConnection
  dsimp only
  repeat (first | le_hyp | le_triv | split | dsimp only | with_reducible apply le_modConn _ _ _ (by tameq) | ((with_reducible apply le_mk); exact h1))

/-- the composition tactic: peel known functions off the goal `f (g (… s)) ≼ s0` -/
macro "le_tac" : tactic => `(tactic| repeat (first
  | le_hyp
  | le_triv
  | le_lit
  | split
  | dsimp only
  | with_reducible apply le_modConn _ _ _ (by tameq)
  | with_reducible apply le_connClose
  | with_reducible apply le_removePeerConnection
  | with_reducible apply le_closeConnectionSocket
  | with_reducible apply le_recordAnswerState
  | with_reducible apply le_sendMessage))

theorem le_assignPeerConnection (s : St) (cid : Nat) {s0 : St} (h : s ≼ s0) : assignPeerConnection s cid ≼ s0 := by
  unfold assignPeerConnection; le_tac

theorem le_flagReady (s : St) (cid : Nat) {s0 : St} (h : s ≼ s0) : flagConnectionAsReady s cid ≼ s0 := by
  unfold flagConnectionAsReady
  exact le_of_eq rfl rfl (le_modConn _ _ _ (by tameq) h)

theorem le_cerNameAndElect (s : St) (cid : Nat) (hn : String) {s0 : St} (h : s ≼ s0) : (cerNameAndElect s cid hn).1 ≼ s0 := by
  unfold cerNameAndElect
  have hf : ∀ (l : List Conn) (s : St), s ≼ s0 → (l.foldl (fun s o => connClose s o.id true) s) ≼ s0 :=
    fun l s hs => le_foldl _ (fun s a hs => le_connClose s a.id true hs) l s hs
  dsimp only
  repeat (first | le_hyp | le_triv | le_lit | split | with_reducible apply hf | with_reducible apply le_modConn _ _ _ (by tameq))

macro "le_tac2" : tactic => `(tactic| repeat (first
  | le_hyp
  | le_triv
  | le_lit
  | split
  | dsimp only
  | with_reducible apply le_modConn _ _ _ (by tameq)
  | with_reducible apply le_connClose
  | with_reducible apply le_removePeerConnection
  | with_reducible apply le_closeConnectionSocket
  | with_reducible apply le_recordAnswerState
  | with_reducible apply le_sendMessage
  | with_reducible apply le_assignPeerConnection
  | with_reducible apply le_flagReady
  | with_reducible apply le_cerNameAndElect))

theorem le_receiveCer (s : St) (cid : Nat) (m : AMsg) (info : MsgInfo) {s0 : St} (h : s ≼ s0) : (receiveCer s cid m info).1 ≼ s0 := by
  unfold receiveCer; le_tac2

theorem le_receiveCea (s : St) (cid : Nat) (m : AMsg) {s0 : St} (h : s ≼ s0) : (receiveCea s cid m).1 ≼ s0 := by
  unfold receiveCea; le_tac2

theorem le_receiveDpr (s : St) (cid : Nat) (m : AMsg) (info : MsgInfo) {s0 : St} (h : s ≼ s0) : (receiveDpr s cid m info).1 ≼ s0 := by
  unfold receiveDpr; le_tac2

theorem le_receiveDpa (s : St) (cid : Nat) {s0 : St} (h : s ≼ s0) : receiveDpa s cid ≼ s0 := by
  unfold receiveDpa; le_tac2

theorem le_receiveDwa (s : St) (cid : Nat) {s0 : St} (h : s ≼ s0) : receiveDwa s cid ≼ s0 := by
  unfold receiveDwa; le_tac2

theorem le_receiveDwr (s : St) (cid : Nat) (m : AMsg) (info : MsgInfo) {s0 : St} (h : s ≼ s0) : (receiveDwr s cid m info).1 ≼ s0 := by
  unfold receiveDwr; le_tac2

theorem le_appReceiveRequest (s : St) (ai : Nat) (m : AMsg) {s0 : St} (h : s ≼ s0) : (appReceiveRequest s ai m).1 ≼ s0 := by
  unfold appReceiveRequest; le_tac2

theorem le_appReceiveAnswer (s : St) (ai : Nat) (m : AMsg) {s0 : St} (h : s ≼ s0) : appReceiveAnswer s ai m ≼ s0 := by
  unfold appReceiveAnswer; le_tac2

theorem le_receiveAppAnswer (s : St) (m : AMsg) {s0 : St} (h : s ≼ s0) : receiveAppAnswer s m ≼ s0 := by
  unfold receiveAppAnswer
  repeat (first | le_hyp | le_triv | le_lit | split | with_reducible apply le_appReceiveAnswer)

theorem le_recordOrigin (s : St) (cid : Nat) (m : AMsg) (info : MsgInfo) {s0 : St} (h : s ≼ s0) : recordOrigin s cid m info ≼ s0 := by
  unfold recordOrigin; le_tac2

theorem le_crashReader (s : St) (cid : Nat) (e : String) {s0 : St} (h : s ≼ s0) : crashReader s cid e ≼ s0 := by
  unfold crashReader
  exact le_of_eq rfl rfl (le_modConn _ _ _ (by tameq) (le_of_eq rfl rfl h))

theorem le_sendCer (s : St) (cid : Nat) {s0 : St} (h : s ≼ s0) : sendCer s cid ≼ s0 := by
  unfold sendCer; le_tac2

theorem le_sendDwr (s : St) (cid : Nat) {s0 : St} (h : s ≼ s0) : sendDwr s cid ≼ s0 := by
  unfold sendDwr; le_tac2

theorem le_sendDpr (s : St) (cid : Nat) {s0 : St} (h : s ≼ s0) : sendDpr s cid ≼ s0 := by
  unfold sendDpr; le_tac2

macro "le_tac3" : tactic => `(tactic| repeat (first
  | le_hyp
  | le_triv
  | le_lit
  | split
  | dsimp only
  | with_reducible apply le_modConn _ _ _ (by tameq)
  | with_reducible apply le_connClose
  | with_reducible apply le_removePeerConnection
  | with_reducible apply le_closeConnectionSocket
  | with_reducible apply le_recordAnswerState
  | with_reducible apply le_sendMessage
  | with_reducible apply le_sendCer
  | with_reducible apply le_sendDwr
  | with_reducible apply le_sendDpr))

theorem le_checkTimers (s : St) (cid : Nat) {s0 : St} (h : s ≼ s0) : checkTimers s cid ≼ s0 := by
  unfold checkTimers; le_tac3

theorem le_connectToPeer (s : St) (pi : Nat) {s0 : St} (h : s ≼ s0) : connectToPeer s pi ≼ s0 := by
  unfold connectToPeer
  repeat (first
    | le_hyp
    | le_triv
    | le_lit
    | split
    | dsimp only
    | with_reducible apply le_modConn _ _ _ (by tameq)
    | with_reducible apply le_removePeerConnection
    | with_reducible apply le_closeConnectionSocket
    | with_reducible apply le_sendCer
    | with_reducible apply le_addPeerConnection _ _ rfl)

theorem le_reconnectStep (s : St) (pi : Nat) {s0 : St} (h : s ≼ s0) : reconnectStep s pi ≼ s0 := by
  unfold reconnectStep
  repeat (first | le_hyp | le_triv | le_lit | split | with_reducible apply le_connectToPeer)

theorem le_reconnectPeers (s : St) {s0 : St} (h : s ≼ s0) : reconnectPeers s ≼ s0 := by
  unfold reconnectPeers
  split
  · exact h
  · exact le_foldl _ (fun s a hs => le_reconnectStep s a hs) _ _ h

theorem le_handleInterrupt (s : St) {s0 : St} (h : s ≼ s0) : handleInterrupt s ≼ s0 := by
  unfold handleInterrupt; le_tac3

theorem le_handleAccept (s : St) {s0 : St} (h : s ≼ s0) : handleAccept s ≼ s0 := by
  unfold handleAccept
  dsimp only
  exact le_addPeerConnection _ _ rfl h

theorem le_connectResult (w : World) (cid : Nat) (c : Conn) {s0 : St} (h : w.st ≼ s0) : (connectResult w cid c).1.st ≼ s0 := by
  unfold connectResult; le_tac3

theorem le_flushWritable (w : World) (cid : Nat) {s0 : St} (h : w.st ≼ s0) : (flushWritable w cid).st ≼ s0 := by
  unfold flushWritable
  have hf : ∀ (l : List AMsg) (s : St), s ≼ s0 → (l.foldl (fun s m => s.emit (.wrote cid m)) s) ≼ s0 :=
    fun l s hs => le_foldl (fun s m => s.emit (.wrote cid m)) (fun s a hs => hs) l s hs
  repeat (first
    | le_hyp
    | le_triv
    | le_lit
    | split
    | dsimp only
    | simp only [popTx_st]
    | with_reducible apply le_modConn _ _ _ (by tameq)
    | with_reducible apply le_connClose
    | with_reducible apply le_closeConnectionSocket
    | with_reducible apply hf)

theorem le_handleWritable (w : World) (cid : Nat) {s0 : St} (h : w.st ≼ s0) : (handleWritable w cid).st ≼ s0 := by
  unfold handleWritable
  repeat (first | le_hyp | le_triv | le_lit | split | dsimp only | with_reducible apply le_flushWritable | with_reducible apply le_connectResult)

theorem le_pumpWriter (s : St) (cid : Nat) {s0 : St} (h : s ≼ s0) : pumpWriter s cid ≼ s0 := by
  unfold pumpWriter
  repeat (first | le_hyp | le_triv | le_lit | split | (apply le_foldl; intro s a hs; exact le_of_eq rfl rfl (le_modConn _ _ _ (by tameq) hs)))

/-! ### applications -/

theorem le_routeAnswer (s s' : St) (m : AMsg) (cid : Nat) (hr : routeAnswer s m = .ok (s', cid)) {s0 : St} (h : s ≼ s0) :
    s' ≼ s0 := by
  refine Le.trans ?_ h
  unfold routeAnswer at hr
  simp only [] at hr
  repeat (first | contradiction | split at hr)
  all_goals (first | contradiction | (injection hr with hr; injection hr with h1 h2; subst h1))
  all_goals
    refine ⟨?_, fun _ hx => hx⟩
    intro x hx
    exact pwm_map_filter s.peerWaiting _ _ x hx

theorem le_routeAnswerSideEffect (s : St) (m : AMsg) {s0 : St} (h : s ≼ s0) : routeAnswerSideEffect s m ≼ s0 := by
  refine Le.trans ?_ h
  unfold routeAnswerSideEffect
  split
  · exact Le.refl _
  · refine ⟨?_, fun _ hx => hx⟩
    intro x hx
    exact pwm_map_filter s.peerWaiting _ _ x hx

theorem le_sendBuiltAnswer (s : St) (a : AMsg) (t : Bool) {s0 : St} (h : s ≼ s0) : (sendBuiltAnswer s a t).1 ≼ s0 := by
  unfold sendBuiltAnswer
  split
  · exact le_routeAnswerSideEffect _ _ h
  · rename_i hr
    exact le_sendMessage _ _ _ _ (le_routeAnswer _ _ _ _ hr h)


theorem le_appRecvStep (infoOf : AMsg → MsgInfo) (ai mx : Nat) (s : St) (m : AMsg) {s0 : St} (h : s ≼ s0) :
    appRecvStep infoOf ai mx s m ≼ s0 := by
  unfold appRecvStep
  repeat (first | le_hyp | le_triv | le_lit | split | dsimp only | with_reducible apply le_emit | with_reducible apply le_sendBuiltAnswer | with_reducible apply le_setCrashed)

theorem le_pumpAppRecv (infoOf : AMsg → MsgInfo) (s : St) (ai : Nat) {s0 : St} (h : s ≼ s0) : pumpAppRecv infoOf s ai ≼ s0 := by
  unfold pumpAppRecv
  repeat (first | le_hyp | le_triv | le_lit | split | exact le_foldl _ (fun s a hs => le_appRecvStep infoOf ai _ s a hs) _ _ h)

theorem le_appRespStep (ai : Nat) (s : St) (m : AMsg) {s0 : St} (h : s ≼ s0) : appRespStep ai s m ≼ s0 := by
  unfold appRespStep
  repeat (first | le_hyp | le_triv | le_lit | split | dsimp only | with_reducible apply le_emit | with_reducible apply le_sendBuiltAnswer | with_reducible apply le_setCrashed)

theorem le_appRespNones (ai : Nat) (s : St) {s0 : St} (h : s ≼ s0) : appRespNones ai s ≼ s0 := by
  unfold appRespNones
  repeat (first | le_hyp | le_triv | le_lit | split | with_reducible apply le_modTApp)

theorem le_pumpAppResp (s : St) (ai : Nat) {s0 : St} (h : s ≼ s0) : pumpAppResp s ai ≼ s0 := by
  unfold pumpAppResp
  repeat (first | le_hyp | le_triv | le_lit | split | (apply le_appRespNones; exact le_foldl _ (fun s a hs => le_appRespStep ai s a hs) _ _ h))

theorem le_runHandler (infoOf : AMsg → MsgInfo) (s : St) (k : Nat) {s0 : St} (h : s ≼ s0) : runHandler infoOf s k ≼ s0 := by
  unfold runHandler
  repeat (first | le_hyp | le_triv | le_lit | split | dsimp only | with_reducible apply le_modTApp | with_reducible apply le_emit )

theorem le_appSendAnswer (s : St) (ai : Nat) (req : AMsg) (info : MsgInfo) (rc : Option Nat) {s0 : St} (h : s ≼ s0) :
    appSendAnswer s ai req info rc ≼ s0 := by
  unfold appSendAnswer
  dsimp only
  split
  · exact le_emit _ _ (le_routeAnswerSideEffect _ _ h)
  · rename_i hr
    split <;> exact le_emit _ _ (le_sendMessage _ _ _ _ (le_routeAnswer _ _ _ _ hr h))

theorem le_routeRequest (s s' : St) (ai : Nat) (m m' : AMsg) (info : MsgInfo) (cid : Nat)
    (hr : routeRequest s ai m info = .ok (s', cid, m')) {s0 : St} (h : s ≼ s0) : s' ≼ s0 := by
  unfold routeRequest at hr
  simp only [] at hr
  repeat (first | contradiction | split at hr)
  all_goals (injection hr with hr; injection hr with h1 h2; subst h1)
  all_goals repeat (first | le_hyp | le_triv | le_lit | le_lit | split | dsimp only | with_reducible apply le_modConn _ _ _ (by tameq))

theorem le_appSendRequestBegin (s : St) (ai : Nat) (m : AMsg) (info : MsgInfo) {s0 : St} (h : s ≼ s0) :
    (appSendRequestBegin s ai m info).1 ≼ s0 := by
  unfold appSendRequestBegin
  dsimp only
  split
  · split <;> exact le_of_eq rfl rfl h
  · rename_i hr
    apply le_sendMessage
    apply le_modApp
    refine le_routeRequest _ _ _ _ _ _ _ hr ?_
    split <;> exact le_of_eq rfl rfl h

theorem le_appSendRequestEnd (s : St) (ai : Nat) (hbh : Nat) {s0 : St} (h : s ≼ s0) : (appSendRequestEnd s ai hbh).1 ≼ s0 := h

theorem le_stopBegin (s : St) (f : Bool) {s0 : St} (h : s ≼ s0) : stopBegin s f ≼ s0 := by
  unfold stopBegin
  dsimp only
  split
  · exact le_of_eq rfl rfl h
  · apply le_foldl
    · intro s a hs
      repeat (first | le_hyp | le_triv | le_lit | split | with_reducible apply le_sendDpr)
    · exact le_of_eq rfl rfl h

theorem le_stopFinal (s : St) {s0 : St} (h : s ≼ s0) : stopFinal s ≼ s0 := by
  unfold stopFinal
  apply le_foldl
  · intro s a hs
    exact le_connClose _ _ _ (le_closeConnectionSocket _ _ _ hs)
  · exact h

end DV.Node
