import DV.Proofs.Avp
namespace DV

theorem nat32_be32 (n : Nat) (h : n < 4294967296) : nat32 (be32 n) = some n := by
  simp only [nat32, be32]; rw [rd32_be32 n h]

theorem nat64_be64 (n : Nat) (h : n < 18446744073709551616) : nat64 (be64 n) = some n := by
  have h1 : n / 4294967296 < 4294967296 := by omega
  have h2 : n % 4294967296 < 4294967296 := by omega
  simp only [nat64, be64, be32, List.cons_append, List.nil_append]
  rw [rd32_be32 _ h1, rd32_be32 _ h2]; congr 1; omega

theorem be32_nat32 (p : Bytes) (n : Nat) (h : nat32 p = some n) : be32 n = p ∧ n < 4294967296 := by
  match p, h with
  | [a, b, c, d], h =>
    simp only [nat32, Option.some.injEq] at h
    subst h
    exact ⟨be32_rd32 a b c d, rd32_lt a b c d⟩

theorem be64_nat64 (p : Bytes) (n : Nat) (h : nat64 p = some n) : be64 n = p ∧ n < 18446744073709551616 := by
  match p, h with
  | [a, b, c, d, e, f, g, i], h =>
    simp only [nat64, Option.some.injEq] at h
    subst h
    have h1 := rd32_lt a b c d
    have h2 := rd32_lt e f g i
    constructor
    · simp only [be64]
      have q1 : (rd32 a b c d * 4294967296 + rd32 e f g i) / 4294967296 = rd32 a b c d := by omega
      have q2 : (rd32 a b c d * 4294967296 + rd32 e f g i) % 4294967296 = rd32 e f g i := by omega
      rw [q1, q2, be32_rd32, be32_rd32]; rfl
    · omega

end DV
