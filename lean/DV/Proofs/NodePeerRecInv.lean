/-
  `PInv2` (Proofs/NodePeerRec.lean; text of NodeWdogInv.lean with the invariant replaced) along the receive path, the worker pumps and the
  I/O loop.
-/
import DV.Proofs.NodePeerRec
import DV.Model.NodeOps
namespace DV.Node

theorem p_receiveAppRequest (s : St) (cid : Nat) (m : AMsg) (info : MsgInfo) (h : PInv2 s) : PInv2 (receiveAppRequest s cid m info).1 := by
  unfold receiveAppRequest
  repeat (first
    | p_hyp | p_triv | p_lit | split | dsimp only
    | with_reducible apply p_sendMessage
    | with_reducible apply p_appReceiveRequest)

theorem p_handleByCommand (s : St) (cid : Nat) (m : AMsg) (info : MsgInfo) (h : PInv2 s) : PInv2 (handleByCommand s cid m info).1 := by
  unfold handleByCommand
  repeat (first
    | p_hyp | p_triv | p_lit | split | dsimp only
    | with_reducible apply p_modPeer _ _ _ (by tamep2)
    | with_reducible apply p_receiveCer | with_reducible apply p_receiveCea
    | with_reducible apply p_receiveDwr | with_reducible apply p_receiveDwa | with_reducible apply p_receiveDpr
    | with_reducible apply p_receiveDpa | with_reducible apply p_receiveAppRequest | with_reducible apply p_receiveAppAnswer)

theorem p_receiveMessage (s : St) (cid : Nat) (m : AMsg) (info : MsgInfo) (h : PInv2 s) : PInv2 (receiveMessage s cid m info) := by
  unfold receiveMessage
  dsimp only
  have h1 : PInv2 (recordOrigin s cid m info) := p_recordOrigin _ _ _ _ h
  have hb := p_handleByCommand (recordOrigin s cid m info) cid m info h1
  split
  · exact p_crashReader _ _ _ h1
  · split
    · split
      · exact p_sendMessage _ _ _ _ h1
      · exact p_crashReader _ _ _ (p_sendMessage _ _ _ _ h1)
    · split
      · split
        · exact p_sendMessage _ _ _ _ h1
        · exact p_crashReader _ _ _ (p_sendMessage _ _ _ _ h1)
      · split
        · rename_i s' heq
          rw [heq] at hb; exact hb
        · rename_i s' e heq
          rw [heq] at hb
          split
          · exact hb
          · split
            · exact p_sendMessage _ _ _ _ hb
            · exact p_crashReader _ _ _ (p_sendMessage _ _ _ _ hb)

theorem p_dispatchMessage (s : St) (cid : Nat) (m : AMsg) (info : MsgInfo) (h : PInv2 s) : PInv2 (dispatchMessage s cid m info) := by
  unfold dispatchMessage
  repeat (first | exact h | exact p_receiveMessage s cid m info h | split)

theorem p_pumpReader (infoOf : AMsg → MsgInfo) (s : St) (cid : Nat) (h : PInv2 s) : PInv2 (pumpReader infoOf s cid) := by
  unfold pumpReader
  split
  · exact h
  · split
    · exact h
    · split
      · exact h
      · dsimp only
        apply p_foldl
        · intro s a hs
          repeat (first | exact hs | exact p_dispatchMessage s cid a (infoOf a) hs | split)
        · exact p_of_peers rfl h

theorem p_pumpAll (infoOf : AMsg → MsgInfo) (s : St) (h : PInv2 s) : PInv2 (pumpAll infoOf s) := by
  unfold pumpAll
  dsimp only
  apply p_foldl
  · intro s ai hs
    exact p_pumpAppResp _ _ (p_pumpAppRecv infoOf _ _ hs)
  · apply p_foldl
    · intro s c hs
      apply p_pumpWriter
      apply p_foldl
      · intro s _ hs; exact p_pumpReader infoOf s c.id hs
      · exact hs
    · exact h

theorem p_handleReadable (w : World) (cid : Nat) (h : PInv2 w.st) : PInv2 (handleReadable w cid).st := by
  unfold handleReadable
  have hst : (w.popRx cid).1.st = w.st := popRx_st w cid
  split
  · exact h
  · dsimp only
    generalize hr : w.popRx cid = r at *
    obtain ⟨w1, ev⟩ := r
    dsimp only at *
    rw [← hst] at h
    split
    · exact h
    · exact h
    · exact p_connClose _ _ _ (p_closeConnectionSocket _ _ _ h)
    · exact p_connClose _ _ _ (p_closeConnectionSocket _ _ _ h)
    · exact p_of_peers rfl h
    · exact p_of_peers rfl h

theorem p_ioIteration (w : World) (h : PInv2 w.st) : PInv2 (ioIteration w).st := by
  unfold ioIteration
  dsimp only
  generalize hW : List.foldl handleWritable _ _ = W
  have hWs : PInv2 W.st := by
    rw [← hW]
    apply p_foldlW _ (fun w a hw => p_handleWritable w a hw)
    apply p_foldlW _ (fun w a hw => p_handleReadable w a hw)
    repeat (first
      | exact h
      | with_reducible apply p_handleAccept
      | with_reducible apply p_handleInterrupt
      | split
      | dsimp only)
  exact p_reconnectPeers _ (p_foldl _ (fun s a hs => p_checkTimers s a hs) _ _ hWs)

theorem p_settle (infoOf : AMsg → MsgInfo) (n : Nat) (w : World) (h : PInv2 w.st) : PInv2 (settle infoOf n w).st := by
  induction n generalizing w with
  | zero => exact h
  | succ n ih =>
    unfold settle
    dsimp only
    have h2 : PInv2 ({ ioIteration w with st := pumpAll infoOf (ioIteration w).st } : World).st := p_pumpAll infoOf _ (p_ioIteration w h)
    split
    · exact ih _ h2
    · exact h2

end DV.Node
