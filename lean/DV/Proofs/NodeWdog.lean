/-
  "A connection awaiting a DWA carries a valid DWR stamp": the invariant
  `WdInv s` — the clock is positive, and every connection in state
  READY_WAITING_DWA has `0 < lastDwr ≤ now` — is kept by every function of the
  node (one lemma per function, `WdInv s → WdInv (f s)`; the second half of this
  file is the text of Proofs/NodeSound.lean with the relation replaced).
  The state is entered in `send_dwr` only, which stamps the connection in the
  same step; the stamp is cleared by `reset_last_dwa` only, which leaves the state.
-/
import DV.Proofs.NodeSound
import DV.Proofs.NodeQ
namespace DV.Node

def Conn.wOk (now : Nat) (c : Conn) : Prop := c.state = .waitDwa → 0 < c.lastDwr ∧ c.lastDwr ≤ now

def WdInv (s : St) : Prop := 0 < s.now ∧ ∀ c ∈ s.conns, c.wOk s.now

theorem w_of_conns {s' s : St} (h2 : s'.conns = s.conns) (h3 : s'.now = s.now) (h : WdInv s) : WdInv s' := by
  unfold WdInv at *
  rw [h2, h3]; exact h

/-- a literal state whose `conns` and `now` are those of `s'` -/
theorem w_mk' (s' : St) {cfg peers apps routes connections peerSockets socketPeers halfReady appWaiting peerWaiting
    originWaiting sentAnswers e2e nextHbhSeed stopping started pipe dialPlan appRequests delivered inProgress tapps
    deferred crashed outs} (h : WdInv s') :
    WdInv (St.mk cfg s'.now peers apps routes s'.conns connections peerSockets socketPeers halfReady appWaiting peerWaiting
      originWaiting sentAnswers e2e nextHbhSeed stopping started pipe dialPlan appRequests delivered inProgress tapps
      deferred crashed outs) := h

open Lean Elab Tactic Meta in
elab "guard_st_literal_w" : tactic => do
  let g ← instantiateMVars (← getMainTarget)
  match g.getAppFnArgs with
  | (``DV.Node.WdInv, #[st]) => unless st.isAppOf ``DV.Node.St.mk do throwError "not a literal state"
  | _ => throwError "not a goal of the form WdInv _"

macro "w_hyp" : tactic => `(tactic| with_reducible assumption)
macro "w_lit" : tactic => `(tactic| (guard_st_literal_w; with_reducible apply w_mk'))

/-! ### connection updates -/

theorem w_modConn (s : St) (i : Nat) (f : Conn → Conn) (hf : ∀ c, c.wOk s.now → (f c).wOk s.now) (h : WdInv s) :
    WdInv (s.modConn i f) := by
  refine ⟨h.1, ?_⟩
  intro c' hc'
  simp only [St.modConn, List.mem_map] at hc'
  obtain ⟨c0, hc0, rfl⟩ := hc'
  show (if (c0.id == i) = true then f c0 else c0).wOk s.now
  split
  · exact hf c0 (h.2 c0 hc0)
  · exact h.2 c0 hc0

/-- discharges the side condition of `w_modConn` for a literal record update -/
macro "tamew" : tactic => `(tactic| (intro c hc; unfold Conn.wOk at hc ⊢; dsimp only; intro hst; first | exact hc hst | (exfalso; revert hst; cases c.state <;> simp [CState.isReady])))

theorem w_connClose (s : St) (cid : Nat) (b : Bool) (h : WdInv s) : WdInv (connClose s cid b) := by
  unfold connClose
  split
  · exact w_of_conns rfl rfl (w_modConn _ _ _ (by tamew) h)
  · exact w_modConn _ _ _ (by tamew) h

theorem w_modTApp (s : St) (i : Nat) (f : TApp → TApp) (h : WdInv s) : WdInv (s.modTApp i f) := h
theorem w_modApp (s : St) (i : Nat) (f : App → App) (h : WdInv s) : WdInv (s.modApp i f) := h
theorem w_modPeer (s : St) (i : Nat) (f : Peer → Peer) (h : WdInv s) : WdInv (s.modPeer i f) := h
theorem w_emit (s : St) (o : Out) (h : WdInv s) : WdInv (s.emit o) := h
theorem w_demand (s : St) (c : Nat) (h : WdInv s) : WdInv (demandAttention s c) := h
theorem w_setCrashed (s : St) (n : Nat) (h : WdInv s) : WdInv ({ s with crashed := n } : St) := h

macro "w_triv" : tactic => `(tactic| first
  | with_reducible apply w_modTApp | with_reducible apply w_modApp | with_reducible apply w_modPeer
  | with_reducible apply w_emit | with_reducible apply w_demand)

theorem removePeerConnection_now (s : St) (cid : Nat) (r : Reason) : (removePeerConnection s cid r).now = s.now := by
  unfold removePeerConnection
  cases hc : s.conn? cid with
  | none => rfl
  | some c =>
    simp only []
    repeat (first | rfl | split)

theorem w_removePeerConnection (s : St) (cid : Nat) (r : Reason) (h : WdInv s) : WdInv (removePeerConnection s cid r) :=
  w_of_conns (removePeerConnection_conns s cid r) (removePeerConnection_now s cid r) h

theorem w_closeConnectionSocket (s : St) (cid : Nat) (r : Reason) (h : WdInv s) : WdInv (closeConnectionSocket s cid r) := by
  unfold closeConnectionSocket
  apply w_removePeerConnection
  split
  · exact w_connClose _ _ _ (w_modConn _ _ _ (by tamew) h)
  · exact h

theorem w_recordAnswerState (s : St) (cid : Nat) (m : AMsg) (h : WdInv s) : WdInv (recordAnswerState s cid m) := by
  refine w_of_conns ?_ ?_ h
  · unfold recordAnswerState; repeat (first | rfl | split | dsimp only)
  · unfold recordAnswerState; repeat (first | rfl | split | dsimp only)

theorem w_sendMessage (s : St) (cid : Nat) (m : AMsg) (b : Bool) (h : WdInv s) : WdInv (sendMessage s cid m b).1 := by
  unfold sendMessage
  split
  · exact h
  · dsimp only
    split
    · apply w_recordAnswerState
      apply w_modConn _ _ _ (by tamew)
      exact w_of_conns rfl rfl h
    · exact w_modConn _ _ _ (by tamew) h

theorem w_foldl {α : Type} (f : St → α → St) (hf : ∀ s a, WdInv s → WdInv (f s a)) (l : List α) (s : St) (h : WdInv s) :
    WdInv (l.foldl f s) := by
  induction l generalizing s with
  | nil => exact h
  | cons a l ih => exact ih _ (hf s a h)

theorem w_foldlW {α : Type} (f : World → α → World) (hf : ∀ w a, WdInv w.st → WdInv (f w a).st) (l : List α) (w : World)
    (h : WdInv w.st) : WdInv (l.foldl f w).st := by
  induction l generalizing w with
  | nil => exact h
  | cons a l ih => exact ih _ (hf w a h)

/-- a new connection object is not awaiting a DWA -/
theorem w_addPeerConnection (s : St) (c : Conn) (hq : c.state ≠ .waitDwa) (h : WdInv s) : WdInv (addPeerConnection s c).1 := by
  have h1 : WdInv ({ s with conns := s.conns ++ [c] } : St) := by
    refine ⟨h.1, ?_⟩
    intro c' hc'
    rcases List.mem_append.mp hc' with hc' | hc'
    · exact h.2 c' hc'
    · have : c' = c := by simpa using hc'
      rw [this]
      intro hst; exact absurd hst hq
  unfold addPeerConnection
  dsimp only
  repeat (first | w_hyp | w_triv | split | dsimp only | with_reducible apply w_modConn _ _ _ (by tamew) | ((with_reducible apply w_mk' { s with conns := s.conns ++ [c] }); exact h1))

theorem w_routeAnswer (s s' : St) (m : AMsg) (cid : Nat) (hr : routeAnswer s m = .ok (s', cid)) (h : WdInv s) : WdInv s' := by
  unfold routeAnswer at hr
  simp only [] at hr
  repeat (first | contradiction | split at hr)
  all_goals (first | contradiction | (injection hr with hr; injection hr with h1 h2; subst h1; exact w_of_conns rfl rfl h))

theorem w_routeAnswerSideEffect (s : St) (m : AMsg) (h : WdInv s) : WdInv (routeAnswerSideEffect s m) := by
  unfold routeAnswerSideEffect
  split
  · exact h
  · exact w_of_conns rfl rfl h

/-- the composition tactic: peel known functions off the goal `f (g (… s)) ≼ s0` -/
macro "w_tac" : tactic => `(tactic| repeat (first
  | w_hyp
  | w_triv
  | w_lit
  | split
  | dsimp only
  | with_reducible apply w_modConn _ _ _ (by tamew)
  | with_reducible apply w_connClose
  | with_reducible apply w_removePeerConnection
  | with_reducible apply w_closeConnectionSocket
  | with_reducible apply w_recordAnswerState
  | with_reducible apply w_sendMessage))

theorem w_assignPeerConnection (s : St) (cid : Nat) (h : WdInv (s)) : WdInv (assignPeerConnection s cid) := by
  unfold assignPeerConnection; w_tac

theorem w_flagReady (s : St) (cid : Nat) (h : WdInv (s)) : WdInv (flagConnectionAsReady s cid) := by
  unfold flagConnectionAsReady
  exact w_of_conns rfl rfl (w_modConn _ _ _ (by tamew) h)

theorem w_cerNameAndElect (s : St) (cid : Nat) (hn : String) (h : WdInv (s)) : WdInv ((cerNameAndElect s cid hn).1) := by
  unfold cerNameAndElect
  have hf : ∀ (l : List Conn) (s : St), WdInv s → WdInv (l.foldl (fun s o => connClose s o.id true) s) :=
    fun l s hs => w_foldl _ (fun s a hs => w_connClose s a.id true hs) l s hs
  dsimp only
  repeat (first | w_hyp | w_triv | w_lit | split | with_reducible apply hf | with_reducible apply w_modConn _ _ _ (by tamew))

macro "w_tac2" : tactic => `(tactic| repeat (first
  | w_hyp
  | w_triv
  | w_lit
  | split
  | dsimp only
  | with_reducible apply w_modConn _ _ _ (by tamew)
  | with_reducible apply w_connClose
  | with_reducible apply w_removePeerConnection
  | with_reducible apply w_closeConnectionSocket
  | with_reducible apply w_recordAnswerState
  | with_reducible apply w_sendMessage
  | with_reducible apply w_assignPeerConnection
  | with_reducible apply w_flagReady
  | with_reducible apply w_cerNameAndElect))

theorem w_receiveCer (s : St) (cid : Nat) (m : AMsg) (info : MsgInfo) (h : WdInv (s)) : WdInv ((receiveCer s cid m info).1) := by
  unfold receiveCer; w_tac2

theorem w_receiveCea (s : St) (cid : Nat) (m : AMsg) (h : WdInv (s)) : WdInv ((receiveCea s cid m).1) := by
  unfold receiveCea; w_tac2

theorem w_receiveDpr (s : St) (cid : Nat) (m : AMsg) (info : MsgInfo) (h : WdInv (s)) : WdInv ((receiveDpr s cid m info).1) := by
  unfold receiveDpr; w_tac2

theorem w_receiveDpa (s : St) (cid : Nat) (h : WdInv (s)) : WdInv (receiveDpa s cid) := by
  unfold receiveDpa; w_tac2

theorem w_receiveDwa (s : St) (cid : Nat) (h : WdInv (s)) : WdInv (receiveDwa s cid) := by
  unfold receiveDwa; w_tac2

theorem w_receiveDwr (s : St) (cid : Nat) (m : AMsg) (info : MsgInfo) (h : WdInv (s)) : WdInv ((receiveDwr s cid m info).1) := by
  unfold receiveDwr; w_tac2

theorem w_appReceiveRequest (s : St) (ai : Nat) (m : AMsg) (h : WdInv (s)) : WdInv ((appReceiveRequest s ai m).1) := by
  unfold appReceiveRequest; w_tac2

theorem w_appReceiveAnswer (s : St) (ai : Nat) (m : AMsg) (h : WdInv (s)) : WdInv (appReceiveAnswer s ai m) := by
  unfold appReceiveAnswer; w_tac2

theorem w_receiveAppAnswer (s : St) (m : AMsg) (h : WdInv (s)) : WdInv (receiveAppAnswer s m) := by
  unfold receiveAppAnswer
  repeat (first | w_hyp | w_triv | w_lit | split | with_reducible apply w_appReceiveAnswer)

theorem w_recordOrigin (s : St) (cid : Nat) (m : AMsg) (info : MsgInfo) (h : WdInv (s)) : WdInv (recordOrigin s cid m info) := by
  unfold recordOrigin; w_tac2

theorem w_crashReader (s : St) (cid : Nat) (e : String) (h : WdInv (s)) : WdInv (crashReader s cid e) := by
  unfold crashReader
  exact w_of_conns rfl rfl (w_modConn _ _ _ (by tamew) (w_of_conns rfl rfl h))

theorem w_sendCer (s : St) (cid : Nat) (h : WdInv (s)) : WdInv (sendCer s cid) := by
  unfold sendCer; w_tac2

/-- the update `send_dwr` ends with: state and stamp are set together -/
theorem w_modConn_stamp (s : St) (i : Nat) (h : WdInv s) :
    WdInv (s.modConn i fun x => { x with state := if x.state.isReady then .waitDwa else x.state, lastDwr := s.now }) := by
  apply w_modConn _ _ _ _ h
  intro c hc
  unfold Conn.wOk
  dsimp only
  intro _
  exact ⟨h.1, Nat.le_refl _⟩

theorem w_sendDwr (s : St) (cid : Nat) (h : WdInv s) : WdInv (sendDwr s cid) := by
  unfold sendDwr
  split
  · exact h
  · dsimp only
    apply w_modConn_stamp
    apply w_sendMessage
    apply w_modConn _ _ _ (by tamew)
    exact w_of_conns rfl rfl h

theorem w_sendDpr (s : St) (cid : Nat) (h : WdInv (s)) : WdInv (sendDpr s cid) := by
  unfold sendDpr; w_tac2

macro "w_tac3" : tactic => `(tactic| repeat (first
  | w_hyp
  | w_triv
  | w_lit
  | split
  | dsimp only
  | with_reducible apply w_modConn _ _ _ (by tamew)
  | with_reducible apply w_connClose
  | with_reducible apply w_removePeerConnection
  | with_reducible apply w_closeConnectionSocket
  | with_reducible apply w_recordAnswerState
  | with_reducible apply w_sendMessage
  | with_reducible apply w_sendCer
  | with_reducible apply w_sendDwr
  | with_reducible apply w_sendDpr))

theorem w_checkTimers (s : St) (cid : Nat) (h : WdInv (s)) : WdInv (checkTimers s cid) := by
  unfold checkTimers; w_tac3

theorem w_connectToPeer (s : St) (pi : Nat) (h : WdInv (s)) : WdInv (connectToPeer s pi) := by
  unfold connectToPeer
  repeat (first
    | w_hyp
    | w_triv
    | w_lit
    | split
    | dsimp only
    | with_reducible apply w_modConn _ _ _ (by tamew)
    | with_reducible apply w_removePeerConnection
    | with_reducible apply w_closeConnectionSocket
    | with_reducible apply w_sendCer
    | apply w_addPeerConnection _ _ (by intro hh; cases hh))

theorem w_reconnectStep (s : St) (pi : Nat) (h : WdInv (s)) : WdInv (reconnectStep s pi) := by
  unfold reconnectStep
  repeat (first | w_hyp | w_triv | w_lit | split | with_reducible apply w_connectToPeer)

theorem w_reconnectPeers (s : St) (h : WdInv (s)) : WdInv (reconnectPeers s) := by
  unfold reconnectPeers
  split
  · exact h
  · exact w_foldl _ (fun s a hs => w_reconnectStep s a hs) _ _ h

theorem w_handleInterrupt (s : St) (h : WdInv (s)) : WdInv (handleInterrupt s) := by
  unfold handleInterrupt; w_tac3

theorem w_handleAccept (s : St) (h : WdInv (s)) : WdInv (handleAccept s) := by
  unfold handleAccept
  dsimp only
  exact w_addPeerConnection _ _ (by intro hh; cases hh) (w_of_conns rfl rfl h)

theorem w_connectResult (w : World) (cid : Nat) (c : Conn) (h : WdInv (w.st)) : WdInv ((connectResult w cid c).1.st) := by
  unfold connectResult; w_tac3

theorem w_flushWritable (w : World) (cid : Nat) (h : WdInv (w.st)) : WdInv ((flushWritable w cid).st) := by
  unfold flushWritable
  have hf : ∀ (l : List AMsg) (s : St), WdInv s → WdInv (l.foldl (fun s m => s.emit (.wrote cid m)) s) :=
    fun l s hs => w_foldl (fun s m => s.emit (.wrote cid m)) (fun s a hs => hs) l s hs
  repeat (first
    | w_hyp
    | w_triv
    | w_lit
    | split
    | dsimp only
    | simp only [popTx_st]
    | with_reducible apply w_modConn _ _ _ (by tamew)
    | with_reducible apply w_connClose
    | with_reducible apply w_closeConnectionSocket
    | with_reducible apply hf)

theorem w_handleWritable (w : World) (cid : Nat) (h : WdInv (w.st)) : WdInv ((handleWritable w cid).st) := by
  unfold handleWritable
  repeat (first | w_hyp | w_triv | w_lit | split | dsimp only | with_reducible apply w_flushWritable | with_reducible apply w_connectResult)

theorem w_pumpWriter (s : St) (cid : Nat) (h : WdInv (s)) : WdInv (pumpWriter s cid) := by
  unfold pumpWriter
  repeat (first | w_hyp | w_triv | w_lit | split | (apply w_foldl; intro s a hs; exact w_of_conns rfl rfl (w_modConn _ _ _ (by tamew) hs)))

/-! ### applications -/

theorem w_sendBuiltAnswer (s : St) (a : AMsg) (t : Bool) (h : WdInv (s)) : WdInv ((sendBuiltAnswer s a t).1) := by
  unfold sendBuiltAnswer
  split
  · exact w_routeAnswerSideEffect _ _ h
  · rename_i hr
    exact w_sendMessage _ _ _ _ (w_routeAnswer _ _ _ _ hr h)


theorem w_appRecvStep (infoOf : AMsg → MsgInfo) (ai mx : Nat) (s : St) (m : AMsg) (h : WdInv (s)) : WdInv (appRecvStep infoOf ai mx s m) := by
  unfold appRecvStep
  repeat (first | w_hyp | w_triv | w_lit | split | dsimp only | with_reducible apply w_emit | with_reducible apply w_sendBuiltAnswer | with_reducible apply w_setCrashed)

theorem w_pumpAppRecv (infoOf : AMsg → MsgInfo) (s : St) (ai : Nat) (h : WdInv (s)) : WdInv (pumpAppRecv infoOf s ai) := by
  unfold pumpAppRecv
  repeat (first | w_hyp | w_triv | w_lit | split | exact w_foldl _ (fun s a hs => w_appRecvStep infoOf ai _ s a hs) _ _ h)

theorem w_appRespStep (ai : Nat) (s : St) (m : AMsg) (h : WdInv (s)) : WdInv (appRespStep ai s m) := by
  unfold appRespStep
  repeat (first | w_hyp | w_triv | w_lit | split | dsimp only | with_reducible apply w_emit | with_reducible apply w_sendBuiltAnswer | with_reducible apply w_setCrashed)

theorem w_appRespNones (ai : Nat) (s : St) (h : WdInv (s)) : WdInv (appRespNones ai s) := by
  unfold appRespNones
  repeat (first | w_hyp | w_triv | w_lit | split | with_reducible apply w_modTApp)

theorem w_pumpAppResp (s : St) (ai : Nat) (h : WdInv (s)) : WdInv (pumpAppResp s ai) := by
  unfold pumpAppResp
  repeat (first | w_hyp | w_triv | w_lit | split | (apply w_appRespNones; exact w_foldl _ (fun s a hs => w_appRespStep ai s a hs) _ _ h))

theorem w_runHandler (infoOf : AMsg → MsgInfo) (s : St) (k : Nat) (h : WdInv (s)) : WdInv (runHandler infoOf s k) := by
  unfold runHandler
  repeat (first | w_hyp | w_triv | w_lit | split | dsimp only | with_reducible apply w_modTApp | with_reducible apply w_emit )

theorem w_appSendAnswer (s : St) (ai : Nat) (req : AMsg) (info : MsgInfo) (rc : Option Nat) (h : WdInv (s)) : WdInv (appSendAnswer s ai req info rc) := by
  unfold appSendAnswer
  dsimp only
  split
  · exact w_emit _ _ (w_routeAnswerSideEffect _ _ h)
  · rename_i hr
    split <;> exact w_emit _ _ (w_sendMessage _ _ _ _ (w_routeAnswer _ _ _ _ hr h))

theorem w_routeRequest (s s' : St) (ai : Nat) (m m' : AMsg) (info : MsgInfo) (cid : Nat)
    (hr : routeRequest s ai m info = .ok (s', cid, m')) (h : WdInv (s)) : WdInv (s') := by
  unfold routeRequest at hr
  simp only [] at hr
  repeat (first | contradiction | split at hr)
  all_goals (injection hr with hr; injection hr with h1 h2; subst h1)
  all_goals repeat (first | w_hyp | w_triv | w_lit | w_lit | split | dsimp only | with_reducible apply w_modConn _ _ _ (by tamew))

theorem w_appSendRequestBegin (s : St) (ai : Nat) (m : AMsg) (info : MsgInfo) (h : WdInv (s)) : WdInv ((appSendRequestBegin s ai m info).1) := by
  unfold appSendRequestBegin
  dsimp only
  split
  · split <;> exact w_of_conns rfl rfl h
  · rename_i hr
    apply w_sendMessage
    apply w_modApp
    refine w_routeRequest _ _ _ _ _ _ _ hr ?_
    split <;> exact w_of_conns rfl rfl h

theorem w_appSendRequestEnd (s : St) (ai : Nat) (hbh : Nat) (h : WdInv (s)) : WdInv ((appSendRequestEnd s ai hbh).1) := h

theorem w_stopBegin (s : St) (f : Bool) (h : WdInv (s)) : WdInv (stopBegin s f) := by
  unfold stopBegin
  dsimp only
  split
  · exact w_of_conns rfl rfl h
  · apply w_foldl
    · intro s a hs
      repeat (first | w_hyp | w_triv | w_lit | split | with_reducible apply w_sendDpr)
    · exact w_of_conns rfl rfl h

theorem w_stopFinal (s : St) (h : WdInv (s)) : WdInv (stopFinal s) := by
  unfold stopFinal
  apply w_foldl
  · intro s a hs
    exact w_connClose _ _ _ (w_closeConnectionSocket _ _ _ hs)
  · exact h

end DV.Node
