/-
  The invariant behind the whole-history theorem of C08 (Properties/C08Hist.lean):
  every message that has been handed to an application's request handler
  (`St.appRequests`, an append-only log), that waits in a threading
  application's receive queue, or that a started handler thread holds
  (`St.deferred`), is a *request* of a command other than the capabilities
  exchange, the watchdog and the disconnect-peer command.

  Such a message gets there through `_receive_app_request` only, which the
  command switch of `_receive_message` reaches only in its last branch.
-/
import DV.Proofs.NodeTView
import DV.Proofs.NodeAppReq
import DV.Model.NodeOps
namespace DV.Node

/-- what may be handed to an application's request handler -/
def okReq (m : AMsg) : Prop := m.isRequest = true ∧ m.cmd ≠ 257 ∧ m.cmd ≠ 280 ∧ m.cmd ≠ 282

def AR (s : St) : Prop :=
  (∀ p ∈ s.appRequests, okReq p.2) ∧ (∀ t ∈ s.tapps, ∀ m ∈ t.recvQ, okReq m) ∧ (∀ p ∈ s.deferred, okReq p.2)

theorem AR_same {s s' : St} (h : AR s) (h1 : s'.appRequests = s.appRequests) (h2 : s'.tapps = s.tapps)
    (h3 : s'.deferred = s.deferred) : AR s' := by
  unfold AR at *
  rw [h1, h2, h3]; exact h

/-- an update of the threading applications' records that adds nothing to a receive queue -/
theorem AR_modTApp {s : St} (h : AR s) (i : Nat) (f : TApp → TApp) (hf : ∀ t, ∀ m ∈ (f t).recvQ, m ∈ t.recvQ) :
    AR (s.modTApp i f) := by
  refine ⟨h.1, ?_, h.2.2⟩
  intro t ht m hm
  simp only [St.modTApp, List.mem_mapIdx] at ht
  obtain ⟨k, hk, rfl⟩ := ht
  split at hm
  · exact h.2.1 _ (List.getElem_mem hk) m (hf _ m hm)
  · exact h.2.1 _ (List.getElem_mem hk) m hm

macro "ar_same" h:ident : tactic => `(tactic| exact AR_same $h (by simp) (by simp) (by simp))

theorem AR_sendMessage (s : St) (cid : Nat) (m : AMsg) (b : Bool) (h : AR s) : AR (sendMessage s cid m b).1 := by ar_same h

theorem AR_appReceiveRequest (s : St) (ai : Nat) (m : AMsg) (hm : okReq m) (h : AR s) : AR (appReceiveRequest s ai m).1 := by
  unfold appReceiveRequest
  split
  · refine ⟨h.1, ?_, h.2.2⟩
    intro t ht m' hm'
    simp only [St.modTApp, List.mem_mapIdx] at ht
    obtain ⟨k, hk, rfl⟩ := ht
    split at hm'
    · rcases List.mem_append.mp hm' with hm' | hm'
      · exact h.2.1 _ (List.getElem_mem hk) m' hm'
      · have : m' = m := by simpa using hm'
        rw [this]; exact hm
    · exact h.2.1 _ (List.getElem_mem hk) m' hm'
  · have h1 : AR ({ s with appRequests := s.appRequests ++ [(ai, m)] } : St) := by
      refine ⟨?_, h.2.1, h.2.2⟩
      intro p hp
      rcases List.mem_append.mp hp with hp | hp
      · exact h.1 p hp
      · have : p = (ai, m) := by simpa using hp
        rw [this]; exact hm
    repeat (first | exact h1 | split | dsimp only)

theorem AR_receiveAppRequest (s : St) (cid : Nat) (m : AMsg) (info : MsgInfo) (hm : okReq m) (h : AR s) :
    AR (receiveAppRequest s cid m info).1 := by
  unfold receiveAppRequest
  repeat (first
    | exact h
    | exact AR_sendMessage _ _ _ _ h
    | (apply AR_appReceiveRequest _ _ _ hm; exact AR_same h rfl rfl rfl)
    | split
    | dsimp only)

theorem AR_handleByCommand (s : St) (cid : Nat) (m : AMsg) (info : MsgInfo) (h : AR s) : AR (handleByCommand s cid m info).1 := by
  unfold handleByCommand
  dsimp only
  have h0 : AR (if m.isRequest = true then
      match (s.conn? cid).bind (findConnectionPeer s) with
      | some pi => s.modPeer pi fun p => { p with requests := p.requests + 1 }
      | none => s
    else s) := by
    repeat (first | exact h | exact AR_same h rfl rfl rfl | split)
  generalize (if m.isRequest = true then
      match (s.conn? cid).bind (findConnectionPeer s) with
      | some pi => s.modPeer pi fun p => { p with requests := p.requests + 1 }
      | none => s
    else s) = s1 at h0
  split
  · split
    · ar_same h0
    · ar_same h0
  · rename_i h257
    split
    · split
      · ar_same h0
      · ar_same h0
    · rename_i h280
      split
      · split
        · ar_same h0
        · ar_same h0
      · rename_i h282
        split
        · rename_i hr
          refine AR_receiveAppRequest s1 cid m info ⟨hr, ?_, ?_, ?_⟩ h0
          · simpa using h257
          · simpa using h280
          · simpa using h282
        · ar_same h0

theorem AR_crashReader (s : St) (cid : Nat) (e : String) (h : AR s) : AR (crashReader s cid e) := by
  unfold crashReader
  exact AR_same h rfl rfl rfl

theorem AR_receiveMessage (s : St) (cid : Nat) (m : AMsg) (info : MsgInfo) (h : AR s) : AR (receiveMessage s cid m info) := by
  unfold receiveMessage
  dsimp only
  have h1 : AR (recordOrigin s cid m info) := by ar_same h
  have hb := AR_handleByCommand (recordOrigin s cid m info) cid m info h1
  split
  · exact AR_crashReader _ _ _ h1
  · split
    · split
      · exact AR_sendMessage _ _ _ _ h1
      · exact AR_crashReader _ _ _ (AR_sendMessage _ _ _ _ h1)
    · split
      · split
        · exact AR_sendMessage _ _ _ _ h1
        · exact AR_crashReader _ _ _ (AR_sendMessage _ _ _ _ h1)
      · split
        · rename_i s' heq
          rw [heq] at hb; exact hb
        · rename_i s' e heq
          rw [heq] at hb
          split
          · exact hb
          · split
            · exact AR_sendMessage _ _ _ _ hb
            · exact AR_crashReader _ _ _ (AR_sendMessage _ _ _ _ hb)

theorem AR_dispatchMessage (s : St) (cid : Nat) (m : AMsg) (info : MsgInfo) (h : AR s) : AR (dispatchMessage s cid m info) := by
  unfold dispatchMessage
  repeat (first | exact h | exact AR_receiveMessage s cid m info h | split)

theorem AR_foldl {α : Type} (f : St → α → St) (hf : ∀ s a, AR s → AR (f s a)) (l : List α) (s : St) (h : AR s) : AR (l.foldl f s) := by
  induction l generalizing s with
  | nil => exact h
  | cons a l ih => exact ih _ (hf s a h)

theorem AR_pumpReader (infoOf : AMsg → MsgInfo) (s : St) (cid : Nat) (h : AR s) : AR (pumpReader infoOf s cid) := by
  unfold pumpReader
  split
  · exact h
  · split
    · exact h
    · split
      · exact h
      · dsimp only
        apply AR_foldl
        · intro s a hs
          repeat (first | exact hs | exact AR_dispatchMessage s cid a (infoOf a) hs | split)
        · exact AR_same h rfl rfl rfl

theorem AR_pumpWriter (s : St) (cid : Nat) (h : AR s) : AR (pumpWriter s cid) :=
  AR_same h (appRequests_pumpWriter s cid) (tapps_pumpWriter s cid) (deferred_pumpWriter s cid)

theorem AR_sendBuiltAnswer (s : St) (a : AMsg) (t : Bool) (h : AR s) : AR (sendBuiltAnswer s a t).1 := by ar_same h

/-- one turn of the receive-queue consumer: the message it moves on comes from the receive queue -/
theorem AR_appRecvStep (infoOf : AMsg → MsgInfo) (ai mx : Nat) (s : St) (m : AMsg) (hm : okReq m) (h : AR s) :
    AR (appRecvStep infoOf ai mx s m) := by
  unfold appRecvStep
  split
  · exact h
  · split
    · exact h
    · dsimp only
      have h1 : AR (s.modTApp ai fun a => { a with recvQ := a.recvQ.drop 1 }) :=
        AR_modTApp h _ _ (fun t m hm => List.mem_of_mem_drop hm)
      split
      · have h2 := AR_sendBuiltAnswer _ (generateAnswer (s.modTApp ai fun a => { a with recvQ := a.recvQ.drop 1 }) m (infoOf m) (some 3004))
          (infoOf m).ansTyped h1
        split
        · exact h2
        · exact AR_modTApp (AR_same h2 rfl rfl rfl) _ _ (fun t m hm => hm)
      · have h2 : AR ((s.modTApp ai fun a => { a with recvQ := a.recvQ.drop 1 }).modTApp ai fun a => { a with slots := a.slots + 1 }) :=
          AR_modTApp h1 _ _ (fun t m hm => hm)
        refine ⟨h2.1, h2.2.1, ?_⟩
        intro p hp
        rcases List.mem_append.mp hp with hp | hp
        · exact h2.2.2 p hp
        · have : p = (ai, m) := by simpa using hp
          rw [this]; exact hm

theorem AR_pumpAppRecv (infoOf : AMsg → MsgInfo) (s : St) (ai : Nat) (h : AR s) : AR (pumpAppRecv infoOf s ai) := by
  unfold pumpAppRecv
  split
  · rename_i a t ha ht
    split
    · exact h
    · have hq : ∀ m ∈ t.recvQ, okReq m := fun m hm => h.2.1 t (List.mem_of_getElem? ht) m hm
      generalize t.recvQ = q at hq
      clear ha ht
      induction q generalizing s with
      | nil => exact h
      | cons m ms ih =>
        simp only [List.foldl_cons]
        exact ih _ (AR_appRecvStep infoOf ai _ s m (hq m (List.mem_cons_self ..)) h) (fun m' hm' => hq m' (List.mem_cons_of_mem _ hm'))
  · exact h

theorem AR_appRespStep (ai : Nat) (s : St) (m : AMsg) (h : AR s) : AR (appRespStep ai s m) := by
  unfold appRespStep
  split
  · exact h
  · split
    · exact h
    · dsimp only
      have h1 : AR (s.modTApp ai fun a => { a with respQ := a.respQ.drop 1, slots := a.slots - 1 }) :=
        AR_modTApp h _ _ (fun t m hm => hm)
      have h2 := AR_sendBuiltAnswer _ m true h1
      split
      · exact h2
      · exact AR_modTApp (AR_same h2 rfl rfl rfl) _ _ (fun t m hm => hm)

theorem AR_appRespNones (ai : Nat) (s : St) (h : AR s) : AR (appRespNones ai s) := by
  unfold appRespNones
  repeat (first | exact h | exact AR_modTApp h _ _ (fun t m hm => hm) | split)

theorem AR_pumpAppResp (s : St) (ai : Nat) (h : AR s) : AR (pumpAppResp s ai) := by
  unfold pumpAppResp
  repeat (first | exact h | split | (apply AR_appRespNones; exact AR_foldl _ (fun s a hs => AR_appRespStep ai s a hs) _ _ h))

/-- a started handler thread runs: the request it holds is handed to the handler -/
theorem AR_runHandler (infoOf : AMsg → MsgInfo) (s : St) (k : Nat) (h : AR s) : AR (runHandler infoOf s k) := by
  unfold runHandler
  split
  · exact h
  · rename_i ai m hk
    have hm : okReq m := h.2.2 (ai, m) (List.mem_of_getElem? hk)
    have h1 : AR ({ s with deferred := s.deferred.eraseIdx k, appRequests := s.appRequests ++ [(ai, m)] } : St) := by
      refine ⟨?_, h.2.1, ?_⟩
      · intro p hp
        rcases List.mem_append.mp hp with hp | hp
        · exact h.1 p hp
        · have : p = (ai, m) := by simpa using hp
          rw [this]; exact hm
      · intro p hp
        exact h.2.2 p (List.mem_of_mem_eraseIdx hp)
    dsimp only
    repeat (first | exact h1 | exact AR_same h1 rfl rfl rfl | exact AR_modTApp (AR_same h1 rfl rfl rfl) _ _ (fun t m hm => hm) | split)

theorem AR_pumpAll (infoOf : AMsg → MsgInfo) (s : St) (h : AR s) : AR (pumpAll infoOf s) := by
  unfold pumpAll
  dsimp only
  apply AR_foldl
  · intro s ai hs
    exact AR_pumpAppResp _ _ (AR_pumpAppRecv infoOf _ _ hs)
  · apply AR_foldl
    · intro s c hs
      apply AR_pumpWriter
      apply AR_foldl
      · intro s _ hs; exact AR_pumpReader infoOf s c.id hs
      · exact hs
    · exact h

theorem AR_ioIteration (w : World) (h : AR w.st) : AR (ioIteration w).st := by ar_same h

theorem AR_settle (infoOf : AMsg → MsgInfo) (n : Nat) (w : World) (h : AR w.st) : AR (settle infoOf n w).st := by
  induction n generalizing w with
  | zero => exact h
  | succ n ih =>
    unfold settle
    dsimp only
    have h2 : AR ({ ioIteration w with st := pumpAll infoOf (ioIteration w).st } : World).st := AR_pumpAll infoOf _ (AR_ioIteration w h)
    split
    · exact ih _ h2
    · exact h2

end DV.Node
