import DV.Model.NodeLoop
namespace DV.Node

/-- The write queues of all connections (what will be transmitted). -/
def outQs (s : St) : List (Nat × List AMsg) := s.conns.map fun c => (c.id, c.outQ)

theorem outQs_modConn (s : St) (id : Nat) (f : Conn → Conn)
    (h : ∀ c, (f c).outQ = c.outQ ∧ (f c).id = c.id) : outQs (s.modConn id f) = outQs s := by
  simp only [outQs, St.modConn, List.map_map]
  apply List.map_congr_left
  intro c _
  simp only [Function.comp]
  split
  · simp [(h c).1, (h c).2]
  · rfl

@[simp] theorem outQs_modPeer (s : St) (i : Nat) (f : Peer → Peer) : outQs (s.modPeer i f) = outQs s := rfl
@[simp] theorem outQs_modApp (s : St) (i : Nat) (f : App → App) : outQs (s.modApp i f) = outQs s := rfl
@[simp] theorem outQs_emit (s : St) (o : Out) : outQs (s.emit o) = outQs s := rfl
@[simp] theorem outQs_demand (s : St) (c : Nat) : outQs (demandAttention s c) = outQs s := rfl

@[simp] theorem outQs_connClose (s : St) (cid : Nat) (b : Bool) : outQs (connClose s cid b) = outQs s := by
  unfold connClose
  have h := outQs_modConn s cid (fun c => { c with state := .closed, workersStopped := true }) (by intro c; exact ⟨rfl, rfl⟩)
  split
  · simp [h]
  · exact h

theorem removePeerConnection_conns (s : St) (cid : Nat) (r : Reason) :
    (removePeerConnection s cid r).conns = s.conns := by
  unfold removePeerConnection
  cases hc : s.conn? cid with
  | none => rfl
  | some c =>
    simp only []
    repeat (first | rfl | split)

@[simp] theorem outQs_removePeerConnection (s : St) (cid : Nat) (r : Reason) :
    outQs (removePeerConnection s cid r) = outQs s := by
  simp only [outQs, removePeerConnection_conns]

@[simp] theorem outQs_closeConnectionSocket (s : St) (cid : Nat) (r : Reason) :
    outQs (closeConnectionSocket s cid r) = outQs s := by
  unfold closeConnectionSocket
  split
  · simp only [outQs_removePeerConnection, outQs_connClose]
    exact outQs_modConn s cid _ (by intro c; exact ⟨rfl, rfl⟩)
  · simp

@[simp] theorem outQs_assignPeerConnection (s : St) (cid : Nat) : outQs (assignPeerConnection s cid) = outQs s := by
  unfold assignPeerConnection
  split
  · rfl
  · split
    · rfl
    · split
      · rfl
      · dsimp only
        split <;> rfl

@[simp] theorem outQs_flagReady (s : St) (cid : Nat) : outQs (flagConnectionAsReady s cid) = outQs s := by
  unfold flagConnectionAsReady
  exact outQs_modConn s cid _ (by intro c; exact ⟨rfl, rfl⟩)

end DV.Node
