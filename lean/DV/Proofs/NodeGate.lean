/-
  "The capabilities exchange is not re-entered": the pre-order `s' ⊒ s` on node
  states says that connection objects are only ever appended (a new one taking
  its position as id), keep their id, and are in a pre-exchange state
  (CONNECTING / CONNECTED) only if they were before or are new.  One lemma per
  node function, in continuation form (`s ⊒ s0 → f s ⊒ s0`), composed by the
  same tactic as Proofs/NodeSound.lean.
  (The second half of this file is the text of NodeSound.lean with the relation
  replaced; the leaf lemmas are written for this relation.)
-/
import DV.Proofs.NodeSound
import DV.Proofs.NodeQ
namespace DV.Node

/-- the connection has not completed (or failed) its capabilities exchange -/
def Conn.preB (c : Conn) : Bool := c.state == .connecting || c.state == .connected

/-- connections are appended, keep their ids, and do not (re-)enter the pre-exchange states -/
def Ge (s' s : St) : Prop :=
  s.conns.length ≤ s'.conns.length ∧
  ∀ (i : Nat) (c' : Conn), s'.conns[i]? = some c' →
    match s.conns[i]? with
    | some c => c'.id = c.id ∧ (c'.preB = true → c.preB = true)
    | none => c'.id = i

infix:50 " ⊒ " => Ge

theorem Ge.refl (s : St) : s ⊒ s := by
  refine ⟨Nat.le_refl _, ?_⟩
  intro i c' h
  rw [h]
  exact ⟨rfl, id⟩

theorem Ge.trans {a b c : St} (h1 : a ⊒ b) (h2 : b ⊒ c) : a ⊒ c := by
  refine ⟨Nat.le_trans h2.1 h1.1, ?_⟩
  intro i ca ha
  have r1 := h1.2 i ca ha
  cases hb : b.conns[i]? with
  | some cb =>
    rw [hb] at r1
    have r2 := h2.2 i cb hb
    cases hc : c.conns[i]? with
    | some cc =>
      rw [hc] at r2
      exact ⟨r1.1.trans r2.1, fun h => r2.2 (r1.2 h)⟩
    | none =>
      rw [hc] at r2
      show ca.id = i
      rw [r1.1]; exact r2
  | none =>
    rw [hb] at r1
    have : c.conns[i]? = none := by
      rw [List.getElem?_eq_none_iff] at hb ⊢
      exact Nat.le_trans h2.1 hb
    rw [this]
    exact r1

theorem ge_of_conns {s' s s0 : St} (h2 : s'.conns = s.conns) (h : s ⊒ s0) : s' ⊒ s0 := by
  unfold Ge at *
  rw [h2]; exact h

/-- a literal state whose `conns` are those of `s'` -/
theorem ge_mk' (s' : St) {cfg now peers apps routes connections peerSockets socketPeers halfReady appWaiting peerWaiting
    originWaiting sentAnswers e2e nextHbhSeed stopping started pipe dialPlan appRequests delivered inProgress tapps
    deferred crashed outs} {s0 : St} (h : s' ⊒ s0) :
    (St.mk cfg now peers apps routes s'.conns connections peerSockets socketPeers halfReady appWaiting peerWaiting
      originWaiting sentAnswers e2e nextHbhSeed stopping started pipe dialPlan appRequests delivered inProgress tapps
      deferred crashed outs) ⊒ s0 := h

open Lean Elab Tactic Meta in
elab "guard_st_literal_ge" : tactic => do
  let g ← instantiateMVars (← getMainTarget)
  match g.getAppFnArgs with
  | (``DV.Node.Ge, #[lhs, _]) => unless lhs.isAppOf ``DV.Node.St.mk do throwError "not a literal state"
  | _ => throwError "not a goal of the form _ ⊒ _"

macro "ge_hyp" : tactic => `(tactic| with_reducible assumption)
macro "ge_lit" : tactic => `(tactic| (guard_st_literal_ge; with_reducible apply ge_mk'))

/-! ### connection updates -/

theorem ge_modConn (s : St) (i : Nat) (f : Conn → Conn) {s0 : St}
    (hf : ∀ c, (f c).id = c.id ∧ ((f c).preB = true → c.preB = true)) (h : s ⊒ s0) : s.modConn i f ⊒ s0 := by
  refine Ge.trans ?_ h
  refine ⟨by simp [St.modConn], ?_⟩
  intro k c' hk
  simp only [St.modConn, List.getElem?_map] at hk
  cases hs : s.conns[k]? with
  | none => rw [hs] at hk; simp at hk
  | some c =>
    rw [hs] at hk
    simp only [Option.map_some, Option.some.injEq] at hk
    subst hk
    show (if (c.id == i) = true then f c else c).id = c.id ∧ ((if (c.id == i) = true then f c else c).preB = true → c.preB = true)
    split
    · exact hf c
    · exact ⟨rfl, id⟩

/-- discharges the side condition of `ge_modConn` for a literal record update -/
macro "tamep" : tactic => `(tactic| (intro c; refine ⟨rfl, ?_⟩; first | exact id | (cases hcs : c.state <;> (simp_all [Conn.preB, CState.isReady]; done))))

theorem ge_connClose (s : St) (cid : Nat) (b : Bool) {s0 : St} (h : s ⊒ s0) : connClose s cid b ⊒ s0 := by
  unfold connClose
  split
  · exact ge_of_conns rfl (ge_modConn _ _ _ (by tamep) h)
  · exact ge_modConn _ _ _ (by tamep) h

theorem ge_modTApp (s : St) (i : Nat) (f : TApp → TApp) {s0 : St} (h : s ⊒ s0) : s.modTApp i f ⊒ s0 := h
theorem ge_modApp (s : St) (i : Nat) (f : App → App) {s0 : St} (h : s ⊒ s0) : s.modApp i f ⊒ s0 := h
theorem ge_modPeer (s : St) (i : Nat) (f : Peer → Peer) {s0 : St} (h : s ⊒ s0) : s.modPeer i f ⊒ s0 := h
theorem ge_emit (s : St) (o : Out) {s0 : St} (h : s ⊒ s0) : s.emit o ⊒ s0 := h
theorem ge_demand (s : St) (c : Nat) {s0 : St} (h : s ⊒ s0) : demandAttention s c ⊒ s0 := h
theorem ge_setCrashed (s : St) (n : Nat) {s0 : St} (h : s ⊒ s0) : ({ s with crashed := n } : St) ⊒ s0 := h

macro "ge_triv" : tactic => `(tactic| first
  | with_reducible apply ge_modTApp | with_reducible apply ge_modApp | with_reducible apply ge_modPeer
  | with_reducible apply ge_emit | with_reducible apply ge_demand)

theorem ge_removePeerConnection (s : St) (cid : Nat) (r : Reason) {s0 : St} (h : s ⊒ s0) :
    removePeerConnection s cid r ⊒ s0 :=
  ge_of_conns (removePeerConnection_conns s cid r) h

theorem ge_closeConnectionSocket (s : St) (cid : Nat) (r : Reason) {s0 : St} (h : s ⊒ s0) :
    closeConnectionSocket s cid r ⊒ s0 := by
  unfold closeConnectionSocket
  apply ge_removePeerConnection
  split
  · exact ge_connClose _ _ _ (ge_modConn _ _ _ (by tamep) h)
  · exact h

theorem ge_recordAnswerState (s : St) (cid : Nat) (m : AMsg) {s0 : St} (h : s ⊒ s0) : recordAnswerState s cid m ⊒ s0 := by
  refine ge_of_conns ?_ h
  unfold recordAnswerState; repeat (first | rfl | split | dsimp only)

theorem ge_sendMessage (s : St) (cid : Nat) (m : AMsg) (b : Bool) {s0 : St} (h : s ⊒ s0) : (sendMessage s cid m b).1 ⊒ s0 := by
  unfold sendMessage
  split
  · exact h
  · dsimp only
    split
    · apply ge_recordAnswerState
      apply ge_modConn _ _ _ (by tamep)
      exact ge_of_conns rfl h
    · exact ge_modConn _ _ _ (by tamep) h

theorem ge_foldl {α : Type} (f : St → α → St) {s0 : St} (hf : ∀ s a, s ⊒ s0 → f s a ⊒ s0) (l : List α) (s : St)
    (h : s ⊒ s0) : l.foldl f s ⊒ s0 := by
  induction l generalizing s with
  | nil => exact h
  | cons a l ih => exact ih _ (hf s a h)

theorem ge_foldlW {α : Type} (f : World → α → World) {s0 : St} (hf : ∀ w a, w.st ⊒ s0 → (f w a).st ⊒ s0) (l : List α)
    (w : World) (h : w.st ⊒ s0) : (l.foldl f w).st ⊒ s0 := by
  induction l generalizing w with
  | nil => exact h
  | cons a l ih => exact ih _ (hf w a h)

/-- a new connection object takes its position as id -/
theorem ge_addPeerConnection (s : St) (c : Conn) (hq : c.id = s.conns.length) {s0 : St} (h : s ⊒ s0) : (addPeerConnection s c).1 ⊒ s0 := by
  have h1 : ({ s with conns := s.conns ++ [c] } : St) ⊒ s0 := by
    refine Ge.trans ?_ h
    refine ⟨by simp, ?_⟩
    intro k c' hk
    dsimp only at hk
    cases hs : s.conns[k]? with
    | some c0 =>
      have : (s.conns ++ [c])[k]? = some c0 := by
        rw [List.getElem?_append_left]
        · exact hs
        · exact (List.getElem?_eq_some_iff.mp hs).1
      rw [this] at hk
      injection hk with hk
      subst hk
      exact ⟨rfl, id⟩
    | none =>
      have hlen : s.conns.length ≤ k := List.getElem?_eq_none_iff.mp hs
      rw [List.getElem?_append_right hlen] at hk
      have hk0 : k - s.conns.length = 0 := by
        cases hkk : k - s.conns.length with
        | zero => rfl
        | succ n => rw [hkk] at hk; simp at hk
      rw [hk0] at hk
      have : c' = c := by simpa using hk.symm
      subst this
      show c'.id = k
      omega
  unfold addPeerConnection
  dsimp only
  repeat (first | ge_hyp | ge_triv | split | dsimp only | with_reducible apply ge_modConn _ _ _ (by tamep) | ((with_reducible apply ge_mk' { s with conns := s.conns ++ [c] }); exact h1))

/-- the composition tactic: peel known functions off the goal `f (g (… s)) ⊒ s0` -/
macro "ge_tac" : tactic => `(tactic| repeat (first
  | ge_hyp
  | ge_triv
  | ge_lit
  | split
  | dsimp only
  | with_reducible apply ge_modConn _ _ _ (by tamep)
  | with_reducible apply ge_connClose
  | with_reducible apply ge_removePeerConnection
  | with_reducible apply ge_closeConnectionSocket
  | with_reducible apply ge_recordAnswerState
  | with_reducible apply ge_sendMessage))

theorem ge_assignPeerConnection (s : St) (cid : Nat) {s0 : St} (h : s ⊒ s0) : assignPeerConnection s cid ⊒ s0 := by
  unfold assignPeerConnection; ge_tac

theorem ge_flagReady (s : St) (cid : Nat) {s0 : St} (h : s ⊒ s0) : flagConnectionAsReady s cid ⊒ s0 := by
  unfold flagConnectionAsReady
  exact ge_of_conns rfl (ge_modConn _ _ _ (by tamep) h)

theorem ge_cerNameAndElect (s : St) (cid : Nat) (hn : String) {s0 : St} (h : s ⊒ s0) : (cerNameAndElect s cid hn).1 ⊒ s0 := by
  unfold cerNameAndElect
  have hf : ∀ (l : List Conn) (s : St), s ⊒ s0 → (l.foldl (fun s o => connClose s o.id true) s) ⊒ s0 :=
    fun l s hs => ge_foldl _ (fun s a hs => ge_connClose s a.id true hs) l s hs
  dsimp only
  repeat (first | ge_hyp | ge_triv | ge_lit | split | with_reducible apply hf | with_reducible apply ge_modConn _ _ _ (by tamep))

macro "ge_tac2" : tactic => `(tactic| repeat (first
  | ge_hyp
  | ge_triv
  | ge_lit
  | split
  | dsimp only
  | with_reducible apply ge_modConn _ _ _ (by tamep)
  | with_reducible apply ge_connClose
  | with_reducible apply ge_removePeerConnection
  | with_reducible apply ge_closeConnectionSocket
  | with_reducible apply ge_recordAnswerState
  | with_reducible apply ge_sendMessage
  | with_reducible apply ge_assignPeerConnection
  | with_reducible apply ge_flagReady
  | with_reducible apply ge_cerNameAndElect))

theorem ge_receiveCer (s : St) (cid : Nat) (m : AMsg) (info : MsgInfo) {s0 : St} (h : s ⊒ s0) : (receiveCer s cid m info).1 ⊒ s0 := by
  unfold receiveCer; ge_tac2

theorem ge_receiveCea (s : St) (cid : Nat) (m : AMsg) {s0 : St} (h : s ⊒ s0) : (receiveCea s cid m).1 ⊒ s0 := by
  unfold receiveCea; ge_tac2

theorem ge_receiveDpr (s : St) (cid : Nat) (m : AMsg) (info : MsgInfo) {s0 : St} (h : s ⊒ s0) : (receiveDpr s cid m info).1 ⊒ s0 := by
  unfold receiveDpr; ge_tac2

theorem ge_receiveDpa (s : St) (cid : Nat) {s0 : St} (h : s ⊒ s0) : receiveDpa s cid ⊒ s0 := by
  unfold receiveDpa; ge_tac2

theorem ge_receiveDwa (s : St) (cid : Nat) {s0 : St} (h : s ⊒ s0) : receiveDwa s cid ⊒ s0 := by
  unfold receiveDwa; ge_tac2

theorem ge_receiveDwr (s : St) (cid : Nat) (m : AMsg) (info : MsgInfo) {s0 : St} (h : s ⊒ s0) : (receiveDwr s cid m info).1 ⊒ s0 := by
  unfold receiveDwr; ge_tac2

theorem ge_appReceiveRequest (s : St) (ai : Nat) (m : AMsg) {s0 : St} (h : s ⊒ s0) : (appReceiveRequest s ai m).1 ⊒ s0 := by
  unfold appReceiveRequest; ge_tac2

theorem ge_appReceiveAnswer (s : St) (ai : Nat) (m : AMsg) {s0 : St} (h : s ⊒ s0) : appReceiveAnswer s ai m ⊒ s0 := by
  unfold appReceiveAnswer; ge_tac2

theorem ge_receiveAppAnswer (s : St) (m : AMsg) {s0 : St} (h : s ⊒ s0) : receiveAppAnswer s m ⊒ s0 := by
  unfold receiveAppAnswer
  repeat (first | ge_hyp | ge_triv | ge_lit | split | with_reducible apply ge_appReceiveAnswer)

theorem ge_recordOrigin (s : St) (cid : Nat) (m : AMsg) (info : MsgInfo) {s0 : St} (h : s ⊒ s0) : recordOrigin s cid m info ⊒ s0 := by
  unfold recordOrigin; ge_tac2

theorem ge_crashReader (s : St) (cid : Nat) (e : String) {s0 : St} (h : s ⊒ s0) : crashReader s cid e ⊒ s0 := by
  unfold crashReader
  exact ge_of_conns rfl (ge_modConn _ _ _ (by tamep) (ge_of_conns rfl h))

theorem ge_sendCer (s : St) (cid : Nat) {s0 : St} (h : s ⊒ s0) : sendCer s cid ⊒ s0 := by
  unfold sendCer; ge_tac2

theorem ge_sendDwr (s : St) (cid : Nat) {s0 : St} (h : s ⊒ s0) : sendDwr s cid ⊒ s0 := by
  unfold sendDwr; ge_tac2

theorem ge_sendDpr (s : St) (cid : Nat) {s0 : St} (h : s ⊒ s0) : sendDpr s cid ⊒ s0 := by
  unfold sendDpr; ge_tac2

macro "ge_tac3" : tactic => `(tactic| repeat (first
  | ge_hyp
  | ge_triv
  | ge_lit
  | split
  | dsimp only
  | with_reducible apply ge_modConn _ _ _ (by tamep)
  | with_reducible apply ge_connClose
  | with_reducible apply ge_removePeerConnection
  | with_reducible apply ge_closeConnectionSocket
  | with_reducible apply ge_recordAnswerState
  | with_reducible apply ge_sendMessage
  | with_reducible apply ge_sendCer
  | with_reducible apply ge_sendDwr
  | with_reducible apply ge_sendDpr))

theorem ge_checkTimers (s : St) (cid : Nat) {s0 : St} (h : s ⊒ s0) : checkTimers s cid ⊒ s0 := by
  unfold checkTimers; ge_tac3

theorem ge_handleInterrupt (s : St) {s0 : St} (h : s ⊒ s0) : handleInterrupt s ⊒ s0 := by
  unfold handleInterrupt; ge_tac3

theorem ge_handleAccept (s : St) {s0 : St} (h : s ⊒ s0) : handleAccept s ⊒ s0 := by
  unfold handleAccept
  dsimp only
  exact ge_addPeerConnection _ _ rfl h

theorem ge_flushWritable (w : World) (cid : Nat) {s0 : St} (h : w.st ⊒ s0) : (flushWritable w cid).st ⊒ s0 := by
  unfold flushWritable
  have hf : ∀ (l : List AMsg) (s : St), s ⊒ s0 → (l.foldl (fun s m => s.emit (.wrote cid m)) s) ⊒ s0 :=
    fun l s hs => ge_foldl (fun s m => s.emit (.wrote cid m)) (fun s a hs => hs) l s hs
  repeat (first
    | ge_hyp
    | ge_triv
    | ge_lit
    | split
    | dsimp only
    | simp only [popTx_st]
    | with_reducible apply ge_modConn _ _ _ (by tamep)
    | with_reducible apply ge_connClose
    | with_reducible apply ge_closeConnectionSocket
    | with_reducible apply hf)

theorem ge_pumpWriter (s : St) (cid : Nat) {s0 : St} (h : s ⊒ s0) : pumpWriter s cid ⊒ s0 := by
  unfold pumpWriter
  repeat (first | ge_hyp | ge_triv | ge_lit | split | (apply ge_foldl; intro s a hs; exact ge_of_conns rfl (ge_modConn _ _ _ (by tamep) hs)))

/-! ### applications -/

theorem ge_routeAnswer (s s' : St) (m : AMsg) (cid : Nat) (hr : routeAnswer s m = .ok (s', cid)) {s0 : St} (h : s ⊒ s0) :
    s' ⊒ s0 := by
  unfold routeAnswer at hr
  simp only [] at hr
  repeat (first | contradiction | split at hr)
  all_goals (first | contradiction | (injection hr with hr; injection hr with h1 h2; subst h1; exact ge_of_conns rfl h))

theorem ge_routeAnswerSideEffect (s : St) (m : AMsg) {s0 : St} (h : s ⊒ s0) : routeAnswerSideEffect s m ⊒ s0 := by
  unfold routeAnswerSideEffect
  split
  · exact h
  · exact ge_of_conns rfl h

theorem ge_sendBuiltAnswer (s : St) (a : AMsg) (t : Bool) {s0 : St} (h : s ⊒ s0) : (sendBuiltAnswer s a t).1 ⊒ s0 := by
  unfold sendBuiltAnswer
  split
  · exact ge_routeAnswerSideEffect _ _ h
  · rename_i hr
    exact ge_sendMessage _ _ _ _ (ge_routeAnswer _ _ _ _ hr h)


theorem ge_appRecvStep (infoOf : AMsg → MsgInfo) (ai mx : Nat) (s : St) (m : AMsg) {s0 : St} (h : s ⊒ s0) :
    appRecvStep infoOf ai mx s m ⊒ s0 := by
  unfold appRecvStep
  repeat (first | ge_hyp | ge_triv | ge_lit | split | dsimp only | with_reducible apply ge_emit | with_reducible apply ge_sendBuiltAnswer | with_reducible apply ge_setCrashed)

theorem ge_pumpAppRecv (infoOf : AMsg → MsgInfo) (s : St) (ai : Nat) {s0 : St} (h : s ⊒ s0) : pumpAppRecv infoOf s ai ⊒ s0 := by
  unfold pumpAppRecv
  repeat (first | ge_hyp | ge_triv | ge_lit | split | exact ge_foldl _ (fun s a hs => ge_appRecvStep infoOf ai _ s a hs) _ _ h)

theorem ge_appRespStep (ai : Nat) (s : St) (m : AMsg) {s0 : St} (h : s ⊒ s0) : appRespStep ai s m ⊒ s0 := by
  unfold appRespStep
  repeat (first | ge_hyp | ge_triv | ge_lit | split | dsimp only | with_reducible apply ge_emit | with_reducible apply ge_sendBuiltAnswer | with_reducible apply ge_setCrashed)

theorem ge_appRespNones (ai : Nat) (s : St) {s0 : St} (h : s ⊒ s0) : appRespNones ai s ⊒ s0 := by
  unfold appRespNones
  repeat (first | ge_hyp | ge_triv | ge_lit | split | with_reducible apply ge_modTApp)

theorem ge_pumpAppResp (s : St) (ai : Nat) {s0 : St} (h : s ⊒ s0) : pumpAppResp s ai ⊒ s0 := by
  unfold pumpAppResp
  repeat (first | ge_hyp | ge_triv | ge_lit | split | (apply ge_appRespNones; exact ge_foldl _ (fun s a hs => ge_appRespStep ai s a hs) _ _ h))

theorem ge_runHandler (infoOf : AMsg → MsgInfo) (s : St) (k : Nat) {s0 : St} (h : s ⊒ s0) : runHandler infoOf s k ⊒ s0 := by
  unfold runHandler
  repeat (first | ge_hyp | ge_triv | ge_lit | split | dsimp only | with_reducible apply ge_modTApp | with_reducible apply ge_emit )

theorem ge_appSendAnswer (s : St) (ai : Nat) (req : AMsg) (info : MsgInfo) (rc : Option Nat) {s0 : St} (h : s ⊒ s0) :
    appSendAnswer s ai req info rc ⊒ s0 := by
  unfold appSendAnswer
  dsimp only
  split
  · exact ge_emit _ _ (ge_routeAnswerSideEffect _ _ h)
  · rename_i hr
    split <;> exact ge_emit _ _ (ge_sendMessage _ _ _ _ (ge_routeAnswer _ _ _ _ hr h))

theorem ge_routeRequest (s s' : St) (ai : Nat) (m m' : AMsg) (info : MsgInfo) (cid : Nat)
    (hr : routeRequest s ai m info = .ok (s', cid, m')) {s0 : St} (h : s ⊒ s0) : s' ⊒ s0 := by
  unfold routeRequest at hr
  simp only [] at hr
  repeat (first | contradiction | split at hr)
  all_goals (injection hr with hr; injection hr with h1 h2; subst h1)
  all_goals repeat (first | ge_hyp | ge_triv | ge_lit | ge_lit | split | dsimp only | with_reducible apply ge_modConn _ _ _ (by tamep))

theorem ge_appSendRequestBegin (s : St) (ai : Nat) (m : AMsg) (info : MsgInfo) {s0 : St} (h : s ⊒ s0) :
    (appSendRequestBegin s ai m info).1 ⊒ s0 := by
  unfold appSendRequestBegin
  dsimp only
  split
  · split <;> exact ge_of_conns rfl h
  · rename_i hr
    apply ge_sendMessage
    apply ge_modApp
    refine ge_routeRequest _ _ _ _ _ _ _ hr ?_
    split <;> exact ge_of_conns rfl h

theorem ge_appSendRequestEnd (s : St) (ai : Nat) (hbh : Nat) {s0 : St} (h : s ⊒ s0) : (appSendRequestEnd s ai hbh).1 ⊒ s0 := h

theorem ge_stopBegin (s : St) (f : Bool) {s0 : St} (h : s ⊒ s0) : stopBegin s f ⊒ s0 := by
  unfold stopBegin
  dsimp only
  split
  · exact ge_of_conns rfl h
  · apply ge_foldl
    · intro s a hs
      repeat (first | ge_hyp | ge_triv | ge_lit | split | with_reducible apply ge_sendDpr)
    · exact ge_of_conns rfl h

theorem ge_stopFinal (s : St) {s0 : St} (h : s ⊒ s0) : stopFinal s ⊒ s0 := by
  unfold stopFinal
  apply ge_foldl
  · intro s a hs
    exact ge_connClose _ _ _ (ge_closeConnectionSocket _ _ _ hs)
  · exact h

end DV.Node
