import DV.Proofs.Bytes
namespace DV

def be24 (n : Nat) : Bytes := [UInt8.ofNat (n / 65536), UInt8.ofNat (n / 256), UInt8.ofNat n]

theorem u8_ofNat_congr {a b : Nat} (h : a % 256 = b % 256) : UInt8.ofNat a = UInt8.ofNat b := by
  apply UInt8.toNat_inj.mp; simp [UInt8.toNat_ofNat']; exact h

theorem lenflags_eq (len flags : Nat) (hl : len < 16777216) :
    len ||| flags <<< 24 = flags * 16777216 + len := by
  rw [Nat.or_comm, ← Nat.shiftLeft_add_eq_or_of_lt (by simpa using hl), Nat.shiftLeft_eq]

theorem be32_lenflags (len flags : Nat) (hl : len < 16777216) (_hf : flags < 256) :
    be32 (len ||| flags <<< 24) = UInt8.ofNat flags :: be24 len := by
  rw [lenflags_eq len flags hl]
  simp only [be32, be24]
  congr 1
  · apply u8_ofNat_congr; omega
  congr 1
  · apply u8_ofNat_congr; omega
  congr 1
  · apply u8_ofNat_congr; omega
  congr 1
  · apply u8_ofNat_congr; omega

theorem lenflags_lt (len flags : Nat) (hl : len < 16777216) (hf : flags < 256) :
    len ||| flags <<< 24 < 4294967296 := by
  rw [lenflags_eq len flags hl]; omega

theorem lenflags_shift (len flags : Nat) (hl : len < 16777216) :
    (len ||| flags <<< 24) >>> 24 = flags := by
  rw [lenflags_eq len flags hl, Nat.shiftRight_eq_div_pow]; omega

theorem lenflags_mask (len flags : Nat) (hl : len < 16777216) :
    (len ||| flags <<< 24) &&& 0x00ffffff = len := by
  rw [lenflags_eq len flags hl]
  have : (0x00ffffff : Nat) = 2 ^ 24 - 1 := by decide
  rw [this, Nat.and_two_pow_sub_one_eq_mod]; omega

theorem pad4_ge (n : Nat) : n ≤ pad4 n := by unfold pad4; omega
theorem pad4_idem (n : Nat) : pad4 (pad4 n) = pad4 n := by unfold pad4; omega
theorem pad4_mod (n : Nat) : pad4 n % 4 = 0 := by unfold pad4; omega
theorem pad4_sub (n : Nat) : pad4 n - n = (4 - n % 4) % 4 := by unfold pad4; omega

theorem packFopaque_self (p : Bytes) :
    packFopaque (pad4 p.length) p = p ++ List.replicate ((4 - p.length % 4) % 4) 0 := by
  simp only [packFopaque]
  rw [List.take_of_length_le (pad4_ge _)]
  have : (pad4 p.length + 3) / 4 * 4 = pad4 p.length := pad4_idem _
  rw [this, pad4_sub]

theorem or128_of_and : ∀ f, f < 256 → f &&& 0x80 ≠ 0 → f ||| 0x80 = f := by decide +kernel

theorem vbit_fix : ∀ f, f < 256 → ∀ v : Nat,
    ((f &&& 0x80 ≠ 0) ↔ v ≠ 0) → setVendorBit f v = f := by
  intro f hf v h
  unfold setVendorBit flagV
  by_cases hv : v = 0
  · have h0 : f &&& 0x80 = 0 := by
      by_cases h1 : f &&& 0x80 = 0
      · exact h1
      · exact absurd hv (h.mp h1)
    simp [hv, h0]
  · have h1 : f &&& 0x80 ≠ 0 := h.mpr hv
    simp only [hv, ne_eq, not_false_eq_true, if_true]
    exact or128_of_and f hf h1

end DV

namespace DV

theorem unpackFopaque_at (pre p rest : Bytes) (k : Nat) (hk : p.length + k = pad4 p.length) :
    unpackFopaque (pre ++ (p ++ (List.replicate k 0 ++ rest))) pre.length p.length
      = .ok (p, pre.length + pad4 p.length) := by
  simp only [unpackFopaque]
  have hlen : ¬ (pre.length + pad4 p.length > (pre ++ (p ++ (List.replicate k 0 ++ rest))).length) := by
    simp only [List.length_append, List.length_replicate]; omega
  simp only [hlen, if_false, List.drop_left, List.take_left]

/-- Decoding the RFC layout of a well-formed AVP (followed by anything). -/
theorem decodeAvp_layout (code vendor flags : Nat) (p rest : Bytes)
    (hc : code < 4294967296) (hv : vendor < 4294967296) (hf : flags < 256)
    (hl : (if vendor ≠ 0 then 12 else 8) + p.length < 16777216)
    (hb : (flags &&& 0x80 ≠ 0) ↔ vendor ≠ 0) (k : Nat) (hk : p.length + k = pad4 p.length) :
    decodeAvp (be32 code ++ (be32 (((if vendor ≠ 0 then 12 else 8) + p.length) ||| flags <<< 24)
        ++ ((if vendor ≠ 0 then be32 vendor else []) ++ (p ++ (List.replicate k 0 ++ rest))))) 0
      = .ok ({ code := code, vendor := vendor, flags := flags, payload := p },
             (if vendor ≠ 0 then 12 else 8) + pad4 p.length) := by
  have h1 := unpackUint_be32 [] code
    (be32 (((if vendor ≠ 0 then 12 else 8) + p.length) ||| flags <<< 24)
        ++ ((if vendor ≠ 0 then be32 vendor else []) ++ (p ++ (List.replicate k 0 ++ rest)))) hc
  simp only [List.nil_append, List.length_nil, Nat.zero_add, List.append_assoc] at h1
  have h2 := unpackUint_be32 (be32 code) (((if vendor ≠ 0 then 12 else 8) + p.length) ||| flags <<< 24)
    ((if vendor ≠ 0 then be32 vendor else []) ++ (p ++ (List.replicate k 0 ++ rest))) (lenflags_lt _ _ hl hf)
  simp only [be32_length, List.append_assoc] at h2
  have hfix : setVendorBit flags vendor = flags := vbit_fix flags hf vendor hb
  unfold decodeAvp
  simp only [h1, h2]
  unfold decodeAvpBody
  simp only [lenflags_shift _ _ hl, lenflags_mask _ _ hl, flagV]
  by_cases hz : vendor = 0
  · have h0 : flags &&& 0x80 = 0 := by
      by_cases hh : flags &&& 0x80 = 0
      · exact hh
      · exact absurd hz (hb.mp hh)
    subst hz
    simp only [ne_eq, not_true_eq_false, if_false, List.nil_append] at h1 h2 hl ⊢
    have h0' : flags &&& 128 = 0 := h0
    simp only [h0', not_true_eq_false, if_false]
    by_cases hp : p.length = 0
    · have : p = [] := List.eq_nil_of_length_eq_zero hp
      subst this
      simp [Avp.mk', hfix, pure, Except.pure, pad4]
    · have hgt : 8 + p.length > 8 := by omega
      have h3 := unpackFopaque_at (be32 code ++ be32 ((8 + p.length) ||| flags <<< 24)) p rest k hk
      simp only [List.length_append, be32_length, List.append_assoc] at h3
      simp only [hgt, if_true, Nat.add_sub_cancel_left, h3, Avp.mk',
        hfix, pure, Except.pure]
  · have h1' : flags &&& 0x80 ≠ 0 := hb.mpr hz
    have h1'' : ¬ (flags &&& 128 = 0) := h1'
    simp only [ne_eq, hz, not_false_eq_true, if_true] at h1 h2 hl ⊢
    simp only [h1'', not_false_eq_true, if_true]
    have h3 := unpackUint_be32 (be32 code ++ be32 ((12 + p.length) ||| flags <<< 24)) vendor
      (p ++ (List.replicate k 0 ++ rest)) hv
    simp only [List.length_append, be32_length, List.append_assoc] at h3
    simp only [h3]
    by_cases hp : p.length = 0
    · have : p = [] := List.eq_nil_of_length_eq_zero hp
      subst this
      simp [Avp.mk', hfix, pure, Except.pure, pad4]
    · have hgt : 12 + p.length > 12 := by omega
      have h4 := unpackFopaque_at (be32 code ++ be32 ((12 + p.length) ||| flags <<< 24) ++ be32 vendor) p rest k hk
      simp only [List.length_append, be32_length, List.append_assoc] at h4
      simp only [hgt, if_true, Nat.add_sub_cancel_left, h4, Avp.mk',
        hfix, pure, Except.pure]

end DV
