import DV.Model.Avp
namespace DV

@[simp] theorem ok_bind {α β : Type} (a : α) (f : α → R β) : (Except.ok a : R α) >>= f = f a := rfl
@[simp] theorem err_bind {α β : Type} (e : Exc) (f : α → R β) : (Except.error e : R α) >>= f = Except.error e := rfl

theorem rd32_be32 (n : Nat) (h : n < 4294967296) :
    rd32 (UInt8.ofNat (n / 16777216)) (UInt8.ofNat (n / 65536)) (UInt8.ofNat (n / 256)) (UInt8.ofNat n) = n := by
  simp [rd32, UInt8.toNat_ofNat']
  omega

theorem be32_rd32 (a b c d : UInt8) : be32 (rd32 a b c d) = [a, b, c, d] := by
  have ha := a.toNat_lt; have hb := b.toNat_lt; have hc := c.toNat_lt; have hd := d.toNat_lt
  simp only [be32, rd32]
  congr 1
  · apply UInt8.toNat_inj.mp; simp [UInt8.toNat_ofNat'] <;> omega
  congr 1
  · apply UInt8.toNat_inj.mp; simp [UInt8.toNat_ofNat'] <;> omega
  congr 1
  · apply UInt8.toNat_inj.mp; simp [UInt8.toNat_ofNat'] <;> omega
  congr 1
  · apply UInt8.toNat_inj.mp; simp [UInt8.toNat_ofNat'] <;> omega

theorem rd32_lt (a b c d : UInt8) : rd32 a b c d < 4294967296 := by
  have ha := a.toNat_lt; have hb := b.toNat_lt; have hc := c.toNat_lt; have hd := d.toNat_lt
  simp only [rd32]; omega

@[simp] theorem be32_length (n : Nat) : (be32 n).length = 4 := rfl

theorem unpackUint_be32 (pre : Bytes) (n : Nat) (rest : Bytes) (h : n < 4294967296) :
    unpackUint (pre ++ be32 n ++ rest) pre.length = .ok (n, pre.length + 4) := by
  simp only [unpackUint, List.append_assoc, List.drop_left, be32, List.cons_append, List.nil_append]
  rw [rd32_be32 n h]

end DV
