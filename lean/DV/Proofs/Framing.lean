import DV.Model.Framing
namespace DV

/-- A well-formed frame: at least a header long, and its header's length field
    is its own length. -/
def FrameWF (f : Bytes) : Prop := 20 ≤ f.length ∧ hdrLen f = f.length

def expectEv (dec : Bytes → Bool) (f : Bytes) : FEv := if dec f then .deliver f else .skip f.length

theorem getD_append_lt (a b : Bytes) (i : Nat) (h : i < a.length) : (a ++ b).getD i 0 = a.getD i 0 := by
  simp [List.getD_eq_getElem?_getD, List.getElem?_append_left h]

theorem hdrLen_append (f rest : Bytes) (h : 4 ≤ f.length) : hdrLen (f ++ rest) = hdrLen f := by
  simp only [hdrLen, u32At]
  rw [getD_append_lt f rest 0 (by omega), getD_append_lt f rest (0 + 1) (by omega),
    getD_append_lt f rest (0 + 2) (by omega), getD_append_lt f rest (0 + 3) (by omega)]

/-- What remains buffered between reads: nothing, less than a header, or less
    than the frame the header announces. -/
def TailOK (t : Bytes) : Prop := t = [] ∨ t.length < 20 ∨ t.length < hdrLen t

theorem flatten_length_ge (fs : List Bytes) (h : ∀ f ∈ fs, FrameWF f) : 20 * fs.length ≤ fs.flatten.length := by
  induction fs with
  | nil => simp
  | cons f r ih =>
    have := (h f (by simp)).1
    have := ih (fun x hx => h x (by simp [hx]))
    simp only [List.flatten_cons, List.length_append, List.length_cons]; omega

/-- The loop on whole frames followed by an incomplete tail processes exactly
    the frames, in order, and leaves the tail. -/
theorem frameLoop_frames (dec : Bytes → Bool) :
    ∀ (fs : List Bytes) (t : Bytes) (fuel : Nat), (∀ f ∈ fs, FrameWF f) → TailOK t →
      (fs.flatten ++ t).length < fuel → (fs ≠ [] ∨ t = [] ∨ 20 ≤ t.length) →
      frameLoop dec true true fuel (fs.flatten ++ t) = (fs.map (expectEv dec), t) := by
  intro fs
  induction fs with
  | nil =>
    intro t fuel _ ht hfuel hne
    cases fuel with
    | zero => omega
    | succ f =>
      simp only [List.flatten_nil, List.nil_append, List.map_nil]
      rcases hne with h | h | h
      · exact absurd rfl h
      · subst h; simp [frameLoop]
      · have hl : t.length < hdrLen t := by
          rcases ht with h1 | h1 | h1
          · subst h1; simp at h
          · omega
          · exact h1
        have hne' : t.isEmpty = false := by
          cases t with
          | nil => simp at h
          | cons a b => rfl
        have h20 : ¬ t.length < 20 := by omega
        unfold frameLoop
        simp [hne', h20, hl]
  | cons f r ih =>
    intro t fuel hwf ht hfuel _
    cases fuel with
    | zero => omega
    | succ fu =>
      obtain ⟨hf20, hfl⟩ := hwf f (by simp)
      have hwr : ∀ x ∈ r, FrameWF x := fun x hx => hwf x (by simp [hx])
      let R := r.flatten ++ t
      have hbuf : (f :: r).flatten ++ t = f ++ R := by simp [R, List.append_assoc]
      rw [hbuf]
      have hl : hdrLen (f ++ R) = f.length := by rw [hdrLen_append f R (by omega), hfl]
      have hne : (f ++ R).isEmpty = false := by
        cases f with
        | nil => simp at hf20
        | cons a b => rfl
      have h20 : ¬ (f ++ R).length < 20 := by simp only [List.length_append]; omega
      have hlt : ¬ (f ++ R).length < hdrLen (f ++ R) := by rw [hl]; simp only [List.length_append]; omega
      have hlt' : ¬ (f ++ R).length < f.length := by simp only [List.length_append]; omega
      have htake : (f ++ R).take f.length = f := by simp
      have hdrop : (f ++ R).drop f.length = R := by simp
      have hRfuel : R.length < fu := by
        have : (f ++ R).length < fu + 1 := by rw [← hbuf]; exact hfuel
        simp only [List.length_append] at this; omega
      -- what the recursive call / the early stop yields
      have hrest : (if (0 < R.length && R.length < 20) = true then (([] : List FEv), R)
                    else frameLoop dec true true fu R) = (r.map (expectEv dec), t) := by
        by_cases hc : (0 < R.length && R.length < 20) = true
        · simp only [hc, if_true]
          simp only [Bool.and_eq_true, decide_eq_true_eq] at hc
          have hr : r = [] := by
            cases r with
            | nil => rfl
            | cons x xs =>
              have := flatten_length_ge (x :: xs) hwr
              simp only [R, List.length_append, List.length_cons] at hc this
              omega
          subst hr
          simp [R]
        · simp only [hc, Bool.false_eq_true, if_false]
          apply ih t fu hwr ht hRfuel
          simp only [Bool.and_eq_true, decide_eq_true_eq] at hc
          cases r with
          | cons x xs => left; simp
          | nil =>
            right
            simp only [R, List.flatten_nil, List.nil_append] at hc
            by_cases h0 : t.length = 0
            · left; exact List.eq_nil_of_length_eq_zero h0
            · right; omega
      unfold frameLoop
      simp only [hne, Bool.false_eq_true, if_false, h20, hlt, hl, htake, hdrop]
      have hdec20 : decide (f.length ≥ 20) = true := by simpa using hf20
      simp only [hdec20, Bool.true_and, List.map_cons]
      by_cases hd : dec f = true
      · simp only [hd, if_true, expectEv]
        by_cases hc : (0 < R.length && R.length < 20) = true
        · simp only [hc, if_true] at hrest ⊢
          have := congrArg Prod.fst hrest
          have h2 := congrArg Prod.snd hrest
          simp only at this h2
          simp [← this, ← h2]
        · simp only [hc, Bool.false_eq_true, if_false] at hrest ⊢
          rw [hrest]
          simp only [hlt', if_false]
      · have hz : (f.length == 0) = false := by
          simp only [beq_eq_false_iff_ne, ne_eq]; omega
        simp only [hd, Bool.false_eq_true, if_false, hz, expectEv]
        by_cases hc : (0 < R.length && R.length < 20) = true
        · simp only [hc, if_true] at hrest ⊢
          have := congrArg Prod.fst hrest
          have h2 := congrArg Prod.snd hrest
          simp only at this h2
          simp [← this, ← h2]
        · simp only [hc, Bool.false_eq_true, if_false] at hrest ⊢
          rw [hrest]
          simp only [hlt', if_false]

end DV

namespace DV

theorem split_prefix : ∀ (fs : List Bytes) (B rest : Bytes), (∀ f ∈ fs, FrameWF f) →
    B ++ rest = fs.flatten →
    ∃ k t, k ≤ fs.length ∧ B = (fs.take k).flatten ++ t ∧ t ++ rest = (fs.drop k).flatten ∧
      ((fs.drop k = [] ∧ t = []) ∨ (∃ f r, fs.drop k = f :: r ∧ t.length < f.length)) := by
  intro fs
  induction fs with
  | nil =>
    intro B rest _ h
    simp only [List.flatten_nil, List.append_eq_nil_iff] at h
    exact ⟨0, [], by simp, by simp [h.1], by simp [h.2], Or.inl ⟨rfl, rfl⟩⟩
  | cons f r ih =>
    intro B rest hwf h
    by_cases hlt : B.length < f.length
    · exact ⟨0, B, by simp, by simp, by simpa using h, Or.inr ⟨f, r, rfl, hlt⟩⟩
    · have hle : f.length ≤ B.length := by omega
      simp only [List.flatten_cons] at h
      have h1 : B.take f.length = f := by
        have := congrArg (List.take f.length) h
        rw [List.take_append_of_le_length hle] at this
        simpa using this
      have h2 : B.drop f.length ++ rest = r.flatten := by
        have := congrArg (List.drop f.length) h
        rw [List.drop_append_of_le_length hle] at this
        simpa using this
      obtain ⟨k, t, hk, hB, ht, hd⟩ := ih (B.drop f.length) rest (fun x hx => hwf x (by simp [hx])) h2
      refine ⟨k + 1, t, by simp; omega, ?_, by simpa using ht, by simpa using hd⟩
      have : B = B.take f.length ++ B.drop f.length := (List.take_append_drop _ _).symm
      rw [this, h1, hB]
      simp [List.append_assoc]

theorem expectEv_not_close (dec : Bytes → Bool) (fs : List Bytes) :
    (fs.map (expectEv dec)).contains FEv.close = false ∧ (fs.map (expectEv dec)).contains FEv.spin = false := by
  induction fs with
  | nil => simp
  | cons f r ih =>
    simp only [List.map_cons, List.contains_cons, ih.1, ih.2, Bool.or_false]
    unfold expectEv
    split <;> simp

theorem tailOK_of_prefix (t f x : Bytes) (hf : FrameWF f) (h : t ++ x = f ++ y) (hl : t.length < f.length) :
    TailOK t := by
  by_cases h20 : t.length < 20
  · right; left; exact h20
  · right; right
    have ht : t = f.take t.length := by
      have := congrArg (List.take t.length) h
      simp only [List.take_left'] at this
      rw [List.take_append_of_le_length (by omega)] at this
      simpa using this
    have hf' : f = t ++ f.drop t.length := by
      conv => lhs; rw [← List.take_append_drop t.length f]
      rw [← ht]
    have : hdrLen f = hdrLen t := by
      conv => lhs; rw [hf']
      exact hdrLen_append t _ (by omega)
    rw [← this, hf.2]; exact hl

/-- Feeding any chunking of a stream of well-formed frames, starting from a
    buffer holding a proper prefix of the first remaining frame, yields exactly
    the frames' events and ends with an empty buffer. -/
theorem feedAll_frames (dec : Bytes → Bool) :
    ∀ (cs : List Bytes) (fs : List Bytes) (t : Bytes), (∀ f ∈ fs, FrameWF f) →
      t ++ cs.flatten = fs.flatten →
      ((fs = [] ∧ t = []) ∨ (∃ f r, fs = f :: r ∧ t.length < f.length)) →
      feedAll dec true true { buf := t, closed := false } cs
        = ({ buf := [], closed := false }, fs.map (expectEv dec)) := by
  intro cs
  induction cs with
  | nil =>
    intro fs t hwf h hd
    simp only [List.flatten_nil, List.append_nil] at h
    rcases hd with ⟨rfl, rfl⟩ | ⟨f, r, rfl, hl⟩
    · simp [feedAll]
    · exfalso
      rw [h] at hl
      simp only [List.flatten_cons, List.length_append] at hl; omega
  | cons c cs ih =>
    intro fs t hwf h hd
    have h' : (t ++ c) ++ cs.flatten = fs.flatten := by simpa [List.append_assoc] using h
    obtain ⟨k, t', hk, hB, ht', hd'⟩ := split_prefix fs (t ++ c) cs.flatten hwf h'
    have hwfk : ∀ f ∈ fs.take k, FrameWF f := fun f hf => hwf f (List.mem_of_mem_take hf)
    have hwfd : ∀ f ∈ fs.drop k, FrameWF f := fun f hf => hwf f (List.mem_of_mem_drop hf)
    have hd'' : (fs.drop k = [] ∧ t' = []) ∨ (∃ f r, fs.drop k = f :: r ∧ t'.length < f.length) := hd'
    have hrec := ih (fs.drop k) t' hwfd ht' hd''
    have htail : TailOK t' := by
      rcases hd' with ⟨_, rfl⟩ | ⟨f, r, hfr, hl⟩
      · left; rfl
      · rw [hfr] at ht'
        simp only [List.flatten_cons] at ht'
        exact tailOK_of_prefix t' f _ (hwfd f (by simp [hfr])) ht' hl
    simp only [feedAll, feed, Bool.false_eq_true, if_false]
    by_cases h20 : (t ++ c).length < 20
    · -- no complete frame can be buffered yet
      have hk0 : k = 0 := by
        have := flatten_length_ge (fs.take k) hwfk
        have hlen : ((fs.take k).flatten ++ t').length < 20 := by rw [← hB]; exact h20
        simp only [List.length_append, List.length_take] at this hlen
        have : min k fs.length = k := Nat.min_eq_left hk
        omega
      subst hk0
      simp only [List.take_zero, List.flatten_nil, List.nil_append] at hB
      simp only [List.drop_zero] at hrec
      simp only [h20, if_true]
      rw [hB, hrec]
      simp
    · simp only [h20, if_false]
      have hloop := frameLoop_frames dec (fs.take k) t' ((t ++ c).length + 1) hwfk htail
        (by rw [← hB]; omega)
        (by
          by_cases hk0 : k = 0
          · subst hk0
            simp only [List.take_zero, List.flatten_nil, List.nil_append] at hB
            right; right; rw [← hB]; omega
          · left
            intro hnil
            have : (fs.take k).length = 0 := by rw [hnil]; rfl
            simp only [List.length_take] at this
            have : min k fs.length = k := Nat.min_eq_left hk
            omega)
      rw [← hB] at hloop
      rw [hloop]
      have hnc := expectEv_not_close dec (fs.take k)
      simp only [hnc.1, hnc.2, Bool.or_false]
      rw [hrec]
      simp only [Prod.mk.injEq, true_and]
      rw [← List.map_append, List.take_append_drop]

end DV
