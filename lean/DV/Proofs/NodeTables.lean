/-
  The node's connection and socket tables stay mutually consistent under every
  operation: `connections` and `peer_sockets` hold the same connections, and
  nothing is left in `_half_ready_connections` or `socket_peers` that is not in
  `connections` — so a connection that has been removed is in none of them.
-/
import DV.Proofs.NodeTabEq
import DV.Model.NodeOps
namespace DV.Node
set_option linter.unusedSimpArgs false

def TInv (s : St) : Prop :=
  s.connections = s.peerSockets ∧ (∀ x ∈ s.halfReady, x ∈ s.connections) ∧ (∀ x ∈ s.socketPeers, x ∈ s.connections)

theorem TInv_of_eq {s s' : St} (h1 : s'.connections = s.connections) (h2 : s'.peerSockets = s.peerSockets)
    (h3 : s'.halfReady = s.halfReady) (h4 : s'.socketPeers = s.socketPeers) (h : TInv s) : TInv s' := by
  unfold TInv at *; rw [h1, h2, h3, h4]; exact h

theorem mem_erase_iff (l : List Nat) (x y : Nat) : y ∈ erase l x ↔ y ∈ l ∧ y ≠ x := by
  simp [erase]

theorem TInv_removePeerConnection (hk : Config.removeCleansTables = true) (s : St) (cid : Nat) (r : Reason) (h : TInv s) :
    TInv (removePeerConnection s cid r) := by
  cases hc : s.conn? cid with
  | none => unfold removePeerConnection; simp only [hc]; exact h
  | some c =>
    have key : (removePeerConnection s cid r).connections = erase s.connections cid ∧
        (removePeerConnection s cid r).peerSockets = erase s.peerSockets cid ∧
        (removePeerConnection s cid r).halfReady = erase s.halfReady cid ∧
        (removePeerConnection s cid r).socketPeers = erase s.socketPeers cid := by
      unfold removePeerConnection
      simp only [hc, hk, if_true]
      repeat (first | exact ⟨rfl, rfl, rfl, rfl⟩ | split)
    obtain ⟨a, b, c'⟩ := h
    unfold TInv
    rw [key.1, key.2.1, key.2.2.1, key.2.2.2, a]
    refine ⟨rfl, ?_, ?_⟩
    · intro x hx
      rw [mem_erase_iff] at hx ⊢
      exact ⟨a ▸ b x hx.1, hx.2⟩
    · intro x hx
      rw [mem_erase_iff] at hx ⊢
      exact ⟨a ▸ c' x hx.1, hx.2⟩

/-- a function that leaves the four tables alone preserves the invariant -/
theorem TInv_same {s s' : St} (h : TInv s) (h1 : s'.connections = s.connections) (h2 : s'.peerSockets = s.peerSockets)
    (h3 : s'.halfReady = s.halfReady) (h4 : s'.socketPeers = s.socketPeers) : TInv s' := TInv_of_eq h1 h2 h3 h4 h

theorem TInv_connClose (s : St) (cid : Nat) (b : Bool) (h : TInv s) : TInv (connClose s cid b) :=
  TInv_same h (connections_connClose ..) (peerSockets_connClose ..) (halfReady_connClose ..) (socketPeers_connClose ..)

theorem TInv_sendMessage (s : St) (cid : Nat) (m : AMsg) (b : Bool) (h : TInv s) : TInv (sendMessage s cid m b).1 :=
  TInv_same h (connections_sendMessage ..) (peerSockets_sendMessage ..) (halfReady_sendMessage ..) (socketPeers_sendMessage ..)

theorem TInv_sendCer (s : St) (cid : Nat) (h : TInv s) : TInv (sendCer s cid) :=
  TInv_same h (connections_sendCer ..) (peerSockets_sendCer ..) (halfReady_sendCer ..) (socketPeers_sendCer ..)

theorem TInv_sendDwr (s : St) (cid : Nat) (h : TInv s) : TInv (sendDwr s cid) :=
  TInv_same h (connections_sendDwr ..) (peerSockets_sendDwr ..) (halfReady_sendDwr ..) (socketPeers_sendDwr ..)

theorem TInv_closeConnectionSocket (hk : Config.removeCleansTables = true) (s : St) (cid : Nat) (r : Reason) (h : TInv s) :
    TInv (closeConnectionSocket s cid r) := by
  unfold closeConnectionSocket
  apply TInv_removePeerConnection hk
  split
  · exact TInv_connClose _ _ _ (TInv_of_eq rfl rfl rfl rfl h)
  · exact h

theorem TInv_assignPeerConnection (s : St) (cid : Nat) (h : TInv s) : TInv (assignPeerConnection s cid) := by
  unfold assignPeerConnection
  split
  · exact h
  · split
    · exact h
    · split
      · exact h
      · dsimp only
        split
        · -- the pending-connection entry is dropped
          obtain ⟨a, b, c⟩ := h
          refine ⟨a, ?_, c⟩
          intro x hx
          have : x ∈ erase s.halfReady cid := hx
          rw [mem_erase_iff] at this
          exact b x this.1
        · exact TInv_of_eq rfl rfl rfl rfl h

/-- what `_add_peer_connection` does to the tables: nothing (refused), or the
    new id is appended to `connections` and `peer_sockets`, entered into
    `socket_peers`, and possibly into `_half_ready_connections` -/
theorem add_tables (s : St) (c : Conn) :
    ((addPeerConnection s c).1.connections = s.connections ∧ (addPeerConnection s c).1.peerSockets = s.peerSockets ∧
      (addPeerConnection s c).1.halfReady = s.halfReady ∧ (addPeerConnection s c).1.socketPeers = s.socketPeers) ∨
    ((addPeerConnection s c).1.connections = s.connections ++ [c.id] ∧
      (addPeerConnection s c).1.peerSockets = s.peerSockets ++ [c.id] ∧
      ((addPeerConnection s c).1.socketPeers = s.socketPeers ∨ (addPeerConnection s c).1.socketPeers = s.socketPeers ++ [c.id]) ∧
      ((addPeerConnection s c).1.halfReady = s.halfReady ∨ (addPeerConnection s c).1.halfReady = s.halfReady ++ [c.id])) := by
  unfold addPeerConnection
  dsimp only
  by_cases hsp : s.socketPeers.contains c.id = true
  · simp only [hsp, if_true]
    repeat (first
      | exact Or.inl ⟨rfl, rfl, rfl, rfl⟩
      | exact Or.inr ⟨rfl, rfl, Or.inl rfl, Or.inl rfl⟩
      | exact Or.inr ⟨rfl, rfl, Or.inl rfl, Or.inr rfl⟩
      | split)
  · simp only [hsp, if_false]
    repeat (first
      | exact Or.inl ⟨rfl, rfl, rfl, rfl⟩
      | exact Or.inr ⟨rfl, rfl, Or.inr rfl, Or.inl rfl⟩
      | exact Or.inr ⟨rfl, rfl, Or.inr rfl, Or.inr rfl⟩
      | split)

theorem TInv_addPeerConnection (s : St) (c : Conn) (h : TInv s) : TInv (addPeerConnection s c).1 := by
  obtain ⟨a, b, d⟩ := h
  rcases add_tables s c with ⟨h1, h2, h3, h4⟩ | ⟨h1, h2, h3, h4⟩
  · exact TInv_of_eq h1 h2 h3 h4 ⟨a, b, d⟩
  · have hm : ∀ x, x ∈ s.connections → x ∈ s.connections ++ [c.id] := fun x hx => List.mem_append_left _ hx
    have hself : c.id ∈ s.connections ++ [c.id] := List.mem_append_right _ (List.mem_singleton.mpr rfl)
    refine ⟨by rw [h1, h2, a], ?_, ?_⟩
    · intro x hx
      rw [h1]
      rcases h4 with h4 | h4 <;> rw [h4] at hx
      · exact hm x (b x hx)
      · rcases List.mem_append.mp hx with hx | hx
        · exact hm x (b x hx)
        · rw [List.mem_singleton.mp hx]; exact hself
    · intro x hx
      rw [h1]
      rcases h3 with h3 | h3 <;> rw [h3] at hx
      · exact hm x (d x hx)
      · rcases List.mem_append.mp hx with hx | hx
        · exact hm x (d x hx)
        · rw [List.mem_singleton.mp hx]; exact hself

/-- close a goal `TInv (f s …)` for an `f` that leaves the tables alone -/
macro "tsame" h:ident : tactic => `(tactic| (refine TInv_of_eq ?_ ?_ ?_ ?_ $h <;> simp))

theorem TInv_foldl {α : Type} (f : St → α → St) (hf : ∀ s a, TInv s → TInv (f s a)) (l : List α) (s : St) (h : TInv s) :
    TInv (l.foldl f s) := by
  induction l generalizing s with
  | nil => exact h
  | cons a l ih => exact ih _ (hf s a h)

theorem TInv_flagReady (s : St) (cid : Nat) (h : TInv s) : TInv (flagConnectionAsReady s cid) := TInv_of_eq rfl rfl rfl rfl h

theorem TInv_cerNameAndElect (s : St) (cid : Nat) (hn : String) (h : TInv s) : TInv (cerNameAndElect s cid hn).1 := by
  unfold cerNameAndElect
  have hf : ∀ (l : List Conn) (s : St), TInv s → TInv (l.foldl (fun s o => connClose s o.id true) s) :=
    fun l s hs => TInv_foldl (fun s (o : Conn) => connClose s o.id true) (fun s a hs => TInv_connClose s a.id true hs) l s hs
  dsimp only
  repeat (first | exact h | exact TInv_of_eq rfl rfl rfl rfl h | (apply hf) | split)

theorem TInv_receiveCer (s : St) (cid : Nat) (m : AMsg) (info : MsgInfo) (h : TInv s) : TInv (receiveCer s cid m info).1 := by
  unfold receiveCer
  have he := fun hn => TInv_cerNameAndElect s cid hn h
  repeat (first
    | exact h
    | exact TInv_sendMessage _ _ _ _ (TInv_of_eq rfl rfl rfl rfl h)
    | exact TInv_sendMessage _ _ _ _ (he _)
    | exact TInv_sendMessage _ _ _ _ (TInv_of_eq rfl rfl rfl rfl (he _))
    | exact TInv_sendMessage _ _ _ _ (TInv_flagReady _ _ (TInv_assignPeerConnection _ _ (TInv_of_eq rfl rfl rfl rfl (he _))))
    | split
    | exact TInv_of_eq rfl rfl rfl rfl (he _)
    | dsimp only)

theorem TInv_receiveCea (hk : Config.removeCleansTables = true) (s : St) (cid : Nat) (m : AMsg) (h : TInv s) :
    TInv (receiveCea s cid m).1 := by
  unfold receiveCea
  repeat (first
    | exact h
    | exact TInv_closeConnectionSocket hk _ _ _ h
    | exact TInv_flagReady _ _ (TInv_assignPeerConnection _ _ (TInv_of_eq rfl rfl rfl rfl h))
    | split
    | dsimp only)

theorem TInv_handleByCommand (hk : Config.removeCleansTables = true) (s : St) (cid : Nat) (m : AMsg) (info : MsgInfo)
    (h : TInv s) : TInv (handleByCommand s cid m info).1 := by
  unfold handleByCommand
  dsimp only
  have h1 : TInv (if m.isRequest then
      match (s.conn? cid).bind (findConnectionPeer s) with
      | some pi => s.modPeer pi fun p => { p with requests := p.requests + 1 }
      | none => s
    else s) := by
    repeat (first | exact h | exact TInv_of_eq rfl rfl rfl rfl h | split)
  generalize (if m.isRequest then
      match (s.conn? cid).bind (findConnectionPeer s) with
      | some pi => s.modPeer pi fun p => { p with requests := p.requests + 1 }
      | none => s
    else s) = s1 at h1 ⊢
  repeat (first
    | exact TInv_receiveCer _ _ _ _ h1
    | exact TInv_receiveCea hk _ _ _ h1
    | split
    | tsame h1)

theorem TInv_crashReader (s : St) (cid : Nat) (e : String) (h : TInv s) : TInv (crashReader s cid e) :=
  TInv_of_eq rfl rfl rfl rfl h

theorem TInv_receiveMessage (hk : Config.removeCleansTables = true) (s : St) (cid : Nat) (m : AMsg) (info : MsgInfo)
    (h : TInv s) : TInv (receiveMessage s cid m info) := by
  unfold receiveMessage
  have h0 : TInv (recordOrigin s cid m info) := by tsame h
  generalize recordOrigin s cid m info = s0 at h0 ⊢
  have hb := TInv_handleByCommand hk s0 cid m info h0
  dsimp only
  repeat (first
    | exact h0
    | exact TInv_crashReader _ _ _ h0
    | exact TInv_sendMessage _ _ _ _ h0
    | exact TInv_crashReader _ _ _ (TInv_sendMessage _ _ _ _ h0)
    | split)
  all_goals (rename_i hh; rw [hh] at hb)
  · exact hb
  · repeat (first
      | exact hb
      | exact TInv_sendMessage _ _ _ _ hb
      | exact TInv_crashReader _ _ _ (TInv_sendMessage _ _ _ _ hb)
      | split)

theorem TInv_dispatchMessage (hk : Config.removeCleansTables = true) (s : St) (cid : Nat) (m : AMsg) (info : MsgInfo)
    (h : TInv s) : TInv (dispatchMessage s cid m info) := by
  unfold dispatchMessage
  repeat (first | exact h | exact TInv_receiveMessage hk s cid m info h | split)

theorem TInv_pumpReader (hk : Config.removeCleansTables = true) (infoOf : AMsg → MsgInfo) (s : St) (cid : Nat) (h : TInv s) :
    TInv (pumpReader infoOf s cid) := by
  unfold pumpReader
  split
  · exact h
  · split
    · exact h
    · split
      · exact h
      · dsimp only
        apply TInv_foldl
        · intro s a hs
          repeat (first | exact hs | exact TInv_dispatchMessage hk s cid a (infoOf a) hs | split)
        · exact TInv_of_eq rfl rfl rfl rfl h

theorem TInv_checkTimers (hk : Config.removeCleansTables = true) (s : St) (cid : Nat) (h : TInv s) : TInv (checkTimers s cid) := by
  unfold checkTimers
  repeat (first | exact h | exact TInv_closeConnectionSocket hk _ _ _ h | exact TInv_sendDwr _ _ h | split | dsimp only)

theorem TInv_connectToPeer (hk : Config.removeCleansTables = true) (s : St) (pi : Nat) (h : TInv s) : TInv (connectToPeer s pi) := by
  unfold connectToPeer
  split
  · exact h
  · split
    · exact h
    · split
      · exact h
      · dsimp only
        have h1 : ∀ (c : Conn), TInv ((addPeerConnection { s with dialPlan := s.dialPlan.drop 1, nextHbhSeed := s.nextHbhSeed + 1000 } c).1.emit (.dialled pi)) :=
          fun c => TInv_of_eq rfl rfl rfl rfl (TInv_addPeerConnection _ c (TInv_of_eq rfl rfl rfl rfl h))
        repeat (first
          | exact TInv_closeConnectionSocket hk _ _ _ (h1 _)
          | exact TInv_removePeerConnection hk _ _ _ (h1 _)
          | exact TInv_of_eq rfl rfl rfl rfl (h1 _)
          | exact TInv_sendCer _ _ (TInv_of_eq rfl rfl rfl rfl (h1 _))
          | split)

theorem TInv_reconnectStep (hk : Config.removeCleansTables = true) (s : St) (pi : Nat) (h : TInv s) : TInv (reconnectStep s pi) := by
  unfold reconnectStep
  repeat (first | exact h | exact TInv_connectToPeer hk s pi h | split)

theorem TInv_reconnectPeers (hk : Config.removeCleansTables = true) (s : St) (h : TInv s) : TInv (reconnectPeers s) := by
  unfold reconnectPeers
  split
  · exact h
  · exact TInv_foldl _ (fun s a hs => TInv_reconnectStep hk s a hs) _ _ h

theorem TInv_handleInterrupt (hk : Config.removeCleansTables = true) (s : St) (h : TInv s) : TInv (handleInterrupt s) := by
  unfold handleInterrupt
  split
  · exact h
  · dsimp only
    have h1 : TInv { s with pipe := ‹List Nat› } := TInv_of_eq rfl rfl rfl rfl h
    repeat (first | exact h1 | exact TInv_closeConnectionSocket hk _ _ _ h1 | split)

theorem TInv_handleAccept (s : St) (h : TInv s) : TInv (handleAccept s) := by
  unfold handleAccept
  exact TInv_addPeerConnection _ _ (TInv_of_eq rfl rfl rfl rfl h)

theorem TInv_handleReadable (hk : Config.removeCleansTables = true) (w : World) (cid : Nat) (h : TInv w.st) :
    TInv (handleReadable w cid).st := by
  unfold handleReadable
  have h1 : TInv (w.popRx cid).1.st := by rw [popRx_st]; exact h
  repeat (first
    | exact h
    | exact h1
    | exact TInv_connClose _ _ _ (TInv_closeConnectionSocket hk _ _ _ h1)
    | exact TInv_of_eq rfl rfl rfl rfl h1
    | split
    | dsimp only)

theorem TInv_connectResult (hk : Config.removeCleansTables = true) (w : World) (cid : Nat) (c : Conn) (h : TInv w.st) :
    TInv (connectResult w cid c).1.st := by
  unfold connectResult
  dsimp only
  have hs : ∀ s', s'.connections = w.st.connections → s'.peerSockets = w.st.peerSockets → s'.halfReady = w.st.halfReady →
      s'.socketPeers = w.st.socketPeers → TInv (sendCer s' cid) :=
    fun s' a b c d => TInv_sendCer _ _ (TInv_of_eq a b c d h)
  repeat (first
    | exact h
    | exact TInv_connClose _ _ _ (TInv_closeConnectionSocket hk _ _ _ h)
    | (apply hs <;> (repeat (first | rfl | split)))
    | split)

theorem TInv_flushWritable (hk : Config.removeCleansTables = true) (w : World) (cid : Nat) (h : TInv w.st) :
    TInv (flushWritable w cid).st := by
  unfold flushWritable
  have hf : ∀ (l : List AMsg) (s : St), TInv s → TInv (l.foldl (fun s m => s.emit (.wrote cid m)) s) :=
    fun l s hs => TInv_foldl (fun s (m : AMsg) => s.emit (.wrote cid m)) (fun s a hs => TInv_of_eq rfl rfl rfl rfl hs) l s hs
  have h1 : TInv (w.popTx cid).1.st := by rw [popTx_st]; exact h
  dsimp only
  split
  · exact h
  · split
    · split
      · exact TInv_closeConnectionSocket hk _ _ _ h
      · exact h
    · split
      · exact h1
      · exact TInv_connClose _ _ _ h1
      · have h2 := hf ‹Conn›.wbuf _ h1
        have h3 : TInv ((List.foldl (fun s m => s.emit (.wrote cid m)) (w.popTx cid).1.st ‹Conn›.wbuf).modConn cid fun c => { c with wbuf := [] }) :=
          TInv_of_eq rfl rfl rfl rfl h2
        repeat (first | exact h3 | exact TInv_closeConnectionSocket hk _ _ _ h3 | split)

theorem TInv_handleWritable (hk : Config.removeCleansTables = true) (w : World) (cid : Nat) (h : TInv w.st) :
    TInv (handleWritable w cid).st := by
  unfold handleWritable
  repeat (first
    | exact h
    | exact TInv_connectResult hk _ _ _ h
    | exact TInv_flushWritable hk _ _ (TInv_connectResult hk _ _ _ h)
    | split
    | dsimp only)

theorem TInv_foldlW {α : Type} (f : World → α → World) (hf : ∀ w a, TInv w.st → TInv (f w a).st) (l : List α) (w : World)
    (h : TInv w.st) : TInv (l.foldl f w).st := by
  induction l generalizing w with
  | nil => exact h
  | cons a l ih => exact ih _ (hf w a h)

theorem TInv_ioIteration (hk : Config.removeCleansTables = true) (w : World) (h : TInv w.st) : TInv (ioIteration w).st := by
  unfold ioIteration
  dsimp only
  apply TInv_reconnectPeers hk
  apply TInv_foldl _ (fun s a hs => TInv_checkTimers hk s a hs)
  apply TInv_foldlW _ (fun w a hw => TInv_handleWritable hk w a hw)
  apply TInv_foldlW _ (fun w a hw => TInv_handleReadable hk w a hw)
  repeat (first | exact h | exact TInv_handleInterrupt hk _ h | (apply TInv_handleAccept) | split)

theorem TInv_appRecvStep (infoOf : AMsg → MsgInfo) (ai mx : Nat) (s : St) (m : AMsg) (h : TInv s) :
    TInv (appRecvStep infoOf ai mx s m) := by
  unfold appRecvStep
  repeat (first | exact h | split | dsimp only | tsame h)

theorem TInv_pumpAppRecv (infoOf : AMsg → MsgInfo) (s : St) (ai : Nat) (h : TInv s) : TInv (pumpAppRecv infoOf s ai) := by
  unfold pumpAppRecv
  repeat (first | exact h | exact TInv_foldl _ (fun s a hs => TInv_appRecvStep infoOf ai _ s a hs) _ _ h | split)

theorem TInv_appRespStep (ai : Nat) (s : St) (m : AMsg) (h : TInv s) : TInv (appRespStep ai s m) := by
  unfold appRespStep
  repeat (first | exact h | split | dsimp only | tsame h)

theorem TInv_appRespNones (ai : Nat) (s : St) (h : TInv s) : TInv (appRespNones ai s) := by
  unfold appRespNones
  repeat (first | exact h | exact TInv_of_eq rfl rfl rfl rfl h | split)

theorem TInv_pumpAppResp (s : St) (ai : Nat) (h : TInv s) : TInv (pumpAppResp s ai) := by
  unfold pumpAppResp
  repeat (first | exact h | exact TInv_appRespNones _ _ (TInv_foldl _ (fun s a hs => TInv_appRespStep ai s a hs) _ _ h) | split)

theorem TInv_pumpAll (hk : Config.removeCleansTables = true) (infoOf : AMsg → MsgInfo) (s : St) (h : TInv s) :
    TInv (pumpAll infoOf s) := by
  unfold pumpAll
  dsimp only
  apply TInv_foldl
  · intro s ai hs
    exact TInv_pumpAppResp _ _ (TInv_pumpAppRecv infoOf _ _ hs)
  · apply TInv_foldl
    · intro s c hs
      have : TInv (pumpWriter ((List.range ((s.conn? c.id).map (·.inQ.length) |>.getD 0)).foldl (fun s _ => pumpReader infoOf s c.id) s) c.id) := by
        have h1 := TInv_foldl (fun s (_ : Nat) => pumpReader infoOf s c.id) (fun s _ hs => TInv_pumpReader hk infoOf s c.id hs)
          (List.range ((s.conn? c.id).map (·.inQ.length) |>.getD 0)) s hs
        exact TInv_same h1 (connections_pumpWriter ..) (peerSockets_pumpWriter ..) (halfReady_pumpWriter ..) (socketPeers_pumpWriter ..)
      exact this
    · exact h

theorem TInv_settle (hk : Config.removeCleansTables = true) (infoOf : AMsg → MsgInfo) (n : Nat) (w : World) (h : TInv w.st) :
    TInv (settle infoOf n w).st := by
  induction n generalizing w with
  | zero => exact h
  | succ n ih =>
    unfold settle
    dsimp only
    have h1 : TInv (pumpAll infoOf (ioIteration w).st) := TInv_pumpAll hk infoOf _ (TInv_ioIteration hk w h)
    split
    · exact ih _ h1
    · exact h1

theorem TInv_stopFinal (hk : Config.removeCleansTables = true) (s : St) (h : TInv s) : TInv (stopFinal s) := by
  unfold stopFinal
  exact TInv_foldl _ (fun s a hs => TInv_connClose _ _ _ (TInv_closeConnectionSocket hk _ _ _ hs)) _ _ h

theorem TInv_runHandler (infoOf : AMsg → MsgInfo) (s : St) (k : Nat) (h : TInv s) : TInv (runHandler infoOf s k) := by
  tsame h

theorem TInv_applyOp (hk : Config.removeCleansTables = true) (infoOf : AMsg → MsgInfo) (w : World) (o : Op) (h : TInv w.st) :
    TInv (applyOp infoOf w o).st := by
  cases o with
  | start plan =>
    simp only [applyOp]
    apply TInv_foldl
    · intro s a hs
      repeat (first | exact hs | exact TInv_connectToPeer hk s a hs | split)
    · exact TInv_of_eq rfl rfl rfl rfl h
  | accept => exact TInv_ioIteration hk _ h
  | rx cid e => simp only [applyOp, pushRx]; repeat (first | exact h | split)
  | wr cid evs => simp only [applyOp]; repeat (first | exact h | split | dsimp only)
  | block cid b => simp only [applyOp]; split <;> exact h
  | io => exact TInv_ioIteration hk _ h
  | pump => exact TInv_pumpAll hk infoOf _ h
  | settle n => exact TInv_settle hk infoOf n w h
  | handler k => exact TInv_runHandler infoOf _ k h
  | ans ai req rc => simp only [applyOp]; tsame h
  | reqBegin ai m => simp only [applyOp]; tsame h
  | reqEnd ai hbh t => simp only [applyOp]; split <;> exact TInv_of_eq rfl rfl rfl rfl h
  | stopBegin f => simp only [applyOp]; tsame h
  | stopFinal => exact TInv_stopFinal hk _ h
  | _ => exact TInv_of_eq rfl rfl rfl rfl h

end DV.Node
