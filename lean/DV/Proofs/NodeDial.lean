/-
  "Non-persistent peers are never dialled": the invariant `DInv F s` — the
  `persistent` flags of the configured peers are the list `F` (they are never
  rewritten), and every `dialled pi` observation the node has emitted names a
  peer whose flag is set — is kept by every function of the node.  `connect()`
  is only reached through `connectToPeer`, whose two callers (`Node.start`,
  `_reconnect_peers`) test the flag.  (The second half of this file is the text
  of Proofs/NodePeerRec.lean with the relation replaced.)
-/
import DV.Proofs.NodeSound
import DV.Proofs.NodeQ
namespace DV.Node

/-- the peer index of a `connect()` observation -/
def Out.dial? : Out → Option Nat
  | .dialled pi => some pi
  | _ => none

def DInv (F : List Bool) (s : St) : Prop :=
  s.peers.map (·.persistent) = F ∧ ∀ o ∈ s.outs, ∀ pi, o.dial? = some pi → F[pi]? = some true

variable {F : List Bool}

theorem dl_of_eq {s' s : St} (h2 : s'.peers = s.peers) (h3 : s'.outs = s.outs) (h : DInv F s) : DInv F s' := by
  unfold DInv at *
  rw [h2, h3]; exact h

/-- a literal state whose `peers` and `outs` are those of `s'` -/
theorem dl_mk' (s' : St) {cfg now apps routes conns connections peerSockets socketPeers halfReady appWaiting peerWaiting
    originWaiting sentAnswers e2e nextHbhSeed stopping started pipe dialPlan appRequests delivered inProgress tapps
    deferred crashed} (h : DInv F s') :
    DInv F (St.mk cfg now s'.peers apps routes conns connections peerSockets socketPeers halfReady appWaiting peerWaiting
      originWaiting sentAnswers e2e nextHbhSeed stopping started pipe dialPlan appRequests delivered inProgress tapps
      deferred crashed s'.outs) := h

open Lean Elab Tactic Meta in
elab "guard_st_literal_dl" : tactic => do
  let g ← instantiateMVars (← getMainTarget)
  match g.getAppFnArgs with
  | (``DV.Node.DInv, #[_, st]) => unless st.isAppOf ``DV.Node.St.mk do throwError "not a literal state"
  | _ => throwError "not a goal of the form DInv _ _"

macro "dl_hyp" : tactic => `(tactic| with_reducible assumption)
macro "dl_lit" : tactic => `(tactic| (guard_st_literal_dl; with_reducible apply dl_mk'))

/-! ### record updates -/

theorem dl_modPeer (s : St) (i : Nat) (f : Peer → Peer) (hf : ∀ p, (f p).persistent = p.persistent) (h : DInv F s) :
    DInv F (s.modPeer i f) := by
  refine ⟨?_, h.2⟩
  rw [← h.1]
  simp only [St.modPeer]
  apply List.ext_getElem?
  intro k
  simp only [List.getElem?_map, List.getElem?_mapIdx]
  cases s.peers[k]? with
  | none => rfl
  | some p =>
    simp only [Option.map_some]
    split
    · rw [hf]
    · rfl

/-- discharges the side condition of `dl_modPeer` for a literal record update -/
macro "tamed" : tactic => `(tactic| (intro p; rfl))

theorem dl_modConn (s : St) (i : Nat) (f : Conn → Conn) (h : DInv F s) : DInv F (s.modConn i f) := h
theorem dl_modTApp (s : St) (i : Nat) (f : TApp → TApp) (h : DInv F s) : DInv F (s.modTApp i f) := h
theorem dl_modApp (s : St) (i : Nat) (f : App → App) (h : DInv F s) : DInv F (s.modApp i f) := h
theorem dl_demand (s : St) (c : Nat) (h : DInv F s) : DInv F (demandAttention s c) := h
theorem dl_setCrashed (s : St) (n : Nat) (h : DInv F s) : DInv F ({ s with crashed := n } : St) := h

/-- an observation that is not a `connect()` -/
theorem dl_emit (s : St) (o : Out) (ho : o.dial? = none) (h : DInv F s) : DInv F (s.emit o) := by
  refine ⟨h.1, ?_⟩
  intro o' ho' pi hd
  simp only [St.emit, List.mem_append, List.mem_singleton] at ho'
  cases ho' with
  | inl hm => exact h.2 o' hm pi hd
  | inr he => subst he; rw [ho] at hd; cases hd

/-- a `connect()` to a peer whose `persistent` flag is set -/
theorem dl_emitDial (s : St) (pi : Nat) (hp : F[pi]? = some true) (h : DInv F s) : DInv F (s.emit (.dialled pi)) := by
  refine ⟨h.1, ?_⟩
  intro o' ho' pj hd
  simp only [St.emit, List.mem_append, List.mem_singleton] at ho'
  cases ho' with
  | inl hm => exact h.2 o' hm pj hd
  | inr he =>
    subst he
    simp only [Out.dial?, Option.some.injEq] at hd
    subst hd; exact hp

macro "dl_triv" : tactic => `(tactic| first
  | with_reducible apply dl_modTApp | with_reducible apply dl_modApp | with_reducible apply dl_modConn
  | with_reducible apply dl_emit _ _ (by with_unfolding_all rfl) | with_reducible apply dl_demand)

theorem dl_connClose (s : St) (cid : Nat) (b : Bool) (h : DInv F s) : DInv F (connClose s cid b) := by
  unfold connClose
  split <;> exact h

/-- removing a connection: when the peer's record is cleared, reason and time are set -/
theorem dl_removePeerConnection (s : St) (cid : Nat) (r : Reason) (h : DInv F s) : DInv F (removePeerConnection s cid r) := by
  unfold removePeerConnection
  cases hc : s.conn? cid with
  | none => exact h
  | some c =>
    simp only []
    have key : ∀ (s1 : St) (i : Nat), DInv F s1 → DInv F (s1.modPeer i fun p =>
        { p with connection := none, lastDisconnect := some s1.now,
                 reason := match p.reason with | none => some r | r => r }) := by
      intro s1 i h1
      apply dl_modPeer _ _ _ _ h1
      intro p; rfl
    repeat (first
      | dl_hyp | dl_lit | split | dsimp only
      | exact dl_of_eq rfl rfl h
      | (apply dl_of_eq rfl rfl; apply key; exact dl_of_eq rfl rfl h)
      | (apply dl_of_eq rfl rfl; exact dl_of_eq rfl rfl h))

theorem dl_closeConnectionSocket (s : St) (cid : Nat) (r : Reason) (h : DInv F s) : DInv F (closeConnectionSocket s cid r) := by
  unfold closeConnectionSocket
  apply dl_removePeerConnection
  split
  · exact dl_connClose _ _ _ h
  · exact h

theorem dl_recordAnswerState (s : St) (cid : Nat) (m : AMsg) (h : DInv F s) : DInv F (recordAnswerState s cid m) := by
  refine dl_of_eq ?_ ?_ h
  · unfold recordAnswerState; repeat (first | rfl | split | dsimp only)
  · unfold recordAnswerState; repeat (first | rfl | split | dsimp only)

theorem dl_sendMessage (s : St) (cid : Nat) (m : AMsg) (b : Bool) (h : DInv F s) : DInv F (sendMessage s cid m b).1 := by
  unfold sendMessage
  split
  · exact h
  · dsimp only
    split
    · exact dl_recordAnswerState _ _ _ (dl_of_eq rfl rfl h)
    · exact h

theorem dl_foldl {α : Type} (f : St → α → St) (hf : ∀ s a, DInv F s → DInv F (f s a)) (l : List α) (s : St) (h : DInv F s) :
    DInv F (l.foldl f s) := by
  induction l generalizing s with
  | nil => exact h
  | cons a l ih => exact ih _ (hf s a h)

theorem dl_foldlW {α : Type} (f : World → α → World) (hf : ∀ w a, DInv F w.st → DInv F (f w a).st) (l : List α) (w : World)
    (h : DInv F w.st) : DInv F (l.foldl f w).st := by
  induction l generalizing w with
  | nil => exact h
  | cons a l ih => exact ih _ (hf w a h)

theorem dl_addPeerConnection (s : St) (c : Conn) (hq : True) (h : DInv F s) : DInv F (addPeerConnection s c).1 := by
  unfold addPeerConnection
  dsimp only
  repeat (first | dl_hyp | dl_triv | dl_lit | split | dsimp only | with_reducible apply dl_modPeer _ _ _ (by tamed) | exact dl_of_eq rfl rfl h)

theorem dl_routeAnswer (s s' : St) (m : AMsg) (cid : Nat) (hr : routeAnswer s m = .ok (s', cid)) (h : DInv F s) : DInv F s' := by
  unfold routeAnswer at hr
  simp only [] at hr
  repeat (first | contradiction | split at hr)
  all_goals (first | contradiction | (injection hr with hr; injection hr with h1 h2; subst h1; exact dl_of_eq rfl rfl h))

theorem dl_routeAnswerSideEffect (s : St) (m : AMsg) (h : DInv F s) : DInv F (routeAnswerSideEffect s m) := by
  unfold routeAnswerSideEffect
  split
  · exact h
  · exact dl_of_eq rfl rfl h

/-- the composition tactic: peel known functions off the goal `f (g (… s)) ≼ s0` -/
macro "dl_tac" : tactic => `(tactic| repeat (first
  | dl_hyp
  | dl_triv
  | dl_lit
  | split
  | dsimp only
  | with_reducible apply dl_modPeer _ _ _ (by tamed)
  | with_reducible apply dl_connClose
  | with_reducible apply dl_removePeerConnection
  | with_reducible apply dl_closeConnectionSocket
  | with_reducible apply dl_recordAnswerState
  | with_reducible apply dl_sendMessage))

theorem dl_assignPeerConnection (s : St) (cid : Nat) (h : DInv F (s)) : DInv F (assignPeerConnection s cid) := by
  unfold assignPeerConnection; dl_tac

theorem dl_flagReady (s : St) (cid : Nat) (h : DInv F (s)) : DInv F (flagConnectionAsReady s cid) := by
  unfold flagConnectionAsReady
  exact dl_of_eq rfl rfl (dl_of_eq rfl rfl h)

theorem dl_cerNameAndElect (s : St) (cid : Nat) (hn : String) (h : DInv F (s)) : DInv F ((cerNameAndElect s cid hn).1) := by
  unfold cerNameAndElect
  have hf : ∀ (l : List Conn) (s : St), DInv F s → DInv F (l.foldl (fun s o => connClose s o.id true) s) :=
    fun l s hs => dl_foldl (fun s (o : Conn) => connClose s o.id true) (fun s a hs => dl_connClose s a.id true hs) l s hs
  dsimp only
  repeat (first | dl_hyp | dl_triv | dl_lit | split | with_reducible apply hf | with_reducible apply dl_modPeer _ _ _ (by tamed))

macro "dl_tac2" : tactic => `(tactic| repeat (first
  | dl_hyp
  | dl_triv
  | dl_lit
  | split
  | dsimp only
  | with_reducible apply dl_modPeer _ _ _ (by tamed)
  | with_reducible apply dl_connClose
  | with_reducible apply dl_removePeerConnection
  | with_reducible apply dl_closeConnectionSocket
  | with_reducible apply dl_recordAnswerState
  | with_reducible apply dl_sendMessage
  | with_reducible apply dl_assignPeerConnection
  | with_reducible apply dl_flagReady
  | with_reducible apply dl_cerNameAndElect))

theorem dl_receiveCer (s : St) (cid : Nat) (m : AMsg) (info : MsgInfo) (h : DInv F (s)) : DInv F ((receiveCer s cid m info).1) := by
  unfold receiveCer; dl_tac2

theorem dl_receiveCea (s : St) (cid : Nat) (m : AMsg) (h : DInv F (s)) : DInv F ((receiveCea s cid m).1) := by
  unfold receiveCea; dl_tac2

theorem dl_receiveDpr (s : St) (cid : Nat) (m : AMsg) (info : MsgInfo) (h : DInv F (s)) : DInv F ((receiveDpr s cid m info).1) := by
  unfold receiveDpr; dl_tac2

theorem dl_receiveDpa (s : St) (cid : Nat) (h : DInv F (s)) : DInv F (receiveDpa s cid) := by
  unfold receiveDpa; dl_tac2

theorem dl_receiveDwa (s : St) (cid : Nat) (h : DInv F (s)) : DInv F (receiveDwa s cid) := by
  unfold receiveDwa; dl_tac2

theorem dl_receiveDwr (s : St) (cid : Nat) (m : AMsg) (info : MsgInfo) (h : DInv F (s)) : DInv F ((receiveDwr s cid m info).1) := by
  unfold receiveDwr; dl_tac2

theorem dl_appReceiveRequest (s : St) (ai : Nat) (m : AMsg) (h : DInv F (s)) : DInv F ((appReceiveRequest s ai m).1) := by
  unfold appReceiveRequest; dl_tac2

theorem dl_appReceiveAnswer (s : St) (ai : Nat) (m : AMsg) (h : DInv F (s)) : DInv F (appReceiveAnswer s ai m) := by
  unfold appReceiveAnswer; dl_tac2

theorem dl_receiveAppAnswer (s : St) (m : AMsg) (h : DInv F (s)) : DInv F (receiveAppAnswer s m) := by
  unfold receiveAppAnswer
  repeat (first | dl_hyp | dl_triv | dl_lit | split | with_reducible apply dl_appReceiveAnswer)

theorem dl_recordOrigin (s : St) (cid : Nat) (m : AMsg) (info : MsgInfo) (h : DInv F (s)) : DInv F (recordOrigin s cid m info) := by
  unfold recordOrigin; dl_tac2

theorem dl_crashReader (s : St) (cid : Nat) (e : String) (h : DInv F (s)) : DInv F (crashReader s cid e) := by
  unfold crashReader
  exact dl_emit _ _ (by with_unfolding_all rfl) (dl_of_eq rfl rfl h)

theorem dl_sendCer (s : St) (cid : Nat) (h : DInv F (s)) : DInv F (sendCer s cid) := by
  unfold sendCer; dl_tac2

theorem dl_modConn_stamp (s : St) (i : Nat) (h : DInv F s) :
    DInv F (s.modConn i fun x => { x with state := if x.state.isReady then .waitDwa else x.state, lastDwr := s.now }) := h

theorem dl_sendDwr (s : St) (cid : Nat) (h : DInv F s) : DInv F (sendDwr s cid) := by
  unfold sendDwr
  split
  · exact h
  · dsimp only
    apply dl_modConn_stamp
    apply dl_sendMessage
    apply dl_modConn _ _ _
    exact dl_of_eq rfl rfl h

theorem dl_sendDpr (s : St) (cid : Nat) (h : DInv F (s)) : DInv F (sendDpr s cid) := by
  unfold sendDpr; dl_tac2

macro "dl_tac3" : tactic => `(tactic| repeat (first
  | dl_hyp
  | dl_triv
  | dl_lit
  | split
  | dsimp only
  | with_reducible apply dl_modPeer _ _ _ (by tamed)
  | with_reducible apply dl_connClose
  | with_reducible apply dl_removePeerConnection
  | with_reducible apply dl_closeConnectionSocket
  | with_reducible apply dl_recordAnswerState
  | with_reducible apply dl_sendMessage
  | with_reducible apply dl_sendCer
  | with_reducible apply dl_sendDwr
  | with_reducible apply dl_sendDpr))

theorem dl_checkTimers (s : St) (cid : Nat) (h : DInv F (s)) : DInv F (checkTimers s cid) := by
  unfold checkTimers; dl_tac3

theorem dl_flag {s : St} (h : DInv F s) {pi : Nat} {p : Peer} (hp : s.peers[pi]? = some p) (hpp : p.persistent = true) :
    F[pi]? = some true := by
  rw [← h.1, List.getElem?_map, hp]; simp [hpp]

theorem dl_connectToPeer (s : St) (pi : Nat) (hp : F[pi]? = some true) (h : DInv F (s)) : DInv F (connectToPeer s pi) := by
  unfold connectToPeer
  repeat (first
    | dl_hyp
    | dl_triv
    | dl_lit
    | split
    | dsimp only
    | with_reducible apply dl_modPeer _ _ _ (by tamed)
    | with_reducible apply dl_removePeerConnection
    | with_reducible apply dl_closeConnectionSocket
    | with_reducible apply dl_sendCer
    | apply dl_addPeerConnection _ _ trivial
    | with_reducible apply dl_emitDial _ _ hp)

theorem dl_reconnectStep (s : St) (pi : Nat) (h : DInv F (s)) : DInv F (reconnectStep s pi) := by
  unfold reconnectStep
  split
  · exact h
  · rename_i p hp
    cases hpp : p.persistent with
    | false => simpa [hpp] using h
    | true =>
      have hf := dl_flag h hp hpp
      repeat (first | dl_hyp | split | exact dl_connectToPeer _ _ hf h)

theorem dl_reconnectPeers (s : St) (h : DInv F (s)) : DInv F (reconnectPeers s) := by
  unfold reconnectPeers
  split
  · exact h
  · exact dl_foldl _ (fun s a hs => dl_reconnectStep s a hs) _ _ h

theorem dl_handleInterrupt (s : St) (h : DInv F (s)) : DInv F (handleInterrupt s) := by
  unfold handleInterrupt; dl_tac3

theorem dl_handleAccept (s : St) (h : DInv F (s)) : DInv F (handleAccept s) := by
  unfold handleAccept
  dsimp only
  exact dl_addPeerConnection _ _ trivial (dl_of_eq rfl rfl h)

theorem dl_connectResult (w : World) (cid : Nat) (c : Conn) (h : DInv F (w.st)) : DInv F ((connectResult w cid c).1.st) := by
  unfold connectResult; dl_tac3

theorem dl_flushWritable (w : World) (cid : Nat) (h : DInv F (w.st)) : DInv F ((flushWritable w cid).st) := by
  unfold flushWritable
  have hf : ∀ (l : List AMsg) (s : St), DInv F s → DInv F (l.foldl (fun s m => s.emit (.wrote cid m)) s) :=
    fun l s hs => dl_foldl (fun s m => s.emit (.wrote cid m)) (fun s a hs => dl_emit _ _ (by with_unfolding_all rfl) hs) l s hs
  repeat (first
    | dl_hyp
    | dl_triv
    | dl_lit
    | split
    | dsimp only
    | simp only [popTx_st]
    | with_reducible apply dl_modPeer _ _ _ (by tamed)
    | with_reducible apply dl_connClose
    | with_reducible apply dl_closeConnectionSocket
    | with_reducible apply hf)

theorem dl_handleWritable (w : World) (cid : Nat) (h : DInv F (w.st)) : DInv F ((handleWritable w cid).st) := by
  unfold handleWritable
  repeat (first | dl_hyp | dl_triv | dl_lit | split | dsimp only | with_reducible apply dl_flushWritable | with_reducible apply dl_connectResult)

theorem dl_pumpWriter (s : St) (cid : Nat) (h : DInv F (s)) : DInv F (pumpWriter s cid) := by
  unfold pumpWriter
  repeat (first | dl_hyp | dl_triv | dl_lit | split | (apply dl_foldl; intro s a hs; exact dl_of_eq rfl rfl (dl_of_eq rfl rfl hs)))

/-! ### applications -/

theorem dl_sendBuiltAnswer (s : St) (a : AMsg) (t : Bool) (h : DInv F (s)) : DInv F ((sendBuiltAnswer s a t).1) := by
  unfold sendBuiltAnswer
  split
  · exact dl_routeAnswerSideEffect _ _ h
  · rename_i hr
    exact dl_sendMessage _ _ _ _ (dl_routeAnswer _ _ _ _ hr h)


theorem dl_appRecvStep (infoOf : AMsg → MsgInfo) (ai mx : Nat) (s : St) (m : AMsg) (h : DInv F (s)) : DInv F (appRecvStep infoOf ai mx s m) := by
  unfold appRecvStep
  repeat (first | dl_hyp | dl_triv | dl_lit | split | dsimp only | with_reducible apply dl_sendBuiltAnswer | with_reducible apply dl_setCrashed)

theorem dl_pumpAppRecv (infoOf : AMsg → MsgInfo) (s : St) (ai : Nat) (h : DInv F (s)) : DInv F (pumpAppRecv infoOf s ai) := by
  unfold pumpAppRecv
  repeat (first | dl_hyp | dl_triv | dl_lit | split | exact dl_foldl _ (fun s a hs => dl_appRecvStep infoOf ai _ s a hs) _ _ h)

theorem dl_appRespStep (ai : Nat) (s : St) (m : AMsg) (h : DInv F (s)) : DInv F (appRespStep ai s m) := by
  unfold appRespStep
  repeat (first | dl_hyp | dl_triv | dl_lit | split | dsimp only | with_reducible apply dl_sendBuiltAnswer | with_reducible apply dl_setCrashed)

theorem dl_appRespNones (ai : Nat) (s : St) (h : DInv F (s)) : DInv F (appRespNones ai s) := by
  unfold appRespNones
  repeat (first | dl_hyp | dl_triv | dl_lit | split | with_reducible apply dl_modTApp)

theorem dl_pumpAppResp (s : St) (ai : Nat) (h : DInv F (s)) : DInv F (pumpAppResp s ai) := by
  unfold pumpAppResp
  repeat (first | dl_hyp | dl_triv | dl_lit | split | (apply dl_appRespNones; exact dl_foldl _ (fun s a hs => dl_appRespStep ai s a hs) _ _ h))

theorem dl_runHandler (infoOf : AMsg → MsgInfo) (s : St) (k : Nat) (h : DInv F (s)) : DInv F (runHandler infoOf s k) := by
  unfold runHandler
  repeat (first | dl_hyp | dl_triv | dl_lit | split | dsimp only | with_reducible apply dl_modTApp )

theorem dl_appSendAnswer (s : St) (ai : Nat) (req : AMsg) (info : MsgInfo) (rc : Option Nat) (h : DInv F (s)) : DInv F (appSendAnswer s ai req info rc) := by
  unfold appSendAnswer
  dsimp only
  split
  · exact dl_emit _ _ (by with_unfolding_all rfl) (dl_routeAnswerSideEffect _ _ h)
  · rename_i hr
    split <;> exact dl_emit _ _ (by with_unfolding_all rfl) (dl_sendMessage _ _ _ _ (dl_routeAnswer _ _ _ _ hr h))

theorem dl_routeRequest (s s' : St) (ai : Nat) (m m' : AMsg) (info : MsgInfo) (cid : Nat)
    (hr : routeRequest s ai m info = .ok (s', cid, m')) (h : DInv F (s)) : DInv F (s') := by
  unfold routeRequest at hr
  simp only [] at hr
  repeat (first | contradiction | split at hr)
  all_goals (injection hr with hr; injection hr with h1 h2; subst h1)
  all_goals repeat (first | dl_hyp | dl_triv | dl_lit | dl_lit | split | dsimp only | with_reducible apply dl_modPeer _ _ _ (by tamed))

theorem dl_appSendRequestBegin (s : St) (ai : Nat) (m : AMsg) (info : MsgInfo) (h : DInv F (s)) : DInv F ((appSendRequestBegin s ai m info).1) := by
  unfold appSendRequestBegin
  dsimp only
  split
  · split <;> exact dl_of_eq rfl rfl h
  · rename_i hr
    apply dl_sendMessage
    apply dl_modApp
    refine dl_routeRequest _ _ _ _ _ _ _ hr ?_
    split <;> exact dl_of_eq rfl rfl h

theorem dl_appSendRequestEnd (s : St) (ai : Nat) (hbh : Nat) (h : DInv F (s)) : DInv F ((appSendRequestEnd s ai hbh).1) := h

theorem dl_stopBegin (s : St) (f : Bool) (h : DInv F (s)) : DInv F (stopBegin s f) := by
  unfold stopBegin
  dsimp only
  split
  · exact dl_of_eq rfl rfl h
  · apply dl_foldl
    · intro s a hs
      repeat (first | dl_hyp | dl_triv | dl_lit | split | with_reducible apply dl_sendDpr)
    · exact dl_of_eq rfl rfl h

theorem dl_stopFinal (s : St) (h : DInv F (s)) : DInv F (stopFinal s) := by
  unfold stopFinal
  apply dl_foldl
  · intro s a hs
    exact dl_connClose _ _ _ (dl_closeConnectionSocket _ _ _ hs)
  · exact h

end DV.Node
