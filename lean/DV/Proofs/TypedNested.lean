/-
  `assign_attr_from_defs` undoes `generate_avps_from_defs` for whole object
  trees: nested containers and lists of containers, to any depth.
-/
import DV.Proofs.TypedAssign
import DV.Proofs.AvpList
namespace DV
open Spec
set_option linter.unusedSimpArgs false
set_option linter.unusedVariables false

/-! ### what "restored" means

  The fields of a typed object are stored in a dictionary; two objects are the
  same object when every declared attribute holds the same value.  `Restored`
  says that attribute by attribute, recursively. -/

/-- two lists related element by element -/
inductive AllRel {α β : Type} (Rel : α → β → Prop) : List α → List β → Prop
  | nil : AllRel Rel [] []
  | cons {a b as bs} : Rel a b → AllRel Rel as bs → AllRel Rel (a :: as) (b :: bs)

/-- attribute `d` of the object read back (`v1`) is what was set (`v`);
    `R` relates nested objects -/
def FieldRestoredBy (Rel : FVal → FVal → Prop) (c : ClassDef) (d : AttrDef) (v v1 : FVal) : Prop :=
  match v with
  | .unset => v1 = fieldOf (initFields c) d
  | .scalar x => v1 = .scalar x
  | .list xs => v1 = .list xs
  | .obj cls fs add => Rel (.obj cls fs add) v1
  | .objs os => ∃ os1, v1 = .objs os1 ∧ AllRel Rel os os1
  | .classObj _ => False

/-- `back` is the object `v`, up to the order in which attributes are stored:
    same class, same undeclared AVPs, every declared attribute restored
    (nested objects recursively; depth at most the index). -/
def Restored (cs : List ClassDef) : Nat → FVal → FVal → Prop
  | 0 => fun _ _ => False
  | n + 1 => fun v back =>
    match v with
    | .obj cls fs add =>
      ∃ c f1, findClass cs cls = some c ∧ back = .obj cls f1 add ∧
        ∀ d ∈ c.defs, FieldRestoredBy (Restored cs n) c d (fieldOf fs d) (fieldOf f1 d)
    | _ => False

/-- what the theorem asks of the value of attribute `d`; `G` is the condition on
    nested objects -/
def FieldGoodBy (G : FVal → Prop) (dict : DTree) (d : AttrDef) (v : FVal) : Prop :=
  match v with
  | .unset => True
  | .scalar x => d.isList = false ∧ d.tclass = none ∧
      ∃ e, lookupDict dict d.code d.vendor = some e ∧ InDomain (Ty.ofTag e.ty) x
  | .list xs => d.isList = true ∧ d.tclass = none ∧
      ∃ e, lookupDict dict d.code d.vendor = some e ∧ ∀ x ∈ xs, InDomain (Ty.ofTag e.ty) x
  | .obj cls fs add => d.isList = false ∧ d.tclass = some cls ∧
      (∃ e, lookupDict dict d.code d.vendor = some e ∧ e.ty = tagGrouped) ∧ G (.obj cls fs add)
  | .objs os => d.isList = true ∧ ∃ t, d.tclass = some t ∧
      (∃ e, lookupDict dict d.code d.vendor = some e ∧ e.ty = tagGrouped) ∧
      ∀ o ∈ os, (∃ fs add, o = .obj t fs add) ∧ G o
  | .classObj _ => False

/-- The objects the round trip is stated for (nesting depth at most the index):
    an object of a known class with pairwise distinct definitions that keeps
    undeclared AVPs; its undeclared AVPs really are undeclared; every attribute
    is unset, an in-domain scalar, a list of in-domain plain values, a nested
    object of the definition's container class, or a list of those; the AVPs
    generated for it (at any level) fit the wire format (`AvpWF`: 32-bit code
    and vendor id, 24-bit length, V iff vendor). -/
def Good (dict : DTree) (cs : List ClassDef) : Nat → FVal → Prop
  | 0 => fun _ => False
  | n + 1 => fun v =>
    match v with
    | .obj cls fs add =>
      ∃ c, findClass cs cls = some c ∧ defsDistinct c.defs = true ∧ c.additional ≠ 0 ∧
        (∀ a ∈ add, neededDef c.defs a.code a.vendor = none) ∧
        (∀ k subs, generateFuel rfcTime dict cs k (.obj cls fs add) = .ok subs → ∀ a ∈ subs, AvpWF a) ∧
        ∀ d ∈ c.defs, FieldGoodBy (Good dict cs n) dict d (fieldOf fs d)
    | _ => False

/-! ### one AVP of a container definition -/

theorem ofTag_grouped : Ty.ofTag tagGrouped = .grouped := rfl

theorem assignStep_obj (getv : Ty → Bytes → R Value) (dict : DTree) (c : ClassDef) (recur : Nat → List Avp → R FVal)
    (fields : List (Nat × FVal)) (extra : List Avp) (a : Avp) (d : AttrDef) (e : DictEntry) (t : Nat)
    (sub : List Avp) (o : FVal)
    (hn : neededDef c.defs a.code a.vendor = some d) (ht : d.tclass = some t)
    (he : lookupDict dict a.code a.vendor = some e) (hty : e.ty = tagGrouped)
    (hdec : decodeAvps a.payload 0 = .ok sub) (hrec : recur t sub = .ok o)
    (hcur : (∀ vs, fieldOf fields d ≠ .list vs) ∧ (∀ os, fieldOf fields d ≠ .objs os)) :
    assignStep getv dict c recur (fields, extra) a = .ok (setField fields d.attr o, extra) := by
  unfold assignStep
  simp only [hn, ht, he, hty, ofTag_grouped, beq_self_eq_true, if_true, hdec, hrec]
  show (match fieldOf fields d with
    | FVal.objs os => Except.ok (setField fields d.attr (FVal.objs (os ++ [o])), extra)
    | FVal.list vs => Except.ok (setField fields d.attr (FVal.objs (vs.map (fun v => FVal.scalar v) ++ [o])), extra)
    | _ => Except.ok (setField fields d.attr o, extra)) = _
  cases hf : fieldOf fields d with
  | list vs => exact absurd hf (hcur.1 vs)
  | objs os => exact absurd hf (hcur.2 os)
  | _ => rfl

theorem assignStep_objs_elem (getv : Ty → Bytes → R Value) (dict : DTree) (c : ClassDef) (recur : Nat → List Avp → R FVal)
    (fields : List (Nat × FVal)) (extra : List Avp) (a : Avp) (d : AttrDef) (e : DictEntry) (t : Nat)
    (sub : List Avp) (o : FVal) (prev : List FVal)
    (hn : neededDef c.defs a.code a.vendor = some d) (ht : d.tclass = some t)
    (he : lookupDict dict a.code a.vendor = some e) (hty : e.ty = tagGrouped)
    (hdec : decodeAvps a.payload 0 = .ok sub) (hrec : recur t sub = .ok o)
    (hcur : fieldOf fields d = .objs prev) :
    assignStep getv dict c recur (fields, extra) a = .ok (setField fields d.attr (.objs (prev ++ [o])), extra) := by
  unfold assignStep
  simp only [hn, ht, he, hty, ofTag_grouped, beq_self_eq_true, if_true, hdec, hrec]
  show (match fieldOf fields d with
    | FVal.objs os => Except.ok (setField fields d.attr (FVal.objs (os ++ [o])), extra)
    | FVal.list vs => Except.ok (setField fields d.attr (FVal.objs (vs.map (fun v => FVal.scalar v) ++ [o])), extra)
    | _ => Except.ok (setField fields d.attr o, extra)) = _
  rw [hcur]

/-- the payload of a grouped AVP made from well-formed AVPs decodes to them -/
theorem decode_encoded (subs : List Avp) (p : Bytes) (hwf : ∀ a ∈ subs, AvpWF a) (henc : encodeAvps subs = .ok p) :
    decodeAvps p 0 = .ok subs := by
  rw [encodeAvps_wire subs hwf] at henc
  injection henc with henc
  subst henc
  have := decodeAvps_wire [] subs hwf
  simpa using this

/-! ### one definition's AVPs -/

/-- how attribute `d` of the object being filled changes while the AVPs
    generated for the value `v` are assigned: `v0` before, `v1` after -/
def StepRestored (Rel : FVal → FVal → Prop) (v v0 v1 : FVal) : Prop :=
  match v with
  | .unset => v1 = v0
  | .scalar x => v1 = .scalar x
  | .list xs => ∃ p, v0 = .list p ∧ v1 = .list (p ++ xs)
  | .obj cls fs add => Rel (.obj cls fs add) v1
  | .objs os => ∃ p os1, v0 = .objs p ∧ v1 = .objs (p ++ os1) ∧ AllRel Rel os os1
  | .classObj _ => False

/-- what the object being filled must hold under a definition whose attribute is set -/
def StartOKN (fs f0 : List (Nat × FVal)) (d : AttrDef) : Prop :=
  match fieldOf fs d with
  | .scalar _ => (∀ vs, fieldOf f0 d ≠ .list vs) ∧ (∀ os, fieldOf f0 d ≠ .objs os)
  | .obj _ _ _ => (∀ vs, fieldOf f0 d ≠ .list vs) ∧ (∀ os, fieldOf f0 d ≠ .objs os)
  | .list _ => ∃ prev, fieldOf f0 d = .list prev
  | .objs _ => ∃ prev, fieldOf f0 d = .objs prev
  | _ => True

/-- the nested assignment undoes the nested generation (what the induction on
    the depth provides) -/
def RecurOK (dict : DTree) (cs : List ClassDef) (G : FVal → Prop) (Rel : FVal → FVal → Prop) (fuel : Nat)
    (recur : Nat → List Avp → R FVal) : Prop :=
  ∀ t fs add subs, G (.obj t fs add) → generateFuel rfcTime dict cs fuel (.obj t fs add) = .ok subs →
    (∀ a ∈ subs, AvpWF a) ∧ ∃ back, recur t subs = .ok back ∧ Rel (.obj t fs add) back

/-- assigning the AVPs of a list of containers appends the restored objects, in
    order, and touches no other attribute -/
theorem assignLoop_objs (dict : DTree) (cs : List ClassDef) (g : Bool) (c : ClassDef) (recur : Nat → List Avp → R FVal)
    (G : FVal → Prop) (Rel : FVal → FVal → Prop) (fuel : Nat) (hrec : RecurOK dict cs G Rel fuel recur)
    (d : AttrDef) (e : DictEntry) (t : Nat) (hneed : neededDef c.defs d.code d.vendor = some d) (ht : d.tclass = some t)
    (he : lookupDict dict d.code d.vendor = some e) (hty : e.ty = tagGrouped)
    (os : List FVal) (as : List Avp) (hgen : ObjsGen rfcTime dict cs fuel os as)
    (hcar : ∀ a ∈ as, a.code = d.code ∧ a.vendor = d.vendor)
    (hgood : ∀ o ∈ os, (∃ fs add, o = .obj t fs add) ∧ G o)
    (f0 : List (Nat × FVal)) (x0 : List Avp) (prev : List FVal) (hcur : fieldOf f0 d = .objs prev) :
    ∃ f1 os1, assignLoop (assignStep (getValue rfcTime g) dict c recur) as (f0, x0) = .ok (f1, x0) ∧
      fieldOf f1 d = .objs (prev ++ os1) ∧ AllRel Rel os os1 ∧
      ∀ d', d'.attr ≠ d.attr → fieldOf f1 d' = fieldOf f0 d' := by
  induction hgen generalizing f0 prev with
  | nil => exact ⟨f0, [], rfl, by simpa using hcur, .nil, fun _ _ => rfl⟩
  | cons o os a as subs hsubs henc _ ih =>
    obtain ⟨hc1, hc2⟩ := hcar a (List.mem_cons_self ..)
    have hneed' : neededDef c.defs a.code a.vendor = some d := by rw [hc1, hc2]; exact hneed
    have he' : lookupDict dict a.code a.vendor = some e := by rw [hc1, hc2]; exact he
    obtain ⟨⟨fs, add, ho⟩, hG⟩ := hgood o (List.mem_cons_self ..)
    subst ho
    obtain ⟨hwf, back, hback, hR⟩ := hrec t fs add subs hG hsubs
    have hdec := decode_encoded subs a.payload hwf henc
    have hstep := assignStep_objs_elem (getValue rfcTime g) dict c recur f0 x0 a d e t subs back prev hneed' ht he' hty
      hdec hback hcur
    obtain ⟨f1, os1, h1, h2, h3, h4⟩ := ih (fun x hx => hcar x (List.mem_cons_of_mem _ hx))
      (fun x hx => hgood x (List.mem_cons_of_mem _ hx))
      (setField f0 d.attr (.objs (prev ++ [back]))) (prev ++ [back]) (fieldOf_setField_same _ _ _)
    refine ⟨f1, back :: os1, ?_, ?_, .cons hR h3, ?_⟩
    · simp only [assignLoop, hstep]; exact h1
    · rw [h2]; simp
    · intro d' hne
      rw [h4 d' hne, fieldOf_setField_other _ _ _ _ hne]

/-- the AVPs generated for one definition, assigned: the definition's attribute
    is restored, the others are left alone -/
theorem assign_segment (dict : DTree) (cs : List ClassDef) (g : Bool) (c : ClassDef)
    (recur : Nat → List Avp → R FVal) (G : FVal → Prop) (Rel : FVal → FVal → Prop) (fuel : Nat)
    (hrec : RecurOK dict cs G Rel fuel recur) (fs : List (Nat × FVal))
    (d : AttrDef) (hneed : neededDef c.defs d.code d.vendor = some d)
    (hval : FieldGoodBy G dict d (fieldOf fs d))
    (here : List Avp) (hhere : genOne rfcTime dict cs fuel d (fieldOf fs d) = .ok here)
    (f0 : List (Nat × FVal)) (x0 : List Avp) (hst : StartOKN fs f0 d) :
    ∃ fm, assignLoop (assignStep (getValue rfcTime g) dict c recur) here (f0, x0) = .ok (fm, x0) ∧
      StepRestored Rel (fieldOf fs d) (fieldOf f0 d) (fieldOf fm d) ∧
      ∀ d', d'.attr ≠ d.attr → fieldOf fm d' = fieldOf f0 d' := by
  unfold StartOKN at hst
  cases hv : fieldOf fs d with
  | unset =>
    rw [hv] at hhere
    simp only [genOne] at hhere
    injection hhere with hhere; subst hhere
    exact ⟨f0, rfl, by simp [StepRestored], fun _ _ => rfl⟩
  | scalar x =>
    rw [hv] at hhere hval hst
    obtain ⟨_, ht, e, he, hdom⟩ := hval
    obtain ⟨a, ha, hcar, hget⟩ := C03_scalar_roundtrip dict cs fuel g d x e he ht hdom here hhere
    subst ha
    obtain ⟨hc1, hc2, _⟩ := hcar
    have hneed' : neededDef c.defs a.code a.vendor = some d := by rw [hc1, hc2]; exact hneed
    have he' : lookupDict dict a.code a.vendor = some e := by rw [hc1, hc2]; exact he
    have hstep := assignStep_scalar (getValue rfcTime g) dict c recur f0 x0 a d e x hneed' ht he' hget hst
    refine ⟨setField f0 d.attr (.scalar x), ?_, ?_, fun d' h => fieldOf_setField_other _ _ _ _ h⟩
    · simp only [assignLoop, hstep]
    · rw [fieldOf_setField_same]; simp [StepRestored]
  | list xs =>
    rw [hv] at hhere hval hst
    obtain ⟨_, ht, e, he, hdom⟩ := hval
    simp only [genOne, ht, Option.isSome_none, Bool.false_eq_true, if_false] at hhere
    have hel := mapM_elems dict d e he xs here hhere
    obtain ⟨prev, hprev⟩ := hst
    obtain ⟨fm, hm1, hm2, hm3⟩ := assignLoop_list dict g c recur d e hneed ht he xs here hel hdom f0 x0 prev hprev
    exact ⟨fm, hm1, ⟨prev, hprev, hm2⟩, hm3⟩
  | obj cls ofs add =>
    rw [hv] at hhere hval hst
    obtain ⟨_, ht, ⟨e, he, hty⟩, hG⟩ := hval
    have hone := genOne_spec rfcTime dict cs fuel d (.obj cls ofs add) here hhere
    obtain ⟨a, subs, ha, hsubs, henc⟩ := genOne_nested rfcTime dict cs fuel d cls ofs add here hhere
    subst ha
    obtain ⟨hc1, hc2, _⟩ := hone.1 a (List.mem_cons_self ..)
    have hneed' : neededDef c.defs a.code a.vendor = some d := by rw [hc1, hc2]; exact hneed
    have he' : lookupDict dict a.code a.vendor = some e := by rw [hc1, hc2]; exact he
    obtain ⟨hwf, back, hback, hR⟩ := hrec cls ofs add subs hG hsubs
    have hdec := decode_encoded subs a.payload hwf henc
    have hstep := assignStep_obj (getValue rfcTime g) dict c recur f0 x0 a d e cls subs back hneed' ht he' hty hdec hback hst
    refine ⟨setField f0 d.attr back, ?_, ?_, fun d' h => fieldOf_setField_other _ _ _ _ h⟩
    · simp only [assignLoop, hstep]
    · rw [fieldOf_setField_same]; exact hR
  | objs os =>
    rw [hv] at hhere hval hst
    obtain ⟨_, t, ht, ⟨e, he, hty⟩, hgood⟩ := hval
    have hone := genOne_spec rfcTime dict cs fuel d (.objs os) here hhere
    simp only [genOne, ht, Option.isSome_some, if_true] at hhere
    have hgen := genObjs_nested rfcTime dict cs fuel d os here hhere
    obtain ⟨prev, hprev⟩ := hst
    obtain ⟨f1, os1, h1, h2, h3, h4⟩ := assignLoop_objs dict cs g c recur G Rel fuel hrec d e t hneed ht he hty os here hgen
      (fun a ha => ⟨(hone.1 a ha).1, (hone.1 a ha).2.1⟩) hgood f0 x0 prev hprev
    exact ⟨f1, h1, ⟨prev, os1, hprev, h2, h3⟩, h4⟩
  | classObj k =>
    rw [hv] at hval
    exact absurd hval (by simp [FieldGoodBy])

/-! ### all definitions of a class -/

theorem assign_generate_nested_aux (dict : DTree) (cs : List ClassDef) (g : Bool) (c : ClassDef)
    (recur : Nat → List Avp → R FVal) (G : FVal → Prop) (Rel : FVal → FVal → Prop) (fuel : Nat)
    (hrec : RecurOK dict cs G Rel fuel recur) (fs : List (Nat × FVal))
    (hattr : ∀ x ∈ c.defs, ∀ y ∈ c.defs, x.attr = y.attr → x = y)
    (ds : List AttrDef) (hsub : ∀ d ∈ ds, d ∈ c.defs ∧ neededDef c.defs d.code d.vendor = some d)
    (hdist : defsDistinct ds = true)
    (hval : ∀ d ∈ ds, FieldGoodBy G dict d (fieldOf fs d))
    (avps : List Avp) (hgen : genDefs rfcTime dict cs fuel fs ds = .ok avps)
    (f0 : List (Nat × FVal)) (x0 : List Avp) (hf0 : ∀ d ∈ ds, StartOKN fs f0 d) :
    ∃ f1, assignLoop (assignStep (getValue rfcTime g) dict c recur) avps (f0, x0) = .ok (f1, x0) ∧
      ∀ d' ∈ c.defs, (d' ∈ ds → StepRestored Rel (fieldOf fs d') (fieldOf f0 d') (fieldOf f1 d')) ∧
        (d' ∉ ds → fieldOf f1 d' = fieldOf f0 d') := by
  induction ds generalizing avps f0 with
  | nil =>
    simp only [genDefs] at hgen
    injection hgen with hgen; subst hgen
    exact ⟨f0, rfl, fun d' _ => ⟨fun h => absurd h (by simp), fun _ => rfl⟩⟩
  | cons d ds ih =>
    obtain ⟨hne, hdist'⟩ := defsDistinct_head hdist
    have hdmem := (hsub d (List.mem_cons_self ..)).1
    have hneed := (hsub d (List.mem_cons_self ..)).2
    have hnotin : d ∉ ds := fun hm => hne d hm rfl
    simp only [genDefs, bind, Except.bind, pure, Except.pure] at hgen
    split at hgen
    · contradiction
    · rename_i here hhere
      split at hgen
      · contradiction
      · rename_i more hmore
        injection hgen with hgen; subst hgen
        have hsub' : ∀ x ∈ ds, x ∈ c.defs ∧ neededDef c.defs x.code x.vendor = some x :=
          fun x hx => hsub x (List.mem_cons_of_mem _ hx)
        have hval' : ∀ x ∈ ds, FieldGoodBy G dict x (fieldOf fs x) := fun x hx => hval x (List.mem_cons_of_mem _ hx)
        have hhere : genOne rfcTime dict cs fuel d (fieldOf fs d) = .ok here := hhere
        obtain ⟨fm, hm1, hm2, hm3⟩ := assign_segment dict cs g c recur G Rel fuel hrec fs d hneed
          (hval d (List.mem_cons_self ..)) here hhere f0 x0 (hf0 d (List.mem_cons_self ..))
        have hstart : ∀ y ∈ ds, StartOKN fs fm y := by
          intro y hy
          have := hf0 y (List.mem_cons_of_mem _ hy)
          unfold StartOKN at this ⊢
          rw [hm3 y (hne y hy)]
          exact this
        obtain ⟨f1, h1, h2⟩ := ih hsub' hdist' hval' more hmore fm hstart
        refine ⟨f1, ?_, ?_⟩
        · rw [assignLoop_append _ here more _ _ hm1]; exact h1
        · intro d' hd'
          by_cases hdd : d' = d
          · subst hdd
            refine ⟨fun _ => ?_, fun h => absurd (List.mem_cons_self ..) h⟩
            rw [(h2 d' hd').2 hnotin]
            exact hm2
          · have hattr' : d'.attr ≠ d.attr := fun e' => hdd (hattr d' hd' d hdmem e')
            refine ⟨fun h => ?_, fun h => ?_⟩
            · have hin : d' ∈ ds := by
                rcases List.mem_cons.mp h with h | h
                · exact absurd h hdd
                · exact h
              have := (h2 d' hd').1 hin
              rw [hm3 d' hattr'] at this
              exact this
            · have hnin : d' ∉ ds := fun hm => h (List.mem_cons_of_mem _ hm)
              rw [(h2 d' hd').2 hnin, hm3 d' hattr']

/-- a list attribute of containers starts as the empty list in a fresh object -/
theorem fieldOf_init_objs (c : ClassDef) (d : AttrDef) (hd : d ∈ c.defs) (hl : d.isList = true) (t : Nat)
    (ht : d.tclass = some t) (hattr : ∀ x ∈ c.defs, ∀ y ∈ c.defs, x.attr = y.attr → x = y) :
    fieldOf (initFields c) d = .objs [] := by
  unfold fieldOf
  rw [initFields_eq, find_init c d c.defs (fun x hx e => hattr x hx d hd e)]
  simp only [hd, if_true]
  unfold initVal
  simp [hl, ht]

/-! ### generated AVPs are well-formed when they fit the length field -/

theorem newFlags_wf (vendor m : Nat) :
    newFlags vendor m 0 < 256 ∧ ((newFlags vendor m 0 &&& 0x80 ≠ 0) ↔ vendor ≠ 0) := by
  unfold newFlags setVendorBit flagV flagM
  by_cases hv : vendor = 0 <;> by_cases hm : (m == 1) = true <;> simp [hv, hm]

theorem carries_wf (dict : DTree) (d : AttrDef) (a : Avp) (h : CarriesDef dict d a)
    (hc : d.code < 4294967296) (hv : d.vendor < 4294967296) (hl : a.length < 16777216) : AvpWF a := by
  obtain ⟨h1, h2, e, _, h3⟩ := h
  have := newFlags_wf d.vendor (if d.mand ≠ 0 then d.mand else e.mand)
  exact ⟨by rw [h1]; exact hc, by rw [h2]; exact hv, by rw [h3]; exact this.1, hl, by rw [h3, h2]; exact this.2⟩

theorem perDef_carries (dict : DTree) (fields : List (Nat × FVal)) (defs : List AttrDef) (parts : List (List Avp))
    (h : PerDef dict fields defs parts) : ∀ a ∈ parts.flatten, ∃ d ∈ defs, CarriesDef dict d a := by
  induction h with
  | nil => intro a ha; simp at ha
  | cons d ds part parts hcar _ _ ih =>
    intro a ha
    simp only [List.flatten_cons, List.mem_append] at ha
    rcases ha with ha | ha
    · exact ⟨d, List.mem_cons_self .., hcar a ha⟩
    · obtain ⟨d', hd', hc⟩ := ih a ha
      exact ⟨d', List.mem_cons_of_mem _ hd', hc⟩

/-- the AVPs generated for an object are well-formed as soon as they fit the
    24-bit length field: codes and vendor ids come from the definitions, flags
    from `Avp.new`, undeclared AVPs are taken as they are -/
theorem generated_wf (dict : DTree) (cs : List ClassDef) (k cls : Nat) (c : ClassDef) (fs : List (Nat × FVal))
    (add subs : List Avp) (hc : findClass cs cls = some c)
    (hdefs : ∀ d ∈ c.defs, d.code < 4294967296 ∧ d.vendor < 4294967296)
    (hadd : ∀ a ∈ add, AvpWF a)
    (hgen : generateFuel rfcTime dict cs k (.obj cls fs add) = .ok subs)
    (hlen : ∀ a ∈ subs, a.length < 16777216) : ∀ a ∈ subs, AvpWF a := by
  cases k with
  | zero => simp [generateFuel] at hgen
  | succ k =>
    obtain ⟨parts, hout, hper⟩ := generate_spec rfcTime dict cs k cls c fs add hc subs hgen
    intro a ha
    have hl := hlen a ha
    rw [hout, List.mem_append] at ha
    rcases ha with ha | ha
    · obtain ⟨d, hd, hcar⟩ := perDef_carries dict fs c.defs parts hper a ha
      exact carries_wf dict d a hcar (hdefs d hd).1 (hdefs d hd).2 hl
    · exact hadd a ha


end DV
