/-
  Capacity bookkeeping of the threading application: every thread slot in use
  belongs to a handler thread that is still running or to a result that is
  waiting in the response queue — so no slot is ever lost.
-/
import DV.Proofs.NodeTView
namespace DV.Node
set_option linter.unusedSimpArgs false

/-- handler threads of application `ai` that have been started and have not finished -/
def running (d : List (Nat × AMsg)) (ai : Nat) : Nat := (d.filter (·.1 == ai)).length

def SlotInv (s : St) : Prop :=
  ∀ (ai : Nat) (t : TApp), s.tapps[ai]? = some t → t.slots = running s.deferred ai + t.respQ.length + t.respNone

/-- both consumer threads of every threading application are alive -/
def AliveInv (s : St) : Prop := ∀ (ai : Nat) (t : TApp), s.tapps[ai]? = some t → t.recvAlive = true ∧ t.respAlive = true

theorem SlotInv_of_eq {s s' : St} (h1 : s'.tapps = s.tapps) (h2 : s'.deferred = s.deferred) (h : SlotInv s) : SlotInv s' := by
  unfold SlotInv at *; rw [h1, h2]; exact h

theorem AliveInv_of_eq {s s' : St} (h1 : s'.tapps = s.tapps) (h : AliveInv s) : AliveInv s' := by
  unfold AliveInv at *; rw [h1]; exact h

theorem modTApp_get (s : St) (i j : Nat) (f : TApp → TApp) :
    (s.modTApp i f).tapps[j]? = if j == i then (s.tapps[j]?).map f else s.tapps[j]? := by
  simp only [St.modTApp, List.getElem?_mapIdx]
  cases s.tapps[j]? with
  | none => simp
  | some t => by_cases h : j == i <;> simp [h]

@[simp] theorem modTApp_deferred (s : St) (i : Nat) (f : TApp → TApp) : (s.modTApp i f).deferred = s.deferred := rfl

/-- a change of one application's record that keeps `slots − |respQ| − respNone` -/
theorem SlotInv_modTApp (s : St) (i : Nat) (f : TApp → TApp)
    (hf : ∀ t, s.tapps[i]? = some t → t.slots = running s.deferred i + t.respQ.length + t.respNone →
      (f t).slots = running s.deferred i + (f t).respQ.length + (f t).respNone)
    (h : SlotInv s) : SlotInv (s.modTApp i f) := by
  intro ai t ht
  rw [modTApp_get] at ht
  by_cases hi : ai == i
  · simp only [hi, if_true] at ht
    have hi' : ai = i := by simpa using hi
    subst hi'
    cases h0 : s.tapps[ai]? with
    | none => simp [h0] at ht
    | some t0 =>
      simp only [h0, Option.map_some, Option.some.injEq] at ht
      subst ht
      exact hf t0 h0 (h ai t0 h0)
  · simp only [hi] at ht
    exact h ai t ht

theorem AliveInv_modTApp (s : St) (i : Nat) (f : TApp → TApp)
    (hf : ∀ t, (f t).recvAlive = t.recvAlive ∧ (f t).respAlive = t.respAlive) (h : AliveInv s) : AliveInv (s.modTApp i f) := by
  intro ai t ht
  rw [modTApp_get] at ht
  by_cases hi : ai == i
  · simp only [hi, if_true] at ht
    cases h0 : s.tapps[ai]? with
    | none => simp [h0] at ht
    | some t0 =>
      simp only [h0, Option.map_some, Option.some.injEq] at ht
      subst ht
      rw [(hf t0).1, (hf t0).2]
      exact h ai t0 h0
  · simp only [hi] at ht
    exact h ai t ht

/-- General step: application `i`'s record changes by `f`, the list of running
    handlers becomes `d'` (which differs only in handlers of `i`). -/
theorem SlotInv_step (s s' : St) (i : Nat) (f : TApp → TApp) (d' : List (Nat × AMsg))
    (ht : s'.tapps = (s.modTApp i f).tapps) (hd : s'.deferred = d')
    (hother : ∀ aj, aj ≠ i → running d' aj = running s.deferred aj)
    (hf : ∀ t, s.tapps[i]? = some t → t.slots = running s.deferred i + t.respQ.length + t.respNone →
      (f t).slots = running d' i + (f t).respQ.length + (f t).respNone)
    (h : SlotInv s) : SlotInv s' := by
  intro aj tj htj
  rw [ht, modTApp_get] at htj
  rw [hd]
  by_cases hj : aj == i
  · have hj' : aj = i := by simpa using hj
    subst hj'
    simp only [BEq.rfl, if_true] at htj
    cases h0 : s.tapps[aj]? with
    | none => simp [h0] at htj
    | some t0 =>
      simp only [h0, Option.map_some, Option.some.injEq] at htj
      subst htj
      exact hf t0 h0 (h aj t0 h0)
  · simp only [hj] at htj
    have hne : aj ≠ i := by intro e; subst e; simp at hj
    rw [hother aj hne]
    exact h aj tj htj

theorem running_append (d : List (Nat × AMsg)) (ai aj : Nat) (m : AMsg) :
    running (d ++ [(ai, m)]) aj = running d aj + (if ai = aj then 1 else 0) := by
  unfold running
  by_cases h : ai = aj
  · subst h; simp [List.filter_append]
  · have : (ai == aj) = false := by simpa using h
    simp [List.filter_append, this, h]

theorem running_eraseIdx (d : List (Nat × AMsg)) (k ai aj : Nat) (m : AMsg) (hk : d[k]? = some (ai, m)) :
    running (d.eraseIdx k) aj + (if ai = aj then 1 else 0) = running d aj := by
  unfold running
  induction d generalizing k with
  | nil => simp at hk
  | cons x d ih =>
    cases k with
    | zero =>
      simp only [List.getElem?_cons_zero, Option.some.injEq] at hk
      subst hk
      by_cases h : ai = aj
      · subst h; simp [List.filter_cons]
      · have : (ai == aj) = false := by simpa using h
        simp [List.filter_cons, this, h]
    | succ k =>
      simp only [List.getElem?_cons_succ] at hk
      have := ih k hk
      simp only [List.eraseIdx_cons_succ, List.filter_cons]
      cases hx : x.1 == aj
      · simpa using this
      · simp only [if_true, List.length_cons]; omega

/-! ### the application's own operations -/

theorem SlotInv_appReceiveRequest (s : St) (ai : Nat) (m : AMsg) (h : SlotInv s) : SlotInv (appReceiveRequest s ai m).1 := by
  unfold appReceiveRequest
  split
  · exact SlotInv_modTApp s ai _ (fun t _ ht => ht) h
  · dsimp only
    split <;> exact SlotInv_of_eq rfl rfl h

theorem AliveInv_appReceiveRequest (s : St) (ai : Nat) (m : AMsg) (h : AliveInv s) : AliveInv (appReceiveRequest s ai m).1 := by
  unfold appReceiveRequest
  split
  · exact AliveInv_modTApp s ai _ (fun t => ⟨rfl, rfl⟩) h
  · dsimp only
    split <;> exact AliveInv_of_eq rfl h

theorem SlotInv_appRecvStep (infoOf : AMsg → MsgInfo) (hk : Config.appConsumersCatch = true) (ai mx : Nat) (s : St) (m : AMsg)
    (h : SlotInv s) : SlotInv (appRecvStep infoOf ai mx s m) := by
  unfold appRecvStep
  simp only [hk, Bool.or_true, if_true]
  split
  · exact h
  · split
    · exact h
    · have h1 : SlotInv (s.modTApp ai fun a => { a with recvQ := a.recvQ.drop 1 }) :=
        SlotInv_modTApp s ai _ (fun t _ ht => ht) h
      split
      · exact SlotInv_of_eq (tapps_sendBuiltAnswer _ _ _) (deferred_sendBuiltAnswer _ _ _) h1
      · -- a slot is taken and the handler thread started
        refine SlotInv_step _ _ ai (fun a => { a with slots := a.slots + 1 }) _ rfl rfl ?_ ?_ h1
        · intro aj hne
          rw [modTApp_deferred, running_append]
          have : ¬ ai = aj := fun e => hne e.symm
          simp [this]
        · intro t _ hinv
          simp only [modTApp_deferred, running_append, if_true] at hinv ⊢
          omega

theorem AliveInv_appRecvStep (infoOf : AMsg → MsgInfo) (hk : Config.appConsumersCatch = true) (ai mx : Nat) (s : St) (m : AMsg)
    (h : AliveInv s) : AliveInv (appRecvStep infoOf ai mx s m) := by
  unfold appRecvStep
  simp only [hk, Bool.or_true, if_true]
  split
  · exact h
  · split
    · exact h
    · have h1 : AliveInv (s.modTApp ai fun a => { a with recvQ := a.recvQ.drop 1 }) :=
        AliveInv_modTApp s ai _ (fun t => ⟨rfl, rfl⟩) h
      split
      · exact AliveInv_of_eq (tapps_sendBuiltAnswer _ _ _) h1
      · exact AliveInv_of_eq (s := (s.modTApp ai fun a => { a with recvQ := a.recvQ.drop 1 }).modTApp ai fun a => { a with slots := a.slots + 1 }) rfl
          (AliveInv_modTApp _ ai _ (fun t => ⟨rfl, rfl⟩) h1)

/-- what one turn of the response consumer does to the application records -/
theorem appRespStep_tapps (hk : Config.appConsumersCatch = true) (ai : Nat) (s : St) (ans : AMsg) :
    (appRespStep ai s ans).tapps =
      (match s.tapps[ai]? with
       | none => s.tapps
       | some a => if !a.respAlive then s.tapps
                   else (s.modTApp ai fun a => { a with respQ := a.respQ.drop 1, slots := a.slots - 1 }).tapps) ∧
    (appRespStep ai s ans).deferred = s.deferred := by
  unfold appRespStep
  simp only [hk, Bool.or_true, if_true]
  cases h0 : s.tapps[ai]? with
  | none => exact ⟨rfl, rfl⟩
  | some t0 =>
    dsimp only
    cases ha : t0.respAlive with
    | false => exact ⟨rfl, rfl⟩
    | true => exact ⟨tapps_sendBuiltAnswer _ _ _, deferred_sendBuiltAnswer _ _ _⟩

theorem SlotInv_appRespStep (hk : Config.appConsumersCatch = true) (ai : Nat) (s : St) (ans : AMsg)
    (hne : ∀ t, s.tapps[ai]? = some t → t.respAlive = true → t.respQ ≠ []) (h : SlotInv s) :
    SlotInv (appRespStep ai s ans) := by
  have hc := appRespStep_tapps hk ai s ans
  cases h0 : s.tapps[ai]? with
  | none =>
    simp only [h0] at hc
    exact SlotInv_of_eq hc.1 hc.2 h
  | some t0 =>
    simp only [h0] at hc
    by_cases ha : t0.respAlive = true
    · simp only [ha, Bool.not_true, Bool.false_eq_true, if_false] at hc
      refine SlotInv_step s _ ai _ s.deferred hc.1 hc.2 (fun _ _ => rfl) ?_ h
      intro t ht hinv
      rw [h0] at ht
      injection ht with ht
      subst ht
      have : t0.respQ.length ≥ 1 := List.length_pos_iff.mpr (hne t0 h0 ha)
      simp only [List.length_drop]
      omega
    · have ha' : t0.respAlive = false := by simpa using ha
      simp only [ha', Bool.not_false, if_true] at hc
      exact SlotInv_of_eq hc.1 hc.2 h

theorem AliveInv_appRespStep (hk : Config.appConsumersCatch = true) (ai : Nat) (s : St) (ans : AMsg) (h : AliveInv s) :
    AliveInv (appRespStep ai s ans) := by
  have hc := appRespStep_tapps hk ai s ans
  cases h0 : s.tapps[ai]? with
  | none => simp only [h0] at hc; exact AliveInv_of_eq hc.1 h
  | some t0 =>
    simp only [h0] at hc
    split at hc
    · exact AliveInv_of_eq hc.1 h
    · exact AliveInv_of_eq hc.1 (AliveInv_modTApp s ai _ (fun t => ⟨rfl, rfl⟩) h)

/-- The response consumer's loop over the queued answers. -/
theorem fold_appRespStep (hk : Config.appConsumersCatch = true) (ai : Nat) (l : List AMsg) (s : St)
    (hq : ∀ t, s.tapps[ai]? = some t → t.respAlive = true → t.respQ = l) (h : SlotInv s) :
    SlotInv (l.foldl (appRespStep ai) s) ∧ (l.foldl (appRespStep ai) s).deferred = s.deferred ∧
    (∀ t, (l.foldl (appRespStep ai) s).tapps[ai]? = some t → t.respAlive = true → t.respQ = []) := by
  induction l generalizing s with
  | nil => exact ⟨h, rfl, hq⟩
  | cons x l ih =>
    simp only [List.foldl_cons]
    have hstep := SlotInv_appRespStep hk ai s x (fun t ht ha => by rw [hq t ht ha]; simp) h
    have hc := appRespStep_tapps hk ai s x
    have hq' : ∀ t, (appRespStep ai s x).tapps[ai]? = some t → t.respAlive = true → t.respQ = l := by
      intro t ht ha
      rw [hc.1] at ht
      cases h0 : s.tapps[ai]? with
      | none => simp only [h0] at ht; contradiction
      | some t0 =>
        simp only [h0] at ht
        by_cases ha0 : t0.respAlive = true
        · simp only [ha0, Bool.not_true, Bool.false_eq_true, if_false, modTApp_get, BEq.rfl, if_true, h0,
            Option.map_some, Option.some.injEq] at ht
          subst ht
          simp [hq t0 h0 ha0]
        · have ha' : t0.respAlive = false := by simpa using ha0
          simp only [ha', Bool.not_false, if_true, h0, Option.some.injEq] at ht
          subst ht
          rw [ha'] at ha
          contradiction
    have := ih (appRespStep ai s x) hq' hstep
    exact ⟨this.1, by rw [this.2.1, hc.2], this.2.2⟩

theorem fold_appRecvStep_slot (infoOf : AMsg → MsgInfo) (hk : Config.appConsumersCatch = true) (ai mx : Nat) (l : List AMsg) (s : St)
    (h : SlotInv s) : SlotInv (l.foldl (appRecvStep infoOf ai mx) s) := by
  induction l generalizing s with
  | nil => exact h
  | cons x l ih => exact ih _ (SlotInv_appRecvStep infoOf hk ai mx s x h)

theorem fold_appRecvStep_alive (infoOf : AMsg → MsgInfo) (hk : Config.appConsumersCatch = true) (ai mx : Nat) (l : List AMsg) (s : St)
    (h : AliveInv s) : AliveInv (l.foldl (appRecvStep infoOf ai mx) s) := by
  induction l generalizing s with
  | nil => exact h
  | cons x l ih => exact ih _ (AliveInv_appRecvStep infoOf hk ai mx s x h)

theorem fold_appRespStep_alive (hk : Config.appConsumersCatch = true) (ai : Nat) (l : List AMsg) (s : St)
    (h : AliveInv s) : AliveInv (l.foldl (appRespStep ai) s) := by
  induction l generalizing s with
  | nil => exact h
  | cons x l ih => exact ih _ (AliveInv_appRespStep hk ai s x h)

theorem SlotInv_appRespNones (ai : Nat) (s : St) (h : SlotInv s) : SlotInv (appRespNones ai s) := by
  unfold appRespNones
  split
  · split
    · refine SlotInv_modTApp s ai _ ?_ h
      intro t _ hinv
      simp only [Nat.add_zero]
      omega
    · exact h
  · exact h

theorem AliveInv_appRespNones (ai : Nat) (s : St) (h : AliveInv s) : AliveInv (appRespNones ai s) := by
  unfold appRespNones
  split
  · split
    · exact AliveInv_modTApp s ai _ (fun t => ⟨rfl, rfl⟩) h
    · exact h
  · exact h

theorem SlotInv_pumpAppRecv (infoOf : AMsg → MsgInfo) (hk : Config.appConsumersCatch = true) (s : St) (ai : Nat)
    (h : SlotInv s) : SlotInv (pumpAppRecv infoOf s ai) := by
  unfold pumpAppRecv
  split
  · split
    · exact h
    · exact fold_appRecvStep_slot infoOf hk ai _ _ s h
  · exact h

theorem AliveInv_pumpAppRecv (infoOf : AMsg → MsgInfo) (hk : Config.appConsumersCatch = true) (s : St) (ai : Nat)
    (h : AliveInv s) : AliveInv (pumpAppRecv infoOf s ai) := by
  unfold pumpAppRecv
  split
  · split
    · exact h
    · exact fold_appRecvStep_alive infoOf hk ai _ _ s h
  · exact h

theorem SlotInv_pumpAppResp (hk : Config.appConsumersCatch = true) (s : St) (ai : Nat)
    (h : SlotInv s) : SlotInv (pumpAppResp s ai) := by
  unfold pumpAppResp
  split
  · rename_i a t ha ht
    split
    · exact h
    · exact SlotInv_appRespNones ai _ (fold_appRespStep hk ai t.respQ s (fun t' ht' _ => by rw [ht] at ht'; injection ht' with e; rw [e]) h).1
  · exact h

theorem AliveInv_pumpAppResp (hk : Config.appConsumersCatch = true) (s : St) (ai : Nat)
    (h : AliveInv s) : AliveInv (pumpAppResp s ai) := by
  unfold pumpAppResp
  split
  · split
    · exact h
    · exact AliveInv_appRespNones ai _ (fold_appRespStep_alive hk ai _ s h)
  · exact h

/-- A handler thread that finishes — with an answer, with an exception (turned
    into an answer) or with `None` — hands its slot to the response queue. -/
theorem SlotInv_runHandler (infoOf : AMsg → MsgInfo) (hs : Config.slotAlwaysReturned = true) (s : St) (k : Nat)
    (h : SlotInv s) : SlotInv (runHandler infoOf s k) := by
  unfold runHandler
  split
  · exact h
  · rename_i ai m hk
    simp only [hs, if_true]
    have hother : ∀ aj, aj ≠ ai → running (s.deferred.eraseIdx k) aj = running s.deferred aj := by
      intro aj hne
      have := running_eraseIdx s.deferred k ai aj m hk
      have hne' : ¬ ai = aj := fun e => hne e.symm
      simpa [hne'] using this
    have hself := running_eraseIdx s.deferred k ai ai m hk
    simp only [if_true] at hself
    split
    · -- no such application record: only the list of running handlers changes
      rename_i hnone
      intro aj tj htj
      have htj' : s.tapps[aj]? = some tj := htj
      have hne : aj ≠ ai := by
        intro e; subst e
        have : (s.tapps[aj]? : Option TApp) = none := hnone
        rw [this] at htj'; contradiction
      show tj.slots = running (s.deferred.eraseIdx k) aj + _ + _
      rw [hother aj hne]
      exact h aj tj htj'
    · split
      · refine SlotInv_step s _ ai (fun a => { a with respNone := a.respNone + 1 }) (s.deferred.eraseIdx k) rfl rfl hother ?_ h
        intro t _ hinv
        show t.slots = _ + t.respQ.length + (t.respNone + 1)
        omega
      · refine SlotInv_step s _ ai _ (s.deferred.eraseIdx k) rfl rfl hother ?_ h
        intro t _ hinv
        simp only [List.length_append, List.length_cons, List.length_nil]
        omega

theorem AliveInv_runHandler (infoOf : AMsg → MsgInfo) (s : St) (k : Nat) (h : AliveInv s) : AliveInv (runHandler infoOf s k) := by
  unfold runHandler
  split
  · exact h
  · dsimp only
    split
    · exact AliveInv_of_eq rfl h
    · have hm : ∀ (s1 : St) (f : TApp → TApp) (i : Nat), s1.tapps = s.tapps → (∀ t, (f t).recvAlive = t.recvAlive ∧ (f t).respAlive = t.respAlive) →
          AliveInv (s1.modTApp i f) := fun s1 f i e hf => AliveInv_modTApp s1 i f hf (AliveInv_of_eq e h)
      repeat (first | exact AliveInv_of_eq rfl h | exact hm _ _ _ rfl (fun t => ⟨rfl, rfl⟩) | split)

end DV.Node
