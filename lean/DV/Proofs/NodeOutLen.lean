/-
  What one received message adds to the write queues.  `St.oql` = (id, write queue) per connection object.  Almost
  every function on the receive path leaves it alone (first half: the same lemma family as `Proofs/NodeWSV.lean`, for
  this view); `send_message` appends its message to the queue of the connection it is given; and every path through
  `_receive_message` calls `send_message` at most once — when a handler raises after queueing nothing, the catch-all
  sends the 5012 answer, and when a handler has queued its answer it does not raise (answers the node builds itself
  carry a Result-Code, so `_record_answer` does not raise on them: `sendMessage_generated_ok`).
-/
import DV.Proofs.NodeViews
namespace DV.Node
set_option linter.unusedSimpArgs false

/-- (connection id, `_write_msg_queue`) for every connection object -/
def St.oql (s : St) : List (Nat × List AMsg) := s.conns.map fun c => (c.id, c.outQ)

theorem oql_modConn_tame (s : St) (i : Nat) (f : Conn → Conn)
    (h : ∀ c, (f c).id = c.id ∧ (f c).outQ = c.outQ) : (s.modConn i f).oql = s.oql := by
  simp only [St.oql, St.modConn, List.map_map]
  apply List.map_congr_left
  intro c _
  simp only [Function.comp]
  split
  · simp [(h c).1, (h c).2]
  · rfl

@[simp] theorem oql_emit (s : St) (o : Out) : (s.emit o).oql = s.oql := rfl

@[simp] theorem oql_modPeer (s : St) (i : Nat) (f : Peer → Peer) : (s.modPeer i f).oql = s.oql := rfl

@[simp] theorem oql_modApp (s : St) (i : Nat) (f : App → App) : (s.modApp i f).oql = s.oql := rfl

@[simp] theorem oql_modTApp (s : St) (i : Nat) (f : TApp → TApp) : (s.modTApp i f).oql = s.oql := rfl

@[simp] theorem oql_demand (s : St) (c : Nat) : (demandAttention s c).oql = s.oql := rfl

@[simp] theorem oql_removePeerConnection (s : St) (cid : Nat) (r : Reason) :
    (removePeerConnection s cid r).oql = s.oql := by
  unfold removePeerConnection
  cases hc : s.conn? cid with
  | none => rfl
  | some c =>
    simp only []
    repeat (first | rfl | split)

@[simp] theorem oql_assignPeerConnection (s : St) (cid : Nat) : (assignPeerConnection s cid).oql = s.oql := by
  unfold assignPeerConnection
  repeat (first | rfl | split | dsimp only)

@[simp] theorem oql_flagReady (s : St) (cid : Nat) : (flagConnectionAsReady s cid).oql = s.oql :=
  oql_modConn_tame s cid _ (by tame)

@[simp] theorem oql_recordAnswerState (s : St) (cid : Nat) (m : AMsg) :
    (recordAnswerState s cid m).oql = s.oql := by
  unfold recordAnswerState
  repeat (first | rfl | split | dsimp only)

theorem oql_foldl {α : Type} (f : St → α → St) (h : ∀ s a, (f s a).oql = s.oql) (l : List α) (s : St) :
    (l.foldl f s).oql = s.oql := by
  induction l generalizing s with
  | nil => rfl
  | cons a l ih => simp (disch := tame) only [List.foldl_cons, ih, h]

@[simp] theorem oql_receiveDpa (s : St) (cid : Nat) : (receiveDpa s cid).oql = s.oql :=
  oql_modConn_tame s cid _ (by tame)

@[simp] theorem oql_receiveDwa (s : St) (cid : Nat) : (receiveDwa s cid).oql = s.oql :=
  oql_modConn_tame s cid _ (by tame)

@[simp] theorem oql_appReceiveRequest (s : St) (ai : Nat) (m : AMsg) : (appReceiveRequest s ai m).1.oql = s.oql := by
  unfold appReceiveRequest
  repeat (first | rfl | split | dsimp only)

@[simp] theorem oql_appReceiveAnswer (s : St) (ai : Nat) (m : AMsg) : (appReceiveAnswer s ai m).oql = s.oql := by
  unfold appReceiveAnswer
  repeat (first | rfl | split)

@[simp] theorem oql_receiveAppAnswer (s : St) (m : AMsg) : (receiveAppAnswer s m).oql = s.oql := by
  unfold receiveAppAnswer
  repeat (first | rfl | split | simp (disch := tame) only [oql_appReceiveAnswer])

@[simp] theorem oql_recordOrigin (s : St) (cid : Nat) (m : AMsg) (info : MsgInfo) :
    (recordOrigin s cid m info).oql = s.oql := by
  unfold recordOrigin
  split <;> rfl
/-! ### the functions NodeWSV has no lemma for -/

@[simp] theorem oql_connClose (s : St) (cid : Nat) (b : Bool) : (connClose s cid b).oql = s.oql := by
  unfold connClose
  split
  · exact oql_modConn_tame _ _ _ (by tame)
  · exact oql_modConn_tame _ _ _ (by tame)

@[simp] theorem oql_closeConnectionSocket (s : St) (cid : Nat) (r : Reason) : (closeConnectionSocket s cid r).oql = s.oql := by
  unfold closeConnectionSocket
  split
  · rw [oql_removePeerConnection, oql_connClose]; exact oql_modConn_tame _ _ _ (by tame)
  · exact oql_removePeerConnection _ _ _

@[simp] theorem oql_cerNameAndElect (s : St) (cid : Nat) (h : String) : (cerNameAndElect s cid h).1.oql = s.oql := by
  unfold cerNameAndElect
  have hf : ∀ (l : List Conn) (s : St), (l.foldl (fun s o => connClose s o.id true) s).oql = s.oql :=
    fun l s => oql_foldl _ (fun s a => oql_connClose s a.id true) l s
  have hm : ∀ (s : St), (s.modConn cid fun c => { c with nodeName := h }).oql = s.oql :=
    fun s => oql_modConn_tame _ _ _ (by tame)
  dsimp only
  repeat (first | rfl | split | simp only [hf, hm])

@[simp] theorem oql_receiveCea (s : St) (cid : Nat) (m : AMsg) : (receiveCea s cid m).1.oql = s.oql := by
  unfold receiveCea
  split
  · exact oql_closeConnectionSocket _ _ _
  · split
    · rfl
    · dsimp only
      rw [oql_flagReady, oql_assignPeerConnection]
      exact oql_modConn_tame _ _ _ (by tame)

@[simp] theorem oql_crashReader (s : St) (cid : Nat) (e : String) : (crashReader s cid e).oql = s.oql := by
  unfold crashReader
  exact oql_modConn_tame _ _ _ (by tame)

/-! ### `send_message` and what calls it -/

/-- the write queues are unchanged, or every connection object with id `cid` has had the one message `a` appended -/
def Ext1 (cid : Nat) (s' s : St) : Prop :=
  s'.oql = s.oql ∨ ∃ a, s'.oql = s.oql.map fun p => if p.1 == cid then (p.1, p.2 ++ [a]) else p

theorem Ext1.refl (cid : Nat) (s : St) : Ext1 cid s s := Or.inl rfl
theorem Ext1.of_eq {cid : Nat} {s' s : St} (h : s'.oql = s.oql) : Ext1 cid s' s := Or.inl h
theorem Ext1.left {cid : Nat} {s'' s' s : St} (h : s''.oql = s'.oql) (e : Ext1 cid s' s) : Ext1 cid s'' s := by
  unfold Ext1 at *; rw [h]; exact e
theorem Ext1.right {cid : Nat} {s'' s' s : St} (h : s'.oql = s.oql) (e : Ext1 cid s'' s') : Ext1 cid s'' s := by
  unfold Ext1 at *; rw [← h]; exact e

theorem oql_append (s : St) (cid : Nat) (m : AMsg) :
    (s.modConn cid fun x => { x with outQ := x.outQ ++ [m] }).oql =
      s.oql.map fun p => if p.1 == cid then (p.1, p.2 ++ [m]) else p := by
  simp only [St.oql, St.modConn, List.map_map]
  apply List.map_congr_left
  intro c _
  simp only [Function.comp]
  split <;> rfl

theorem Ext1_sendMessage (s : St) (cid : Nat) (m : AMsg) (b : Bool) : Ext1 cid (sendMessage s cid m b).1 s := by
  unfold sendMessage
  split
  · exact Ext1.refl _ _
  · refine Or.inr ⟨m, ?_⟩
    dsimp only
    by_cases hr : m.isRequest = true
    · simp only [hr, Bool.not_true, Bool.false_eq_true, if_false]
      exact oql_append _ _ _
    · have hr' : m.isRequest = false := by simpa using hr
      simp only [hr', Bool.not_false, if_true, oql_recordAnswerState]
      exact oql_append _ _ _

/-- the result of a handler: at most one message queued on the connection, and none when it raised -/
def HB (cid : Nat) (r : HR) (s : St) : Prop := Ext1 cid r.1 s ∧ (r.2.isSome = true → r.1.oql = s.oql)

theorem sendMessage_ok (s : St) (cid : Nat) (a : AMsg) (b : Bool) (h : (b && a.rc.isNone) = false) :
    (sendMessage s cid a b).2 = true := by
  unfold sendMessage
  split
  · rfl
  · dsimp only
    split
    · simp only [recordAnswerRaises_false _ _ _ _ h, Bool.not_false]
    · rfl

theorem generateAnswer_rc_typed (s0 : St) (m : AMsg) (info : MsgInfo) (rc : Nat) (fa : List Nat) (h : info.ansTyped = true) :
    (true && (generateAnswer s0 m info (some rc) fa).rc.isNone) = false := by
  unfold generateAnswer
  simp [h]

/-- a handler that ends by sending one answer that `_record_answer` accepts -/
theorem HB_send (cid : Nat) (s0 s : St) (m : AMsg) (b : Bool) (h0 : s.oql = s0.oql) (hok : (sendMessage s cid m b).2 = true) :
    HB cid ((sendMessage s cid m b).1, if (sendMessage s cid m b).2 then none else some Exn.typeError) s0 := by
  refine ⟨Ext1.right h0 (Ext1_sendMessage s cid m b), ?_⟩
  simp [hok]

theorem HB_of_eq {cid : Nat} {r : HR} {s : St} (h : r.1.oql = s.oql) : HB cid r s := ⟨Ext1.of_eq h, fun _ => h⟩
theorem HB.right {cid : Nat} {r : HR} {s' s : St} (h : s'.oql = s.oql) (e : HB cid r s') : HB cid r s :=
  ⟨Ext1.right h e.1, fun x => (e.2 x).trans h⟩

theorem HB_receiveCer (s : St) (cid : Nat) (m : AMsg) (info : MsgInfo) : HB cid (receiveCer s cid m info) s := by
  unfold receiveCer
  have hm : ∀ (s : St) (f : Conn → Conn), (∀ c, (f c).id = c.id ∧ (f c).outQ = c.outQ) → (s.modConn cid f).oql = s.oql :=
    fun s f hf => oql_modConn_tame s cid f hf
  split
  · exact HB_of_eq rfl
  · dsimp only
    split
    · exact HB_send cid s _ _ _ (hm _ _ (by tame)) (sendMessage_ok _ _ _ _ rfl)
    · split
      · exact HB_send cid s _ _ _ (by rw [hm _ _ (by tame), oql_cerNameAndElect]) (sendMessage_ok _ _ _ _ rfl)
      · split
        · exact HB_send cid s _ _ _ (oql_cerNameAndElect _ _ _) (sendMessage_ok _ _ _ _ rfl)
        · split
          · exact HB_of_eq (by rw [hm _ _ (by tame), oql_cerNameAndElect])
          · exact HB_send cid s _ _ _ (by rw [oql_flagReady, oql_assignPeerConnection, hm _ _ (by tame), oql_cerNameAndElect])
              (sendMessage_ok _ _ _ _ rfl)

theorem HB_receiveDpr (s : St) (cid : Nat) (m : AMsg) (info : MsgInfo) (ht : info.ansTyped = true) :
    HB cid (receiveDpr s cid m info) s := by
  unfold receiveDpr
  dsimp only
  apply HB_send
  · repeat (first | rfl | split | simp (disch := tame) only [oql_modPeer, oql_modConn_tame])
  · exact sendMessage_ok _ _ _ _ (generateAnswer_rc_typed _ _ _ _ _ ht)

theorem HB_receiveDwr (s : St) (cid : Nat) (m : AMsg) (info : MsgInfo) (ht : info.ansTyped = true) :
    HB cid (receiveDwr s cid m info) s := by
  unfold receiveDwr
  exact HB_send cid s s _ _ rfl (sendMessage_ok _ _ _ _ (generateAnswer_rc_typed _ _ _ _ _ ht))

theorem HB_receiveAppRequest (s : St) (cid : Nat) (m : AMsg) (info : MsgInfo) : HB cid (receiveAppRequest s cid m info) s := by
  unfold receiveAppRequest
  have snd : ∀ rc : Nat, HB cid ((sendMessage s cid (generateAnswer s m info (some rc)) info.ansTyped).1,
      if (sendMessage s cid (generateAnswer s m info (some rc)) info.ansTyped).2 then none else some Exn.typeError) s :=
    fun rc => HB_send cid s s _ _ rfl (sendMessage_generated_ok _ _ _ _ _ _ _)
  split
  · exact HB_of_eq rfl
  · dsimp only
    split
    · exact snd _
    · split
      · exact HB_of_eq rfl
      · split
        · exact snd _
        · split
          · split
            · exact HB_of_eq (oql_appReceiveRequest _ _ _)
            · exact HB_of_eq (oql_appReceiveRequest _ _ _)
          · exact snd _

theorem HB_handleByCommand (s : St) (cid : Nat) (m : AMsg) (info : MsgInfo)
    (hbase : m.isRequest = true → m.cmd = 280 ∨ m.cmd = 282 → info.ansTyped = true) : HB cid (handleByCommand s cid m info) s := by
  unfold handleByCommand
  have hp : ∀ (s1 : St), s1.oql = s.oql →
      HB cid (if m.cmd == 257 then (if m.isRequest then receiveCer s1 cid m info else receiveCea s1 cid m)
        else if m.cmd == 280 then (if m.isRequest then receiveDwr s1 cid m info else (receiveDwa s1 cid, none))
        else if m.cmd == 282 then (if m.isRequest then receiveDpr s1 cid m info else (receiveDpa s1 cid, none))
        else if m.isRequest then receiveAppRequest s1 cid m info
        else (receiveAppAnswer s1 m, none)) s := by
    intro s1 h1
    apply HB.right h1
    split
    · split
      · exact HB_receiveCer _ _ _ _
      · exact HB_of_eq (oql_receiveCea _ _ _)
    · split
      · rename_i h280
        split
        · rename_i hreq
          exact HB_receiveDwr _ _ _ _ (hbase hreq (Or.inl (by simpa using h280)))
        · exact HB_of_eq (oql_receiveDwa _ _)
      · split
        · rename_i h282
          split
          · rename_i hreq
            exact HB_receiveDpr _ _ _ _ (hbase hreq (Or.inr (by simpa using h282)))
          · exact HB_of_eq (oql_receiveDpa _ _)
        · split
          · exact HB_receiveAppRequest _ _ _ _
          · exact HB_of_eq (oql_receiveAppAnswer _ _)
  dsimp only
  apply hp
  repeat (first | rfl | split | simp only [oql_modPeer])

/-- **One received message, at most one queued message** — on the connection it was received on. -/
theorem Ext1_receiveMessage (s : St) (cid : Nat) (m : AMsg) (info : MsgInfo)
    (hbase : m.isRequest = true → m.cmd = 280 ∨ m.cmd = 282 → info.ansTyped = true) : Ext1 cid (receiveMessage s cid m info) s := by
  unfold receiveMessage
  have h0 := oql_recordOrigin s cid m info
  have snd : ∀ (a : AMsg) (b : Bool), Ext1 cid (sendMessage (recordOrigin s cid m info) cid a b).1 s :=
    fun a b => Ext1.right h0 (Ext1_sendMessage _ _ _ _)
  have sndc : ∀ (a : AMsg) (b : Bool) (e : String), Ext1 cid (crashReader (sendMessage (recordOrigin s cid m info) cid a b).1 cid e) s :=
    fun a b e => Ext1.left (oql_crashReader _ _ _) (snd a b)
  have hb := HB_handleByCommand (recordOrigin s cid m info) cid m info hbase
  dsimp only
  split
  · exact Ext1.of_eq ((oql_crashReader _ _ _).trans h0)
  · split
    · split
      · exact snd _ _
      · exact sndc _ _ _
    · split
      · split
        · exact snd _ _
        · exact sndc _ _ _
      · split
        · rename_i s' heq
          rw [heq] at hb
          exact Ext1.right h0 hb.1
        · rename_i s' e heq
          rw [heq] at hb
          have he : s'.oql = s.oql := (hb.2 rfl).trans h0
          split
          · exact Ext1.of_eq he
          · split
            · exact Ext1.right he (Ext1_sendMessage _ _ _ _)
            · exact Ext1.left (oql_crashReader _ _ _) (Ext1.right he (Ext1_sendMessage _ _ _ _))

theorem Ext1_dispatchMessage (s : St) (cid : Nat) (m : AMsg) (info : MsgInfo)
    (hbase : m.isRequest = true → m.cmd = 280 ∨ m.cmd = 282 → info.ansTyped = true) : Ext1 cid (dispatchMessage s cid m info) s := by
  unfold dispatchMessage
  repeat (first | exact Ext1.refl _ _ | exact Ext1_receiveMessage _ _ _ _ hbase | split)

end DV.Node
