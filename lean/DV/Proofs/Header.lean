import DV.Proofs.AvpList
import DV.Model.Message
namespace DV
open Spec

/-- RFC 6733 §3 header: Version (8) | Message Length (24) | flags (8) | Command
    Code (24) | Application-ID | Hop-by-Hop | End-to-End. -/
def Spec.headerWire (h : Header) : Bytes :=
  (UInt8.ofNat h.version :: Spec.be24 h.length) ++ (UInt8.ofNat h.flags :: Spec.be24 h.code) ++
    be32 h.appId ++ be32 h.hbh ++ be32 h.e2e

structure Spec.HeaderWF (h : Header) : Prop where
  version : h.version < 256
  length : h.length < 16777216
  flags : h.flags < 256
  code : h.code < 16777216
  appId : h.appId < 4294967296
  hbh : h.hbh < 4294967296
  e2e : h.e2e < 4294967296

theorem headerWire_length (h : Header) : (headerWire h).length = 20 := by
  simp [headerWire, Spec.be24]

theorem encodeHeader_wire (h : Header) (wf : HeaderWF h) : encodeHeader h = .ok (headerWire h) := by
  obtain ⟨h1, h2, h3, h4, h5, h6, h7⟩ := wf
  have a1 : (h.version <<< 24 ||| h.length) = (h.length ||| h.version <<< 24) := Nat.or_comm _ _
  have a2 : (h.flags <<< 24 ||| h.code) = (h.code ||| h.flags <<< 24) := Nat.or_comm _ _
  simp only [encodeHeader, a1, a2, lenflags_lt _ _ h2 h1, lenflags_lt _ _ h4 h3, h5, h6, h7, and_self,
    if_true, be32_lenflags _ _ h2 h1, be32_lenflags _ _ h4 h3, headerWire, Spec.be24, DV.be24]

theorem decodeHeader_wire (h : Header) (wf : HeaderWF h) (rest : Bytes) :
    decodeHeader (headerWire h ++ rest) = .ok h := by
  obtain ⟨h1, h2, h3, h4, h5, h6, h7⟩ := wf
  have e : headerWire h ++ rest = be32 (h.length ||| h.version <<< 24) ++ (be32 (h.code ||| h.flags <<< 24) ++
      (be32 h.appId ++ (be32 h.hbh ++ (be32 h.e2e ++ rest)))) := by
    rw [be32_lenflags _ _ h2 h1, be32_lenflags _ _ h4 h3]
    simp [headerWire, Spec.be24, DV.be24]
  have hlen : ¬ ((headerWire h ++ rest).length < 20) := by
    simp only [List.length_append, headerWire_length]; omega
  simp only [decodeHeader, hlen, if_false]
  rw [e]
  simp only [be32, List.cons_append, List.nil_append, u32At, List.getD_cons_zero, List.getD_cons_succ,
    Nat.zero_add, Nat.reduceAdd]
  rw [rd32_be32 _ (lenflags_lt _ _ h2 h1), rd32_be32 _ (lenflags_lt _ _ h4 h3), rd32_be32 _ h5,
    rd32_be32 _ h6, rd32_be32 _ h7, lenflags_shift _ _ h2, lenflags_mask _ _ h2, lenflags_shift _ _ h4,
    lenflags_mask _ _ h4]

theorem decodeHeader_short (buf : Bytes) (h : buf.length < 20) : decodeHeader buf = .error .conversion := by
  simp [decodeHeader, h]

theorem decodeHeader_total (buf : Bytes) (h : 20 ≤ buf.length) : ∃ hd, decodeHeader buf = .ok hd := by
  have : ¬ buf.length < 20 := by omega
  simp only [decodeHeader, this, if_false]
  exact ⟨_, rfl⟩

end DV
