import DV.Model.RouteRace
namespace DV.RR

/-- as long as the id is booked nobody has got through; afterwards exactly one has -/
def Inv (s : S) : Prop := sentCount s + (if s.booked then 1 else 0) = 1

theorem cnt_set_ne (l : List Pc) (i : Nat) (p q : Pc) (h : l[i]? = some p) (hp : p ≠ .sent) (hq : q ≠ .sent) :
    cnt (l.set i q) = cnt l := by
  induction l generalizing i with
  | nil => rfl
  | cons x xs ih =>
    cases i with
    | zero =>
      simp only [List.getElem?_cons_zero, Option.some.injEq] at h
      subst h
      simp [List.set, cnt, hp, hq]
    | succ j =>
      simp only [List.getElem?_cons_succ] at h
      simp [List.set, cnt, ih j h]

theorem cnt_set_sent (l : List Pc) (i : Nat) (p : Pc) (h : l[i]? = some p) (hp : p ≠ .sent) :
    cnt (l.set i .sent) = cnt l + 1 := by
  induction l generalizing i with
  | nil => simp at h
  | cons x xs ih =>
    cases i with
    | zero =>
      simp only [List.getElem?_cons_zero, Option.some.injEq] at h
      subst h
      simp [List.set, cnt, hp]
      omega
    | succ j =>
      simp only [List.getElem?_cons_succ] at h
      simp only [List.set, cnt, ih j h]
      omega

theorem inv_step (s : S) (i : Nat) (h : Inv s) : Inv (step .strictDel s i) := by
  unfold step
  cases hp : s.pcs[i]? with
  | none => exact h
  | some p =>
    cases p with
    | start =>
      unfold Inv sentCount at h ⊢
      dsimp only
      rw [cnt_set_ne s.pcs i .start _ hp (by decide) (by split <;> decide)]
      exact h
    | found =>
      dsimp only
      cases hb : s.booked with
      | true =>
        simp only [if_true]
        unfold Inv sentCount at h ⊢
        dsimp only
        rw [cnt_set_sent s.pcs i .found hp (by decide)]
        rw [hb] at h
        simp only [if_true] at h
        simp only [Bool.false_eq_true, if_false]
        omega
      | false =>
        simp only [Bool.false_eq_true, if_false]
        unfold Inv sentCount at h ⊢
        dsimp only
        rw [cnt_set_ne s.pcs i .found .failed hp (by decide) (by decide)]
        first | exact h | (rw [hb] at h; exact h)
    | sent => exact h
    | failed => exact h

theorem inv_run (s : S) (sched : List Nat) (h : Inv s) : Inv (run .strictDel s sched) := by
  unfold run
  induction sched generalizing s with
  | nil => exact h
  | cons i rest ih => exact ih _ (inv_step s i h)

theorem cnt_replicate_start (n : Nat) : cnt (List.replicate n .start) = 0 := by
  induction n with
  | zero => rfl
  | succ n ih => simp [List.replicate, cnt, ih]

theorem inv_init (n : Nat) : Inv (init n) := by
  unfold Inv sentCount init
  simp [cnt_replicate_start]

end DV.RR
