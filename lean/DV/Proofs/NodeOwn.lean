/-
  The invariant `KInv` (Proofs/NodeOwnCore.lean: every registered self-initiated
  connection is the `Peer.connection` of the peer its node name resolves to) is
  kept by every function of the node.  One lemma per function, composed as in
  Proofs/NodeSound.lean (the second half of this file is the text of
  Proofs/NodeDial.lean with the invariant replaced); the functions that write
  `Peer.connection`, `Node.connections` or a connection's node name —
  `remove_peer_connection`, `_add_peer_connection`, `_assign_peer_connection`,
  the naming step of `receive_cer` — have their own proofs.
  Hypothesis of the family: `Config.removeOnlyOwn` (the `fix:` commit that made
  `remove_peer_connection` clear `Peer.connection` only for the peer's own
  current connection).
-/
import DV.Proofs.NodeOwnCore
import DV.Proofs.NodeGateInv
import DV.Proofs.NodeQ
namespace DV.Node

theorem k_of_eq {s' s : St} (h1 : s'.peers = s.peers) (h2 : s'.conns = s.conns) (h3 : s'.connections = s.connections)
    (h : KInv s) : KInv s' := by
  unfold KInv at *
  rw [h1, h2, h3]; exact h

/-- a literal state whose `peers`, `conns` and `connections` are those of `s'` -/
theorem k_mk' (s' : St) {cfg now apps routes peerSockets socketPeers halfReady appWaiting peerWaiting
    originWaiting sentAnswers e2e nextHbhSeed stopping started pipe dialPlan appRequests delivered inProgress tapps
    deferred crashed outs} (h : KInv s') :
    KInv (St.mk cfg now s'.peers apps routes s'.conns s'.connections peerSockets socketPeers halfReady appWaiting peerWaiting
      originWaiting sentAnswers e2e nextHbhSeed stopping started pipe dialPlan appRequests delivered inProgress tapps
      deferred crashed outs) := h

open Lean Elab Tactic Meta in
elab "guard_st_literal_k" : tactic => do
  let g ← instantiateMVars (← getMainTarget)
  match g.getAppFnArgs with
  | (``DV.Node.KInv, #[st]) => unless st.isAppOf ``DV.Node.St.mk do throwError "not a literal state"
  | _ => throwError "not a goal of the form KInv _"

macro "k_hyp" : tactic => `(tactic| with_reducible assumption)
macro "k_lit" : tactic => `(tactic| (guard_st_literal_k; with_reducible apply k_mk'))

/-! ### record updates -/

theorem k_modPeer (s : St) (i : Nat) (f : Peer → Peer) (hf : ∀ p, (f p).name = p.name ∧ (f p).connection = p.connection)
    (h : KInv s) : KInv (s.modPeer i f) := KI.modPeer_tame h i f hf

theorem k_modConn (s : St) (i : Nat) (f : Conn → Conn)
    (hf : ∀ c, (f c).id = c.id ∧ (f c).dir = c.dir ∧ (f c).nodeName = c.nodeName) (h : KInv s) : KInv (s.modConn i f) :=
  KI.modConn_tame h i f hf

/-- discharge the side conditions for literal record updates -/
macro "tamekp" : tactic => `(tactic| (intro p; exact ⟨rfl, rfl⟩))
macro "tamekc" : tactic => `(tactic| (intro c; first | exact ⟨rfl, rfl, rfl⟩ | (split <;> exact ⟨rfl, rfl, rfl⟩)))

/-- a peer without connection gets one; a peer that has one keeps it -/
theorem k_modPeer_set (s : St) (i : Nat) (f : Peer → Peer) (hfn : ∀ p, (f p).name = p.name)
    (hf : ∀ p, p.connection ≠ none → (f p).connection = p.connection) (h : KInv s) : KInv (s.modPeer i f) :=
  KI.modPeer_set h i f hfn (fun p _ => hf p)

macro "tameset" : tactic => `(tactic| (intro p hne; dsimp only; cases hpc : p.connection <;> first | exact absurd hpc hne | rfl))

theorem k_modTApp (s : St) (i : Nat) (f : TApp → TApp) (h : KInv s) : KInv (s.modTApp i f) := h
theorem k_modApp (s : St) (i : Nat) (f : App → App) (h : KInv s) : KInv (s.modApp i f) := h
theorem k_demand (s : St) (c : Nat) (h : KInv s) : KInv (demandAttention s c) := h
theorem k_setCrashed (s : St) (n : Nat) (h : KInv s) : KInv ({ s with crashed := n } : St) := h
theorem k_emit (s : St) (o : Out) (h : KInv s) : KInv (s.emit o) := h

macro "k_triv" : tactic => `(tactic| first
  | with_reducible apply k_modTApp | with_reducible apply k_modApp | with_reducible apply k_modConn _ _ _ (by tamekc)
  | with_reducible apply k_emit | with_reducible apply k_demand)

theorem k_connClose (s : St) (cid : Nat) (b : Bool) (h : KInv s) : KInv (connClose s cid b) := by
  unfold connClose
  dsimp only
  split
  · exact k_demand _ _ (k_modConn _ _ _ (by tamekc) h)
  · exact k_modConn _ _ _ (by tamekc) h

/-- removing a connection: it is unregistered first; the peer's record is cleared only if it is the peer's own -/
theorem k_removePeerConnection (hk : Config.removeOnlyOwn = true) (s : St) (cid : Nat) (r : Reason) (h : KInv s) :
    KInv (removePeerConnection s cid r) := by
  unfold removePeerConnection
  cases hc : s.conn? cid with
  | none => exact h
  | some c =>
    dsimp -zeta only
    extract_lets s1 s2 peerI isCurrent s3 s4 appPeers appInRoutes s5
    have h1 : KInv s1 := KI.unregister h cid
    have hn1 : cid ∉ s1.connections := not_mem_erase _ _
    have e2 : s2.peers = s1.peers ∧ s2.conns = s1.conns ∧ s2.connections = s1.connections := by
      unfold s2; split <;> exact ⟨rfl, rfl, rfl⟩
    have h2 : KInv s2 := k_of_eq e2.1 e2.2.1 e2.2.2 h1
    have hn2 : cid ∉ s2.connections := by rw [e2.2.2]; exact hn1
    have h3 : KInv s3 := by
      cases hpi : peerI with
      | none =>
        have e : s3 = s2 := by simp only [s3, hpi]
        rw [e]; exact h2
      | some i =>
        cases hcur : isCurrent with
        | false =>
          have e : s3 = s2 := by simp only [s3, hpi, hcur, Bool.false_eq_true, if_false]
          rw [e]; exact h2
        | true =>
          simp only [s3, hpi, hcur, if_true]
          refine KI.modPeer_clear h2 i cid _ hn2 (fun _ => rfl) ?_
          intro p hp
          have hc2 : isCurrent = !(p.connection.isSome && p.connection != some cid) := by
            simp only [isCurrent, hk, if_true, hpi, Option.bind_some, hp]
          rw [hc2] at hcur
          cases hpc : p.connection with
          | none => exact Or.inl rfl
          | some k =>
            right
            simp [hpc] at hcur
            rw [hcur]
    exact k_of_eq rfl rfl rfl h3

section
variable (hk : Config.removeOnlyOwn = true)
include hk

theorem k_closeConnectionSocket (s : St) (cid : Nat) (r : Reason) (h : KInv s) : KInv (closeConnectionSocket s cid r) := by
  unfold closeConnectionSocket
  apply (k_removePeerConnection (by assumption))
  split
  · exact k_connClose _ _ _ (k_modConn _ _ _ (by tamekc) h)
  · exact h

theorem k_recordAnswerState (s : St) (cid : Nat) (m : AMsg) (h : KInv s) : KInv (recordAnswerState s cid m) := by
  refine k_of_eq ?_ ?_ ?_ h
  · unfold recordAnswerState; repeat (first | rfl | split | dsimp only)
  · unfold recordAnswerState; repeat (first | rfl | split | dsimp only)
  · unfold recordAnswerState; repeat (first | rfl | split | dsimp only)

theorem k_sendMessage (s : St) (cid : Nat) (m : AMsg) (b : Bool) (h : KInv s) : KInv (sendMessage s cid m b).1 := by
  unfold sendMessage
  split
  · exact h
  · dsimp only
    split
    · apply (k_recordAnswerState (by assumption))
      apply k_modConn _ _ _ (by tamekc)
      exact h
    · apply k_modConn _ _ _ (by tamekc)
      exact h

omit hk in
theorem k_foldl {α : Type} (f : St → α → St) (hf : ∀ s a, KInv s → KInv (f s a)) (l : List α) (s : St) (h : KInv s) :
    KInv (l.foldl f s) := by
  induction l generalizing s with
  | nil => exact h
  | cons a l ih => exact ih _ (hf s a h)

omit hk in
theorem k_foldlW {α : Type} (f : World → α → World) (hf : ∀ w a, KInv w.st → KInv (f w a).st) (l : List α) (w : World)
    (h : KInv w.st) : KInv (l.foldl f w).st := by
  induction l generalizing w with
  | nil => exact h
  | cons a l ih => exact ih _ (hf w a h)

theorem k_addPeerConnection (s : St) (c : Conn) (hq : c.id = s.conns.length) (hn : c.dir = .send → c.nodeName ≠ "")
    (h : KInv s) : KInv (addPeerConnection s c).1 := by
  unfold addPeerConnection
  extract_lets s1 dup s2 s3
  have h1 : KInv s1 := KI.append h c hq hn
  have hc1 : s1.conns[c.id]? = some c := by
    show (s.conns ++ [c])[c.id]? = some c
    rw [hq]; simp
  by_cases hst : s1.stopping = true
  · rw [if_pos hst]; exact k_modConn _ _ _ (by tamekc) h1
  · rw [if_neg hst]
    by_cases hdup : dup = true
    · rw [if_pos hdup]; exact k_modConn _ _ _ (by tamekc) h1
    · rw [if_neg hdup]
      show KI s3.peers s3.conns s3.connections
      have hconns : s3.conns = s1.conns ∧ s3.connections = s1.connections ++ [c.id] := by
        simp only [s3]; repeat (first | exact ⟨rfl, rfl⟩ | split)
      rw [hconns.1, hconns.2]
      refine KI.add_registered h1 c hc1 s3.peers ?_
      -- the name lookup
      have hfind : ∀ j, pidx s1.peers c.nodeName = some j → findConnectionPeer s2 c = some j := by
        intro j hj
        show (match pidx s1.peers c.nodeName with | some i => some i | none => peerIdx? s2 c.hostIdentity) = some j
        rw [hj]
      -- a dialled connection that was accepted: its peer has no connection
      have hfree : c.dir = .send → ∀ j p, pidx s1.peers c.nodeName = some j → s1.peers[j]? = some p → p.connection = none := by
        intro hd j p hj hp
        have hne := hn hd
        have : dup = (c.nodeName != "" && p.connection.isSome) := by
          show (c.nodeName != "" && (match pidx s1.peers c.nodeName with
            | some i => (match s1.peers[i]? with | some p => p.connection.isSome | none => false)
            | none => false)) = _
          rw [hj]; dsimp only; rw [hp]
        rw [this] at hdup
        cases hpc : p.connection with
        | none => rfl
        | some k => simp [hpc, hne] at hdup
      cases hf : findConnectionPeer s2 c with
      | none =>
        left
        refine ⟨by simp only [s3, hf]; rfl, fun hd => ?_⟩
        cases hp : pidx s1.peers c.nodeName with
        | none => rfl
        | some j => rw [hfind j hp] at hf; cases hf
      | some i =>
        cases hpi : s2.peers[i]? with
        | none =>
          left
          refine ⟨by simp only [s3, hf, hpi]; rfl, fun hd => ?_⟩
          cases hp : pidx s1.peers c.nodeName with
          | none => rfl
          | some j =>
            rw [hfind j hp] at hf; injection hf with hf; subst hf
            obtain ⟨p, hp', _⟩ := pidx_getElem hp
            rw [show s2.peers[j]? = s1.peers[j]? from rfl, hp'] at hpi; cases hpi
        | some p =>
          have hpi' : s1.peers[i]? = some p := hpi
          by_cases hnone : p.connection.isNone = true
          · right
            refine ⟨i, (fun p => { p with connection := some c.id, reason := none, lastConnect := some s2.now }), ?_, fun _ => rfl, ?_, ?_⟩
            · simp only [s3, hf, hpi, hnone, if_true]; rfl
            · intro p' hp' hne
              rw [hpi'] at hp'; injection hp' with hp'; subst hp'
              cases hpc : p.connection with
              | none => exact absurd hpc hne
              | some k => simp [hpc] at hnone
            · intro hd j hj
              rw [hfind j hj] at hf; injection hf with hf
              exact ⟨hf, fun _ _ => rfl⟩
          · left
            refine ⟨by simp only [s3, hf, hpi, hnone, if_false]; rfl, fun hd => ?_⟩
            cases hp : pidx s1.peers c.nodeName with
            | none => rfl
            | some j =>
              rw [hfind j hp] at hf; injection hf with hf; subst hf
              have := hfree hd j p hp hpi'
              simp [this] at hnone


theorem k_routeAnswer (s s' : St) (m : AMsg) (cid : Nat) (hr : routeAnswer s m = .ok (s', cid)) (h : KInv s) : KInv s' := by
  unfold routeAnswer at hr
  simp only [] at hr
  repeat (first | contradiction | split at hr)
  all_goals (first | contradiction | (injection hr with hr; injection hr with h1 h2; subst h1; exact k_of_eq rfl rfl rfl h))

theorem k_routeAnswerSideEffect (s : St) (m : AMsg) (h : KInv s) : KInv (routeAnswerSideEffect s m) := by
  unfold routeAnswerSideEffect
  split
  · exact h
  · exact k_of_eq rfl rfl rfl h

/-- the composition tactic: peel known functions off the goal `f (g (… s)) ≼ s0` -/
macro "k_tac" : tactic => `(tactic| repeat (first
  | k_hyp
  | k_triv
  | k_lit
  | split
  | dsimp only
  | with_reducible apply k_modPeer _ _ _ (by tamekp)
  | with_reducible apply k_connClose
  | with_reducible apply (k_removePeerConnection (by assumption))
  | with_reducible apply (k_closeConnectionSocket (by assumption))
  | with_reducible apply (k_recordAnswerState (by assumption))
  | with_reducible apply (k_sendMessage (by assumption))))

theorem k_assignPeerConnection (s : St) (cid : Nat) (h : KInv (s)) : KInv (assignPeerConnection s cid) := by
  unfold assignPeerConnection
  repeat (first
    | k_hyp | k_triv | k_lit | split | dsimp only
    | with_reducible apply k_modPeer _ _ _ (by tamekp)
    | apply k_modPeer_set _ _ _ (by intro p; rfl) (by tameset))

theorem k_flagReady (s : St) (cid : Nat) (h : KInv (s)) : KInv (flagConnectionAsReady s cid) := by
  unfold flagConnectionAsReady
  exact k_of_eq rfl rfl rfl (k_modConn _ _ _ (by tamekc) h)

theorem k_cerNameAndElect (s : St) (cid : Nat) (hn : String) (h : KInv (s)) : KInv ((cerNameAndElect s cid hn).1) := by
  unfold cerNameAndElect
  have hf : ∀ (l : List Conn) (s : St), KInv s → KInv (l.foldl (fun s o => connClose s o.id true) s) :=
    fun l s hs => k_foldl (fun s (o : Conn) => connClose s o.id true) (fun s a hs => k_connClose s a.id true hs) l s hs
  extract_lets s1 others lost s2
  have h1 : KInv s1 := by
    cases hc : s.conn? cid with
    | none => simp only [s1, hc]; exact h
    | some c =>
      by_cases hnn : (c.nodeName == "") = true
      · simp only [s1, hc, hnn, if_true]
        have hmem := conn?_some hc
        have hrecv : c.dir ≠ .send := fun hd => h.sendNamed c hmem.1 hd (by simpa using hnn)
        have hget : s.conns[cid]? = some c := by
          obtain ⟨k, hk⟩ := List.getElem?_of_mem hmem.1
          have := h.idpos k c hk
          rw [hmem.2] at this
          rw [this]; exact hk
        refine KI.modConn_rename h cid c _ hget hrecv ?_
        intro x; exact ⟨rfl, rfl⟩
      · simp only [s1, hc, hnn]; exact h
  show KInv s2
  simp only [s2]
  split
  · exact hf _ _ h1
  · exact h1

macro "k_tac2" : tactic => `(tactic| repeat (first
  | k_hyp
  | k_triv
  | k_lit
  | split
  | dsimp only
  | with_reducible apply k_modPeer _ _ _ (by tamekp)
  | with_reducible apply k_connClose
  | with_reducible apply (k_removePeerConnection (by assumption))
  | with_reducible apply (k_closeConnectionSocket (by assumption))
  | with_reducible apply (k_recordAnswerState (by assumption))
  | with_reducible apply (k_sendMessage (by assumption))
  | with_reducible apply (k_assignPeerConnection (by assumption))
  | with_reducible apply (k_flagReady (by assumption))
  | with_reducible apply (k_cerNameAndElect (by assumption))))

theorem k_receiveCer (s : St) (cid : Nat) (m : AMsg) (info : MsgInfo) (h : KInv (s)) : KInv ((receiveCer s cid m info).1) := by
  unfold receiveCer; k_tac2

theorem k_receiveCea (s : St) (cid : Nat) (m : AMsg) (h : KInv (s)) : KInv ((receiveCea s cid m).1) := by
  unfold receiveCea; k_tac2

theorem k_receiveDpr (s : St) (cid : Nat) (m : AMsg) (info : MsgInfo) (h : KInv (s)) : KInv ((receiveDpr s cid m info).1) := by
  unfold receiveDpr; k_tac2

theorem k_receiveDpa (s : St) (cid : Nat) (h : KInv (s)) : KInv (receiveDpa s cid) := by
  unfold receiveDpa; k_tac2

theorem k_receiveDwa (s : St) (cid : Nat) (h : KInv (s)) : KInv (receiveDwa s cid) := by
  unfold receiveDwa; k_tac2

theorem k_receiveDwr (s : St) (cid : Nat) (m : AMsg) (info : MsgInfo) (h : KInv (s)) : KInv ((receiveDwr s cid m info).1) := by
  unfold receiveDwr; k_tac2

theorem k_appReceiveRequest (s : St) (ai : Nat) (m : AMsg) (h : KInv (s)) : KInv ((appReceiveRequest s ai m).1) := by
  unfold appReceiveRequest; k_tac2

theorem k_appReceiveAnswer (s : St) (ai : Nat) (m : AMsg) (h : KInv (s)) : KInv (appReceiveAnswer s ai m) := by
  unfold appReceiveAnswer; k_tac2

theorem k_receiveAppAnswer (s : St) (m : AMsg) (h : KInv (s)) : KInv (receiveAppAnswer s m) := by
  unfold receiveAppAnswer
  repeat (first | k_hyp | k_triv | k_lit | split | with_reducible apply (k_appReceiveAnswer (by assumption)))

theorem k_recordOrigin (s : St) (cid : Nat) (m : AMsg) (info : MsgInfo) (h : KInv (s)) : KInv (recordOrigin s cid m info) := by
  unfold recordOrigin; k_tac2

theorem k_crashReader (s : St) (cid : Nat) (e : String) (h : KInv (s)) : KInv (crashReader s cid e) := by
  unfold crashReader
  exact k_emit _ _ (k_modConn _ _ _ (by tamekc) (k_of_eq rfl rfl rfl h))

theorem k_sendCer (s : St) (cid : Nat) (h : KInv (s)) : KInv (sendCer s cid) := by
  unfold sendCer; k_tac2

theorem k_modConn_stamp (s : St) (i : Nat) (h : KInv s) :
    KInv (s.modConn i fun x => { x with state := if x.state.isReady then .waitDwa else x.state, lastDwr := s.now }) :=
  k_modConn _ _ _ (by tamekc) h

theorem k_sendDwr (s : St) (cid : Nat) (h : KInv s) : KInv (sendDwr s cid) := by
  unfold sendDwr
  split
  · exact h
  · dsimp only
    apply (k_modConn_stamp (by assumption))
    apply (k_sendMessage (by assumption))
    apply k_modConn _ _ _ (by tamekc)
    exact k_of_eq rfl rfl rfl h

theorem k_sendDpr (s : St) (cid : Nat) (h : KInv (s)) : KInv (sendDpr s cid) := by
  unfold sendDpr; k_tac2

macro "k_tac3" : tactic => `(tactic| repeat (first
  | k_hyp
  | k_triv
  | k_lit
  | split
  | dsimp only
  | with_reducible apply k_modPeer _ _ _ (by tamekp)
  | with_reducible apply k_connClose
  | with_reducible apply (k_removePeerConnection (by assumption))
  | with_reducible apply (k_closeConnectionSocket (by assumption))
  | with_reducible apply (k_recordAnswerState (by assumption))
  | with_reducible apply (k_sendMessage (by assumption))
  | with_reducible apply (k_sendCer (by assumption))
  | with_reducible apply (k_sendDwr (by assumption))
  | with_reducible apply (k_sendDpr (by assumption))))

theorem k_checkTimers (s : St) (cid : Nat) (h : KInv (s)) : KInv (checkTimers s cid) := by
  unfold checkTimers; k_tac3

theorem k_connectToPeer (s : St) (pi : Nat) (h : KInv (s)) : KInv (connectToPeer s pi) := by
  unfold connectToPeer
  split
  · exact h
  · rename_i p hp
    have hname : p.name ≠ "" := h.names p (List.mem_of_getElem? hp)
    repeat (first
      | k_hyp
      | k_triv
      | k_lit
      | split
      | dsimp only
      | with_reducible apply k_modPeer _ _ _ (by tamekp)
      | with_reducible apply (k_removePeerConnection (by assumption))
      | with_reducible apply (k_closeConnectionSocket (by assumption))
      | with_reducible apply (k_sendCer (by assumption))
      | apply (k_addPeerConnection (by assumption)) _ _ (by rfl) (by intro _; exact hname))

theorem k_reconnectStep (s : St) (pi : Nat) (h : KInv (s)) : KInv (reconnectStep s pi) := by
  unfold reconnectStep
  repeat (first | k_hyp | k_triv | k_lit | split | with_reducible apply (k_connectToPeer (by assumption)))

theorem k_reconnectPeers (s : St) (h : KInv (s)) : KInv (reconnectPeers s) := by
  unfold reconnectPeers
  split
  · exact h
  · exact k_foldl _ (fun s a hs => (k_reconnectStep (by assumption)) s a hs) _ _ h

theorem k_handleInterrupt (s : St) (h : KInv (s)) : KInv (handleInterrupt s) := by
  unfold handleInterrupt; k_tac3

theorem k_handleAccept (s : St) (h : KInv (s)) : KInv (handleAccept s) := by
  unfold handleAccept
  dsimp only
  exact (k_addPeerConnection (by assumption)) _ _ (by rfl) (by intro hd; cases hd) (k_of_eq rfl rfl rfl h)

theorem k_connectResult (w : World) (cid : Nat) (c : Conn) (h : KInv (w.st)) : KInv ((connectResult w cid c).1.st) := by
  unfold connectResult; k_tac3

theorem k_flushWritable (w : World) (cid : Nat) (h : KInv (w.st)) : KInv ((flushWritable w cid).st) := by
  unfold flushWritable
  have hf : ∀ (l : List AMsg) (s : St), KInv s → KInv (l.foldl (fun s m => s.emit (.wrote cid m)) s) :=
    fun l s hs => k_foldl (fun s m => s.emit (.wrote cid m)) (fun s a hs => k_emit _ _ hs) l s hs
  repeat (first
    | k_hyp
    | k_triv
    | k_lit
    | split
    | dsimp only
    | simp only [popTx_st]
    | with_reducible apply k_modPeer _ _ _ (by tamekp)
    | with_reducible apply k_connClose
    | with_reducible apply (k_closeConnectionSocket (by assumption))
    | with_reducible apply hf)

theorem k_handleWritable (w : World) (cid : Nat) (h : KInv (w.st)) : KInv ((handleWritable w cid).st) := by
  unfold handleWritable
  repeat (first | k_hyp | k_triv | k_lit | split | dsimp only | with_reducible apply (k_flushWritable (by assumption)) | with_reducible apply (k_connectResult (by assumption)))

theorem k_pumpWriter (s : St) (cid : Nat) (h : KInv (s)) : KInv (pumpWriter s cid) := by
  unfold pumpWriter
  repeat (first | k_hyp | k_triv | k_lit | split | (apply k_foldl; intro s a hs; exact k_demand _ _ (k_modConn _ _ _ (by tamekc) hs)))

/-! ### applications -/

theorem k_sendBuiltAnswer (s : St) (a : AMsg) (t : Bool) (h : KInv (s)) : KInv ((sendBuiltAnswer s a t).1) := by
  unfold sendBuiltAnswer
  split
  · exact (k_routeAnswerSideEffect (by assumption)) _ _ h
  · rename_i hr
    exact (k_sendMessage (by assumption)) _ _ _ _ ((k_routeAnswer (by assumption)) _ _ _ _ hr h)


theorem k_appRecvStep (infoOf : AMsg → MsgInfo) (ai mx : Nat) (s : St) (m : AMsg) (h : KInv (s)) : KInv (appRecvStep infoOf ai mx s m) := by
  unfold appRecvStep
  repeat (first | k_hyp | k_triv | k_lit | split | dsimp only | with_reducible apply (k_sendBuiltAnswer (by assumption)) | with_reducible apply k_setCrashed)

theorem k_pumpAppRecv (infoOf : AMsg → MsgInfo) (s : St) (ai : Nat) (h : KInv (s)) : KInv (pumpAppRecv infoOf s ai) := by
  unfold pumpAppRecv
  repeat (first | k_hyp | k_triv | k_lit | split | exact k_foldl _ (fun s a hs => (k_appRecvStep (by assumption)) infoOf ai _ s a hs) _ _ h)

theorem k_appRespStep (ai : Nat) (s : St) (m : AMsg) (h : KInv (s)) : KInv (appRespStep ai s m) := by
  unfold appRespStep
  repeat (first | k_hyp | k_triv | k_lit | split | dsimp only | with_reducible apply (k_sendBuiltAnswer (by assumption)) | with_reducible apply k_setCrashed)

theorem k_appRespNones (ai : Nat) (s : St) (h : KInv (s)) : KInv (appRespNones ai s) := by
  unfold appRespNones
  repeat (first | k_hyp | k_triv | k_lit | split | with_reducible apply k_modTApp)

theorem k_pumpAppResp (s : St) (ai : Nat) (h : KInv (s)) : KInv (pumpAppResp s ai) := by
  unfold pumpAppResp
  repeat (first | k_hyp | k_triv | k_lit | split | (apply (k_appRespNones (by assumption)); exact k_foldl _ (fun s a hs => (k_appRespStep (by assumption)) ai s a hs) _ _ h))

theorem k_runHandler (infoOf : AMsg → MsgInfo) (s : St) (k : Nat) (h : KInv (s)) : KInv (runHandler infoOf s k) := by
  unfold runHandler
  repeat (first | k_hyp | k_triv | k_lit | split | dsimp only | with_reducible apply k_modTApp )

theorem k_appSendAnswer (s : St) (ai : Nat) (req : AMsg) (info : MsgInfo) (rc : Option Nat) (h : KInv (s)) : KInv (appSendAnswer s ai req info rc) := by
  unfold appSendAnswer
  dsimp only
  split
  · exact k_emit _ _ ((k_routeAnswerSideEffect (by assumption)) _ _ h)
  · rename_i hr
    split <;> exact k_emit _ _ ((k_sendMessage (by assumption)) _ _ _ _ ((k_routeAnswer (by assumption)) _ _ _ _ hr h))

theorem k_routeRequest (s s' : St) (ai : Nat) (m m' : AMsg) (info : MsgInfo) (cid : Nat)
    (hr : routeRequest s ai m info = .ok (s', cid, m')) (h : KInv (s)) : KInv (s') := by
  unfold routeRequest at hr
  simp only [] at hr
  repeat (first | contradiction | split at hr)
  all_goals (injection hr with hr; injection hr with h1 h2; subst h1)
  all_goals repeat (first | k_hyp | k_triv | k_lit | k_lit | split | dsimp only | with_reducible apply k_modPeer _ _ _ (by tamekp))

theorem k_appSendRequestBegin (s : St) (ai : Nat) (m : AMsg) (info : MsgInfo) (h : KInv (s)) : KInv ((appSendRequestBegin s ai m info).1) := by
  unfold appSendRequestBegin
  dsimp only
  split
  · split <;> exact k_of_eq rfl rfl rfl h
  · rename_i hr
    apply (k_sendMessage (by assumption))
    apply k_modApp
    refine (k_routeRequest (by assumption)) _ _ _ _ _ _ _ hr ?_
    split <;> exact k_of_eq rfl rfl rfl h

theorem k_appSendRequestEnd (s : St) (ai : Nat) (hbh : Nat) (h : KInv (s)) : KInv ((appSendRequestEnd s ai hbh).1) := h

theorem k_stopBegin (s : St) (f : Bool) (h : KInv (s)) : KInv (stopBegin s f) := by
  unfold stopBegin
  dsimp only
  split
  · exact k_of_eq rfl rfl rfl h
  · apply k_foldl
    · intro s a hs
      repeat (first | k_hyp | k_triv | k_lit | split | with_reducible apply (k_sendDpr (by assumption)))
    · exact k_of_eq rfl rfl rfl h

theorem k_stopFinal (s : St) (h : KInv (s)) : KInv (stopFinal s) := by
  unfold stopFinal
  apply k_foldl
  · intro s a hs
    exact k_connClose _ _ _ ((k_closeConnectionSocket (by assumption)) _ _ _ hs)
  · exact h

end

end DV.Node
