/-
  `assign_attr_from_defs` undoes `generate_avps_from_defs` for objects whose set
  attributes are scalars (no list attributes, no nested containers).
-/
import DV.Properties.C03
namespace DV
open Spec
set_option linter.unusedSimpArgs false

theorem find_setField_same (f : List (Nat × FVal)) (k : Nat) (v : FVal) :
    (setField f k v).find? (fun p => p.1 == k) = some (k, v) := by
  unfold setField
  split
  · rename_i h
    induction f with
    | nil => simp at h
    | cons x xs ih =>
      simp only [List.map_cons, List.find?_cons]
      by_cases hx : x.1 == k
      · simp [hx]
      · have hx' : (x.1 == k) = false := by simpa using hx
        simp only [hx', Bool.false_eq_true, if_false]
        simp only [List.any_cons, hx', Bool.false_or] at h
        exact ih h
  · rename_i h
    rw [List.find?_append]
    have : f.find? (fun p => p.1 == k) = none := by
      rw [List.find?_eq_none]
      intro x hx
      simp only [List.any_eq_true, not_exists, not_and] at h
      exact h x hx
    simp [this]

theorem find_map_other (f : List (Nat × FVal)) (k k' : Nat) (v : FVal) (hne : k' ≠ k) :
    (f.map (fun p => if p.1 == k then (k, v) else p)).find? (fun p => p.1 == k') = f.find? (fun p => p.1 == k') := by
  induction f with
  | nil => rfl
  | cons x xs ih =>
    simp only [List.map_cons, List.find?_cons]
    have h1 : (k == k') = false := by simpa using (fun e => hne e.symm)
    by_cases hx : x.1 == k
    · have hxk : x.1 = k := by simpa using hx
      have h2 : (x.1 == k') = false := by rw [hxk]; exact h1
      simp only [hx, if_true, h1, h2]
      exact ih
    · have hx' : (x.1 == k) = false := by simpa using hx
      simp only [hx', Bool.false_eq_true, if_false]
      cases hk : x.1 == k'
      · exact ih
      · rfl

theorem find_setField_other (f : List (Nat × FVal)) (k k' : Nat) (v : FVal) (hne : k' ≠ k) :
    (setField f k v).find? (fun p => p.1 == k') = f.find? (fun p => p.1 == k') := by
  unfold setField
  split
  · exact find_map_other f k k' v hne
  · rw [List.find?_append]
    have h1 : (k == k') = false := by simpa using (fun e => hne e.symm)
    cases hf : f.find? (fun p => p.1 == k') with
    | none => simp [h1]
    | some x => simp

theorem fieldOf_setField_same (f : List (Nat × FVal)) (d : AttrDef) (v : FVal) : fieldOf (setField f d.attr v) d = v := by
  unfold fieldOf; rw [find_setField_same]

theorem fieldOf_setField_other (f : List (Nat × FVal)) (d d' : AttrDef) (v : FVal) (hne : d'.attr ≠ d.attr) :
    fieldOf (setField f d.attr v) d' = fieldOf f d' := by
  unfold fieldOf; rw [find_setField_other _ _ _ _ hne]

/-- One AVP of a scalar definition is assigned to that definition's attribute. -/
theorem assignStep_scalar (getv : Ty → Bytes → R Value) (dict : DTree) (c : ClassDef) (recur : Nat → List Avp → R FVal)
    (fields : List (Nat × FVal)) (extra : List Avp) (a : Avp) (d : AttrDef) (e : DictEntry) (v : Value)
    (hn : neededDef c.defs a.code a.vendor = some d) (ht : d.tclass = none)
    (he : lookupDict dict a.code a.vendor = some e) (hg : getv (Ty.ofTag e.ty) a.payload = .ok v)
    (hcur : (∀ vs, fieldOf fields d ≠ .list vs) ∧ (∀ os, fieldOf fields d ≠ .objs os)) :
    assignStep getv dict c recur (fields, extra) a = .ok (setField fields d.attr (.scalar v), extra) := by
  unfold assignStep
  simp only [hn, ht, he, hg]
  show (match fieldOf fields d with
    | FVal.list vs => Except.ok (setField fields d.attr (FVal.list (vs ++ [v])), extra)
    | FVal.objs os => Except.ok (setField fields d.attr (FVal.objs (os ++ [FVal.scalar v])), extra)
    | _ => Except.ok (setField fields d.attr (FVal.scalar v), extra)) = _
  cases hf : fieldOf fields d with
  | list vs => exact absurd hf (hcur.1 vs)
  | objs os => exact absurd hf (hcur.2 os)
  | _ => rfl

/-- the value a set scalar attribute must have after the round trip -/
def expectAfter (fs f0 : List (Nat × FVal)) (ds : List AttrDef) (d' : AttrDef) : FVal :=
  if d' ∈ ds then (match fieldOf fs d' with | .scalar v => .scalar v | _ => fieldOf f0 d') else fieldOf f0 d'

/-- what the theorem asks of an attribute value: unset, or a scalar of the
    documented domain under a definition without container class -/
def ScalarOrUnset (dict : DTree) (d : AttrDef) (v : FVal) : Prop :=
  v = .unset ∨ ∃ x e, v = .scalar x ∧ d.tclass = none ∧ lookupDict dict d.code d.vendor = some e ∧ InDomain (Ty.ofTag e.ty) x

theorem defsDistinct_head {d : AttrDef} {ds : List AttrDef} (h : defsDistinct (d :: ds) = true) :
    (∀ x ∈ ds, x.attr ≠ d.attr) ∧ defsDistinct ds = true := by
  simp only [defsDistinct, Bool.and_eq_true, List.all_eq_true] at h
  refine ⟨?_, h.2⟩
  intro x hx
  have := (h.1 x hx).2
  intro e
  rw [e] at this
  simp at this

theorem assign_generate_scalars_aux (dict : DTree) (cs : List ClassDef) (g : Bool) (c : ClassDef)
    (recur : Nat → List Avp → R FVal) (fuel : Nat) (fs : List (Nat × FVal))
    (hattr : ∀ x ∈ c.defs, ∀ y ∈ c.defs, x.attr = y.attr → x = y)
    (ds : List AttrDef) (hsub : ∀ d ∈ ds, d ∈ c.defs ∧ neededDef c.defs d.code d.vendor = some d)
    (hdist : defsDistinct ds = true)
    (hval : ∀ d ∈ ds, ScalarOrUnset dict d (fieldOf fs d))
    (avps : List Avp) (hgen : genDefs rfcTime dict cs fuel fs ds = .ok avps)
    (f0 : List (Nat × FVal)) (x0 : List Avp)
    (hf0 : ∀ d ∈ ds, fieldOf fs d ≠ .unset → (∀ vs, fieldOf f0 d ≠ .list vs) ∧ (∀ os, fieldOf f0 d ≠ .objs os)) :
    ∃ f1, assignLoop (assignStep (getValue rfcTime g) dict c recur) avps (f0, x0) = .ok (f1, x0) ∧
      ∀ d' ∈ c.defs, fieldOf f1 d' = expectAfter fs f0 ds d' := by
  induction ds generalizing avps f0 with
  | nil =>
    simp only [genDefs] at hgen
    injection hgen with hgen; subst hgen
    exact ⟨f0, rfl, fun d' _ => by simp [expectAfter]⟩
  | cons d ds ih =>
    obtain ⟨hne, hdist'⟩ := defsDistinct_head hdist
    have hdmem := (hsub d (List.mem_cons_self ..)).1
    have hneed := (hsub d (List.mem_cons_self ..)).2
    have hnotin : d ∉ ds := fun hm => hne d hm rfl
    simp only [genDefs, bind, Except.bind, pure, Except.pure] at hgen
    split at hgen
    · contradiction
    · rename_i here hhere
      split at hgen
      · contradiction
      · rename_i more hmore
        injection hgen with hgen; subst hgen
        have hsub' : ∀ x ∈ ds, x ∈ c.defs ∧ neededDef c.defs x.code x.vendor = some x :=
          fun x hx => hsub x (List.mem_cons_of_mem _ hx)
        have hval' : ∀ x ∈ ds, ScalarOrUnset dict x (fieldOf fs x) := fun x hx => hval x (List.mem_cons_of_mem _ hx)
        have hhere : genOne rfcTime dict cs fuel d (fieldOf fs d) = .ok here := hhere
        rcases hval d (List.mem_cons_self ..) with hu | ⟨x, e, hx, ht, he, hdom⟩
        · -- unset: nothing generated for `d`
          rw [hu] at hhere
          simp only [genOne] at hhere
          injection hhere with hhere; subst hhere
          obtain ⟨f1, h1, h2⟩ := ih hsub' hdist' hval' more hmore f0 (fun x hx hs => hf0 x (List.mem_cons_of_mem _ hx) hs)
          refine ⟨f1, by simpa using h1, ?_⟩
          intro d' hd'
          rw [h2 d' hd']
          unfold expectAfter
          by_cases hd : d' = d
          · subst hd; simp [hnotin, hu]
          · simp [hd]
        · -- a scalar: one AVP, assigned back to `d`
          rw [hx] at hhere
          obtain ⟨a, ha, hcar, hget⟩ := C03_scalar_roundtrip dict cs fuel g d x e he ht hdom here hhere
          subst ha
          obtain ⟨hc1, hc2, _⟩ := hcar
          have hneed' : neededDef c.defs a.code a.vendor = some d := by rw [hc1, hc2]; exact hneed
          have he' : lookupDict dict a.code a.vendor = some e := by rw [hc1, hc2]; exact he
          have hstep := assignStep_scalar (getValue rfcTime g) dict c recur f0 x0 a d e x hneed' ht he' hget
            (hf0 d (List.mem_cons_self ..) (by rw [hx]; simp))
          have hf0' : ∀ y ∈ ds, fieldOf fs y ≠ .unset → (∀ vs, fieldOf (setField f0 d.attr (.scalar x)) y ≠ .list vs) ∧
              (∀ os, fieldOf (setField f0 d.attr (.scalar x)) y ≠ .objs os) := by
            intro y hy hs
            rw [fieldOf_setField_other _ _ _ _ (hne y hy)]
            exact hf0 y (List.mem_cons_of_mem _ hy) hs
          obtain ⟨f1, h1, h2⟩ := ih hsub' hdist' hval' more hmore (setField f0 d.attr (.scalar x)) hf0'
          refine ⟨f1, ?_, ?_⟩
          · simp only [List.singleton_append, assignLoop, hstep]
            exact h1
          · intro d' hd'
            rw [h2 d' hd']
            unfold expectAfter
            by_cases hd : d' = d
            · subst hd
              simp only [hnotin, if_false, List.mem_cons, true_or, if_true, hx]
              exact fieldOf_setField_same _ _ _
            · have hattr' : d'.attr ≠ d.attr := fun e' => hd (hattr d' hd' d hdmem e')
              simp only [List.mem_cons, hd, false_or]
              rw [fieldOf_setField_other _ _ _ _ hattr']

theorem assignLoop_append (step : List (Nat × FVal) × List Avp → Avp → R (List (Nat × FVal) × List Avp))
    (l1 l2 : List Avp) (st st1 : List (Nat × FVal) × List Avp) (h : assignLoop step l1 st = .ok st1) :
    assignLoop step (l1 ++ l2) st = assignLoop step l2 st1 := by
  induction l1 generalizing st with
  | nil => simp only [assignLoop] at h; injection h with h; subst h; rfl
  | cons a l ih =>
    simp only [List.cons_append, assignLoop] at h ⊢
    split at h
    · contradiction
    · rename_i st' hs
      exact ih st' h

/-- AVPs the class does not declare are carried over unchanged, in order. -/
theorem assignLoop_undeclared (getv : Ty → Bytes → R Value) (dict : DTree) (c : ClassDef) (recur : Nat → List Avp → R FVal)
    (hadd : c.additional ≠ 0) (l : List Avp) (hl : ∀ a ∈ l, neededDef c.defs a.code a.vendor = none)
    (f : List (Nat × FVal)) (x : List Avp) :
    assignLoop (assignStep getv dict c recur) l (f, x) = .ok (f, x ++ l) := by
  induction l generalizing x with
  | nil => simp only [assignLoop, List.append_nil]
  | cons a l ih =>
    have ha := hl a (List.mem_cons_self ..)
    have hstep : assignStep getv dict c recur (f, x) a = .ok (f, x ++ [a]) := by
      unfold assignStep
      simp only [ha, hadd, ne_eq, not_false_eq_true, if_true]
    simp only [assignLoop, hstep]
    rw [ih (fun y hy => hl y (List.mem_cons_of_mem _ hy))]
    simp

/-- the attribute of a fresh object: a list for list attributes, the integer
    default if the class sets one, else unset -/
def initVal (c : ClassDef) (d : AttrDef) : Option (Nat × FVal) :=
  if d.isList then some (d.attr, if d.tclass.isSome then FVal.objs [] else FVal.list [])
  else match c.intDefaults.find? (fun p => p.1 == d.attr) with
    | some p => some (d.attr, FVal.scalar (.int p.2))
    | none => none

theorem initVal_key (c : ClassDef) (d : AttrDef) (p : Nat × FVal) (h : initVal c d = some p) : p.1 = d.attr := by
  unfold initVal at h
  split at h
  · injection h with h; rw [← h]
  · split at h
    · injection h with h; rw [← h]
    · contradiction

theorem find_init (c : ClassDef) (d : AttrDef) (ds : List AttrDef) (hd : ∀ x ∈ ds, x.attr = d.attr → x = d) :
    (ds.filterMap (initVal c)).find? (fun p => p.1 == d.attr) = if d ∈ ds then initVal c d else none := by
  induction ds with
  | nil => simp
  | cons x xs ih =>
    have ih' := ih (fun y hy => hd y (List.mem_cons_of_mem _ hy))
    simp only [List.filterMap_cons]
    by_cases hx : x = d
    · subst hx
      cases hi : initVal c x with
      | none =>
        simp only [List.mem_cons, true_or, if_true]
        rw [ih']
        split
        · exact hi
        · rfl
      | some p =>
        have hk := initVal_key c x p hi
        simp [List.find?_cons, hk]
    · have hne : x.attr ≠ d.attr := fun e => hx (hd x (List.mem_cons_self ..) e)
      cases hi : initVal c x with
      | none =>
        simp only [ih', List.mem_cons]
        have : (d = x) = False := by simp; exact fun e => hx e.symm
        simp [this]
      | some p =>
        have hk := initVal_key c x p hi
        have hpk : (p.1 == d.attr) = false := by rw [hk]; simpa using hne
        simp only [List.find?_cons, hpk, ih', List.mem_cons]
        have : (d = x) = False := by simp; exact fun e => hx e.symm
        simp [this]

theorem initFields_eq (c : ClassDef) : initFields c = c.defs.filterMap (initVal c) := by
  unfold initFields initVal
  rfl

/-- a non-list attribute of a fresh object is unset or an integer default -/
theorem fieldOf_init_nonlist (c : ClassDef) (d : AttrDef) (hd : d ∈ c.defs) (hnl : d.isList = false)
    (hattr : ∀ x ∈ c.defs, ∀ y ∈ c.defs, x.attr = y.attr → x = y) :
    (∀ vs, fieldOf (initFields c) d ≠ .list vs) ∧ (∀ os, fieldOf (initFields c) d ≠ .objs os) := by
  unfold fieldOf
  rw [initFields_eq, find_init c d c.defs (fun x hx e => hattr x hx d hd e)]
  simp only [hd, if_true]
  unfold initVal
  simp only [hnl, Bool.false_eq_true, if_false]
  cases c.intDefaults.find? (fun p => p.1 == d.attr) <;> simp

/-! ### list attributes of plain values -/

/-- One AVP of a list attribute is appended to the attribute's list. -/
theorem assignStep_list_elem (getv : Ty → Bytes → R Value) (dict : DTree) (c : ClassDef) (recur : Nat → List Avp → R FVal)
    (fields : List (Nat × FVal)) (extra : List Avp) (a : Avp) (d : AttrDef) (e : DictEntry) (v : Value) (prev : List Value)
    (hn : neededDef c.defs a.code a.vendor = some d) (ht : d.tclass = none)
    (he : lookupDict dict a.code a.vendor = some e) (hg : getv (Ty.ofTag e.ty) a.payload = .ok v)
    (hcur : fieldOf fields d = .list prev) :
    assignStep getv dict c recur (fields, extra) a = .ok (setField fields d.attr (.list (prev ++ [v])), extra) := by
  unfold assignStep
  simp only [hn, ht, he, hg]
  show (match fieldOf fields d with
    | FVal.list vs => Except.ok (setField fields d.attr (FVal.list (vs ++ [v])), extra)
    | FVal.objs os => Except.ok (setField fields d.attr (FVal.objs (os ++ [FVal.scalar v])), extra)
    | _ => Except.ok (setField fields d.attr (FVal.scalar v), extra)) = _
  rw [hcur]

/-- element by element: the AVP generated for a list element carries the
    definition's key and the typed encoding of the element -/
inductive ElemsGen (dict : DTree) (d : AttrDef) (e : DictEntry) : List Value → List Avp → Prop
  | nil : ElemsGen dict d e [] []
  | cons (v : Value) (vs : List Value) (a : Avp) (as : List Avp) :
      a.code = d.code → a.vendor = d.vendor → setArg rfcTime (Ty.ofTag e.ty) (scalarArg v) = .ok a.payload →
      ElemsGen dict d e vs as → ElemsGen dict d e (v :: vs) (a :: as)

theorem mapM_elems (dict : DTree) (d : AttrDef) (e : DictEntry) (he : lookupDict dict d.code d.vendor = some e)
    (vs : List Value) (out : List Avp)
    (h : vs.mapM (fun v => avpNew rfcTime dict d.code d.vendor (some (scalarArg v)) d.mand 0) = .ok out) :
    ElemsGen dict d e vs out := by
  induction vs generalizing out with
  | nil =>
    simp only [List.mapM_nil, pure, Except.pure] at h
    injection h with h; subst h
    exact .nil
  | cons v vs ih =>
    rw [List.mapM_cons] at h
    simp only [bind, Except.bind, pure, Except.pure] at h
    split at h
    · contradiction
    · rename_i a ha
      split at h
      · contradiction
      · rename_i rest hrest
        injection h with h; subst h
        obtain ⟨h1, h2, _⟩ := avpNew_spec _ _ _ _ _ _ _ _ ha
        obtain ⟨e', he', hp⟩ := avpNew_payload _ _ _ _ _ _ _ _ ha
        rw [he] at he'; injection he' with he'; subst he'
        exact .cons v vs a rest h1 h2 hp (ih rest hrest)

/-- assigning the AVPs of a list attribute appends the elements, in order, and
    touches no other attribute -/
theorem assignLoop_list (dict : DTree) (g : Bool) (c : ClassDef) (recur : Nat → List Avp → R FVal)
    (d : AttrDef) (e : DictEntry) (hneed : neededDef c.defs d.code d.vendor = some d) (ht : d.tclass = none)
    (he : lookupDict dict d.code d.vendor = some e)
    (vs : List Value) (as : List Avp) (hgen : ElemsGen dict d e vs as) (hdom : ∀ v ∈ vs, InDomain (Ty.ofTag e.ty) v)
    (f0 : List (Nat × FVal)) (x0 : List Avp) (prev : List Value) (hcur : fieldOf f0 d = .list prev) :
    ∃ f1, assignLoop (assignStep (getValue rfcTime g) dict c recur) as (f0, x0) = .ok (f1, x0) ∧
      fieldOf f1 d = .list (prev ++ vs) ∧ ∀ d', d'.attr ≠ d.attr → fieldOf f1 d' = fieldOf f0 d' := by
  induction hgen generalizing f0 prev with
  | nil => exact ⟨f0, rfl, by simpa using hcur, fun _ _ => rfl⟩
  | cons v vs a as hc1 hc2 hp _ ih =>
    have hneed' : neededDef c.defs a.code a.vendor = some d := by rw [hc1, hc2]; exact hneed
    have he' : lookupDict dict a.code a.vendor = some e := by rw [hc1, hc2]; exact he
    have hv := hdom v (List.mem_cons_self ..)
    obtain ⟨p, hs, hg⟩ := value_roundtrip g (Ty.ofTag e.ty) v hv
    have hsa : setArg rfcTime (Ty.ofTag e.ty) (scalarArg v) = setValue rfcTime (Ty.ofTag e.ty) v := by
      cases v <;> first | rfl | (cases hty : Ty.ofTag e.ty <;> simp [hty, InDomain] at hv)
    rw [hsa, hs] at hp
    injection hp with hp
    have hget : getValue rfcTime g (Ty.ofTag e.ty) a.payload = .ok v := by rw [← hp]; exact hg
    have hstep := assignStep_list_elem (getValue rfcTime g) dict c recur f0 x0 a d e v prev hneed' ht he' hget hcur
    obtain ⟨f1, h1, h2, h3⟩ := ih (fun y hy => hdom y (List.mem_cons_of_mem _ hy)) (setField f0 d.attr (.list (prev ++ [v]))) (prev ++ [v])
      (fieldOf_setField_same _ _ _)
    refine ⟨f1, ?_, ?_, ?_⟩
    · simp only [assignLoop, hstep]; exact h1
    · rw [h2]; simp
    · intro d' hne
      rw [h3 d' hne, fieldOf_setField_other _ _ _ _ hne]

/-- the value an attribute must have after the round trip: a set scalar, the
    previous list extended by the set elements, or what was there before -/
def expectFlat (fs f0 : List (Nat × FVal)) (ds : List AttrDef) (d' : AttrDef) : FVal :=
  if d' ∈ ds then
    (match fieldOf fs d' with
     | .scalar v => .scalar v
     | .list xs => (match fieldOf f0 d' with | .list p => .list (p ++ xs) | o => o)
     | _ => fieldOf f0 d')
  else fieldOf f0 d'

/-- unset, an in-domain scalar, or a list of in-domain plain values, under a
    definition without container class -/
def FlatOK (dict : DTree) (d : AttrDef) (v : FVal) : Prop :=
  v = .unset ∨
  (∃ x e, v = .scalar x ∧ d.tclass = none ∧ lookupDict dict d.code d.vendor = some e ∧ InDomain (Ty.ofTag e.ty) x) ∨
  (∃ xs e, v = .list xs ∧ d.tclass = none ∧ lookupDict dict d.code d.vendor = some e ∧ ∀ x ∈ xs, InDomain (Ty.ofTag e.ty) x)

/-- what the starting object must hold under a definition whose attribute is set -/
def StartOK (fs f0 : List (Nat × FVal)) (d : AttrDef) : Prop :=
  match fieldOf fs d with
  | .scalar _ => (∀ vs, fieldOf f0 d ≠ .list vs) ∧ (∀ os, fieldOf f0 d ≠ .objs os)
  | .list _ => ∃ prev, fieldOf f0 d = .list prev
  | _ => True

theorem assign_generate_flat_aux (dict : DTree) (cs : List ClassDef) (g : Bool) (c : ClassDef)
    (recur : Nat → List Avp → R FVal) (fuel : Nat) (fs : List (Nat × FVal))
    (hattr : ∀ x ∈ c.defs, ∀ y ∈ c.defs, x.attr = y.attr → x = y)
    (ds : List AttrDef) (hsub : ∀ d ∈ ds, d ∈ c.defs ∧ neededDef c.defs d.code d.vendor = some d)
    (hdist : defsDistinct ds = true)
    (hval : ∀ d ∈ ds, FlatOK dict d (fieldOf fs d))
    (avps : List Avp) (hgen : genDefs rfcTime dict cs fuel fs ds = .ok avps)
    (f0 : List (Nat × FVal)) (x0 : List Avp) (hf0 : ∀ d ∈ ds, StartOK fs f0 d) :
    ∃ f1, assignLoop (assignStep (getValue rfcTime g) dict c recur) avps (f0, x0) = .ok (f1, x0) ∧
      ∀ d' ∈ c.defs, fieldOf f1 d' = expectFlat fs f0 ds d' := by
  induction ds generalizing avps f0 with
  | nil =>
    simp only [genDefs] at hgen
    injection hgen with hgen; subst hgen
    exact ⟨f0, rfl, fun d' _ => by simp [expectFlat]⟩
  | cons d ds ih =>
    obtain ⟨hne, hdist'⟩ := defsDistinct_head hdist
    have hdmem := (hsub d (List.mem_cons_self ..)).1
    have hneed := (hsub d (List.mem_cons_self ..)).2
    have hnotin : d ∉ ds := fun hm => hne d hm rfl
    simp only [genDefs, bind, Except.bind, pure, Except.pure] at hgen
    split at hgen
    · contradiction
    · rename_i here hhere
      split at hgen
      · contradiction
      · rename_i more hmore
        injection hgen with hgen; subst hgen
        have hsub' : ∀ x ∈ ds, x ∈ c.defs ∧ neededDef c.defs x.code x.vendor = some x :=
          fun x hx => hsub x (List.mem_cons_of_mem _ hx)
        have hval' : ∀ x ∈ ds, FlatOK dict x (fieldOf fs x) := fun x hx => hval x (List.mem_cons_of_mem _ hx)
        have hhere : genOne rfcTime dict cs fuel d (fieldOf fs d) = .ok here := hhere
        -- whatever is assigned for `d` leaves the other attributes alone: the starting condition of the rest survives
        have keep : ∀ (f' : List (Nat × FVal)), (∀ d', d'.attr ≠ d.attr → fieldOf f' d' = fieldOf f0 d') →
            ∀ y ∈ ds, StartOK fs f' y := by
          intro f' hsame y hy
          have := hf0 y (List.mem_cons_of_mem _ hy)
          unfold StartOK at this ⊢
          rw [hsame y (hne y hy)]
          exact this
        -- …and the expectation composes
        have compose : ∀ (f' f1 : List (Nat × FVal)), (∀ d', d'.attr ≠ d.attr → fieldOf f' d' = fieldOf f0 d') →
            fieldOf f' d = expectFlat fs f0 [d] d →
            (∀ d' ∈ c.defs, fieldOf f1 d' = expectFlat fs f' ds d') →
            ∀ d' ∈ c.defs, fieldOf f1 d' = expectFlat fs f0 (d :: ds) d' := by
          intro f' f1 hsame hd h2 d' hd'
          rw [h2 d' hd']
          unfold expectFlat
          by_cases hdd : d' = d
          · subst hdd
            simp only [hnotin, if_false, List.mem_cons, true_or, if_true]
            rw [hd]; simp [expectFlat]
          · have hattr' : d'.attr ≠ d.attr := fun e' => hdd (hattr d' hd' d hdmem e')
            simp only [List.mem_cons, hdd, false_or]
            rw [hsame d' hattr']
        rcases hval d (List.mem_cons_self ..) with hu | ⟨x, e, hx, ht, he, hdom⟩ | ⟨xs, e, hx, ht, he, hdom⟩
        · -- unset: nothing generated for `d`
          rw [hu] at hhere
          simp only [genOne] at hhere
          injection hhere with hhere; subst hhere
          obtain ⟨f1, h1, h2⟩ := ih hsub' hdist' hval' more hmore f0 (keep f0 (fun _ _ => rfl))
          refine ⟨f1, by simpa using h1, compose f0 f1 (fun _ _ => rfl) ?_ h2⟩
          simp [expectFlat, hu]
        · -- a scalar: one AVP, assigned back to `d`
          rw [hx] at hhere
          obtain ⟨a, ha, hcar, hget⟩ := C03_scalar_roundtrip dict cs fuel g d x e he ht hdom here hhere
          subst ha
          obtain ⟨hc1, hc2, _⟩ := hcar
          have hneed' : neededDef c.defs a.code a.vendor = some d := by rw [hc1, hc2]; exact hneed
          have he' : lookupDict dict a.code a.vendor = some e := by rw [hc1, hc2]; exact he
          have hst := hf0 d (List.mem_cons_self ..)
          unfold StartOK at hst
          rw [hx] at hst
          have hstep := assignStep_scalar (getValue rfcTime g) dict c recur f0 x0 a d e x hneed' ht he' hget hst
          have hsame : ∀ d', d'.attr ≠ d.attr → fieldOf (setField f0 d.attr (.scalar x)) d' = fieldOf f0 d' :=
            fun d' h => fieldOf_setField_other _ _ _ _ h
          obtain ⟨f1, h1, h2⟩ := ih hsub' hdist' hval' more hmore (setField f0 d.attr (.scalar x)) (keep _ hsame)
          refine ⟨f1, ?_, compose _ f1 hsame ?_ h2⟩
          · simp only [List.singleton_append, assignLoop, hstep]; exact h1
          · rw [fieldOf_setField_same]; simp [expectFlat, hx]
        · -- a list of plain values: one AVP per element, appended in order
          rw [hx] at hhere
          simp only [genOne, ht, Option.isSome_none, Bool.false_eq_true, if_false] at hhere
          have hel := mapM_elems dict d e he xs here hhere
          have hst := hf0 d (List.mem_cons_self ..)
          unfold StartOK at hst
          rw [hx] at hst
          obtain ⟨prev, hprev⟩ := hst
          obtain ⟨fm, hm1, hm2, hm3⟩ := assignLoop_list dict g c recur d e hneed ht he xs here hel hdom f0 x0 prev hprev
          obtain ⟨f1, h1, h2⟩ := ih hsub' hdist' hval' more hmore fm (keep fm hm3)
          refine ⟨f1, ?_, compose fm f1 hm3 ?_ h2⟩
          · rw [assignLoop_append _ here more _ _ hm1]; exact h1
          · rw [hm2]; simp [expectFlat, hx, hprev]

/-- a list attribute of plain values starts as the empty list in a fresh object -/
theorem fieldOf_init_list (c : ClassDef) (d : AttrDef) (hd : d ∈ c.defs) (hl : d.isList = true) (ht : d.tclass = none)
    (hattr : ∀ x ∈ c.defs, ∀ y ∈ c.defs, x.attr = y.attr → x = y) :
    fieldOf (initFields c) d = .list [] := by
  unfold fieldOf
  rw [initFields_eq, find_init c d c.defs (fun x hx e => hattr x hx d hd e)]
  simp only [hd, if_true]
  unfold initVal
  simp [hl, ht]

end DV
