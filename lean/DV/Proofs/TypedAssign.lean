/-
  `assign_attr_from_defs` undoes `generate_avps_from_defs` for objects whose set
  attributes are scalars (no list attributes, no nested containers).
-/
import DV.Properties.C03
namespace DV
open Spec
set_option linter.unusedSimpArgs false

theorem find_setField_same (f : List (Nat × FVal)) (k : Nat) (v : FVal) :
    (setField f k v).find? (fun p => p.1 == k) = some (k, v) := by
  unfold setField
  split
  · rename_i h
    induction f with
    | nil => simp at h
    | cons x xs ih =>
      simp only [List.map_cons, List.find?_cons]
      by_cases hx : x.1 == k
      · simp [hx]
      · have hx' : (x.1 == k) = false := by simpa using hx
        simp only [hx', Bool.false_eq_true, if_false]
        simp only [List.any_cons, hx', Bool.false_or] at h
        exact ih h
  · rename_i h
    rw [List.find?_append]
    have : f.find? (fun p => p.1 == k) = none := by
      rw [List.find?_eq_none]
      intro x hx
      simp only [List.any_eq_true, not_exists, not_and] at h
      exact h x hx
    simp [this]

theorem find_map_other (f : List (Nat × FVal)) (k k' : Nat) (v : FVal) (hne : k' ≠ k) :
    (f.map (fun p => if p.1 == k then (k, v) else p)).find? (fun p => p.1 == k') = f.find? (fun p => p.1 == k') := by
  induction f with
  | nil => rfl
  | cons x xs ih =>
    simp only [List.map_cons, List.find?_cons]
    have h1 : (k == k') = false := by simpa using (fun e => hne e.symm)
    by_cases hx : x.1 == k
    · have hxk : x.1 = k := by simpa using hx
      have h2 : (x.1 == k') = false := by rw [hxk]; exact h1
      simp only [hx, if_true, h1, h2]
      exact ih
    · have hx' : (x.1 == k) = false := by simpa using hx
      simp only [hx', Bool.false_eq_true, if_false]
      cases hk : x.1 == k'
      · exact ih
      · rfl

theorem find_setField_other (f : List (Nat × FVal)) (k k' : Nat) (v : FVal) (hne : k' ≠ k) :
    (setField f k v).find? (fun p => p.1 == k') = f.find? (fun p => p.1 == k') := by
  unfold setField
  split
  · exact find_map_other f k k' v hne
  · rw [List.find?_append]
    have h1 : (k == k') = false := by simpa using (fun e => hne e.symm)
    cases hf : f.find? (fun p => p.1 == k') with
    | none => simp [h1]
    | some x => simp

theorem fieldOf_setField_same (f : List (Nat × FVal)) (d : AttrDef) (v : FVal) : fieldOf (setField f d.attr v) d = v := by
  unfold fieldOf; rw [find_setField_same]

theorem fieldOf_setField_other (f : List (Nat × FVal)) (d d' : AttrDef) (v : FVal) (hne : d'.attr ≠ d.attr) :
    fieldOf (setField f d.attr v) d' = fieldOf f d' := by
  unfold fieldOf; rw [find_setField_other _ _ _ _ hne]

/-- One AVP of a scalar definition is assigned to that definition's attribute. -/
theorem assignStep_scalar (getv : Ty → Bytes → R Value) (dict : DTree) (c : ClassDef) (recur : Nat → List Avp → R FVal)
    (fields : List (Nat × FVal)) (extra : List Avp) (a : Avp) (d : AttrDef) (e : DictEntry) (v : Value)
    (hn : neededDef c.defs a.code a.vendor = some d) (ht : d.tclass = none)
    (he : lookupDict dict a.code a.vendor = some e) (hg : getv (Ty.ofTag e.ty) a.payload = .ok v)
    (hcur : (∀ vs, fieldOf fields d ≠ .list vs) ∧ (∀ os, fieldOf fields d ≠ .objs os)) :
    assignStep getv dict c recur (fields, extra) a = .ok (setField fields d.attr (.scalar v), extra) := by
  unfold assignStep
  simp only [hn, ht, he, hg]
  show (match fieldOf fields d with
    | FVal.list vs => Except.ok (setField fields d.attr (FVal.list (vs ++ [v])), extra)
    | FVal.objs os => Except.ok (setField fields d.attr (FVal.objs (os ++ [FVal.scalar v])), extra)
    | _ => Except.ok (setField fields d.attr (FVal.scalar v), extra)) = _
  cases hf : fieldOf fields d with
  | list vs => exact absurd hf (hcur.1 vs)
  | objs os => exact absurd hf (hcur.2 os)
  | _ => rfl

/-- the value a set scalar attribute must have after the round trip -/
def expectAfter (fs f0 : List (Nat × FVal)) (ds : List AttrDef) (d' : AttrDef) : FVal :=
  if d' ∈ ds then (match fieldOf fs d' with | .scalar v => .scalar v | _ => fieldOf f0 d') else fieldOf f0 d'

/-- what the theorem asks of an attribute value: unset, or a scalar of the
    documented domain under a definition without container class -/
def ScalarOrUnset (dict : DTree) (d : AttrDef) (v : FVal) : Prop :=
  v = .unset ∨ ∃ x e, v = .scalar x ∧ d.tclass = none ∧ lookupDict dict d.code d.vendor = some e ∧ InDomain (Ty.ofTag e.ty) x

theorem defsDistinct_head {d : AttrDef} {ds : List AttrDef} (h : defsDistinct (d :: ds) = true) :
    (∀ x ∈ ds, x.attr ≠ d.attr) ∧ defsDistinct ds = true := by
  simp only [defsDistinct, Bool.and_eq_true, List.all_eq_true] at h
  refine ⟨?_, h.2⟩
  intro x hx
  have := (h.1 x hx).2
  intro e
  rw [e] at this
  simp at this

theorem assign_generate_scalars_aux (dict : DTree) (cs : List ClassDef) (g : Bool) (c : ClassDef)
    (recur : Nat → List Avp → R FVal) (fuel : Nat) (fs : List (Nat × FVal))
    (hattr : ∀ x ∈ c.defs, ∀ y ∈ c.defs, x.attr = y.attr → x = y)
    (ds : List AttrDef) (hsub : ∀ d ∈ ds, d ∈ c.defs ∧ neededDef c.defs d.code d.vendor = some d)
    (hdist : defsDistinct ds = true)
    (hval : ∀ d ∈ ds, ScalarOrUnset dict d (fieldOf fs d))
    (avps : List Avp) (hgen : genDefs rfcTime dict cs fuel fs ds = .ok avps)
    (f0 : List (Nat × FVal)) (x0 : List Avp)
    (hf0 : ∀ d ∈ ds, fieldOf fs d ≠ .unset → (∀ vs, fieldOf f0 d ≠ .list vs) ∧ (∀ os, fieldOf f0 d ≠ .objs os)) :
    ∃ f1, assignLoop (assignStep (getValue rfcTime g) dict c recur) avps (f0, x0) = .ok (f1, x0) ∧
      ∀ d' ∈ c.defs, fieldOf f1 d' = expectAfter fs f0 ds d' := by
  induction ds generalizing avps f0 with
  | nil =>
    simp only [genDefs] at hgen
    injection hgen with hgen; subst hgen
    exact ⟨f0, rfl, fun d' _ => by simp [expectAfter]⟩
  | cons d ds ih =>
    obtain ⟨hne, hdist'⟩ := defsDistinct_head hdist
    have hdmem := (hsub d (List.mem_cons_self ..)).1
    have hneed := (hsub d (List.mem_cons_self ..)).2
    have hnotin : d ∉ ds := fun hm => hne d hm rfl
    simp only [genDefs, bind, Except.bind, pure, Except.pure] at hgen
    split at hgen
    · contradiction
    · rename_i here hhere
      split at hgen
      · contradiction
      · rename_i more hmore
        injection hgen with hgen; subst hgen
        have hsub' : ∀ x ∈ ds, x ∈ c.defs ∧ neededDef c.defs x.code x.vendor = some x :=
          fun x hx => hsub x (List.mem_cons_of_mem _ hx)
        have hval' : ∀ x ∈ ds, ScalarOrUnset dict x (fieldOf fs x) := fun x hx => hval x (List.mem_cons_of_mem _ hx)
        have hhere : genOne rfcTime dict cs fuel d (fieldOf fs d) = .ok here := hhere
        rcases hval d (List.mem_cons_self ..) with hu | ⟨x, e, hx, ht, he, hdom⟩
        · -- unset: nothing generated for `d`
          rw [hu] at hhere
          simp only [genOne] at hhere
          injection hhere with hhere; subst hhere
          obtain ⟨f1, h1, h2⟩ := ih hsub' hdist' hval' more hmore f0 (fun x hx hs => hf0 x (List.mem_cons_of_mem _ hx) hs)
          refine ⟨f1, by simpa using h1, ?_⟩
          intro d' hd'
          rw [h2 d' hd']
          unfold expectAfter
          by_cases hd : d' = d
          · subst hd; simp [hnotin, hu]
          · simp [hd]
        · -- a scalar: one AVP, assigned back to `d`
          rw [hx] at hhere
          obtain ⟨a, ha, hcar, hget⟩ := C03_scalar_roundtrip dict cs fuel g d x e he ht hdom here hhere
          subst ha
          obtain ⟨hc1, hc2, _⟩ := hcar
          have hneed' : neededDef c.defs a.code a.vendor = some d := by rw [hc1, hc2]; exact hneed
          have he' : lookupDict dict a.code a.vendor = some e := by rw [hc1, hc2]; exact he
          have hstep := assignStep_scalar (getValue rfcTime g) dict c recur f0 x0 a d e x hneed' ht he' hget
            (hf0 d (List.mem_cons_self ..) (by rw [hx]; simp))
          have hf0' : ∀ y ∈ ds, fieldOf fs y ≠ .unset → (∀ vs, fieldOf (setField f0 d.attr (.scalar x)) y ≠ .list vs) ∧
              (∀ os, fieldOf (setField f0 d.attr (.scalar x)) y ≠ .objs os) := by
            intro y hy hs
            rw [fieldOf_setField_other _ _ _ _ (hne y hy)]
            exact hf0 y (List.mem_cons_of_mem _ hy) hs
          obtain ⟨f1, h1, h2⟩ := ih hsub' hdist' hval' more hmore (setField f0 d.attr (.scalar x)) hf0'
          refine ⟨f1, ?_, ?_⟩
          · simp only [List.singleton_append, assignLoop, hstep]
            exact h1
          · intro d' hd'
            rw [h2 d' hd']
            unfold expectAfter
            by_cases hd : d' = d
            · subst hd
              simp only [hnotin, if_false, List.mem_cons, true_or, if_true, hx]
              exact fieldOf_setField_same _ _ _
            · have hattr' : d'.attr ≠ d.attr := fun e' => hd (hattr d' hd' d hdmem e')
              simp only [List.mem_cons, hd, false_or]
              rw [fieldOf_setField_other _ _ _ _ hattr']

theorem assignLoop_append (step : List (Nat × FVal) × List Avp → Avp → R (List (Nat × FVal) × List Avp))
    (l1 l2 : List Avp) (st st1 : List (Nat × FVal) × List Avp) (h : assignLoop step l1 st = .ok st1) :
    assignLoop step (l1 ++ l2) st = assignLoop step l2 st1 := by
  induction l1 generalizing st with
  | nil => simp only [assignLoop] at h; injection h with h; subst h; rfl
  | cons a l ih =>
    simp only [List.cons_append, assignLoop] at h ⊢
    split at h
    · contradiction
    · rename_i st' hs
      exact ih st' h

/-- AVPs the class does not declare are carried over unchanged, in order. -/
theorem assignLoop_undeclared (getv : Ty → Bytes → R Value) (dict : DTree) (c : ClassDef) (recur : Nat → List Avp → R FVal)
    (hadd : c.additional ≠ 0) (l : List Avp) (hl : ∀ a ∈ l, neededDef c.defs a.code a.vendor = none)
    (f : List (Nat × FVal)) (x : List Avp) :
    assignLoop (assignStep getv dict c recur) l (f, x) = .ok (f, x ++ l) := by
  induction l generalizing x with
  | nil => simp only [assignLoop, List.append_nil]
  | cons a l ih =>
    have ha := hl a (List.mem_cons_self ..)
    have hstep : assignStep getv dict c recur (f, x) a = .ok (f, x ++ [a]) := by
      unfold assignStep
      simp only [ha, hadd, ne_eq, not_false_eq_true, if_true]
    simp only [assignLoop, hstep]
    rw [ih (fun y hy => hl y (List.mem_cons_of_mem _ hy))]
    simp

/-- the attribute of a fresh object: a list for list attributes, the integer
    default if the class sets one, else unset -/
def initVal (c : ClassDef) (d : AttrDef) : Option (Nat × FVal) :=
  if d.isList then some (d.attr, if d.tclass.isSome then FVal.objs [] else FVal.list [])
  else match c.intDefaults.find? (fun p => p.1 == d.attr) with
    | some p => some (d.attr, FVal.scalar (.int p.2))
    | none => none

theorem initVal_key (c : ClassDef) (d : AttrDef) (p : Nat × FVal) (h : initVal c d = some p) : p.1 = d.attr := by
  unfold initVal at h
  split at h
  · injection h with h; rw [← h]
  · split at h
    · injection h with h; rw [← h]
    · contradiction

theorem find_init (c : ClassDef) (d : AttrDef) (ds : List AttrDef) (hd : ∀ x ∈ ds, x.attr = d.attr → x = d) :
    (ds.filterMap (initVal c)).find? (fun p => p.1 == d.attr) = if d ∈ ds then initVal c d else none := by
  induction ds with
  | nil => simp
  | cons x xs ih =>
    have ih' := ih (fun y hy => hd y (List.mem_cons_of_mem _ hy))
    simp only [List.filterMap_cons]
    by_cases hx : x = d
    · subst hx
      cases hi : initVal c x with
      | none =>
        simp only [List.mem_cons, true_or, if_true]
        rw [ih']
        split
        · exact hi
        · rfl
      | some p =>
        have hk := initVal_key c x p hi
        simp [List.find?_cons, hk]
    · have hne : x.attr ≠ d.attr := fun e => hx (hd x (List.mem_cons_self ..) e)
      cases hi : initVal c x with
      | none =>
        simp only [ih', List.mem_cons]
        have : (d = x) = False := by simp; exact fun e => hx e.symm
        simp [this]
      | some p =>
        have hk := initVal_key c x p hi
        have hpk : (p.1 == d.attr) = false := by rw [hk]; simpa using hne
        simp only [List.find?_cons, hpk, ih', List.mem_cons]
        have : (d = x) = False := by simp; exact fun e => hx e.symm
        simp [this]

theorem initFields_eq (c : ClassDef) : initFields c = c.defs.filterMap (initVal c) := by
  unfold initFields initVal
  rfl

/-- a non-list attribute of a fresh object is unset or an integer default -/
theorem fieldOf_init_nonlist (c : ClassDef) (d : AttrDef) (hd : d ∈ c.defs) (hnl : d.isList = false)
    (hattr : ∀ x ∈ c.defs, ∀ y ∈ c.defs, x.attr = y.attr → x = y) :
    (∀ vs, fieldOf (initFields c) d ≠ .list vs) ∧ (∀ os, fieldOf (initFields c) d ≠ .objs os) := by
  unfold fieldOf
  rw [initFields_eq, find_init c d c.defs (fun x hx e => hattr x hx d hd e)]
  simp only [hd, if_true]
  unfold initVal
  simp only [hnl, Bool.false_eq_true, if_false]
  cases c.intDefaults.find? (fun p => p.1 == d.attr) <;> simp

end DV
